/-
Safety of the BTOR2 token layer (`Model/Btor2Token.lean`): one lemma per function.  Each one
says: from a state satisfying the invariant `Inv b f` (`Proof/PMHoare.lean`) the function never
panics, re-establishes the invariant, only moves forward, and — what the callers' fuel arguments
need — consumes at least one byte whenever it reports success.  Errors satisfy `Err b f`: never a
panic, an I/O error only from a failing source, a syntax error inside the input.
-/
import Flussab.Model.Btor2
import Flussab.Proof.PMHoare
import Flussab.Proof.Btor2Basic

namespace Flussab
namespace Btor2
open PM Lines

variable {b : VBytes} {f : Bool} {lr lr0 : LR} {E : PErr → LR → Prop}

/-- Postcondition of a token that stays on its line and leaves the mark alone. -/
abbrev TokPost (b : VBytes) (f : Bool) (lr : LR) {α : Type} (r : Option α) (lr1 : LR) : Prop :=
  Inv b f lr1 ∧ Fwd lr lr1 ∧ (r.isSome = true → lr.v.pos < lr1.v.pos)

/-- Postcondition of a token that may end the line or set the mark. -/
abbrev LinePost (b : VBytes) (f : Bool) (lr : LR) {α : Type} (r : Option α) (lr1 : LR) : Prop :=
  Inv b f lr1 ∧ lr.v.pos ≤ lr1.v.pos ∧ (r.isSome = true → lr.v.pos < lr1.v.pos)

/-- Postcondition of a required token: progress. -/
abbrev ReqPost (b : VBytes) (f : Bool) (lr : LR) {α : Type} (_ : α) (lr1 : LR) : Prop :=
  Inv b f lr1 ∧ lr.v.pos < lr1.v.pos

theorem TokPost.line {α : Type} {r : Option α} {lr1 : LR} (h : TokPost b f lr r lr1) :
    LinePost b f lr r lr1 := ⟨h.1, h.2.1.pos, h.2.2⟩

/-! ### scanner rule -/

/-- `while matches!(request_byte_at_offset(offset), Some(<p>)) { offset += 1 }` from `off`. -/
theorem Wp.scanWhileF (e : Ext lr0 lr) (p : UInt8 → Bool) (off : Nat) :
    Wp E (PM.scan (scanWhile p · off)) lr (fun r lr1 => Ext lr0 lr1 ∧ off ≤ r ∧
      AllAt (fun x => p x = true) lr0.v.rest off r ∧
      (off ≤ lr0.v.rest.length → r ≤ lr0.v.rest.length) ∧
      lr1.v.peeked = max lr.v.peeked (lr0.v.pos + r + 1) ∧
      (∀ x, lr0.v.rest[r]? = some x → p x = false) ∧
      (lr0.v.rest.length ≤ r → lr1.v.sawEnd = true)) := by
  apply Wp.scan
  simp only [scanWhile, runLen_eq_takeWhile]
  rw [e.rest]
  obtain ⟨e1, pk, se⟩ := e.demandF (off + ((lr0.v.rest.drop off).takeWhile p).length)
  exact ⟨e1, by omega, allAt_takeWhile p _ _, takeWhile_end p _ _, pk,
    fun x hx => takeWhile_stop_drop p _ _ x hx, se⟩

/-! ### single-byte tokens -/

/-- `if matches!(request_byte(), Some(c)) { advance(1); Res(Ok(())) } else { Fallthrough }` for a
byte `c` that is not a newline. -/
theorem byteToken_ok (c : UInt8) (hc : c ≠ 10) (h : Inv b f lr) :
    Wp E (do if (← reqByte) == some c then advance 1; pure (some ()) else pure none : PM (Option Unit)) lr
      (TokPost b f lr) := by
  refine Wp.bind' (Wp.reqByteF (Ext.refl lr)) ?_
  intro a lr1 ⟨e1, ha, p1, _⟩
  split
  · rename_i heq
    have h0 : lr.v.rest[0]? = some c := by rw [← ha]; simpa using heq
    have hlen : 1 ≤ lr.v.rest.length := by
      have := (List.getElem?_eq_some_iff.mp h0).1; omega
    refine Wp.bind' (Wp.adv e1 h hlen (by omega) (AllAt.single h0 hc)) ?_
    intro _ lr2 ⟨i2, f2, p2, _, _⟩
    exact Wp.pure ⟨i2, f2, fun _ => by omega⟩
  · exact Wp.pure ⟨h.ext e1, e1.fwd, by simp⟩

theorem space_ok (h : Inv b f lr) : Wp E space lr (TokPost b f lr) :=
  byteToken_ok 32 (by decide) h

theorem commentStart_ok (h : Inv b f lr) : Wp E commentStart lr (TokPost b f lr) :=
  byteToken_ok 59 (by decide) h

/-- `unexpected` always fails, with an error at the cursor (or the parked I/O error). -/
theorem unexpected_ok {α : Type} {Q : α → LR → Prop} (h : Inv b f lr) :
    Wp (Err b f) (unexpected : PM α) lr Q := by
  unfold unexpected
  refine Wp.bind' (Wp.newline0F (Ext.refl lr)) ?_
  intro r lr1 ⟨e1, _, _⟩
  split
  · exact Wp.err (h.ext e1)
  · refine Wp.bind (Wp.get ?_)
    split
    · exact Wp.err (h.ext e1)
    · refine Wp.bind (Wp.get ?_)
      refine Wp.bind' (Wp.reqAtF e1 _) ?_
      intro _ lr2 ⟨e2, _⟩
      exact Wp.err (h.ext e2)

/-- `or_give_up(|| unexpected(..))` on a token. -/
theorem orGiveUp_tok {α : Type} {p : PM (Option α)} (h : Wp (Err b f) p lr (TokPost b f lr)) :
    Wp (Err b f) (orGiveUp p unexpected) lr (fun _ lr1 => Inv b f lr1 ∧ Fwd lr lr1 ∧ lr.v.pos < lr1.v.pos) := by
  refine Wp.orGiveUp (h.mono ?_)
  intro r lr1 ⟨i1, f1, s1⟩
  cases r with
  | some a => exact ⟨i1, f1, s1 rfl⟩
  | none => exact unexpected_ok i1

theorem requiredSpace_ok (h : Inv b f lr) :
    Wp (Err b f) requiredSpace lr (fun _ lr1 => Inv b f lr1 ∧ Fwd lr lr1 ∧ lr.v.pos < lr1.v.pos) :=
  orGiveUp_tok (space_ok h)

/-! ### newlines -/

/-- The state after `advance(1)` over a newline followed by `line_at_offset(0)`. -/
def afterNewline (lr : LR) : LR :=
  { lr with v := { lr.v with rest := lr.v.rest.drop 1, pos := lr.v.pos + 1 },
            line := lr.line + 1, lineStart := lr.v.pos + 1 + 0 }

theorem afterNewline_inv (h : Inv b f lr0) (e : Ext lr0 lr) (h0 : lr0.v.rest[0]? = some 10) :
    Inv b f (afterNewline lr) := by
  have hlen : 1 ≤ lr0.v.rest.length := by
    have := (List.getElem?_eq_some_iff.mp h0).1; omega
  have hl := h.rest_length
  have hpl := h.pos_le
  have hb0 : b[lr0.v.pos]? = some 10 := by
    have := h.toBase.getElem? 0; rw [h0] at this; simpa using this.symm
  refine { size := h.size, rest := ?_, pos_le := ?_, fault := ?_, online := ?_, finv := e.finv h.finv }
  · show lr.v.rest.drop 1 = b.drop (lr.v.pos + 1)
    rw [e.rest, e.pos, h.rest, List.drop_drop]
  · show lr.v.pos + 1 ≤ b.length
    rw [e.pos]; omega
  · show lr.v.fault = f
    rw [e.fault]; exact h.fault
  · show OnLine b (lr.v.pos + 1 + 0) (lr.line + 1) (lr.v.pos + 1)
    rw [e.pos, e.line]
    refine ⟨by omega, by omega, fun i h1 h2 => by omega, ?_⟩
    apply lineAt_step b lr0.lineStart lr0.line _ h.online.lineAt
    · have := h.online.le; omega
    · omega
    · have : lr0.v.pos + 1 + 0 - 1 = lr0.v.pos := by omega
      rw [this]; exact h.online.nolf
    · left
      have : lr0.v.pos + 1 + 0 - 1 = lr0.v.pos := by omega
      rw [this]; exact hb0

/-- `newline`: a single `\n`; the line bookkeeping is advanced after the byte is consumed. -/
theorem newline_ok (h : Inv b f lr) : Wp E newline lr (LinePost b f lr) := by
  unfold newline
  refine Wp.bind' (Wp.reqByteF (Ext.refl lr)) ?_
  intro a lr1 ⟨e1, ha, p1, _⟩
  split
  · rename_i heq
    have h0 : lr.v.rest[0]? = some 10 := by rw [← ha]; simpa using heq
    have hlen : 1 ≤ lr.v.rest.length := by
      have := (List.getElem?_eq_some_iff.mp h0).1; omega
    have hl := h.rest_length
    have hpl := h.pos_le
    have hsz := h.size
    obtain ⟨_, hs2⟩ := lineAt_le b _ _ h.online.lineAt
    unfold SizeOK at hsz
    refine Wp.bind (Wp.advance (demanded_ge (by rw [e1.rest]; exact hlen) (by rw [e1.pos]; omega)) ?_)
    refine Wp.bind (Wp.lineAtOffset ?_ ?_ ?_)
    · show lr1.line + 1 ≤ usizeMax
      rw [e1.line]; omega
    · show lr1.v.pos + 1 + 0 ≤ usizeMax
      rw [e1.pos]; omega
    · refine Wp.pure ⟨afterNewline_inv h e1 h0, ?_, fun _ => ?_⟩
      · show lr.v.pos ≤ lr1.v.pos + 1
        rw [e1.pos]; omega
      · show lr.v.pos < lr1.v.pos + 1
        rw [e1.pos]; omega
  · exact Wp.pure ⟨h.ext e1, by rw [e1.pos]; exact Nat.le_refl _, by simp⟩

/-! ### `skip_whitespace` -/

/-- Loop state of `skip_whitespace` at offset `off`: `lrb` is the entry state with the line
bookkeeping advanced over the newlines among the first `off` bytes (all of which are spaces or
newlines); `lr` is the current state (only look-ahead happened). -/
structure WsSt (b : VBytes) (f : Bool) (v0 : View) (lrb lr : LR) (off : Nat) : Prop where
  ext : Ext lrb lr
  base : Base b f lrb
  finv : FInv lrb
  v_eq : lrb.v = v0
  online : OnLine b lrb.lineStart lrb.line (v0.pos + off)
  le : off ≤ v0.rest.length

theorem skipWsLoop_ok (fuel : Nat) : ∀ (off : Nat) (v0 : View) (lrb lr : LR),
    WsSt b f v0 lrb lr off → v0.rest.length + 1 < fuel + off →
    Wp E (skipWsLoop fuel off) lr (fun r lr1 => ∃ lrb', WsSt b f v0 lrb' lr1 r ∧ off ≤ r ∧
      v0.pos + r ≤ lr1.v.peeked) := by
  induction fuel with
  | zero => intro off v0 lrb lr st hf; have := st.le; omega
  | succ fuel ih =>
    intro off v0 lrb lr st hf
    unfold skipWsLoop
    refine Wp.bind' (Wp.reqAtF st.ext off) ?_
    intro a lr1 ⟨e1, ha, p1, _⟩
    have hv := st.v_eq
    rw [hv] at ha p1
    have hbase := st.base
    have hl : v0.rest.length = b.length - v0.pos := by rw [← hv]; exact hbase.rest_length
    have hpl : v0.pos ≤ b.length := by rw [← hv]; exact hbase.pos_le
    split
    · -- a space
      rename_i h32
      have h0 : v0.rest[off]? = some 32 := by rw [← ha]
      have hlt : off < v0.rest.length := (List.getElem?_eq_some_iff.mp h0).1
      have hon : OnLine b lrb.lineStart lrb.line (v0.pos + (off + 1)) := by
        have := OnLine.extend (lr := lrb) (i := off) (j := off + 1) hbase (by rw [hv]; exact st.online)
          (by omega) (by rw [hv]; omega) (by rw [hv]; exact AllAt.single h0 (by decide))
        rw [hv] at this; exact this
      refine (ih (off + 1) v0 lrb lr1 ⟨e1, hbase, st.finv, hv, hon, by omega⟩ (by omega)).mono ?_
      intro r lr2 ⟨lrb', st', hr, hp⟩
      exact ⟨lrb', st', by omega, hp⟩
    · -- a newline: the next line starts behind it
      rename_i h10
      have h0 : v0.rest[off]? = some 10 := by rw [← ha]
      have hlt : off < v0.rest.length := (List.getElem?_eq_some_iff.mp h0).1
      have hb0 : b[v0.pos + off]? = some 10 := by
        have := hbase.getElem? off; rw [hv, h0] at this; exact this.symm
      have hsz := hbase.size
      obtain ⟨_, hs2⟩ := lineAt_le b _ _ st.online.lineAt
      unfold SizeOK at hsz
      refine Wp.bind (Wp.lineAtOffset ?_ ?_ ?_)
      · show lr1.line + 1 ≤ usizeMax
        rw [e1.line]; omega
      · show lr1.v.pos + (off + 1) ≤ usizeMax
        rw [e1.pos, hv]; omega
      · let lrb' : LR := { lrb with line := lrb.line + 1, lineStart := lrb.v.pos + (off + 1) }
        have e' : Ext lrb' { lr1 with line := lr1.line + 1, lineStart := lr1.v.pos + (off + 1) } :=
          ⟨e1.rest, e1.pos, e1.mark, by show lr1.line + 1 = lrb.line + 1; rw [e1.line],
           by show lr1.v.pos + (off + 1) = lrb.v.pos + (off + 1); rw [e1.pos], e1.peeked, e1.fault,
           fun hh => e1.finv hh⟩
        have hon : OnLine b lrb'.lineStart lrb'.line (v0.pos + (off + 1)) := by
          show OnLine b (lrb.v.pos + (off + 1)) (lrb.line + 1) (v0.pos + (off + 1))
          rw [hv]
          refine ⟨Nat.le_refl _, by omega, fun i h1 h2 => by omega, ?_⟩
          apply lineAt_step b lrb.lineStart lrb.line _ st.online.lineAt
          · have := st.online.le; omega
          · omega
          · have : v0.pos + (off + 1) - 1 = v0.pos + off := by omega
            rw [this]; exact st.online.nolf
          · left
            have : v0.pos + (off + 1) - 1 = v0.pos + off := by omega
            rw [this]; exact hb0
        refine (ih (off + 1) v0 lrb' _ ⟨e', ⟨hbase.size, hbase.rest, hbase.pos_le, hbase.fault⟩, st.finv, hv,
          hon, by omega⟩ (by omega)).mono ?_
        intro r lr2 ⟨lrb'', st', hr, hp⟩
        exact ⟨lrb'', st', by omega, hp⟩
    · -- anything else (or the end): stop here
      refine Wp.pure ⟨lrb, ⟨e1, hbase, st.finv, hv, st.online, st.le⟩, Nat.le_refl _, ?_⟩
      rw [p1]; omega

/-- `skip_whitespace`: spaces and newlines. -/
theorem skipWhitespace_ok (h : Inv b f lr) :
    Wp E skipWhitespace lr (fun _ lr1 => Inv b f lr1 ∧ lr.v.pos ≤ lr1.v.pos) := by
  unfold skipWhitespace
  refine Wp.bind (Wp.get ?_)
  refine Wp.bind' (skipWsLoop_ok _ 0 lr.v lr lr
    ⟨Ext.refl lr, h.toBase, h.finv, rfl, by simpa using h.online, Nat.zero_le _⟩ (by omega)) ?_
  intro off lr1 ⟨lrb, st, _, hp⟩
  have hv := st.v_eq
  refine (Wp.adv' st.ext st.base st.finv (by rw [hv]; exact st.le) (by rw [hv]; exact hp) ?_).mono ?_
  · rw [st.ext.line, st.ext.lineStart, hv]; exact st.online
  · intro _ lr2 ⟨i2, p2, _⟩
    exact ⟨i2, by rw [p2, hv]; omega⟩

/-! ### numbers -/

/-- `ascii_digits` at the cursor with its value: the longest digit run, exact iff it fits. -/
theorem Wp.asciiDigitsV (e : Ext lr0 lr) (t : IntTy) (hb : 1 ≤ t.bits) :
    Wp E (PM.scan (Text.asciiDigits t · 0)) lr (fun r lr1 => Ext lr0 lr1 ∧
      r = (if t.fits (Text.decVal (lr0.v.rest.takeWhile isDigit) : Nat) then
             some ((Text.decVal (lr0.v.rest.takeWhile isDigit) : Nat) : Int) else none,
           (lr0.v.rest.takeWhile isDigit).length) ∧
      lr1.v.peeked = max lr.v.peeked (lr0.v.pos + (lr0.v.rest.takeWhile isDigit).length + 1)) := by
  apply Wp.scan
  have hx := C13.digits_exact t hb lr.v 0
  obtain ⟨_, h2⟩ := digitsCont_spec t false lr.v 0 (some 0)
  simp only [List.drop_zero, Nat.zero_add] at hx h2
  simp only [Text.asciiDigits] at hx ⊢
  rw [hx, h2, e.rest]
  obtain ⟨e1, pk, _⟩ := e.demandF (lr0.v.rest.takeWhile isDigit).length
  exact ⟨e1, rfl, pk⟩

/-- A numeral that does not start with `0` is not zero. -/
theorem decVal_pos (d : UInt8) (ds : VBytes) (hd : isDigit d = true) (h0 : d ≠ 48) :
    0 < Text.decVal (d :: ds) := by
  have := Text.decVal_append [d] ds
  simp only [List.singleton_append] at this
  rw [this]
  have h1 : Text.decVal [d] = d.toNat - 48 := by simp [Text.decVal]
  simp only [isDigit, Bool.and_eq_true, decide_eq_true_eq] at hd
  have h48 : 48 ≤ d.toNat := UInt8.le_iff_toNat_le.mp hd.1
  have hne : d.toNat ≠ 48 := fun hh => h0 (UInt8.toNat_inj.mp (by simpa using hh))
  have hpos : 0 < 10 ^ ds.length := Nat.pow_pos (by omega)
  have : 1 ≤ Text.decVal [d] := by rw [h1]; omega
  calc 0 < 1 * 10 ^ ds.length := by omega
    _ ≤ Text.decVal [d] * 10 ^ ds.length := Nat.mul_le_mul_right _ this
    _ ≤ _ := Nat.le_add_right _ _

/-- Postcondition of `uint`: a value was consumed; it is a `u64`, and not `0` unless the numeral
starts with `0`. -/
abbrev UintPost (b : VBytes) (f : Bool) (lr : LR) (r : Option (Option Nat)) (lr1 : LR) : Prop :=
  Inv b f lr1 ∧ Fwd lr lr1 ∧
  (∀ v, r = some (some v) → lr.v.pos < lr1.v.pos ∧ v < 2 ^ 64 ∧ (lr.v.rest[0]? ≠ some 48 → v ≠ 0))

theorem uint_ok (h : Inv b f lr) : Wp E uint lr (UintPost b f lr) := by
  unfold uint
  refine Wp.bind' (Wp.asciiDigitsV (Ext.refl lr) u64Ty (by decide)) ?_
  intro r lr1 ⟨e1, hr, p1⟩
  obtain ⟨value, off⟩ := r
  simp only [Prod.mk.injEq] at hr
  obtain ⟨hval, hoff⟩ := hr
  have hd : AllAt (fun x => isDigit x = true) lr.v.rest 0 off := by
    have := allAt_takeWhile isDigit lr.v.rest 0
    simpa [hoff] using this
  have hle : off ≤ lr.v.rest.length := by
    have := takeWhile_end isDigit lr.v.rest 0 (Nat.zero_le _)
    simpa [hoff] using this
  dsimp only
  split
  · rename_i hne
    have hne' : off ≠ 0 := by simpa using hne
    refine Wp.bind (Wp.bufPrefixF e1 (by omega) (by omega) ?_)
    split
    · -- a value without a leading zero: consume it
      rename_i v hok
      refine Wp.bind' (Wp.adv e1 h hle (by omega) (hd.mono digit_ne_lf)) ?_
      intro _ lr2 ⟨i2, f2, p2, _, _⟩
      refine Wp.pure ⟨i2, f2, ?_⟩
      intro w hw
      simp only [Option.some.injEq] at hw
      subst hw
      refine ⟨by omega, ?_, ?_⟩
      · -- the value fits in u64
        by_cases hfit : u64Ty.fits (Text.decVal (lr.v.rest.takeWhile isDigit) : Nat) = true
        · rw [if_pos hfit] at hval
          simp only [Option.some.injEq] at hval
          rw [IntTy.fits_iff] at hfit
          simp only [u64Ty, IntTy.minVal, IntTy.maxVal] at hfit
          subst hval
          have := hfit.2
          simp only [Bool.false_eq_true, ↓reduceIte] at this
          omega
        · rw [if_neg hfit] at hval; simp at hval
      · intro h48
        -- the first byte is a digit other than '0'
        cases hrest : lr.v.rest with
        | nil => rw [hrest] at hoff; simp at hoff; omega
        | cons d ds =>
          rw [hrest] at hval hoff h48
          have hdd : isDigit d = true := by
            by_cases hdig : isDigit d = true
            · exact hdig
            · have : isDigit d = false := by simpa using hdig
              simp [List.takeWhile, this] at hoff; omega
          have hd48 : d ≠ 48 := by simpa using h48
          simp only [List.takeWhile, hdd] at hval
          have hpos := decVal_pos d (ds.takeWhile isDigit) hdd hd48
          by_cases hfit : u64Ty.fits (Text.decVal (d :: ds.takeWhile isDigit) : Nat) = true
          · rw [if_pos hfit] at hval
            simp only [Option.some.injEq] at hval
            subst hval
            omega
          · rw [if_neg hfit] at hval; simp at hval
    · -- overflow or leading zero: `Res(Err(numeral))`, nothing consumed
      refine Wp.bind (Wp.bufPrefixF e1 hle (by omega) ?_)
      refine Wp.bind (Wp.utf8Unwrap (allAt_take (hd.mono digit_lt)) ?_)
      exact Wp.pure ⟨h.ext e1, e1.fwd, fun v hv => by simp at hv⟩
  · exact Wp.pure ⟨h.ext e1, e1.fwd, fun v hv => by simp at hv⟩

theorem setMark_ok (h : Inv b f lr) :
    Wp E setMark lr (fun _ lr1 => Inv b f lr1 ∧ MarkOK lr1 ∧ lr1.v.pos = lr.v.pos ∧
      lr1.v.rest = lr.v.rest ∧ lr1.line = lr.line ∧ lr1.lineStart = lr.lineStart ∧
      lr1.v.mark = lr.v.pos) := by
  refine Wp.setMark ⟨?_, ⟨h.online.le, Nat.le_refl _⟩, rfl, rfl, rfl, rfl, rfl⟩
  exact { size := h.size, rest := h.rest, pos_le := h.pos_le, fault := h.fault, online := h.online,
          finv := h.finv }

/-- `exceeds_count`: an error at the mark, which must be on the current line (F11). -/
theorem exceedsCount_ok {α : Type} {Q : α → LR → Prop} (h : Inv b f lr) (hm : MarkOK lr) :
    Wp (Err b f) (exceedsCount : PM α) lr Q := by
  unfold exceedsCount
  refine Wp.bind (Wp.mark ?_)
  exact Wp.errAt h hm.1 hm.2

/-- `positive_int`: never reaches `NonZeroU64::new(0).unwrap()`. -/
theorem positiveInt_ok (h : Inv b f lr) : Wp (Err b f) positiveInt lr (fun r lr1 =>
    LinePost b f lr r lr1 ∧ ∀ v, r = some v → 0 < v ∧ v < 2 ^ 64) := by
  unfold positiveInt
  refine Wp.bind' (Wp.reqByteF (Ext.refl lr)) ?_
  intro a lr1 ⟨e1, ha, _, _⟩
  split
  · exact Wp.pure ⟨⟨h.ext e1, by rw [e1.pos]; exact Nat.le_refl _, by simp⟩, by simp⟩
  · rename_i hn48
    have h48 : lr.v.rest[0]? ≠ some 48 := by rw [← ha]; simpa using hn48
    refine Wp.bind' (setMark_ok (h.ext e1)) ?_
    intro _ lr2 ⟨i2, m2, p2, r2, _, _, _⟩
    refine Wp.bind' (uint_ok i2) ?_
    intro r lr3 ⟨i3, f3, s3⟩
    have m3 := m2.fwd f3
    have hpos := f3.pos
    have hp1 := e1.pos
    split
    · exact Wp.pure ⟨⟨i3, by omega, by simp⟩, by simp⟩
    · exact exceedsCount_ok i3 m3
    · rename_i v
      obtain ⟨s1, s2, s4⟩ := s3 v rfl
      have hv0 : v ≠ 0 := s4 (by rw [r2, e1.rest]; exact h48)
      split
      · rename_i hz; exact absurd (by simpa using hz) hv0
      · exact Wp.pure ⟨⟨i3, by omega, fun _ => by omega⟩, fun w hw => by
          simp only [Option.some.injEq] at hw; subst hw; exact ⟨by omega, s2⟩⟩

/-- `nonnegative_int`. -/
theorem nonnegativeInt_ok (h : Inv b f lr) : Wp (Err b f) nonnegativeInt lr (fun r lr1 =>
    LinePost b f lr r lr1 ∧ ∀ v, r = some v → v < 2 ^ 64) := by
  unfold nonnegativeInt
  refine Wp.bind' (setMark_ok h) ?_
  intro _ lr2 ⟨i2, m2, p2, r2, _, _, _⟩
  refine Wp.bind' (uint_ok i2) ?_
  intro r lr3 ⟨i3, f3, s3⟩
  have m3 := m2.fwd f3
  have hpos := f3.pos
  split
  · exact Wp.pure ⟨⟨i3, by omega, by simp⟩, by simp⟩
  · exact exceedsCount_ok i3 m3
  · rename_i v
    obtain ⟨s1, s2, _⟩ := s3 v rfl
    exact Wp.pure ⟨⟨i3, by omega, fun _ => by omega⟩, fun w hw => by
      simp only [Option.some.injEq] at hw; subst hw; exact s2⟩

/-- Error predicate: the parked I/O error, or a syntax error at the cursor of the state `lr`. -/
def AtCursor (lr : LR) (e : PErr) (_ : LR) : Prop :=
  e = .io ∨ e = .syn lr.line (lr.v.pos - lr.lineStart + 1)

theorem exceedsCount_at {α : Type} {Q : α → LR → Prop} {lr2 : LR} (hl : lr2.line = lr.line)
    (hs : lr2.lineStart = lr.lineStart) (hm : lr2.v.mark = lr.v.pos) (hle : lr.lineStart ≤ lr.v.pos) :
    Wp (AtCursor lr) (exceedsCount : PM α) lr2 Q := by
  unfold exceedsCount
  refine Wp.bind (Wp.mark ?_)
  refine Wp.giveUpAt (fun _ => Or.inl rfl) (fun _ => ⟨by rw [hs, hm]; exact hle, Or.inr ?_⟩)
  rw [hl, hs, hm]

/-- **The only error of `positive_int` is at the first byte of the number** (F11: the mark is set
there), or the parked I/O error. -/
theorem positiveInt_err_at_start (h : Inv b f lr) : Wp (AtCursor lr) positiveInt lr (fun _ _ => True) := by
  unfold positiveInt
  refine Wp.bind' (Wp.reqByteF (Ext.refl lr)) ?_
  intro a lr1 ⟨e1, ha, _, _⟩
  split
  · exact Wp.pure trivial
  · rename_i hn48
    have h48 : lr.v.rest[0]? ≠ some 48 := by rw [← ha]; simpa using hn48
    refine Wp.bind' (setMark_ok (h.ext e1)) ?_
    intro _ lr2 ⟨i2, _, p2, r2, l2, s2, k2⟩
    refine Wp.bind' (uint_ok i2) ?_
    intro r lr3 ⟨_, f3, s3⟩
    split
    · exact Wp.pure trivial
    · exact exceedsCount_at (by rw [f3.line, l2, e1.line]) (by rw [f3.lineStart, s2, e1.lineStart])
        (by rw [f3.mark, k2, e1.pos]) h.online.le
    · rename_i v
      obtain ⟨_, _, s4⟩ := s3 v rfl
      have hv0 : v ≠ 0 := s4 (by rw [r2, e1.rest]; exact h48)
      split
      · rename_i hz; exact absurd (by simpa using hz) hv0
      · exact Wp.pure trivial

/-- The same for `nonnegative_int`. -/
theorem nonnegativeInt_err_at_start (h : Inv b f lr) :
    Wp (AtCursor lr) nonnegativeInt lr (fun _ _ => True) := by
  unfold nonnegativeInt
  refine Wp.bind' (setMark_ok h) ?_
  intro _ lr2 ⟨i2, _, p2, _, l2, s2, k2⟩
  refine Wp.bind' (uint_ok i2) ?_
  intro r lr3 ⟨_, f3, _⟩
  split
  · exact Wp.pure trivial
  · exact exceedsCount_at (by rw [f3.line, l2]) (by rw [f3.lineStart, s2]) (by rw [f3.mark, k2]) h.online.le
  · exact Wp.pure trivial

/-- `or_give_up(|| unexpected(..))` on a line-level token. -/
theorem orGiveUp_line {α : Type} {p : PM (Option α)} {P : α → Prop}
    (h : Wp (Err b f) p lr (fun r lr1 => LinePost b f lr r lr1 ∧ ∀ v, r = some v → P v)) :
    Wp (Err b f) (orGiveUp p unexpected) lr (fun v lr1 => Inv b f lr1 ∧ lr.v.pos < lr1.v.pos ∧ P v) := by
  refine Wp.orGiveUp (h.mono ?_)
  intro r lr1 ⟨⟨i1, _, s1⟩, hp⟩
  cases r with
  | some a => exact ⟨i1, s1 rfl, hp a rfl⟩
  | none => exact unexpected_ok i1

theorem requiredPositiveInt_ok (h : Inv b f lr) : Wp (Err b f) requiredPositiveInt lr
    (fun v lr1 => Inv b f lr1 ∧ lr.v.pos < lr1.v.pos ∧ (0 < v ∧ v < 2 ^ 64)) :=
  orGiveUp_line (positiveInt_ok h)

theorem requiredNodeId_ok (h : Inv b f lr) : Wp (Err b f) requiredNodeId lr
    (fun v lr1 => Inv b f lr1 ∧ lr.v.pos < lr1.v.pos ∧ (0 < v ∧ v < 2 ^ 64)) :=
  orGiveUp_line (positiveInt_ok h)

theorem requiredSortId_ok (h : Inv b f lr) : Wp (Err b f) requiredSortId lr
    (fun v lr1 => Inv b f lr1 ∧ lr.v.pos < lr1.v.pos ∧ (0 < v ∧ v < 2 ^ 64)) :=
  orGiveUp_line (positiveInt_ok h)

theorem requiredNonnegativeInt_ok (h : Inv b f lr) : Wp (Err b f) requiredNonnegativeInt lr
    (fun v lr1 => Inv b f lr1 ∧ lr.v.pos < lr1.v.pos ∧ v < 2 ^ 64) :=
  orGiveUp_line (nonnegativeInt_ok h)

/-! ### comments, symbols, end of file -/

/-- `advance_with_buf(n)` over scanned bytes that are not newlines. -/
theorem Wp.advBuf {n : Nat} (e : Ext lr0 lr) (h : Inv b f lr0)
    (hn : n ≤ lr0.v.rest.length) (hp : lr0.v.pos + n ≤ lr.v.peeked)
    (hlf : AllAt (· ≠ 10) lr0.v.rest 0 n) :
    Wp E (PM.advanceWithBuf n) lr (fun bs lr1 => bs = lr0.v.rest.take n ∧ Inv b f lr1 ∧ Fwd lr0 lr1 ∧
      lr1.v.pos = lr0.v.pos + n) := by
  unfold PM.advanceWithBuf
  refine Wp.bind (Wp.bufPrefixF e hn hp ?_)
  refine Wp.bind' (Wp.adv e h hn hp hlf) ?_
  intro _ lr1 ⟨i1, f1, p1, _, _⟩
  exact Wp.pure ⟨rfl, i1, f1, p1⟩

/-- Taking a (not pending) I/O error leaves a state that differs only in look-ahead terms. -/
theorem ext_clearIoErr (e : Ext lr0 lr) (hio : lr.v.ioErr = false) :
    Ext lr0 { lr with v := { lr.v with ioErr := false } } :=
  ⟨e.rest, e.pos, e.mark, e.line, e.lineStart, e.peeked, e.fault, fun hF => by
    obtain ⟨f1, f2⟩ := e.finv hF
    refine ⟨fun hf hs => ?_, fun hh => by simp at hh⟩
    have := f1 hf hs
    rw [hio] at this; exact absurd this (by simp)⟩

/-- `comment_body` (after F10): up to the newline, which is not consumed; a body that ends with the
input reports the parked I/O error. -/
theorem commentBody_ok (h : Inv b f lr) :
    Wp (Err b f) commentBody lr (fun _ lr1 => Inv b f lr1 ∧ Fwd lr lr1) := by
  unfold commentBody
  refine Wp.bind' (Wp.scanWhileF (Ext.refl lr) _ 0) ?_
  intro off lr1 ⟨e1, _, hall, hle, p1, _, _⟩
  have hnl : AllAt (· ≠ 10) lr.v.rest 0 off := hall.mono (fun x hx => by simpa using hx)
  refine Wp.bind' (Wp.reqAtF e1 off) ?_
  intro a lr2 ⟨e2, _, p2, _⟩
  have i2 := h.ext e2
  split
  · -- the body ended with the input: consult the parked error
    refine Wp.bind (Wp.get ?_)
    simp only [View.checkIoError]
    refine Wp.bind (Wp.set ?_)
    by_cases hio : lr2.v.ioErr = true
    · simp only [hio, ↓reduceIte]
      refine Wp.bind (Wp.throw ⟨⟨⟨i2.size, i2.rest, i2.pos_le, i2.fault⟩, i2.online⟩, ?_⟩)
      show f = true
      rw [← i2.fault]; exact i2.finv.2 hio
    · have hio' : lr2.v.ioErr = false := by simpa using hio
      simp only [hio', Bool.false_eq_true, ↓reduceIte]
      refine (Wp.advBuf (ext_clearIoErr e2 hio') h (hle (Nat.zero_le _)) ?_ hnl).mono ?_
      · show lr.v.pos + off ≤ lr2.v.peeked
        omega
      · intro _ lr3 ⟨_, i3, f3, _⟩
        exact ⟨i3, f3⟩
  · refine (Wp.advBuf e2 h (hle (Nat.zero_le _)) (by omega) hnl).mono ?_
    intro _ lr3 ⟨_, i3, f3, _⟩
    exact ⟨i3, f3⟩

/-- `symbol_name`: a non-empty run of bytes other than space and newline. -/
theorem symbolName_ok (h : Inv b f lr) : Wp E symbolName lr (TokPost b f lr) := by
  unfold symbolName
  refine Wp.bind' (Wp.scanWhileF (Ext.refl lr) _ 0) ?_
  intro off lr1 ⟨e1, _, hall, hle, p1, _, _⟩
  have hnl : AllAt (· ≠ 10) lr.v.rest 0 off := hall.mono (fun x hx => by
    simp only [Bool.and_eq_true, bne_iff_ne, ne_eq] at hx; exact hx.1)
  split
  · exact Wp.pure ⟨h.ext e1, e1.fwd, by simp⟩
  · rename_i hne
    have hne' : off ≠ 0 := by simpa using hne
    refine Wp.bind' (Wp.advBuf e1 h (hle (Nat.zero_le _)) (by omega) hnl) ?_
    intro _ lr2 ⟨_, i2, f2, p2⟩
    exact Wp.pure ⟨i2, f2, fun _ => by omega⟩

/-- `eof`: accepts the end of the input only when no I/O error is parked. -/
theorem eof_ok (h : Inv b f lr) :
    Wp E eof lr (fun r lr1 => Inv b f lr1 ∧ Fwd lr lr1 ∧ lr1.v.pos = lr.v.pos ∧
      (r.isSome = true → f = false ∧ lr1.v.sawEnd = true ∧ lr1.v.ioErr = false)) := by
  unfold eof
  refine Wp.bind' (Wp.reqByteF (Ext.refl lr)) ?_
  intro c lr1 ⟨e1, _, _, hse⟩
  have i1 := h.ext e1
  split
  · rename_i hnone
    refine Wp.bind (Wp.get ?_)
    split
    · rename_i hio
      have hio' : lr1.v.ioErr = false := by simpa using hio
      refine Wp.pure ⟨i1, e1.fwd, e1.pos, fun _ => ?_⟩
      have hs := hse (by simpa using hnone)
      refine ⟨?_, hs, hio'⟩
      cases hf : f
      · rfl
      · have := i1.finv.1 (by rw [i1.fault]; exact hf) hs
        rw [this] at hio'; simp at hio'
    · exact Wp.pure ⟨i1, e1.fwd, e1.pos, by simp⟩
  · exact Wp.pure ⟨i1, e1.fwd, e1.pos, by simp⟩

/-! ### constants and keywords -/

/-- What `required_*_constant` needs of its scanner: it passes over non-newline bytes only. -/
abbrev ScanPost (lr0 : LR) (r : Nat) (lr1 : LR) : Prop :=
  Ext lr0 lr1 ∧ AllAt (· ≠ 10) lr0.v.rest 0 r ∧ r ≤ lr0.v.rest.length ∧ lr0.v.pos + r ≤ lr1.v.peeked

theorem scanWhile_post (p : UInt8 → Bool) (hp : ∀ x, p x = true → x ≠ 10) (e : Ext lr0 lr) :
    Wp E (PM.scan (scanWhile p · 0)) lr (ScanPost lr0) := by
  refine (Wp.scanWhileF e p 0).mono ?_
  intro r lr1 ⟨e1, _, hall, hle, p1, _, _⟩
  exact ⟨e1, hall.mono hp, hle (Nat.zero_le _), by omega⟩

theorem hex_ne_lf (x : UInt8) (h : isHexDigit x = true) : x ≠ 10 := by
  intro hx; subst hx; simp [isHexDigit] at h

theorem bin_ne_lf (x : UInt8) (h : isBinDigit x = true) : x ≠ 10 := by
  intro hx; subst hx; simp [isBinDigit] at h

theorem lower_ne_lf (x : UInt8) (h : isLower x = true) : x ≠ 10 := by
  intro hx; subst hx; simp [isLower] at h

theorem hexString_post (e : Ext lr0 lr) : Wp E (PM.scan (hexString · 0)) lr (ScanPost lr0) :=
  scanWhile_post isHexDigit hex_ne_lf e

theorem binaryString_post (e : Ext lr0 lr) : Wp E (PM.scan (binaryString · 0)) lr (ScanPost lr0) :=
  scanWhile_post isBinDigit bin_ne_lf e

/-- `decimal_string`: an optional `-`, then digits. -/
theorem decimalString_post (e : Ext lr0 lr) : Wp E (PM.scan (decimalString · 0)) lr (ScanPost lr0) := by
  apply Wp.scan
  obtain ⟨e1, pk1, _⟩ := e.demandF 0
  simp only [decimalString, scanWhile, runLen_eq_takeWhile, demand_rest]
  rw [e.rest]
  by_cases h45 : lr0.v.rest[0]? = some 45
  · simp only [h45, beq_self_eq_true, ↓reduceIte]
    obtain ⟨e2, pk2, _⟩ := e1.demandF (0 + 1 + ((lr0.v.rest.drop (0 + 1)).takeWhile isDigit).length)
    have hend := takeWhile_end isDigit lr0.v.rest 1
    have hlen : 1 ≤ lr0.v.rest.length := by
      have := (List.getElem?_eq_some_iff.mp h45).1; omega
    refine ⟨e2, ?_, by have := hend hlen; omega, by simp only at pk2 ⊢; omega⟩
    refine AllAt.append (j := 1) (AllAt.single h45 (by decide)) ?_
    have := allAt_takeWhile isDigit lr0.v.rest 1
    simpa using this.mono digit_ne_lf
  · have hne : (lr0.v.rest[0]? == some 45) = false := by simpa using h45
    simp only [hne, Bool.false_eq_true, ↓reduceIte]
    obtain ⟨e2, pk2, _⟩ := e1.demandF (0 + ((lr0.v.rest.drop 0).takeWhile isDigit).length)
    have hend := takeWhile_end isDigit lr0.v.rest 0 (Nat.zero_le _)
    refine ⟨e2, ?_, by omega, by simp only at pk2 ⊢; omega⟩
    have := allAt_takeWhile isDigit lr0.v.rest 0
    exact this.mono digit_ne_lf

/-- `required_hex_constant` / `required_decimal_constant` / `required_binary_constant`. -/
theorem requiredConstant_ok (scanner : View → Nat → Nat × View)
    (hs : ∀ {lr0 lr : LR}, Ext lr0 lr → Wp (Err b f) (PM.scan (scanner · 0)) lr (ScanPost lr0))
    (h : Inv b f lr) :
    Wp (Err b f) (requiredConstant scanner) lr (fun _ lr1 => Inv b f lr1 ∧ lr.v.pos < lr1.v.pos) := by
  unfold requiredConstant
  refine Wp.bind' (hs (Ext.refl lr)) ?_
  intro matched lr1 ⟨e1, hnl, hle, hp⟩
  split
  · exact unexpected_ok (h.ext e1)
  · rename_i hne
    have hne' : matched ≠ 0 := by simpa using hne
    refine (Wp.advBuf e1 h hle hp hnl).mono ?_
    intro _ lr2 ⟨_, i2, _, p2⟩
    exact ⟨i2, by omega⟩

theorem requiredHexConstant_ok (h : Inv b f lr) :
    Wp (Err b f) requiredHexConstant lr (fun _ lr1 => Inv b f lr1 ∧ lr.v.pos < lr1.v.pos) :=
  requiredConstant_ok hexString hexString_post h

theorem requiredBinaryConstant_ok (h : Inv b f lr) :
    Wp (Err b f) requiredBinaryConstant lr (fun _ lr1 => Inv b f lr1 ∧ lr.v.pos < lr1.v.pos) :=
  requiredConstant_ok binaryString binaryString_post h

theorem requiredDecimalConstant_ok (h : Inv b f lr) :
    Wp (Err b f) requiredDecimalConstant lr (fun _ lr1 => Inv b f lr1 ∧ lr.v.pos < lr1.v.pos) :=
  requiredConstant_ok decimalString decimalString_post h

/-- Keyword tokens: scan the run of `a..z`, look it up, consume it on a match. -/
theorem keywordToken_ok {τ : Type} (table : VBytes → Option τ) (hnil : table [] = none) (h : Inv b f lr) :
    Wp E (keywordToken table) lr (TokPost b f lr) := by
  unfold keywordToken
  refine Wp.bind' (Wp.scanWhileF (Ext.refl lr) isLower 0) ?_
  intro off lr1 ⟨e1, _, hall, hle, p1, _, _⟩
  have hle' := hle (Nat.zero_le _)
  refine Wp.bind (Wp.bufPrefixF e1 hle' (by omega) ?_)
  split
  · exact Wp.pure ⟨h.ext e1, e1.fwd, by simp⟩
  · rename_i t ht
    have hlen : (lr.v.rest.take off).length = off := by simp; omega
    have hpos : 0 < off := by
      cases hoff : off with
      | zero => rw [hoff] at ht; simp only [List.take_zero] at ht; rw [hnil] at ht; simp at ht
      | succ k => omega
    rw [hlen]
    refine Wp.bind' (Wp.adv e1 h hle' (by omega) (hall.mono lower_ne_lf)) ?_
    intro _ lr2 ⟨i2, f2, p2, _, _⟩
    exact Wp.pure ⟨i2, f2, fun _ => by omega⟩

theorem nodeToken_ok (h : Inv b f lr) : Wp E nodeToken lr (TokPost b f lr) :=
  keywordToken_ok Gen.Btor2.nodeToken (by decide) h

theorem sortToken_ok (h : Inv b f lr) : Wp E sortToken lr (TokPost b f lr) :=
  keywordToken_ok Gen.Btor2.sortToken (by decide) h

end Btor2
end Flussab
