/-
Proofs of the tie between the generated `Parser::new` of the AIGER parsers (`Gen/AigerNewAsciiGen.lean`,
`Gen/AigerNewBinaryGen.lean`) and `Aiger.Parser.new` (`Model/Aiger.lean`).  Statements: `Props/TieAigerNew.lean`.
-/
import Flussab.Gen.AigerNewAsciiGen
import Flussab.Gen.AigerNewBinaryGen
import Flussab.Proof.TieAigerHeader
import Flussab.Proof.AigerParse

namespace Flussab
namespace TieAigerNewAux
open PM TieAigerHeaderAux

theorem new_eq (bin : Bool) (l : Aiger.LitTy) (hl : 1 ≤ l.maxCode) (hu : l.maxCode ≤ PM.usizeMax)
    (g : Unit → PM Aiger.Parser)
    (hg : g () = do
      let t1 ← Aiger.Header.parse bin l
      let t2 ← PMExt.umul t1.maxVarIndex 2
      let t3 ← PMExt.uadd t2 1
      pure ({ bin := bin, lit := l, header := t1, maxLit := t3,
              code := if bin then ((((t1.inputCount + 1) % 2 ^ 64) * 2) % 2 ^ 64) else 0 } : Aiger.Parser)) :
    g () = Aiger.Parser.new bin l := by
  rw [hg]
  unfold Aiger.Parser.new
  refine bind_congr_post _ (Aiger.HeaderSane l) (fun lr a s h => Aiger.Header.parse_post bin l lr a s h) _ _ ?_
  intro h hs
  have h1 : h.maxVarIndex ≤ (l.maxCode - 1) / 2 := hs.1
  have hm : ¬ h.maxVarIndex * 2 > PM.usizeMax := by omega
  have ha : ¬ h.maxVarIndex * 2 + 1 > PM.usizeMax := by omega
  simp only [PMExt.umul, PMExt.uadd, Aiger.checkedMul, Aiger.checkedAdd, hm, ha, if_false, pure_bind]

theorem newAscii_eq (l : Aiger.LitTy) (hl : 1 ≤ l.maxCode) (hu : l.maxCode ≤ PM.usizeMax) :
    Gen.AigerNewAscii.new l () = Aiger.Parser.new false l :=
  new_eq false l hl hu (fun u => Gen.AigerNewAscii.new l u) (by unfold Gen.AigerNewAscii.new; rfl)

theorem newBinary_eq (l : Aiger.LitTy) (hl : 1 ≤ l.maxCode) (hu : l.maxCode ≤ PM.usizeMax) :
    Gen.AigerNewBinary.new l () = Aiger.Parser.new true l :=
  new_eq true l hl hu (fun u => Gen.AigerNewBinary.new l u) (by unfold Gen.AigerNewBinary.new; rfl)

end TieAigerNewAux
end Flussab
