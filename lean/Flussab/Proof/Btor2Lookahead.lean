/-
Look-ahead of the BTOR2 line parser (property C09, parser layer): how far the ghost `View.peeked`
("all stream offsets below it have been demanded from the reader") can be ahead of the cursor when
`next_line` hands out a line.

A second, partial-correctness pass over `Model/Btor2Token.lean` / `Model/Btor2.lean` with the
trivial error postcondition `T` (every error — formally also every panic — is accepted here; that
there are no panics is C05): only what holds when a function *returns* is tracked.

`Tight lr`: at most the byte under the cursor has been demanded (`peeked ≤ pos + 1`).  Every token
that succeeds re-establishes it: each scanner demands the byte that ends the token and no further,
and the token then advances up to that byte.  A keyword token that falls through may have looked
at a long run of letters, a rejected numeral at all its digits — but then the caller gives up and no
line is handed out.  The only token that demands the byte under the cursor and consumes it is
`newline` (and `space` / `comment_start`): after it `peeked ≤ pos`.
-/
import Flussab.Model.Btor2
import Flussab.Proof.PMHoare
import Flussab.Proof.Btor2Basic

namespace Flussab
namespace Btor2
open PM

/-- Partial correctness: any error outcome is accepted. -/
abbrev T : PErr → LR → Prop := fun _ _ => True

/-- At most the byte under the cursor has been demanded. -/
def Tight (lr : LR) : Prop := lr.v.peeked ≤ lr.v.pos + 1

variable {lr : LR}

/-! ### partial-correctness rules for the primitives -/

theorem Wp.reqAt_pc (k : Nat) :
    Wp T (PM.reqAt k) lr (fun x lr1 => x = lr.v.rest[k]? ∧ lr1.v.pos = lr.v.pos ∧
      lr1.v.rest = lr.v.rest ∧ lr1.v.peeked = max lr.v.peeked (lr.v.pos + k + 1)) :=
  Wp.reqAt ⟨rfl, demand_pos _ _, demand_rest _ _, demand_peeked _ _⟩

theorem Wp.advance_pc (n : Nat) :
    Wp T (PM.advance n) lr (fun _ lr1 => lr1.v.pos = lr.v.pos + n ∧ lr1.v.peeked = lr.v.peeked ∧
      lr1.v.rest = lr.v.rest.drop n) := by
  unfold PM.advance
  refine Wp.bind (Wp.get ?_)
  by_cases hn : n ≤ lr.v.demanded
  · simp only [View.advance, hn, ↓reduceIte]
    exact Wp.set ⟨rfl, rfl, rfl⟩
  · simp only [View.advance, hn, ↓reduceIte]
    trivial

theorem Wp.bufPrefix_pc (n : Nat) :
    Wp T (PM.bufPrefix n) lr (fun bs lr1 => lr1 = lr ∧ bs.length = n) := by
  unfold PM.bufPrefix
  refine Wp.bind (Wp.get ?_)
  by_cases hn : n ≤ lr.v.demanded
  · simp only [View.bufPrefix, hn, ↓reduceIte]
    refine Wp.pure ⟨rfl, ?_⟩
    have : lr.v.demanded ≤ lr.v.rest.length := by unfold View.demanded; omega
    simp; omega
  · simp only [View.bufPrefix, hn, ↓reduceIte]
    trivial

theorem Wp.advanceWithBuf_pc (n : Nat) :
    Wp T (PM.advanceWithBuf n) lr (fun _ lr1 => lr1.v.pos = lr.v.pos + n ∧
      lr1.v.peeked = lr.v.peeked ∧ lr1.v.rest = lr.v.rest.drop n) := by
  unfold PM.advanceWithBuf
  refine Wp.bind' (Wp.bufPrefix_pc n) ?_
  intro _ lr1 ⟨h1, _⟩
  subst h1
  refine Wp.bind' (Wp.advance_pc n) ?_
  intro _ lr2 h2
  exact Wp.pure h2

theorem Wp.lineAtOffset_pc (off : Nat) :
    Wp T (PM.lineAtOffset off) lr (fun _ lr1 => lr1.v = lr.v) := by
  unfold PM.lineAtOffset
  refine Wp.bind (Wp.get ?_)
  split
  · trivial
  · exact Wp.set rfl

theorem Wp.utf8_pc (bs : VBytes) : Wp T (PM.utf8Unwrap bs) lr (fun _ lr1 => lr1 = lr) := by
  unfold PM.utf8Unwrap
  split
  · exact Wp.pure rfl
  · trivial

/-- `give_up_at` never returns. -/
theorem Wp.giveUpAt_pc {α : Type} (p : Nat) (Q : α → LR → Prop) : Wp T (PM.giveUpAt p : PM α) lr Q := by
  unfold PM.giveUpAt
  refine Wp.bind (Wp.get ?_)
  refine Wp.bind (Wp.set ?_)
  split
  · trivial
  · split <;> trivial

theorem Wp.giveUp_pc {α : Type} (Q : α → LR → Prop) : Wp T (PM.giveUp : PM α) lr Q := by
  unfold PM.giveUp
  exact Wp.bind (Wp.position (Wp.giveUpAt_pc _ _))

/-- Nothing is claimed. -/
theorem Wp.top_any {α : Type} (m : PM α) : Wp T m lr (fun _ _ => True) := by
  unfold Wp
  rcases m.run lr with ⟨_ | _, _⟩ <;> trivial

/-- Whatever the first step does, the rest decides. -/
theorem Wp.bind_any {α β : Type} {m : PM α} {f : α → PM β} {Q : β → LR → Prop}
    (h : ∀ a lr1, Wp T (f a) lr1 Q) : Wp T (m >>= f) lr Q := by
  refine Wp.bind ?_
  unfold Wp
  rcases m.run lr with ⟨_ | a, lr1⟩
  · trivial
  · exact h a lr1

/-- `unexpected` never returns. -/
theorem unexpected_pc {α : Type} (Q : α → LR → Prop) : Wp T (unexpected : PM α) lr Q := by
  unfold unexpected
  refine Wp.bind (Wp.scan ?_)
  split
  · exact Wp.giveUp_pc _
  · refine Wp.bind (Wp.get ?_)
    split
    · exact Wp.giveUp_pc _
    · refine Wp.bind (Wp.get ?_)
      refine Wp.bind (Wp.reqAt ?_)
      exact Wp.giveUp_pc _

theorem exceedsCount_pc {α : Type} (Q : α → LR → Prop) : Wp T (exceedsCount : PM α) lr Q := by
  unfold exceedsCount
  exact Wp.bind (Wp.mark (Wp.giveUpAt_pc _ _))

theorem orGiveUp_pc {α : Type} {p : PM (Option α)} {Q : α → LR → Prop}
    (h : Wp T p lr (fun r lr1 => ∀ a, r = some a → Q a lr1)) : Wp T (orGiveUp p unexpected) lr Q := by
  refine Wp.orGiveUp (h.mono ?_)
  intro r lr1 hr
  cases r with
  | some a => exact hr a rfl
  | none => exact unexpected_pc _

/-- A scanner that demands the byte at offset `n` (its result) and nothing further. -/
theorem Wp.scanWhile_pc (p : UInt8 → Bool) :
    Wp T (PM.scan (scanWhile p · 0)) lr (fun n lr1 => lr1.v.pos = lr.v.pos ∧ lr1.v.rest = lr.v.rest ∧
      lr1.v.peeked = max lr.v.peeked (lr.v.pos + n + 1) ∧ (∀ x, lr.v.rest[n]? = some x → p x = false)) := by
  apply Wp.scan
  simp only [scanWhile, runLen_eq_takeWhile]
  refine ⟨demand_pos _ _, demand_rest _ _, demand_peeked _ _, fun x hx => ?_⟩
  exact takeWhile_stop_drop p lr.v.rest 0 x hx

/-! ### tokens -/

/-- `request_byte() == c` then `advance(1)`: after success nothing behind the cursor is demanded. -/
theorem byteToken_la (c : UInt8) (h : Tight lr) :
    Wp T (do if (← reqByte) == some c then advance 1; pure (some ()) else pure none : PM (Option Unit)) lr
      (fun r lr1 => Tight lr1 ∧ (r.isSome = true → lr1.v.peeked ≤ lr1.v.pos)) := by
  unfold Tight at *
  refine Wp.bind' (Wp.reqAt_pc 0) ?_
  intro a lr1 ⟨_, p1, _, k1⟩
  split
  · refine Wp.bind' (Wp.advance_pc 1) ?_
    intro _ lr2 ⟨p2, k2, _⟩
    exact Wp.pure ⟨by omega, fun _ => by omega⟩
  · exact Wp.pure ⟨by omega, by simp⟩

theorem space_la (h : Tight lr) :
    Wp T space lr (fun r lr1 => Tight lr1 ∧ (r.isSome = true → lr1.v.peeked ≤ lr1.v.pos)) :=
  byteToken_la 32 h

theorem commentStart_la (h : Tight lr) :
    Wp T commentStart lr (fun r lr1 => Tight lr1 ∧ (r.isSome = true → lr1.v.peeked ≤ lr1.v.pos)) :=
  byteToken_la 59 h

theorem requiredSpace_la (h : Tight lr) : Wp T requiredSpace lr (fun _ lr1 => Tight lr1) :=
  orGiveUp_pc ((space_la h).mono (fun _ _ hh _ _ => hh.1))

/-- `newline`: after a consumed newline nothing behind the cursor has been demanded. -/
theorem newline_la (h : Tight lr) :
    Wp T newline lr (fun r lr1 => Tight lr1 ∧ (r.isSome = true → lr1.v.peeked ≤ lr1.v.pos)) := by
  unfold newline Tight at *
  refine Wp.bind' (Wp.reqAt_pc 0) ?_
  intro a lr1 ⟨_, p1, _, k1⟩
  split
  · refine Wp.bind' (Wp.advance_pc 1) ?_
    intro _ lr2 ⟨p2, k2, _⟩
    refine Wp.bind' (Wp.lineAtOffset_pc 0) ?_
    intro _ lr3 hv
    rw [← hv] at p2 k2
    exact Wp.pure ⟨by omega, fun _ => by omega⟩
  · exact Wp.pure ⟨by omega, by simp⟩

theorem skipWsLoop_la (fuel : Nat) : ∀ (off : Nat) (lr : LR), lr.v.peeked ≤ lr.v.pos + off + 1 →
    Wp T (skipWsLoop fuel off) lr (fun r lr1 => lr1.v.pos = lr.v.pos ∧ lr1.v.peeked ≤ lr.v.pos + r + 1) := by
  induction fuel with
  | zero => intro off lr _; unfold skipWsLoop; trivial
  | succ fuel ih =>
    intro off lr h
    unfold skipWsLoop
    refine Wp.bind' (Wp.reqAt_pc off) ?_
    intro a lr1 ⟨_, p1, _, k1⟩
    split
    · refine (ih (off + 1) lr1 (by omega)).mono ?_
      intro r lr2 ⟨p2, k2⟩
      exact ⟨by omega, by omega⟩
    · refine Wp.bind' (Wp.lineAtOffset_pc (off + 1)) ?_
      intro _ lr2 hv
      refine (ih (off + 1) lr2 (by rw [hv]; omega)).mono ?_
      intro r lr3 ⟨p3, k3⟩
      rw [hv] at p3 k3
      exact ⟨by omega, by omega⟩
    · exact Wp.pure ⟨p1, by omega⟩

theorem skipWhitespace_la (h : Tight lr) : Wp T skipWhitespace lr (fun _ lr1 => Tight lr1) := by
  unfold skipWhitespace Tight at *
  refine Wp.bind (Wp.get ?_)
  refine Wp.bind' (skipWsLoop_la _ 0 lr (by omega)) ?_
  intro off lr1 ⟨p1, k1⟩
  refine (Wp.advance_pc off).mono ?_
  intro _ lr2 ⟨p2, k2, _⟩
  omega

theorem Wp.asciiDigits_pc (t : IntTy) :
    Wp T (PM.scan (Text.asciiDigits t · 0)) lr (fun r lr1 => lr1.v.pos = lr.v.pos ∧
      lr1.v.rest = lr.v.rest ∧ lr1.v.peeked = max lr.v.peeked (lr.v.pos + r.2 + 1)) := by
  apply Wp.scan
  obtain ⟨h1, h2⟩ := digitsCont_spec t false lr.v 0 (some 0)
  simp only [Text.asciiDigits]
  rw [h2, h1]
  exact ⟨demand_pos _ _, demand_rest _ _, demand_peeked _ _⟩

/-- `uint`: a returned value or a fallthrough leave the reader tight; the rejected numeral
(`Res(Err(..))`, which every caller turns into an error) does not. -/
theorem uint_la (h : Tight lr) : Wp T uint lr (fun r lr1 => r ≠ some none → Tight lr1) := by
  unfold uint Tight at *
  refine Wp.bind' (Wp.asciiDigits_pc u64Ty) ?_
  intro r lr1 ⟨p1, _, k1⟩
  obtain ⟨value, off⟩ := r
  dsimp only at k1 ⊢
  split
  · refine Wp.bind' (Wp.bufPrefix_pc 1) ?_
    intro first lr2 ⟨e2, _⟩
    subst e2
    split
    · refine Wp.bind' (Wp.advance_pc off) ?_
      intro _ lr3 ⟨p3, k3, _⟩
      exact Wp.pure (fun _ => by omega)
    · refine Wp.bind' (Wp.bufPrefix_pc off) ?_
      intro _ lr3 _
      refine Wp.bind' (Wp.utf8_pc _) ?_
      intro _ lr4 _
      exact Wp.pure (fun hne => absurd rfl hne)
  · rename_i hoff
    have : off = 0 := by simpa using hoff
    exact Wp.pure (fun _ => by omega)

theorem positiveInt_la (h : Tight lr) : Wp T positiveInt lr (fun _ lr1 => Tight lr1) := by
  unfold positiveInt
  refine Wp.bind' (Wp.reqAt_pc 0) ?_
  intro a lr1 ⟨_, p1, _, k1⟩
  have t1 : Tight lr1 := by unfold Tight at *; omega
  split
  · exact Wp.pure t1
  · refine Wp.bind (Wp.setMark ?_)
    have t2 : Tight { lr1 with v := lr1.v.setMark } := t1
    refine Wp.bind' (uint_la t2) ?_
    intro r lr3 hr
    split
    · exact Wp.pure (hr (by simp))
    · exact exceedsCount_pc _
    · split
      · trivial
      · exact Wp.pure (hr (by simp))

theorem nonnegativeInt_la (h : Tight lr) : Wp T nonnegativeInt lr (fun _ lr1 => Tight lr1) := by
  unfold nonnegativeInt
  refine Wp.bind (Wp.setMark ?_)
  have t2 : Tight { lr with v := lr.v.setMark } := h
  refine Wp.bind' (uint_la t2) ?_
  intro r lr3 hr
  split
  · exact Wp.pure (hr (by simp))
  · exact exceedsCount_pc _
  · exact Wp.pure (hr (by simp))

theorem requiredId_la (h : Tight lr) : Wp T requiredNodeId lr (fun _ lr1 => Tight lr1) :=
  orGiveUp_pc ((positiveInt_la h).mono (fun _ _ hh _ _ => hh))

theorem requiredNonneg_la (h : Tight lr) : Wp T requiredNonnegativeInt lr (fun _ lr1 => Tight lr1) :=
  orGiveUp_pc ((nonnegativeInt_la h).mono (fun _ _ hh _ _ => hh))

/-- A keyword token that matches leaves the reader tight (one that does not may have looked at
a long run of letters — its callers give up). -/
theorem keywordToken_la {τ : Type} (table : VBytes → Option τ) (h : Tight lr) :
    Wp T (keywordToken table) lr (fun r lr1 => r.isSome = true → Tight lr1) := by
  unfold keywordToken lowercaseRun Tight at *
  refine Wp.bind' (Wp.scanWhile_pc isLower) ?_
  intro off lr1 ⟨p1, r1, k1, _⟩
  refine Wp.bind' (Wp.bufPrefix_pc off) ?_
  intro matched lr2 ⟨e2, hlen⟩
  subst e2
  split
  · exact Wp.pure (by simp)
  · refine Wp.bind' (Wp.advance_pc _) ?_
    intro _ lr3 ⟨p3, k3, _⟩
    exact Wp.pure (fun _ => by omega)

theorem requiredKeyword_la {τ : Type} (table : VBytes → Option τ) (h : Tight lr) :
    Wp T (orGiveUp (keywordToken table) unexpected) lr (fun _ lr1 => Tight lr1) :=
  orGiveUp_pc ((keywordToken_la table h).mono (fun r _ hh a ha => hh (by rw [ha]; rfl)))

/-- `symbol_name`. -/
theorem symbolName_la (h : Tight lr) : Wp T symbolName lr (fun _ lr1 => Tight lr1) := by
  unfold symbolName Tight at *
  refine Wp.bind' (Wp.scanWhile_pc _) ?_
  intro off lr1 ⟨p1, _, k1, _⟩
  split
  · rename_i h0
    have : off = 0 := by simpa using h0
    exact Wp.pure (by omega)
  · refine Wp.bind' (Wp.advanceWithBuf_pc off) ?_
    intro _ lr2 ⟨p2, k2, _⟩
    exact Wp.pure (by omega)

/-- `comment_body`: the byte under the cursor afterwards is the line's newline (the only byte of
it that has been looked at and not consumed), or the input is exhausted. -/
theorem commentBody_la (h : Tight lr) :
    Wp T commentBody lr (fun _ lr1 => Tight lr1 ∧ (lr1.v.rest[0]? = some 10 ∨ lr1.v.rest = [])) := by
  unfold commentBody Tight at *
  refine Wp.bind' (Wp.scanWhile_pc _) ?_
  intro off lr1 ⟨p1, r1, k1, hstop⟩
  refine Wp.bind' (Wp.reqAt_pc off) ?_
  intro a lr2 ⟨_, p2, r2, k2⟩
  have hfin : ∀ lr3 : LR, lr3.v.pos = lr2.v.pos + off → lr3.v.peeked = lr2.v.peeked →
      lr3.v.rest = lr2.v.rest.drop off →
      lr3.v.peeked ≤ lr3.v.pos + 1 ∧ (lr3.v.rest[0]? = some 10 ∨ lr3.v.rest = []) := by
    intro lr3 p3 k3 r3
    refine ⟨by omega, ?_⟩
    rw [r3, r2, r1]
    cases hx : lr.v.rest[off]? with
    | none =>
      right
      exact List.drop_eq_nil_of_le (List.getElem?_eq_none_iff.mp hx)
    | some x =>
      left
      have := hstop x hx
      have hx10 : x = 10 := by simpa using this
      rw [List.getElem?_drop]; simpa [hx10] using hx
  split
  · refine Wp.bind (Wp.get ?_)
    simp only [View.checkIoError]
    refine Wp.bind (Wp.set ?_)
    by_cases hio : lr2.v.ioErr = true
    · simp only [hio, ↓reduceIte]
      exact Wp.bind (Wp.throw trivial)
    · have hio' : lr2.v.ioErr = false := by simpa using hio
      simp only [hio', Bool.false_eq_true, ↓reduceIte]
      refine (Wp.advanceWithBuf_pc off).mono ?_
      intro _ lr3 ⟨p3, k3, r3⟩
      exact hfin lr3 p3 k3 r3
  · refine (Wp.advanceWithBuf_pc off).mono ?_
    intro _ lr3 ⟨p3, k3, r3⟩
    exact hfin lr3 p3 k3 r3

/-- What the three constant scanners do to the ghost: they demand the byte that ends the
constant and nothing further. -/
def ScanLa (scanner : View → Nat → Nat × View) : Prop :=
  ∀ v : View, (scanner v 0).2.pos = v.pos ∧ (scanner v 0).2.peeked ≤ max v.peeked (v.pos + (scanner v 0).1 + 1) ∧
    v.peeked ≤ (scanner v 0).2.peeked

theorem scanWhile_scanLa (p : UInt8 → Bool) : ScanLa (scanWhile p) := by
  intro v
  simp only [scanWhile]
  rw [demand_pos, demand_peeked]
  exact ⟨rfl, Nat.le_refl _, by omega⟩

theorem decimalString_scanLa : ScanLa decimalString := by
  intro v
  simp only [decimalString, scanWhile]
  split <;> (rw [demand_pos, demand_peeked, demand_pos, demand_peeked]; exact ⟨rfl, by omega, by omega⟩)

theorem requiredConstant_la (scanner : View → Nat → Nat × View) (hs : ScanLa scanner) (h : Tight lr) :
    Wp T (requiredConstant scanner) lr (fun _ lr1 => Tight lr1) := by
  unfold requiredConstant Tight at *
  refine Wp.bind (Wp.scan ?_)
  obtain ⟨s1, s2, s3⟩ := hs lr.v
  split
  · exact unexpected_pc _
  · refine (Wp.advanceWithBuf_pc _).mono ?_
    intro _ lr2 ⟨p2, k2, _⟩
    show lr2.v.peeked ≤ lr2.v.pos + 1
    rw [k2, p2]
    show (scanner lr.v 0).2.peeked ≤ (scanner lr.v 0).2.pos + (scanner lr.v 0).1 + 1
    omega

/-! ### the line parser -/

local macro "la_space" : tactic =>
  `(tactic| (refine Wp.bind' (requiredSpace_la (by assumption)) ?_; intro _ _ _))
local macro "la_id" : tactic =>
  `(tactic| (refine Wp.bind' (requiredId_la (by assumption)) ?_; intro _ _ _))
local macro "la_nonneg" : tactic =>
  `(tactic| (refine Wp.bind' (requiredNonneg_la (by assumption)) ?_; intro _ _ _))
local macro "la_ret" : tactic => `(tactic| exact Wp.pure (by assumption))

theorem justiceLoop_la (fuel : Nat) : ∀ (remaining : Nat) (acc : List Nat) (lr : LR), Tight lr →
    Wp T (justiceLoop fuel remaining acc) lr (fun _ lr1 => Tight lr1) := by
  induction fuel with
  | zero => intro _ _ lr _; unfold justiceLoop; trivial
  | succ fuel ih =>
    intro remaining acc lr h
    unfold justiceLoop
    split
    · exact Wp.pure h
    · la_space; la_id
      exact ih _ _ _ (by assumption)

theorem valueVariant_la (tok : Gen.Btor2.NodeValueToken) (h : Tight lr) :
    Wp T (valueVariant tok) lr (fun _ lr1 => Tight lr1) := by
  cases tok <;> simp only [valueVariant]
  case const =>
    la_space
    refine Wp.bind' (requiredConstant_la binaryString (scanWhile_scanLa _) (by assumption)) ?_
    intro _ _ _; la_ret
  case constd =>
    la_space
    refine Wp.bind' (requiredConstant_la decimalString decimalString_scanLa (by assumption)) ?_
    intro _ _ _; la_ret
  case consth =>
    la_space
    refine Wp.bind' (requiredConstant_la hexString (scanWhile_scanLa _) (by assumption)) ?_
    intro _ _ _; la_ret
  case ones => la_ret
  case one => la_ret
  case zero => la_ret
  case input => la_ret
  case state => la_ret
  case extOp e => la_space; la_id; la_space; la_nonneg; la_ret
  case slice => la_space; la_id; la_space; la_nonneg; la_space; la_nonneg; la_ret
  case unaryOp t => la_space; la_id; la_ret
  case binaryOp t => la_space; la_id; la_space; la_id; la_ret
  case ternaryOp t => la_space; la_id; la_space; la_id; la_space; la_id; la_ret

theorem nodeVariant_la (tok : Gen.Btor2.NodeToken) (h : Tight lr) :
    Wp T (nodeVariant tok) lr (fun _ lr1 => Tight lr1) := by
  cases tok <;> simp only [nodeVariant]
  case sort =>
    la_space
    refine Wp.bind' (requiredKeyword_la Gen.Btor2.sortToken (by assumption)) ?_
    intro st _ _
    cases st
    · dsimp only; la_space; la_id; la_ret
    · dsimp only; la_space; la_id; la_space; la_id; la_ret
  case assignment k => la_space; la_id; la_space; la_id; la_space; la_id; la_ret
  case output k => la_space; la_id; la_ret
  case justice =>
    la_space; la_id
    refine Wp.bind (Wp.get ?_)
    refine Wp.bind' (justiceLoop_la _ _ _ _ (by assumption)) ?_
    intro _ _ _
    la_ret
  case value vt =>
    la_space; la_id
    refine Wp.bind' (valueVariant_la vt (by assumption)) ?_
    intro _ _ _
    la_ret

/-- The `(symbol, comment)` tail: without a comment the line's newline has been consumed and
nothing behind it has been demanded. -/
theorem trailer_la (h : Tight lr) :
    Wp T trailer lr (fun r lr1 => Tight lr1 ∧ (r.2 = false → lr1.v.peeked ≤ lr1.v.pos)) := by
  unfold trailer
  refine Wp.bind' (space_la h) ?_
  intro r lr1 ⟨t1, _⟩
  cases r with
  | some _ =>
    dsimp only
    refine Wp.bind' (commentStart_la t1) ?_
    intro r lr2 ⟨t2, _⟩
    cases r with
    | some _ => exact Wp.pure ⟨t2, by simp⟩
    | none =>
      dsimp only
      refine Wp.bind' (symbolName_la t2) ?_
      intro r lr3 t3
      cases r with
      | some sym =>
        dsimp only
        refine Wp.bind' (space_la t3) ?_
        intro r lr4 ⟨t4, _⟩
        cases r with
        | some _ =>
          dsimp only
          refine Wp.bind' (commentStart_la t4) ?_
          intro r lr5 ⟨t5, _⟩
          cases r with
          | some _ => exact Wp.pure ⟨t5, by simp⟩
          | none => exact unexpected_pc _
        | none =>
          dsimp only
          refine Wp.bind' (newline_la t4) ?_
          intro r lr5 ⟨t5, n5⟩
          cases r with
          | some _ => exact Wp.pure ⟨t5, fun _ => n5 rfl⟩
          | none => exact unexpected_pc _
      | none => exact unexpected_pc _
  | none =>
    dsimp only
    refine Wp.bind' (newline_la t1) ?_
    intro r lr2 ⟨t2, n2⟩
    cases r with
    | some _ => exact Wp.pure ⟨t2, fun _ => n2 rfl⟩
    | none => exact unexpected_pc _

theorem tryNode_la (h : Tight lr) :
    Wp T tryNode lr (fun r lr1 => Tight lr1 ∧
      ∀ nd hc, r = some (nd, hc) → nd.comment = none ∧ (hc = false → lr1.v.peeked ≤ lr1.v.pos)) := by
  unfold tryNode
  refine Wp.bind' (positiveInt_la h) ?_
  intro r lr1 t1
  cases r with
  | none => exact Wp.pure ⟨t1, by simp⟩
  | some id =>
    dsimp only
    refine Wp.bind' (requiredSpace_la t1) ?_
    intro _ lr2 t2
    refine Wp.bind' (requiredKeyword_la Gen.Btor2.nodeToken t2) ?_
    intro tok lr3 t3
    refine Wp.bind' (nodeVariant_la tok t3) ?_
    intro variant lr4 t4
    refine Wp.bind' (trailer_la t4) ?_
    intro sc lr5 ⟨t5, n5⟩
    obtain ⟨symbol, hasComment⟩ := sc
    refine Wp.pure ⟨t5, ?_⟩
    intro nd hc heq
    simp only [Option.some.injEq, Prod.mk.injEq] at heq
    obtain ⟨h1, h2⟩ := heq
    subst h1 h2
    exact ⟨rfl, n5⟩

/-- **`next_line`**: when a line is handed out, at most the byte under the cursor has been
demanded; for a line without trailing comment not even that (its newline has been consumed); for a
line that ends in a comment that byte is the line's own newline (or the input is exhausted). -/
theorem nextLine_la (h : Tight lr) :
    Wp T nextLine lr (fun r lr1 => ∀ l, r = some l → Tight lr1 ∧
      (l.endsInComment = false → lr1.v.peeked ≤ lr1.v.pos) ∧
      (l.endsInComment = true → lr1.v.rest[0]? = some 10 ∨ lr1.v.rest = [])) := by
  unfold nextLine
  refine Wp.bind' (skipWhitespace_la h) ?_
  intro _ lr1 t1
  refine Wp.bind' (tryNode_la t1) ?_
  intro r lr2 ⟨t2, hn⟩
  cases r with
  | some nc =>
    obtain ⟨node, hasComment⟩ := nc
    obtain ⟨hcm, hnl⟩ := hn node hasComment rfl
    dsimp only
    split
    · refine Wp.bind' (commentBody_la t2) ?_
      intro c lr3 ⟨t3, hr3⟩
      refine Wp.pure ?_
      intro l hl
      simp only [Option.some.injEq] at hl
      subst hl
      exact ⟨t3, by simp [Line.endsInComment], fun _ => hr3⟩
    · rename_i hfalse
      refine Wp.pure ?_
      intro l hl
      simp only [Option.some.injEq] at hl
      subst hl
      have hf : hasComment = false := by simpa using hfalse
      exact ⟨t2, fun _ => hnl hf, by simp [Line.endsInComment, hcm]⟩
  | none =>
    dsimp only
    refine Wp.bind' (commentStart_la t2) ?_
    intro r lr3 ⟨t3, _⟩
    cases r with
    | some _ =>
      dsimp only
      refine Wp.bind' (commentBody_la t3) ?_
      intro c lr4 ⟨t4, hr4⟩
      refine Wp.pure ?_
      intro l hl
      simp only [Option.some.injEq] at hl
      subst hl
      exact ⟨t4, by simp [Line.endsInComment], fun _ => hr4⟩
    | none =>
      dsimp only
      refine Wp.bind_any ?_
      intro r lr4
      cases r with
      | some _ =>
        dsimp only
        refine Wp.bind_any ?_
        intro _ lr5
        exact Wp.pure (by simp)
      | none => exact unexpected_pc _

end Btor2
end Flussab
