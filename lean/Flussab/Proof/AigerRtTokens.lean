/-
Token-level lemmas for the AIGER tokenizer on known text (round-trip proofs, property C03), in
the `Steps` form of `Proof/CnfRun.lean`: `Steps N m a pre post` — started in any good state whose
remaining input is `pre`, `m` returns `a` (no error, no panic) and leaves a good state whose
remaining input is `post`.
-/
import Flussab.Proof.CnfTokens
import Flussab.Proof.PMHoare
import Flussab.Proof.AigerUint
import Flussab.Proof.AigerVarint
import Flussab.Proof.AigerUtf8

namespace Flussab.AigerRT
open Flussab Flussab.CnfP
open Flussab.PM hiding run_bind
open Flussab.Aiger hiding run_bind run_pure run_throw run_rpanic run_get run_set run_modify run_scan
  run_reqAt run_reqByte run_setMark run_mark run_position run_ite run_bufPrefix run_advance
  run_utf8Unwrap
set_option linter.unusedSimpArgs false
set_option linter.unusedVariables false

theorem run_lao (lr : LR) (off : Nat) (h1 : lr.line + 1 ≤ usizeMax) (h2 : lr.v.pos + off ≤ usizeMax) :
    (lineAtOffset off).run lr = (.ok (), { lr with line := lr.line + 1, lineStart := lr.v.pos + off }) :=
  run_lineAtOffset lr off h1 h2

/-! ### fixed patterns -/

theorem fixed_steps {N} (pat rest : VBytes) (hne : pat ≠ []) :
    Steps N (Aiger.fixed pat) (some ()) (pat ++ rest) rest := by
  intro lr hg hr
  obtain ⟨v1, p1⟩ := hg.vok.demand (pat.length - 1)
  have hlen : 0 < pat.length := List.length_pos_iff.mpr hne
  have hoff : (pat.length != 0) = true := by rw [bne_iff_ne]; omega
  unfold Aiger.fixed Run
  simp only [run_bind, run_scan, fixed_eq lr.v hr hne, hoff, ↓reduceIte, run_pure]
  rw [run_advance]
  · refine ⟨_, rfl, good_after hg v1 _ _ _ ?_ ?_, ?_⟩
    · rw [hr]; simp
    · have := hg.line; dsimp only; omega
    · dsimp only; rw [v1.rest, hr]; simp
  · dsimp only; rw [v1.pos]; omega
  · dsimp only; rw [v1.rest, hr]; simp

theorem fixed_fall {N} (c : UInt8) (r : VBytes) (h : r.head? ≠ some c) :
    Steps N (Aiger.fixed [c]) none r r := by
  intro lr hg hr
  have hnp : ¬ [c] <+: lr.v.rest.drop 0 := by
    rw [List.drop_zero, hr]
    intro hp
    obtain ⟨t, ht⟩ := hp
    rw [← ht] at h; simp at h
  obtain ⟨_, h2, _, _, _⟩ := C16.fixed_spec lr.v 0 [c]
  have hoff : (Text.fixed lr.v 0 [c]).1 = 0 := h2 hnp
  unfold Aiger.fixed Run
  simp only [run_bind, run_scan, hoff, bne_self_eq_false, Bool.false_eq_true, ↓reduceIte, run_pure]
  exact fall_state hg (hg.vok.fixed 0 [c]) _ hr

theorem fixedNotEol_fall {N} (c : UInt8) (r : VBytes) (h : r.head? ≠ some c) :
    Steps N (fixedNotEol [c]) none r r := by
  intro lr hg hr
  have hnp : ¬ [c] <+: lr.v.rest.drop 0 := by
    rw [List.drop_zero, hr]
    intro hp
    obtain ⟨t, ht⟩ := hp
    rw [← ht] at h; simp at h
  obtain ⟨_, h2, _, _, _⟩ := C16.fixed_spec lr.v 0 [c]
  have hoff : (Text.fixed lr.v 0 [c]).1 = 0 := h2 hnp
  unfold fixedNotEol Run
  simp only [run_bind, run_scan, hoff, bne_self_eq_false, Bool.false_eq_true, ↓reduceIte, run_pure]
  exact fall_state hg (hg.vok.fixed 0 [c]) _ hr

/-- `c` followed by a newline: the comment header, not a symbol. -/
theorem fixedNotEol_nl {N} (c : UInt8) (rest : VBytes) :
    Steps N (fixedNotEol [c]) none (c :: 10 :: rest) (c :: 10 :: rest) := by
  intro lr hg hr
  have hr' : lr.v.rest = [c] ++ (10 :: rest) := by rw [hr]; rfl
  obtain ⟨v1, p1⟩ := hg.vok.demand 0
  obtain ⟨v2, p2⟩ := v1.demand 1
  have hget : ((lr.v.demand 0).rest)[1]? = some 10 := by
    rw [v1.rest, hr]; rfl
  unfold fixedNotEol Run
  simp only [run_bind, run_scan, fixed_eq lr.v hr' (by simp), List.length_singleton, Nat.sub_self,
    show ((1 : Nat) != 0) = true from rfl, ↓reduceIte, run_reqAt, hget, beq_self_eq_true, run_pure]
  exact fall_state hg v2 _ hr

theorem fixedNotEol_steps {N} (c x : UInt8) (rest : VBytes) (hx : x ≠ 10) :
    Steps N (fixedNotEol [c]) (some ()) (c :: x :: rest) (x :: rest) := by
  intro lr hg hr
  have hr' : lr.v.rest = [c] ++ (x :: rest) := by rw [hr]; rfl
  obtain ⟨v1, p1⟩ := hg.vok.demand 0
  obtain ⟨v2, p2⟩ := v1.demand 1
  have hget : ((lr.v.demand 0).rest)[1]? = some x := by
    rw [v1.rest, hr]; rfl
  have hne : (some x == some (10 : UInt8)) = false := by simpa using hx
  unfold fixedNotEol Run
  simp only [run_bind, run_scan, fixed_eq lr.v hr' (by simp), List.length_singleton, Nat.sub_self,
    show ((1 : Nat) != 0) = true from rfl, ↓reduceIte, run_reqAt, hget, hne, Bool.false_eq_true, run_pure]
  rw [run_advance]
  · refine ⟨_, rfl, good_after hg v2 _ _ _ ?_ ?_, ?_⟩
    · rw [hr]; simp
    · have := hg.line; dsimp only; omega
    · dsimp only; rw [v2.rest, hr]; simp
  · dsimp only; rw [v2.pos]; omega
  · dsimp only; rw [v2.rest, hr]; simp

/-! ### separators -/

theorem requiredSpace_steps {N} (rest : VBytes) : Steps N requiredSpace () (32 :: rest) rest := by
  intro lr hg hr
  obtain ⟨v1, p1⟩ := hg.vok.demand 0
  have hget : lr.v.rest[0]? = some 32 := by rw [hr]; rfl
  unfold requiredSpace PM.orGiveUp space Run
  simp only [run_bind, run_reqByte, hget, beq_self_eq_true, ↓reduceIte, run_pure]
  rw [run_advance]
  · refine ⟨_, rfl, good_after hg v1 _ _ _ ?_ ?_, ?_⟩
    · rw [hr]; simp
    · have := hg.line; dsimp only; omega
    · dsimp only; rw [v1.rest, hr]; simp
  · dsimp only; rw [v1.pos]; omega
  · dsimp only; rw [v1.rest, hr]; simp

/-- The state after consuming a newline and `line_at_offset(0)`. -/
theorem good_newline {N} {lr0 : LR} (hg : Good N lr0) {v : View} (hv : VOk lr0.v v) (rest : VBytes)
    (hr : lr0.v.rest = 10 :: rest) :
    Good N { v := { v with rest := v.rest.drop 1, pos := v.pos + 1 }, line := lr0.line + 1,
             lineStart := v.pos + 1 + 0 } ∧ lr0.line + 1 ≤ usizeMax ∧ v.pos + 1 + 0 ≤ usizeMax := by
  have hlen := hg.len
  rw [hr] at hlen
  simp only [List.length_cons] at hlen
  have hb := hg.bound
  have hl := hg.line
  refine ⟨good_after hg hv _ _ 1 (by rw [hr]; simp) (by omega), by omega, ?_⟩
  rw [hv.pos]; omega

theorem requiredNewline_steps {N} (rest : VBytes) : Steps N requiredNewline () (10 :: rest) rest := by
  intro lr hg hr
  obtain ⟨v1, p1⟩ := hg.vok.demand 0
  have hget : lr.v.rest[0]? = some 10 := by rw [hr]; rfl
  obtain ⟨g2, b1, b2⟩ := good_newline hg v1 rest hr
  unfold requiredNewline PM.orGiveUp Aiger.newline Run
  simp only [run_bind, run_reqByte, hget, beq_self_eq_true, ↓reduceIte, run_pure]
  rw [run_advance]
  · simp only []
    rw [run_lineAtOffset]
    · refine ⟨_, rfl, g2, ?_⟩
      dsimp only; rw [v1.rest, hr]; simp
    · exact b1
    · exact b2
  · dsimp only; rw [v1.pos]; omega
  · dsimp only; rw [v1.rest, hr]; simp

theorem newlineOrSpace_space {N} (rest : VBytes) :
    Steps N requiredNewlineOrSpace true (32 :: rest) rest := by
  intro lr hg hr
  obtain ⟨v1, p1⟩ := hg.vok.demand 0
  have hget : lr.v.rest[0]? = some 32 := by rw [hr]; rfl
  unfold requiredNewlineOrSpace Run
  simp only [run_bind, run_reqByte, hget, show (some (32 : UInt8) == some 10) = false from rfl,
    beq_self_eq_true, Bool.false_or, Bool.or_true, ↓reduceIte, Bool.false_eq_true, run_pure]
  rw [run_advance]
  · refine ⟨_, rfl, good_after hg v1 _ _ _ ?_ ?_, ?_⟩
    · rw [hr]; simp
    · have := hg.line; dsimp only; omega
    · dsimp only; rw [v1.rest, hr]; simp
  · dsimp only; rw [v1.pos]; omega
  · dsimp only; rw [v1.rest, hr]; simp

theorem newlineOrSpace_newline {N} (rest : VBytes) :
    Steps N requiredNewlineOrSpace false (10 :: rest) rest := by
  intro lr hg hr
  obtain ⟨v1, p1⟩ := hg.vok.demand 0
  have hget : lr.v.rest[0]? = some 10 := by rw [hr]; rfl
  obtain ⟨g2, b1, b2⟩ := good_newline hg v1 rest hr
  unfold requiredNewlineOrSpace Run
  simp only [run_bind, run_reqByte, hget, beq_self_eq_true, Bool.true_or, ↓reduceIte, run_pure]
  rw [run_advance]
  · simp only []
    rw [run_lineAtOffset]
    · refine ⟨_, rfl, g2, ?_⟩
      dsimp only; rw [v1.rest, hr]; simp
    · exact b1
    · exact b2
  · dsimp only; rw [v1.pos]; omega
  · dsimp only; rw [v1.rest, hr]; simp

end Flussab.AigerRT

namespace Flussab.AigerRT
open Flussab Flussab.CnfP
open Flussab.PM hiding run_bind
open Flussab.Aiger hiding run_bind run_pure run_throw run_rpanic run_get run_set run_modify run_scan
  run_reqAt run_reqByte run_setMark run_mark run_position run_ite run_bufPrefix run_advance
  run_utf8Unwrap
set_option linter.unusedSimpArgs false
set_option linter.unusedVariables false

/-! ### numbers -/

theorem demanded_ge' {v : View} {n : Nat} (h1 : n ≤ v.rest.length) (h2 : v.pos + n ≤ v.peeked) :
    n ≤ v.demanded := by
  unfold View.demanded; omega

/-- `uint` reads the canonical decimal text of every `usize` back. -/
theorem uint_steps {N} (n : Nat) (hn : n < 2 ^ 64) (rest : VBytes) (hnd : ND rest) :
    Steps N uint (.ok n) (Writer.natDigits n ++ rest) rest := by
  intro lr hg hr
  obtain ⟨hval, hall, hne, hnz, hz⟩ := Writer.digitsOf_spec n
  rw [Writer.natDigits_eq] at hr
  generalize Writer.digitsOf n = ds at hr hval hall hne hnz hz
  have hfit : usizeTy.fits ((Text.decVal ds : Nat) : Int) = true := by
    rw [hval, IntTy.fits_iff]
    simp only [usizeTy, IntTy.minVal, IntTy.maxVal, Bool.false_eq_true, ↓reduceIte]
    omega
  have hscan := digits_eq usizeTy (by decide) lr.v 0 (ds := ds) (rest := rest)
    (by rw [List.drop_zero, hr]) hall hnd
  rw [hfit] at hscan
  simp only [↓reduceIte, Nat.zero_add, hval] at hscan
  have hst : (Text.asciiDigits usizeTy lr.v 0).2 = lr.v.demand ds.length := by
    have := (PM.digitsCont_spec usizeTy false lr.v 0 (some 0)).2
    simp only [Text.asciiDigits]
    rw [this, List.drop_zero, hr, takeWhile_digit hall hnd, Nat.zero_add]
  obtain ⟨v1, p1⟩ := hg.vok.demand ds.length
  have hlen : 0 < ds.length := List.length_pos_iff.mpr hne
  have hoff : (ds.length != 0) = true := by rw [bne_iff_ne]; omega
  have hdem : ds.length ≤ (lr.v.demand ds.length).demanded :=
    demanded_ge' (by rw [v1.rest, hr]; simp) (by rw [v1.pos]; omega)
  have htake : (lr.v.demand ds.length).rest.take ds.length = ds := by
    rw [v1.rest, hr, List.take_left']; rfl
  unfold uint Run
  simp only [run_bind, run_scan, hscan, hst, hoff, ↓reduceIte, Aiger.run_bufPrefix, hdem, htake]
  cases hcs : ds with
  | nil => rw [hcs] at hne; exact absurd rfl hne
  | cons b0 tl =>
    have hplain : (b0 != 48 || (b0 :: tl).length == 1) = true := by
      by_cases h0 : n = 0
      · have := hz h0
        rw [hcs] at this
        simp only [List.cons.injEq] at this
        rw [this.2]; simp
      · have := hnz h0
        rw [hcs] at this
        simp only [List.head?_cons, ne_eq, Option.some.injEq] at this
        simp [this]
    simp only [hplain, Int.toNat_natCast, run_pure, run_bind]
    rw [← hcs]
    rw [run_advance]
    · refine ⟨_, rfl, good_after hg v1 _ _ _ ?_ ?_, ?_⟩
      · rw [hr]; simp
      · have := hg.line; dsimp only; omega
      · dsimp only; rw [v1.rest, hr]; simp
    · dsimp only; rw [v1.pos]; omega
    · dsimp only; rw [v1.rest, hr]; simp

theorem setMark_bind {N} {β : Type} {g : PUnit → PM β} {b : β} {r0 r1 : VBytes}
    (h : Steps N (g ⟨⟩) b r0 r1) : Steps N (setMark >>= g) b r0 r1 :=
  Steps.bind (Steps.setMark r0) h

/-- `header_field` / `symbol_index` on the canonical text of a count within the limit. -/
theorem headerField_steps {N} (limit n : Nat) (hn : n < 2 ^ 64) (hl : n ≤ limit) (rest : VBytes)
    (hnd : ND rest) : Steps N (headerField limit) n (Writer.natDigits n ++ rest) rest := by
  unfold headerField
  refine setMark_bind ?_
  refine Steps.bind (uint_steps n hn rest hnd) ?_
  have : ¬ n > limit := by omega
  simp only [this, ↓reduceIte]
  exact Steps.pure _ _

/-- `lit` on the canonical text of a literal within the limit (even and `≥ 2` where it defines a
variable). -/
theorem lit_steps {N} (limit : Nat) (assigning : Bool) (n : Nat) (hn : n < 2 ^ 64) (hl : n ≤ limit)
    (ha : assigning = true → n % 2 = 0 ∧ 2 ≤ n) (rest : VBytes) (hnd : ND rest) :
    Steps N (lit limit assigning) n (Writer.natDigits n ++ rest) rest := by
  unfold lit
  refine setMark_bind ?_
  refine Steps.bind (uint_steps n hn rest hnd) ?_
  have h1 : (assigning && (n == 0 || n % 2 != 0)) = false := by
    cases assigning with
    | false => rfl
    | true =>
      obtain ⟨e, g⟩ := ha rfl
      have : (n == 0) = false := by simpa using (by omega : n ≠ 0)
      simp [this, e]
  have h2 : ¬ n > limit := by omega
  simp only [h1, Bool.false_eq_true, ↓reduceIte, h2]
  exact Steps.pure _ _

theorem ND.space (rest : VBytes) : ND (32 :: rest) := by
  intro b hb; simp only [List.head?_cons, Option.some.injEq] at hb; rw [← hb]; decide

theorem ND.newline (rest : VBytes) : ND (10 :: rest) := by
  intro b hb; simp only [List.head?_cons, Option.some.injEq] at hb; rw [← hb]; decide

end Flussab.AigerRT

namespace Flussab.AigerRT
open Flussab Flussab.CnfP
open Flussab.PM hiding run_bind
open Flussab.Aiger hiding run_bind run_pure run_throw run_rpanic run_get run_set run_modify run_scan
  run_reqAt run_reqByte run_setMark run_mark run_position run_ite run_bufPrefix run_advance
  run_utf8Unwrap
set_option linter.unusedSimpArgs false
set_option linter.unusedVariables false

/-! ### names, comment, end of file, varints -/

theorem runLen_noLF (name rest : VBytes) (hn : name.all (· != 10) = true) :
    Text.runLen (· != 10) (name ++ 10 :: rest) = name.length := by
  rw [C16.runLen_eq_takeWhile, takeWhile_noLF hn]

/-- `remaining_line_content` on a valid name followed by a newline. -/
theorem remainingLineContent_steps {N} (name rest : VBytes) (hn : name.all (· != 10) = true)
    (hu : validUtf8 name = true) :
    Steps N remainingLineContent name (name ++ 10 :: rest) rest := by
  intro lr hg hr
  obtain ⟨v1, p1⟩ := hg.vok.demand name.length
  have hoff : Text.runLen (· != 10) lr.v.rest = name.length := by rw [hr]; exact runLen_noLF name rest hn
  have hget : lr.v.rest[name.length]? = some 10 := by
    rw [hr]; simp
  have hdem : name.length ≤ (lr.v.demand name.length).demanded :=
    demanded_ge' (by rw [v1.rest, hr]; simp) (by rw [v1.pos]; omega)
  have hdem1 : name.length + 1 ≤ (lr.v.demand name.length).demanded :=
    demanded_ge' (by rw [v1.rest, hr]; simp) (by rw [v1.pos]; omega)
  have htake : (lr.v.demand name.length).rest.take name.length = name := by
    rw [v1.rest, hr, List.take_left']; rfl
  have hup : (utf8ValidUpTo name == name.length) = true := hu
  have hlen := hg.len
  rw [hr] at hlen
  simp only [List.length_append, List.length_cons] at hlen
  have hb := hg.bound
  have hl := hg.line
  unfold remainingLineContent Run
  simp only [run_bind, run_get, hoff, run_reqAt, hget, Option.isNone_some, Bool.false_eq_true,
    ↓reduceIte, Aiger.run_bufPrefix, hdem, htake, hup]
  rw [run_lineAtOffset]
  · simp only []
    unfold PM.advanceWithBuf
    simp only [run_bind, Aiger.run_bufPrefix, Aiger.run_advance, hdem1, ↓reduceIte, run_pure]
    have hval : List.take name.length (List.take (name.length + 1) (lr.v.demand name.length).rest) = name := by
      rw [List.take_take, Nat.min_eq_left (by omega)]; exact htake
    rw [hval]
    refine ⟨_, rfl, good_after hg v1 _ _ _ ?_ ?_, ?_⟩
    · rw [hr]; simp
    · omega
    · dsimp only
      rw [v1.rest, hr]
      have : name ++ 10 :: rest = (name ++ [10]) ++ rest := by simp
      rw [this, List.drop_left' (by simp)]
  · dsimp only; omega
  · dsimp only; rw [v1.pos]; omega

theorem view_ioErr_false (v : View) (h : v.ioErr = false) : ({ v with ioErr := false } : View) = v := by
  cases v; simp_all

theorem run_checkIoError (lr : LR) (h : lr.v.ioErr = false) : checkIoError.run lr = (.ok (), lr) := by
  unfold checkIoError
  simp only [run_bind, run_get, View.checkIoError, h, Bool.false_eq_true, ↓reduceIte]
  show (Except.ok (), ({ lr with v := { lr.v with ioErr := false } } : LR)) = _
  rw [view_ioErr_false _ h]

/-- `remaining_file_content` on what `write_comment` wrote: the comment and one newline. -/
theorem remainingFileContent_steps {N} (c : VBytes) (hu : validUtf8 c = true) :
    Steps N remainingFileContent c (c ++ [10]) [] := by
  intro lr hg hr
  obtain ⟨v1, p1⟩ := hg.vok.demand (c.length + 1)
  have hlenr : lr.v.rest.length = c.length + 1 := by rw [hr]; simp
  have hget : lr.v.rest[c.length + 1]? = none := by
    rw [List.getElem?_eq_none (by omega)]
  have hdem : c.length + 1 ≤ (lr.v.demand (c.length + 1)).demanded :=
    demanded_ge' (by rw [v1.rest, hlenr]; exact Nat.le_refl _) (by rw [v1.pos]; omega)
  have htake : (lr.v.demand (c.length + 1)).rest.take (c.length + 1) = c ++ [10] := by
    rw [v1.rest, hr]
    exact List.take_of_length_le (by simp)
  have hup : utf8ValidUpTo (c ++ [10]) = c.length + 1 := by
    have := validUtf8_append_newline c hu
    unfold validUtf8 at this
    simpa using this
  have hlast : (c ++ [10]).getLast? = some 10 := by simp
  have hchk := run_checkIoError ({ lr with v := lr.v.demand (c.length + 1) } : LR) v1.ioErr
  unfold remainingFileContent Run
  simp only [run_bind, run_get, hlenr, run_reqAt, hget, hchk,
    Aiger.run_bufPrefix, hdem, ↓reduceIte, htake, hup, beq_self_eq_true, hlast, Bool.true_or,
    Bool.and_self]
  unfold PM.advanceWithBuf
  simp only [run_bind, Aiger.run_bufPrefix, Aiger.run_advance, hdem, ↓reduceIte, run_pure, htake]
  have hval : List.take (c.length + 1 - 1) (c ++ [10]) = c := by
    rw [Nat.add_sub_cancel, List.take_left']; rfl
  rw [hval]
  refine ⟨_, rfl, good_after hg v1 _ _ _ ?_ ?_, ?_⟩
  · rw [hlenr]; exact Nat.le_refl _
  · have := hg.line; omega
  · dsimp only
    rw [v1.rest, hr]
    exact List.drop_of_length_le (by simp)

theorem eof_steps {N} : Steps N Aiger.eof (some ()) [] [] := by
  intro lr hg hr
  obtain ⟨v1, _⟩ := hg.vok.demand 0
  have hget : lr.v.rest[0]? = none := by rw [hr]; rfl
  unfold Aiger.eof Run
  simp only [run_bind, run_reqByte, hget, Option.isNone_none, ↓reduceIte, run_get, v1.ioErr,
    Bool.not_false, run_pure]
  exact fall_state hg v1 _ hr

/-- `binary_uint` on what `write_binary_uint` wrote. -/
theorem binaryUint_steps {N} (n : Nat) (hn : n < 2 ^ 64) (bs rest : VBytes)
    (hw : writeBinaryUint n = some bs) : Steps N binaryUint n (bs ++ rest) rest := by
  intro lr hg hr
  have hrun := binaryUint_write n hn bs hw lr rest hr
  refine ⟨_, hrun, ?_, rfl⟩
  have hlen := hg.len
  rw [hr] at hlen
  simp only [List.length_append] at hlen
  refine ⟨hg.bound, hg.fault, hg.ioErr, ?_, ?_⟩
  · have := hg.line; dsimp only; omega
  · dsimp only; omega

end Flussab.AigerRT
