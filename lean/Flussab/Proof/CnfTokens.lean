/-
Token-level lemmas for the DIMACS tokenizer (`Model/CnfToken.lean`) on known text, in the
`Steps` form of `Proof/CnfRun.lean`: what each token returns, that it consumes exactly the stated
prefix (`pre = consumed ++ post`), that it leaves a good state, and — for every token that can
fall through — that it does so without consuming anything when the text starts differently.
-/
import Flussab.Proof.CnfRun

namespace Flussab.CnfP
open Flussab Flussab.PM Flussab.Cnf
set_option linter.unusedSimpArgs false
set_option linter.unusedVariables false

/-- State after the final `advance n` of a token. -/
theorem good_after {N} {lr0 : LR} (hg : Good N lr0) {v : View} (hv : VOk lr0.v v) (line ls n : Nat)
    (hn : n ≤ lr0.v.rest.length) (hline : line ≤ lr0.v.pos + n + 1) :
    Good N { v := { v with rest := v.rest.drop n, pos := v.pos + n }, line := line, lineStart := ls } := by
  refine ⟨hg.bound, hv.fault, hv.ioErr, ?_, ?_⟩
  · have := hv.pos; dsimp only; omega
  · have := hg.len; have := hv.pos; dsimp only; rw [hv.rest]
    simp only [List.length_drop]; omega

/-- A token that looked and fell through. -/
theorem fall_state {N} {lr : LR} (hg : Good N lr) {v : View} (hv : VOk lr.v v) {α} (a : α)
    {r : VBytes} (hr : lr.v.rest = r) :
    ∃ lr', ((Except.ok a, ({ lr with v := v } : LR)) : Except PErr α × LR) = (.ok a, lr') ∧
      Good N lr' ∧ lr'.v.rest = r := by
  obtain ⟨g', r'⟩ := hg.of_vok hv
  exact ⟨_, rfl, g', by rw [r', hr]⟩

theorem getElem?_append_len (a b : VBytes) : (a ++ b)[a.length]? = b.head? := by
  rw [List.head?_eq_getElem?, List.getElem?_append_right (Nat.le_refl _), Nat.sub_self]

/-! ### `skip_whitespace` -/

theorem skipWhitespace_ok {N} (bl rest : VBytes) (hbl : AllBlank bl) (hnb : NB rest) :
    Steps N skipWhitespace () (bl ++ rest) rest := by
  intro lr hg hr
  obtain ⟨v1, p1⟩ := hg.vok.demand (0 + bl.length)
  have hdrop : lr.v.rest.drop 0 = bl ++ rest := by rw [List.drop_zero, hr]
  unfold skipWhitespace Run
  simp only [run_bind, run_scan, tabs_eq _ _ hdrop hbl hnb]
  rw [run_advance]
  · refine ⟨_, rfl, good_after hg v1 _ _ _ ?_ ?_, ?_⟩
    · rw [hr]; simp
    · have := hg.line; dsimp only; omega
    · dsimp only; rw [v1.rest, hr]; simp
  · dsimp only; rw [v1.pos]; omega
  · dsimp only; rw [v1.rest, hr]; simp

/-! ### `word` -/

theorem word_ok {N} (pat bl rest : VBytes) (hne : pat ≠ []) (hbl : AllBlank bl) (hnb : NB rest)
    (hwe : WE (bl ++ rest)) : Steps N (word pat) (some ()) (pat ++ bl ++ rest) rest := by
  intro lr hg hr
  have hr' : lr.v.rest = pat ++ (bl ++ rest) := by rw [hr, List.append_assoc]
  obtain ⟨v1, p1⟩ := hg.vok.demand (pat.length - 1)
  obtain ⟨v2, p2⟩ := v1.demand pat.length
  obtain ⟨v3, p3⟩ := v2.demand (pat.length + bl.length)
  have hlen : 0 < pat.length := List.length_pos_iff.mpr hne
  have hoff : (pat.length != 0) = true := by rw [bne_iff_ne]; omega
  have hget : ((lr.v.demand (pat.length - 1)).rest)[pat.length]? = (bl ++ rest).head? := by
    rw [v1.rest, hr']; exact getElem?_append_len _ _
  have hdrop : ((lr.v.demand (pat.length - 1)).demand pat.length).rest.drop pat.length = bl ++ rest := by
    rw [v2.rest, hr']; simp
  have hwe' : isWordEnd (List.head? (bl ++ rest)) = true := hwe
  unfold word Run
  simp only [run_bind, run_scan, fixed_eq lr.v hr' hne, hoff, ↓reduceIte, isEndOfWord, run_reqAt,
    run_pure, hget, hwe', tabs_eq _ _ hdrop hbl hnb]
  rw [run_advance]
  · refine ⟨_, rfl, good_after hg v3 _ _ _ ?_ ?_, ?_⟩
    · rw [hr']; simp
    · have := hg.line; dsimp only; omega
    · dsimp only; rw [v3.rest, hr']; simp
  · dsimp only; rw [v3.pos]; omega
  · dsimp only; rw [v3.rest, hr']; simp

theorem word_fall {N} (c : UInt8) (r : VBytes) (h : r.head? ≠ some c) :
    Steps N (word [c]) none r r := by
  intro lr hg hr
  have hnp : ¬ [c] <+: lr.v.rest.drop 0 := by
    rw [List.drop_zero, hr]
    intro hp
    obtain ⟨t, ht⟩ := hp
    rw [← ht] at h; simp at h
  obtain ⟨_, h2, _, _, _⟩ := C16.fixed_spec lr.v 0 [c]
  have hoff : (Text.fixed lr.v 0 [c]).1 = 0 := h2 hnp
  unfold word Run
  simp only [run_bind, run_scan, hoff, bne_self_eq_false, Bool.false_eq_true, ↓reduceIte, run_pure]
  exact fall_state hg (hg.vok.fixed 0 [c]) _ hr

/-! ### `comment` -/

theorem comment_ok {N} (body bl rest : VBytes) (hb : body.all (· != 10) = true) (hbl : AllBlank bl)
    (hnb : NB rest) : Steps N comment (some ()) (99 :: body ++ 10 :: (bl ++ rest)) rest := by
  intro lr hg hr
  obtain ⟨v1, p1⟩ := hg.vok.demand 0
  obtain ⟨v2, p2⟩ := v1.demand (1 + body.length)
  obtain ⟨v3, p3⟩ := v2.demand (1 + body.length + 1 + bl.length)
  have hget : lr.v.rest[0]? = some 99 := by rw [hr]; rfl
  have hd1 : (lr.v.demand 0).rest.drop 1 = body ++ 10 :: (bl ++ rest) := by rw [v1.rest, hr]; rfl
  have hd2 : ((lr.v.demand 0).demand (1 + body.length)).rest.drop (1 + body.length + 1) = bl ++ rest := by
    rw [v2.rest, hr]
    have : (99 :: body ++ 10 :: (bl ++ rest)) = (99 :: body ++ [10]) ++ (bl ++ rest) := by simp
    rw [this, List.drop_left' (by simp; omega)]
  have hlen : lr.v.rest.length = 1 + body.length + 1 + bl.length + rest.length := by
    rw [hr]; simp; omega
  have hl := hg.len
  have hbd := hg.bound
  have hln := hg.line
  unfold comment Run
  simp only [run_bind, run_reqByte, hget, beq_self_eq_true, ↓reduceIte, run_scan,
    nextNewline_eq _ _ hd1 hb]
  rw [run_lineAtOffset _ _ (by dsimp only; omega) (by dsimp only; rw [v2.pos]; omega)]
  simp only [run_scan, tabs_eq _ _ hd2 hbl hnb]
  rw [run_advance]
  · refine ⟨_, rfl, good_after hg v3 _ _ _ ?_ ?_, ?_⟩
    · omega
    · dsimp only; omega
    · dsimp only; rw [v3.rest, hr]
      have : (99 :: body ++ 10 :: (bl ++ rest)) = (99 :: body ++ [10] ++ bl) ++ rest := by simp
      rw [this, List.drop_left' (by simp; omega)]
  · dsimp only; rw [v3.pos]; omega
  · dsimp only; rw [v3.rest]; omega

theorem comment_fall {N} (r : VBytes) (h : r.head? ≠ some 99) : Steps N comment none r r := by
  intro lr hg hr
  have hget : (lr.v.rest[0]? == some 99) = false := by
    rw [← List.head?_eq_getElem?, hr]; simpa using h
  unfold comment Run
  simp only [run_bind, run_reqByte, hget, Bool.false_eq_true, ↓reduceIte, run_pure]
  exact fall_state hg (hg.vok.demand 0).1 _ hr

/-! ### `newline`, `interactive_newline` -/

/-- `text::newline` at the start of an end-of-line sequence. -/
theorem newline_eq {v0 v : View} (hv : VOk v0 v) {e rest : VBytes} (he : IsEol e)
    (h : v.rest = e ++ rest) :
    ∃ v', Text.newline v 0 = (e.length, v') ∧ VOk v0 v' ∧ v0.pos + e.length ≤ v'.peeked := by
  obtain ⟨s1, s2, _, _⟩ := C16.newline_spec v 0
  rcases he with he | he
  · subst he
    have := s1 (by rw [h]; rfl)
    obtain ⟨a, b⟩ := hv.demand 0
    exact ⟨_, this, a, by simpa using b⟩
  · subst he
    have := s2 (by rw [h]; rfl) (by rw [h]; rfl)
    obtain ⟨a, _⟩ := hv.demand 0
    obtain ⟨a', b'⟩ := a.demand (0 + 1)
    exact ⟨_, this, a', by simp only [List.length_cons, List.length_nil]; omega⟩

theorem newline_zero (v : View) {r : VBytes} (hr : v.rest = r) (h1 : r.head? ≠ some 10)
    (h2 : r.head? ≠ some 13) : (Text.newline v 0).1 = 0 := by
  obtain ⟨_, _, _, s4⟩ := C16.newline_spec v 0
  rw [s4 (by rw [← List.head?_eq_getElem?, hr]; exact h1)
    (by rw [← List.head?_eq_getElem?, hr]; exact h2)]

theorem IsEol.pos {e : VBytes} (he : IsEol e) : 0 < e.length := by
  rcases he with he | he <;> subst he <;> simp

theorem newline_ok {N} (e bl rest : VBytes) (he : IsEol e) (hbl : AllBlank bl) (hnb : NB rest) :
    Steps N newline (some ()) (e ++ (bl ++ rest)) rest := by
  intro lr hg hr
  obtain ⟨v1, hv1e, v1ok, p1⟩ := newline_eq hg.vok he hr
  obtain ⟨v2, p2⟩ := v1ok.demand (e.length + bl.length)
  have hpos := he.pos
  have hoff : (e.length != 0) = true := by rw [bne_iff_ne]; omega
  have hd : v1.rest.drop e.length = bl ++ rest := by rw [v1ok.rest, hr, List.drop_left' rfl]
  have hlen : lr.v.rest.length = e.length + bl.length + rest.length := by rw [hr]; simp; omega
  have hl := hg.len
  have hbd := hg.bound
  have hln := hg.line
  unfold newline Run
  simp only [run_bind, run_scan, hv1e, hoff, ↓reduceIte]
  rw [run_lineAtOffset _ _ (by dsimp only; omega) (by dsimp only; rw [v1ok.pos]; omega)]
  simp only [run_scan, tabs_eq _ _ hd hbl hnb]
  rw [run_advance]
  · refine ⟨_, rfl, good_after hg v2 _ _ _ ?_ ?_, ?_⟩
    · omega
    · dsimp only; omega
    · dsimp only; rw [v2.rest, hr, ← List.append_assoc, List.drop_left' (by simp)]
  · dsimp only; rw [v2.pos]; omega
  · dsimp only; rw [v2.rest]; omega

theorem newline_fall {N} (r : VBytes) (h1 : r.head? ≠ some 10) (h2 : r.head? ≠ some 13) :
    Steps N newline none r r := by
  intro lr hg hr
  have hoff := newline_zero lr.v hr h1 h2
  unfold newline Run
  simp only [run_bind, run_scan, hoff, bne_self_eq_false, Bool.false_eq_true, ↓reduceIte, run_pure]
  exact fall_state hg (hg.vok.newline 0) _ hr

theorem interactiveNewline_ok {N} (e rest : VBytes) (he : IsEol e) :
    Steps N interactiveNewline (some ()) (e ++ rest) rest := by
  intro lr hg hr
  obtain ⟨v1, hv1e, v1ok, p1⟩ := newline_eq hg.vok he hr
  have hpos := he.pos
  have hoff : (e.length != 0) = true := by rw [bne_iff_ne]; omega
  have hlen : lr.v.rest.length = e.length + rest.length := by rw [hr]; simp
  have hl := hg.len
  have hbd := hg.bound
  have hln := hg.line
  unfold interactiveNewline Run
  simp only [run_bind, run_scan, hv1e, hoff, ↓reduceIte]
  rw [run_lineAtOffset _ _ (by dsimp only; omega) (by dsimp only; rw [v1ok.pos]; omega)]
  simp only []
  rw [run_advance]
  · refine ⟨_, rfl, good_after hg v1ok _ _ _ ?_ ?_, ?_⟩
    · omega
    · dsimp only; omega
    · dsimp only; rw [v1ok.rest, hr, List.drop_left' rfl]
  · dsimp only; rw [v1ok.pos]; omega
  · dsimp only; rw [v1ok.rest]; omega

theorem interactiveNewline_fall {N} (r : VBytes) (h1 : r.head? ≠ some 10) (h2 : r.head? ≠ some 13) :
    Steps N interactiveNewline none r r := by
  intro lr hg hr
  have hoff := newline_zero lr.v hr h1 h2
  unfold interactiveNewline Run
  simp only [run_bind, run_scan, hoff, bne_self_eq_false, Bool.false_eq_true, ↓reduceIte, run_pure]
  exact fall_state hg (hg.vok.newline 0) _ hr

/-! ### `eof`, `interactive_end_of_line` -/

theorem eof_ok {N} : Steps N eof (some ()) [] [] := by
  intro lr hg hr
  obtain ⟨v1, _⟩ := hg.vok.demand 0
  have hget : lr.v.rest[0]? = none := by rw [hr]; rfl
  unfold eof Run
  simp only [run_bind, run_reqByte, hget, Option.isNone_none, ↓reduceIte, run_get, v1.ioErr,
    Bool.not_false, run_pure]
  exact fall_state hg v1 _ hr

theorem eof_fall {N} (r : VBytes) (h : r ≠ []) : Steps N eof none r r := by
  intro lr hg hr
  obtain ⟨b, t, hbt⟩ : ∃ b t, r = b :: t := by
    cases r with
    | nil => exact absurd rfl h
    | cons b t => exact ⟨b, t, rfl⟩
  have hget : lr.v.rest[0]? = some b := by rw [hr, hbt]; rfl
  unfold eof Run
  simp only [run_bind, run_reqByte, hget, Option.isNone_some, Bool.false_eq_true, ↓reduceIte, run_pure]
  exact fall_state hg (hg.vok.demand 0).1 _ hr

/-- `interactive_end_of_line` on an end-of-line sequence, or at the end of the input. -/
theorem interactiveEndOfLine_ok {N} (e rest : VBytes) (he : IsEol e ∨ (e = [] ∧ rest = [])) :
    Steps N interactiveEndOfLine (some ()) (e ++ rest) rest := by
  rcases he with he | ⟨h1, h2⟩
  · exact Steps.orParse_left (interactiveNewline_ok e rest he)
  · subst h1; subst h2
    exact Steps.orParse_right (interactiveNewline_fall [] (by simp) (by simp)) eof_ok

/-! ### numbers -/

/-- The shared tail of `uint` / `int` after a successful scan of `num`. -/
theorem numberTail_ok {N} (num bl rest : VBytes) (x : Int) (hne : num ≠ []) (hbl : AllBlank bl)
    (hnb : NB rest) (hwe : WE (bl ++ rest)) :
    Steps N (numberTail (some x) num.length) (some (some x)) (num ++ (bl ++ rest)) rest := by
  intro lr hg hr
  obtain ⟨v2, p2⟩ := hg.vok.demand num.length
  obtain ⟨v3, p3⟩ := v2.demand (num.length + bl.length)
  have hlen : 0 < num.length := List.length_pos_iff.mpr hne
  have hoff : (num.length != 0) = true := by rw [bne_iff_ne]; omega
  have hget : lr.v.rest[num.length]? = (bl ++ rest).head? := by
    rw [hr]; exact getElem?_append_len _ _
  have hdrop : (lr.v.demand num.length).rest.drop num.length = bl ++ rest := by
    rw [v2.rest, hr]; simp
  have hwe' : isWordEnd (List.head? (bl ++ rest)) = true := hwe
  unfold numberTail Run
  simp only [run_bind, run_scan, hoff, ↓reduceIte, isEndOfWord, run_reqAt,
    run_pure, hget, hwe', tabs_eq _ _ hdrop hbl hnb]
  rw [run_advance]
  · refine ⟨_, rfl, good_after hg v3 _ _ _ ?_ ?_, ?_⟩
    · rw [hr]; simp
    · have := hg.line; dsimp only; omega
    · dsimp only; rw [v3.rest, hr, ← List.append_assoc, List.drop_left' (by simp)]
  · dsimp only; rw [v3.pos]; omega
  · dsimp only; rw [v3.rest, hr]; simp

theorem numberTail_zero {N} (val : Option Int) (r : VBytes) :
    Steps N (numberTail val 0) none r r := by
  unfold numberTail
  simp only [bne_self_eq_false, Bool.false_eq_true, ↓reduceIte]
  exact Steps.pure _ _

/-- `uint::<T>` on a digit string (leading zeros allowed) whose value fits `T`. -/
theorem uint_ok {N} (t : IntTy) (hb : 1 ≤ t.bits) (ds bl rest : VBytes) (hds : AllDigit ds)
    (hne : ds ≠ []) (hfit : t.fits (Text.decVal ds : Nat) = true) (hbl : AllBlank bl) (hnb : NB rest)
    (hwe : WE (bl ++ rest)) :
    Steps N (uint t) (some (some (Text.decVal ds : Nat))) (ds ++ (bl ++ rest)) rest := by
  unfold uint
  refine Steps.bind (a := (some ((Text.decVal ds : Nat) : Int), ds.length))
    (Steps.scan _ _ _ ?_ (fun v hv => hv.digits t 0)) ?_
  · intro v hv
    have := digits_eq t hb v 0 (ds := ds) (rest := bl ++ rest) (by rw [List.drop_zero, hv]) hds hwe.nd
    rw [this, hfit]; simp
  · exact numberTail_ok ds bl rest _ hne hbl hnb hwe

theorem uint_fall {N} (t : IntTy) (hb : 1 ≤ t.bits) (r : VBytes) (hnd : ND r) :
    Steps N (uint t) none r r := by
  unfold uint
  refine Steps.bind (a := (some (0 : Int), 0))
    (Steps.scan _ _ _ ?_ (fun v hv => hv.digits t 0)) (numberTail_zero _ _)
  intro v hv
  have := digits_eq t hb v 0 (ds := []) (rest := r) (by rw [List.drop_zero, hv]; rfl)
    (fun _ h => by simp at h) hnd
  rw [this]; simp [Text.decVal, fits_zero t]

/-- `int::<T>` on an optional `'-'` followed by a digit string whose (negated) value fits `T`. -/
theorem int_ok_pos {N} (t : IntTy) (hb : 1 ≤ t.bits) (ds bl rest : VBytes) (hds : AllDigit ds)
    (hne : ds ≠ []) (hfit : t.fits (Text.decVal ds : Nat) = true) (hbl : AllBlank bl) (hnb : NB rest)
    (hwe : WE (bl ++ rest)) :
    Steps N (int t) (some (some (Text.decVal ds : Nat))) (ds ++ (bl ++ rest)) rest := by
  unfold int
  refine Steps.bind (a := (some ((Text.decVal ds : Nat) : Int), ds.length))
    (Steps.scan _ _ _ ?_ (fun v hv => hv.signed t 0)) ?_
  · intro v hv
    obtain ⟨d, ds', hd⟩ : ∃ d ds', ds = d :: ds' := by
      cases ds with
      | nil => exact absurd rfl hne
      | cons d ds' => exact ⟨d, ds', rfl⟩
    have hdd : isDigit d = true := hds d (by rw [hd]; simp)
    have h45 : v.rest[0]? ≠ some 45 := by
      rw [hv, hd]; simp only [List.cons_append, List.getElem?_cons_zero, ne_eq, Option.some.injEq]
      intro h; rw [h] at hdd; exact absurd hdd (by decide)
    obtain ⟨_, _, s3⟩ := C13.signed_digits_exact t hb v 0
    rw [s3 h45]
    have := digits_eq t hb v 0 (ds := ds) (rest := bl ++ rest) (by rw [List.drop_zero, hv]) hds hwe.nd
    rw [this, hfit]; simp
  · exact numberTail_ok ds bl rest _ hne hbl hnb hwe

theorem int_ok_neg {N} (t : IntTy) (hb : 1 ≤ t.bits) (ds bl rest : VBytes) (hds : AllDigit ds)
    (hne : ds ≠ []) (hfit : t.fits (-((Text.decVal ds : Nat) : Int)) = true) (hbl : AllBlank bl)
    (hnb : NB rest) (hwe : WE (bl ++ rest)) :
    Steps N (int t) (some (some (-((Text.decVal ds : Nat) : Int)))) (45 :: ds ++ (bl ++ rest)) rest := by
  unfold int
  refine Steps.bind (a := (some (-((Text.decVal ds : Nat) : Int)), (45 :: ds).length))
    (Steps.scan _ _ _ ?_ (fun v hv => hv.signed t 0)) ?_
  · intro v hv
    obtain ⟨d, ds', hd⟩ : ∃ d ds', ds = d :: ds' := by
      cases ds with
      | nil => exact absurd rfl hne
      | cons d ds' => exact ⟨d, ds', rfl⟩
    have hdd : isDigit d = true := hds d (by rw [hd]; simp)
    obtain ⟨s1, _, _⟩ := C13.signed_digits_exact t hb v 0
    have h0 : v.rest[0]? = some 45 := by rw [hv]; rfl
    have h1 : v.rest[0 + 1]? = some d := by rw [hv, hd]; rfl
    have := s1 d h0 h1 hdd
    simp only at this
    have hdr : v.rest.drop (0 + 1) = ds ++ (bl ++ rest) := by rw [hv]; rfl
    rw [hdr, takeWhile_digit hds hwe.nd] at this
    rw [this, hfit]; simp; omega
  · exact numberTail_ok (45 :: ds) bl rest _ (by simp) hbl hnb hwe

/-- `int` falls through when the text starts with neither a digit nor `'-'`. -/
theorem int_fall {N} (t : IntTy) (hb : 1 ≤ t.bits) (r : VBytes) (hnd : ND r)
    (h45 : r.head? ≠ some 45) : Steps N (int t) none r r := by
  unfold int
  refine Steps.bind (a := (some (0 : Int), 0))
    (Steps.scan _ _ _ ?_ (fun v hv => hv.signed t 0)) (numberTail_zero _ _)
  intro v hv
  obtain ⟨_, _, s3⟩ := C13.signed_digits_exact t hb v 0
  rw [s3 (by rw [← List.head?_eq_getElem?, hv]; exact h45)]
  have := digits_eq t hb v 0 (ds := []) (rest := r) (by rw [List.drop_zero, hv]; rfl)
    (fun _ h => by simp at h) hnd
  rw [this]; simp [Text.decVal, fits_zero t]

/-- `braced_uint::<T>` on `'{' ++ digits ++ '}' ++ blanks`. -/
theorem bracedUint_ok {N} (t : IntTy) (hb : 1 ≤ t.bits) (ds bl rest : VBytes) (hds : AllDigit ds)
    (hne : ds ≠ []) (hfit : t.fits (Text.decVal ds : Nat) = true) (hbl : AllBlank bl) (hnb : NB rest) :
    Steps N (bracedUint t) (some (some (Text.decVal ds : Nat)))
      (123 :: ds ++ 125 :: (bl ++ rest)) rest := by
  intro lr hg hr
  obtain ⟨v1, p1⟩ := hg.vok.demand 0
  have v2 := v1.digits t 1
  have hnd : ND (125 :: (bl ++ rest)) := by
    intro b hb'; simp only [List.head?_cons, Option.some.injEq] at hb'; subst hb'; decide
  have hd1 : (lr.v.demand 0).rest.drop 1 = ds ++ 125 :: (bl ++ rest) := by rw [v1.rest, hr]; rfl
  have hdig := digits_eq t hb (lr.v.demand 0) 1 hd1 hds hnd
  rw [hfit] at hdig
  simp only [↓reduceIte] at hdig
  obtain ⟨v3, p3⟩ := v2.demand (1 + ds.length)
  obtain ⟨v4, p4⟩ := v3.demand (1 + ds.length + 1 + bl.length)
  have hlen : 0 < ds.length := List.length_pos_iff.mpr hne
  have hoff : (1 + ds.length != 1) = true := by rw [bne_iff_ne]; omega
  have hget0 : lr.v.rest[0]? = some 123 := by rw [hr]; rfl
  have hget : (Text.asciiDigits t (lr.v.demand 0) 1).2.rest[1 + ds.length]? = some 125 := by
    rw [v2.rest, hr]
    have : (123 :: ds ++ 125 :: (bl ++ rest)) = (123 :: ds) ++ 125 :: (bl ++ rest) := by simp
    rw [this]
    have hl : 1 + ds.length = (123 :: ds).length := by simp only [List.length_cons]; omega
    rw [hl, getElem?_append_len]; rfl
  have hdrop : ((Text.asciiDigits t (lr.v.demand 0) 1).2.demand (1 + ds.length)).rest.drop
      (1 + ds.length + 1) = bl ++ rest := by
    rw [v3.rest, hr]
    have : (123 :: ds ++ 125 :: (bl ++ rest)) = (123 :: ds ++ [125]) ++ (bl ++ rest) := by simp
    rw [this, List.drop_left' (by simp; omega)]
  have hrl : lr.v.rest.length = 1 + ds.length + 1 + bl.length + rest.length := by
    rw [hr]; simp; omega
  unfold bracedUint Run
  simp only [run_bind, run_reqByte, hget0, bne_self_eq_false, Bool.false_eq_true, ↓reduceIte, run_scan,
    hdig, hoff, run_reqAt, hget, beq_self_eq_true, tabs_eq _ _ hdrop hbl hnb, run_pure]
  rw [run_advance]
  · refine ⟨_, rfl, good_after hg v4 _ _ _ ?_ ?_, ?_⟩
    · omega
    · have := hg.line; dsimp only; omega
    · dsimp only; rw [v4.rest, hr]
      have : (123 :: ds ++ 125 :: (bl ++ rest)) = (123 :: ds ++ [125] ++ bl) ++ rest := by simp
      rw [this, List.drop_left' (by simp; omega)]
  · dsimp only; rw [v4.pos]; omega
  · dsimp only; rw [v4.rest]; omega

theorem bracedUint_fall {N} (t : IntTy) (r : VBytes) (h : r.head? ≠ some 123) :
    Steps N (bracedUint t) none r r := by
  intro lr hg hr
  have hget : (lr.v.rest[0]? != some 123) = true := by
    rw [← List.head?_eq_getElem?, hr]; simpa using h
  unfold bracedUint Run
  simp only [run_bind, run_reqByte, hget, ↓reduceIte, run_pure]
  exact fall_state hg (hg.vok.demand 0).1 _ hr

end Flussab.CnfP
