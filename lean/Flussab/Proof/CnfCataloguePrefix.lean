/-
Prefix determinism inside a line for the DIMACS-family parsers (C08, replaced numeral token):
set-up.  The short state, its invariant `St`, the outcome `Post` and the relational calculus are
those of `Proof/Btor2CataloguePrefix.lean`; here: the context predicate for DIMACS text (what
may follow the token: space, tab, CR, LF), how the `Text.*` scanners behave over the two extensions
of a short state, the line step of `comment` / `newline`, and `Both` (a function satisfies the
in-prefix statement and the shifted-states statement — in the DIMACS parsers the two runs always
return equal values, so one proof script gives both).
-/
import Flussab.Proof.Btor2CatalogueCross
import Flussab.Proof.CnfCatalogueShift

namespace Flussab
namespace Cnf
namespace Cat
open PM
open Flussab.Btor2.Cat
open Flussab.Btor2 (demand_rest demand_pos demand_of_lt demand_of_ge demand_demand runLen_le
  runLen_eq_takeWhile)

variable {X : Ctx} {α β : Type}

/-! ### the context -/

structure OKC (X : Ctx) : Prop where
  tok_ne : X.tok ≠ []
  tok_dig : X.tok.all isDigit = true
  tok'_dig : X.tok'.all isDigit = true
  big : 2 ^ 64 ≤ Text.decVal X.tok'
  post_hd : ∃ c tl, X.post = c :: tl ∧ (c = 32 ∨ c = 9 ∨ c = 13 ∨ c = 10)

theorem OKC.tok'_ne (h : OKC X) : X.tok' ≠ [] := by
  intro he
  have := h.big
  rw [he, Text.decVal_nil] at this
  omega

theorem OKC.tok'_pos (h : OKC X) : 0 < X.tok'.length := List.length_pos_iff.mpr h.tok'_ne
theorem OKC.tok_pos (h : OKC X) : 0 < X.tok.length := List.length_pos_iff.mpr h.tok_ne

theorem OKC.q1_hd (h : OKC X) : ∃ d tl, X.q1 = d :: tl ∧ isDigit d = true :=
  Ctx.hd_of_dig h.tok_ne h.tok_dig
theorem OKC.q2_hd (h : OKC X) : ∃ d tl, X.q2 = d :: tl ∧ isDigit d = true :=
  Ctx.hd_of_dig h.tok'_ne h.tok'_dig

theorem OKC.q1_len (h : OKC X) : 0 < X.q1.length := by
  obtain ⟨d, tl, e, _⟩ := h.q1_hd; rw [e]; simp
theorem OKC.q2_len (h : OKC X) : 0 < X.q2.length := by
  obtain ⟨d, tl, e, _⟩ := h.q2_hd; rw [e]; simp

theorem dig_not_blank {d : UInt8} (h : isDigit d = true) : isBlank d = false := by
  have a := dig_ne h (c := 32) (Or.inl (by decide))
  have b := dig_ne h (c := 9) (Or.inl (by decide))
  simp [isBlank, a, b]

theorem dig_not_wordEnd {d : UInt8} (h : isDigit d = true) : isWordEnd (some d) = false := by
  have a := dig_ne h (c := 32) (Or.inl (by decide))
  have b := dig_ne h (c := 9) (Or.inl (by decide))
  have c := dig_ne h (c := 13) (Or.inl (by decide))
  have e := dig_ne h (c := 10) (Or.inl (by decide))
  unfold isWordEnd
  split <;> simp_all

theorem wordEnd_of_ws {c : UInt8} (h : c = 32 ∨ c = 9 ∨ c = 13 ∨ c = 10) : isWordEnd (some c) = true := by
  rcases h with rfl | rfl | rfl | rfl <;> rfl

theorem ws_not_digit' {c : UInt8} (h : c = 32 ∨ c = 9 ∨ c = 13 ∨ c = 10) : isDigit c = false := by
  rcases h with rfl | rfl | rfl | rfl <;> rfl

/-! ### bytes of the two extensions -/

theorem getElem_E_lt (q : VBytes) (s : LR) {k : Nat} (hk : k < s.v.rest.length) :
    (s.v.rest ++ q)[k]? = s.v.rest[k]? := List.getElem?_append_left hk

theorem getElem_E_eq {q : VBytes} (s : LR) {d : UInt8} {tl : VBytes} (hq : q = d :: tl) :
    (s.v.rest ++ q)[s.v.rest.length]? = some d := by
  rw [List.getElem?_append_right (Nat.le_refl _), Nat.sub_self, hq]; rfl

/-! ### the scanners over an extension of the short state -/

theorem tabs_E {q : VBytes} {d : UInt8} {tl : VBytes} (hq : q = d :: tl) (hd : isBlank d = false)
    (s : LR) (off : Nat) (hoff : off ≤ s.v.rest.length) :
    Text.tabsOrSpaces (E q s).v off =
      (off + Text.runLen isBlank (s.v.rest.drop off),
        (E q s).v.demand (off + Text.runLen isBlank (s.v.rest.drop off))) := by
  simp only [Text.tabsOrSpaces, E_rest, List.drop_append_of_le_length hoff, hq, runLen_append_hd _ _ hd]

theorem tabs_le (s : LR) (off : Nat) (hoff : off ≤ s.v.rest.length) :
    off + Text.runLen isBlank (s.v.rest.drop off) ≤ s.v.rest.length := by
  have := runLen_le isBlank (s.v.rest.drop off)
  simp only [List.length_drop] at this
  omega

/-- Bytes up to `off` and the blanks behind them contain no newline. -/
theorem take_tabs_nolf (r : VBytes) (off : Nat) (hno : ∀ x ∈ r.take off, x ≠ 10) :
    ∀ x ∈ r.take (off + Text.runLen isBlank (r.drop off)), x ≠ 10 := by
  intro x hx
  rw [List.take_add, List.mem_append] at hx
  rcases hx with hx | hx
  · exact hno x hx
  · exact blank_ne_lf x (runLen_take_all isBlank _ x hx)

theorem matchLen_append_hd (pat l : VBytes) {d : UInt8} {tl : VBytes} (hd : ∀ x ∈ pat, x ≠ d) :
    Text.matchLen pat (l ++ d :: tl) = Text.matchLen pat l := by
  induction pat generalizing l with
  | nil => cases l <;> simp [Text.matchLen]
  | cons p ps ih =>
    cases l with
    | nil =>
      have : (p == d) = false := by simpa using hd p (by simp)
      simp [Text.matchLen, this]
    | cons b bs =>
      simp only [List.cons_append, Text.matchLen]
      rw [ih bs (fun x hx => hd x (by simp [hx]))]

theorem matchLen_le (pat l : VBytes) : Text.matchLen pat l ≤ l.length ∧ Text.matchLen pat l ≤ pat.length := by
  induction pat generalizing l with
  | nil => cases l <;> simp [Text.matchLen]
  | cons p ps ih =>
    cases l with
    | nil => simp [Text.matchLen]
    | cons b bs =>
      simp only [Text.matchLen]
      split
      · have := ih bs; simp only [List.length_cons]; omega
      · simp

theorem fixed_E {q : VBytes} {d : UInt8} {tl : VBytes} (hq : q = d :: tl) (s : LR) (pat : VBytes)
    (hne : pat ≠ []) (hd : ∀ x ∈ pat, x ≠ d) :
    Text.fixed (E q s).v 0 pat =
      if Text.matchLen pat s.v.rest = pat.length then (pat.length, (E q s).v.demand (pat.length - 1))
      else (0, (E q s).v.demand (Text.matchLen pat s.v.rest)) := by
  have he : pat.isEmpty = false := by cases pat <;> simp_all
  simp only [Text.fixed, List.drop_zero, E_rest, hq, matchLen_append_hd _ _ hd, Nat.zero_add, he,
    Bool.false_eq_true, ↓reduceIte]

/-- The value `ascii_digits::<T>` returns for a digit run. -/
def numValT (t : IntTy) (ds : VBytes) : Option Int :=
  if t.fits (Text.decVal ds : Nat) then some ((Text.decVal ds : Nat) : Int) else none

theorem asciiDigitsT_eq (t : IntTy) (hb : 1 ≤ t.bits) (v : View) (off : Nat) :
    Text.asciiDigits t v off =
      ((numValT t ((v.rest.drop off).takeWhile isDigit), off + ((v.rest.drop off).takeWhile isDigit).length),
        v.demand (off + ((v.rest.drop off).takeWhile isDigit).length)) := by
  have h1 := C13.digits_exact t hb v off
  obtain ⟨_, h2⟩ := digitsCont_spec t false v off (some 0)
  have h2' : (Text.asciiDigits t v off).2 = v.demand (off + ((v.rest.drop off).takeWhile isDigit).length) := h2
  exact Prod.ext h1 h2'

theorem signed_of_ne (t : IntTy) (v : View) (h : ¬ v.rest[0]? = some 45) :
    Text.signedAsciiDigits t v 0 = Text.asciiDigits t v 0 := by
  unfold Text.signedAsciiDigits Text.asciiDigits
  split
  · rename_i h45; exact absurd h45 h
  · rfl

/-- A digit run that starts inside the short input (which ends in a space / newline) ends inside it. -/
theorem takeWhile_E {s : LR} (hs : St X s) (off : Nat) (hoff : off < s.v.rest.length) (q : VBytes) :
    ((s.v.rest ++ q).drop off).takeWhile isDigit = (s.v.rest.drop off).takeWhile isDigit ∧
    off + ((s.v.rest.drop off).takeWhile isDigit).length < s.v.rest.length := by
  have hne : s.v.rest ≠ [] := by intro h; rw [h] at hoff; simp at hoff
  obtain ⟨c, hlast, hc⟩ := hs.last hne
  have hcd : isDigit c = false := ws_not_digit hc
  have hlast' : (s.v.rest.drop off).getLast? = some c := by
    rw [List.getLast?_drop]
    have : ¬ s.v.rest.length ≤ off := by omega
    simp only [this, ↓reduceIte]; exact hlast
  refine ⟨?_, ?_⟩
  · rw [List.drop_append_of_le_length (Nat.le_of_lt hoff)]
    exact takeWhile_append_stop _ _ ⟨c, mem_of_getLast hlast', hcd⟩
  · have := runLen_lt_of_getLast isDigit hlast' hcd
    rw [runLen_eq_takeWhile] at this
    simp only [List.length_drop] at this
    omega

theorem takeWhile_nolf (r : VBytes) (off : Nat) :
    ∀ x ∈ (r.drop off).take ((r.drop off).takeWhile isDigit).length, x ≠ 10 := by
  intro x hx
  rw [← runLen_eq_takeWhile] at hx
  exact digit_ne_lf x (runLen_take_all isDigit _ x hx)

/-- `signed_ascii_digits` started inside the short input: result `a` (value, offset) and the one
request `k` it amounts to do not depend on what follows. -/
theorem signed_E (t : IntTy) (hb : 1 ≤ t.bits) {s : LR} (hs : St X s) (hne : s.v.rest ≠ []) :
    ∃ (a : Option Int × Nat) (k : Nat), k < s.v.rest.length ∧ a.2 ≤ k ∧
      (∀ x ∈ s.v.rest.take a.2, x ≠ 10) ∧
      ∀ q, Text.signedAsciiDigits t (E q s).v 0 = (a, (E q s).v.demand k) := by
  obtain ⟨c, hlast, hc⟩ := hs.last hne
  have hcd : isDigit c = false := ws_not_digit hc
  by_cases h45 : s.v.rest[0]? = some 45
  · -- a `-`
    cases hr : s.v.rest with
    | nil => exact absurd hr hne
    | cons x r1 =>
      have hx : x = 45 := by rw [hr] at h45; simpa using h45
      subst hx
      cases r1 with
      | nil =>
        rw [hr] at hlast
        simp only [List.getLast?_singleton, Option.some.injEq] at hlast
        subst hlast
        rcases hc with h | h <;> cases h
      | cons d r2 =>
        by_cases hdd : isDigit d = true
        · -- a negative numeral: digits inside `r2`, which is not empty
          have hr2 : r2 ≠ [] := by
            intro he
            rw [hr, he] at hlast
            simp only [List.getLast?_cons_cons, List.getLast?_singleton, Option.some.injEq] at hlast
            subst hlast
            rw [hdd] at hcd; cases hcd
          have hlast2 : r2.getLast? = some c := by
            cases r2 with
            | nil => exact absurd rfl hr2
            | cons z zs =>
              rw [hr, List.getLast?_cons_cons, List.getLast?_cons_cons] at hlast; exact hlast
          have hn := runLen_lt_of_getLast isDigit hlast2 hcd
          rw [runLen_eq_takeWhile] at hn
          have hcnt := fun q => digitsLoop_count t true (r2 ++ q) (t.osub 0 (digitVal d)).1
            (t.osub 0 (digitVal d)).2 0
          refine ⟨((if (Text.digitsLoop t true r2 (t.osub 0 (digitVal d)).1 (t.osub 0 (digitVal d)).2 0).2.1
              then none else some (Text.digitsLoop t true r2 (t.osub 0 (digitVal d)).1
                (t.osub 0 (digitVal d)).2 0).1), 2 + (r2.takeWhile isDigit).length),
            2 + (r2.takeWhile isDigit).length, by simp only [List.length_cons]; omega, Nat.le_refl _, ?_, ?_⟩
          · intro y hy
            simp only at hy
            rw [show 2 + (r2.takeWhile isDigit).length = (r2.takeWhile isDigit).length + 1 + 1 by omega,
              List.take_succ_cons, List.take_succ_cons] at hy
            simp only [List.mem_cons] at hy
            rcases hy with rfl | rfl | hy
            · decide
            · exact digit_ne_lf _ hdd
            · rw [← runLen_eq_takeWhile] at hy
              exact digit_ne_lf y (runLen_take_all isDigit _ y hy)
          · intro q
            have hrest : (E q s).v.rest = 45 :: d :: (r2 ++ q) := by rw [E_rest, hr]; rfl
            have h0 : 0 < (E q s).v.rest.length := by rw [hrest]; simp
            have h1 : 1 < (E q s).v.rest.length := by rw [hrest]; simp
            have g0 : (E q s).v.rest[0]? = some 45 := by rw [hrest]; rfl
            have g1 : (E q s).v.rest[0 + 1]? = some d := by rw [hrest]; rfl
            have hloop := digitsLoop_append t true r2 q (t.osub 0 (digitVal d)).1 (t.osub 0 (digitVal d)).2 0 hn
            have hc0 := digitsLoop_count t true r2 (t.osub 0 (digitVal d)).1 (t.osub 0 (digitVal d)).2 0
            simp only [Text.signedAsciiDigits, g0, g1, hdd, ↓reduceIte]
            rw [hrest]
            simp only [Nat.zero_add, List.drop_succ_cons, List.drop_zero, hloop]
            generalize Text.digitsLoop t true r2 (t.osub 0 (digitVal d)).1 (t.osub 0 (digitVal d)).2 0 = res at *
            obtain ⟨val, ov, n⟩ := res
            simp only [Nat.zero_add] at hc0
            simp only at hc0 ⊢
            subst hc0
            rw [demand_demand _ 0 1 h0 (by omega), demand_demand _ 1 _ h1 (by omega)]
        · -- a lone `-`
          have hdd' : isDigit d = false := by simpa using hdd
          refine ⟨(some 0, 0), 1, by simp only [List.length_cons]; omega, Nat.zero_le _, by simp, ?_⟩
          intro q
          have hrest : (E q s).v.rest = 45 :: d :: (r2 ++ q) := by rw [E_rest, hr]; rfl
          have h0 : 0 < (E q s).v.rest.length := by rw [hrest]; simp
          have g0 : (E q s).v.rest[0]? = some 45 := by rw [hrest]; rfl
          have g1 : (E q s).v.rest[0 + 1]? = some d := by rw [hrest]; rfl
          simp only [Text.signedAsciiDigits, g0, g1, hdd', Bool.false_eq_true, ↓reduceIte]
          rw [demand_demand _ 0 (0 + 1) h0 (by omega)]
  · have h0 : 0 < s.v.rest.length := List.length_pos_iff.mpr hne
    obtain ⟨e1, e2⟩ := takeWhile_E hs 0 h0 ([] : VBytes)
    refine ⟨(numValT t (s.v.rest.takeWhile isDigit), (s.v.rest.takeWhile isDigit).length),
      (s.v.rest.takeWhile isDigit).length, by simpa using e2, Nat.le_refl _, ?_, ?_⟩
    · have := takeWhile_nolf s.v.rest 0
      simpa using this
    · intro q
      have hne' : ¬ (E q s).v.rest[0]? = some 45 := by
        rw [E_rest, List.getElem?_append_left h0]; exact h45
      rw [signed_of_ne t _ hne', asciiDigitsT_eq t hb]
      have := (takeWhile_E hs 0 h0 q).1
      simp only [List.drop_zero] at this
      simp only [E_rest, List.drop_zero, this, Nat.zero_add]

/-- `Text.newline` at the cursor, as a function of the two bytes it looks at. -/
theorem newline_shape (w : View) :
    Text.newline w 0 =
      if w.rest[0]? = some 10 then (1, w.demand 0)
      else if w.rest[0]? = some 13 then
        ((if w.rest[1]? = some 10 then 2 else 0), (w.demand 0).demand 1)
      else (0, w.demand 0) := by
  simp only [Text.newline, Nat.zero_add]
  split
  · simp_all
  · rename_i h13
    simp only [h13]
    split <;> simp_all
  · rename_i n10 n13
    have a : ¬ w.rest[0]? = some 10 := fun h => n10 h
    have b : ¬ w.rest[0]? = some 13 := fun h => n13 h
    simp [a, b]

theorem nextNewline_eq (v : View) (off : Nat) :
    Text.nextNewline v off =
      (off + Text.runLen (· != 10) (v.rest.drop off) +
          (if (v.rest[off + Text.runLen (· != 10) (v.rest.drop off)]?).isSome then 1 else 0),
        v.demand (off + Text.runLen (· != 10) (v.rest.drop off))) := by
  simp only [Text.nextNewline]

/-! ### the line step -/

/-- `n0` bytes without newline, a newline, and `k` more bytes without newline have been consumed,
and the line bookkeeping points behind the newline. -/
theorem St.of_line {s u : LR} (hs : St X s) (n0 k : Nat) (hno : ∀ x ∈ s.v.rest.take n0, x ≠ 10)
    (h10 : s.v.rest[n0]? = some 10) (hbl : ∀ x ∈ (s.v.rest.drop (n0 + 1)).take k, x ≠ 10)
    (hle : n0 + 1 + k ≤ s.v.rest.length)
    (hrest : u.v.rest = s.v.rest.drop (n0 + 1 + k)) (hpos : u.v.pos = s.v.pos + (n0 + 1 + k))
    (hline : u.line = s.line + 1) (hls : u.lineStart = s.v.pos + (n0 + 1))
    (hpk : u.v.peeked ≤ s.v.pos + s.v.rest.length + 1) : St X u := by
  have hlt : n0 < s.v.rest.length := by omega
  have hget : s.v.rest[n0] = 10 := by
    rw [List.getElem?_eq_getElem hlt] at h10; exact Option.some.inj h10
  let s1 : LR := { v := { s.v with rest := s.v.rest.drop n0, pos := s.v.pos + n0 },
                   line := s.line, lineStart := s.lineStart }
  have hs1 : St X s1 := hs.of_adv n0 (by omega) hno rfl rfl rfl rfl hs.peek
  let s2 : LR := { v := { s.v with rest := s.v.rest.drop (n0 + 1), pos := s.v.pos + n0 + 1 },
                   line := s.line + 1, lineStart := s.v.pos + n0 + 1 }
  have hs2 : St X s2 := by
    refine hs1.of_nl (r' := s.v.rest.drop (n0 + 1)) ?_ rfl rfl rfl rfl ?_
    · show s.v.rest.drop n0 = _
      rw [List.drop_eq_getElem_cons hlt, hget]
    · have := hs.peek
      show s.v.peeked ≤ s.v.pos + n0 + (s.v.rest.drop n0).length + 1
      simp only [List.length_drop]
      omega
  refine hs2.of_adv k ?_ hbl ?_ ?_ hline ?_ ?_
  · show k ≤ (s.v.rest.drop (n0 + 1)).length
    simp only [List.length_drop]; omega
  · show u.v.rest = (s.v.rest.drop (n0 + 1)).drop k
    rw [hrest, List.drop_drop]
  · show u.v.pos = s.v.pos + n0 + 1 + k
    rw [hpos]; omega
  · show u.lineStart = s.v.pos + n0 + 1
    rw [hls]; omega
  · show u.v.peeked ≤ s.v.pos + n0 + 1 + (s.v.rest.drop (n0 + 1)).length + 1
    simp only [List.length_drop]
    omega

/-! ### one script for both passes -/

/-- The in-prefix statement of the DIMACS pass: equal values in both phases. -/
abbrev PWC (X : Ctx) (m1 m2 : PM α) : Prop := PW X m1 m2 Eq No1 No1

theorem PWC.bind {m1 m2 : PM α} {f1 f2 : α → PM β} (hm : PWC X m1 m2)
    (hP : ∀ a, PWC X (f1 a) (f2 a)) (hS : ∀ a, ShWp (Loc X) (f1 a) (f2 a) Eq) :
    PWC X (m1 >>= f1) (m2 >>= f2) :=
  PW.bind hm hP (fun a1 a2 h => by subst h; exact hS a1) (fun _ h => h.elim) (fun _ h => h.elim)

/-- `m` satisfies the in-prefix statement and the shifted-states statement. -/
structure Both (X : Ctx) (m : PM α) : Prop where
  p : PWC X m m
  s : ShC (Loc X) m

theorem Both.bind {m : PM α} {f : α → PM β} (hm : Both X m) (hf : ∀ a, Both X (f a)) :
    Both X (m >>= f) :=
  ⟨PWC.bind hm.p (fun a => (hf a).p) (fun a => (hf a).s), ShC.bind hm.s (fun a => (hf a).s)⟩

theorem Both.pure (a : α) : Both X (pure a : PM α) := ⟨PW.pure a, ShC.pure a⟩

theorem Both.left {m : PM α} (h : ∀ t a u, m.run t ≠ (.ok a, u)) : Both X m :=
  ⟨PW.left h, ShWp.left h⟩

theorem Both.unexpected : Both X (Cnf.unexpected : PM α) := Both.left unexpected_never
theorem Both.throw {e : PErr} : Both X (throw e : PM α) := Both.left (fun _ _ _ h => by cases h)

theorem Both.orGiveUp {p : PM (Option α)} (hp : Both X p) : Both X (PM.orGiveUp p Cnf.unexpected) := by
  unfold PM.orGiveUp
  refine Both.bind hp (fun r => ?_)
  cases r with
  | some a => exact Both.pure a
  | none => exact Both.unexpected

theorem Both.matches {p : PM (Option α)} (hp : Both X p) : Both X (PM.matches p) := by
  unfold PM.matches
  exact Both.bind hp (fun r => Both.pure _)

theorem Both.orParse {p q : PM (Option α)} (hp : Both X p) (hq : Both X q) : Both X (PM.orParse p q) := by
  unfold PM.orParse
  refine Both.bind hp (fun r => ?_)
  cases r with
  | some a => exact Both.pure _
  | none => exact hq

/-- The in-prefix statement from states whose mark is at the cursor. -/
def PWM (X : Ctx) (m1 m2 : PM α) : Prop :=
  ∀ s, St X s → s.v.mark = s.v.pos → RWp (Loc X) m1 m2 (E X.q1 s) (E X.q2 s) (Post X Eq No1 No1)

structure BothM (X : Ctx) (m : PM α) : Prop where
  p : PWM X m m
  s : ShC (Loc X) m

theorem Both.toM {m : PM α} (h : Both X m) : BothM X m := ⟨fun s hs _ => h.p s hs, h.s⟩

theorem BothM.bind {m : PM α} {f : α → PM β} (hm : BothM X m) (hf : ∀ a, Both X (f a)) :
    BothM X (m >>= f) := by
  refine ⟨?_, ShC.bind hm.s (fun a => (hf a).s)⟩
  intro s hs hmk
  refine RWp.bind' (hm.p s hs hmk) ?_
  intro a1 u1 a2 u2 hpost
  rcases hpost with ⟨rfl, s', hs', rfl, rfl⟩ | ⟨hr, hsh⟩ | ⟨he, _⟩ | ⟨he, _⟩
  · exact (hf a1).p s' hs'
  · subst hr
    exact ((hf a1).s u1 u2 hsh).mono (fun _ _ _ _ h => Or.inr (Or.inl h))
  · exact he.elim
  · exact he.elim

theorem Both.setMark {m : PM α} (h : BothM X m) : Both X (PM.setMark >>= fun _ => m) := by
  refine ⟨?_, ShC.bind ShC.setMark (fun _ => h.s)⟩
  intro s hs
  refine RWp.bind (RWp.setMark ?_)
  exact h.p { s with v := s.v.setMark } hs.setMark rfl

end Cat
end Cnf
end Flussab
