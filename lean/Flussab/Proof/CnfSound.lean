/-
Soundness of the DIMACS-family parser models with respect to the round-trip domain: whatever
`parseAll` accepts (clean end) is a document in `Spec.CnfWF`.  Partial-correctness reasoning on
returned values only (`Ret m Q`: every successful run of `m` returns a value satisfying `Q`),
for arbitrary input bytes, arbitrary reader state, failing sources included.
-/
import Flussab.Spec.CnfDomain
import Flussab.Proof.CnfHeader

namespace Flussab.CnfP
open Flussab Flussab.PM Flussab.Cnf Flussab.Spec
set_option linter.unusedSimpArgs false
set_option linter.unusedVariables false

/-- Every successful run of `m` returns a value satisfying `Q`. -/
def Ret {α} (m : PM α) (Q : α → Prop) : Prop := ∀ lr a lr', m.run lr = (.ok a, lr') → Q a

theorem run_throw {α} (e : PErr) (lr : LR) : (throw e : PM α).run lr = (.error e, lr) := rfl

theorem Ret.bind {α β} {x : PM α} {g : α → PM β} {P : α → Prop} {Q : β → Prop}
    (h1 : Ret x P) (h2 : ∀ a, P a → Ret (g a) Q) : Ret (x >>= g) Q := by
  intro lr b lr2 h
  rw [run_bind] at h
  cases hx : x.run lr with
  | mk r lr1 =>
    rw [hx] at h
    cases r with
    | ok a => exact h2 a (h1 lr a lr1 hx) lr1 b lr2 h
    | error e => cases h

theorem Ret.any {α} (m : PM α) : Ret m (fun _ => True) := fun _ _ _ _ => trivial

theorem Ret.bind' {α β} {x : PM α} {g : α → PM β} {Q : β → Prop}
    (h2 : ∀ a, Ret (g a) Q) : Ret (x >>= g) Q := Ret.bind (Ret.any x) (fun a _ => h2 a)

theorem Ret.pure {α} {a : α} {Q : α → Prop} (h : Q a) : Ret (pure a : PM α) Q := by
  intro lr b lr' e
  rw [run_pure] at e
  cases e; exact h

theorem Ret.throw {α} (e : PErr) (Q : α → Prop) : Ret (throw e : PM α) Q := by
  intro lr b lr' h
  rw [run_throw] at h; cases h

theorem Ret.mono {α} {m : PM α} {P Q : α → Prop} (h : Ret m P) (hpq : ∀ a, P a → Q a) : Ret m Q :=
  fun lr a lr' e => hpq a (h lr a lr' e)

theorem Ret.scan {α} (f : View → α × View) {Q : α → Prop} (h : ∀ v, Q (f v).1) : Ret (scan f) Q := by
  intro lr a lr' e
  rw [run_scan] at e
  cases e; exact h _

theorem Ret.rpanic {α} (s : String) (Q : α → Prop) : Ret (rpanic s : PM α) Q := Ret.throw _ _

theorem Ret.giveUpAt {α} (pos : Nat) (Q : α → Prop) : Ret (giveUpAt pos : PM α) Q := by
  unfold PM.giveUpAt
  refine Ret.bind' fun lr => ?_
  refine Ret.bind' fun _ => ?_
  split
  · exact Ret.throw _ _
  · split
    · exact Ret.rpanic _ _
    · exact Ret.throw _ _

theorem Ret.giveUp {α} (Q : α → Prop) : Ret (giveUp : PM α) Q := by
  unfold PM.giveUp
  exact Ret.bind' fun _ => Ret.giveUpAt _ _

theorem Ret.unexpected {α} (Q : α → Prop) : Ret (unexpected : PM α) Q := by
  unfold Cnf.unexpected
  refine Ret.bind' fun _ => ?_
  split
  · exact Ret.giveUp _
  · refine Ret.bind' fun _ => ?_
    split
    · exact Ret.giveUp _
    · refine Ret.bind' fun _ => ?_
      exact Ret.bind' fun _ => Ret.giveUp _

theorem Ret.exceedsVarCount {α} (Q : α → Prop) : Ret (exceedsVarCount : PM α) Q := by
  unfold Cnf.exceedsVarCount
  exact Ret.bind' fun _ => Ret.giveUpAt _ _

theorem Ret.orGiveUp {α} {p : PM (Option α)} {err : PM α} {Q : α → Prop}
    (hp : Ret p (fun r => ∀ a, r = some a → Q a)) (he : Ret err Q) : Ret (orGiveUp p err) Q := by
  unfold PM.orGiveUp
  refine Ret.bind hp fun r hr => ?_
  cases r with
  | none => exact he
  | some a => exact Ret.pure (hr a rfl)

/-! ### numbers -/

theorem Ret.numberTail (value : Option Int) (off : Nat) :
    Ret (numberTail value off) (fun r => ∀ v, r = some (some v) → value = some v) := by
  unfold Cnf.numberTail
  split
  · refine Ret.bind' fun b => ?_
    split
    · cases value with
      | none =>
        refine Ret.bind' fun _ => Ret.bind' fun _ => Ret.pure ?_
        intro v h; simp at h
      | some x =>
        refine Ret.bind' fun _ => Ret.bind' fun _ => Ret.pure ?_
        intro v h; simp at h; rw [h]
    · exact Ret.pure (fun v h => by simp at h)
  · exact Ret.pure (fun v h => by simp at h)

theorem asciiDigits_val (t : IntTy) (hb : 1 ≤ t.bits) (v : View) (off : Nat) (x : Int)
    (h : (Text.asciiDigits t v off).1.1 = some x) : 0 ≤ x ∧ t.fits x = true := by
  have := C13.digits_exact t hb v off
  simp only at this
  rw [this] at h
  simp only at h
  split at h
  · rename_i hf
    simp only [Option.some.injEq] at h
    subst h
    exact ⟨by omega, hf⟩
  · simp at h

theorem Ret.uint (t : IntTy) (hb : 1 ≤ t.bits) :
    Ret (uint t) (fun r => ∀ x, r = some (some x) → 0 ≤ x ∧ t.fits x = true) := by
  unfold Cnf.uint
  refine Ret.bind (P := fun p => ∀ x, p.1 = some x → 0 ≤ x ∧ t.fits x = true)
    (Ret.scan _ (fun v x hx => asciiDigits_val t hb v 0 x hx)) ?_
  intro p hp
  obtain ⟨value, off⟩ := p
  exact (Ret.numberTail value off).mono (fun r hr x hx => hp x (hr x hx))

theorem Ret.bracedUint (t : IntTy) (hb : 1 ≤ t.bits) :
    Ret (bracedUint t) (fun r => ∀ x, r = some (some x) → 0 ≤ x ∧ t.fits x = true) := by
  unfold Cnf.bracedUint
  refine Ret.bind' fun b => ?_
  split
  · exact Ret.pure (fun v h => by simp at h)
  · refine Ret.bind (P := fun p => ∀ x, p.1 = some x → 0 ≤ x ∧ t.fits x = true)
      (Ret.scan _ (fun v x hx => asciiDigits_val t hb v 1 x hx)) ?_
    intro p hp
    obtain ⟨value, off⟩ := p
    dsimp only
    split
    · refine Ret.bind' fun c => ?_
      split
      · cases value with
        | none =>
          refine Ret.bind' fun _ => Ret.bind' fun _ => Ret.pure ?_
          intro v h; simp at h
        | some x =>
          refine Ret.bind' fun _ => Ret.bind' fun _ => Ret.pure ?_
          intro v h; simp at h; subst h; exact hp x rfl
      · exact Ret.pure (fun v h => by simp at h)
    · exact Ret.pure (fun v h => by simp at h)

theorem fits_u64 {x : Int} (h : (IntTy.mk false 64).fits x = true) : x < 2 ^ 64 := by
  rw [IntTy.fits_iff] at h
  simp only [IntTy.minVal, IntTy.maxVal, Bool.false_eq_true, ↓reduceIte] at h
  have : ((2 ^ 64 : Nat) : Int) = 2 ^ 64 := by simp
  omega

theorem Ret.varCount (l : LitTy) :
    Ret (varCount l) (fun r => ∀ c, r = some c → 0 ≤ c ∧ c ≤ l.maxDimacs) := by
  unfold Cnf.varCount
  refine Ret.bind' fun _ => ?_
  refine Ret.bind (Ret.uint usizeTy (by decide)) fun r hr => ?_
  match r, hr with
  | none, _ => exact Ret.pure (fun c h => by simp at h)
  | some none, _ => exact Ret.exceedsVarCount _
  | some (some count), hr =>
    dsimp only
    split
    · exact Ret.exceedsVarCount _
    · rename_i hle
      refine Ret.pure ?_
      intro c hc; simp at hc; subst hc
      exact ⟨(hr count rfl).1, by omega⟩

theorem Ret.uintCount (t : IntTy) (hb : 1 ≤ t.bits) :
    Ret (uintCount t) (fun r => ∀ c, r = some c → 0 ≤ c ∧ t.fits c = true) := by
  unfold Cnf.uintCount
  refine Ret.bind' fun _ => ?_
  refine Ret.bind (Ret.uint t hb) fun r hr => ?_
  match r, hr with
  | none, _ => exact Ret.pure (fun c h => by simp at h)
  | some none, _ => exact Ret.giveUp _
  | some (some v), hr =>
    refine Ret.pure ?_
    intro c hc; simp at hc; subst hc
    exact hr v rfl

theorem Ret.clauseGroup (limit : Int) :
    Ret (clauseGroup limit) (fun r => ∀ g, r = some g → 0 ≤ g ∧ g < 2 ^ 64 ∧ g ≤ limit) := by
  unfold Cnf.clauseGroup
  refine Ret.bind' fun _ => ?_
  refine Ret.bind (Ret.bracedUint usizeTy (by decide)) fun r hr => ?_
  match r, hr with
  | none, _ => exact Ret.pure (fun c h => by simp at h)
  | some none, _ => exact Ret.giveUp _
  | some (some g), hr =>
    dsimp only
    split
    · exact Ret.exceedsVarCount _
    · rename_i hle
      refine Ret.pure ?_
      intro c hc; simp at hc; subst hc
      exact ⟨(hr g rfl).1, fits_u64 (hr g rfl).2, by omega⟩

/-! ### clauses -/

theorem Ret.clauseLitsLoop (l : LitTy) (limit : Int) (hl1 : 1 ≤ l.bits) (hlim : limit ≤ l.maxDimacs) :
    ∀ (f : Nat) (lit : Int) (acc : List Int),
      Ret (clauseLitsLoop l limit f lit acc)
        (fun res => ∃ more, res = acc.reverse ++ more ∧ ∀ x ∈ more, LitWF l limit x) := by
  intro f
  induction f with
  | zero => intro lit acc; rw [Cnf.clauseLitsLoop]; exact Ret.rpanic _ _
  | succ f ih =>
    intro lit acc
    rw [Cnf.clauseLitsLoop]
    split
    · exact Ret.pure ⟨[], by simp, fun _ h => by simp at h⟩
    · rename_i hne
      split
      · rename_i hrange
        have hlit : LitWF l limit lit :=
          ⟨by simpa using hne, hrange.1, hrange.2, by omega, by omega⟩
        have hid : l.fromDimacs lit = lit := fromDimacs_id l hl1 lit hlit.2.2.2.1 hlit.2.2.2.2
        have hnext : ∀ next, Ret (Cnf.clauseLitsLoop l limit f next (l.fromDimacs lit :: acc))
            (fun res => ∃ more, res = acc.reverse ++ more ∧ ∀ x ∈ more, LitWF l limit x) := by
          intro next
          refine (ih next (l.fromDimacs lit :: acc)).mono ?_
          rintro res ⟨more, rfl, hm⟩
          refine ⟨lit :: more, by simp [hid], ?_⟩
          intro x hx
          rcases List.mem_cons.mp hx with h | h
          · rw [h]; exact hlit
          · exact hm x h
        dsimp only
        refine Ret.bind' fun _ => ?_
        refine Ret.bind' fun r => ?_
        cases r with
        | some next => exact hnext next
        | none =>
          dsimp only
          refine Ret.bind' fun b => ?_
          split
          · refine Ret.bind' fun _ => ?_
            exact Ret.bind' fun next => hnext next
          · exact Ret.unexpected _
      · exact Ret.exceedsVarCount _

theorem Ret.clauseLits (l : LitTy) (limit : Int) (hl1 : 1 ≤ l.bits) (hlim : limit ≤ l.maxDimacs) :
    Ret (clauseLits l limit) (fun r => ∀ lits, r = some lits → ∀ x ∈ lits, LitWF l limit x) := by
  unfold Cnf.clauseLits
  refine Ret.bind' fun _ => ?_
  refine Ret.bind' fun r => ?_
  cases r with
  | none => exact Ret.pure (fun _ h => by simp at h)
  | some lit =>
    dsimp only
    refine Ret.bind' fun lr => ?_
    refine Ret.bind (Ret.clauseLitsLoop l limit hl1 hlim _ lit []) fun res hres => ?_
    refine Ret.pure ?_
    intro lits h; simp at h; subst h
    obtain ⟨more, rfl, hm⟩ := hres
    simpa using hm

/-- What the parser in state `p` can return as a clause. -/
def ClauseRet (p : Parser) (c : Clause) : Prop :=
  (match p.fmt with
    | .cnf => c.tag = 0
    | .wcnf => 0 ≤ c.tag ∧ c.tag < 2 ^ 64
    | .gcnf => 0 ≤ c.tag ∧ c.tag < 2 ^ 64 ∧ c.tag ≤ p.groupLimit) ∧
  ∀ x ∈ c.lits, LitWF p.lit p.litLimit x

theorem Ret.clauseAlt (p : Parser) (hl1 : 1 ≤ p.lit.bits) (hlim : p.litLimit ≤ p.lit.maxDimacs) :
    Ret (clauseAlt p) (fun r => ∀ c, r = some c → ClauseRet p c) := by
  have hlits := Ret.clauseLits p.lit p.litLimit hl1 hlim
  unfold Cnf.clauseAlt ClauseRet
  cases hf : p.fmt with
  | cnf =>
    dsimp only
    refine Ret.bind hlits fun r hr => ?_
    cases r with
    | none => exact Ret.pure (fun _ h => by simp at h)
    | some lits =>
      dsimp only
      refine Ret.bind' fun _ => Ret.pure ?_
      intro c hc; simp at hc; subst hc
      exact ⟨rfl, hr lits rfl⟩
  | wcnf =>
    dsimp only
    refine Ret.bind (Ret.uintCount u64Ty (by decide)) fun r hr => ?_
    cases r with
    | none => exact Ret.pure (fun _ h => by simp at h)
    | some w =>
      dsimp only
      refine Ret.bind' fun _ => ?_
      refine Ret.bind (Ret.orGiveUp hlits (Ret.unexpected _)) fun lits hl => ?_
      refine Ret.bind' fun _ => Ret.pure ?_
      intro c hc; simp at hc; subst hc
      exact ⟨⟨(hr w rfl).1, fits_u64 (hr w rfl).2⟩, hl⟩
  | gcnf =>
    dsimp only
    refine Ret.bind (Ret.clauseGroup p.groupLimit) fun r hr => ?_
    cases r with
    | none => exact Ret.pure (fun _ h => by simp at h)
    | some g =>
      dsimp only
      refine Ret.bind' fun _ => ?_
      refine Ret.bind (Ret.orGiveUp hlits (Ret.unexpected _)) fun lits hl => ?_
      refine Ret.bind' fun _ => Ret.pure ?_
      intro c hc; simp at hc; subst hc
      exact ⟨hr g rfl, hl⟩

/-- Result of one `next_clause`: a clause (only tried while the declared count is not reached) and
the counter incremented, or the end (only allowed when the declared count is reached). -/
def NextRet (p : Parser) (r : Option Clause × Parser) : Prop :=
  match r.1 with
  | some c => ClauseRet p c ∧ r.2 = { p with clauseCount := p.clauseCount + 1 } ∧
      (p.clauseLimitActive = true → (p.clauseCount : Int) ≠ p.clauseLimit)
  | none => r.2 = p ∧ (p.clauseLimitActive = true → (p.clauseCount : Int) ≥ p.clauseLimit)

theorem nextClauseLoop_ret (p : Parser) (hl1 : 1 ≤ p.lit.bits) (hlim : p.litLimit ≤ p.lit.maxDimacs) :
    ∀ f, Ret (nextClauseLoop p f) (NextRet p) := by
  intro f
  induction f with
  | zero => rw [Cnf.nextClauseLoop]; exact Ret.rpanic _ _
  | succ f ih =>
    have hcont : Ret (do
          if ← «matches» comment then nextClauseLoop p f
          else if ← «matches» newline then nextClauseLoop p f
          else
            let mayEnd := !p.clauseLimitActive || (p.clauseCount : Int) ≥ p.clauseLimit
            if mayEnd then
              if ← «matches» eof then pure (none, p) else unexpected
            else unexpected) (NextRet p) := by
      refine Ret.bind' fun b => ?_
      split
      · exact ih
      · refine Ret.bind' fun b => ?_
        split
        · exact ih
        · dsimp only
          split
          · rename_i hend
            refine Ret.bind' fun b => ?_
            split
            · refine Ret.pure ?_
              refine ⟨rfl, fun ha => ?_⟩
              simp only [ha, Bool.not_true, Bool.false_or, decide_eq_true_eq] at hend
              exact hend
            · exact Ret.unexpected _
          · exact Ret.unexpected _
    rw [Cnf.nextClauseLoop]
    split
    · rename_i htry
      refine Ret.bind (Ret.clauseAlt p hl1 hlim) fun r hr => ?_
      cases r with
      | some c =>
        refine Ret.pure ⟨hr c rfl, rfl, fun ha => ?_⟩
        simp only [ha, Bool.not_true, Bool.or_false, bne_iff_ne, ne_eq] at htry
        exact htry
      | none => exact hcont
    · refine Ret.bind (P := fun r => r = none) (Ret.pure rfl) fun r hr => ?_
      subst hr
      exact hcont

theorem nextClause_ret (p : Parser) (hl1 : 1 ≤ p.lit.bits) (hlim : p.litLimit ≤ p.lit.maxDimacs) :
    Ret p.nextClause (NextRet p) := by
  unfold Parser.nextClause
  refine Ret.bind' fun _ => Ret.bind' fun lr => ?_
  exact nextClauseLoop_ret p hl1 hlim _

/-- The driver loop: everything it collects is a clause the parser state allows, and a clean end
means the declared clause count (if active) has been reached exactly. -/
theorem driveClauses_sound :
    ∀ (f : Nat) (p : Parser) (acc : List Clause) (lr : LR) (items : List Clause) (lr' : LR),
      1 ≤ p.lit.bits → p.litLimit ≤ p.lit.maxDimacs →
      (p.clauseLimitActive = true → (p.clauseCount : Int) ≤ p.clauseLimit) →
      driveClauses f p acc lr = (items, none, lr') →
      ∃ cs, items = acc.reverse ++ cs ∧ (∀ c ∈ cs, ClauseRet p c) ∧
        (p.clauseLimitActive = true → (p.clauseCount : Int) + cs.length = p.clauseLimit) := by
  intro f
  induction f with
  | zero => intro p acc lr items lr' _ _ _ h; simp [driveClauses] at h
  | succ f ih =>
    intro p acc lr items lr' hl1 hlim hcnt h
    rw [driveClauses] at h
    cases hrun : (p.nextClause).run lr with
    | mk r lr1 =>
      rw [hrun] at h
      cases r with
      | error e => simp at h
      | ok rp =>
        obtain ⟨oc, p'⟩ := rp
        have hnext := nextClause_ret p hl1 hlim lr (oc, p') lr1 hrun
        cases oc with
        | none =>
          simp only [Prod.mk.injEq] at h
          obtain ⟨hp', hend⟩ := hnext
          refine ⟨[], by simp [h.1], fun _ hc => by simp at hc, ?_⟩
          intro ha
          have := hend ha; have := hcnt ha
          simp only [List.length_nil]; push_cast; omega
        | some c =>
          obtain ⟨hc, hp', htry⟩ := hnext
          dsimp only at h hp'
          subst hp'
          obtain ⟨cs, h1, h2, h3⟩ := ih { p with clauseCount := p.clauseCount + 1 } (c :: acc) lr1
            items lr' hl1 hlim
            (fun ha => by have := hcnt ha; have := htry ha; show ((p.clauseCount + 1 : Nat) : Int) ≤ _; push_cast; omega) h
          refine ⟨c :: cs, by simp [h1], ?_, ?_⟩
          · intro c' hc'
            rcases List.mem_cons.mp hc' with e | e
            · rw [e]; exact hc
            · exact h2 c' e
          · intro ha
            have := h3 ha
            have e : (({ p with clauseCount := p.clauseCount + 1 } : Parser).clauseCount : Int) =
              (p.clauseCount : Int) + 1 := by simp
            rw [e] at this
            simp only [List.length_cons]; push_cast at this ⊢
            have e2 : ({ p with clauseCount := p.clauseCount + 1 } : Parser).clauseLimit = p.clauseLimit := rfl
            rw [e2] at this
            omega

/-! ### header -/

theorem parseHeader_ret (fmt : Format) (l : LitTy) :
    Ret (parseHeader fmt l) (fun r => ∀ h, r = some h → HeaderWF fmt l h) := by
  unfold Cnf.parseHeader
  refine Ret.bind' fun _ => Ret.bind' fun _ => Ret.bind' fun _ => Ret.bind' fun r => ?_
  cases r with
  | none => exact Ret.pure (fun _ h => by simp at h)
  | some u =>
    dsimp only
    refine Ret.bind' fun _ => ?_
    refine Ret.bind (Ret.orGiveUp (Ret.varCount l) (Ret.unexpected _)) fun vc hvc => ?_
    refine Ret.bind (Ret.orGiveUp (Ret.uintCount usizeTy (by decide)) (Ret.unexpected _)) fun cc hcc => ?_
    cases fmt with
    | cnf =>
      dsimp only
      refine Ret.bind (P := fun x => x = 0) (Ret.pure rfl) fun ex hex => ?_
      subst hex
      refine Ret.bind' fun _ => Ret.pure ?_
      intro h hh; simp at hh; subst hh
      exact ⟨hvc.1, hvc.2, hcc.1, fits_u64 hcc.2, by simp⟩
    | wcnf =>
      dsimp only
      refine Ret.bind (Ret.orGiveUp (Ret.uintCount u64Ty (by decide)) (Ret.unexpected _)) fun ex hex => ?_
      refine Ret.bind' fun _ => Ret.pure ?_
      intro h hh; simp at hh; subst hh
      exact ⟨hvc.1, hvc.2, hcc.1, fits_u64 hcc.2, by simp; exact ⟨hex.1, fits_u64 hex.2⟩⟩
    | gcnf =>
      dsimp only
      refine Ret.bind (Ret.orGiveUp (Ret.uintCount usizeTy (by decide)) (Ret.unexpected _)) fun ex hex => ?_
      refine Ret.bind' fun _ => Ret.pure ?_
      intro h hh; simp at hh; subst hh
      exact ⟨hvc.1, hvc.2, hcc.1, fits_u64 hcc.2, by simp; exact ⟨hex.1, fits_u64 hex.2⟩⟩

/-! ### `Parser::new` and the whole document -/

theorem newParser_litLimit (fmt : Format) (l : LitTy) (ign : Bool) (hd : Header) :
    (newParser fmt l ign hd).litLimit = litLimit l ign (some hd) := by
  unfold newParser litLimit; cases ign <;> simp <;> (repeat' split) <;> simp_all

theorem newParser_groupLimit (l : LitTy) (ign : Bool) (hd : Header) :
    (newParser .gcnf l ign hd).groupLimit = groupLimit ign (some hd) := by
  unfold newParser groupLimit; cases ign <;> simp <;> (repeat' split) <;> simp_all [PM.usizeMax]

theorem newParser_fields (fmt : Format) (l : LitTy) (ign : Bool) (hd : Header) :
    (newParser fmt l ign hd).fmt = fmt ∧ (newParser fmt l ign hd).lit = l ∧
    (newParser fmt l ign hd).header = some hd ∧ (newParser fmt l ign hd).clauseCount = 0 ∧
    ((newParser fmt l ign hd).clauseLimitActive = true →
      ign = false ∧ hd.clauseCount ≠ 0 ∧ (newParser fmt l ign hd).clauseLimit = hd.clauseCount) := by
  unfold newParser; cases ign <;> simp <;> (repeat' split) <;> simp_all

theorem parserNew_ret (fmt : Format) (l : LitTy) (ign : Bool) :
    Ret (Parser.new fmt l ign) (fun p =>
      p = { fmt, lit := l, litLimit := l.maxDimacs } ∨
      ∃ hd, HeaderWF fmt l hd ∧ p = newParser fmt l ign hd) := by
  unfold Parser.new
  refine Ret.bind (parseHeader_ret fmt l) fun r hr => ?_
  cases r with
  | none => exact Ret.pure (Or.inl rfl)
  | some hd => exact Ret.pure (Or.inr ⟨hd, hr hd rfl, rfl⟩)

/-- **Soundness**: a parse that ends cleanly returns a document of the domain. -/
theorem parseAll_sound (fmt : Format) (l : LitTy) (ign : Bool) (hl : 1 ≤ l.bits ∧ l.bits ≤ 64)
    (lr : LR) (h : Option Header) (cs : List Clause)
    (hparse : parseAll fmt l ign lr = { header := h, items := cs, final := none }) :
    CnfWF fmt l ign h cs := by
  unfold parseAll at hparse
  cases hnew : (Parser.new fmt l ign).run lr with
  | mk r lr1 =>
    rw [hnew] at hparse
    cases r with
    | error e => simp at hparse
    | ok p =>
      have hp := parserNew_ret fmt l ign lr p lr1 hnew
      dsimp only at hparse
      cases hdrive : driveClauses (lr1.v.rest.length + 2) p [] lr1 with
      | mk items rest =>
        obtain ⟨fin, lr2⟩ := rest
        rw [hdrive] at hparse
        simp only [Run.mk.injEq] at hparse
        obtain ⟨hh, hitems, hfin⟩ := hparse
        subst hfin; subst hitems
        rcases hp with hp | ⟨hd, hwf, hp⟩
        · subst hp
          obtain ⟨cs', h1, h2, h3⟩ := driveClauses_sound _ _ [] lr1 items lr2 hl.1 (Int.le_refl _)
            (fun ha => by simp at ha) hdrive
          simp only [List.reverse_nil, List.nil_append] at h1
          subst h1
          simp only at hh
          subst hh
          refine ⟨hl, (fun _ e => by cases e), (fun _ e => by cases e), ?_⟩
          intro c hc
          obtain ⟨ht, hlits⟩ := h2 c hc
          refine ⟨?_, hlits⟩
          unfold TagWF
          cases fmt <;> simp only [reduceCtorEq, ↓reduceIte] at ht ⊢
          · exact ht
          · exact ⟨ht.1, ht.2, fun e => by cases e⟩
          · refine ⟨ht.1, ht.2.1, fun _ => ?_⟩
            have := ht.2.2
            simp only [PM.usizeMax] at this
            simp only [groupLimit]
            omega
        · subst hp
          obtain ⟨f1, f2, f3, f4, f5⟩ := newParser_fields fmt l ign hd
          have hlim : (newParser fmt l ign hd).litLimit ≤ (newParser fmt l ign hd).lit.maxDimacs := by
            rw [newParser_litLimit, f2]
            unfold litLimit
            dsimp only
            split
            · exact hwf.2.1
            · exact Int.le_refl _
          obtain ⟨cs', h1, h2, h3⟩ := driveClauses_sound _ _ [] lr1 items lr2 (by rw [f2]; exact hl.1)
            hlim (fun ha => by rw [f4, (f5 ha).2.2]; exact hwf.2.2.1) hdrive
          simp only [List.reverse_nil, List.nil_append] at h1
          subst h1
          rw [f3] at hh
          subst hh
          refine ⟨hl, (fun _ e => by cases e; exact hwf), ?_, ?_⟩
          · intro hd' e
            cases e
            cases hi : ign with
            | true => exact Or.inl rfl
            | false =>
              right
              by_cases hc0 : hd.clauseCount = 0
              · exact Or.inl hc0
              · right
                have hact : (newParser fmt l ign hd).clauseLimitActive = true := by
                  unfold newParser; rw [hi]; simp [hc0]; (repeat' split) <;> simp_all
                have := h3 hact
                rw [f4, (f5 hact).2.2] at this
                simp at this
                exact this.symm
          · intro c hc
            obtain ⟨ht, hlits⟩ := h2 c hc
            rw [f2, newParser_litLimit] at hlits
            refine ⟨?_, hlits⟩
            unfold TagWF
            rw [f1] at ht
            cases fmt <;> simp only [reduceCtorEq, ↓reduceIte] at ht ⊢
            · exact ht
            · exact ⟨ht.1, ht.2, fun e => by cases e⟩
            · refine ⟨ht.1, ht.2.1, fun _ => ?_⟩
              rw [← newParser_groupLimit l]; exact ht.2.2

end Flussab.CnfP
