/-
Proofs of the tie between the generated BTOR2 line parser (`Gen/Btor2ParserGen.lean`, from
`flussab-btor2/src/parser.rs`, `impl Parser`) and `Model/Btor2.lean`.  Statements: `Props/TieBtor2Parser.lean`.

The generated `try_node` is one definition.  `genVariant` (the `match node_token { .. }`) and `genTrailerK` (the
symbol / comment chain, in continuation-passing form) are verbatim copies of two fragments of the generated
text; `tryNode_decomp` (by `rfl`) checks that `Gen.Btor2Parser.tryNode` is exactly those two fragments put
together, so a change of the source that changes either fragment breaks this file.  Every proof is algebraic
(`tok_bind`, `modifyP_tok`: a buffer update commutes with a token call, ...) down to leaves closed by `rfl`.
Chain: `genVariant_eq` (variant match = `Btor2.nodeVariant`, with `loop_eq` for `justice`), `genTrailerK_eq`
(symbol / comment chain = `Btor2.trailer`), `tryNode_eq` (placeholder node + buffers), `nextLine_eq`
(`update_comment` / `update_bufs` with the buffers `try_node` left give back the model's line: `fill_variant`,
`fill_symbol`; `tryNode_norm`: the model's `try_node` returns nodes without comment).
-/
import Flussab.Gen.Btor2ParserGen
import Flussab.Proof.TieCnfToken

set_option linter.unusedSimpArgs false
set_option linter.unusedVariables false

namespace Flussab
namespace TieBtor2ParserAux
open PM Btor2ParserExt TieCnfTokenAux
open Btor2 (ParserS Node NodeVariant ValueVariant Line)

variable {α β : Type}

theorem bpm_bind_apply (x : BPM α) (f : α → BPM β) (s : ParserS) (lr : LR) :
    (x >>= f) s lr = match x s lr with
      | (.ok (a, s'), lr') => f a s' lr'
      | (.error e, lr') => (.error e, lr') := by
  show ((x s : PM (α × ParserS)) >>= fun p => f p.1 p.2) lr = _
  rw [PM.bind_apply]
  rcases x s lr with ⟨_ | ⟨a, s'⟩, lr'⟩ <;> rfl

theorem tok_apply (x : PM α) (s : ParserS) (lr : LR) :
    tok x s lr = match x lr with
      | (.ok a, lr') => (.ok (a, s), lr')
      | (.error e, lr') => (.error e, lr') := by
  show ((x : PM α) >>= fun a => (pure (a, s) : PM (α × ParserS))) lr = _
  rw [PM.bind_apply]
  rcases x lr with ⟨_ | a, lr'⟩ <;> rfl

theorem modifyP_apply (g : ParserS → ParserS) (s : ParserS) (lr : LR) :
    modifyP g s lr = (.ok ((), g s), lr) := rfl

theorem tok_pure (a : α) : tok (pure a : PM α) = (pure a : BPM α) := by
  funext s lr; rfl

theorem tok_bind (x : PM α) (f : α → PM β) : tok (x >>= f) = tok x >>= fun a => tok (f a) := by
  funext s lr
  rw [bpm_bind_apply, tok_apply, tok_apply, PM.bind_apply]
  rcases x lr with ⟨_ | a, lr'⟩
  · rfl
  · simp only [tok_apply]

theorem tok_orGiveUp (x : PM (Option α)) (e : PM α) :
    tok (PM.orGiveUp x e) = tok x >>= fun o => Btor2ParserExt.orGiveUp o (tok e) := by
  unfold PM.orGiveUp
  rw [tok_bind]
  congr 1; funext o
  cases o with
  | none => rfl
  | some a => exact tok_pure a

/-- A buffer update commutes with a token call (a thrown error forgets the buffers). -/
theorem modifyP_tok (g : ParserS → ParserS) (x : PM α) (k : α → BPM β) :
    (modifyP g >>= fun _ => tok x >>= k) = tok x >>= fun a => modifyP g >>= fun _ => k a := by
  funext s lr
  simp only [bpm_bind_apply, tok_apply, modifyP_apply]
  rcases x lr with ⟨_ | a, lr'⟩ <;> simp only [bpm_bind_apply, modifyP_apply]

theorem modifyP_modifyP (g h : ParserS → ParserS) (k : Unit → BPM β) :
    (modifyP g >>= fun _ => modifyP h >>= k) = modifyP (fun r => h (g r)) >>= k := by
  funext s lr; rfl

theorem modifyP_getLR (g : ParserS → ParserS) (k : LR → BPM β) :
    (modifyP g >>= fun _ => Btor2ParserExt.getLR >>= k) = Btor2ParserExt.getLR >>= fun a => modifyP g >>= fun _ => k a := by
  funext s lr; rfl

theorem tok_bind_congr (x : PM α) {f g : α → BPM β} (h : ∀ a, f a = g a) : (tok x >>= f) = (tok x >>= g) := by
  congr 1; funext a; exact h a

/-! ### the two fragments of the generated `try_node` -/

/-- Verbatim: the `match node_token { .. }` of the generated `tryNode`. -/
def genVariant (node_token : Gen.Btor2.NodeToken) : BPM Btor2.NodeVariant := do
  match node_token with
  | Flussab.Gen.Btor2.NodeToken.sort =>
    let t4 ← do
      Btor2ParserExt.tok Flussab.Btor2.requiredSpace
      let t5 ← Btor2ParserExt.tok Flussab.Btor2.sortToken
      let t6 ← Btor2ParserExt.orGiveUp t5 do
        Btor2ParserExt.tok Flussab.Btor2.unexpected
      match t6 with
      | Flussab.Gen.Btor2.SortToken.bitvec =>
        Btor2ParserExt.tok Flussab.Btor2.requiredSpace
        let t7 ← Btor2ParserExt.tok Flussab.Btor2.requiredPositiveInt
        let width := t7
        pure (Flussab.Btor2.BSort.bitVec width)
      | Flussab.Gen.Btor2.SortToken.array =>
        Btor2ParserExt.tok Flussab.Btor2.requiredSpace
        let t8 ← Btor2ParserExt.tok Flussab.Btor2.requiredSortId
        let domain := t8
        Btor2ParserExt.tok Flussab.Btor2.requiredSpace
        let t9 ← Btor2ParserExt.tok Flussab.Btor2.requiredSortId
        let codomain := t9
        pure (Flussab.Btor2.BSort.array domain codomain)
    pure (Flussab.Btor2.NodeVariant.sort t4)
  | Flussab.Gen.Btor2.NodeToken.assignment kind =>
    Btor2ParserExt.tok Flussab.Btor2.requiredSpace
    let t10 ← Btor2ParserExt.tok Flussab.Btor2.requiredSortId
    let sort := t10
    Btor2ParserExt.tok Flussab.Btor2.requiredSpace
    let t11 ← Btor2ParserExt.tok Flussab.Btor2.requiredNodeId
    let state := t11
    Btor2ParserExt.tok Flussab.Btor2.requiredSpace
    let t12 ← Btor2ParserExt.tok Flussab.Btor2.requiredNodeId
    let value_ := t12
    pure (Flussab.Btor2.NodeVariant.assignment state sort kind value_)
  | Flussab.Gen.Btor2.NodeToken.output kind =>
    Btor2ParserExt.tok Flussab.Btor2.requiredSpace
    let t13 ← Btor2ParserExt.tok Flussab.Btor2.requiredNodeId
    let value_ := t13
    pure (Flussab.Btor2.NodeVariant.output (Flussab.Btor2.Output.singleValue kind value_))
  | Flussab.Gen.Btor2.NodeToken.justice =>
    Btor2ParserExt.tok Flussab.Btor2.requiredSpace
    let t14 ← Btor2ParserExt.tok Flussab.Btor2.requiredPositiveInt
    let count := t14
    Btor2ParserExt.modifyP fun r => { r with nodeBuf := [] }
    Gen.Btor2Parser.tryNode.loop1 ((← Btor2ParserExt.getLR).v.rest.length + 2) count
    pure (Flussab.Btor2.NodeVariant.output (Flussab.Btor2.Output.justice []))
  | Flussab.Gen.Btor2.NodeToken.value value_token =>
    let t16 ← do
      Btor2ParserExt.tok Flussab.Btor2.requiredSpace
      let t17 ← Btor2ParserExt.tok Flussab.Btor2.requiredSortId
      let sort := t17
      let variant ←
        match value_token with
        | Flussab.Gen.Btor2.NodeValueToken.const =>
          Btor2ParserExt.tok Flussab.Btor2.requiredSpace
          Btor2ParserExt.modifyP fun r => { r with constBuf := [] }
          let t18 ← Btor2ParserExt.tok Flussab.Btor2.requiredBinaryConstant
          Btor2ParserExt.modifyP fun r => { r with constBuf := r.constBuf ++ t18 }
          pure (Flussab.Btor2.ValueVariant.const (Flussab.Btor2.Const.binary []))
        | Flussab.Gen.Btor2.NodeValueToken.constd =>
          Btor2ParserExt.tok Flussab.Btor2.requiredSpace
          Btor2ParserExt.modifyP fun r => { r with constBuf := [] }
          let t19 ← Btor2ParserExt.tok Flussab.Btor2.requiredDecimalConstant
          Btor2ParserExt.modifyP fun r => { r with constBuf := r.constBuf ++ t19 }
          pure (Flussab.Btor2.ValueVariant.const (Flussab.Btor2.Const.decimal []))
        | Flussab.Gen.Btor2.NodeValueToken.consth =>
          Btor2ParserExt.tok Flussab.Btor2.requiredSpace
          Btor2ParserExt.modifyP fun r => { r with constBuf := [] }
          let t20 ← Btor2ParserExt.tok Flussab.Btor2.requiredHexConstant
          Btor2ParserExt.modifyP fun r => { r with constBuf := r.constBuf ++ t20 }
          pure (Flussab.Btor2.ValueVariant.const (Flussab.Btor2.Const.hex []))
        | Flussab.Gen.Btor2.NodeValueToken.ones =>
          pure (Flussab.Btor2.ValueVariant.const Flussab.Btor2.Const.ones)
        | Flussab.Gen.Btor2.NodeValueToken.one =>
          pure (Flussab.Btor2.ValueVariant.const Flussab.Btor2.Const.one)
        | Flussab.Gen.Btor2.NodeValueToken.zero =>
          pure (Flussab.Btor2.ValueVariant.const Flussab.Btor2.Const.zero)
        | Flussab.Gen.Btor2.NodeValueToken.input =>
          pure Flussab.Btor2.ValueVariant.input
        | Flussab.Gen.Btor2.NodeValueToken.state =>
          pure Flussab.Btor2.ValueVariant.state
        | Flussab.Gen.Btor2.NodeValueToken.extOp ext_op_token =>
          Btor2ParserExt.tok Flussab.Btor2.requiredSpace
          let t21 ← Btor2ParserExt.tok Flussab.Btor2.requiredNodeId
          let a0 := t21
          Btor2ParserExt.tok Flussab.Btor2.requiredSpace
          let t22 ← Btor2ParserExt.tok Flussab.Btor2.requiredNonnegativeInt
          let pad := t22
          pure (Flussab.Btor2.ValueVariant.op (Flussab.Btor2.Op.unary (Flussab.Gen.Btor2.extOpTokenUnaryOp ext_op_token pad) a0))
        | Flussab.Gen.Btor2.NodeValueToken.slice =>
          Btor2ParserExt.tok Flussab.Btor2.requiredSpace
          let t23 ← Btor2ParserExt.tok Flussab.Btor2.requiredNodeId
          let a0 := t23
          Btor2ParserExt.tok Flussab.Btor2.requiredSpace
          let t24 ← Btor2ParserExt.tok Flussab.Btor2.requiredNonnegativeInt
          let u := t24
          Btor2ParserExt.tok Flussab.Btor2.requiredSpace
          let t25 ← Btor2ParserExt.tok Flussab.Btor2.requiredNonnegativeInt
          let l := t25
          pure (Flussab.Btor2.ValueVariant.op (Flussab.Btor2.Op.unary (Flussab.Gen.Btor2.UnaryOp.slice u l) a0))
        | Flussab.Gen.Btor2.NodeValueToken.unaryOp unary_op_token =>
          Btor2ParserExt.tok Flussab.Btor2.requiredSpace
          let t26 ← Btor2ParserExt.tok Flussab.Btor2.requiredNodeId
          let a0 := t26
          pure (Flussab.Btor2.ValueVariant.op (Flussab.Btor2.Op.unary (Flussab.Gen.Btor2.unaryOpTokenUnaryOp unary_op_token) a0))
        | Flussab.Gen.Btor2.NodeValueToken.binaryOp binary_op =>
          Btor2ParserExt.tok Flussab.Btor2.requiredSpace
          let t27 ← Btor2ParserExt.tok Flussab.Btor2.requiredNodeId
          let a0 := t27
          Btor2ParserExt.tok Flussab.Btor2.requiredSpace
          let t28 ← Btor2ParserExt.tok Flussab.Btor2.requiredNodeId
          let a1 := t28
          pure (Flussab.Btor2.ValueVariant.op (Flussab.Btor2.Op.binary binary_op a0 a1))
        | Flussab.Gen.Btor2.NodeValueToken.ternaryOp ternary_op =>
          Btor2ParserExt.tok Flussab.Btor2.requiredSpace
          let t29 ← Btor2ParserExt.tok Flussab.Btor2.requiredNodeId
          let a0 := t29
          Btor2ParserExt.tok Flussab.Btor2.requiredSpace
          let t30 ← Btor2ParserExt.tok Flussab.Btor2.requiredNodeId
          let a1 := t30
          Btor2ParserExt.tok Flussab.Btor2.requiredSpace
          let t31 ← Btor2ParserExt.tok Flussab.Btor2.requiredNodeId
          let a2 := t31
          pure (Flussab.Btor2.ValueVariant.op (Flussab.Btor2.Op.ternary ternary_op a0 a1 a2))
      pure (sort, variant)
    pure (Flussab.Btor2.NodeVariant.value t16.1 t16.2)

/-- Verbatim: the `(symbol, comment)` chain of the generated `tryNode`, with the rest as `k`. -/
def genTrailerK (k : Option VBytes × Option VBytes → BPM β) : BPM β := do
  let t32 ← Btor2ParserExt.tok Flussab.Btor2.space
  let t49 ← Btor2ParserExt.andThen t32 fun _ => do
    let t33 ← Btor2ParserExt.tok Flussab.Btor2.commentStart
    let t34 ← Btor2ParserExt.mapP t33 fun _ => do
      pure (none, (some ([] : VBytes)))
    let t47 ← Btor2ParserExt.orParse t34 do
      let t35 ← Btor2ParserExt.tok Flussab.Btor2.symbolName
      let t36 ← Btor2ParserExt.mapP t35 fun symbol => do
        Btor2ParserExt.modifyP fun r => { r with symbolBuf := [] }
        Btor2ParserExt.modifyP fun r => { r with symbolBuf := r.symbolBuf ++ symbol }
        pure (some ([] : VBytes))
      let t46 ← Btor2ParserExt.andThen t36 fun symbol => do
        let t37 ← Btor2ParserExt.tok Flussab.Btor2.space
        let t41 ← Btor2ParserExt.andThen t37 fun _ => do
          let t38 ← Btor2ParserExt.tok Flussab.Btor2.commentStart
          let t39 ← Btor2ParserExt.mapP t38 fun _ => do
            pure (symbol, (some ([] : VBytes)))
          let t40 ← Btor2ParserExt.orGiveUp t39 do
            Btor2ParserExt.tok Flussab.Btor2.unexpected
          pure t40
        let t44 ← Btor2ParserExt.orParse t41 do
          let t42 ← Btor2ParserExt.tok Flussab.Btor2.newline
          let t43 ← Btor2ParserExt.andThen t42 fun _ => do
            pure (symbol, none)
          pure t43
        let t45 ← Btor2ParserExt.orGiveUp t44 do
          Btor2ParserExt.tok Flussab.Btor2.unexpected
        pure t45
      pure t46
    let t48 ← Btor2ParserExt.orGiveUp t47 do
      Btor2ParserExt.tok Flussab.Btor2.unexpected
    pure t48
  let t52 ← Btor2ParserExt.orParse t49 do
    let t50 ← Btor2ParserExt.tok Flussab.Btor2.newline
    let t51 ← Btor2ParserExt.andThen t50 fun _ => do
      pure (none, none)
    pure t51
  let t53 ← Btor2ParserExt.orGiveUp t52 do
    Btor2ParserExt.tok Flussab.Btor2.unexpected
  k t53

/-- The generated `try_node` is exactly the two fragments put together (the generated definition shares the
trailer between the arms through a `do` join point, hence the case analysis). -/
theorem tryNode_decomp : Gen.Btor2Parser.tryNode = (do
    let t1 ← Btor2ParserExt.tok Flussab.Btor2.nodeId
    let t54 ← Btor2ParserExt.andThen t1 fun node_id => do
      Btor2ParserExt.tok Flussab.Btor2.requiredSpace
      let t2 ← Btor2ParserExt.tok Flussab.Btor2.nodeToken
      let t3 ← Btor2ParserExt.orGiveUp t2 do
        Btor2ParserExt.tok Flussab.Btor2.unexpected
      let variant ← genVariant t3
      genTrailerK fun t53 => do
        let (symbol, comment) := t53
        pure ({ id := node_id, variant := variant, symbol := symbol, comment := comment } : Btor2.Node)
    pure t54) := by
  unfold Gen.Btor2Parser.tryNode
  congr 1; funext t1; congr 1; congr 1; funext node_id
  congr 1; funext _; congr 1; funext t2; congr 1; funext t3
  cases t3 with
  | value vt =>
    simp only [genVariant, genTrailerK, bind_assoc, pure_bind]
    congr 1; funext _; congr 1; funext t17
    cases vt <;> simp only [bind_assoc, pure_bind]
  | sort =>
    simp only [genVariant, genTrailerK, bind_assoc, pure_bind]
    congr 1; funext _; congr 1; funext t5; congr 1; funext t6
    cases t6 <;> simp only [bind_assoc, pure_bind]
  | _ =>
    simp only [genVariant, genTrailerK, bind_assoc, pure_bind]

/-- The `for _ in 0..count` loop of a `justice` line: with `node_buf = acc.reverse` before, the generated loop is the
model's `justiceLoop` (same fuel, same out-of-fuel value) and leaves its result in `node_buf`. -/
theorem loop_eq (fuel : Nat) : ∀ (remaining : Nat) (acc : List Nat),
    (modifyP (fun r => { r with nodeBuf := acc.reverse }) >>= fun _ => Gen.Btor2Parser.tryNode.loop1 fuel remaining) =
      tok (Btor2.justiceLoop fuel remaining acc) >>= fun ns => modifyP fun r => { r with nodeBuf := ns } := by
  induction fuel with
  | zero => intro remaining acc; funext s lr; rfl
  | succ fuel ih =>
    intro remaining acc
    rw [Gen.Btor2Parser.tryNode.loop1, Btor2.justiceLoop]
    by_cases h : (remaining == 0) = true
    · simp only [h, if_true]; funext s lr; rfl
    · simp only [h, if_false, Bool.false_eq_true, tok_bind, bind_assoc, pure_bind, modifyP_tok]
      refine tok_bind_congr _ fun _ => ?_
      refine tok_bind_congr _ fun c => ?_
      rw [← ih (remaining - 1) (c :: acc), ← bind_assoc]
      congr 1
      funext s lr
      simp only [bpm_bind_apply, modifyP_apply, List.reverse_cons]

/-- `Parser::new`: the three buffers are empty, whatever the previous record was. -/
theorem new_eq (cfg : Btor2.Config) (s0 : ParserS) :
    (Gen.Btor2Parser.new cfg).run s0 =
      pure (({ nodeBuf := [], constBuf := [], symbolBuf := [] } : ParserS), { nodeBuf := [], constBuf := [], symbolBuf := [] }) := rfl

/-- `try_comment` is `token::comment_start` on the reader. -/
theorem tryComment_eq : Gen.Btor2Parser.tryComment = tok Btor2.commentStart := by
  unfold Gen.Btor2Parser.tryComment
  simp only [bind_pure]

/-- `check_io_error()?` of `next_line` is the model's `checkIoError`. -/
theorem checkIoError_eq : Btor2TokenExt.checkIoErrorTry = Btor2.checkIoError := rfl

/-- What `next_line` does to the placeholder line: with the comment body `c` and the buffers `cb`, `sb`, `nb`,
`update_comment` then `update_bufs` give the node with every placeholder replaced. -/
theorem patch_node (n : Node) (c cb sb : VBytes) (nb : List Nat) :
    updateBufs (updateComment (.node n) c) cb sb nb =
      .node { id := n.id, variant := updateVariant cb nb n.variant, symbol := n.symbol.map (fun _ => sb),
              comment := some c } := rfl


/-- The buffers after the variant `v` has been parsed from buffers `s`. -/
def vbufs (v : NodeVariant) (s : ParserS) : ParserS :=
  { nodeBuf := match v with | .output (.justice ns) => ns | _ => s.nodeBuf,
    constBuf := match v with
      | .value _ (.const (.binary c)) => c | .value _ (.const (.decimal c)) => c
      | .value _ (.const (.hex c)) => c | _ => s.constBuf,
    symbolBuf := s.symbolBuf }

/-- The placeholder variant `try_node` builds for `v`. -/
def stripV (v : NodeVariant) : NodeVariant := updateVariant [] [] v

macro "leaf" : tactic => `(tactic| (repeat (refine tok_bind_congr _ fun _ => ?_)) <;> (funext s lr; rfl))

theorem genVariant_eq (t : Gen.Btor2.NodeToken) :
    genVariant t = tok (Btor2.nodeVariant t) >>= fun v => modifyP (vbufs v) >>= fun _ => pure (stripV v) := by
  cases t with
  | value vt =>
    cases vt <;>
      simp only [genVariant, Btor2.nodeVariant, Btor2.valueVariant, tok_bind, tok_pure, bind_assoc, pure_bind, modifyP_tok] <;>
      leaf
  | sort =>
    simp only [genVariant, Btor2.nodeVariant, tok_bind, tok_pure, tok_orGiveUp, bind_assoc, pure_bind]
    refine tok_bind_congr _ fun _ => ?_
    refine tok_bind_congr _ fun t5 => ?_
    congr 1; funext t6
    cases t6 <;> simp only [tok_bind, tok_pure, bind_assoc, pure_bind] <;> leaf
  | justice =>
    simp only [genVariant, Btor2.nodeVariant, tok_bind, tok_pure, bind_assoc, pure_bind, modifyP_tok,
      Btor2ParserExt.getLR, PMExt.getLR]
    refine tok_bind_congr _ fun _ => ?_
    refine tok_bind_congr _ fun count => ?_
    refine tok_bind_congr _ fun lr => ?_
    have h := loop_eq (lr.v.rest.length + 2) count []
    simp only [List.reverse_nil] at h
    rw [← bind_assoc, h, bind_assoc]
    refine tok_bind_congr _ fun ns => ?_
    funext s lr; rfl
  | _ =>
    simp only [genVariant, Btor2.nodeVariant, tok_bind, tok_pure, bind_assoc, pure_bind] <;> leaf

/-- `unexpected` never returns: binding it to a continuation changes nothing. -/
theorem b2_unexpected_bind (f : α → PM β) : ((Btor2.unexpected : PM α) >>= f) = Btor2.unexpected := by
  unfold Btor2.unexpected
  rw [bind_assoc]
  congr 1; funext n
  split
  · exact giveUp_bind f
  · rw [bind_assoc]
    congr 1; funext lr
    split
    · exact giveUp_bind f
    · rw [bind_assoc]
      congr 1; funext lr2
      show ((reqAt _ >>= fun _ => (giveUp : PM α)) >>= f) = (reqAt _ >>= fun _ => (giveUp : PM β))
      rw [bind_assoc]
      congr 1; funext o
      exact giveUp_bind f

/-- `unexpected` is an error, the same one at every result type. -/
theorem b2_unexpected_err (lr : LR) : ∃ e lr', ∀ γ : Type, (Btor2.unexpected : PM γ) lr = (.error e, lr') := by
  rcases h : (Btor2.unexpected : PM Empty) lr with ⟨_ | o, lr'⟩
  · rename_i e
    refine ⟨e, lr', fun γ => ?_⟩
    rw [← b2_unexpected_bind (fun x : Empty => nomatch x), PM.bind_apply, h]
  · exact nomatch o

theorem tok_unexpected_bind (f : α → BPM β) : (tok (Btor2.unexpected : PM α) >>= f) = tok Btor2.unexpected := by
  funext s lr
  obtain ⟨e, lr', h⟩ := b2_unexpected_err lr
  rw [bpm_bind_apply, tok_apply, tok_apply, h α, h β]

theorem modifyP_tok_unexpected (g : ParserS → ParserS) :
    (modifyP g >>= fun _ => tok (Btor2.unexpected : PM β)) = tok Btor2.unexpected := by
  funext s lr
  obtain ⟨e, lr', h⟩ := b2_unexpected_err lr
  simp only [bpm_bind_apply, modifyP_apply, tok_apply, h β]

/-- The buffers after the trailer with symbol `sym` has been parsed from buffers `s`. -/
def sbufs (sym : Option VBytes) (s : ParserS) : ParserS :=
  match sym with
  | some x => { s with symbolBuf := x }
  | none => s

/-- The placeholder `(symbol, comment)` pair `try_node` builds for the model's `(symbol, has_comment)`. -/
def placeT (tr : Option VBytes × Bool) : Option VBytes × Option VBytes :=
  (tr.1.map fun _ => [], if tr.2 then some [] else none)

theorem genTrailerK_eq (k : Option VBytes × Option VBytes → BPM β) :
    genTrailerK k = tok Btor2.trailer >>= fun tr => modifyP (sbufs tr.1) >>= fun _ => k (placeT tr) := by
  unfold genTrailerK Btor2.trailer
  simp only [tok_bind, bind_assoc]
  refine tok_bind_congr _ fun t32 => ?_
  cases t32 with
  | none =>
    simp only [Btor2ParserExt.andThen, Btor2ParserExt.mapP, Btor2ParserExt.orParse, Btor2ParserExt.orGiveUp,
      tok_bind, tok_pure, bind_assoc, pure_bind, modifyP_tok, tok_unexpected_bind, modifyP_tok_unexpected]
    refine tok_bind_congr _ fun t50 => ?_
    cases t50 with
    | none =>
      simp only [Btor2ParserExt.andThen, Btor2ParserExt.mapP, Btor2ParserExt.orParse, Btor2ParserExt.orGiveUp,
        tok_bind, tok_pure, bind_assoc, pure_bind, modifyP_tok, tok_unexpected_bind, modifyP_tok_unexpected]
    | some u =>
      cases u
      simp only [Btor2ParserExt.andThen, Btor2ParserExt.mapP, Btor2ParserExt.orParse, Btor2ParserExt.orGiveUp,
        tok_bind, tok_pure, bind_assoc, pure_bind, modifyP_tok, tok_unexpected_bind, modifyP_tok_unexpected]
      funext s lr; rfl
  | some u =>
    cases u
    simp only [Btor2ParserExt.andThen, Btor2ParserExt.mapP, Btor2ParserExt.orParse, Btor2ParserExt.orGiveUp,
      tok_bind, tok_pure, bind_assoc, pure_bind, modifyP_tok, tok_unexpected_bind, modifyP_tok_unexpected]
    refine tok_bind_congr _ fun t33 => ?_
    cases t33 with
    | some u2 =>
      cases u2
      simp only [Btor2ParserExt.andThen, Btor2ParserExt.mapP, Btor2ParserExt.orParse, Btor2ParserExt.orGiveUp,
      tok_bind, tok_pure, bind_assoc, pure_bind, modifyP_tok, tok_unexpected_bind, modifyP_tok_unexpected]
      funext s lr; rfl
    | none =>
      simp only [Btor2ParserExt.andThen, Btor2ParserExt.mapP, Btor2ParserExt.orParse, Btor2ParserExt.orGiveUp,
      tok_bind, tok_pure, bind_assoc, pure_bind, modifyP_tok, tok_unexpected_bind, modifyP_tok_unexpected]
      refine tok_bind_congr _ fun t35 => ?_
      cases t35 with
      | none =>
        simp only [Btor2ParserExt.andThen, Btor2ParserExt.mapP, Btor2ParserExt.orParse, Btor2ParserExt.orGiveUp,
      tok_bind, tok_pure, bind_assoc, pure_bind, modifyP_tok, tok_unexpected_bind, modifyP_tok_unexpected]
      | some sym =>
        simp only [Btor2ParserExt.andThen, Btor2ParserExt.mapP, Btor2ParserExt.orParse, Btor2ParserExt.orGiveUp,
      tok_bind, tok_pure, bind_assoc, pure_bind, modifyP_tok, tok_unexpected_bind, modifyP_tok_unexpected]
        refine tok_bind_congr _ fun t37 => ?_
        cases t37 with
        | some u3 =>
          cases u3
          simp only [Btor2ParserExt.andThen, Btor2ParserExt.mapP, Btor2ParserExt.orParse, Btor2ParserExt.orGiveUp,
      tok_bind, tok_pure, bind_assoc, pure_bind, modifyP_tok, tok_unexpected_bind, modifyP_tok_unexpected]
          refine tok_bind_congr _ fun t38 => ?_
          cases t38 with
          | none =>
            simp only [Btor2ParserExt.andThen, Btor2ParserExt.mapP, Btor2ParserExt.orParse, Btor2ParserExt.orGiveUp,
      tok_bind, tok_pure, bind_assoc, pure_bind, modifyP_tok, tok_unexpected_bind, modifyP_tok_unexpected]
          | some u4 =>
            cases u4
            simp only [Btor2ParserExt.andThen, Btor2ParserExt.mapP, Btor2ParserExt.orParse, Btor2ParserExt.orGiveUp,
      tok_bind, tok_pure, bind_assoc, pure_bind, modifyP_tok, tok_unexpected_bind, modifyP_tok_unexpected]
            funext s lr; rfl
        | none =>
          simp only [Btor2ParserExt.andThen, Btor2ParserExt.mapP, Btor2ParserExt.orParse, Btor2ParserExt.orGiveUp,
      tok_bind, tok_pure, bind_assoc, pure_bind, modifyP_tok, tok_unexpected_bind, modifyP_tok_unexpected]
          refine tok_bind_congr _ fun t42 => ?_
          cases t42 with
          | none =>
            simp only [Btor2ParserExt.andThen, Btor2ParserExt.mapP, Btor2ParserExt.orParse, Btor2ParserExt.orGiveUp,
      tok_bind, tok_pure, bind_assoc, pure_bind, modifyP_tok, tok_unexpected_bind, modifyP_tok_unexpected]
          | some u4 =>
            cases u4
            simp only [Btor2ParserExt.andThen, Btor2ParserExt.mapP, Btor2ParserExt.orParse, Btor2ParserExt.orGiveUp,
      tok_bind, tok_pure, bind_assoc, pure_bind, modifyP_tok, tok_unexpected_bind, modifyP_tok_unexpected]
            funext s lr; rfl

/-- The placeholder node `try_node` returns for the model's `(node, has_comment)`. -/
def place (r : Node × Bool) : Node :=
  { id := r.1.id, variant := stripV r.1.variant, symbol := r.1.symbol.map fun _ => [],
    comment := if r.2 then some [] else none }

/-- The buffers after `try_node` returned `r`, from buffers `s`. -/
def nbufs (r : Option (Node × Bool)) (s : ParserS) : ParserS :=
  match r with
  | none => s
  | some (n, _) => sbufs n.symbol (vbufs n.variant s)

theorem tryNode_eq :
    Gen.Btor2Parser.tryNode = tok Btor2.tryNode >>= fun r => modifyP (nbufs r) >>= fun _ => pure (r.map place) := by
  rw [tryNode_decomp]
  unfold Btor2.tryNode
  simp only [tok_bind, bind_assoc]
  refine tok_bind_congr _ fun t1 => ?_
  cases t1 with
  | none =>
    simp only [Btor2ParserExt.andThen, tok_pure, pure_bind]
    funext s lr; rfl
  | some id =>
    simp only [Btor2ParserExt.andThen, genVariant_eq, genTrailerK_eq, tok_orGiveUp, tok_bind, tok_pure, bind_assoc,
      pure_bind, modifyP_tok]
    refine tok_bind_congr _ fun _ => ?_
    refine tok_bind_congr _ fun t2 => ?_
    rfl

/-- The model's `try_node` returns nodes without comment. -/
theorem tryNode_norm :
    Btor2.tryNode = Btor2.tryNode >>= fun r => pure (r.map fun p => (({ p.1 with comment := none } : Node), p.2)) := by
  unfold Btor2.tryNode
  simp only [bind_assoc]
  congr 1; funext o
  cases o with
  | none => simp only [pure_bind, Option.map]
  | some id =>
    simp only [bind_assoc, pure_bind]
    rfl

theorem getP_apply (s : ParserS) (lr : LR) : getP s lr = (.ok (s, s), lr) := rfl
theorem bpm_pure_apply (a : α) (s : ParserS) (lr : LR) : (pure a : BPM α) s lr = (.ok (a, s), lr) := rfl

theorem sbufs_const (sym : Option VBytes) (s : ParserS) : (sbufs sym s).constBuf = s.constBuf := by
  cases sym <;> rfl
theorem sbufs_node (sym : Option VBytes) (s : ParserS) : (sbufs sym s).nodeBuf = s.nodeBuf := by
  cases sym <;> rfl

/-- `update_bufs` with the buffers `try_node` left puts the model's variant back. -/
theorem fill_variant (v : NodeVariant) (s : ParserS) :
    updateVariant (vbufs v s).constBuf (vbufs v s).nodeBuf (stripV v) = v := by
  cases v with
  | value sort vv =>
    cases vv with
    | const c => cases c <;> rfl
    | _ => rfl
  | output o => cases o <;> rfl
  | _ => rfl

theorem fill_symbol (sym : Option VBytes) (s : ParserS) :
    (sym.map fun _ => ([] : VBytes)).map (fun _ => (sbufs sym s).symbolBuf) = sym := by
  cases sym <;> rfl

/-- The buffers after `next_line` returned `r`, from buffers `s`. -/
def lbufs (r : Option Line) (s : ParserS) : ParserS :=
  match r with
  | some (.node n) => sbufs n.symbol (vbufs n.variant s)
  | _ => s

theorem nextLine_eq :
    Gen.Btor2Parser.nextLine = tok Btor2.nextLine >>= fun r => modifyP (lbufs r) >>= fun _ => pure r := by
  unfold Gen.Btor2Parser.nextLine Btor2.nextLine
  rw [tryNode_eq, tryComment_eq, checkIoError_eq]
  rw [tryNode_norm]
  simp only [tok_bind, tok_pure, bind_assoc, pure_bind, modifyP_tok]
  refine tok_bind_congr _ fun _ => ?_
  refine tok_bind_congr _ fun r => ?_
  cases r with
  | none =>
    simp only [Option.map, Btor2ParserExt.mapP, Btor2ParserExt.orParse, Btor2ParserExt.orGiveUp, tok_bind, tok_pure,
      bind_assoc, pure_bind, modifyP_tok, tok_unexpected_bind, modifyP_tok_unexpected]
    refine tok_bind_congr _ fun a => ?_
    cases a with
    | some u =>
      cases u
      simp only [Option.map, Btor2ParserExt.mapP, Btor2ParserExt.orParse, Btor2ParserExt.orGiveUp, tok_bind, tok_pure,
        bind_assoc, pure_bind, modifyP_tok, tok_unexpected_bind, modifyP_tok_unexpected, hasComment, if_true]
      refine tok_bind_congr _ fun c => ?_
      funext s lr; rfl
    | none =>
      simp only [Option.map, Btor2ParserExt.mapP, Btor2ParserExt.orParse, Btor2ParserExt.orGiveUp, tok_bind, tok_pure,
        bind_assoc, pure_bind, modifyP_tok, tok_unexpected_bind, modifyP_tok_unexpected, hasComment, if_true]
      refine tok_bind_congr _ fun t7 => ?_
      cases t7 with
      | none =>
        simp only [Option.map, Btor2ParserExt.mapP, Btor2ParserExt.orParse, Btor2ParserExt.orGiveUp, tok_bind, tok_pure,
        bind_assoc, pure_bind, modifyP_tok, tok_unexpected_bind, modifyP_tok_unexpected, hasComment, if_true]
      | some u =>
        cases u
        simp only [Option.map, Btor2ParserExt.mapP, Btor2ParserExt.orParse, Btor2ParserExt.orGiveUp, tok_bind, tok_pure,
        bind_assoc, pure_bind, modifyP_tok, tok_unexpected_bind, modifyP_tok_unexpected, hasComment, if_true]
        refine tok_bind_congr _ fun _ => ?_
        funext s lr; rfl
  | some p =>
    rcases p with ⟨n, hc⟩
    cases hc with
    | false =>
      simp only [Option.map_some, Btor2ParserExt.mapP, Btor2ParserExt.orParse, Btor2ParserExt.orGiveUp, tok_bind, tok_pure,
        bind_assoc, pure_bind, modifyP_tok, hasComment, place, Bool.false_eq_true, if_false, if_true,
        Option.isSome_none, Option.isSome_some]
      funext s lr
      simp only [bpm_bind_apply, modifyP_apply, getP_apply, bpm_pure_apply]
      simp only [updateBufs, updateComment, nbufs, lbufs, sbufs_const, sbufs_node, fill_variant, fill_symbol]
    | true =>
      simp only [Option.map_some, Btor2ParserExt.mapP, Btor2ParserExt.orParse, Btor2ParserExt.orGiveUp, tok_bind, tok_pure,
        bind_assoc, pure_bind, modifyP_tok, hasComment, place, Bool.false_eq_true, if_false, if_true,
        Option.isSome_none, Option.isSome_some]
      refine tok_bind_congr _ fun c => ?_
      funext s lr
      simp only [bpm_bind_apply, modifyP_apply, getP_apply, bpm_pure_apply]
      simp only [updateBufs, updateComment, nbufs, lbufs, sbufs_const, sbufs_node, fill_variant, fill_symbol]

end TieBtor2ParserAux
end Flussab
