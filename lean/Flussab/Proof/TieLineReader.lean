/-
Proofs of the tie between the generated `LineReader` model (`Gen/LineReaderGen.lean`, from the
`impl LineReader` of `flussab/src/text.rs`) and `Model/LineReader.lean`.  Statements:
`Props/TieLineReader.lean`.
-/
import Flussab.Gen.LineReaderGen

namespace Flussab
namespace TieLineReaderAux

theorem get_apply (lr : LR) : (get : PM LR) lr = (.ok lr, lr) := rfl
theorem set_apply (s lr : LR) : (set s : PM Unit) lr = (.ok (), s) := rfl
theorem modify_apply (f : LR → LR) (lr : LR) : (modify f : PM Unit) lr = (.ok (), f lr) := rfl
theorem pure_apply {α : Type} (a : α) (lr : LR) : (pure a : PM α) lr = (.ok a, lr) := rfl
theorem throw_apply {α : Type} (e : PErr) (lr : LR) : (throw e : PM α) lr = (.error e, lr) := rfl
theorem rpanic_apply {α : Type} (s : String) (lr : LR) : (PM.rpanic s : PM α) lr = (.error (.panic s), lr) := rfl

theorem lineAtOffset_eq (off : Nat) (lr : LR) (h1 : lr.line + 1 ≤ PM.usizeMax) (h2 : lr.v.pos + off ≤ PM.usizeMax) :
    Gen.LineReader.lineAtOffset off lr = PM.lineAtOffset off lr := by
  rw [PM.lineAtOffset_apply]
  have hn : ¬ (lr.line + 1 > PM.usizeMax ∨ lr.v.pos + off > PM.usizeMax) := by omega
  have g1 : ¬ lr.line + 1 > PM.usizeMax := by omega
  have g2 : ¬ lr.v.pos + off > PM.usizeMax := by omega
  simp only [hn, if_false]
  unfold Gen.LineReader.lineAtOffset
  simp only [PM.bind_apply, PMExt.getLR, PMExt.uadd, PMExt.modifyLR, PM.position, get_apply, modify_apply,
    pure_apply, g1, g2, if_false]

theorem giveUpAt_apply {α : Type} (pos : Nat) (lr : LR) :
    (PM.giveUpAt pos : PM α) lr =
      (.error (if lr.v.ioErr then PErr.io
               else if pos < lr.lineStart then PErr.panic "column underflow (position before line start)"
               else PErr.syn lr.line (pos - lr.lineStart + 1)),
       { lr with v := { lr.v with ioErr := false } }) := by
  rcases lr with ⟨⟨rest, fault, sawEnd, ioErr, p, mark, peeked⟩, line, ls⟩
  cases ioErr
  · by_cases hp : pos < ls
    · simp only [PM.giveUpAt, PM.bind_apply, get_apply, set_apply, View.checkIoError, hp, if_true, Bool.false_eq_true, if_false]
      rfl
    · simp only [PM.giveUpAt, PM.bind_apply, get_apply, set_apply, View.checkIoError, hp, Bool.false_eq_true, if_false]
      rfl
  · simp only [PM.giveUpAt, PM.bind_apply, get_apply, set_apply, View.checkIoError, if_true]
    rfl

/-- `give_up_at_cold` = the model's `giveUpAt`, for positions whose column fits (`position - line_start + 1`
does not overflow: positions below `usize::MAX`). -/
theorem giveUpAtCold_eq {α : Type} (pos : Nat) (lr : LR) (hpos : lr.lineStart ≤ pos ∨ lr.v.ioErr = true)
    (h : pos - lr.lineStart + 1 ≤ PM.usizeMax) :
    (Gen.LineReader.giveUpAtCold pos () : PM α) lr = PM.giveUpAt pos lr := by
  rw [giveUpAt_apply]
  unfold Gen.LineReader.giveUpAtCold
  simp only [PM.bind_apply, PMExt.checkIoError, PMExt.getLR, PMExt.usub, PMExt.uadd, PMExt.throwIo, PMExt.throwSyn,
    get_apply, set_apply, pure_apply, throw_apply, View.checkIoError]
  by_cases he : lr.v.ioErr = true
  · simp only [he, if_true, throw_apply, PM.bind_apply]
  · have he' : lr.v.ioErr = false := by simpa using he
    simp only [he', Bool.false_eq_true, if_false, pure_apply, get_apply, PM.bind_apply]
    by_cases hp : pos < lr.lineStart
    · rcases hpos with h1 | h1
      · omega
      · exact absurd h1 he
    · have h3 : lr.lineStart ≤ pos := by omega
      have h4 : ¬ pos - lr.lineStart + 1 > PM.usizeMax := by omega
      simp only [hp, h3, h4, if_true, if_false, pure_apply, get_apply, throw_apply, PM.bind_apply]

/-- A position before the start of the line: both the generated code and the model panic (the model names
the site differently), neither produces a location. -/
theorem giveUpAtCold_underflow {α : Type} (pos : Nat) (lr : LR) (hp : pos < lr.lineStart) (he : lr.v.ioErr = false) :
    (∃ s, ((Gen.LineReader.giveUpAtCold pos () : PM α) lr).1 = .error (.panic s)) ∧
    (∃ s, ((PM.giveUpAt pos : PM α) lr).1 = .error (.panic s)) := by
  constructor
  · unfold Gen.LineReader.giveUpAtCold
    have : ¬ lr.lineStart ≤ pos := by omega
    simp only [PM.bind_apply, PMExt.checkIoError, PMExt.getLR, PMExt.usub, get_apply, set_apply, pure_apply,
      View.checkIoError, he, Bool.false_eq_true, if_false, this, rpanic_apply]
    exact ⟨_, rfl⟩
  · rw [giveUpAt_apply]
    simp [he, hp]

theorem giveUp_eq {α : Type} (lr : LR) (hpos : lr.lineStart ≤ lr.v.pos ∨ lr.v.ioErr = true)
    (h : lr.v.pos - lr.lineStart + 1 ≤ PM.usizeMax) :
    (Gen.LineReader.giveUp () : PM α) lr = PM.giveUp lr := by
  unfold Gen.LineReader.giveUp PM.giveUp
  simp only [PM.bind_apply, PM.position, get_apply, pure_apply]
  rw [giveUpAtCold_eq lr.v.pos lr hpos h]

theorem giveUpAt_eq {α : Type} (pos : Nat) (lr : LR) (hpos : lr.lineStart ≤ pos ∨ lr.v.ioErr = true)
    (h : pos - lr.lineStart + 1 ≤ PM.usizeMax) :
    (Gen.LineReader.giveUpAt pos () : PM α) lr = PM.giveUpAt pos lr := by
  unfold Gen.LineReader.giveUpAt
  exact giveUpAtCold_eq pos lr hpos h

end TieLineReaderAux
end Flussab
