/-
Decimal scanning (L2): the wrapping accumulation with sticky overflow flag computes the exact
value of the digit run whenever it is representable, and flags overflow exactly when it is not.
Generic in the integer type (`IntTy`), so it covers all twelve Rust types.
-/
import Flussab.Model.Text

namespace Flussab
namespace Text

/-- Decimal value of a run of ASCII digits (most significant first). -/
def decVal : VBytes → Nat
  | [] => 0
  | ds => ds.foldl (fun acc b => acc * 10 + (b.toNat - 48)) 0

theorem decVal_nil : decVal [] = 0 := rfl

/-- Accumulating `ds` onto a start value `P` with sign `s` (`+1` / `-1`): the mathematical value
the scanning loop is meant to compute. -/
def accum (sub : Bool) : Int → VBytes → Int
  | P, [] => P
  | P, b :: bs => accum sub (if sub then P * 10 - digitVal b else P * 10 + digitVal b) bs

end Text

theorem two_pow_pos' (n : Nat) : (0 : Int) < ((2 ^ n : Nat) : Int) := by
  have : 0 < 2 ^ n := Nat.two_pow_pos n
  omega

theorem wrap_arith (signed : Bool) (q x : Int) (hq : 0 < q)
    (h : (if signed then -q else 0) ≤ x ∧ x ≤ (if signed then q - 1 else 2 * q - 1)) :
    (let r := x % (2 * q); if signed && decide (r ≥ q) then r - 2 * q else r) = x := by
  cases signed
  · simp only [Bool.false_eq_true, ↓reduceIte, Bool.false_and] at *
    exact Int.emod_eq_of_lt h.1 (by omega)
  · simp only [↓reduceIte, Bool.true_and, decide_eq_true_eq] at *
    by_cases hx : 0 ≤ x
    · have : x % (2 * q) = x := Int.emod_eq_of_lt hx (by omega)
      rw [this]
      have : ¬ x ≥ q := by omega
      simp [this]
    · have : x % (2 * q) = x + 2 * q := by
        have h1 : (x + 2 * q) % (2 * q) = x + 2 * q := Int.emod_eq_of_lt (by omega) (by omega)
        rw [← h1]; simp
      rw [this]
      have : x + 2 * q ≥ q := by omega
      simp [this]

theorem IntTy.fits_iff (t : IntTy) (x : Int) : t.fits x = true ↔ t.minVal ≤ x ∧ x ≤ t.maxVal := by
  simp [IntTy.fits]

theorem IntTy.wrap_of_fits (t : IntTy) (hb : 1 ≤ t.bits) (x : Int) (h : t.fits x = true) :
    t.wrap x = x := by
  have hp : ((2 ^ t.bits : Nat) : Int) = 2 * ((2 ^ (t.bits - 1) : Nat) : Int) := by
    have : t.bits = (t.bits - 1) + 1 := by omega
    conv => lhs; rw [this, Nat.pow_succ]
    push_cast; omega
  have hpos := two_pow_pos' (t.bits - 1)
  have h' := (IntTy.fits_iff t x).mp h
  simp only [IntTy.minVal, IntTy.maxVal, hp] at h'
  simp only [IntTy.wrap, hp]
  exact wrap_arith t.signed _ x hpos h'


namespace Text

/-- Sign discipline of the accumulator: non-negative when adding, non-positive when subtracting. -/
def SignOK (sub : Bool) (P : Int) : Prop := if sub then P ≤ 0 else 0 ≤ P

theorem digitVal_range (b : UInt8) (h : isDigit b = true) : 0 ≤ digitVal b ∧ digitVal b ≤ 9 := by
  simp only [isDigit, Bool.and_eq_true, decide_eq_true_eq] at h
  simp only [digitVal]
  have h1 : 48 ≤ b.toNat := by have := h.1; exact UInt8.le_iff_toNat_le.mp this
  have h2 : b.toNat ≤ 57 := by have := h.2; exact UInt8.le_iff_toNat_le.mp this
  omega

theorem takeWhile_all (p : UInt8 → Bool) (l : VBytes) : ∀ x ∈ l.takeWhile p, p x = true := by
  induction l with
  | nil => simp
  | cons a l ih =>
    simp only [List.takeWhile]
    split
    · intro x hx
      cases hx with
      | head => assumption
      | tail _ h => exact ih x h
    · simp

/-- The accumulated value moves away from zero monotonically. -/
theorem accum_mono (sub : Bool) (ds : VBytes) (hd : ∀ b ∈ ds, isDigit b = true) (P : Int)
    (hP : SignOK sub P) : SignOK sub (accum sub P ds) ∧
      (if sub then accum sub P ds ≤ P else P ≤ accum sub P ds) := by
  induction ds generalizing P with
  | nil => simp only [accum]; exact ⟨hP, by cases sub <;> simp⟩
  | cons b bs ih =>
    have hb := digitVal_range b (hd b (by simp))
    simp only [accum]
    cases sub with
    | false =>
      simp only [SignOK, Bool.false_eq_true, ↓reduceIte] at *
      have := ih (fun x hx => hd x (by simp [hx])) (P * 10 + digitVal b) (by omega)
      exact ⟨this.1, by omega⟩
    | true =>
      simp only [SignOK, ↓reduceIte] at *
      have := ih (fun x hx => hd x (by simp [hx])) (P * 10 - digitVal b) (by omega)
      exact ⟨this.1, by omega⟩

theorem fits_between (t : IntTy) (a x b : Int) (ha : t.fits a = true) (hb : t.fits b = true)
    (h1 : a ≤ x) (h2 : x ≤ b) : t.fits x = true := by
  rw [IntTy.fits_iff] at *
  omega

end Text

theorem fits_zero (t : IntTy) : t.fits 0 = true := by
  have h1 := two_pow_pos' (t.bits - 1)
  have h2 := two_pow_pos' t.bits
  rw [IntTy.fits_iff]
  simp only [IntTy.minVal, IntTy.maxVal]
  cases t.signed
  · simp only [Bool.false_eq_true, ↓reduceIte]; omega
  · simp only [↓reduceIte]; omega

namespace Text

/-- **The scanning loop is exact.**  Started with an exact, representable accumulator `P` (or with
the overflow flag already set), on a list whose leading digit run is `ds`: it passes over exactly
`ds`; the flag ends up set iff it was set or the accumulated value is not representable; and
if the flag is clear the returned value is the accumulated value. -/
theorem digitsLoop_spec (t : IntTy) (hb : 1 ≤ t.bits) (sub : Bool) (bs : VBytes) :
    ∀ (v : Int) (o : Bool) (n : Nat) (P : Int), SignOK sub P →
      (o = false → v = P ∧ t.fits P = true) →
      let ds := bs.takeWhile isDigit
      let r := digitsLoop t sub bs v o n
      r.2.2 = n + ds.length ∧ r.2.1 = (o || !t.fits (accum sub P ds)) ∧
      (r.2.1 = false → r.1 = accum sub P ds) := by
  induction bs with
  | nil =>
    intro v o n P hP ho
    simp only [List.takeWhile, digitsLoop, accum, List.length_nil, Nat.add_zero, true_and]
    cases o with
    | true => simp
    | false => obtain ⟨h1, h2⟩ := ho rfl; simp [h1, h2]
  | cons b bs ih =>
    intro v o n P hP ho
    by_cases hd : isDigit b = true
    · simp only [List.takeWhile, hd, digitsLoop, ↓reduceIte, accum, List.length_cons]
      have hrange := digitVal_range b hd
      -- next mathematical accumulator
      let P' : Int := if sub then P * 10 - digitVal b else P * 10 + digitVal b
      have hP' : SignOK sub P' := by
        cases sub <;> simp only [SignOK, P', Bool.false_eq_true, ↓reduceIte] at * <;> omega
      have key := ih
        ((if sub then t.osub (t.omul v 10).1 (digitVal b) else t.oadd (t.omul v 10).1 (digitVal b)).1)
        (o || (t.omul v 10).2 || (if sub then t.osub (t.omul v 10).1 (digitVal b) else t.oadd (t.omul v 10).1 (digitVal b)).2)
        (n + 1) P' hP' ?_
      · obtain ⟨k1, k2, k3⟩ := key
        refine ⟨by rw [k1]; omega, ?_, ?_⟩
        · rw [k2]
          -- the flag so far is `o` or "some prefix did not fit"; if a prefix does not fit, the
          -- total does not fit either (monotone), so the disjunction collapses
          cases o with
          | true => simp
          | false =>
            obtain ⟨hv, hf⟩ := ho rfl
            subst hv
            simp only [Bool.false_or]
            by_cases hfit' : t.fits P' = true
            · -- the step is exact, no new flag
              have hmul : t.fits (v * 10) = true := by
                cases sub
                · simp only [SignOK, P', Bool.false_eq_true, ↓reduceIte] at *
                  exact fits_between t v (v * 10) (v * 10 + digitVal b) hf hfit' (by omega) (by omega)
                · simp only [SignOK, P', ↓reduceIte] at *
                  exact fits_between t (v * 10 - digitVal b) (v * 10) v hfit' hf (by omega) (by omega)
              have hw : t.wrap (v * 10) = v * 10 := IntTy.wrap_of_fits t hb _ hmul
              cases sub <;> simp [IntTy.omul, IntTy.oadd, IntTy.osub, hmul, hw, P'] at hfit' ⊢ <;> simp [hfit']
            · -- some flag is raised now, and the total cannot fit
              have hfit'' : t.fits P' = false := by simpa using hfit'
              have hmono := accum_mono sub (bs.takeWhile isDigit)
                (fun x hx => takeWhile_all isDigit bs x hx) P' hP'
              have hnot : t.fits (accum sub P' (bs.takeWhile isDigit)) = false := by
                cases hc : t.fits (accum sub P' (bs.takeWhile isDigit))
                · rfl
                · exfalso
                  have := fits_zero t
                  cases sub
                  · simp only [SignOK, Bool.false_eq_true, ↓reduceIte] at hmono hP'
                    have := fits_between t 0 P' _ (fits_zero t) hc hP' hmono.2
                    rw [this] at hfit''; exact absurd hfit'' (by simp)
                  · simp only [SignOK, ↓reduceIte] at hmono hP'
                    have := fits_between t _ P' 0 hc (fits_zero t) hmono.2 hP'
                    rw [this] at hfit''; exact absurd hfit'' (by simp)
              have hnot' := hnot
              simp only [P'] at hnot'
              simp only [hnot, hnot', Bool.not_false, Bool.or_true]
        · intro hfl
          exact k3 hfl
      · -- hypothesis for the recursive call: if no flag so far, the accumulator is exact
        intro hno
        simp only [Bool.or_eq_false_iff] at hno
        obtain ⟨⟨ho', hm⟩, ha⟩ := hno
        obtain ⟨hv, hf⟩ := ho ho'
        subst hv
        have hmul : t.fits (v * 10) = true := by simpa [IntTy.omul] using hm
        have hw : t.wrap (v * 10) = v * 10 := IntTy.wrap_of_fits t hb _ hmul
        cases sub
        · simp only [IntTy.omul, IntTy.oadd, hw, Bool.false_eq_true, ↓reduceIte, Bool.not_eq_false'] at ha ⊢
          exact ⟨IntTy.wrap_of_fits t hb _ ha, ha⟩
        · simp only [IntTy.omul, IntTy.osub, hw, ↓reduceIte, Bool.not_eq_false'] at ha ⊢
          exact ⟨IntTy.wrap_of_fits t hb _ ha, ha⟩
    · have hd' : isDigit b = false := by simpa using hd
      simp only [List.takeWhile, hd', digitsLoop, Bool.false_eq_true, ↓reduceIte, accum, List.length_nil,
        Nat.add_zero, true_and]
      cases o with
      | true => simp
      | false => obtain ⟨h1, h2⟩ := ho rfl; simp [h1, h2]

theorem foldl_dec (bs : VBytes) (a : Nat) :
    bs.foldl (fun acc b => acc * 10 + (b.toNat - 48)) a =
      a * 10 ^ bs.length + bs.foldl (fun acc b => acc * 10 + (b.toNat - 48)) 0 := by
  induction bs generalizing a with
  | nil => simp
  | cons b bs ih =>
    simp only [List.foldl, List.length_cons]
    rw [ih (a * 10 + (b.toNat - 48)), ih (0 * 10 + (b.toNat - 48))]
    simp only [Nat.zero_mul, Nat.zero_add, Nat.pow_succ]
    rw [Nat.add_mul, Nat.mul_assoc, Nat.mul_comm 10 (10 ^ bs.length)]
    omega

theorem decVal_eq (ds : VBytes) : decVal ds = ds.foldl (fun acc b => acc * 10 + (b.toNat - 48)) 0 := by
  cases ds <;> rfl

theorem decVal_append (a b : VBytes) : decVal (a ++ b) = decVal a * 10 ^ b.length + decVal b := by
  simp only [decVal_eq, List.foldl_append]
  exact foldl_dec b _

theorem accum_add (ds : VBytes) (P : Int) :
    accum false P ds = P * (10 ^ ds.length : Nat) + (decVal ds : Nat) := by
  induction ds generalizing P with
  | nil => simp [accum, decVal]
  | cons b bs ih =>
    have hd := decVal_append [b] bs
    simp only [List.singleton_append] at hd
    simp only [accum, Bool.false_eq_true, ↓reduceIte, ih, hd, List.length_cons, Nat.pow_succ]
    have : decVal [b] = b.toNat - 48 := by simp [decVal]
    rw [this]; simp only [digitVal]; push_cast
    rw [Int.add_mul, Int.mul_assoc, Int.mul_comm 10]; omega

theorem accum_sub (ds : VBytes) (P : Int) :
    accum true P ds = P * (10 ^ ds.length : Nat) - (decVal ds : Nat) := by
  induction ds generalizing P with
  | nil => simp [accum, decVal]
  | cons b bs ih =>
    have hd := decVal_append [b] bs
    simp only [List.singleton_append] at hd
    simp only [accum, ↓reduceIte, ih, hd, List.length_cons, Nat.pow_succ]
    have : decVal [b] = b.toNat - 48 := by simp [decVal]
    rw [this]; simp only [digitVal]; push_cast
    rw [Int.sub_mul, Int.mul_assoc, Int.mul_comm 10]; omega


end Text
end Flussab
