/-
C12: the invariant of `Renumber` carried through `finish` / `transfer` / `transferAll`.
"Every `lit_map` entry is sound w.r.t. the gates emitted so far; appending gates preserves
earlier values; codes are allocated consecutively; every key is well-founded."
-/
import Flussab.Proof.AigSpec

namespace Flussab.Aig

/-- Variable values of the circuit emitted so far. -/
def St.vals (st : St) (a : Aig) (σ : Nat → Bool) : List Bool := newVals a st.gates σ

structure Inv (a : Aig) (st : St) : Prop where
  code : st.lastCode = 2 * (a.inputs.length + a.latches.length + st.gates.length)
  mapBound : ∀ k v, (k, v) ∈ st.litMap → v ≤ st.lastCode + 1
  mapSound : ∀ σ, Consistent a σ → ∀ k v, (k, v) ∈ st.litMap → litValL (st.vals a σ) v = litVal σ k
  mapGround : ∀ k v, (k, v) ∈ st.litMap → Grounded a (k / 2)
  order : ∀ i (h : i < st.gates.length), st.gates[i].in1 ≤ st.gates[i].in0 ∧
      st.gates[i].in0 < 2 * (a.inputs.length + a.latches.length + 1 + i)
  idx : ∀ g c, (g, c) ∈ st.index → c ≤ st.lastCode + 1 ∧ g.in0 ≤ st.lastCode + 1 ∧
      g.in1 ≤ st.lastCode + 1 ∧
      ∀ σ, litValL (st.vals a σ) c = (litValL (st.vals a σ) g.in0 && litValL (st.vals a σ) g.in1)

/-- `st'` extends `st`: gates were only appended, keys only added. -/
structure Ext (st st' : St) : Prop where
  gates : ∃ ext, st'.gates = st.gates ++ ext
  keys : ∀ k, st.litMap.HasKey k → st'.litMap.HasKey k

theorem Ext.refl (st : St) : Ext st st := ⟨⟨[], by simp⟩, fun _ h => h⟩

theorem Ext.trans {s1 s2 s3 : St} (h1 : Ext s1 s2) (h2 : Ext s2 s3) : Ext s1 s3 := by
  obtain ⟨e1, he1⟩ := h1.gates
  obtain ⟨e2, he2⟩ := h2.gates
  exact ⟨⟨e1 ++ e2, by rw [he2, he1, List.append_assoc]⟩, fun k hk => h2.keys k (h1.keys k hk)⟩

theorem Inv.code_even {a : Aig} {st : St} (h : Inv a st) : st.lastCode % 2 = 0 := by
  rw [h.code]; omega

theorem Inv.code_le {a : Aig} {st st' : St} (h : Inv a st) (h' : Inv a st') (e : Ext st st') :
    st.lastCode ≤ st'.lastCode := by
  obtain ⟨ext, he⟩ := e.gates
  rw [h.code, h'.code, he, List.length_append]; omega

/-- A literal numbered so far keeps its value when the state is extended. -/
theorem Inv.stable {a : Aig} {st st' : St} (h : Inv a st) (e : Ext st st') (σ : Nat → Bool)
    (v : Nat) (hv : v ≤ st.lastCode + 1) : litValL (st'.vals a σ) v = litValL (st.vals a σ) v := by
  obtain ⟨ext, he⟩ := e.gates
  unfold St.vals newVals
  rw [he]
  apply litValL_evalGates_append
  rw [baseOf_length]
  have := h.code
  omega

theorem vals_zero (a : Aig) (st : St) (σ : Nat → Bool) : litValL (st.vals a σ) 0 = false := by
  unfold St.vals newVals
  obtain ⟨ext, h1, _⟩ := evalGates_prefix st.gates (baseOf a σ)
  rw [h1]
  simp [litValL, baseOf]

theorem vals_one (a : Aig) (st : St) (σ : Nat → Bool) : litValL (st.vals a σ) 1 = true := by
  unfold St.vals newVals
  obtain ⟨ext, h1, _⟩ := evalGates_prefix st.gates (baseOf a σ)
  rw [h1]
  simp [litValL, baseOf]

/-! ### `lit_map.insert` of a sound value -/

theorem Inv.insert {a : Aig} {st : St} (h : Inv a st) (out v : Nat) (hv : v ≤ st.lastCode + 1)
    (hs : ∀ σ, Consistent a σ → litValL (st.vals a σ) v = litVal σ out)
    (hg : Grounded a (out / 2)) :
    Inv a { st with litMap := st.litMap.insert out v } := by
  refine ⟨h.code, ?_, ?_, ?_, h.order, h.idx⟩
  · intro k w hm
    simp only [LitMap.insert, List.mem_cons, Prod.mk.injEq] at hm
    rcases hm with ⟨_, rfl⟩ | hm
    · exact xor_bit_le v _ _ (by omega) h.code_even hv
    · exact h.mapBound k w hm
  · intro σ hc k w hm
    simp only [LitMap.insert, List.mem_cons, Prod.mk.injEq] at hm
    rcases hm with ⟨rfl, rfl⟩ | hm
    · exact sound_insert σ _ out v (hs σ hc)
    · exact h.mapSound σ hc k w hm
  · intro k w hm
    simp only [LitMap.insert, List.mem_cons, Prod.mk.injEq] at hm
    rcases hm with ⟨rfl, _⟩ | hm
    · have : 2 * (out / 2) / 2 = out / 2 := by omega
      rw [this]; exact hg
    · exact h.mapGround k w hm

/-! ### pushing a fresh gate -/

theorem push_fst (st : St) (g : OGate) (out : Nat) (b : Bool) : (st.push g out b).1 = st.lastCode + 2 := rfl

theorem push_ext (st : St) (g : OGate) (out : Nat) (b : Bool) : Ext st (st.push g out b).2 :=
  ⟨⟨[g], rfl⟩, fun _ hk => LitMap.hasKey_insert_of _ _ _ _ hk⟩

theorem Inv.push {a : Aig} {st : St} (h : Inv a st) (x y out : Nat) (b : Bool)
    (hx : x ≤ st.lastCode + 1) (hyx : y ≤ x)
    (hs : ∀ σ, Consistent a σ →
      (litValL (st.vals a σ) x && litValL (st.vals a σ) y) = litVal σ out)
    (hg : Grounded a (out / 2)) :
    Inv a (st.push ⟨x, y⟩ out b).2 ∧
    (∀ σ, Consistent a σ → litValL ((st.push ⟨x, y⟩ out b).2.vals a σ) (st.lastCode + 2) = litVal σ out) := by
  have hext := push_ext st ⟨x, y⟩ out b
  have hcode := h.code
  have heven := h.code_even
  -- value of the new code, for every σ
  have hnew : ∀ σ, litValL ((st.push ⟨x, y⟩ out b).2.vals a σ) (st.lastCode + 2) =
      (litValL (st.vals a σ) x && litValL (st.vals a σ) y) := by
    intro σ
    have := litValL_evalGates_snoc st.gates ⟨x, y⟩ (baseOf a σ) (st.lastCode + 2)
      (by rw [baseOf_length]; omega) (by omega)
    exact this
  have hstab : ∀ σ v, v ≤ st.lastCode + 1 →
      litValL ((st.push ⟨x, y⟩ out b).2.vals a σ) v = litValL (st.vals a σ) v :=
    fun σ v hv => h.stable hext σ v hv
  refine ⟨⟨?_, ?_, ?_, ?_, ?_, ?_⟩, ?_⟩
  · simp only [St.push, List.length_append, List.length_singleton]; omega
  · intro k w hm
    simp only [St.push, LitMap.insert, List.mem_cons, Prod.mk.injEq] at hm ⊢
    rcases hm with ⟨_, rfl⟩ | hm
    · exact xor_bit_le _ _ _ (by omega) (by omega) (by omega)
    · have := h.mapBound k w hm; omega
  · intro σ hc k w hm
    simp only [St.push, LitMap.insert, List.mem_cons, Prod.mk.injEq] at hm
    rcases hm with ⟨rfl, rfl⟩ | hm
    · apply sound_insert
      rw [hnew σ]; exact hs σ hc
    · rw [hstab σ w (h.mapBound k w hm)]; exact h.mapSound σ hc k w hm
  · intro k w hm
    simp only [St.push, LitMap.insert, List.mem_cons, Prod.mk.injEq] at hm
    rcases hm with ⟨rfl, _⟩ | hm
    · have : 2 * (out / 2) / 2 = out / 2 := by omega
      rw [this]; exact hg
    · exact h.mapGround k w hm
  · intro i hi
    simp only [St.push, List.length_append, List.length_singleton] at hi
    by_cases hlt : i < st.gates.length
    · have := h.order i hlt
      simp only [St.push, List.getElem_append_left hlt]
      exact this
    · have hi' : i = st.gates.length := by omega
      subst hi'
      simp only [St.push, List.getElem_append_right (Nat.le_refl _), Nat.sub_self,
        List.getElem_cons_zero]
      constructor
      · exact hyx
      · omega
  · intro g c hm
    have hold : (g, c) ∈ st.index → _ := h.idx g c
    have key : (g, c) ∈ st.index ∨ (g = ⟨x, y⟩ ∧ c = st.lastCode + 2) := by
      simp only [St.push] at hm
      cases b
      · exact Or.inl hm
      · simp only [if_true, List.mem_cons, Prod.mk.injEq] at hm
        rcases hm with hm | hm
        · exact Or.inr hm
        · exact Or.inl hm
    have hlc : (st.push ⟨x, y⟩ out b).2.lastCode = st.lastCode + 2 := rfl
    rcases key with hm | ⟨rfl, rfl⟩
    · obtain ⟨b1, b2, b3, b4⟩ := hold hm
      refine ⟨by omega, by omega, by omega, ?_⟩
      intro σ
      rw [hstab σ c b1, hstab σ _ b2, hstab σ _ b3]; exact b4 σ
    · refine ⟨by omega, by rw [hlc]; show x ≤ _; omega, by rw [hlc]; show y ≤ _; omega, ?_⟩
      intro σ
      rw [hnew σ]
      show _ = (litValL _ x && litValL _ y)
      rw [hstab σ x hx, hstab σ y (by omega)]
  · intro σ hc
    rw [hnew σ]; exact hs σ hc

/-! ### `State::Input1` -/

theorem sort2_spec (t0 t1 : Nat) :
    (sort2 t0 t1).2 ≤ (sort2 t0 t1).1 ∧ (sort2 t0 t1 = (t0, t1) ∨ sort2 t0 t1 = (t1, t0)) := by
  unfold sort2
  by_cases h : t1 ≤ t0
  · simp [h]
  · simp only [h, if_false]; exact ⟨by omega, by simp⟩

theorem foldGate_sound (vals : List Bool) (h0 : litValL vals 0 = false) (h1 : litValL vals 1 = true)
    (x y f : Nat) (h : foldGate x y = some f) :
    (f = 0 ∨ f = x ∨ f = y) ∧ litValL vals f = (litValL vals x && litValL vals y) := by
  unfold foldGate at h
  split at h
  · rename_i hc
    injection h with h; subst h
    refine ⟨Or.inl rfl, ?_⟩
    rcases hc with rfl | rfl <;> simp [h0]
  · split at h
    · rename_i hc
      injection h with h; subst h
      refine ⟨Or.inr (Or.inr rfl), ?_⟩
      rcases hc with rfl | rfl <;> simp [h1]
    · split at h
      · rename_i hc
        injection h with h; subst h
        refine ⟨Or.inr (Or.inl rfl), ?_⟩
        subst hc; simp [h1]
      · exact absurd h (by simp)

/-- Result of `State::Input1`. -/
theorem finish_inv {a : Aig} {st : St} (h : Inv a st) (cfg : Config) (g : AndGate) (hg : g ∈ a.gates)
    (lit : Nat) (hl : lit / 2 = g.out / 2) (t0 t1 : Nat)
    (b0 : t0 ≤ st.lastCode + 1) (b1 : t1 ≤ st.lastCode + 1)
    (s0 : ∀ σ, Consistent a σ → litValL (st.vals a σ) t0 = litVal σ g.in0)
    (s1 : ∀ σ, Consistent a σ → litValL (st.vals a σ) t1 = litVal σ g.in1)
    (g0 : Grounded a (g.in0 / 2)) (g1 : Grounded a (g.in1 / 2)) :
    Inv a (finish cfg st lit g.out t0 t1).2 ∧ Ext st (finish cfg st lit g.out t0 t1).2 ∧
    (finish cfg st lit g.out t0 t1).1 ≤ (finish cfg st lit g.out t0 t1).2.lastCode + 1 ∧
    (∀ σ, Consistent a σ →
      litValL ((finish cfg st lit g.out t0 t1).2.vals a σ) (finish cfg st lit g.out t0 t1).1 = litVal σ lit) ∧
    (finish cfg st lit g.out t0 t1).2.litMap.HasKey lit := by
  have hgr : Grounded a (g.out / 2) := Grounded.gate g hg g0 g1
  obtain ⟨hle, hperm⟩ := sort2_spec t0 t1
  rcases hs : sort2 t0 t1 with ⟨x, y⟩
  rw [hs] at hle hperm
  simp only at hle
  have hx : x ≤ st.lastCode + 1 := by
    rcases hperm with hp | hp <;> (injection hp with e1 e2; omega)
  have hy : y ≤ st.lastCode + 1 := by omega
  have hval : ∀ σ, Consistent a σ →
      (litValL (st.vals a σ) x && litValL (st.vals a σ) y) = litVal σ g.out := by
    intro σ hc
    rw [hc.2 g hg, ← s0 σ hc, ← s1 σ hc]
    rcases hperm with hp | hp <;> (injection hp with e1 e2; subst e1; subst e2)
    · rfl
    · exact Bool.and_comm _ _
  have heven := h.code_even
  -- the three ways of finishing
  have insertCase : ∀ v, v ≤ st.lastCode + 1 →
      (∀ σ, Consistent a σ → litValL (st.vals a σ) v = litVal σ g.out) →
      let st' : St := { st with litMap := st.litMap.insert g.out v }
      Inv a st' ∧ Ext st st' ∧ (v ^^^ lit ^^^ g.out) ≤ st'.lastCode + 1 ∧
      (∀ σ, Consistent a σ → litValL (st'.vals a σ) (v ^^^ lit ^^^ g.out) = litVal σ lit) ∧
      st'.litMap.HasKey lit := by
    intro v hv hsv
    refine ⟨h.insert g.out v hv hsv hgr, ⟨⟨[], by simp⟩, fun k hk => LitMap.hasKey_insert_of _ _ _ _ hk⟩,
      xor3_le v lit g.out _ hl heven hv, ?_, LitMap.hasKey_insert_of_var _ _ _ _ hl.symm⟩
    intro σ hc
    exact sound_xor3 σ _ v lit g.out hl (hsv σ hc)
  have pushCase : ∀ b,
      let r := st.push ⟨x, y⟩ g.out b
      Inv a r.2 ∧ Ext st r.2 ∧ (r.1 ^^^ lit ^^^ g.out) ≤ r.2.lastCode + 1 ∧
      (∀ σ, Consistent a σ → litValL (r.2.vals a σ) (r.1 ^^^ lit ^^^ g.out) = litVal σ lit) ∧
      r.2.litMap.HasKey lit := by
    intro b
    obtain ⟨hinv, hsnd⟩ := h.push x y g.out b hx hle hval hgr
    refine ⟨hinv, push_ext _ _ _ _, ?_, ?_, LitMap.hasKey_insert_of_var _ _ _ _ hl.symm⟩
    · exact xor3_le _ lit g.out _ hl hinv.code_even (by rw [push_fst]; show _ ≤ st.lastCode + 2 + 1; omega)
    · intro σ hc
      exact sound_xor3 σ _ _ lit g.out hl (hsnd σ hc)
  unfold finish
  rw [hs]
  simp only
  split
  · rename_i f hf
    have hfold : foldGate x y = some f := by
      cases hcf : cfg.fold <;> simp [hcf] at hf
      exact hf
    have hfv : f ≤ st.lastCode + 1 := by
      have := (foldGate_sound [] rfl (by decide) x y f hfold).1
      rcases this with rfl | rfl | rfl <;> omega
    exact insertCase f hfv (fun σ hc => by
      rw [(foldGate_sound _ (vals_zero a st σ) (vals_one a st σ) x y f hfold).2]; exact hval σ hc)
  · split
    · split
      · rename_i l hl'
        obtain ⟨c1, c2, c3, c4⟩ := h.idx _ _ (ilookup_mem hl')
        exact insertCase l c1 (fun σ hc => by rw [c4 σ]; exact hval σ hc)
      · exact pushCase true
    · exact pushCase false

end Flussab.Aig
