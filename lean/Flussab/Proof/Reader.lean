/-
L1 proofs: the safety invariant of `DeferredReader` and what every operation does to the
buffered window, the position, the mark and the source.
-/
import Flussab.Model.Reader
import Flussab.Proof.Source

namespace Flussab
namespace Reader

/-- The safety invariant (C14): holds after every operation, for every schedule, lying sources
and caught panics included. -/
structure Ok (r : Reader) : Prop where
  inBuf : r.posInBuf + r.validLen ≤ r.buf.length
  chunkPos : 1 ≤ r.chunk
  errC : r.ioError = true → r.complete = true
  endC : r.src.ended = r.complete
  after : r.src.afterEnd = 0
  wf : r.src.ended = true → r.src.pre = [] ∧ r.src.data = []

/-- Everything in front of the cursor: buffered window, then what the source still holds. -/
def rest (r : Reader) : Bytes := r.window ++ (r.src.pre ++ r.src.data)

theorem window_length (r : Reader) (h : r.posInBuf + r.validLen ≤ r.buf.length) :
    r.window.length = r.validLen := by
  simp [window]; omega

/-! ### list facts about `writeAt`, `take`, `drop` -/

theorem take_drop_writeAt_zero (buf : Bytes) (p n : Nat) (h : p + n ≤ buf.length) :
    (writeAt buf 0 ((buf.drop p).take n)).take n = (buf.drop p).take n := by
  have hl : ((buf.drop p).take n).length = n := by simp; omega
  simp only [writeAt, List.take_zero, List.nil_append, Nat.zero_add]
  rw [List.take_append_of_le_length (by omega)]
  rw [List.take_of_length_le (by omega)]

theorem length_writeAt (buf : Bytes) (i : Nat) (bs : Bytes) (h : i + bs.length ≤ buf.length) :
    (writeAt buf i bs).length = buf.length := by
  simp [writeAt]; omega

theorem window_writeAt_end (buf : Bytes) (p n : Nat) (bs : Bytes) (h : p + n + bs.length ≤ buf.length) :
    ((writeAt buf (p + n) bs).drop p).take (n + bs.length) = (buf.drop p).take n ++ bs := by
  unfold writeAt
  rw [List.append_assoc, List.drop_append_of_le_length (by simp; omega)]
  rw [List.drop_take]
  have e : p + n - p = n := by omega
  rw [e, ← List.append_assoc]
  apply List.take_left'
  simp; omega

/-! ### the parts of `request_more` -/

/-- Facts that say "same reader as far as the outside can tell". -/
structure Same (r' r : Reader) : Prop where
  window : r'.window = r.window
  position : r'.position = r.position
  mark : r'.mark = r.mark
  validLen : r'.validLen = r.validLen
  src : r'.src = r.src
  complete : r'.complete = r.complete
  ioError : r'.ioError = r.ioError
  chunk : r'.chunk = r.chunk

theorem moveStep_props (r : Reader) (h : r.posInBuf + r.validLen ≤ r.buf.length) :
    Same r.moveStep r ∧ r.moveStep.posInBuf = 0 ∧ r.moveStep.buf.length = r.buf.length := by
  have hw : ((r.buf.drop r.posInBuf).take r.validLen).length = r.validLen := by simp; omega
  have hlen : (writeAt r.buf 0 ((r.buf.drop r.posInBuf).take r.validLen)).length = r.buf.length :=
    length_writeAt _ _ _ (by omega)
  refine ⟨⟨?_, ?_, ?_, rfl, rfl, rfl, rfl, rfl⟩, rfl, hlen⟩
  · simp only [window, moveStep, List.drop_zero]
    exact take_drop_writeAt_zero _ _ _ h
  · simp [position, moveStep]
  · simp only [Reader.mark, moveStep]; congr 2; omega

theorem shrinkStep_props (r : Reader) (h : r.posInBuf + r.validLen ≤ r.buf.length) :
    Same r.shrinkStep r ∧ r.shrinkStep.posInBuf = r.posInBuf ∧ r.shrinkStep.buf.length ≤ r.buf.length ∧
    r.shrinkStep.posInBuf + r.shrinkStep.validLen ≤ r.shrinkStep.buf.length := by
  unfold shrinkStep
  split
  · rename_i hs
    refine ⟨⟨?_, rfl, rfl, rfl, rfl, rfl, rfl, rfl⟩, rfl, ?_, ?_⟩
    · simp only [window]
      rw [List.drop_take, List.take_take]
      congr 1; omega
    · simp only [List.length_take]; omega
    · simp only [List.length_take]; omega
  · exact ⟨⟨rfl, rfl, rfl, rfl, rfl, rfl, rfl, rfl⟩, rfl, Nat.le_refl _, h⟩

theorem Same.refl (r : Reader) : Same r r := ⟨rfl, rfl, rfl, rfl, rfl, rfl, rfl, rfl⟩

theorem Same.trans {a b c : Reader} (h1 : Same a b) (h2 : Same b c) : Same a c :=
  ⟨h1.window.trans h2.window, h1.position.trans h2.position, h1.mark.trans h2.mark,
   h1.validLen.trans h2.validLen, h1.src.trans h2.src, h1.complete.trans h2.complete,
   h1.ioError.trans h2.ioError, h1.chunk.trans h2.chunk⟩

theorem realignStep_props (r : Reader) (h : r.posInBuf + r.validLen ≤ r.buf.length) :
    Same r.realignStep r ∧ r.realignStep.posInBuf ≤ 2 * r.chunk ∧
    r.realignStep.buf.length ≤ r.buf.length ∧
    r.realignStep.posInBuf + r.realignStep.validLen ≤ r.realignStep.buf.length := by
  unfold realignStep
  split
  · obtain ⟨hm, hp0, hl⟩ := moveStep_props r h
    have hm' : r.moveStep.posInBuf + r.moveStep.validLen ≤ r.moveStep.buf.length := by
      rw [hp0, hm.validLen, hl]; omega
    obtain ⟨hs, hp1, hl1, hin⟩ := shrinkStep_props r.moveStep hm'
    exact ⟨hs.trans hm, by rw [hp1, hp0]; omega, by omega, hin⟩
  · exact ⟨Same.refl r, by omega, Nat.le_refl _, h⟩

theorem growStep_props (r : Reader) (h : r.posInBuf + r.validLen ≤ r.buf.length) :
    Same r.growStep r ∧ r.growStep.posInBuf = r.posInBuf ∧
    r.growStep.posInBuf + r.growStep.validLen + r.growStep.chunk ≤ r.growStep.buf.length ∧
    r.growStep.buf.length = max r.buf.length (r.posInBuf + r.validLen + r.chunk) := by
  unfold growStep
  dsimp only
  split
  · rename_i hg
    refine ⟨⟨?_, rfl, rfl, rfl, rfl, rfl, rfl, rfl⟩, rfl, ?_, ?_⟩
    · simp only [window]
      rw [List.drop_append_of_le_length (by omega), List.take_append_of_le_length (by simp; omega)]
    · simp only [List.length_append, List.length_replicate]; omega
    · simp only [List.length_append, List.length_replicate]; omega
  · exact ⟨Same.refl r, rfl, by omega, by omega⟩

/-- What a successful refill (`request_more` returning `true`) did: `bs` are the bytes appended to
the window (`[]` = the source reported its end). -/
structure Refill (r r' : Reader) (bs : Bytes) : Prop where
  window : r'.window = r.window ++ bs
  stream : bs ++ (r'.src.pre ++ r'.src.data) = r.src.pre ++ r.src.data
  le_chunk : bs.length ≤ r.chunk
  validLen : r'.validLen = r.validLen + bs.length
  position : r'.position = r.position
  mark : r'.mark = r.mark
  chunk : r'.chunk = r.chunk
  atEnd : bs = [] → r'.complete = true ∧ r'.src.ended = true ∧ r'.ioError = (r.ioError || r.src.fault) ∧
            r'.src.pre = [] ∧ r'.src.data = []
  notEnd : bs ≠ [] → r'.complete = r.complete ∧ r'.ioError = r.ioError ∧ r'.src.ended = false
  fault : r'.src.fault = r.src.fault
  after : r'.src.afterEnd = r.src.afterEnd
  lastGive : r'.src.lastGive = bs.length
  sched : ∃ p, r.src.sched = p ++ r'.src.sched
  oneRead : r.src.pre = [] → r'.src.prod = r.src.prod + 1
  preRead : r.src.pre ≠ [] → r'.src.prod = r.src.prod ∧ r'.src.calls = r.src.calls
  delivered : r'.src.delivered = r.src.delivered + bs.length

/-- What a panicking refill (lying source) left behind. -/
structure Lied (r r' : Reader) : Prop where
  window : r'.window = r.window
  validLen : r'.validLen = r.validLen
  position : r'.position = r.position
  mark : r'.mark = r.mark
  chunk : r'.chunk = r.chunk
  complete : r'.complete = r.complete
  ioError : r'.ioError = r.ioError
  ended : r'.src.ended = false
  after : r'.src.afterEnd = r.src.afterEnd
  lies : ∃ x, Ev.lie x ∈ r.src.sched

theorem readStep_spec (r : Reader) (hb : r.posInBuf + r.validLen + r.chunk ≤ r.buf.length)
    (hc : 1 ≤ r.chunk) (hend : r.src.ended = false) :
    (∃ r' bs, r.readStep = (some true, r') ∧ Refill r r' bs ∧
        r'.posInBuf + r'.validLen ≤ r'.buf.length ∧ r'.buf.length = r.buf.length ∧ r'.posInBuf = r.posInBuf) ∨
    (∃ r', r.readStep = (none, r') ∧ Lied r r' ∧
        r'.posInBuf + r'.validLen ≤ r'.buf.length ∧ r'.buf.length = r.buf.length ∧ r'.posInBuf = r.posInBuf) := by
  have ho := Source.readRetry_outcome r.src r.chunk hc hend
  unfold readStep
  generalize r.src.readRetry r.chunk = pr at ho
  obtain ⟨res, s'⟩ := pr
  simp only at ho ⊢
  cases ho with
  | bytes bs s' h1 h2 h3 h4 h5 h6 h7 h8 h9 h10 h11 =>
    left
    cases bs with
    | nil => exact absurd rfl h1
    | cons b bt =>
      refine ⟨_, b :: bt, rfl, ⟨?_, h3, h2, rfl, rfl, rfl, rfl, ?_, ?_, h5, h6, h7, h8, h9, h10, h11⟩, ?_, ?_, rfl⟩
      · simp only [window]
        exact window_writeAt_end _ _ _ _ (by omega)
      · intro h; exact absurd h (by simp)
      · intro _; exact ⟨rfl, rfl, h4⟩
      · rw [length_writeAt _ _ _ (by omega)]; simp only; omega
      · exact length_writeAt _ _ _ (by omega)
  | eof s' h1 h2 h3 h4 h5 h6 h7 h8 h9 h10 h11 h12 =>
    left
    refine ⟨_, [], rfl, ⟨by simp [window], by simp [h1, h2, h3, h4], by simp, rfl, rfl, rfl, rfl, ?_, ?_, ?_, h8, h9, h10,
      fun _ => h11, fun h => absurd h1 h, h12⟩, by dsimp only; omega, rfl, rfl⟩
    · intro _; exact ⟨rfl, h5, by simp [h6], h3, h4⟩
    · intro h; exact absurd rfl h
    · rw [h7, h6]
  | err s' h1 h2 h3 h4 h5 h6 h7 h8 h9 h10 h11 h12 =>
    left
    refine ⟨_, [], rfl, ⟨by simp [window], by simp [h1, h2, h3, h4], by simp, rfl, rfl, rfl, rfl, ?_, ?_, ?_, h8, h9, h10,
      fun _ => h11, fun h => absurd h1 h, h12⟩, by dsimp only; omega, rfl, rfl⟩
    · intro _; exact ⟨rfl, h5, by simp [h6], h3, h4⟩
    · intro h; exact absurd rfl h
    · rw [h7, h6]
  | lie n s' h1 h2 h3 h4 h5 h6 h7 h8 h9 =>
    right
    exact ⟨_, rfl, ⟨rfl, rfl, rfl, rfl, rfl, rfl, rfl, h3, h5, h2⟩, by dsimp only; omega, rfl, rfl⟩


/-- `request_more` on an `Ok` reader: exactly one of three things happens. -/
theorem requestMore_spec (r : Reader) (h : r.Ok) :
    (r.complete = true ∧ r.requestMore = (some false, r)) ∨
    (r.complete = false ∧ ∃ r' bs, r.requestMore = (some true, r') ∧ Refill r r' bs ∧ r'.Ok ∧
        r'.buf.length ≤ max r.buf.length (3 * r.chunk + r.validLen)) ∨
    (r.complete = false ∧ ∃ r', r.requestMore = (none, r') ∧ Lied r r' ∧ r'.Ok ∧
        r'.buf.length ≤ max r.buf.length (3 * r.chunk + r.validLen)) := by
  unfold requestMore
  cases hc : r.complete
  · right
    have hnp : ¬(r.posInBuf > r.chunk * 2 ∧ r.posInBuf + r.validLen > r.buf.length) := by
      have := h.inBuf; omega
    simp only [Bool.false_eq_true, ↓reduceIte, hnp]
    obtain ⟨hs1, hp1, hl1, hin1⟩ := realignStep_props r h.inBuf
    obtain ⟨hs2, hp2, hin2, hl2⟩ := growStep_props r.realignStep hin1
    have hs := hs2.trans hs1
    have hended : r.realignStep.growStep.src.ended = false := by
      rw [hs.src, h.endC, hc]
    have hchunk : 1 ≤ r.realignStep.growStep.chunk := by rw [hs.chunk]; exact h.chunkPos
    have hbuf : r.realignStep.growStep.buf.length ≤ max r.buf.length (3 * r.chunk + r.validLen) := by
      rw [hl2, hs1.validLen, hs1.chunk]; omega
    rcases readStep_spec r.realignStep.growStep hin2 hchunk hended with
      ⟨r', bs, he, hf, hin, hlen, hpos⟩ | ⟨r', he, hl, hin, hlen, hpos⟩
    · left
      refine ⟨trivial, r', bs, he, ?_, ?_, by omega⟩
      · exact { window := by rw [hf.window, hs.window]
                stream := by rw [hf.stream, hs.src]
                le_chunk := by rw [← hs.chunk]; exact hf.le_chunk
                validLen := by rw [hf.validLen, hs.validLen]
                position := by rw [hf.position, hs.position]
                mark := by rw [hf.mark, hs.mark]
                chunk := by rw [hf.chunk, hs.chunk]
                atEnd := by intro hb; have := hf.atEnd hb; rw [hs.ioError, hs.src] at this; exact this
                notEnd := by intro hb; have := hf.notEnd hb; rw [hs.ioError, hs.complete] at this; exact this
                fault := by rw [hf.fault, hs.src]
                after := by rw [hf.after, hs.src]
                lastGive := hf.lastGive
                sched := by rw [← hs.src]; exact hf.sched
                oneRead := by rw [← hs.src]; exact hf.oneRead
                preRead := by rw [← hs.src]; exact hf.preRead
                delivered := by rw [hf.delivered, hs.src] }
      · by_cases hb : bs = []
        · obtain ⟨c1, c2, c3, c4, c5⟩ := hf.atEnd hb
          exact { inBuf := hin, chunkPos := by rw [hf.chunk]; exact hchunk
                  errC := fun _ => c1, endC := by rw [c1, c2]
                  after := by rw [hf.after, hs.src]; exact h.after
                  wf := fun _ => ⟨c4, c5⟩ }
        · obtain ⟨c1, c2, c3⟩ := hf.notEnd hb
          exact { inBuf := hin, chunkPos := by rw [hf.chunk]; exact hchunk
                  errC := by rw [c1, c2, hs.ioError, hs.complete]; exact h.errC
                  endC := by rw [c1, c3, hs.complete, hc]
                  after := by rw [hf.after, hs.src]; exact h.after
                  wf := by intro he'; rw [c3] at he'; exact absurd he' (by simp) }
    · right
      refine ⟨trivial, r', he, ?_, ?_, by omega⟩
      · exact { window := by rw [hl.window, hs.window]
                validLen := by rw [hl.validLen, hs.validLen]
                position := by rw [hl.position, hs.position]
                mark := by rw [hl.mark, hs.mark]
                chunk := by rw [hl.chunk, hs.chunk]
                complete := by rw [hl.complete, hs.complete]
                ioError := by rw [hl.ioError, hs.ioError]
                ended := hl.ended
                after := by rw [hl.after, hs.src]
                lies := by rw [← hs.src]; exact hl.lies }
      · exact { inBuf := hin, chunkPos := by rw [hl.chunk]; exact hchunk
                errC := by rw [hl.ioError, hl.complete, hs.ioError, hs.complete]; exact h.errC
                endC := by rw [hl.ended, hl.complete, hs.complete, hc]
                after := by rw [hl.after, hs.src]; exact h.after
                wf := by intro he'; rw [hl.ended] at he'; exact absurd he' (by simp) }
  · left
    simp

/-- `r'` was reached from `r` by refills only: the window grew by `bs`, taken in order from the
source; nothing else observable changed. -/
structure Grew (r r' : Reader) (bs : Bytes) : Prop where
  window : r'.window = r.window ++ bs
  stream : bs ++ (r'.src.pre ++ r'.src.data) = r.src.pre ++ r.src.data
  validLen : r'.validLen = r.validLen + bs.length
  position : r'.position = r.position
  mark : r'.mark = r.mark
  chunk : r'.chunk = r.chunk
  fault : r'.src.fault = r.src.fault
  ioError : r'.ioError = (r.ioError || (r.src.fault && r'.complete && !r.complete))
  mono : r.complete = true → r'.complete = true
  after : r'.src.afterEnd = r.src.afterEnd
  sched : ∃ p, r.src.sched = p ++ r'.src.sched

theorem Grew.refl (r : Reader) : Grew r r [] :=
  { window := by simp, stream := by simp, validLen := by simp, position := rfl, mark := rfl,
    chunk := rfl, fault := rfl, ioError := by cases r.ioError <;> cases r.src.fault <;> cases r.complete <;> rfl,
    mono := id, after := rfl, sched := ⟨[], rfl⟩ }

theorem Grew.step {r r1 r2 : Reader} {bs1 bs2 : Bytes} (h1 : Grew r r1 bs1) (hc : r1.complete = false)
    (h2 : Refill r1 r2 bs2) : Grew r r2 (bs1 ++ bs2) := by
  have hrc : r.complete = false := by
    cases h : r.complete
    · rfl
    · have := h1.mono h; rw [hc] at this; exact absurd this (by simp)
  have hio1 : r1.ioError = r.ioError := by rw [h1.ioError, hc]; simp
  obtain ⟨p1, hp1⟩ := h1.sched
  obtain ⟨p2, hp2⟩ := h2.sched
  refine { window := by rw [h2.window, h1.window, List.append_assoc]
           stream := by rw [List.append_assoc, h2.stream, h1.stream]
           validLen := by rw [h2.validLen, h1.validLen, List.length_append]; omega
           position := by rw [h2.position, h1.position]
           mark := by rw [h2.mark, h1.mark]
           chunk := by rw [h2.chunk, h1.chunk]
           fault := by rw [h2.fault, h1.fault]
           ioError := ?_
           mono := fun h => by rw [hrc] at h; exact absurd h (by simp)
           after := by rw [h2.after, h1.after]
           sched := ⟨p1 ++ p2, by rw [hp1, hp2, List.append_assoc]⟩ }
  by_cases hb : bs2 = []
  · obtain ⟨c1, _, c3, _, _⟩ := h2.atEnd hb
    rw [c3, c1, hio1, h1.fault, hrc]; simp
  · obtain ⟨c1, c2, _⟩ := h2.notEnd hb
    rw [c2, c1, hio1, hc]; simp

theorem requestLoop_complete (f : Nat) (r : Reader) (len : Nat) (hc : r.complete = true) :
    r.requestLoop f len = (some (), r) := by
  cases f with
  | zero => rfl
  | succ f =>
    unfold requestLoop
    split
    · simp [requestMore, hc]
    · rfl

/-- The refill loop of `request` / `request_byte_at_offset`, for every fuel. -/
theorem requestLoop_spec (f : Nat) (r : Reader) (len : Nat) (h : r.Ok) :
    (∃ r' bs, r.requestLoop f len = (some (), r') ∧ r'.Ok ∧ Grew r r' bs ∧
        (len ≤ r.validLen → r' = r) ∧
        (r.src.pre.length + r.src.data.length + 1 ≤ f → len ≤ r'.validLen ∨ r'.complete = true) ∧
        (r' = r ∨ r'.validLen - r'.src.lastGive < len) ∧
        r'.buf.length ≤ max r.buf.length (3 * r.chunk + len) ∧
        (r'.complete = r.complete ∨ r'.validLen < len)) ∨
    (∃ r' bs, r.requestLoop f len = (none, r') ∧ r'.Ok ∧ (∃ x, Ev.lie x ∈ r.src.sched) ∧
        r'.window = r.window ++ bs ∧ r'.position = r.position ∧ r'.mark = r.mark ∧
        r'.validLen = r.validLen + bs.length) := by
  induction f generalizing r with
  | zero =>
    left
    refine ⟨r, [], rfl, h, Grew.refl r, fun _ => rfl, ?_, Or.inl rfl, by omega, Or.inl rfl⟩
    intro hf; omega
  | succ f ih =>
    unfold requestLoop
    by_cases hv : r.validLen < len
    · simp only [hv, ↓reduceIte]
      rcases requestMore_spec r h with ⟨hc, he⟩ | ⟨hc, r1, bs, he, hf, hok, hbuf⟩ | ⟨hc, r1, he, hl, hok, hbuf⟩
      · left
        rw [he]
        exact ⟨r, [], rfl, h, Grew.refl r, fun _ => rfl, fun _ => Or.inr hc, Or.inl rfl, by omega, Or.inl rfl⟩
      · rw [he]
        simp only
        have hg1 : Grew r r1 bs := by
          have := Grew.step (Grew.refl r) hc hf
          simpa using this
        rcases ih r1 hok with ⟨r', bs', e', ok', g', hsat, hfuel, hdem, hb', hcm⟩ | ⟨r', bs', e', ok', _, w', p', m', v'⟩
        · left
          have hg : Grew r r' (bs ++ bs') :=
            { window := by rw [g'.window, hg1.window, List.append_assoc]
              stream := by rw [List.append_assoc, g'.stream, hg1.stream]
              validLen := by rw [g'.validLen, hg1.validLen, List.length_append]; omega
              position := by rw [g'.position, hg1.position]
              mark := by rw [g'.mark, hg1.mark]
              chunk := by rw [g'.chunk, hg1.chunk]
              fault := by rw [g'.fault, hg1.fault]
              ioError := by
                rw [g'.ioError, hg1.ioError, hg1.fault, hc]
                cases hr1 : r1.complete
                · simp
                · have := g'.mono hr1; rw [this]; simp
              mono := fun hh => by rw [hc] at hh; exact absurd hh (by simp)
              after := by rw [g'.after, hg1.after]
              sched := by
                obtain ⟨p1, hp1⟩ := hg1.sched
                obtain ⟨p2, hp2⟩ := g'.sched
                exact ⟨p1 ++ p2, by rw [hp1, hp2, List.append_assoc]⟩ }
          refine ⟨r', bs ++ bs', e', ok', hg, fun hh => by omega, ?_, ?_, ?_, ?_⟩
          · intro hfu
            by_cases hb : bs = []
            · obtain ⟨c1, _, _, _, _⟩ := hf.atEnd hb
              exact Or.inr (g'.mono c1)
            · apply hfuel
              have hs := congrArg List.length hf.stream
              simp only [List.length_append] at hs
              have : 0 < bs.length := List.length_pos_iff.mpr hb
              omega
          · right
            rcases hdem with hd | hd
            · rw [hd, hf.validLen, hf.lastGive]; omega
            · exact hd
          · rw [hf.chunk] at hb'; omega
          · by_cases hb : bs = []
            · obtain ⟨c1, _, _, _, _⟩ := hf.atEnd hb
              have hr' : r' = r1 := by
                have := requestLoop_complete f r1 len c1
                rw [this] at e'; simp at e'; exact e'.symm
              right; rw [hr', hf.validLen, hb]; simpa using hv
            · obtain ⟨c1, _, _⟩ := hf.notEnd hb
              rcases hcm with hcm | hcm
              · left; rw [hcm, c1]
              · right; exact hcm
        · right
          obtain ⟨x, hx⟩ := ‹∃ x, Ev.lie x ∈ r1.src.sched›
          obtain ⟨p1, hp1⟩ := hg1.sched
          exact ⟨r', bs ++ bs', e', ok', ⟨x, by rw [hp1]; simp [hx]⟩,
            by rw [w', hg1.window, List.append_assoc], by rw [p', hg1.position], by rw [m', hg1.mark],
            by rw [v', hg1.validLen, List.length_append]; omega⟩
      · right
        rw [he]
        exact ⟨r1, [], rfl, hok, hl.lies, by simp [hl.window], hl.position, hl.mark, by simp [hl.validLen]⟩
    · left
      simp only [hv, ↓reduceIte]
      exact ⟨r, [], rfl, h, Grew.refl r, fun _ => rfl, fun _ => Or.inl (by omega), Or.inl rfl, by omega, Or.inl rfl⟩

end Reader
end Flussab
