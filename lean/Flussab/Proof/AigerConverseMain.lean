/-
The converse of the AIGER round trip, assembled: whatever `Parser::from_read(..)?.parse()`
returns — ASCII or binary, from any reader state — is in the domain of the round-trip theorems
(`AigDomain` / `OrdDomain` of `Proof/AigerRtDomain.lean`).

The `size` clause of the domains speaks about the writer's output (`< usize::MAX` bytes, for the
`usize` line/column bookkeeping of the parse that reads it back).  It does not follow from the
parse alone — the model's `remaining_file_content` does no `usize` arithmetic, so the model
accepts a comment of `2^64` bytes — but it follows from a bound on the *input*: what the writer
emits for a parsed circuit is at most one byte longer than what was parsed (`parseAag_length`,
`parseAig_length`; the one byte is the empty comment of a file that ends in `c\n`, written as
`c\n\n`).
-/
import Flussab.Proof.AigerConverseLenBinary
import Flussab.Props.C06Aiger

namespace Flussab
namespace Aiger
open PM AigerRT

theorem one_le_maxCode (l : LitTy) (h : 1 ≤ l.bits) : 1 ≤ l.maxCode := by
  unfold LitTy.maxCode
  have : 2 ^ 1 ≤ 2 ^ l.bits := Nat.pow_le_pow_right (by decide) h
  omega

/-! ### ASCII -/

/-- **ASCII**: a parsed circuit is in the domain of `aag_roundtrip`. -/
theorem parseAag_domain (l : LitTy) (hl1 : 1 ≤ l.bits) (hl : l.bits ≤ 64) (lr lr' : LR) (a : Aig)
    (h : (parseAag l).run lr = (.ok a, lr')) (hsize : (writeAig a).length < usizeMax) :
    AigDomain l a := by
  obtain ⟨p, lr1, hp, ok, hmax, hvars, hin, hla, hlits, hg⟩ :=
    C06.aag_parse_sizes l (one_le_maxCode l hl1) lr lr' a h
  unfold parseAag at h
  bind_inv h with p2 lr2 hp2
  rw [hp] at hp2
  cases hp2
  obtain ⟨hsyms, hcomment⟩ := parseAscii_tail p lr1 a lr' h
  exact { bits := hl, maxVar := hmax, vars := hvars, inputs := hin, latches := hla, lits := hlits,
          gates := hg, symbols := by rw [aigHeader_eq ok]; exact hsyms, comment := hcomment,
          size := hsize }

/-- **ASCII**: `write_aig` of a parsed circuit emits at most one byte more than was parsed. -/
theorem parseAag_length (l : LitTy) (lr lr' : LR) (a : Aig)
    (h : (parseAag l).run lr = (.ok a, lr')) : (writeAig a).length ≤ lr.v.rest.length + 1 := by
  obtain ⟨k, hk, hw⟩ := con_parseAag l lr a lr' h
  omega

/-! ### binary -/

/-- What a successful binary parse establishes, shared by the two theorems below. -/
structure BinCore (l : LitTy) (lr lr' : LR) (a : OrderedAig) (p : Parser) (lr1 : LR) : Prop where
  new : (Parser.new true l).run lr = (.ok p, lr1)
  body : (parseBinary p).run lr1 = (.ok a, lr')
  ok : OrderedOk p a
  lit : p.lit = l
  code : p.code = code0 a
  maxVar : 2 * a.maxVarIndex + 1 ≤ l.maxCode
  vars : a.inputCount + a.latches.length + a.gates.length ≤ a.maxVarIndex
  latches : ∀ x ∈ a.latches, x.next ≤ 2 * a.maxVarIndex + 1
  lits : ∀ x ∈ a.outputs ++ a.bad ++ a.constraints ++ a.justice.flatten ++ a.fairness,
    x ≤ 2 * a.maxVarIndex + 1

theorem parseAig_core (l : LitTy) (hl1 : 1 ≤ l.bits) (lr lr' : LR) (a : OrderedAig)
    (h : (parseAig l).run lr = (.ok a, lr')) : ∃ p lr1, BinCore l lr lr' a p lr1 := by
  obtain ⟨p, lr1, hp, ok, hmax, hvars, hla, hlits⟩ :=
    C06.aig_parse_sizes l (one_le_maxCode l hl1) lr lr' a h
  have pok := Parser.new_post true l lr p lr1 hp
  have hcode := Parser.new_code true l lr p lr1 hp
  simp only [↓reduceIte] at hcode
  unfold parseAig at h
  bind_inv h with p2 lr2 hp2
  rw [hp] at hp2
  cases hp2
  refine ⟨p, lr1, hp, h, ok, pok.lit, ?_, hmax, hvars, hla, hlits⟩
  rw [hcode, ← ok.inputCount]
  rfl

/-- The counter at gate `i` of a parsed binary file is that gate's own literal `2·(I+L+1+i)`, it
has not wrapped, and every code up to it survives the cast to the literal type. -/
theorem BinCore.gateCode {l : LitTy} {lr lr' : LR} {a : OrderedAig} {p : Parser} {lr1 : LR}
    (c : BinCore l lr lr' a p lr1) (hl : l.bits ≤ 64) (i : Nat) (hi : i < a.gates.length) :
    (p.code + 2 * a.latches.length + 2 * i) % 2 ^ 64 =
        2 * (a.inputCount + a.latches.length + 1 + i) ∧
      ∀ x, x ≤ 2 * (a.inputCount + a.latches.length + 1 + i) → l.fromCode x = x := by
  have hmc := maxCode_le l hl
  have hu : usizeMax = 2 ^ 64 - 1 := rfl
  have hmax := c.maxVar
  have hvars := c.vars
  refine ⟨?_, fun x hx => fromCode_of_le l x (2 * a.maxVarIndex + 1) (by omega) hmax⟩
  rw [c.code]
  unfold code0
  omega

/-- **Binary**: a parsed circuit is in the domain of `aig_roundtrip`; in particular the binary
writer's `assert!` holds for each of its gates. -/
theorem parseAig_domain (l : LitTy) (hl1 : 1 ≤ l.bits) (hl : l.bits ≤ 64) (lr lr' : LR)
    (a : OrderedAig) (h : (parseAig l).run lr = (.ok a, lr'))
    (hsize : (binaryBytes a).length < usizeMax) : OrdDomain l a := by
  obtain ⟨p, lr1, c⟩ := parseAig_core l hl1 lr lr' a h
  have hclt : p.code < 2 ^ 64 := by rw [c.code]; exact Nat.mod_lt _ (by decide)
  obtain ⟨hgates, hsyms, hcomment⟩ := parseBinary_conv p hclt lr1 a lr' c.body
  refine { bits := hl, maxVar := c.maxVar, vars := c.vars, latches := c.latches, lits := c.lits,
           gates := ?_, symbols := by rw [orderedHeader_eq c.ok]; exact hsyms, comment := hcomment,
           size := hsize }
  intro i g hig
  have hi : i < a.gates.length := (List.getElem?_eq_some_iff.mp hig).1
  obtain ⟨hci, hfit⟩ := c.gateCode hl i hi
  obtain ⟨c0, c1, e0, e1, h10, h0⟩ := hgates i g hig
  rw [hci] at h0
  rw [c.lit] at e0 e1
  rw [e0, e1, hfit c0 h0, hfit c1 (by omega)]
  exact ⟨h10, h0⟩

/-- **Binary**: `write_ordered_aig` of a parsed circuit emits at most one byte more than was
parsed (it may emit fewer: varints are re-encoded in their shortest form). -/
theorem parseAig_length (l : LitTy) (hl1 : 1 ≤ l.bits) (hl : l.bits ≤ 64) (lr lr' : LR)
    (a : OrderedAig) (h : (parseAig l).run lr = (.ok a, lr')) :
    (binaryBytes a).length ≤ lr.v.rest.length + 1 := by
  obtain ⟨p, lr1, c⟩ := parseAig_core l hl1 lr lr' a h
  have hclt : p.code < 2 ^ 64 := by rw [c.code]; exact Nat.mod_lt _ (by decide)
  obtain ⟨kh, ekh, hhdr⟩ := con_parserNew true l lr p lr1 c.new
  obtain ⟨kb, ekb, ⟨k1, k2, k3, k4, hsum, hl1', hmid, hgates, htail⟩⟩ :=
    con_parseBinary p hclt lr1 a lr' c.body
  have hc0 : code0 a < 2 ^ 64 := Nat.mod_lt _ (by decide)
  have hg : (renderCode gateBytes (endCode (code0 a) a.latches) a.gates).length ≤ k3 := by
    rw [endCode_eq _ _ hc0, ← c.code]
    refine codeAll_render gateBytes a.gates _ k3 (Nat.mod_lt _ (by decide)) hgates ?_
    intro i g kg hig hcost
    have hi : i < a.gates.length := (List.getElem?_eq_some_iff.mp hig).1
    obtain ⟨hci, hfit⟩ := c.gateCode hl i hi
    have e : ((p.code + 2 * a.latches.length) % 2 ^ 64 + 2 * i) % 2 ^ 64 =
        (p.code + 2 * a.latches.length + 2 * i) % 2 ^ 64 := by omega
    rw [e, hci] at hcost ⊢
    obtain ⟨c0, c1, e0, e1, h10, h0, hv⟩ := hcost
    rw [c.lit] at e0 e1
    rw [gateBytes_length, e0, e1, hfit c0 h0, hfit c1 (by omega)]
    exact hv
  rw [c.code] at hl1'
  unfold binaryBytes
  rw [orderedHeader_eq c.ok]
  simp only [List.length_append]
  omega

end Aiger
end Flussab
