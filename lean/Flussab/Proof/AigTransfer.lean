/-
C12: `Renumber::transfer` preserves the invariant; what a successful transfer guarantees.
-/
import Flussab.Proof.AigInv

namespace Flussab.Aig

/-- Every and-gate binding of `defs` is a gate of `a`. -/
def DefsOk (a : Aig) (defs : Defs) : Prop :=
  ∀ k x y, alookup k defs = some (.andGate x y) → (⟨x, y, k⟩ : AndGate) ∈ a.gates

theorem findDef_spec {defs : Defs} {lit : Nat} {d : AndGate} (h : findDef defs lit = some d) :
    lit / 2 = d.out / 2 ∧ alookup d.out defs = some (.andGate d.in0 d.in1) := by
  unfold findDef at h
  simp only at h
  cases h1 : alookup (1 ^^^ lit) defs with
  | some v =>
    cases v with
    | andGate x y =>
      simp only [h1] at h
      injection h with h; subst h
      exact ⟨(one_xor_div lit).symm, h1⟩
    | constant =>
      simp only [h1] at h
      cases h0 : alookup lit defs with
      | some w =>
        cases w with
        | andGate x y => simp only [h0] at h; injection h with h; subst h; exact ⟨rfl, h0⟩
        | constant => simp [h0] at h
        | input i => simp [h0] at h
      | none => simp [h0] at h
    | input i =>
      simp only [h1] at h
      cases h0 : alookup lit defs with
      | some w =>
        cases w with
        | andGate x y => simp only [h0] at h; injection h with h; subst h; exact ⟨rfl, h0⟩
        | constant => simp [h0] at h
        | input i => simp [h0] at h
      | none => simp [h0] at h
  | none =>
    simp only [h1] at h
    cases h0 : alookup lit defs with
    | some w =>
      cases w with
      | andGate x y => simp only [h0] at h; injection h with h; subst h; exact ⟨rfl, h0⟩
      | constant => simp [h0] at h
      | input i => simp [h0] at h
    | none => simp [h0] at h

theorem findDef_mem {a : Aig} {defs : Defs} (hd : DefsOk a defs) {lit : Nat} {d : AndGate}
    (h : findDef defs lit = some d) : d ∈ a.gates ∧ lit / 2 = d.out / 2 := by
  obtain ⟨h1, h2⟩ := findDef_spec h
  exact ⟨hd _ _ _ h2, h1⟩

/-- What a successful `transfer(lit)` guarantees. -/
structure Post (a : Aig) (st : St) (lit t : Nat) (st' : St) : Prop where
  inv : Inv a st'
  ext : Ext st st'
  bound : t ≤ st'.lastCode + 1
  sound : ∀ σ, Consistent a σ → litValL (st'.vals a σ) t = litVal σ lit
  key : st'.litMap.HasKey lit
  ground : Grounded a (lit / 2)

theorem Inv.key_ground {a : Aig} {st : St} (h : Inv a st) {lit : Nat} (hk : st.litMap.HasKey lit) :
    Grounded a (lit / 2) := by
  unfold LitMap.HasKey at hk
  rw [List.mem_map] at hk
  obtain ⟨⟨k, v⟩, hm, hk⟩ := hk
  simp only at hk
  have := h.mapGround k v hm
  rw [hk] at this
  have e : 2 * (lit / 2) / 2 = lit / 2 := by omega
  rw [e] at this; exact this

theorem transfer_post {a : Aig} {defs : Defs} (hd : DefsOk a defs) (cfg : Config) :
    ∀ (fuel : Nat) (path : List Nat) (st : St) (lit t : Nat) (st' : St), Inv a st →
      transfer cfg defs fuel path st lit = .ok (t, st') → Post a st lit t st' := by
  intro fuel
  induction fuel with
  | zero => intro path st lit t st' _ h; simp [transfer] at h
  | succ fuel ih =>
    intro path st lit t st' hinv h
    unfold transfer at h
    split at h
    · -- cached
      rename_i t' hget
      injection h with h; injection h with e1 e2; subst e1; subst e2
      obtain ⟨v, hm, rfl⟩ := LitMap.get_eq_some hget
      have hk : st.litMap.HasKey lit := by
        unfold LitMap.HasKey; rw [List.mem_map]; exact ⟨_, hm, rfl⟩
      exact ⟨hinv, Ext.refl _, xor_bit_le v _ _ (by omega) hinv.code_even (hinv.mapBound _ _ hm),
        fun σ hc => sound_get σ _ lit v (hinv.mapSound σ hc _ _ hm), hk, hinv.key_ground hk⟩
    · split at h
      · exact absurd h (by simp)
      · split at h
        · exact absurd h (by simp)
        · rename_i d hfd
          obtain ⟨hmem, hl⟩ := findDef_mem hd hfd
          split at h
          · rename_i t0 st1 h0
            have p0 := ih _ _ _ _ _ hinv h0
            split at h
            · rename_i t1 st2 h1
              have p1 := ih _ _ _ _ _ p0.inv h1
              injection h with h
              have hfin := finish_inv p1.inv cfg d hmem lit hl t0 t1
                (by have := p0.inv.code_le p1.inv p1.ext; have := p0.bound; omega) p1.bound
                (fun σ hc => by rw [p0.inv.stable p1.ext σ t0 p0.bound]; exact p0.sound σ hc)
                p1.sound p0.ground p1.ground
              rw [h] at hfin
              obtain ⟨f1, f2, f3, f4, f5⟩ := hfin
              have hgr : Grounded a (lit / 2) := by
                rw [hl]; exact Grounded.gate d hmem p0.ground p1.ground
              exact ⟨f1, (p0.ext.trans p1.ext).trans f2, f3, f4, f5, hgr⟩
            · exact absurd h (by simp)
            · exact absurd h (by simp)
          · exact absurd h (by simp)
          · exact absurd h (by simp)

theorem transferAll_post {a : Aig} {defs : Defs} (hd : DefsOk a defs) (cfg : Config) (fuel : Nat) :
    ∀ (lits : List Nat) (st st' : St), Inv a st → transferAll cfg defs fuel lits st = .ok st' →
      Inv a st' ∧ Ext st st' ∧ ∀ l ∈ lits, st'.litMap.HasKey l := by
  intro lits
  induction lits with
  | nil =>
    intro st st' hinv h
    simp only [transferAll] at h
    injection h with h; subst h
    exact ⟨hinv, Ext.refl _, by simp⟩
  | cons l rest ih =>
    intro st st' hinv h
    simp only [transferAll] at h
    split at h
    · rename_i t st1 h1
      have p := transfer_post hd cfg _ _ _ _ _ _ hinv h1
      obtain ⟨i1, i2, i3⟩ := ih _ _ p.inv h
      refine ⟨i1, p.ext.trans i2, ?_⟩
      intro l' hl'
      rcases List.mem_cons.mp hl' with rfl | hl'
      · exact i2.keys _ p.key
      · exact i3 l' hl'
    · exact absurd h (by simp)
    · exact absurd h (by simp)

end Flussab.Aig
