/-
Helper lemmas for C12 (AIG renumbering): parity arithmetic of literal codes, association lists,
`LitMap`, forward evaluation of ordered gate lists.
-/
import Flussab.Model.Aig

namespace Flussab.Aig

/-! ### xor with a polarity bit -/

theorem xor_bit_div (v b : Nat) (hb : b < 2) : (v ^^^ b) / 2 = v / 2 := by
  rw [Nat.xor_div_two]
  have : b / 2 = 0 := by omega
  rw [this, Nat.xor_zero]

theorem xor_bit_mod (v b : Nat) (hb : b < 2) : (v ^^^ b) % 2 = (v % 2 + b) % 2 := by
  have h := @Nat.xor_mod_two_eq_one v b
  have h1 : (v ^^^ b) % 2 = 0 ∨ (v ^^^ b) % 2 = 1 := by omega
  rcases h1 with h1 | h1
  · have : ¬ ((v ^^^ b) % 2 = 1) := by omega
    rw [h] at this
    omega
  · have h2 := h.mp h1
    omega

theorem one_xor_div (v : Nat) : (1 ^^^ v) / 2 = v / 2 := by
  rw [Nat.xor_comm]; exact xor_bit_div v 1 (by omega)

theorem one_xor_mod (v : Nat) : (1 ^^^ v) % 2 = (v % 2 + 1) % 2 := by
  rw [Nat.xor_comm]; exact xor_bit_mod v 1 (by omega)

theorem eq_of_div_mod {a b : Nat} (h1 : a / 2 = b / 2) (h2 : a % 2 = b % 2) : a = b := by omega

/-- `x ^ lit ^ out` when `out` is `lit` or `lit ^ 1`: only the polarity of `x` changes. -/
theorem xor3_div (x lit out : Nat) (h : lit / 2 = out / 2) : (x ^^^ lit ^^^ out) / 2 = x / 2 := by
  rw [Nat.xor_div_two, Nat.xor_div_two, h, Nat.xor_assoc, Nat.xor_self, Nat.xor_zero]

theorem xor_mod2 (a b : Nat) : (a ^^^ b) % 2 = (a % 2 + b % 2) % 2 := by
  have h := @Nat.xor_mod_two_eq_one a b
  have h1 : (a ^^^ b) % 2 = 0 ∨ (a ^^^ b) % 2 = 1 := by omega
  rcases h1 with h1 | h1
  · have : ¬ ((a ^^^ b) % 2 = 1) := by omega
    rw [h] at this
    omega
  · have h2 := h.mp h1
    omega

theorem xor3_mod (x lit out : Nat) : (x ^^^ lit ^^^ out) % 2 = (x % 2 + lit % 2 + out % 2) % 2 := by
  rw [xor_mod2, xor_mod2]; omega

theorem xor_bit_le (v b c : Nat) (hb : b < 2) (hc : c % 2 = 0) (hv : v ≤ c + 1) : v ^^^ b ≤ c + 1 := by
  have h1 := xor_bit_div v b hb
  omega

theorem xor3_le (x lit out c : Nat) (h : lit / 2 = out / 2) (hc : c % 2 = 0) (hx : x ≤ c + 1) :
    x ^^^ lit ^^^ out ≤ c + 1 := by
  have h1 := xor3_div x lit out h
  omega

/-! ### literal values -/

theorem litVal_def (f : Nat → Bool) (lit : Nat) : litVal f lit = (f (lit / 2) != (lit % 2 == 1)) := rfl

theorem litVal_of (f : Nat → Bool) {a b : Nat} (h1 : a / 2 = b / 2) (h2 : a % 2 = b % 2) :
    litVal f a = litVal f b := by rw [eq_of_div_mod h1 h2]

theorem litValL_of (vals : List Bool) {a b : Nat} (h1 : a / 2 = b / 2) (h2 : a % 2 = b % 2) :
    litValL vals a = litValL vals b := by rw [eq_of_div_mod h1 h2]

/-- Flipping polarity on both sides. -/
theorem litVal_xor_bit (f : Nat → Bool) (v b : Nat) (hb : b < 2) :
    litVal f (v ^^^ b) = (litVal f v != (b == 1)) := by
  unfold litVal
  rw [xor_bit_div v b hb, xor_bit_mod v b hb]
  have : b = 0 ∨ b = 1 := by omega
  rcases this with rfl | rfl
  · simp
  · have : v % 2 = 0 ∨ v % 2 = 1 := by omega
    rcases this with h | h <;> simp [h]

theorem litValL_xor_bit (vals : List Bool) (v b : Nat) (hb : b < 2) :
    litValL vals (v ^^^ b) = (litValL vals v != (b == 1)) := by
  unfold litValL
  rw [xor_bit_div v b hb, xor_bit_mod v b hb]
  have : b = 0 ∨ b = 1 := by omega
  rcases this with rfl | rfl
  · simp
  · have : v % 2 = 0 ∨ v % 2 = 1 := by omega
    rcases this with h | h <;> simp [h]

theorem litVal_even (f : Nat → Bool) (lit : Nat) :
    litVal f (2 * (lit / 2)) = (litVal f lit != (lit % 2 == 1)) := by
  unfold litVal
  have h1 : 2 * (lit / 2) / 2 = lit / 2 := by omega
  have h2 : 2 * (lit / 2) % 2 = 0 := by omega
  rw [h1, h2]
  have : lit % 2 = 0 ∨ lit % 2 = 1 := by omega
  rcases this with h | h <;> simp [h]

/-- The key identity behind `LitMap`: storing `value ^ (key & 1)` under `key & !1` is sound iff
`value` is sound for `key`. -/
theorem sound_insert (f : Nat → Bool) (vals : List Bool) (key value : Nat)
    (h : litValL vals value = litVal f key) :
    litValL vals (value ^^^ (key % 2)) = litVal f (2 * (key / 2)) := by
  rw [litValL_xor_bit _ _ _ (by omega), litVal_even, h]

theorem sound_get (f : Nat → Bool) (vals : List Bool) (key v : Nat)
    (h : litValL vals v = litVal f (2 * (key / 2))) :
    litValL vals (v ^^^ (key % 2)) = litVal f key := by
  rw [litValL_xor_bit _ _ _ (by omega), h, litVal_even]
  cases litVal f key <;> cases (key % 2 == 1) <;> rfl

/-- The returned literal `new ^ lit ^ out` has the value of `lit` if `new` has the value of `out`. -/
theorem sound_xor3 (f : Nat → Bool) (vals : List Bool) (x lit out : Nat) (h : lit / 2 = out / 2)
    (hx : litValL vals x = litVal f out) : litValL vals (x ^^^ lit ^^^ out) = litVal f lit := by
  unfold litValL litVal at *
  rw [xor3_div x lit out h, xor3_mod, h]
  have h1 : x % 2 = 0 ∨ x % 2 = 1 := by omega
  have h2 : lit % 2 = 0 ∨ lit % 2 = 1 := by omega
  have h3 : out % 2 = 0 ∨ out % 2 = 1 := by omega
  rcases h1 with h1 | h1 <;> rcases h2 with h2 | h2 <;> rcases h3 with h3 | h3 <;>
    simp [h1, h2, h3] at hx ⊢ <;> simp [hx]

/-! ### association lists -/

theorem alookup_mem {β : Type} {k : Nat} {l : List (Nat × β)} {v : β} (h : alookup k l = some v) :
    (k, v) ∈ l := by
  induction l with
  | nil => simp [alookup] at h
  | cons x rest ih =>
    obtain ⟨k', v'⟩ := x
    simp only [alookup] at h
    by_cases hk : k = k'
    · simp only [hk, if_true, Option.some.injEq] at h
      simp [hk, h]
    · simp only [hk, if_false] at h
      exact List.mem_cons_of_mem _ (ih h)

theorem alookup_isSome_iff {β : Type} (k : Nat) (l : List (Nat × β)) :
    (alookup k l).isSome = true ↔ k ∈ l.map (·.1) := by
  induction l with
  | nil => simp [alookup]
  | cons x rest ih =>
    obtain ⟨k', v'⟩ := x
    simp only [alookup, List.map_cons, List.mem_cons]
    by_cases hk : k = k'
    · simp [hk]
    · simp only [hk, if_false, false_or]; exact ih

theorem alookup_none_iff {β : Type} (k : Nat) (l : List (Nat × β)) :
    alookup k l = none ↔ k ∉ l.map (·.1) := by
  rw [← alookup_isSome_iff]
  cases alookup k l <;> simp

theorem ilookup_mem {g : OGate} {l : List (OGate × Nat)} {v : Nat} (h : ilookup g l = some v) :
    (g, v) ∈ l := by
  induction l with
  | nil => simp [ilookup] at h
  | cons x rest ih =>
    obtain ⟨g', v'⟩ := x
    simp only [ilookup] at h
    by_cases hk : g = g'
    · simp only [hk, if_true, Option.some.injEq] at h
      simp [hk, h]
    · simp only [hk, if_false] at h
      exact List.mem_cons_of_mem _ (ih h)

/-! ### `LitMap` -/

theorem LitMap.get_eq_some {m : LitMap} {key t : Nat} (h : m.get key = some t) :
    ∃ v, (2 * (key / 2), v) ∈ m ∧ t = v ^^^ (key % 2) := by
  unfold LitMap.get at h
  cases hl : alookup (2 * (key / 2)) m with
  | none => simp [hl] at h
  | some v =>
    simp only [hl, Option.map_some, Option.some.injEq] at h
    exact ⟨v, alookup_mem hl, h.symm⟩

/-- `key`'s variable has a binding. -/
def LitMap.HasKey (m : LitMap) (key : Nat) : Prop := 2 * (key / 2) ∈ m.map (·.1)

theorem LitMap.get_isSome_iff (m : LitMap) (key : Nat) : (m.get key).isSome = true ↔ m.HasKey key := by
  unfold LitMap.get LitMap.HasKey
  rw [Option.isSome_map, alookup_isSome_iff]

theorem LitMap.get_none_iff (m : LitMap) (key : Nat) : m.get key = none ↔ ¬ m.HasKey key := by
  rw [← LitMap.get_isSome_iff]; cases m.get key <;> simp

theorem LitMap.hasKey_insert_self (m : LitMap) (key value : Nat) : (m.insert key value).HasKey key := by
  simp [LitMap.HasKey, LitMap.insert]

theorem LitMap.hasKey_insert_of_var (m : LitMap) (key key' value : Nat) (h : key / 2 = key' / 2) :
    (m.insert key value).HasKey key' := by
  simp [LitMap.HasKey, LitMap.insert, h]

theorem LitMap.hasKey_insert_of (m : LitMap) (key value k : Nat) (h : m.HasKey k) :
    (m.insert key value).HasKey k := by
  simp only [LitMap.HasKey, LitMap.insert, List.map_cons, List.mem_cons]
  exact Or.inr h

theorem LitMap.hasKey_of_var {m : LitMap} {k k' : Nat} (h : k / 2 = k' / 2) (hk : m.HasKey k) :
    m.HasKey k' := by
  unfold LitMap.HasKey at *; rw [← h]; exact hk

/-! ### evaluation of ordered gate lists -/

theorem evalGates_append (g1 g2 : List OGate) (vals : List Bool) :
    evalGates (g1 ++ g2) vals = evalGates g2 (evalGates g1 vals) := by
  induction g1 generalizing vals with
  | nil => rfl
  | cons g rest ih => simp only [List.cons_append, evalGates]; exact ih _

theorem evalGates_prefix (gs : List OGate) (vals : List Bool) :
    ∃ ext, evalGates gs vals = vals ++ ext ∧ ext.length = gs.length := by
  induction gs generalizing vals with
  | nil => exact ⟨[], by simp [evalGates]⟩
  | cons g rest ih =>
    obtain ⟨ext, h1, h2⟩ := ih (vals ++ [litValL vals g.in0 && litValL vals g.in1])
    refine ⟨(litValL vals g.in0 && litValL vals g.in1) :: ext, ?_, by simp [h2]⟩
    simp only [evalGates, h1, List.append_assoc, List.singleton_append]

theorem evalGates_length (gs : List OGate) (vals : List Bool) :
    (evalGates gs vals).length = vals.length + gs.length := by
  obtain ⟨ext, h1, h2⟩ := evalGates_prefix gs vals
  rw [h1, List.length_append, h2]

theorem litValL_append (vals ext : List Bool) (v : Nat) (h : v / 2 < vals.length) :
    litValL (vals ++ ext) v = litValL vals v := by
  unfold litValL
  simp only [List.getD_eq_getElem?_getD]
  rw [List.getElem?_append_left h]

/-- Appending gates never changes the value of an already numbered literal. -/
theorem litValL_evalGates_append (g1 g2 : List OGate) (base : List Bool) (v : Nat)
    (h : v / 2 < base.length + g1.length) :
    litValL (evalGates (g1 ++ g2) base) v = litValL (evalGates g1 base) v := by
  rw [evalGates_append]
  obtain ⟨ext, h1, _⟩ := evalGates_prefix g2 (evalGates g1 base)
  rw [h1]
  apply litValL_append
  rw [evalGates_length]; exact h

/-- The value of a freshly pushed gate. -/
theorem litValL_evalGates_snoc (gs : List OGate) (g : OGate) (base : List Bool) (c : Nat)
    (hc : c / 2 = base.length + gs.length) (hc2 : c % 2 = 0) :
    litValL (evalGates (gs ++ [g]) base) c =
      (litValL (evalGates gs base) g.in0 && litValL (evalGates gs base) g.in1) := by
  rw [evalGates_append]
  simp only [evalGates]
  unfold litValL
  rw [hc, hc2]
  simp only [List.getD_eq_getElem?_getD]
  rw [List.getElem?_append_right (by rw [evalGates_length]; exact Nat.le_refl _)]
  simp [evalGates_length]

end Flussab.Aig
