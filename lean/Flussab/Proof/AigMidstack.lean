/-
C12: the mid-stack cycle test.  On *every* graph the stack of `transfer` stays below
`2·gates + 2` entries: the stacked literals form a chain whose successor is determined by the
variable, so after the first repeated variable the chain is periodic and `stack[n] = stack[n/2]`
fires.  Hence the default fuel is never exhausted, cyclic graphs included.
-/
import Flussab.Proof.AigComplete

namespace Flussab.Aig

/-! ### the mid-stack cycle test: a pure lemma about lists -/

theorem exists_dup_of_not_nodup {l : List Nat} (h : ¬ l.Nodup) :
    ∃ i j, i < j ∧ ∃ (hj : j < l.length) (hi : i < l.length), l[i] = l[j] := by
  induction l with
  | nil => exact absurd List.nodup_nil h
  | cons a rest ih =>
    rw [List.nodup_cons] at h
    have h : a ∈ rest ∨ ¬ rest.Nodup := by
      by_cases hm : a ∈ rest
      · exact Or.inl hm
      · exact Or.inr (fun hn => h ⟨hm, hn⟩)
    rcases h with hm | h
    · skip
      obtain ⟨j, hj, he⟩ := List.getElem_of_mem hm
      exact ⟨0, j + 1, by omega, by simp; omega, by simp, by simp [he]⟩
    · obtain ⟨i, j, hij, hj, hi, he⟩ := ih h
      exact ⟨i + 1, j + 1, by omega, by simp; omega, by simp; omega, by simpa using he⟩

/-- If the successor of a stacked literal is determined by its variable, the stacked literals
with a successor range over at most `S.length` variables, and the test `stack[n] = stack[n/2]`
never fired, then the stack holds at most `2·S.length + 1` literals. -/
theorem midstack_bound (L S : List Nat) (nxt : Nat → Nat → Prop)
    (hdet : ∀ x x' y y', x / 2 = x' / 2 → nxt x y → nxt x' y' → y = y')
    (hchain : ∀ i (h : i + 1 < L.length), nxt L[i] L[i + 1])
    (hvars : ∀ i (_ : i + 1 < L.length) (h' : i < L.length), L[i] / 2 ∈ S)
    (hnohit : ∀ n, 1 ≤ n → ∀ (h : n < L.length), L[n] ≠ L[n / 2]) :
    L.length ≤ 2 * S.length + 1 := by
  apply Classical.byContradiction
  intro hlen
  have hlen : 2 * S.length + 2 ≤ L.length := by omega
  -- the variables of the first `S.length + 1` literals cannot be distinct
  let V := (L.take (S.length + 1)).map (· / 2)
  have hVlen : V.length = S.length + 1 := by simp [V]; omega
  have hVsub : ∀ x ∈ V, x ∈ S := by
    intro x hx
    simp only [V, List.mem_map] at hx
    obtain ⟨y, hy, rfl⟩ := hx
    obtain ⟨i, hi, rfl⟩ := List.getElem_of_mem hy
    simp only [List.length_take] at hi
    rw [List.getElem_take]
    exact hvars i (by omega) (by omega)
  have hVdup : ¬ V.Nodup := by
    intro hn
    have := hn.length_le_of_subset hVsub
    omega
  obtain ⟨i, j, hij, hj, hi, he⟩ := exists_dup_of_not_nodup hVdup
  rw [hVlen] at hj hi
  have he' : L[i]'(by omega) / 2 = L[j]'(by omega) / 2 := by
    simp only [V, List.getElem_map, List.getElem_take] at he
    exact he
  -- periodicity from index i+1 with period c = j - i
  have hper : ∀ k, ∀ (h : j + 1 + k < L.length), L[i + 1 + k]'(by omega) = L[j + 1 + k] := by
    intro k
    induction k with
    | zero =>
      intro h
      exact hdet _ _ _ _ he' (hchain i (by omega)) (hchain j (by omega))
    | succ k ih =>
      intro h
      have e := ih (by omega)
      have c1 := hchain (i + 1 + k) (by omega)
      have c2 := hchain (j + 1 + k) (by omega)
      have : L[i + 1 + k + 1]'(by omega) = L[j + 1 + k + 1]'(by omega) :=
        hdet _ _ _ _ (by rw [e]) c1 c2
      simpa [Nat.add_assoc] using this
  have hc : 0 < j - i := by omega
  have hper' : ∀ m, i + 1 ≤ m → ∀ (h : m + (j - i) < L.length), L[m + (j - i)] = L[m]'(by omega) := by
    intro m hm h
    have := hper (m - (i + 1)) (by omega)
    have e1 : i + 1 + (m - (i + 1)) = m := by omega
    have e2 : j + 1 + (m - (i + 1)) = m + (j - i) := by omega
    simp only [e1, e2] at this
    exact this.symm
  have hq : ∀ q m, i + 1 ≤ m → ∀ (h : m + q * (j - i) < L.length), L[m + q * (j - i)] = L[m]'(by
      have := Nat.le_add_right m (q * (j - i)); omega) := by
    intro q
    induction q with
    | zero => intro m _ h; simp
    | succ q ih =>
      intro m hm h
      have e : m + (q + 1) * (j - i) = (m + q * (j - i)) + (j - i) := by
        rw [Nat.succ_mul]; omega
      have h' : (m + q * (j - i)) + (j - i) < L.length := by omega
      have s1 := hper' (m + q * (j - i)) (by have := Nat.le_add_right m (q * (j - i)); omega) h'
      have s2 := ih m hm (by omega)
      simp only [e]
      rw [s1, s2]
  -- a multiple of the period in [i+1, j]
  let q := j / (j - i)
  have hdm := Nat.div_add_mod j (j - i)
  have hml := Nat.mod_lt j hc
  have hks : (j - i) * q + j % (j - i) = j := hdm
  have hcomm : q * (j - i) = (j - i) * q := Nat.mul_comm _ _
  have hk1 : i + 1 ≤ q * (j - i) := by omega
  have hk2 : q * (j - i) ≤ j := by omega
  have hfin := hq q (q * (j - i)) hk1 (by omega)
  have hn := hnohit (q * (j - i) + q * (j - i)) (by omega) (by omega)
  apply hn
  have e2 : (q * (j - i) + q * (j - i)) / 2 = q * (j - i) := by omega
  simp only [e2]
  exact hfin


theorem DepPlus.trans {a : Aig} {u v w : Nat} (h1 : DepPlus a u v) (h2 : DepPlus a v w) : DepPlus a u w := by
  induction h1 with
  | single d => exact DepPlus.cons d h2
  | cons d _ ih => exact DepPlus.cons d (ih h2)

theorem DepStar.step {a : Aig} {u v w : Nat} (d : Dep a u v) (h : DepStar a v w) : DepStar a u w := by
  rcases h with rfl | h
  · exact Or.inr (DepPlus.single d)
  · exact Or.inr (DepPlus.cons d h)

/-! ### keys added by a transfer are reachable from its literal -/

theorem finish_keys (cfg : Config) (st : St) (lit out t0 t1 k : Nat)
    (h : (finish cfg st lit out t0 t1).2.litMap.HasKey k) : out / 2 = k / 2 ∨ st.litMap.HasKey k := by
  unfold finish at h
  rcases hs : sort2 t0 t1 with ⟨x, y⟩
  rw [hs] at h
  simp only at h
  split at h
  · exact (LitMap.hasKey_insert_iff _ _ _ _).mp h
  · split at h
    · split at h
      · exact (LitMap.hasKey_insert_iff _ _ _ _).mp h
      · exact (LitMap.hasKey_insert_iff _ _ _ _).mp h
    · exact (LitMap.hasKey_insert_iff _ _ _ _).mp h

theorem transfer_newkeys {a : Aig} {defs : Defs} (hd : DefsOk a defs) (cfg : Config) :
    ∀ (fuel : Nat) (path : List Nat) (st : St) (lit t : Nat) (st' : St),
      transfer cfg defs fuel path st lit = .ok (t, st') →
      ∀ k, st'.litMap.HasKey k → st.litMap.HasKey k ∨ DepStar a (lit / 2) (k / 2) := by
  intro fuel
  induction fuel with
  | zero => intro path st lit t st' h; simp [transfer] at h
  | succ fuel ih =>
    intro path st lit t st' h k hk
    unfold transfer at h
    split at h
    · injection h with h; injection h with _ e2; subst e2; exact Or.inl hk
    · split at h
      · exact absurd h (by simp)
      · split at h
        · exact absurd h (by simp)
        · rename_i d hfd
          obtain ⟨hmem, hl⟩ := findDef_mem hd hfd
          split at h
          · rename_i t0 st1 h0
            split at h
            · rename_i t1 st2 h1
              injection h with h
              have hst : st' = (finish cfg st2 lit d.out t0 t1).2 := by rw [h]
              rw [hst] at hk
              rcases finish_keys _ _ _ _ _ _ _ hk with hk | hk
              · exact Or.inr (Or.inl (by omega))
              · rcases ih _ _ _ _ _ h1 k hk with hk | hk
                · rcases ih _ _ _ _ _ h0 k hk with hk | hk
                  · exact Or.inl hk
                  · exact Or.inr (DepStar.step ⟨d, hmem, hl.symm, Or.inl rfl⟩ hk)
                · exact Or.inr (DepStar.step ⟨d, hmem, hl.symm, Or.inr rfl⟩ hk)
            · exact absurd h (by simp)
            · exact absurd h (by simp)
          · exact absurd h (by simp)
          · exact absurd h (by simp)

/-! ### the successor of a stacked literal is determined by its variable -/

theorem findDef_var {a : Aig} {defs : Defs} (hd : DefsOk a defs) (hf : DefsFull a defs)
    (hn : (definedVars a).Nodup) {x x' : Nat} {d : AndGate} (h : findDef defs x = some d)
    (hx : x / 2 = x' / 2) : ∃ d', findDef defs x' = some d' ∧ d' = d := by
  obtain ⟨hmem, hl⟩ := findDef_mem hd h
  obtain ⟨d', hd'⟩ := findDef_complete hf hmem (lit := x') (by omega)
  obtain ⟨hmem', hl'⟩ := findDef_mem hd hd'
  exact ⟨d', hd', (gate_var_unique hn hmem).2.2.2 d' hmem' (by omega)⟩

/-- `y` is the literal `transfer` descends into from the stacked literal `x` in state `st`. -/
def NextOK (defs : Defs) (st : St) (x y : Nat) : Prop :=
  ∃ d, findDef defs x = some d ∧
    ((y = d.in0 ∧ ¬ st.litMap.HasKey d.in0) ∨ (y = d.in1 ∧ st.litMap.HasKey d.in0))

theorem NextOK.det {a : Aig} {defs : Defs} (hd : DefsOk a defs) (hf : DefsFull a defs)
    (hn : (definedVars a).Nodup) {st : St} {x x' y y' : Nat} (hx : x / 2 = x' / 2)
    (h : NextOK defs st x y) (h' : NextOK defs st x' y') : y = y' := by
  obtain ⟨d, hd1, hy⟩ := h
  obtain ⟨d', hd1', hy'⟩ := h'
  obtain ⟨d'', e1, e2⟩ := findDef_var hd hf hn hd1 hx
  rw [hd1'] at e1; injection e1 with e1; subst e1; subst e2
  rcases hy with ⟨rfl, k⟩ | ⟨rfl, k⟩ <;> rcases hy' with ⟨rfl, k'⟩ | ⟨rfl, k'⟩
  · rfl
  · exact absurd k' k
  · exact absurd k k'
  · rfl

/-! ### the stack invariant -/

theorem NextOK.mono {defs : Defs} {st st' : St} {x y : Nat} (h : NextOK defs st x y)
    (hk : ∀ k, st.litMap.HasKey k → st'.litMap.HasKey k) (hy : ¬ st'.litMap.HasKey y) :
    NextOK defs st' x y := by
  obtain ⟨d, hd, h⟩ := h
  refine ⟨d, hd, ?_⟩
  rcases h with ⟨rfl, _⟩ | ⟨rfl, k⟩
  · exact Or.inl ⟨rfl, hy⟩
  · exact Or.inr ⟨rfl, hk _ k⟩

theorem snoc_getElem_lt (path : List Nat) (lit i : Nat) (h : i < path.length) :
    (path ++ [lit])[i]'(by simp; omega) = path[i] := List.getElem_append_left h

theorem snoc_getElem_eq (path : List Nat) (lit : Nat) :
    (path ++ [lit])[path.length]'(by simp) = lit := by
  rw [List.getElem_append_right (Nat.le_refl _)]; simp

/-- Invariant of the continuation stack (`path`) while `lit` is being transferred in state `st`. -/
structure PathInv (a : Aig) (defs : Defs) (path : List Nat) (lit : Nat) (st : St) : Prop where
  dep : ∀ p ∈ path, DepPlus a (p / 2) (lit / 2)
  nokey : ∀ p ∈ path, ¬ st.litMap.HasKey p
  nohit : ∀ n, 1 ≤ n → ∀ (h : n < path.length), path[n] ≠ path[n / 2]
  chain : ∀ i (h : i + 1 < path.length), NextOK defs st path[i] path[i + 1]
  last : ¬ st.litMap.HasKey lit → ∀ (h : 0 < path.length), NextOK defs st path[path.length - 1] lit

theorem PathInv.nil (a : Aig) (defs : Defs) (lit : Nat) (st : St) : PathInv a defs [] lit st :=
  ⟨by simp, by simp, fun n _ h => absurd h (by simp), fun i h => absurd h (by simp),
   fun _ h => absurd h (by simp)⟩

theorem PathInv.length_le {a : Aig} {defs : Defs} (hd : DefsOk a defs) (hf : DefsFull a defs)
    (hn : (definedVars a).Nodup) {path : List Nat} {lit : Nat} {st : St}
    (h : PathInv a defs path lit st) : path.length ≤ 2 * a.gates.length + 1 := by
  have := midstack_bound path (a.gates.map (·.out / 2)) (NextOK defs st)
    (fun x x' y y' hx h1 h2 => NextOK.det hd hf hn hx h1 h2) h.chain
    (by
      intro i hi hi'
      obtain ⟨d, hfd, _⟩ := h.chain i hi
      obtain ⟨hmem, hl⟩ := findDef_mem hd hfd
      exact List.mem_map.mpr ⟨d, hmem, hl.symm⟩)
    h.nohit
  rw [List.length_map] at this
  exact this

/-- Pushing `lit` and descending into one of its inputs `x`, possibly in a later state `st'`. -/
theorem PathInv.snoc {a : Aig} {defs : Defs} {path : List Nat} {lit : Nat} {st : St}
    (h : PathInv a defs path lit st) (hnk : ¬ st.litMap.HasKey lit)
    (hnc : ¬ (path[path.length / 2]? = some lit)) {d : AndGate} (hmem : d ∈ a.gates)
    (hl : lit / 2 = d.out / 2) (x : Nat) (hx : x = d.in0 ∨ x = d.in1) (st' : St)
    (hkeys : ∀ k, st.litMap.HasKey k → st'.litMap.HasKey k)
    (hnokey : ∀ p ∈ path ++ [lit], ¬ st'.litMap.HasKey p)
    (hlast : ¬ st'.litMap.HasKey x → NextOK defs st' lit x) :
    PathInv a defs (path ++ [lit]) x st' := by
  have hdep : Dep a (lit / 2) (x / 2) := by
    refine ⟨d, hmem, hl.symm, ?_⟩
    rcases hx with rfl | rfl
    · exact Or.inl rfl
    · exact Or.inr rfl
  have hlen : (path ++ [lit]).length = path.length + 1 := by simp
  refine ⟨?_, hnokey, ?_, ?_, ?_⟩
  · intro p hp
    rcases List.mem_append.mp hp with hp | hp
    · exact (h.dep p hp).snoc hdep
    · simp only [List.mem_singleton] at hp; subst hp; exact DepPlus.single hdep
  · intro n hn1 hlt
    rw [hlen] at hlt
    by_cases hn : n < path.length
    · rw [snoc_getElem_lt _ _ _ hn, snoc_getElem_lt _ _ _ (by omega)]
      exact h.nohit n hn1 hn
    · have e : n = path.length := by omega
      subst e
      rw [snoc_getElem_eq, snoc_getElem_lt _ _ _ (by omega)]
      intro he
      apply hnc
      rw [List.getElem?_eq_getElem (by omega)]
      exact congrArg some he.symm
  · intro i hi
    rw [hlen] at hi
    by_cases hlt : i + 1 < path.length
    · rw [snoc_getElem_lt _ _ _ (by omega), snoc_getElem_lt _ _ _ hlt]
      exact (h.chain i hlt).mono hkeys (hnokey _ (List.mem_append.mpr (Or.inl (List.getElem_mem hlt))))
    · have e : i + 1 = path.length := by omega
      have e' : i = path.length - 1 := by omega
      have := h.last hnk (by omega)
      have g1 : (path ++ [lit])[i]'(by omega) = path[path.length - 1]'(by omega) := by
        rw [snoc_getElem_lt _ _ _ (by omega)]; simp only [e']
      have g2 : (path ++ [lit])[i + 1]'(by omega) = lit := by
        simp only [e]; exact snoc_getElem_eq path lit
      rw [g1, g2]
      exact this.mono hkeys (hnokey _ (by simp))
  · intro hxk hpos
    have g : (path ++ [lit])[(path ++ [lit]).length - 1]'(by omega) = lit := by
      simp only [hlen, Nat.add_sub_cancel]; exact snoc_getElem_eq path lit
    rw [g]
    exact hlast hxk

/-- **No input exhausts the default fuel.** -/
theorem transfer_total {a : Aig} {defs : Defs} (hd : DefsOk a defs) (hf : DefsFull a defs)
    (hn : (definedVars a).Nodup) (cfg : Config) :
    ∀ (fuel : Nat) (path : List Nat) (st : St) (lit : Nat), Inv a st → PathInv a defs path lit st →
      2 * a.gates.length + 3 ≤ fuel + path.length →
      transfer cfg defs fuel path st lit ≠ .outOfFuel := by
  intro fuel
  induction fuel with
  | zero =>
    intro path st lit _ hp hlen
    have := hp.length_le hd hf hn
    omega
  | succ fuel ih =>
    intro path st lit hinv hp hlen
    unfold transfer
    cases hget : st.litMap.get lit with
    | some t => simp
    | none =>
      simp only
      have hnk : ¬ st.litMap.HasKey lit := (LitMap.get_none_iff _ _).mp hget
      by_cases hnc : path[path.length / 2]? = some lit
      · rw [if_pos hnc]; simp
      · rw [if_neg hnc]
        cases hfd : findDef defs lit with
        | none => simp
        | some d =>
          simp only
          obtain ⟨hmem, hl⟩ := findDef_mem hd hfd
          have hnokey0 : ∀ p ∈ path ++ [lit], ¬ st.litMap.HasKey p := by
            intro p hpm
            rcases List.mem_append.mp hpm with hpm | hpm
            · exact hp.nokey p hpm
            · simp only [List.mem_singleton] at hpm; subst hpm; exact hnk
          have p1 := hp.snoc hnk hnc hmem hl d.in0 (Or.inl rfl) st (fun _ h => h) hnokey0
            (fun hk => ⟨d, hfd, Or.inl ⟨rfl, hk⟩⟩)
          have r1 := ih (path ++ [lit]) st d.in0 hinv p1 (by simp; omega)
          cases e0 : transfer cfg defs fuel (path ++ [lit]) st d.in0 with
          | outOfFuel => exact absurd e0 r1
          | error e => simp
          | ok r =>
            obtain ⟨t0, st1⟩ := r
            simp only
            have post0 := transfer_post hd cfg _ _ _ _ _ _ hinv e0
            have hnokey1 : ∀ p ∈ path ++ [lit], ¬ st1.litMap.HasKey p := by
              intro p hpm hk1
              rcases transfer_newkeys hd cfg _ _ _ _ _ _ e0 p hk1 with hk | hk
              · exact hnokey0 p hpm hk
              · have hgr := post0.inv.key_ground hk1
                have hdp := p1.dep p hpm
                have hcyc : DepPlus a (p / 2) (p / 2) := by
                  rcases hk with hk | hk
                  · rw [hk] at hdp; exact hdp
                  · exact hdp.trans hk
                exact hgr.not_onCycle hn hcyc
            have p2 := hp.snoc hnk hnc hmem hl d.in1 (Or.inr rfl) st1 post0.ext.keys hnokey1
              (fun _ => ⟨d, hfd, Or.inr ⟨rfl, post0.key⟩⟩)
            have r2 := ih (path ++ [lit]) st1 d.in1 post0.inv p2 (by simp; omega)
            cases e1 : transfer cfg defs fuel (path ++ [lit]) st1 d.in1 with
            | outOfFuel => exact absurd e1 r2
            | error e => simp
            | ok r => simp

theorem transferAll_total {a : Aig} {defs : Defs} (hd : DefsOk a defs) (hf : DefsFull a defs)
    (hn : (definedVars a).Nodup) (cfg : Config) (fuel : Nat) (hfuel : 2 * a.gates.length + 3 ≤ fuel) :
    ∀ (lits : List Nat) (st : St), Inv a st → transferAll cfg defs fuel lits st ≠ .outOfFuel := by
  intro lits
  induction lits with
  | nil => intro st _; simp [transferAll]
  | cons l rest ih =>
    intro st hinv
    simp only [transferAll]
    have r := transfer_total hd hf hn cfg fuel [] st l hinv (PathInv.nil a defs l st) (by simp; omega)
    cases e : transfer cfg defs fuel [] st l with
    | outOfFuel => exact absurd e r
    | error e => simp
    | ok r =>
      obtain ⟨t, st1⟩ := r
      simp only
      exact ih st1 (transfer_post hd cfg _ _ _ _ _ _ hinv e).inv

/-- With the default fuel the model never reports `outOfFuel`, whatever the graph. -/
theorem renumber_total {cfg : Config} {a : Aig} {fuel : Nat} (hfuel : 2 * a.gates.length + 3 ≤ fuel) :
    renumber cfg a fuel ≠ .outOfFuel := by
  unfold renumber initState
  cases h1 : litDefs a with
  | error e => simp
  | ok defs =>
    cases h2 : initLatches defs a.latches (initInputs a.inputs St.init) with
    | error e => simp [h2]
    | ok st0 =>
      have hn := init_nodup h1 h2
      have i0 : Inv a st0 :=
        (initLatches_inv a.latches [] _ _ (by simp)
          (by simpa using initInputs_inv (a := a) a.inputs [] St.init (by simp) (initInv_init a)) h2).toInv
      have := transferAll_total (litDefs_defsOk h1) (litDefs_defsFull h1) hn cfg fuel hfuel
        (roots cfg a) st0 i0
      simp only [h2]
      split
      · simp
      · rename_i hof; exact absurd hof this
      · simp

end Flussab.Aig
