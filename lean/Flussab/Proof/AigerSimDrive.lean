/-
C04, prefix clause for the AIGER streaming drive, second half: the relation `DSim` of
`Proof/AigerSimRun.lean` holds for `driveStream` (both formats, streaming and skipping mode), and
what that means for `runStream` / `runParse`.

Per kind of model call the three ingredients are collected in `StepA` (section readers `next_*`)
and `TransA` (transition functions): safety over the abstracted invariant `AInv` (from
`Proof/AigerSafe.lean`, `Proof/AigerBinSafe.lean`), the look-ahead bound (`Proof/AigerLookahead.lean`,
plus the transition functions here) and the simulation (`Proof/AigerSimParse.lean`).
-/
import Flussab.Proof.AigerSimRun

namespace Flussab
namespace Aiger
open PM Lines

variable {α : Type} {q : VBytes} {lr : LR}

/-- `peeked ≤ pos` and `J`: the end of the data has not been seen. -/
theorem sawEnd_of_flush (hJ : J lr) (hf : Flush lr) : lr.v.sawEnd = false := by
  cases hs : lr.v.sawEnd
  · rfl
  · have := hJ.mp hs
    unfold Flush at hf
    omega

/-! ### look-ahead of the transition functions -/

theorem finish_la {next : St → PM (Option α × St)} (h : StepLA next) (s : St) (ht : Tight lr) :
    Wp T (finish next s) lr (fun _ lr1 => Tight lr1) := by
  unfold finish
  refine Wp.bind' (whileSome_la h _ s [] lr ht) ?_
  intro r lr1 t1
  exact Wp.pure t1

theorem toLatches_la (s : St) (ht : Tight lr) :
    Wp T (toLatches s) lr (fun _ lr1 => Tight lr1) := by
  unfold toLatches
  refine Wp.bind' (Q1 := fun _ lr1 => Tight lr1) ?_ (fun _ _ t => Wp.pure t)
  split
  · exact Wp.pure ht
  · exact finish_la (nextLit_la true) s ht

theorem toOutputs_la (s : St) (ht : Tight lr) :
    Wp T (toOutputs s) lr (fun _ lr1 => Tight lr1) := by
  unfold toOutputs
  refine Wp.bind' (Q1 := fun _ lr1 => Tight lr1) ?_ (fun _ _ t => Wp.pure t)
  split
  · exact finish_la nextLatchBin_la s ht
  · exact finish_la nextLatchAscii_la s ht

theorem toBad_la (s : St) (ht : Tight lr) : Wp T (toBad s) lr (fun _ lr1 => Tight lr1) := by
  unfold toBad
  exact Wp.bind' (finish_la (nextLit_la false) s ht) (fun _ _ t => Wp.pure t)

theorem toConstraints_la (s : St) (ht : Tight lr) :
    Wp T (toConstraints s) lr (fun _ lr1 => Tight lr1) := by
  unfold toConstraints
  exact Wp.bind' (finish_la (nextLit_la false) s ht) (fun _ _ t => Wp.pure t)

theorem toJusticeSizes_la (s : St) (ht : Tight lr) :
    Wp T (toJusticeSizes s) lr (fun _ lr1 => Tight lr1) := by
  unfold toJusticeSizes
  exact Wp.bind' (finish_la (nextLit_la false) s ht) (fun _ _ t => Wp.pure t)

theorem toJusticeLits_la (s : St) (ht : Tight lr) :
    Wp T (toJusticeLits s) lr (fun _ lr1 => Tight lr1) := by
  unfold toJusticeLits
  exact Wp.bind' (finish_la nextJusticeSize_la s ht) (fun _ _ t => Wp.pure t)

theorem toFairness_la (s : St) (ht : Tight lr) :
    Wp T (toFairness s) lr (fun _ lr1 => Tight lr1) := by
  unfold toFairness
  exact Wp.bind' (finish_la (nextLit_la false) s ht) (fun _ _ t => Wp.pure t)

theorem toAndGates_la (s : St) (ht : Tight lr) :
    Wp T (toAndGates s) lr (fun _ lr1 => Tight lr1) := by
  unfold toAndGates
  exact Wp.bind' (finish_la (nextLit_la false) s ht) (fun _ _ t => Wp.pure t)

theorem toSymbols_la (s : St) (ht : Tight lr) :
    Wp T (toSymbols s) lr (fun _ lr1 => Tight lr1) := by
  unfold toSymbols
  refine Wp.bind' (Q1 := fun _ lr1 => Tight lr1) ?_ (fun _ _ t => Wp.pure t)
  split
  · exact finish_la nextAndGateBin_la s ht
  · exact finish_la nextAndGateAscii_la s ht

/-! ### what the drive needs of a model call -/

/-- A section reader `next_*`. -/
structure StepA (next : St → PM (Option α × St)) : Prop where
  ok : ∀ s lr, AInv lr → SInv s →
    Wp AErr (next s) lr (fun r lr1 => AInv lr1 ∧ SInv r.2 ∧ (r.1.isSome = true → r.2.left < s.left))
  la : StepLA next
  sim : ∀ q s lr, C q (next s) lr

/-- A transition function. -/
structure TransA (tr : St → PM St) : Prop where
  ok : ∀ s lr, AInv lr → SInv s → Wp AErr (tr s) lr (fun r lr1 => AInv lr1 ∧ SInv r)
  la : ∀ s lr, Tight lr → Wp T (tr s) lr (fun _ lr1 => Tight lr1)
  sim : ∀ q s lr, C q (tr s) lr

theorem StepA.of_text {next : St → PM (Option α × St)} (hok : StepOk next) (hla : StepLA next)
    (hsim : ∀ q s lr, C q (next s) lr) : StepA next where
  ok := by
    intro s lr ⟨b, hI⟩ hs
    refine (wpA (hok b true s lr hI hs)).mono ?_
    rintro ⟨o, s'⟩ lr1 ⟨i1, s1, _, hm⟩
    refine ⟨⟨b, i1⟩, s1, fun h => ?_⟩
    cases o with
    | none => cases h
    | some a =>
      have : s'.left + 1 = s.left := hm
      show s'.left < s.left
      omega
  la := hla
  sim := hsim

theorem nextLit_A (assigning : Bool) : StepA (nextLit assigning) :=
  .of_text (nextLit_ok assigning) (nextLit_la assigning) (fun _ s lr => nextLit_c assigning s lr)

theorem nextLatchAscii_A : StepA nextLatchAscii :=
  .of_text nextLatchAscii_ok nextLatchAscii_la (fun _ s lr => nextLatchAscii_c s lr)

theorem nextLatchBin_A : StepA nextLatchBin :=
  .of_text nextLatchBin_ok nextLatchBin_la (fun _ s lr => nextLatchBin_c s lr)

theorem nextJusticeSize_A : StepA nextJusticeSize :=
  .of_text nextJusticeSize_ok nextJusticeSize_la (fun _ s lr => nextJusticeSize_c s lr)

theorem nextAndGateAscii_A : StepA nextAndGateAscii :=
  .of_text nextAndGateAscii_ok nextAndGateAscii_la (fun _ s lr => nextAndGateAscii_c s lr)

/-- The binary and-gate block: the ghost input changes to the masked one. -/
theorem nextAndGateBin_A : StepA nextAndGateBin where
  ok := by
    intro s lr ⟨b, hI⟩ hs
    refine (wpAM (nextAndGateBin_ok s (MInv.of_inv hI) hs)).mono ?_
    rintro ⟨o, s'⟩ lr1 ⟨i1, s1, _, hm⟩
    refine ⟨⟨_, i1.2.2⟩, s1, fun h => ?_⟩
    cases o with
    | none => cases h
    | some a =>
      have : s'.left + 1 = s.left := hm
      show s'.left < s.left
      omega
  la := nextAndGateBin_la
  sim := fun _ s lr => nextAndGateBin_c s lr

theorem TransA.of_text {tr : St → PM St}
    (hok : ∀ (b : VBytes) (s : St) (lr : LR), Inv b true lr → SInv s →
      Wp (Err b true) (tr s) lr (TrPost b true s lr))
    (hla : ∀ s lr, Tight lr → Wp T (tr s) lr (fun _ lr1 => Tight lr1))
    (hsim : ∀ q s lr, C q (tr s) lr) : TransA tr where
  ok := by
    intro s lr ⟨b, hI⟩ hs
    refine (wpA (hok b s lr hI hs)).mono ?_
    intro r lr1 ⟨i1, s1, _, _⟩
    exact ⟨⟨b, i1⟩, s1⟩
  la := hla
  sim := hsim

theorem toLatches_A : TransA toLatches :=
  .of_text (fun _ s _ h hs => toLatches_ok s h hs) (fun s _ ht => toLatches_la s ht)
    (fun _ s _ => toLatches_c s)

theorem toOutputs_A : TransA toOutputs :=
  .of_text (fun _ s _ h hs => toOutputs_ok s h hs) (fun s _ ht => toOutputs_la s ht)
    (fun _ s _ => toOutputs_c s)

theorem toBad_A : TransA toBad :=
  .of_text (fun _ s _ h hs => toBad_ok s h hs) (fun s _ ht => toBad_la s ht)
    (fun _ s _ => toBad_c s)

theorem toConstraints_A : TransA toConstraints :=
  .of_text (fun _ s _ h hs => toConstraints_ok s h hs) (fun s _ ht => toConstraints_la s ht)
    (fun _ s _ => toConstraints_c s)

theorem toJusticeSizes_A : TransA toJusticeSizes :=
  .of_text (fun _ s _ h hs => toJusticeSizes_ok s h hs) (fun s _ ht => toJusticeSizes_la s ht)
    (fun _ s _ => toJusticeSizes_c s)

theorem toJusticeLits_A : TransA toJusticeLits :=
  .of_text (fun _ s _ h hs => toJusticeLits_ok s h hs) (fun s _ ht => toJusticeLits_la s ht)
    (fun _ s _ => toJusticeLits_c s)

theorem toFairness_A : TransA toFairness :=
  .of_text (fun _ s _ h hs => toFairness_ok s h hs) (fun s _ ht => toFairness_la s ht)
    (fun _ s _ => toFairness_c s)

theorem toAndGates_A : TransA toAndGates :=
  .of_text (fun _ s _ h hs => toAndGates_ok s h hs) (fun s _ ht => toAndGates_la s ht)
    (fun _ s _ => toAndGates_c s)

/-- `symbols()` of either format; in a binary file it finishes the and-gate block. -/
theorem toSymbols_A (s : St) (lr : LR) (h : AInv lr) (hs : SInv s) :
    Wp AErr (toSymbols s) lr (fun _ lr1 => AInv lr1) := by
  obtain ⟨b, hI⟩ := h
  cases hb : s.p.bin
  · exact (wpA (toSymbols_ok s hb hI hs)).mono fun _ lr1 h1 => ⟨b, h1.1⟩
  · exact (wpAM (toSymbolsBin_ok s hb (MInv.of_inv hI) hs)).mono fun _ lr1 h1 => ⟨_, h1.2.2⟩

theorem nextSymbol_A (p : Parser) (lr : LR) (h : AInv lr) :
    Wp AErr (nextSymbol p) lr (fun r lr1 => AInv lr1 ∧
      (r.isSome = true → lr1.v.rest.length < lr.v.rest.length)) := by
  obtain ⟨b, hI⟩ := h
  refine (wpA (nextSymbol_ok p hI)).mono ?_
  intro r lr1 ⟨i1, _, q1⟩
  exact ⟨⟨b, i1⟩, fun hr => Base.rest_lt hI.toBase i1.toBase (q1 hr)⟩

/-- With a failing source `comment()` never returns. -/
theorem comment_A (p : Parser) (lr : LR) (h : AInv lr) :
    Wp AErr (comment p) lr (fun _ _ => False) := by
  obtain ⟨b, hI⟩ := h
  refine (wpA (comment_ok p hI)).mono ?_
  intro _ _ h
  cases h

/-! ### the counted sections -/

/-- What holds between two model calls of the drive. -/
structure Pre (s : St) (ds : DS) : Prop where
  inv : AInv ds.lr
  j : J ds.lr
  tight : Tight ds.lr
  sinv : SInv s

theorem Grows.drain {next : St → PM (Option α × St)} (mk : α → Item) :
    ∀ (fuel : Nat) (s : St), Grows (drain next mk fuel s) := by
  intro fuel
  induction fuel with
  | zero => intro s; unfold Aiger.drain; exact Grows.throw _
  | succ fuel ih =>
    intro s
    unfold Aiger.drain
    refine Grows.bind (Grows.step _) ?_
    rintro ⟨o, s'⟩
    cases o with
    | none => exact Grows.pure _
    | some a => exact Grows.bind (Grows.emit _) (fun _ => ih s')

theorem drain_dsim {next : St → PM (Option α × St)} (hn : StepA next) (mk : α → Item) :
    ∀ (fuel : Nat) (s : St) (ds : DS), Pre s ds → s.left < fuel →
      DSim q (drain next mk fuel s) (drain next mk fuel s) ds (fun s1 ds1 => Pre s1 ds1) := by
  intro fuel
  induction fuel with
  | zero => intro s ds _ hf; omega
  | succ fuel ih =>
    intro s ds hp hf
    unfold drain
    refine DSim.bind (DSim.step hp.j (wp_and (hn.ok s _ hp.inv hp.sinv) (hn.la s _ hp.tight))
      (hn.sim q s _)) ?_ ?_
    · rintro ⟨o, s'⟩ ds1 ⟨⟨⟨i1, q1, l1⟩, f1, u1⟩, j1, _⟩
      cases o with
      | none =>
        have e : ds1.lr = ds.lr := u1 rfl
        exact DSim.pure _ ⟨i1, j1, by rw [e]; exact hp.tight, q1⟩
      | some a =>
        have hfl : Flush ds1.lr := f1 rfl
        have hlt : s'.left < s.left := l1 rfl
        refine DSim.bind (DSim.emit _ (sawEnd_of_flush j1 hfl)) ?_ (fun _ => Grows.drain mk fuel s')
        rintro _ ds2 rfl
        exact ih s' _ ⟨i1, j1, hfl.tight, q1⟩ (by omega)
    · rintro ⟨o, s'⟩
      cases o with
      | none => exact Grows.pure _
      | some a => exact Grows.bind (Grows.emit _) (fun _ => Grows.drain mk fuel s')

/-- A stage of the drive: keeps `Pre`, only adds items. -/
structure StageOK (g : St → DM St) : Prop where
  sim : ∀ q s ds, Pre s ds → DSim q (g s) (g s) ds (fun s1 ds1 => Pre s1 ds1)
  grows : ∀ s, Grows (g s)

theorem StageOK.dr {next : St → PM (Option α × St)} (hn : StepA next) (mk : α → Item)
    (stream : Bool) : StageOK (dr stream next mk) where
  sim := by
    intro q s ds hp
    unfold Aiger.dr
    cases stream
    · simp only [Bool.false_eq_true, ↓reduceIte]
      exact DSim.pure _ hp
    · simp only [↓reduceIte]
      exact drain_dsim hn mk _ s ds hp (by omega)
  grows := by
    intro s
    unfold Aiger.dr
    exact Grows.ite (Grows.drain mk _ s) (Grows.pure _)

theorem StageOK.stage {tr : St → PM St} {next : St → PM (Option α × St)} (ht : TransA tr)
    (hn : StepA next) (mk : α → Item) (stream : Bool) : StageOK (stage stream tr next mk) where
  sim := by
    intro q s ds hp
    unfold Aiger.stage
    refine DSim.bind (DSim.step hp.j (wp_and (ht.ok s _ hp.inv hp.sinv) (ht.la s _ hp.tight))
      (ht.sim q s _)) ?_ (fun s1 => (StageOK.dr hn mk stream).grows s1)
    rintro s1 ds1 ⟨⟨⟨i1, q1⟩, t1⟩, j1, _⟩
    exact (StageOK.dr hn mk stream).sim q s1 ds1 ⟨i1, j1, t1, q1⟩
  grows := by
    intro s
    unfold Aiger.stage
    exact Grows.bind (Grows.step _) (fun s1 => (StageOK.dr hn mk stream).grows s1)

theorem sections_ok (bin stream : Bool) : ∀ g ∈ sections bin stream, StageOK g := by
  intro g hg
  unfold sections at hg
  rw [List.mem_append] at hg
  rcases hg with hg | hg
  · cases bin
    · simp only [Bool.false_eq_true, ↓reduceIte, List.mem_cons, List.mem_nil_iff, or_false] at hg
      rcases hg with rfl | rfl
      · exact StageOK.dr (nextLit_A true) _ _
      · exact StageOK.stage toLatches_A nextLatchAscii_A _ _
    · simp only [↓reduceIte, List.mem_cons, List.mem_nil_iff, or_false] at hg
      subst hg
      exact StageOK.stage toLatches_A nextLatchBin_A _ _
  · simp only [List.mem_cons, List.mem_nil_iff, or_false] at hg
    rcases hg with rfl | rfl | rfl | rfl | rfl | rfl | rfl
    · exact StageOK.stage toOutputs_A (nextLit_A false) _ _
    · exact StageOK.stage toBad_A (nextLit_A false) _ _
    · exact StageOK.stage toConstraints_A (nextLit_A false) _ _
    · exact StageOK.stage toJusticeSizes_A nextJusticeSize_A _ _
    · exact StageOK.stage toJusticeLits_A (nextLit_A false) _ _
    · exact StageOK.stage toFairness_A (nextLit_A false) _ _
    · cases bin
      · exact StageOK.stage toAndGates_A nextAndGateAscii_A _ _
      · exact StageOK.stage toAndGates_A nextAndGateBin_A _ _

theorem Grows.runStages : ∀ (gs : List (St → DM St)), (∀ g ∈ gs, StageOK g) → ∀ s,
    Grows (runStages gs s)
  | [], _, s => by unfold Aiger.runStages; exact Grows.pure _
  | g :: gs, hall, s => by
    unfold Aiger.runStages
    exact Grows.bind ((hall g (by simp)).grows s)
      (fun s1 => Grows.runStages gs (fun g' hg' => hall g' (by simp [hg'])) s1)

theorem runStages_dsim : ∀ (gs : List (St → DM St)), (∀ g ∈ gs, StageOK g) → ∀ s ds, Pre s ds →
    DSim q (runStages gs s) (runStages gs s) ds (fun s1 ds1 => Pre s1 ds1)
  | [], _, s, ds, hp => by unfold runStages; exact DSim.pure _ hp
  | g :: gs, hall, s, ds, hp => by
    unfold runStages
    exact DSim.bind ((hall g (by simp)).sim q s ds hp)
      (fun s1 ds1 h1 => runStages_dsim gs (fun g' hg' => hall g' (by simp [hg'])) s1 ds1 h1)
      (fun s1 => Grows.runStages gs (fun g' hg' => hall g' (by simp [hg'])) s1)

/-! ### symbol table and comment -/

theorem Grows.drainSymbols (p : Parser) : ∀ (fuel : Nat), Grows (drainSymbols p fuel) := by
  intro fuel
  induction fuel with
  | zero => unfold Aiger.drainSymbols; exact Grows.throw _
  | succ fuel ih =>
    unfold Aiger.drainSymbols
    refine Grows.bind (Grows.step _) ?_
    intro o
    cases o with
    | none => exact Grows.pure _
    | some a => exact Grows.bind (Grows.emit _) (fun _ => ih)

/-- The symbol loop, with more fuel on the right; after it the reader need not be tight (a
`next_symbol` that returns `None` may have looked at the byte behind a `c`). -/
theorem drainSymbols_dsim (p : Parser) : ∀ (n n' : Nat) (ds : DS), n ≤ n' → AInv ds.lr → J ds.lr →
    Tight ds.lr → ds.lr.v.rest.length < n →
    DSim q (drainSymbols p n) (drainSymbols p n') ds (fun _ ds1 => AInv ds1.lr ∧ J ds1.lr) := by
  intro n
  induction n with
  | zero => intro n' ds _ _ _ _ hf; omega
  | succ n ih =>
    intro n' ds hle hI hJ ht hf
    cases n' with
    | zero => omega
    | succ n' =>
      unfold drainSymbols
      refine DSim.bind (DSim.step hJ (wp_and (nextSymbol_A p _ hI) (nextSymbol_la p ht))
        (nextSymbol_c p)) ?_ ?_
      · rintro o ds1 ⟨⟨⟨i1, l1⟩, f1⟩, j1, _⟩
        cases o with
        | none => exact DSim.pure _ ⟨i1, j1⟩
        | some sym =>
          have hfl : Flush ds1.lr := f1 rfl
          have hlt := l1 rfl
          refine DSim.bind (DSim.emit _ (sawEnd_of_flush j1 hfl)) ?_
            (fun _ => Grows.drainSymbols p n')
          rintro _ ds2 rfl
          exact ih n' _ (by omega) i1 j1 hfl.tight (by show ds1.lr.v.rest.length < n; omega)
      · intro o
        cases o with
        | none => exact Grows.pure _
        | some a => exact Grows.bind (Grows.emit _) (fun _ => Grows.drainSymbols p n')

theorem Grows.driveTail (s : St) : Grows (driveTail s) := by
  unfold Aiger.driveTail
  refine Grows.bind (Grows.step _) (fun p => ?_)
  refine Grows.get_bind (fun d => ?_)
  refine Grows.bind (Grows.drainSymbols p _) (fun _ => ?_)
  exact Grows.bind (Grows.step _) (fun _ => Grows.emit _)

/-- With a failing source the drive never gets past `comment()`. -/
theorem driveTail_dsim (s : St) (ds : DS) (hp : Pre s ds) :
    DSim q (driveTail s) (driveTail s) ds (fun _ _ => False) := by
  unfold driveTail
  refine DSim.bind (DSim.step hp.j (wp_and (toSymbols_A s _ hp.inv hp.sinv) (toSymbols_la s hp.tight))
    (toSymbols_c s)) ?_ ?_
  · rintro p ds1 ⟨⟨i1, t1⟩, j1, _⟩
    refine DSim.get_bind ?_
    refine DSim.bind (drainSymbols_dsim p _ _ ds1
      (by show ds1.lr.v.rest.length + 2 ≤ (ext q ds1.lr).v.rest.length + 2
          rw [ext_rest_length]; omega) i1 j1 t1 (by omega)) ?_ ?_
    · rintro _ ds2 ⟨i2, j2⟩
      refine DSim.bind (DSim.step j2 (comment_A p _ i2) (comment_c p)) ?_ (fun _ => Grows.emit _)
      rintro c ds3 ⟨hfalse, _⟩
      exact hfalse.elim
    · intro _
      exact Grows.bind (Grows.step _) (fun _ => Grows.emit _)
  · intro p
    refine Grows.get_bind (fun d => ?_)
    refine Grows.bind (Grows.drainSymbols p _) (fun _ => ?_)
    exact Grows.bind (Grows.step _) (fun _ => Grows.emit _)

/-! ### the whole drive -/

theorem driveStream_dsim (bin : Bool) (l : LitTy) (stream : Bool) (hl : l.bits ≤ 64) (ds : DS)
    (hI : AInv ds.lr) (hJ : J ds.lr) (ht : Tight ds.lr) :
    DSim q (driveStream bin l stream) (driveStream bin l stream) ds (fun _ _ => False) := by
  unfold driveStream
  obtain ⟨b, hb⟩ := hI
  refine DSim.bind (DSim.step hJ (wp_and (wpA (Parser.new_ok bin l hl hb)) (Parser.new_la bin l ht))
    (Parser.new_c bin l)) ?_ ?_
  · rintro p ds1 ⟨⟨⟨i1, _⟩, f1⟩, j1, _⟩
    refine DSim.bind (DSim.emit _ (sawEnd_of_flush j1 f1)) ?_ ?_
    · rintro _ ds2 rfl
      refine DSim.bind (runStages_dsim _ (sections_ok bin stream) _ _
        ⟨⟨b, i1⟩, j1, f1.tight, by cases bin <;> exact Nat.zero_le _⟩) ?_
        (fun s => Grows.driveTail s)
      intro s ds3 hp
      exact driveTail_dsim s ds3 hp
    · intro _
      exact Grows.bind (Grows.runStages _ (sections_ok bin stream) _) (fun s => Grows.driveTail s)
  · intro p
    refine Grows.bind (Grows.emit _) (fun _ => ?_)
    exact Grows.bind (Grows.runStages _ (sections_ok bin stream) _) (fun s => Grows.driveTail s)

/-- How a drive ended (`none` = clean end). -/
def finalOf (r : Except PErr Unit) : Option PErr :=
  match r with
  | .ok _ => none
  | .error e => some e

/-- `runDM` in terms of the run of the program. -/
theorem runDM_eq (act : DM Unit) (lr : LR) (r : Except PErr Unit) (d : DS)
    (h : act.run { lr := lr } = (r, d)) :
    runDM act lr = { items := d.items.reverse, final := finalOf r } := by
  unfold runDM
  have h' : act.run.run { lr := lr } = (r, d) := h
  rw [h']
  rfl

/-- **The streaming drive**: `r₁` over the source that delivers `b` and then fails, `r₂` over the
fault-free source `b ++ more`. -/
theorem runStream_prefix (bin : Bool) (l : LitTy) (stream : Bool) (hl : l.bits ≤ 64)
    (b more : VBytes) (hb : b.length + 3 ≤ usizeMax) :
    (runStream bin l stream (LR.init b true)).items <+:
      (runStream bin l stream (LR.init (b ++ more) false)).items ∧
    ((runStream bin l stream (LR.init b true)).final = some .io ∨
      ∃ ln c, (runStream bin l stream (LR.init b true)).final = some (.syn ln c)) ∧
    (∀ ln c, (runStream bin l stream (LR.init b true)).final = some (.syn ln c) →
      (runStream bin l stream (LR.init (b ++ more) false)).final = some (.syn ln c) ∧
      (runStream bin l stream (LR.init (b ++ more) false)).items =
        (runStream bin l stream (LR.init b true)).items) := by
  have hsim := driveStream_dsim (q := more) bin l stream hl { lr := LR.init b true }
    ⟨b, inv_init b true hb⟩ (J_init b true) (by simp [Tight, LR.init, View.init])
  unfold runStream
  rcases hA : (driveStream bin l stream).run { lr := LR.init b true } with ⟨r, d⟩
  rcases hB : (driveStream bin l stream).run { lr := LR.init (b ++ more) false } with ⟨r', d'⟩
  rw [runDM_eq _ _ _ _ hA, runDM_eq _ _ _ _ hB]
  obtain ⟨h1, _, h3⟩ := hsim r d hA r' d' hB
  unfold Out at h3
  refine ⟨List.reverse_prefix.mpr h1, ?_, ?_⟩
  · cases r with
    | ok a => exact h3.1.elim
    | error e =>
      cases e with
      | io => exact Or.inl rfl
      | syn ln c => exact Or.inr ⟨ln, c, rfl⟩
      | panic s => exact h3.elim
  · intro ln c hc
    cases r with
    | ok a => exact h3.1.elim
    | error e =>
      simp only [finalOf, Option.some.injEq] at hc
      subst hc
      obtain ⟨_, rfl, h5⟩ := h3
      exact ⟨rfl, by rw [h5]⟩

/-! ### whole-file `parse()` -/

theorem runDM_step_error {β : Type} {act : PM β} {f : β → DM Unit} {lr lr1 : LR} {e : PErr}
    (h : act.run lr = (.error e, lr1)) :
    runDM (step act >>= f) lr = { items := [], final := some e } := by
  have : (step act >>= f).run { lr := lr } = (.error e, { lr := lr1 }) := by
    rw [dm_run_bind, step_run, h]
  rw [runDM_eq _ _ _ _ this]
  rfl

theorem runParse_aag_error (l : LitTy) (lr lr1 : LR) (e : PErr)
    (h : (parseAag l).run lr = (.error e, lr1)) :
    runParse false l lr = { items := [], final := some e } := by
  unfold runParse driveParse
  simp only [Bool.false_eq_true, ↓reduceIte]
  exact runDM_step_error h

theorem runParse_aig_error (l : LitTy) (lr lr1 : LR) (e : PErr)
    (h : (parseAig l).run lr = (.error e, lr1)) :
    runParse true l lr = { items := [], final := some e } := by
  unfold runParse driveParse
  simp only [↓reduceIte]
  exact runDM_step_error h

/-- A syntax error of whole-file ASCII `parse()` over the failing source is the outcome over the
longer fault-free stream. -/
theorem parseAag_syntax_same (l : LitTy) (hl : l.bits ≤ 64) (b more : VBytes)
    (hb : b.length + 3 ≤ usizeMax) (ln c : Nat) (lr1 : LR)
    (hr : (parseAag l).run (LR.init b true) = (.error (.syn ln c), lr1)) :
    ∃ s, (parseAag l).run (LR.init (b ++ more) false) = (.error (.syn ln c), s) := by
  have s1 : lr1.v.sawEnd = false :=
    ((Wp.of_run (parseAag_ok l hl (inv_init b true hb))).2 _ _ hr).2.2 rfl
  obtain ⟨_, a1⟩ := parseAag_c (q := more) l (lr := LR.init b true) (J_init b true) _ _ hr trivial
  rw [← ext_init b more]
  exact (a1 s1).2

/-- The same for whole-file binary `parse()`. -/
theorem parseAig_syntax_same (l : LitTy) (hl : l.bits ≤ 64) (b more : VBytes)
    (hb : b.length + 3 ≤ usizeMax) (ln c : Nat) (lr1 : LR)
    (hr : (parseAig l).run (LR.init b true) = (.error (.syn ln c), lr1)) :
    ∃ s, (parseAig l).run (LR.init (b ++ more) false) = (.error (.syn ln c), s) := by
  have s1 : lr1.v.sawEnd = false := by
    obtain ⟨_, _, _, _, he⟩ := (Wp.of_run (parseAig_ok l hl (inv_init b true hb))).2 _ _ hr
    exact he.2.2 rfl
  obtain ⟨_, a1⟩ := parseAig_c (q := more) l (lr := LR.init b true) (J_init b true) _ _ hr trivial
  rw [← ext_init b more]
  exact (a1 s1).2

/-- **`mode=parse`**: over a failing source nothing is handed out and the run ends in `io` or a
syntax error; a syntax error is the outcome of the fault-free run too, which then hands out
nothing either. -/
theorem runParse_fault (bin : Bool) (l : LitTy) (hl : l.bits ≤ 64) (b more : VBytes)
    (hb : b.length + 3 ≤ usizeMax) :
    (runParse bin l (LR.init b true)).items = [] ∧
    ((runParse bin l (LR.init b true)).final = some .io ∨
      ∃ ln c, (runParse bin l (LR.init b true)).final = some (.syn ln c)) ∧
    (∀ ln c, (runParse bin l (LR.init b true)).final = some (.syn ln c) →
      runParse bin l (LR.init (b ++ more) false) = { items := [], final := some (.syn ln c) }) := by
  cases bin
  · have hw := parseAag_ok l hl (inv_init b true hb)
    rcases hr : (parseAag l).run (LR.init b true) with ⟨e | a, lr1⟩
    · rw [runParse_aag_error l _ _ e hr]
      have he := (Wp.of_run hw).2 _ _ hr
      refine ⟨rfl, ?_, ?_⟩
      · cases e with
        | io => exact Or.inl rfl
        | syn ln c => exact Or.inr ⟨ln, c, rfl⟩
        | panic s => exact he.2.elim
      · intro ln c hc
        simp only [Option.some.injEq] at hc
        subst hc
        obtain ⟨s, hs⟩ := parseAag_syntax_same l hl b more hb ln c lr1 hr
        exact runParse_aag_error l _ _ _ hs
    · have := (Wp.of_run hw).1 _ _ hr
      cases this
  · have hw := parseAig_ok l hl (inv_init b true hb)
    rcases hr : (parseAig l).run (LR.init b true) with ⟨e | a, lr1⟩
    · rw [runParse_aig_error l _ _ e hr]
      obtain ⟨_, _, _, _, he⟩ := (Wp.of_run hw).2 _ _ hr
      refine ⟨rfl, ?_, ?_⟩
      · cases e with
        | io => exact Or.inl rfl
        | syn ln c => exact Or.inr ⟨ln, c, rfl⟩
        | panic s => exact he.2.elim
      · intro ln c hc
        simp only [Option.some.injEq] at hc
        subst hc
        obtain ⟨s, hs⟩ := parseAig_syntax_same l hl b more hb ln c lr1 hr
        exact runParse_aig_error l _ _ _ hs
    · have := (Wp.of_run hw).1 _ _ hr
      cases this

/-- Per call: an item returned over the failing source is returned, with the same section state,
by the same call over the longer fault-free stream in the corresponding state; a syntax error is
the same syntax error. -/
theorem StepA.fault_same {next : St → PM (Option α × St)} (hn : StepA next) (more : VBytes)
    (s : St) (lr : LR) (hI : AInv lr) (hs : SInv s) (hJ : J lr) (ht : Tight lr) :
    (∀ a s' lr1, (next s).run lr = (.ok (some a, s'), lr1) →
      (next s).run (ext more lr) = (.ok (some a, s'), ext more lr1) ∧
      AInv lr1 ∧ SInv s' ∧ J lr1 ∧ Tight lr1) ∧
    (∀ ln c lr1, (next s).run lr = (.error (.syn ln c), lr1) →
      ∃ t, (next s).run (ext more lr) = (.error (.syn ln c), t)) := by
  obtain ⟨wok, werr⟩ := Wp.of_run (wp_and (hn.ok s lr hI hs) (hn.la s lr ht))
  refine ⟨fun a s' lr1 hr => ?_, fun ln c lr1 hr => ?_⟩
  · obtain ⟨⟨i1, q1, _⟩, f1, _⟩ := wok _ _ hr
    have hfl : Flush lr1 := f1 rfl
    obtain ⟨j1, a1⟩ := hn.sim more s lr hJ _ _ hr trivial
    exact ⟨(a1 (sawEnd_of_flush j1 hfl)).2, i1, q1, j1, hfl.tight⟩
  · have s1 := (werr _ _ hr).syn_sawEnd
    obtain ⟨_, a1⟩ := hn.sim more s lr hJ _ _ hr trivial
    exact (a1 s1).2

end Aiger
end Flussab
