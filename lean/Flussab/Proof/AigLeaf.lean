/-
C12: constant, inputs and latches keep the consecutive codes assigned by `initialize`.
-/
import Flussab.Proof.AigErrors

namespace Flussab.Aig

/-! ### inputs and latches keep the codes given to them by `initialize` -/

theorem xor_bit_cancel (v b : Nat) : v ^^^ b ^^^ b = v := by
  rw [Nat.xor_assoc, Nat.xor_self, Nat.xor_zero]

theorem LitMap.get_insert_self (m : LitMap) (key value : Nat) : (m.insert key value).get key = some value := by
  simp [LitMap.get, LitMap.insert, alookup, xor_bit_cancel]

theorem LitMap.get_insert_ne (m : LitMap) (key value k : Nat) (h : key / 2 ≠ k / 2) :
    (m.insert key value).get k = m.get k := by
  have : ¬ (2 * (k / 2) = 2 * (key / 2)) := by omega
  simp [LitMap.get, LitMap.insert, alookup, this]

theorem finish_get (cfg : Config) (st : St) (lit out t0 t1 k : Nat) (h : out / 2 ≠ k / 2) :
    (finish cfg st lit out t0 t1).2.litMap.get k = st.litMap.get k := by
  unfold finish
  rcases sort2 t0 t1 with ⟨x, y⟩
  simp only
  split
  · exact LitMap.get_insert_ne _ _ _ _ h
  · split
    · split
      · exact LitMap.get_insert_ne _ _ _ _ h
      · exact LitMap.get_insert_ne _ _ _ _ h
    · exact LitMap.get_insert_ne _ _ _ _ h

/-- `transfer` only writes entries for and-gate variables. -/
theorem transfer_frozen {a : Aig} {defs : Defs} (hd : DefsOk a defs) (cfg : Config) :
    ∀ (fuel : Nat) (path : List Nat) (st : St) (lit t : Nat) (st' : St),
      transfer cfg defs fuel path st lit = .ok (t, st') →
      ∀ k, (∀ g ∈ a.gates, g.out / 2 ≠ k / 2) → st'.litMap.get k = st.litMap.get k := by
  intro fuel
  induction fuel with
  | zero => intro path st lit t st' h; simp [transfer] at h
  | succ fuel ih =>
    intro path st lit t st' h k hk
    unfold transfer at h
    split at h
    · injection h with h; injection h with _ e2; subst e2; rfl
    · split at h
      · exact absurd h (by simp)
      · split at h
        · exact absurd h (by simp)
        · rename_i d hfd
          obtain ⟨hmem, _⟩ := findDef_mem hd hfd
          split at h
          · rename_i t0 st1 h0
            split at h
            · rename_i t1 st2 h1
              injection h with h
              have hst : st' = (finish cfg st2 lit d.out t0 t1).2 := by rw [h]
              rw [hst, finish_get _ _ _ _ _ _ _ (hk d hmem), ih _ _ _ _ _ h1 k hk, ih _ _ _ _ _ h0 k hk]
            · exact absurd h (by simp)
            · exact absurd h (by simp)
          · exact absurd h (by simp)
          · exact absurd h (by simp)

theorem transferAll_frozen {a : Aig} {defs : Defs} (hd : DefsOk a defs) (cfg : Config) (fuel : Nat) :
    ∀ (lits : List Nat) (st st' : St), transferAll cfg defs fuel lits st = .ok st' →
      ∀ k, (∀ g ∈ a.gates, g.out / 2 ≠ k / 2) → st'.litMap.get k = st.litMap.get k := by
  intro lits
  induction lits with
  | nil => intro st st' h k _; simp only [transferAll] at h; injection h with h; subst h; rfl
  | cons l rest ih =>
    intro st st' h k hk
    simp only [transferAll] at h
    split at h
    · rename_i t st1 h1
      rw [ih _ _ h k hk, transfer_frozen hd cfg _ _ _ _ _ _ h1 k hk]
    · exact absurd h (by simp)
    · exact absurd h (by simp)

theorem initInputs_lastCode (l : List Nat) (st : St) :
    (initInputs l st).lastCode = st.lastCode + 2 * l.length := by
  induction l generalizing st with
  | nil => simp [initInputs]
  | cons x rest ih => simp only [initInputs, ih, List.length_cons]; omega

theorem initInputs_get (l : List Nat) (hn : (l.map (· / 2)).Nodup) (st : St) :
    (∀ i (h : i < l.length), (initInputs l st).litMap.get l[i] = some (st.lastCode + 2 * (i + 1))) ∧
    (∀ k, k / 2 ∉ l.map (· / 2) → (initInputs l st).litMap.get k = st.litMap.get k) := by
  induction l generalizing st with
  | nil => simp [initInputs]
  | cons x rest ih =>
    simp only [List.map_cons, List.nodup_cons] at hn
    obtain ⟨i1, i2⟩ := ih hn.2 { st with lastCode := st.lastCode + 2,
                                         litMap := st.litMap.insert x (st.lastCode + 2) }
    simp only [initInputs]
    constructor
    · intro i hi
      cases i with
      | zero =>
        simp only [List.getElem_cons_zero]
        rw [i2 x hn.1, LitMap.get_insert_self]
      | succ i =>
        simp only [List.getElem_cons_succ]
        rw [i1 i (by simpa using hi)]
        simp only [Option.some.injEq]; omega
    · intro k hk
      simp only [List.map_cons, List.mem_cons, not_or] at hk
      rw [i2 k hk.2, LitMap.get_insert_ne _ _ _ _ (fun h => hk.1 h.symm)]

theorem initLatches_get {defs : Defs} (l : List Latch) (hn : (l.map (·.state / 2)).Nodup)
    (st st' : St) (h : initLatches defs l st = .ok st') :
    (∀ i (h : i < l.length), st'.litMap.get l[i].state = some (st.lastCode + 2 * (i + 1))) ∧
    (∀ k, k / 2 ∉ l.map (·.state / 2) → st'.litMap.get k = st.litMap.get k) := by
  induction l generalizing st with
  | nil => simp only [initLatches] at h; injection h with h; subst h; simp
  | cons x rest ih =>
    simp only [List.map_cons, List.nodup_cons] at hn
    simp only [initLatches] at h
    split at h
    · exact absurd h (by simp)
    · obtain ⟨i1, i2⟩ := ih hn.2 _ h
      constructor
      · intro i hi
        cases i with
        | zero =>
          simp only [List.getElem_cons_zero]
          rw [i2 x.state hn.1, LitMap.get_insert_self]
        | succ i =>
          simp only [List.getElem_cons_succ]
          rw [i1 i (by simpa using hi)]
          simp only [Option.some.injEq]; omega
      · intro k hk
        simp only [List.map_cons, List.mem_cons, not_or] at hk
        rw [i2 k hk.2, LitMap.get_insert_ne _ _ _ _ (fun h => hk.1 h.symm)]

/-- The returned map numbers the inputs `2, 4, …, 2I` and the latches `2I+2, …, 2(I+L)`. -/
theorem renumber_leaf_codes {cfg : Config} {a : Aig} {fuel : Nat} {o : OrderedAig} {m : LitMap}
    (h : renumber cfg a fuel = .ok (o, m)) :
    m.get 0 = some 0 ∧
    (∀ i (hi : i < a.inputs.length), m.get a.inputs[i] = some (2 * (i + 1))) ∧
    (∀ j (hj : j < a.latches.length), m.get a.latches[j].state = some (2 * (a.inputs.length + j + 1))) := by
  obtain ⟨defs, st0, st, h1, h2, h3, rfl, _⟩ := renumber_ok_decomp h
  have hn := init_nodup h1 h2
  obtain ⟨hI, _, hL, h0I, h0G, h0L, hIG, hLIG⟩ := nodup_parts hn
  have hfz := transferAll_frozen (litDefs_defsOk h1) cfg fuel _ _ _ h3
  obtain ⟨a1, a2⟩ := initInputs_get a.inputs hI St.init
  obtain ⟨b1, b2⟩ := initLatches_get a.latches hL _ _ h2
  have hlc := initInputs_lastCode a.inputs St.init
  have notGate : ∀ k, k / 2 ∉ a.gates.map (·.out / 2) → ∀ g ∈ a.gates, g.out / 2 ≠ k / 2 :=
    fun k hk g hg he => hk (List.mem_map.mpr ⟨g, hg, he⟩)
  refine ⟨?_, ?_, ?_⟩
  · rw [hfz 0 (notGate 0 h0G), b2 0 h0L, a2 0 h0I]
    simp [St.init, LitMap.get, LitMap.insert, alookup]
  · intro i hi
    have hm : a.inputs[i] / 2 ∈ a.inputs.map (· / 2) := List.mem_map.mpr ⟨_, List.getElem_mem hi, rfl⟩
    rw [hfz _ (notGate _ (hIG _ hm)), b2 _ (fun hc => (hLIG _ hc).1 hm), a1 i hi]
    simp [St.init]
  · intro j hj
    have hm : a.latches[j].state / 2 ∈ a.latches.map (·.state / 2) :=
      List.mem_map.mpr ⟨_, List.getElem_mem hj, rfl⟩
    rw [hfz _ (notGate _ (hLIG _ hm).2), b1 j hj, hlc]
    simp only [St.init, Option.some.injEq]; omega

end Flussab.Aig
