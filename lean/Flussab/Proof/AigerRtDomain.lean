/-
The domain predicates of the AIGER round trips in their final form: the auxiliary hypotheses
"every count is a `usize`" and "the justice sizes add up to a `usize`" of `WFaig` / `WFord`
(`Proof/AigerRtFile.lean`, `Proof/AigerRtBinary.lean`) follow from the bound on the size of the
written file, because every item occupies at least one byte.
-/
import Flussab.Proof.AigerRtBinary

namespace Flussab.AigerRT
open Flussab Flussab.Aiger

theorem flatten_map_length_ge {α : Type} (f : α → VBytes) (hf : ∀ x, 1 ≤ (f x).length) (xs : List α) :
    xs.length ≤ ((xs.map f).flatten).length := by
  induction xs with
  | nil => simp
  | cons x xs ih =>
    simp only [List.length_cons, List.map_cons, List.flatten_cons, List.length_append]
    have := hf x
    omega

theorem writeLit_pos (c : Nat) : 1 ≤ (writeLit c).length := by unfold writeLit; simp

theorem writeLits_length (cs : List Nat) : cs.length ≤ (writeLits cs).length :=
  flatten_map_length_ge writeLit writeLit_pos cs

theorem writeLatchAscii_pos (l : Latch) : 1 ≤ (writeLatchAscii l).length := by
  unfold writeLatchAscii; simp; omega

theorem writeAndGateAscii_pos (g : AndGate) : 1 ≤ (writeAndGateAscii g).length := by
  unfold writeAndGateAscii; simp; omega

theorem sum_le_flatten (j : List (List Nat)) : (j.map List.length).sum = j.flatten.length := by
  rw [List.length_flatten]

/-- Lengths of the middle sections against the length of their text. -/
theorem writeMid_lengths (o b c : List Nat) (j : List (List Nat)) (f : List Nat) :
    o.length ≤ (writeMid o b c j f).length ∧ b.length ≤ (writeMid o b c j f).length ∧
    c.length ≤ (writeMid o b c j f).length ∧ j.length ≤ (writeMid o b c j f).length ∧
    f.length ≤ (writeMid o b c j f).length ∧
    (j.map List.length).sum ≤ (writeMid o b c j f).length := by
  have h1 := writeLits_length o
  have h2 := writeLits_length b
  have h3 := writeLits_length c
  have h4 := writeLits_length (j.map List.length)
  have h5 := writeLits_length f
  have h6 : (j.map List.length).sum ≤ ((j.map writeLits).flatten).length := by
    rw [← writeLits_flatten, sum_le_flatten]
    exact writeLits_length _
  simp only [List.length_map] at h4
  unfold writeMid
  simp only [List.length_append]
  omega

theorem lt_pow_of_lt_usize {n : Nat} (h : n < PM.usizeMax) : n < 2 ^ 64 := by
  have hu : PM.usizeMax = 2 ^ 64 - 1 := rfl
  omega

/-- `WFaig` without the auxiliary hypotheses. -/
structure AigDomain (l : LitTy) (a : Aig) : Prop where
  bits : l.bits ≤ 64
  maxVar : 2 * a.maxVarIndex + 1 ≤ l.maxCode
  vars : a.inputs.length + a.latches.length + a.gates.length ≤ a.maxVarIndex
  inputs : ∀ x ∈ a.inputs, x ≤ 2 * a.maxVarIndex + 1 ∧ x % 2 = 0 ∧ 2 ≤ x
  latches : ∀ x ∈ a.latches, x.state ≤ 2 * a.maxVarIndex + 1 ∧ x.state % 2 = 0 ∧ 2 ≤ x.state ∧
    x.next ≤ 2 * a.maxVarIndex + 1
  lits : ∀ x ∈ a.outputs ++ a.bad ++ a.constraints ++ a.justice.flatten ++ a.fairness,
    x ≤ 2 * a.maxVarIndex + 1
  gates : ∀ g ∈ a.gates, g.out ≤ 2 * a.maxVarIndex + 1 ∧ g.out % 2 = 0 ∧ 2 ≤ g.out ∧
    g.in0 ≤ 2 * a.maxVarIndex + 1 ∧ g.in1 ≤ 2 * a.maxVarIndex + 1
  symbols : ∀ s ∈ a.symbols, SymOk (aigHeader a) s
  comment : ∀ c, a.comment = some c → validUtf8 c = true
  size : (writeAig a).length < PM.usizeMax

theorem AigDomain.wf {l : LitTy} {a : Aig} (h : AigDomain l a) : WFaig l a := by
  have hsz := h.size
  have hmid := writeMid_lengths a.outputs a.bad a.constraints a.justice a.fairness
  have hin := writeLits_length a.inputs
  have hla := flatten_map_length_ge writeLatchAscii writeLatchAscii_pos a.latches
  have hga := flatten_map_length_ge writeAndGateAscii writeAndGateAscii_pos a.gates
  have hm : a.maxVarIndex < 2 ^ 64 := by
    have h1 := h.maxVar
    have h2 := maxCode_le l h.bits
    have hu : PM.usizeMax = 2 ^ 64 - 1 := rfl
    omega
  unfold writeAig at hsz
  simp only [List.length_append] at hsz
  have hlt := lt_pow_of_lt_usize hsz
  refine { bits := h.bits, maxVar := h.maxVar, vars := h.vars, inputs := h.inputs, latches := h.latches,
           lits := h.lits, gates := h.gates, symbols := h.symbols, comment := h.comment,
           counts := ?_, justiceTotal := ?_, size := h.size }
  · intro x hx
    simp only [headerFields, aigHeader, List.mem_cons, List.mem_nil_iff, or_false] at hx
    rcases hx with rfl | rfl | rfl | rfl | rfl | rfl | rfl | rfl | rfl <;> omega
  · have hu : PM.usizeMax = 2 ^ 64 - 1 := rfl
    omega

/-- `WFord` without the auxiliary hypotheses. -/
structure OrdDomain (l : LitTy) (a : OrderedAig) : Prop where
  bits : l.bits ≤ 64
  maxVar : 2 * a.maxVarIndex + 1 ≤ l.maxCode
  vars : a.inputCount + a.latches.length + a.gates.length ≤ a.maxVarIndex
  latches : ∀ x ∈ a.latches, x.next ≤ 2 * a.maxVarIndex + 1
  lits : ∀ x ∈ a.outputs ++ a.bad ++ a.constraints ++ a.justice.flatten ++ a.fairness,
    x ≤ 2 * a.maxVarIndex + 1
  gates : ∀ i (g : OGate), a.gates[i]? = some g →
    g.in1 ≤ g.in0 ∧ g.in0 ≤ 2 * (a.inputCount + a.latches.length + 1 + i)
  symbols : ∀ s ∈ a.symbols, SymOk (orderedHeader a) s
  comment : ∀ c, a.comment = some c → validUtf8 c = true
  size : (binaryBytes a).length < PM.usizeMax

theorem OrdDomain.wf {l : LitTy} {a : OrderedAig} (h : OrdDomain l a) : WFord l a := by
  have hsz := h.size
  have hmid := writeMid_lengths a.outputs a.bad a.constraints a.justice a.fairness
  have hm : a.maxVarIndex < 2 ^ 63 := by
    have h1 := h.maxVar
    have h2 := maxCode_le l h.bits
    have hu : PM.usizeMax = 2 ^ 64 - 1 := rfl
    omega
  have hv := h.vars
  unfold binaryBytes at hsz
  simp only [List.length_append] at hsz
  have hlt := lt_pow_of_lt_usize hsz
  refine { bits := h.bits, maxVar := h.maxVar, vars := h.vars, latches := h.latches,
           lits := h.lits, gates := h.gates, symbols := h.symbols, comment := h.comment,
           counts := ?_, justiceTotal := ?_, size := h.size }
  · intro x hx
    simp only [headerFields, orderedHeader, List.mem_cons, List.mem_nil_iff, or_false] at hx
    rcases hx with rfl | rfl | rfl | rfl | rfl | rfl | rfl | rfl | rfl <;> omega
  · have hu : PM.usizeMax = 2 ^ 64 - 1 := rfl
    omega

end Flussab.AigerRT
