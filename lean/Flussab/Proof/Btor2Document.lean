/-
`parse ∘ write = id` for whole BTOR2 documents: the lines written one after the other by
`Line::write_into` are read back, in order, and the parser then reports a clean end.  Built on
`nextLineRest_exact` (one line) plus the two things that happen between lines and at the end: the
`skip_whitespace` that takes the newline a comment left, and the end-of-input step
(`try_node` / `comment_start` fall through, `eof` accepts, `check_io_error` is clean).
-/
import Flussab.Proof.Btor2Roundtrip

namespace Flussab
namespace Btor2
open PM

variable {E : PErr → LR → Prop} {lr : LR}

/-- A run that cannot fail returns. -/
theorem run_of_wp_false {α : Type} {m : PM α} {lr : LR} {Q : α → LR → Prop}
    (h : Wp (fun _ _ => False) m lr Q) : ∃ a lr', m.run lr = (.ok a, lr') ∧ Q a lr' := by
  unfold Wp at h
  rcases hm : m.run lr with ⟨r, lr'⟩
  rw [hm] at h
  cases r with
  | error e => exact absurd h id
  | ok a => exact ⟨a, lr', rfl, h⟩

/-! ### the newline a comment left -/

/-- `skip_whitespace` on the newline in front of the next line: exactly that newline is taken. -/
theorem skipWhitespace_nl {x : UInt8} {tl : VBytes} (hr : lr.v.rest = 10 :: x :: tl) (h32 : x ≠ 32)
    (h10 : x ≠ 10) (h1 : lr.line + 1 ≤ usizeMax) (h2 : lr.v.pos + 1 ≤ usizeMax) :
    Wp E skipWhitespace lr (fun _ lr1 => NextLine lr lr1) := by
  unfold skipWhitespace
  refine Wp.bind (Wp.get ?_)
  have hf : lr.v.rest.length + 2 = (lr.v.rest.length + 1) + 1 := by omega
  rw [hf, skipWsLoop]
  have hlen : 2 ≤ lr.v.rest.length := by rw [hr]; simp
  refine Wp.bind (Wp.bind (Wp.reqAt ?_))
  have h0 : lr.v.rest[0]? = some 10 := by rw [hr]; rfl
  rw [h0]
  split
  · rename_i heq; exact absurd heq (by decide)
  case h_3 hn32 hn10 => exact absurd rfl hn10
  refine Wp.bind (Wp.lineAtOffset ?_ ?_ ?_)
  · exact h1
  · show (lr.v.demand 0).pos + (0 + 1) ≤ usizeMax
    rw [demand_pos]; omega
  rw [skipWsLoop]
  refine Wp.bind (Wp.reqAt ?_)
  have hx1 : (lr.v.demand 0).rest[0 + 1]? = some x := by rw [demand_rest, hr]; rfl
  dsimp only
  rw [hx1]
  split
  · rename_i heq; simp only [Option.some.injEq] at heq; exact absurd heq h32
  · rename_i heq; simp only [Option.some.injEq] at heq; exact absurd heq h10
  · refine Wp.pure ?_
    rw [demand_of_lt lr.v 0 (by omega)]
    rw [demand_of_lt _ (0 + 1) (by show 0 + 1 < lr.v.rest.length; omega)]
    refine Wp.advance (demanded_ge (by show 1 ≤ lr.v.rest.length; omega) ?_) ?_
    · show lr.v.pos + 1 ≤ max (max lr.v.peeked (lr.v.pos + 0 + 1)) (lr.v.pos + (0 + 1) + 1)
      omega
    · exact ⟨rfl, rfl, rfl, rfl, rfl, rfl, by show lr.v.pos + (0 + 1) = lr.v.pos + 1; omega⟩

/-! ### the end of the input -/

/-- Nothing is left, the source did not fail, no error is parked. -/
def Done (lr : LR) : Prop := lr.v.rest = [] ∧ lr.v.fault = false ∧ lr.v.ioErr = false

theorem Done.demand (h : Done lr) (k : Nat) : Done { lr with v := lr.v.demand k } := by
  obtain ⟨h1, h2, h3⟩ := h
  have hk : ¬ k < lr.v.rest.length := by rw [h1]; simp
  rw [demand_of_ge lr.v k hk]
  exact ⟨h1, h2, by show (lr.v.ioErr || (lr.v.fault && !lr.v.sawEnd)) = false; rw [h3, h2]; rfl⟩

theorem Wp.reqAtDone (h : Done lr) (k : Nat) :
    Wp E (PM.reqAt k) lr (fun x lr1 => x = none ∧ Done lr1) :=
  Wp.reqAt ⟨by rw [h.1]; rfl, h.demand k⟩

theorem skipWhitespace_done (h : Done lr) : Wp E skipWhitespace lr (fun _ lr1 => Done lr1) := by
  unfold skipWhitespace
  refine Wp.bind (Wp.get ?_)
  have hf : lr.v.rest.length + 2 = (lr.v.rest.length + 1) + 1 := by omega
  rw [hf, skipWsLoop]
  refine Wp.bind (Wp.bind' (Wp.reqAtDone h 0) ?_)
  intro y lr1 ⟨hy, d1⟩
  subst hy
  refine Wp.pure ?_
  refine Wp.advance (Nat.zero_le _) ?_
  exact ⟨by show lr1.v.rest.drop 0 = []; rw [d1.1]; rfl, d1.2.1, d1.2.2⟩

/-- `skip_whitespace` on a final newline (the one a last comment line left). -/
theorem skipWhitespace_nl_done (hr : lr.v.rest = [10]) (hf : lr.v.fault = false) (hio : lr.v.ioErr = false)
    (h1 : lr.line + 1 ≤ usizeMax) (h2 : lr.v.pos + 1 ≤ usizeMax) :
    Wp E skipWhitespace lr (fun _ lr1 => Done lr1) := by
  unfold skipWhitespace
  refine Wp.bind (Wp.get ?_)
  have hfu : lr.v.rest.length + 2 = (lr.v.rest.length + 1) + 1 := by omega
  rw [hfu, skipWsLoop]
  refine Wp.bind (Wp.bind (Wp.reqAt ?_))
  have h0 : lr.v.rest[0]? = some 10 := by rw [hr]; rfl
  rw [h0]
  split
  · rename_i heq; exact absurd heq (by decide)
  case h_3 hn32 hn10 => exact absurd rfl hn10
  refine Wp.bind (Wp.lineAtOffset ?_ ?_ ?_)
  · exact h1
  · show (lr.v.demand 0).pos + (0 + 1) ≤ usizeMax
    rw [demand_pos]; omega
  rw [skipWsLoop]
  refine Wp.bind (Wp.reqAt ?_)
  have hx1 : (lr.v.demand 0).rest[0 + 1]? = none := by rw [demand_rest, hr]; rfl
  dsimp only
  rw [hx1]
  refine Wp.pure ?_
  rw [demand_of_lt lr.v 0 (by rw [hr]; simp)]
  rw [demand_of_ge _ (0 + 1) (by show ¬ 0 + 1 < lr.v.rest.length; rw [hr]; simp)]
  refine Wp.advance (demanded_ge (by show 1 ≤ lr.v.rest.length; rw [hr]; simp) ?_) ?_
  · show lr.v.pos + 1 ≤ max (max lr.v.peeked (lr.v.pos + 0 + 1)) (lr.v.pos + (0 + 1) + 1)
    omega
  · refine ⟨by show lr.v.rest.drop 1 = []; rw [hr]; rfl, hf, ?_⟩
    show (lr.v.ioErr || (lr.v.fault && !lr.v.sawEnd)) = false
    rw [hio, hf]; rfl

theorem uint_done (h : Done lr) : Wp E uint lr (fun r lr1 => r = none ∧ Done lr1) := by
  unfold uint
  refine Wp.bind (Wp.scan ?_)
  have hrest : lr.v.rest = [] := h.1
  have hres : (Text.asciiDigits u64Ty lr.v 0).1 = (some 0, 0) := by
    simp [Text.asciiDigits, Text.digitsCont, Text.digitsLoop, hrest]
  have hview : (Text.asciiDigits u64Ty lr.v 0).2 = lr.v.demand 0 := by
    simp [Text.asciiDigits, Text.digitsCont, Text.digitsLoop, hrest]
  rw [hres, hview]
  simp only [bne_self_eq_false, Bool.false_eq_true, ↓reduceIte]
  exact Wp.pure ⟨rfl, h.demand 0⟩

/-- At the end of the input `next_line` (after its `skip_whitespace`) reports the end of the file. -/
theorem nextLineRest_done (h : Done lr) : Wp E nextLineRest lr (fun r _ => r = none) := by
  unfold nextLineRest
  refine Wp.bind' (?_ : Wp E tryNode lr (fun r lr1 => r = none ∧ Done lr1)) ?_
  · unfold tryNode
    refine Wp.bind' (?_ : Wp E nodeId lr (fun r lr1 => r = none ∧ Done lr1)) ?_
    · show Wp E positiveInt lr _
      unfold positiveInt
      refine Wp.bind' (Wp.reqAtDone h 0) ?_
      intro y lr1 ⟨hy, d1⟩
      subst hy
      have : ((none : Option UInt8) == some 48) = false := rfl
      simp only [this, Bool.false_eq_true, ↓reduceIte]
      refine Wp.bind (Wp.setMark ?_)
      have d2 : Done { lr1 with v := lr1.v.setMark } := d1
      refine Wp.bind' (uint_done d2) ?_
      intro r lr2 ⟨hres, d3⟩
      subst hres
      exact Wp.pure ⟨rfl, d3⟩
    intro r lr1 ⟨hres, d1⟩
    subst hres
    exact Wp.pure ⟨rfl, d1⟩
  intro r lr1 ⟨hres, d1⟩
  subst hres
  dsimp only
  refine Wp.bind' (?_ : Wp E commentStart lr1 (fun r lr2 => r = none ∧ Done lr2)) ?_
  · unfold commentStart
    refine Wp.bind' (Wp.reqAtDone d1 0) ?_
    intro y lr2 ⟨hy, d2⟩
    subst hy
    have : ((none : Option UInt8) == some 59) = false := rfl
    simp only [this, Bool.false_eq_true, ↓reduceIte]
    exact Wp.pure ⟨rfl, d2⟩
  intro r lr2 ⟨hres, d2⟩
  subst hres
  dsimp only
  refine Wp.bind' (?_ : Wp E eof lr2 (fun r lr3 => r = some () ∧ Done lr3)) ?_
  · unfold eof
    refine Wp.bind' (Wp.reqAtDone d2 0) ?_
    intro y lr3 ⟨hy, d3⟩
    subst hy
    simp only [Option.isNone_none, ↓reduceIte]
    refine Wp.bind (Wp.get ?_)
    simp only [d3.2.2, Bool.not_false, ↓reduceIte]
    exact Wp.pure ⟨rfl, d3⟩
  intro r lr3 ⟨hres, d3⟩
  subst hres
  dsimp only
  unfold checkIoError
  refine Wp.bind (Wp.bind (Wp.get ?_))
  simp only [View.checkIoError]
  refine Wp.bind (Wp.set ?_)
  simp only [d3.2.2, Bool.false_eq_true, ↓reduceIte]
  refine Wp.bind (Wp.pure ?_)
  exact Wp.pure rfl

/-! ### one line of a document, then the whole document -/

/-- The bytes of a document: every line with its newline. -/
def docText (ls : List Line) : VBytes := (ls.map writeLine).flatten

theorem writeLine_length_pos (l : Line) : 0 < (writeLine l).length := by simp [writeLine]

theorem drop_writeLine (l : Line) (T : VBytes) :
    (writeLine l ++ T).drop (if l.endsInComment then (writeLine l).length - 1 else (writeLine l).length) =
      (if l.endsInComment then [10] else []) ++ T := by
  cases hc : l.endsInComment
  · simp
  · simp only [↓reduceIte]
    have hlen := writeLine_length_pos l
    have hlast : writeLine l = (writeLine l).take ((writeLine l).length - 1) ++ [10] := by
      simp only [writeLine]; simp
    rw [List.drop_append_of_le_length (by omega)]
    conv => lhs; rw [hlast]
    simp

/-- What one `next_line` does inside a document; `pending` = the cursor is still on the newline of
the previous line (which ended in a comment). -/
theorem nextLine_doc (l : Line) (hwf : l.wf = true) {T : VBytes} (pending : Bool)
    (hr : lr.v.rest = (if pending then [10] else []) ++ (writeLine l ++ T))
    (h1 : lr.line + 2 ≤ usizeMax) (h2 : lr.v.pos + lr.v.rest.length ≤ usizeMax) :
    Wp E nextLine lr (fun r lr1 => r = some l ∧
      lr1.v.rest = (if l.endsInComment then [10] else []) ++ T ∧
      lr1.v.fault = lr.v.fault ∧ lr1.v.ioErr = lr.v.ioErr ∧
      lr1.line = lr.line + (if pending then 1 else 0) + (if l.endsInComment then 0 else 1) ∧
      lr1.v.pos + lr1.v.rest.length = lr.v.pos + lr.v.rest.length) := by
  have hlen := writeLine_length_pos l
  have hnle : (if l.endsInComment then (writeLine l).length - 1 else (writeLine l).length) ≤ (writeLine l).length := by
    split <;> omega
  cases pending with
  | false =>
    simp only [Bool.false_eq_true, ↓reduceIte, List.nil_append] at hr
    have hl : lr.v.rest.length = (writeLine l).length + T.length := by rw [hr]; simp
    refine (nextLine_exact l hwf hr (by omega) (by omega)).mono ?_
    intro r lr1 ⟨hres, le⟩
    refine ⟨hres, by rw [le.rest, hr]; exact drop_writeLine l T, le.fault, le.ioErr, ?_, ?_⟩
    · rw [le.line]; cases l.endsInComment <;> simp
    · rw [le.pos, le.rest, List.length_drop]; omega
  | true =>
    simp only [↓reduceIte, List.cons_append, List.nil_append] at hr
    obtain ⟨x, tl, hx, h32, h10⟩ := writeLine_head l
    have hl : lr.v.rest.length = 1 + ((writeLine l).length + T.length) := by rw [hr]; simp; omega
    rw [nextLine_eq]
    refine Wp.bind' (skipWhitespace_nl (by rw [hr, hx]; rfl) h32 h10 (by omega) (by omega)) ?_
    intro _ mid nl
    have rm : mid.v.rest = writeLine l ++ T := by rw [nl.rest, hr]; rfl
    refine (nextLineRest_exact l hwf rm (by rw [nl.line]; omega) (by rw [nl.pos]; omega)).mono ?_
    intro r lr1 ⟨hres, le⟩
    refine ⟨hres, by rw [le.rest, rm]; exact drop_writeLine l T, le.fault.trans nl.fault,
      le.ioErr.trans nl.ioErr, ?_, ?_⟩
    · rw [le.line, nl.line]; cases l.endsInComment <;> simp only [↓reduceIte, Bool.false_eq_true, Bool.not_true, Bool.not_false] <;> omega
    · rw [le.pos, le.rest, List.length_drop, nl.pos, rm]
      simp only [List.length_append]; omega

/-- `next_line` at the end of a document (possibly still on the last comment's newline). -/
theorem nextLine_doc_end (pending : Bool) (hr : lr.v.rest = (if pending then [10] else []))
    (hf : lr.v.fault = false) (hio : lr.v.ioErr = false) (h1 : lr.line + 1 ≤ usizeMax)
    (h2 : lr.v.pos + 1 ≤ usizeMax) : Wp E nextLine lr (fun r _ => r = none) := by
  rw [nextLine_eq]
  cases pending with
  | false =>
    refine Wp.bind' (skipWhitespace_done ⟨by simpa using hr, hf, hio⟩) ?_
    intro _ lr1 d1
    exact nextLineRest_done d1
  | true =>
    refine Wp.bind' (skipWhitespace_nl_done (by simpa using hr) hf hio h1 h2) ?_
    intro _ lr1 d1
    exact nextLineRest_done d1

/-- **Driving `next_line` over a written document** returns its lines, in order, and a clean end. -/
theorem driveLines_doc : ∀ (ls : List Line), (∀ l ∈ ls, l.wf = true) →
    ∀ (fuel : Nat) (acc : List Line) (lr : LR) (pending : Bool),
    lr.v.rest = (if pending then [10] else []) ++ docText ls →
    lr.v.fault = false → lr.v.ioErr = false → ls.length < fuel →
    lr.line + ls.length + (if pending then 1 else 0) + 2 ≤ usizeMax →
    lr.v.pos + lr.v.rest.length + 1 ≤ usizeMax →
    (driveLines fuel acc lr).1 = acc.reverse ++ ls ∧ (driveLines fuel acc lr).2.1 = none := by
  intro ls
  induction ls with
  | nil =>
    intro _ fuel acc lr pending hr hf hio hfuel h1 h2
    cases fuel with
    | zero => simp at hfuel
    | succ f =>
      obtain ⟨r, lr', hrun, hres⟩ := run_of_wp_false
        (nextLine_doc_end pending (by simpa [docText] using hr) hf hio (by omega) (by omega))
      subst hres
      simp [driveLines, hrun]
  | cons l ls ih =>
    intro hwf fuel acc lr pending hr hf hio hfuel h1 h2
    cases fuel with
    | zero => simp at hfuel
    | succ f =>
      have hr' : lr.v.rest = (if pending then [10] else []) ++ (writeLine l ++ docText ls) := by
        rw [hr]; simp [docText]
      simp only [List.length_cons] at h1 hfuel
      obtain ⟨r, lr', hrun, hres, hrest, hfault, hioe, hline, hpos⟩ := run_of_wp_false
        (nextLine_doc l (hwf l (by simp)) pending hr' (by omega) (by omega))
      subst hres
      have hrec := ih (fun l' hl' => hwf l' (by simp [hl'])) f (l :: acc) lr' l.endsInComment hrest
        (by rw [hfault]; exact hf) (by rw [hioe]; exact hio) (by omega)
        (by cases pending <;> cases hc : l.endsInComment <;>
          simp only [hc, ↓reduceIte, Bool.false_eq_true] at hline h1 ⊢ <;> omega) (by omega)
      simp only [driveLines, hrun]
      refine ⟨?_, hrec.2⟩
      rw [hrec.1]; simp

end Btor2
end Flussab
