/-
Proofs of the tie between the generated symbol-table / comment readers of the two AIGER parsers
(`Gen/AigerSymbolsGen.lean` from `flussab-aiger/src/ascii.rs`, `Gen/AigerBinSymbolsGen.lean` from
`flussab-aiger/src/binary.rs`: `impl ParseSymbols`, `next_symbol` and `comment`) and `Aiger.nextSymbol`,
`Aiger.comment` of `Model/Aiger.lean`.  Statements: `Props/TieAigerSymbols.lean`.

The generated code runs in `SYM = StateT Aiger.Parser PM` and never changes the parser record; the model takes the
parser as a parameter.  Every equation has the form `(Gen.f).run p = Aiger.f p >>= fun r => pure (r, p)`.

`next_symbol`: the generated function is (by `rfl`, `ascii_shape` / `binary_shape`) the chain `genChain` of seven
copies of one alternative `genAlt sel fx k` (`if count > 0 { fixed } else { Fallthrough }.and_then(..)`), glued by
`Parsed::or_parse`.  `genAlt_run` ties one alternative to the model's `symAlt` (the checked `count - 1` cannot fail
under the guard `count > 0`, so the differently named panic sites are never reached: `usub_eq_checkedSub`);
`symTarget_cons` + `orP_assoc` turn the model's right-nested `symTarget` into the left-nested chain of the code.

`comment`: `skip_eq` compares the generated loop followed by the match on its outcome with the model's
`skipSymbols` for every fuel (both sides give `rpanic "fuel"` when it runs out: the unit gives the loop the
model's fuel `rest.length + 2` and the model's out-of-fuel value).
-/
import Flussab.Gen.AigerSymbolsGen
import Flussab.Gen.AigerBinSymbolsGen
import Flussab.Proof.TieAigerHeader

set_option linter.unusedVariables false
set_option linter.unusedSimpArgs false

namespace Flussab
namespace TieAigerSymbolsAux
open PM AigerSymbolsExt TieAigerHeaderAux

variable {α β : Type}

@[simp] theorem run_tok (x : PM α) (p : Aiger.Parser) : (tok x).run p = x >>= fun a => pure (a, p) := by
  simp [tok]
@[simp] theorem run_getS (p : Aiger.Parser) : getS.run p = (pure (p, p) : PM _) := rfl
@[simp] theorem run_getLR (p : Aiger.Parser) : getLR.run p = PMExt.getLR >>= fun a => pure (a, p) := by
  simp [getLR]
@[simp] theorem run_usub (a b : Nat) (p : Aiger.Parser) :
    (usub a b).run p = PMExt.usub a b >>= fun a => pure (a, p) := by
  simp [usub]

/-- One alternative of the generated `or_parse` chain, as the emitter writes it. -/
def genAlt (sel : Aiger.Header → Nat) (fx : PM (Option Unit)) (k : Aiger.SymKind) :
    SYM (Option (Aiger.SymKind × Nat)) := do
  let t6 ←
    if decide (sel ((← AigerSymbolsExt.getS).header) > 0) then
      let t7 ← AigerSymbolsExt.tok fx
      pure t7
    else
      pure none
  let t10 ← AigerSymbolsExt.andThen t6 fun _ => do
    let t8 ← AigerSymbolsExt.usub (sel ((← AigerSymbolsExt.getS).header)) 1
    let t9 ← AigerSymbolsExt.tok (Aiger.symbolIndex t8)
    pure (k, t9)
  pure t10

/-- The tail of the generated `next_symbol`. -/
def genTail (target : Option (Aiger.SymKind × Nat)) : SYM (Option Aiger.Symbol) := do
  match target with
  | some target =>
    let t42 ← AigerSymbolsExt.tok (Aiger.requiredSpace)
    let t43 ← AigerSymbolsExt.tok (Aiger.remainingLineContent)
    let name := t43
    pure (some ({ kind := target.1, index := target.2, name := name } : Aiger.Symbol))
  | _ =>
    pure none

/-- What follows the first alternative in the generated chain. -/
def genRest (t5 : Option (Aiger.SymKind × Nat)) : SYM (Option Aiger.Symbol) := do
  let t11 ← AigerSymbolsExt.orParse t5 (genAlt (·.outputCount) (Aiger.fixed [111]) .output)
  let t17 ← AigerSymbolsExt.orParse t11 (genAlt (·.latchCount) (Aiger.fixed [108]) .latch)
  let t23 ← AigerSymbolsExt.orParse t17 (genAlt (·.badCount) (Aiger.fixed [98]) .bad)
  let t29 ← AigerSymbolsExt.orParse t23 (genAlt (·.constraintCount) (Aiger.fixedNotEol [99]) .constraint)
  let t35 ← AigerSymbolsExt.orParse t29 (genAlt (·.justiceCount) (Aiger.fixed [106]) .justice)
  let t41 ← AigerSymbolsExt.orParse t35 (genAlt (·.fairnessCount) (Aiger.fixed [102]) .fairness)
  genTail t41

def genChain : SYM (Option Aiger.Symbol) := do
  let t1 ←
    if decide (((← AigerSymbolsExt.getS).header).inputCount > 0) then
      let t2 ← AigerSymbolsExt.tok (Aiger.fixed [105])
      pure t2
    else
      pure none
  let t5 ← AigerSymbolsExt.andThen t1 fun _ => do
    let t3 ← AigerSymbolsExt.usub (((← AigerSymbolsExt.getS).header).inputCount) 1
    let t4 ← AigerSymbolsExt.tok (Aiger.symbolIndex t3)
    pure (Aiger.SymKind.input, t4)
  genRest t5

theorem ascii_shape : Gen.AigerSymbols.nextSymbol = genChain := rfl
theorem binary_shape : Gen.AigerBinSymbols.nextSymbol = genChain := rfl


/-- One alternative on the model side: `symAlt` with the target built from the index. -/
def altPM (k : Aiger.SymKind) (count : Nat) (c : UInt8) (notEol : Bool) : PM (Option (Aiger.SymKind × Nat)) :=
  Aiger.symAlt count c notEol >>= fun r => pure (r.map fun i => (k, i))

/-- `Parsed::or_parse` on the model side. -/
def orP (t : Option α) (x : PM (Option α)) : PM (Option α) :=
  match t with
  | some a => pure (some a)
  | none => x

theorem genAlt_run (sel : Aiger.Header → Nat) (fx : PM (Option Unit)) (k : Aiger.SymKind) (c : UInt8)
    (notEol : Bool) (hfx : fx = if notEol then Aiger.fixedNotEol [c] else Aiger.fixed [c]) (p : Aiger.Parser) :
    (genAlt sel fx k).run p = altPM k (sel p.header) c notEol >>= fun r => pure (r, p) := by
  subst hfx
  unfold genAlt altPM Aiger.symAlt
  by_cases h : sel p.header > 0
  · have hs : PMExt.usub (sel p.header) 1 = Aiger.checkedSub "count - 1" (sel p.header) 1 :=
      usub_eq_checkedSub _ _ _ h
    simp [h, andThen, hs]
    apply pm_bind_congr; intro r
    cases r <;> simp [hs]
  · simp [h, andThen]

theorem orParse_run (t : Option α) (x : SYM (Option α)) (m : PM (Option α)) (p : Aiger.Parser)
    (hx : x.run p = m >>= fun r => pure (r, p)) :
    (AigerSymbolsExt.orParse t x).run p = orP t m >>= fun r => pure (r, p) := by
  cases t <;> simp [AigerSymbolsExt.orParse, orP, hx]

theorem symTarget_cons (k : Aiger.SymKind) (count : Nat) (c : UInt8) (notEol : Bool)
    (alts : List (Aiger.SymKind × Nat × UInt8 × Bool)) :
    Aiger.symTarget ((k, count, c, notEol) :: alts) =
      altPM k count c notEol >>= fun t => orP t (Aiger.symTarget alts) := by
  simp only [Aiger.symTarget, altPM, bind_assoc, pure_bind]
  apply pm_bind_congr; intro r
  cases r <;> simp [orP]

theorem symTarget_nil : Aiger.symTarget [] = pure none := rfl

theorem orP_assoc (x y z : PM (Option α)) :
    ((x >>= fun t => orP t y) >>= fun t => orP t z) = x >>= fun t => orP t (y >>= fun t => orP t z) := by
  simp only [bind_assoc]
  apply pm_bind_congr; intro r
  cases r <;> simp [orP]

theorem orP_none (x : PM (Option α)) : (x >>= fun t => orP t (pure none)) = x := by
  conv => rhs; rw [← bind_pure x]
  apply pm_bind_congr; intro r
  cases r <;> simp [orP]

theorem genAlt_fixed_run (sel : Aiger.Header → Nat) (c : UInt8) (k : Aiger.SymKind) (p : Aiger.Parser) :
    (genAlt sel (Aiger.fixed [c]) k).run p = altPM k (sel p.header) c false >>= fun r => pure (r, p) :=
  genAlt_run sel _ k c false rfl p

theorem orParse_fixed_run (t : Option (Aiger.SymKind × Nat)) (sel : Aiger.Header → Nat) (c : UInt8)
    (k : Aiger.SymKind) (p : Aiger.Parser) :
    (AigerSymbolsExt.orParse t (genAlt sel (Aiger.fixed [c]) k)).run p =
      orP t (altPM k (sel p.header) c false) >>= fun r => pure (r, p) :=
  orParse_run _ _ _ _ (genAlt_run sel _ k c false rfl p)

theorem orParse_fixedNotEol_run (t : Option (Aiger.SymKind × Nat)) (sel : Aiger.Header → Nat) (c : UInt8)
    (k : Aiger.SymKind) (p : Aiger.Parser) :
    (AigerSymbolsExt.orParse t (genAlt sel (Aiger.fixedNotEol [c]) k)).run p =
      orP t (altPM k (sel p.header) c true) >>= fun r => pure (r, p) :=
  orParse_run _ _ _ _ (genAlt_run sel _ k c true rfl p)

theorem genChain_eq : genChain = genAlt (·.inputCount) (Aiger.fixed [105]) .input >>= genRest := by
  unfold genChain genAlt
  simp only [bind_assoc, pure_bind]
  congr 1; funext x
  by_cases h : x.header.inputCount > 0 <;> simp [h]

theorem genTail_run (t : Option (Aiger.SymKind × Nat)) (p : Aiger.Parser) :
    (genTail t).run p = (match t with
      | some (kind, index) => do
        Aiger.requiredSpace
        let name ← Aiger.remainingLineContent
        pure (some ({ kind, index, name } : Aiger.Symbol))
      | none => pure none) >>= fun r => pure (r, p) := by
  unfold genTail
  cases t with
  | none => simp
  | some t => rcases t with ⟨k, i⟩; simp

theorem genChain_run (p : Aiger.Parser) :
    genChain.run p = Aiger.nextSymbol p >>= fun r => pure (r, p) := by
  rw [genChain_eq]
  unfold genRest Aiger.nextSymbol
  simp only [Aiger.symKinds, symTarget_cons]
  simp only [symTarget_nil, orP_none]
  simp only [← orP_assoc]
  simp only [StateT.run_bind, genAlt_fixed_run, orParse_fixed_run, orParse_fixedNotEol_run, genTail_run,
    bind_assoc, pure_bind]
  rfl

theorem nextSymbol_eq (p : Aiger.Parser) :
    Gen.AigerSymbols.nextSymbol.run p = Aiger.nextSymbol p >>= fun r => pure (r, p) := by
  rw [ascii_shape]; exact genChain_run p

theorem nextSymbolBin_eq (p : Aiger.Parser) :
    Gen.AigerBinSymbols.nextSymbol.run p = Aiger.nextSymbol p >>= fun r => pure (r, p) := by
  rw [binary_shape]; exact genChain_run p

/-! ### `comment` -/

theorem rpanic_bind {γ δ : Type} (site : String) (f : γ → PM δ) : ((PM.rpanic site : PM γ) >>= f) = PM.rpanic site := by
  funext lr
  rw [PM.bind_apply]
  rfl

theorem rpanic_map {γ δ : Type} (site : String) (f : γ → δ) : (f <$> (PM.rpanic site : PM γ)) = PM.rpanic site := by
  rw [← bind_pure_comp]; exact rpanic_bind _ _

/-- The loop `while self.next_symbol()?.is_some() {}` followed by `K`: the generated loop and the model's
`skipSymbols` agree for every fuel (both give `rpanic "fuel"` when it runs out). -/
theorem skip_eq (gn : SYM (Option Aiger.Symbol))
    (hn : ∀ p, gn.run p = Aiger.nextSymbol p >>= fun r => pure (r, p))
    (L : Nat → Unit → SYM (Ctl Unit β))
    (hL0 : L 0 () = pure Ctl.fuel)
    (hL : ∀ f, L (f + 1) () = do
      let t1 ← gn
      if !((t1).isSome) then
        return (Ctl.brk ())
      L f ())
    (K : Ctl Unit β → SYM β) (rest : SYM β) (hKb : K (Ctl.brk ()) = rest)
    (hKf : K Ctl.fuel = AigerSymbolsExt.tok (PM.rpanic "fuel")) :
    ∀ (f : Nat) (p : Aiger.Parser), (L f () >>= K).run p = Aiger.skipSymbols p f >>= fun _ => rest.run p := by
  intro f
  induction f with
  | zero =>
    intro p
    rw [hL0]
    simp [hKf, Aiger.skipSymbols, rpanic_bind, rpanic_map]
  | succ f ih =>
    intro p
    have := ih p
    rw [hL, Aiger.skipSymbols]
    simp only [StateT.run_bind] at this
    simp [hn]
    apply pm_bind_congr; intro r
    cases r with
    | none => simp [hKb]
    | some v => simpa using this

theorem comment_gen_eq (gn : SYM (Option Aiger.Symbol))
    (hn : ∀ p, gn.run p = Aiger.nextSymbol p >>= fun r => pure (r, p))
    (L : Nat → Unit → SYM (Ctl Unit (Option VBytes)))
    (hL0 : L 0 () = pure Ctl.fuel)
    (hL : ∀ f, L (f + 1) () = do
      let t1 ← gn
      if !((t1).isSome) then
        return (Ctl.brk ())
      L f ())
    (K : Ctl Unit (Option VBytes) → SYM (Option VBytes)) (g : SYM (Option VBytes))
    (hg : g = do
      let r2 ← L ((← AigerSymbolsExt.getLR).v.rest.length + 2) ()
      K r2)
    (hKb : K (Ctl.brk ()) = do
      let t3 ← AigerSymbolsExt.tok (Aiger.fixed [99])
      if (t3).isSome then
        let t4 ← AigerSymbolsExt.tok (Aiger.requiredNewline)
        let t5 ← AigerSymbolsExt.tok (Aiger.remainingFileContent)
        let comment := t5
        pure (some comment)
      else
        let t6 ← AigerSymbolsExt.tok (Aiger.eof)
        let t7 ← AigerSymbolsExt.orGiveUp t6 do
          AigerSymbolsExt.tok (Aiger.unexpected)
        pure none)
    (hKf : K Ctl.fuel = AigerSymbolsExt.tok (PM.rpanic "fuel")) (p : Aiger.Parser) :
    g.run p = Aiger.comment p >>= fun r => pure (r, p) := by
  subst hg
  have h := skip_eq gn hn L hL0 hL K _ hKb hKf
  simp only [StateT.run_bind] at h
  simp [h, Aiger.comment, PMExt.getLR]
  apply pm_bind_congr; intro lr
  apply pm_bind_congr; intro _
  apply pm_bind_congr; intro t3
  cases t3 with
  | some u => simp
  | none =>
    simp [PM.orGiveUp]
    apply pm_bind_congr; intro t6
    cases t6 with
    | some u => simp [AigerSymbolsExt.orGiveUp]
    | none => simp [AigerSymbolsExt.orGiveUp, unexpected_bind_h]

theorem comment_eq (p : Aiger.Parser) :
    Gen.AigerSymbols.comment.run p = Aiger.comment p >>= fun r => pure (r, p) :=
  comment_gen_eq _ nextSymbol_eq Gen.AigerSymbols.comment.loop1 rfl (fun f => rfl) _ Gen.AigerSymbols.comment rfl
    rfl rfl p

theorem commentBin_eq (p : Aiger.Parser) :
    Gen.AigerBinSymbols.comment.run p = Aiger.comment p >>= fun r => pure (r, p) :=
  comment_gen_eq _ nextSymbolBin_eq Gen.AigerBinSymbols.comment.loop1 rfl (fun f => rfl) _
    Gen.AigerBinSymbols.comment rfl rfl rfl p

end TieAigerSymbolsAux
end Flussab
