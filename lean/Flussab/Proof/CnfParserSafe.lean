/-
Safety of the DIMACS-family parsers (`Model/Cnf.lean`): header, `Parser::new`, `next_clause` for
the three clause formats, the whole-document driver, and the SAT solver log parser.  Same shape as
`Proof/CnfSafe.lean`: invariant preserved, no panic, fuel never runs out, progress on success.
In addition: a clean end (`next_clause = None`, `parse_log = Ok`) is only reported for a source
that did not fail (C04), and a returned clause is no longer than the bytes consumed for it.
-/
import Flussab.Proof.CnfSafe

namespace Flussab
namespace Cnf
open PM Lines

variable {b : VBytes} {f : Bool} {lr : LR}

/-- `p.or_give_up(unexpected)` for a line-level token: it consumed something. -/
theorem orGiveUp_line {α : Type} {p : PM (Option α)} (h : Wp (Err b f) p lr (LinePost b f lr)) :
    Wp (Err b f) (orGiveUp p unexpected) lr (fun _ lr1 => Inv b f lr1 ∧ lr.v.pos < lr1.v.pos) := by
  refine Wp.orGiveUp (h.mono ?_)
  intro r lr1 ⟨i1, p1, s1⟩
  cases r with
  | some a => exact ⟨i1, s1 rfl⟩
  | none => exact unexpected_ok i1

/-- `interactive_end_of_line(..).or_give_up(unexpected)`. -/
theorem orGiveUp_eol (h : Inv b f lr) :
    Wp (Err b f) (orGiveUp interactiveEndOfLine unexpected) lr
      (fun _ lr1 => Inv b f lr1 ∧ lr.v.pos ≤ lr1.v.pos) := by
  refine Wp.orGiveUp ((interactiveEndOfLine_ok h).mono ?_)
  intro r lr1 ⟨i1, p1, _⟩
  cases r with
  | some a => exact ⟨i1, p1⟩
  | none => exact unexpected_ok i1

theorem headerSkipLoop_ok (fuel : Nat) (h : Inv b f lr) (hf : lr.v.rest.length < fuel) :
    Wp (Err b f) (headerSkipLoop fuel) lr (fun _ lr1 => Inv b f lr1 ∧ lr.v.pos ≤ lr1.v.pos) := by
  induction fuel generalizing lr with
  | zero => omega
  | succ n ih =>
    unfold headerSkipLoop
    refine Wp.bind' (matches_line (comment_ok h)) ?_
    intro c lr1 ⟨i1, p1, s1⟩
    split
    · rename_i hc
      have hlt := h.toBase.rest_lt i1.toBase (s1 hc)
      refine (ih i1 (by omega)).mono ?_
      intro _ lr2 ⟨i2, p2⟩
      exact ⟨i2, by omega⟩
    · refine Wp.bind' (matches_line (newline_ok i1)) ?_
      intro c2 lr2 ⟨i2, p2, s2⟩
      split
      · rename_i hc
        have hlt := h.toBase.rest_lt i2.toBase (by have := s2 hc; omega)
        refine (ih i2 (by omega)).mono ?_
        intro _ lr3 ⟨i3, p3⟩
        exact ⟨i3, by omega⟩
      · exact Wp.pure ⟨i2, by omega⟩

theorem keyword_no_lf (fmt : Format) : ∀ x ∈ keyword fmt, x ≠ 10 := by
  cases fmt <;> decide

theorem parseHeader_ok (fmt : Format) (l : LitTy) (h : Inv b f lr) :
    Wp (Err b f) (parseHeader fmt l) lr (fun _ lr1 => Inv b f lr1 ∧ lr.v.pos ≤ lr1.v.pos) := by
  unfold parseHeader
  refine Wp.bind' (skipWhitespace_ok h) ?_
  intro _ lr1 ⟨i1, f1⟩
  have p1 := f1.pos
  refine Wp.bind (Wp.get ?_)
  refine Wp.bind' (headerSkipLoop_ok _ i1 (by omega)) ?_
  intro _ lr2 ⟨i2, p2⟩
  refine Wp.bind' (word_ok [112] (by decide) i2) ?_
  intro r lr3 ⟨i3, f3, _⟩
  have p3 := f3.pos
  split
  · exact Wp.pure ⟨i3, by omega⟩
  · refine Wp.bind' (orGiveUp_line ((word_ok (keyword fmt) (keyword_no_lf fmt) i3).mono
      (fun _ _ hw => hw.line))) ?_
    intro _ lr4 ⟨i4, p4⟩
    refine Wp.bind' (orGiveUp_line (varCount_ok l i4)) ?_
    intro vc lr5 ⟨i5, p5⟩
    refine Wp.bind' (orGiveUp_line (uintCount_ok usizeTy i5)) ?_
    intro cc lr6 ⟨i6, p6⟩
    have tail : ∀ (ex : Int) (lr7 : LR), Inv b f lr7 → lr6.v.pos ≤ lr7.v.pos →
        Wp (Err b f) (do
            orGiveUp interactiveEndOfLine unexpected
            pure (some ({ varCount := vc, clauseCount := cc, extra := ex } : Header))) lr7
          (fun _ lr1 => Inv b f lr1 ∧ lr.v.pos ≤ lr1.v.pos) := by
      intro ex lr7 i7 p7
      refine Wp.bind' (orGiveUp_eol i7) ?_
      intro _ lr8 ⟨i8, p8⟩
      exact Wp.pure ⟨i8, by omega⟩
    cases fmt <;> dsimp only
    · exact Wp.bind' (Q1 := fun _ lr7 => Inv b f lr7 ∧ lr6.v.pos ≤ lr7.v.pos)
        (Wp.pure ⟨i6, Nat.le_refl _⟩) (fun ex lr7 h7 => tail ex lr7 h7.1 h7.2)
    · exact Wp.bind' (orGiveUp_line (uintCount_ok u64Ty i6))
        (fun ex lr7 h7 => tail ex lr7 h7.1 (Nat.le_of_lt h7.2))
    · exact Wp.bind' (orGiveUp_line (uintCount_ok usizeTy i6))
        (fun ex lr7 h7 => tail ex lr7 h7.1 (Nat.le_of_lt h7.2))

theorem parserNew_ok (fmt : Format) (l : LitTy) (ignoreHeader : Bool) (h : Inv b f lr) :
    Wp (Err b f) (Parser.new fmt l ignoreHeader) lr
      (fun _ lr1 => Inv b f lr1 ∧ lr.v.pos ≤ lr1.v.pos) := by
  unfold Parser.new
  refine Wp.bind' (parseHeader_ok fmt l h) ?_
  intro r lr1 ⟨i1, p1⟩
  split
  · exact Wp.pure ⟨i1, p1⟩
  · exact Wp.pure ⟨i1, p1⟩

/-- Postcondition of the clause alternative. -/
abbrev ClausePost (b : VBytes) (f : Bool) (lr : LR) (r : Option Clause) (lr1 : LR) : Prop :=
  Inv b f lr1 ∧ lr.v.pos ≤ lr1.v.pos ∧ (r.isSome = true → lr.v.pos < lr1.v.pos) ∧
  (∀ c, r = some c → c.lits.length + lr.v.pos ≤ lr1.v.pos)

/-- The part of `clauseAlt` after the weight / group: linebreaks, literals, end of line. -/
theorem clauseRest_ok (l : LitTy) (limit : Int) (tag : Int) {lr0 : LR} (h : Inv b f lr)
    (hp : lr0.v.pos < lr.v.pos) :
    Wp (Err b f) (do
        let _ ← nonTerminatingLinebreaks
        let lits ← orGiveUp (clauseLits l limit) unexpected
        orGiveUp interactiveEndOfLine unexpected
        pure (some ({ tag := tag, lits } : Clause))) lr (ClausePost b f lr0) := by
  refine Wp.bind' (nonTerminatingLinebreaks_ok h) ?_
  intro _ lr1 ⟨i1, p1, _⟩
  refine Wp.bind' (Q1 := fun lits lr2 => Inv b f lr2 ∧ lits.length + lr1.v.pos ≤ lr2.v.pos)
    (Wp.orGiveUp ((clauseLits_ok l limit i1).mono ?_)) ?_
  · intro r lr2 ⟨i2, p2, _, l2⟩
    cases r with
    | some a => exact ⟨i2, l2 a rfl⟩
    | none => exact unexpected_ok i2
  · intro lits lr2 ⟨i2, l2⟩
    refine Wp.bind' (orGiveUp_eol i2) ?_
    intro _ lr3 ⟨i3, p3⟩
    refine Wp.pure ⟨i3, by omega, fun _ => by omega, fun c hc => ?_⟩
    simp only [Option.some.injEq] at hc
    subst hc; simp only; omega

theorem clauseAlt_ok (p : Parser) (h : Inv b f lr) :
    Wp (Err b f) (clauseAlt p) lr (ClausePost b f lr) := by
  unfold clauseAlt
  split
  · refine Wp.bind' (clauseLits_ok p.lit p.litLimit h) ?_
    intro r lr1 ⟨i1, p1, s1, l1⟩
    split
    · exact Wp.pure ⟨i1, p1, by simp, by simp⟩
    · rename_i lits
      refine Wp.bind' (orGiveUp_eol i1) ?_
      intro _ lr2 ⟨i2, p2⟩
      have := s1 rfl
      have := l1 lits rfl
      refine Wp.pure ⟨i2, by omega, fun _ => by omega, fun c hc => ?_⟩
      simp only [Option.some.injEq] at hc
      subst hc; simp only; omega
  · refine Wp.bind' (uintCount_ok u64Ty h) ?_
    intro r lr1 ⟨i1, p1, s1⟩
    split
    · exact Wp.pure ⟨i1, p1, by simp, by simp⟩
    · exact clauseRest_ok p.lit p.litLimit _ i1 (s1 rfl)
  · refine Wp.bind' (clauseGroup_ok p.groupLimit h) ?_
    intro r lr1 ⟨i1, p1, s1⟩
    split
    · exact Wp.pure ⟨i1, p1, by simp, by simp⟩
    · exact clauseRest_ok p.lit p.litLimit _ i1 (s1 rfl)

/-- Postcondition of `next_clause`: a clause consumed at least one byte and is no longer than
what was consumed; `None` (clean end) only at the end of a source that did not fail. -/
abbrev NextPost (b : VBytes) (f : Bool) (lr : LR) (r : Option Clause × Parser) (lr1 : LR) : Prop :=
  Inv b f lr1 ∧ lr.v.pos ≤ lr1.v.pos ∧
  (∀ c, r.1 = some c → lr.v.pos < lr1.v.pos ∧ c.lits.length + lr.v.pos ≤ lr1.v.pos) ∧
  (r.1 = none → f = false ∧ lr1.v.sawEnd = true)

theorem nextClauseLoop_ok (p : Parser) (fuel : Nat) (h : Inv b f lr)
    (hf : lr.v.rest.length < fuel) :
    Wp (Err b f) (nextClauseLoop p fuel) lr (NextPost b f lr) := by
  induction fuel generalizing lr with
  | zero => omega
  | succ n ih =>
    unfold nextClauseLoop
    dsimp only
    split
    case' isTrue => refine Wp.bind' (clauseAlt_ok p h) ?_
    case' isFalse =>
      refine Wp.bind' (Q1 := ClausePost b f lr) (Wp.pure ⟨h, Nat.le_refl _, by simp, by simp⟩) ?_
    all_goals
      intro c lr1 ⟨i1, p1, s1, l1⟩
      split
      · rename_i c'
        refine Wp.pure ⟨i1, p1, fun c2 hc2 => ?_, by simp⟩
        simp only [Option.some.injEq] at hc2
        subst hc2
        exact ⟨s1 rfl, l1 _ rfl⟩
      · refine Wp.bind' (matches_line (comment_ok i1)) ?_
        intro m lr2 ⟨i2, p2, s2⟩
        split
        · rename_i hm
          have hlt := h.toBase.rest_lt i2.toBase (by have := s2 hm; omega)
          refine (ih i2 (by omega)).mono ?_
          intro r lr3 ⟨i3, p3, c3, e3⟩
          exact ⟨i3, by omega, fun c hc => by have := c3 c hc; omega, e3⟩
        · refine Wp.bind' (matches_line (newline_ok i2)) ?_
          intro m2 lr3 ⟨i3, p3, s3⟩
          split
          · rename_i hm
            have hlt := h.toBase.rest_lt i3.toBase (by have := s3 hm; omega)
            refine (ih i3 (by omega)).mono ?_
            intro r lr4 ⟨i4, p4, c4, e4⟩
            exact ⟨i4, by omega, fun c hc => by have := c4 c hc; omega, e4⟩
          · split
            · refine Wp.bind' (Wp.matches (Q := fun m lr4 => Inv b f lr4 ∧ lr3.v.pos = lr4.v.pos ∧
                  (m = true → f = false ∧ lr4.v.sawEnd = true)) ((eof_ok i3).mono ?_)) ?_
              · intro r lr4 ⟨i4, _, p4, s4⟩
                exact ⟨i4, p4.symm, s4⟩
              · intro m3 lr4 ⟨i4, p4, s4⟩
                split
                · rename_i hm
                  exact Wp.pure ⟨i4, by omega, by simp, fun _ => s4 hm⟩
                · exact unexpected_ok i4
            · exact unexpected_ok i3

theorem nextClause_ok (p : Parser) (h : Inv b f lr) :
    Wp (Err b f) p.nextClause lr (NextPost b f lr) := by
  unfold Parser.nextClause
  refine Wp.bind' (skipWhitespace_ok h) ?_
  intro _ lr1 ⟨i1, f1⟩
  have := f1.pos
  refine Wp.bind (Wp.get ?_)
  refine (nextClauseLoop_ok p _ i1 (by omega)).mono ?_
  intro r lr2 ⟨i2, p2, c2, e2⟩
  exact ⟨i2, by omega, fun c hc => by have := c2 c hc; omega, e2⟩

/-- The driver: fuel `rest.length + 1` suffices; the final outcome is a clean end (only for a
source that did not fail) or an error satisfying `Err`; every delivered clause is no longer
than the input. -/
theorem driveClauses_ok (fuel : Nat) (p : Parser) (acc : List Clause) (h : Inv b f lr)
    (hf : lr.v.rest.length < fuel) :
    (∀ e, (driveClauses fuel p acc lr).2.1 = some e → Err b f e (driveClauses fuel p acc lr).2.2) ∧
    ((driveClauses fuel p acc lr).2.1 = none → f = false) := by
  induction fuel generalizing lr p acc with
  | zero => omega
  | succ n ih =>
    obtain ⟨hok, herr⟩ := (nextClause_ok p h).of_run
    unfold driveClauses
    rcases hr : p.nextClause.run lr with ⟨_ | ⟨oc, p'⟩, lr'⟩
    · rename_i e
      simp only
      exact ⟨fun e' he' => by simp only [Option.some.injEq] at he'; subst he'; exact herr _ _ hr,
        by simp⟩
    · obtain ⟨i1, p1, c1, e1⟩ := hok _ _ hr
      cases oc with
      | none =>
        simp only
        exact ⟨by simp, fun _ => (e1 rfl).1⟩
      | some c =>
        simp only
        have hlt := h.toBase.rest_lt i1.toBase (c1 c rfl).1
        exact ih p' (c :: acc) i1 (by omega)

/-- `parseAll` with the reader state in which it ended (the state at the error, if any). -/
def parseAllS (fmt : Format) (l : LitTy) (ignoreHeader : Bool) (lr : LR) : Run Clause × LR :=
  match (Parser.new fmt l ignoreHeader).run lr with
  | (.error e, lr') => ({ final := some e }, lr')
  | (.ok p, lr') =>
    let r := driveClauses (lr'.v.rest.length + 2) p [] lr'
    ({ header := p.header, items := r.1, final := r.2.1 }, r.2.2)

theorem parseAllS_fst (fmt : Format) (l : LitTy) (ignoreHeader : Bool) (lr : LR) :
    (parseAllS fmt l ignoreHeader lr).1 = parseAll fmt l ignoreHeader lr := by
  unfold parseAllS parseAll
  rcases (Parser.new fmt l ignoreHeader).run lr with ⟨_ | p, lr'⟩ <;> rfl

theorem parseAllS_ok (fmt : Format) (l : LitTy) (ignoreHeader : Bool) (h : Inv b f lr) :
    (∀ e, (parseAllS fmt l ignoreHeader lr).1.final = some e →
        Err b f e (parseAllS fmt l ignoreHeader lr).2) ∧
    ((parseAllS fmt l ignoreHeader lr).1.final = none → f = false) := by
  obtain ⟨hok, herr⟩ := (parserNew_ok fmt l ignoreHeader h).of_run
  unfold parseAllS
  rcases hr : (Parser.new fmt l ignoreHeader).run lr with ⟨e | p, lr'⟩
  · simp only
    exact ⟨fun e' he' => by simp only [Option.some.injEq] at he'; subst he'; exact herr _ _ hr,
      by simp⟩
  · simp only
    obtain ⟨i1, _⟩ := hok _ _ hr
    exact driveClauses_ok _ p [] i1 (by omega)

/-! ### SAT solver log -/

theorem strictCommentLoop_ok (fuel : Nat) (h : Inv b f lr) (hf : lr.v.rest.length < fuel) :
    Wp (Err b f) (strictCommentLoop fuel) lr (fun _ lr1 => Inv b f lr1 ∧ lr.v.pos ≤ lr1.v.pos) := by
  induction fuel generalizing lr with
  | zero => omega
  | succ n ih =>
    unfold strictCommentLoop
    refine Wp.bind' (matches_line (interactiveStrictComment_ok h)) ?_
    intro c lr1 ⟨i1, p1, s1⟩
    split
    · rename_i hc
      have hlt := h.toBase.rest_lt i1.toBase (s1 hc)
      refine (ih i1 (by omega)).mono ?_
      intro _ lr2 ⟨i2, p2⟩
      exact ⟨i2, by omega⟩
    · exact Wp.pure ⟨i1, p1⟩

theorem valueLoop_ok (l : LitTy) (fuel : Nat) (st : LogState) (h : Inv b f lr)
    (hf : lr.v.rest.length < fuel) :
    Wp (Err b f) (valueLoop l fuel st) lr (fun _ lr1 => Inv b f lr1 ∧ lr.v.pos ≤ lr1.v.pos) := by
  induction fuel generalizing lr st with
  | zero => omega
  | succ n ih =>
    unfold valueLoop
    refine Wp.bind' (setMark_ok h) ?_
    intro _ lr1 ⟨i1, m1, p1⟩
    refine Wp.bind' (litInt_ok i1 m1) ?_
    intro r lr2 ⟨i2, f2, s2⟩
    have hp2 := f2.pos
    split
    · exact Wp.pure ⟨i2, by omega⟩
    · split
      · exact Wp.pure ⟨i2, by omega⟩
      · split
        · have hlt := h.toBase.rest_lt i2.toBase (by have := s2 rfl; omega)
          refine (ih _ i2 (by omega)).mono ?_
          intro _ lr3 ⟨i3, p3⟩
          exact ⟨i3, by omega⟩
        · exact exceedsVarCount_ok i2 (m1.fwd f2)

/-- `fixed(pat)` mapped to a constant: a line-level token. -/
theorem fixed_then {β : Type} (pat : VBytes) (hpat : ∀ x ∈ pat, x ≠ 10)
    (g : Option Unit → PM (Option β)) (hs : ∃ v, g (some ()) = pure (some v))
    (hn : g none = pure none) (h : Inv b f lr) :
    Wp (Err b f) (Cnf.fixed pat >>= g) lr (LinePost b f lr) := by
  refine Wp.bind' (fixed_ok pat hpat h) ?_
  intro r lr1 ⟨i1, f1, s1⟩
  cases r with
  | none => rw [hn]; exact Wp.pure ⟨i1, f1.pos, by simp⟩
  | some u =>
    obtain ⟨v, hv⟩ := hs
    cases u
    rw [hv]; exact Wp.pure ⟨i1, f1.pos, fun _ => s1 rfl⟩

/-- The log loop: fuel `rest.length + 1` suffices (every round consumes at least the `"v "` /
`"s "` prefix or a skipped line), and it returns only at the clean end of a source that did not
fail. -/
theorem logLoop_ok (l : LitTy) (ig : Bool) (fuel : Nat) (st : LogState) (h : Inv b f lr)
    (hf : lr.v.rest.length < fuel) :
    Wp (Err b f) (logLoop l ig fuel st) lr
      (fun _ lr1 => Inv b f lr1 ∧ lr.v.pos ≤ lr1.v.pos ∧ f = false) := by
  induction fuel generalizing lr st with
  | zero => omega
  | succ n ih =>
    unfold logLoop
    dsimp only
    refine Wp.bind (Wp.get ?_)
    refine Wp.bind' (strictCommentLoop_ok _ h (by omega)) ?_
    intro _ lr1 ⟨i1, p1⟩
    split
    case' isTrue =>
      refine Wp.bind' (matches_line ((fixed_ok [118, 32] (by decide) i1).mono
        (fun _ _ hw => hw.line))) ?_
    case' isFalse =>
      refine Wp.bind' (Q1 := fun c lr2 => Inv b f lr2 ∧ lr1.v.pos ≤ lr2.v.pos ∧
        (c = true → lr1.v.pos < lr2.v.pos)) (Wp.pure ⟨i1, Nat.le_refl _, by simp⟩) ?_
    all_goals
      intro isV lr2 ⟨i2, p2, s2⟩
      split
      · -- a value line
        rename_i hv
        refine Wp.bind' (skipWhitespace_ok i2) ?_
        intro _ lr3 ⟨i3, f3⟩
        have p3 := f3.pos
        refine Wp.bind (Wp.get ?_)
        refine Wp.bind' (valueLoop_ok l _ _ i3 (by omega)) ?_
        intro st' lr4 ⟨i4, p4⟩
        refine Wp.bind' (orGiveUp_eol i4) ?_
        intro _ lr5 ⟨i5, p5⟩
        have hlt := h.toBase.rest_lt i5.toBase (by have := s2 hv; omega)
        refine (ih _ i5 (by omega)).mono ?_
        intro r lr6 ⟨i6, p6, e6⟩
        exact ⟨i6, by omega, e6⟩
      · split
        case' isTrue =>
          refine Wp.bind' (matches_line ((fixed_ok [115, 32] (by decide) i2).mono
            (fun _ _ hw => hw.line))) ?_
        case' isFalse =>
          refine Wp.bind' (Q1 := fun c lr3 => Inv b f lr3 ∧ lr2.v.pos ≤ lr3.v.pos ∧
            (c = true → lr2.v.pos < lr3.v.pos)) (Wp.pure ⟨i2, Nat.le_refl _, by simp⟩) ?_
        all_goals
          intro isS lr3 ⟨i3, p3, s3⟩
          split
          · -- the status line
            rename_i hs
            refine Wp.bind' (Q1 := fun _ lr4 => Inv b f lr4 ∧ lr3.v.pos ≤ lr4.v.pos)
              (Wp.orGiveUp ?_) ?_
            · refine Wp.bind' (Q1 := LinePost b f lr3) ?_ ?_
              · exact orParse_line
                  (fun _ h' => fixed_then _ (by decide) _ ⟨_, rfl⟩ rfl h')
                  (fun _ h' => orParse_line
                    (fun _ h'' => fixed_then _ (by decide) _ ⟨_, rfl⟩ rfl h'')
                    (fun _ h'' => fixed_then _ (by decide) _ ⟨_, rfl⟩ rfl h'') h') i3
              · intro r lr4 ⟨i4, p4, _⟩
                split
                · refine Wp.bind' (orGiveUp_eol i4) ?_
                  intro _ lr5 ⟨i5, p5⟩
                  exact Wp.pure ⟨i5, by omega⟩
                · exact Wp.pure (unexpected_ok i4)
            · intro sat lr4 ⟨i4, p4⟩
              have hlt := h.toBase.rest_lt i4.toBase (by have := s3 hs; omega)
              refine (ih _ i4 (by omega)).mono ?_
              intro r lr5 ⟨i5, p5, e5⟩
              exact ⟨i5, by omega, e5⟩
          · refine Wp.bind' (Wp.matches (Q := fun m lr4 => Inv b f lr4 ∧ lr3.v.pos = lr4.v.pos ∧
                (m = true → f = false)) ((eof_ok i3).mono ?_)) ?_
            · intro r lr4 ⟨i4, _, p4, s4⟩
              exact ⟨i4, p4.symm, fun hm => (s4 hm).1⟩
            · intro m lr4 ⟨i4, p4, s4⟩
              split
              · rename_i hm
                split
                · exact unexpected_ok i4
                · exact Wp.pure ⟨i4, by omega, s4 hm⟩
              · split
                case' isTrue =>
                  refine Wp.bind' (matches_line (interactiveSkipLine_ok i4)) ?_
                case' isFalse =>
                  refine Wp.bind' (Q1 := fun c lr5 => Inv b f lr5 ∧ lr4.v.pos ≤ lr5.v.pos ∧
                    (c = true → lr4.v.pos < lr5.v.pos)) (Wp.pure ⟨i4, Nat.le_refl _, by simp⟩) ?_
                all_goals
                  intro sk lr5 ⟨i5, p5, s5⟩
                  split
                  · rename_i hsk
                    have hlt := h.toBase.rest_lt i5.toBase (by have := s5 hsk; omega)
                    refine (ih _ i5 (by omega)).mono ?_
                    intro r lr6 ⟨i6, p6, e6⟩
                    exact ⟨i6, by omega, e6⟩
                  · exact unexpected_ok i5

/-- `parse_log`: never panics; returns only for a source that did not fail. -/
theorem parseLog_ok (l : LitTy) (ig : Bool) (h : Inv b f lr) :
    Wp (Err b f) (parseLog l ig) lr (fun _ lr1 => Inv b f lr1 ∧ f = false) := by
  unfold parseLog
  refine Wp.bind (Wp.get ?_)
  refine Wp.bind' (logLoop_ok l ig _ _ h (by omega)) ?_
  intro st lr1 ⟨i1, _, e1⟩
  exact Wp.pure ⟨i1, e1⟩

end Cnf
end Flussab
