/-
Length accounting for binary AIGER files.  The latch lines and the delta-coded and gates are
written relative to the running next-literal counter, so the cost of item `i` is stated relative
to the counter value it is read at (`CodeAll`).
-/
import Flussab.Proof.AigerConverseLenParse

namespace Flussab
namespace Aiger
open PM AigerRT

/-- `k` bytes pay for the items `xs`, item by item, where the price `P` of an item depends on the
running counter (which advances by two per item, wrapping). -/
def CodeAll {α : Type} (P : Nat → α → Nat → Prop) : Nat → List α → Nat → Prop
  | _, [], _ => True
  | code, x :: xs, k => ∃ k1 k2, k1 + k2 ≤ k ∧ P code x k1 ∧ CodeAll P ((code + 2) % 2 ^ 64) xs k2

/-- A step of a binary section with its cost. -/
def CodeCon {α : Type} (P : Nat → LitTy → α → Nat → Prop) (next : St → PM (Option α × St)) : Prop :=
  ∀ s, Con (next s) (fun r k => match r.1 with
    | some a => P s.p.code s.p.lit a k ∧ r.2.p = { s.p with code := (s.p.code + 2) % 2 ^ 64 }
    | none => True)

theorem whileSome_codecon {α : Type} {P : Nat → LitTy → α → Nat → Prop}
    {next : St → PM (Option α × St)} (h : CodeCon P next) :
    ∀ (fuel : Nat) (s : St) (acc : List α),
      Con (whileSome next fuel s acc) (fun r k => ∃ xs, r.1 = acc.reverse ++ xs ∧
        CodeAll (fun c => P c s.p.lit) s.p.code xs k) := by
  intro fuel
  induction fuel with
  | zero => intro s acc; unfold whileSome; exact Con.of_fails (fails_rpanic _)
  | succ fuel ih =>
    intro s acc
    unfold whileSome
    refine Con.bind (h s) fun r k1 hr => ?_
    obtain ⟨o, s'⟩ := r
    cases o with
    | none =>
      simp only
      exact Con.pure ⟨[], by simp, trivial⟩
    | some a =>
      simp only at hr ⊢
      obtain ⟨hp, hs'⟩ := hr
      refine Con.mono (ih s' (a :: acc)) ?_
      rintro ⟨ys, s''⟩ k2 ⟨xs, hxs, hall⟩
      simp only at hxs ⊢
      rw [hs'] at hall
      exact ⟨a :: xs, by rw [hxs]; simp, k1, k2, Nat.le_refl _, hp, hall⟩

/-- From item prices to the length of the rendered items. -/
theorem codeAll_render {α : Type} {P : Nat → α → Nat → Prop} (f : Nat → α → VBytes) :
    ∀ (xs : List α) (code k : Nat), code < 2 ^ 64 → CodeAll P code xs k →
      (∀ i x k1, xs[i]? = some x → P ((code + 2 * i) % 2 ^ 64) x k1 →
        (f ((code + 2 * i) % 2 ^ 64) x).length ≤ k1) →
      (renderCode f code xs).length ≤ k := by
  intro xs
  induction xs with
  | nil => intro code k _ _ _; simp [renderCode]
  | cons x xs ih =>
    intro code k hc hall hf
    obtain ⟨k1, k2, hk, hp, hrest⟩ := hall
    have h0 := hf 0 x k1 (by simp) (by simpa [Nat.mod_eq_of_lt hc] using hp)
    simp only [Nat.mul_zero, Nat.add_zero, Nat.mod_eq_of_lt hc] at h0
    have hr := ih ((code + 2) % 2 ^ 64) k2 (Nat.mod_lt _ (by decide)) hrest (by
      intro i y k' hy hpy
      have e : ((code + 2) % 2 ^ 64 + 2 * i) % 2 ^ 64 = (code + 2 * (i + 1)) % 2 ^ 64 := by omega
      rw [e] at hpy ⊢
      exact hf (i + 1) y k' (by simpa using hy) hpy)
    simp only [renderCode, List.length_append]
    omega

/-! ### binary latches -/

theorem con_nextLatchBin :
    CodeCon (fun code _ (l : OLatch) k => (olatchBytes code l).length ≤ k) nextLatchBin := by
  intro s
  unfold nextLatchBin
  split
  · exact Con.pure trivial
  · refine Con.bind (con_lit _ _) fun nc k1 h1 => ?_
    refine Con.bind (con_latchReset _ s.p.code) fun init k2 h2 => Con.pure ⟨?_, rfl⟩
    show (olatchBytes s.p.code ⟨s.p.lit.fromCode nc, init⟩).length ≤ k1 + (k2 + 0)
    have e1 := dl_fromCode s.p.lit nc
    have e2 := writeInit_le init s.p.code s.p.code k2 (Nat.le_refl _) h2
    simp only [olatchBytes, List.length_append]
    unfold dl at e1 h1
    omega

/-! ### binary and gates -/

/-- A gate read at counter `code` for `k` bytes: the casts of two codes `c1 ≤ c0 ≤ code` whose
deltas, canonically encoded, take at most `k` bytes. -/
def GateCost (code : Nat) (l : LitTy) (g : OGate) (k : Nat) : Prop :=
  ∃ c0 c1, g.in0 = l.fromCode c0 ∧ g.in1 = l.fromCode c1 ∧ c1 ≤ c0 ∧ c0 ≤ code ∧
    vlen (code - c0) + vlen (c0 - c1) ≤ k

theorem con_nextAndGateBin : CodeCon GateCost nextAndGateBin := by
  intro s
  unfold nextAndGateBin
  split
  · exact Con.pure trivial
  · refine Con.bind (con_deltaCode _) fun c0 k1 h1 => ?_
    refine Con.bind (con_deltaCode _) fun c1 k2 h2 => Con.pure ⟨?_, rfl⟩
    obtain ⟨d0, hd0, e0, v0⟩ := h1
    obtain ⟨d1, hd1, e1, v1⟩ := h2
    dsimp only at hd0 e0
    refine ⟨c0, c1, rfl, rfl, by omega, by omega, ?_⟩
    have x0 : s.p.code - c0 = d0 := by omega
    have x1 : c0 - c1 = d1 := by omega
    rw [x0, x1]
    omega

theorem gateBytes_length (code : Nat) (g : OGate) :
    (gateBytes code g).length = vlen (code - g.in0) + vlen (g.in0 - g.in1) := by
  simp only [gateBytes, vlen, List.length_append]

/-! ### whole binary files -/

/-- What `binary::Parser::parse` consumed pays for the four parts the writer emits behind the
header (the tail may cost one byte more: the empty comment). -/
structure BinCost (p : Parser) (a : OrderedAig) (k : Nat) : Prop where
  split : ∃ k1 k2 k3 k4, k1 + k2 + k3 + k4 ≤ k ∧
    (renderCode olatchBytes p.code a.latches).length ≤ k1 ∧
    (writeMid a.outputs a.bad a.constraints a.justice a.fairness).length ≤ k2 ∧
    CodeAll (fun c => GateCost c p.lit) ((p.code + 2 * a.latches.length) % 2 ^ 64) a.gates k3 ∧
    (writeTail a.symbols a.comment).length ≤ k4 + 1

theorem con_parseBinary (p : Parser) (hc : p.code < 2 ^ 64) :
    Con (parseBinary p) (BinCost p) := by
  unfold parseBinary
  refine Con.bind (Con.and_post (con_toLatches { p }) (toLatches_p { p })) fun s2 k0 h2 => ?_
  have h2p : s2.p = p := h2.2
  refine Con.bind (Con.and_post (Con.and_post (whileSome_codecon con_nextLatchBin _ s2 [])
      (whileSome_code nextLatchBin_code _ s2 [] (by rw [h2p]; exact hc)))
    (whileSome_spec nextLatchBin_spec _ s2 [])) fun r k1 hr => ?_
  obtain ⟨latches, s3⟩ := r
  obtain ⟨⟨⟨xs, hxs, hcost⟩, ⟨ys, hys, hp3, _⟩⟩, ⟨zs, _, d3⟩⟩ := hr
  simp only [List.reverse_nil, List.nil_append] at hxs hys hp3
  subst hxs
  subst hys
  simp only
  refine Con.bind (Con.and_post (con_parseMid s3) (parseMid_p s3 d3.left)) fun r k2 hr => ?_
  obtain ⟨mid, s4⟩ := r
  obtain ⟨hmid, hp4⟩ := hr
  simp only at hmid hp4 ⊢
  refine Con.bind (Con.and_post (con_toAndGates s4) (toAndGates_p s4)) fun s5 k3 h5 => ?_
  have hp5 : s5.p = { p with code := (p.code + 2 * latches.length) % 2 ^ 64 } := by
    rw [h5.2, hp4, hp3, h2p]
  refine Con.bind (whileSome_codecon con_nextAndGateBin _ s5 []) fun r k4 hr => ?_
  obtain ⟨gates, s6⟩ := r
  obtain ⟨xs, hxs, hgates⟩ := hr
  simp only [List.reverse_nil, List.nil_append] at hxs
  subst hxs
  simp only
  refine Con.bind (con_toSymbols s6) fun p' k5 _ => ?_
  refine Con.bind (con_parseTail p') fun r k6 h6 => ?_
  obtain ⟨symbols, c⟩ := r
  simp only at h6 ⊢
  refine Con.pure ⟨k1, k2, k4, k0 + k3 + k5 + k6, by omega, ?_, hmid, ?_, by dsimp only; omega⟩
  · have := codeAll_render olatchBytes latches s2.p.code k1 (by rw [h2p]; exact hc) hcost
      (fun i x k' _ hp => hp)
    rw [h2p] at this
    exact this
  · rw [hp5] at hgates
    exact hgates

end Aiger
end Flussab
