/-
C12: the errors of `renumber_aig` are the corresponding ones, and ill-formed graphs produce them.
-/
import Flussab.Proof.AigMidstack

namespace Flussab.Aig

/-- `transfer` only ever fails with `LitNotDefined` or `FoundCycle`. -/
theorem transfer_err_kind (cfg : Config) (defs : Defs) :
    ∀ (fuel : Nat) (path : List Nat) (st : St) (lit : Nat) (e : Err),
      transfer cfg defs fuel path st lit = .error e → ∃ l, e = .notDefined l ∨ e = .foundCycle l := by
  intro fuel
  induction fuel with
  | zero => intro path st lit e h; simp [transfer] at h
  | succ fuel ih =>
    intro path st lit e h
    unfold transfer at h
    split at h
    · exact absurd h (by simp)
    · split at h
      · injection h with h; exact ⟨lit, Or.inr h.symm⟩
      · split at h
        · injection h with h; exact ⟨lit, Or.inl h.symm⟩
        · split at h
          · split at h
            · exact absurd h (by simp)
            · rename_i e' h1
              injection h with h; subst h; exact ih _ _ _ _ h1
            · exact absurd h (by simp)
          · rename_i e' h0
            injection h with h; subst h; exact ih _ _ _ _ h0
          · exact absurd h (by simp)

theorem transferAll_err_kind (cfg : Config) (defs : Defs) (fuel : Nat) :
    ∀ (lits : List Nat) (st : St) (e : Err), transferAll cfg defs fuel lits st = .error e →
      ∃ l, e = .notDefined l ∨ e = .foundCycle l := by
  intro lits
  induction lits with
  | nil => intro st e h; simp [transferAll] at h
  | cons l rest ih =>
    intro st e h
    simp only [transferAll] at h
    split at h
    · exact ih _ _ h
    · rename_i e' h0
      injection h with h; subst h; exact transfer_err_kind cfg defs _ _ _ _ _ h0
    · exact absurd h (by simp)

/-- Uniquely defined variables, some transferred root not well-founded: the outcome is
`LitNotDefined` or `FoundCycle` (with fuel `≥ 2·gates + 3`). -/
theorem renumber_illfounded_error {cfg : Config} {a : Aig} {fuel : Nat}
    (hfuel : 2 * a.gates.length + 3 ≤ fuel) (hn : (definedVars a).Nodup)
    (hr : ∃ r ∈ roots cfg a, ¬ Grounded a (r / 2)) :
    ∃ l, renumber cfg a fuel = .error (.notDefined l) ∨ renumber cfg a fuel = .error (.foundCycle l) := by
  obtain ⟨defs, h1⟩ := litDefs_complete hn
  obtain ⟨st0, h2, _⟩ := init_complete hn h1
  have htot := renumber_total (cfg := cfg) (a := a) hfuel
  cases hres : renumber cfg a fuel with
  | outOfFuel => exact absurd hres htot
  | ok r =>
    obtain ⟨o, m⟩ := r
    obtain ⟨r, hr1, hr2⟩ := hr
    exact absurd (renumber_ok_grounded hres r hr1) hr2
  | error e =>
    unfold renumber initState at hres
    simp only [h1, h2] at hres
    split at hres
    · rename_i e' he
      injection hres with hres; subst hres
      obtain ⟨l, hl⟩ := transferAll_err_kind cfg defs fuel _ _ _ he
      rcases hl with rfl | rfl
      · exact ⟨l, Or.inl rfl⟩
      · exact ⟨l, Or.inr rfl⟩
    · exact absurd hres (by simp)
    · exact absurd hres (by simp)


/-- What an error of `transfer(lit)` means. -/
def ErrSound (a : Aig) (lit : Nat) (e : Err) : Prop :=
  (∃ l, e = .notDefined l ∧ Undefined a (l / 2) ∧ DepStar a (lit / 2) (l / 2)) ∨
  (∃ l, e = .foundCycle l ∧ OnCycle a (l / 2) ∧ DepStar a (lit / 2) (l / 2))

theorem ErrSound.step {a : Aig} {lit x : Nat} {e : Err} (d : Dep a (lit / 2) (x / 2))
    (h : ErrSound a x e) : ErrSound a lit e := by
  rcases h with ⟨l, h1, h2, h3⟩ | ⟨l, h1, h2, h3⟩
  · exact Or.inl ⟨l, h1, h2, DepStar.step d h3⟩
  · exact Or.inr ⟨l, h1, h2, DepStar.step d h3⟩

/-- The reported error is the corresponding one: `LitNotDefined l` names a literal without any
definition, `FoundCycle l` a literal on a combinational cycle, both reachable from `lit`. -/
theorem transfer_err_sound {a : Aig} {defs : Defs} (hd : DefsOk a defs) (hf : DefsFull a defs)
    (cfg : Config) :
    ∀ (fuel : Nat) (path : List Nat) (st : St) (lit : Nat) (e : Err), Inv a st →
      LeafKeys a st.litMap → (∀ p ∈ path, DepPlus a (p / 2) (lit / 2)) →
      transfer cfg defs fuel path st lit = .error e → ErrSound a lit e := by
  intro fuel
  induction fuel with
  | zero => intro path st lit e _ _ _ h; simp [transfer] at h
  | succ fuel ih =>
    intro path st lit e hinv hk hp h
    unfold transfer at h
    cases hget : st.litMap.get lit with
    | some t => simp [hget] at h
    | none =>
      simp only [hget] at h
      have hnk : ¬ st.litMap.HasKey lit := (LitMap.get_none_iff _ _).mp hget
      by_cases hnc : path[path.length / 2]? = some lit
      · rw [if_pos hnc] at h
        injection h with h; subst h
        exact Or.inr ⟨lit, rfl, hp lit (List.mem_of_getElem? hnc), Or.inl rfl⟩
      · rw [if_neg hnc] at h
        cases hfd : findDef defs lit with
        | none =>
          simp only [hfd] at h
          injection h with h; subst h
          refine Or.inl ⟨lit, rfl, ?_, Or.inl rfl⟩
          intro hdef
          unfold definedVars definedLits at hdef
          simp only [List.map_cons, List.map_append, List.map_map, List.mem_cons, List.mem_append,
            List.mem_map, Function.comp] at hdef
          rcases hdef with h0 | (⟨l, hl, he⟩ | ⟨g, hg, he⟩) | ⟨l, hl, he⟩
          · exact hnk (LitMap.hasKey_of_var (k := 0) (by omega) hk.const)
          · exact hnk (LitMap.hasKey_of_var he (hk.inputs l hl))
          · obtain ⟨d, hd'⟩ := findDef_complete hf hg (lit := lit) he.symm
            rw [hfd] at hd'; exact absurd hd' (by simp)
          · exact hnk (LitMap.hasKey_of_var he (hk.latches l hl))
        | some d =>
          simp only [hfd] at h
          obtain ⟨hmem, hl⟩ := findDef_mem hd hfd
          have hdep : ∀ x, (x = d.in0 ∨ x = d.in1) → Dep a (lit / 2) (x / 2) := by
            intro x hx
            refine ⟨d, hmem, hl.symm, ?_⟩
            rcases hx with rfl | rfl
            · exact Or.inl rfl
            · exact Or.inr rfl
          have hp' : ∀ x, (x = d.in0 ∨ x = d.in1) → ∀ p ∈ path ++ [lit], DepPlus a (p / 2) (x / 2) := by
            intro x hx p hpm
            rcases List.mem_append.mp hpm with hpm | hpm
            · exact (hp p hpm).snoc (hdep x hx)
            · simp only [List.mem_singleton] at hpm; subst hpm; exact DepPlus.single (hdep x hx)
          cases e0 : transfer cfg defs fuel (path ++ [lit]) st d.in0 with
          | outOfFuel => simp [e0] at h
          | error e' =>
            simp only [e0] at h
            injection h with h; subst h
            exact (ih _ _ _ _ hinv hk (hp' _ (Or.inl rfl)) e0).step (hdep _ (Or.inl rfl))
          | ok r =>
            obtain ⟨t0, st1⟩ := r
            simp only [e0] at h
            have post0 := transfer_post hd cfg _ _ _ _ _ _ hinv e0
            cases e1 : transfer cfg defs fuel (path ++ [lit]) st1 d.in1 with
            | outOfFuel => simp [e1] at h
            | error e' =>
              simp only [e1] at h
              injection h with h; subst h
              exact (ih _ _ _ _ post0.inv (hk.mono post0.ext.keys) (hp' _ (Or.inr rfl)) e1).step
                (hdep _ (Or.inr rfl))
            | ok r => simp [e1] at h

theorem transferAll_err_sound {a : Aig} {defs : Defs} (hd : DefsOk a defs) (hf : DefsFull a defs)
    (cfg : Config) (fuel : Nat) :
    ∀ (lits : List Nat) (st : St) (e : Err), Inv a st → LeafKeys a st.litMap →
      transferAll cfg defs fuel lits st = .error e → ∃ r ∈ lits, ErrSound a r e := by
  intro lits
  induction lits with
  | nil => intro st e _ _ h; simp [transferAll] at h
  | cons l rest ih =>
    intro st e hinv hk h
    simp only [transferAll] at h
    cases e0 : transfer cfg defs fuel [] st l with
    | outOfFuel => simp [e0] at h
    | error e' =>
      simp only [e0] at h
      injection h with h; subst h
      exact ⟨l, by simp, transfer_err_sound hd hf cfg _ _ _ _ _ hinv hk (by simp) e0⟩
    | ok r =>
      obtain ⟨t, st1⟩ := r
      simp only [e0] at h
      have post := transfer_post hd cfg _ _ _ _ _ _ hinv e0
      obtain ⟨r, hr, hs⟩ := ih st1 e post.inv (hk.mono post.ext.keys) h
      exact ⟨r, List.mem_cons_of_mem _ hr, hs⟩

/-- Every error of `renumber_aig` is the corresponding one. -/
theorem renumber_err_sound {cfg : Config} {a : Aig} {fuel : Nat} {e : Err}
    (h : renumber cfg a fuel = .error e) :
    (∃ l, e = .alreadyDefined l ∧ ¬ (definedVars a).Nodup) ∨
    ((definedVars a).Nodup ∧ ∃ r ∈ roots cfg a, ErrSound a r e) := by
  by_cases hn : (definedVars a).Nodup
  · right
    refine ⟨hn, ?_⟩
    obtain ⟨defs, h1⟩ := litDefs_complete hn
    obtain ⟨st0, h2, hk⟩ := init_complete hn h1
    have i0 : Inv a st0 :=
      (initLatches_inv a.latches [] _ _ (by simp)
        (by simpa using initInputs_inv (a := a) a.inputs [] St.init (by simp) (initInv_init a)) h2).toInv
    unfold renumber initState at h
    simp only [h1, h2] at h
    split at h
    · rename_i e' he
      injection h with h; subst h
      exact transferAll_err_sound (litDefs_defsOk h1) (litDefs_defsFull h1) cfg fuel _ _ _ i0 hk he
    · exact absurd h (by simp)
    · exact absurd h (by simp)
  · left
    obtain ⟨l, hl⟩ := renumber_dup (cfg := cfg) (fuel := fuel) hn
    rw [hl] at h
    injection h with h
    exact ⟨l, h.symm, hn⟩

end Flussab.Aig
