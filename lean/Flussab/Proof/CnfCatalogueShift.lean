/-
What the DIMACS-family parsers return does not depend on where in the stream they are: from two
shifted states (`Btor2.Cat.Sh`: same unconsumed input, same look-ahead, same I/O bookkeeping —
position, mark and line bookkeeping arbitrary) every function of `Model/CnfToken.lean` and of the
clause parser of `Model/Cnf.lean` that returns in the first run returns the same value in the second,
in shifted states, unless the second run panics (an overflow check of `line_at_offset`).
Uses the relational calculus of `Proof/Btor2Catalogue.lean`.
-/
import Flussab.Proof.Btor2Catalogue
import Flussab.Model.Cnf

namespace Flussab
namespace Cnf
namespace Cat
open PM
open Flussab.Btor2.Cat

variable {α : Type} {G : PErr → Prop}

/-! ### scanners -/

theorem shScan_fixed (off : Nat) (pat : VBytes) : ShScan (Text.fixed · off pat) := by
  intro a b h
  simp only [Text.fixed, h.rest]
  split
  · split
    · exact ⟨by first | exact trivial | rfl, h⟩
    · exact ⟨by first | exact trivial | rfl, h.demand _⟩
  · exact ⟨by first | exact trivial | rfl, h.demand _⟩

theorem shScan_tabs (off : Nat) : ShScan (Text.tabsOrSpaces · off) := by
  intro a b h
  simp only [Text.tabsOrSpaces, h.rest]
  exact ⟨by first | exact trivial | rfl, h.demand _⟩

theorem shScan_nextNewline (off : Nat) : ShScan (Text.nextNewline · off) := by
  intro a b h
  simp only [Text.nextNewline, h.rest]
  exact ⟨by first | exact trivial | rfl, h.demand _⟩

theorem shScan_newline (off : Nat) : ShScan (Text.newline · off) := by
  intro a b h
  simp only [Text.newline, h.rest]
  split
  · exact ⟨by first | exact trivial | rfl, h.demand _⟩
  · split
    · exact ⟨by first | exact trivial | rfl, (h.demand _).demand _⟩
    · exact ⟨by first | exact trivial | rfl, (h.demand _).demand _⟩
  · exact ⟨by first | exact trivial | rfl, h.demand _⟩

theorem shScan_digitsCont (t : IntTy) (sub : Bool) (off : Nat) (value : Option Int) :
    ShScan (fun v => Text.digitsCont t sub v off value) := by
  intro a b h
  simp only [Text.digitsCont, h.rest]
  generalize Text.digitsLoop t sub (b.rest.drop off) _ _ _ = r
  obtain ⟨val, ov, n⟩ := r
  exact ⟨by first | exact trivial | rfl, h.demand _⟩

theorem shScan_asciiDigits (t : IntTy) (off : Nat) : ShScan (Text.asciiDigits t · off) :=
  shScan_digitsCont t false off (some 0)

theorem shScan_signed (t : IntTy) (off : Nat) : ShScan (Text.signedAsciiDigits t · off) := by
  intro a b h
  simp only [Text.signedAsciiDigits, h.rest]
  split
  · split
    · split
      · generalize Text.digitsLoop t true (b.rest.drop (off + 2)) _ _ _ = r
        obtain ⟨val, ov, n⟩ := r
        exact ⟨by first | exact trivial | rfl, ((h.demand _).demand _).demand _⟩
      · exact ⟨by first | exact trivial | rfl, (h.demand _).demand _⟩
    · exact ⟨by first | exact trivial | rfl, (h.demand _).demand _⟩
  · exact shScan_digitsCont t false off (some 0) a b h

/-! ### tokens -/

theorem wpT_giveUp {Q : α → LR → Prop} (t : LR) : Wp (fun _ _ => True) (PM.giveUp : PM α) t Q := by
  unfold Wp
  rcases hr : (PM.giveUp : PM α).run t with ⟨e | a, u⟩
  · trivial
  · exact absurd hr (giveUp_never t a u)

/-- `unexpected` (DIMACS) never returns. -/
theorem unexpected_never (t : LR) (a : α) (u : LR) : (unexpected : PM α).run t ≠ (.ok a, u) := by
  intro h
  have hw : Wp (fun _ _ => True) (unexpected : PM α) t (fun _ _ => False) := by
    unfold unexpected
    refine Wp.bind (Wp.scan ?_)
    split
    · exact wpT_giveUp _
    · refine Wp.bind (Wp.get ?_)
      split
      · exact wpT_giveUp _
      · refine Wp.bind (Wp.get ?_)
        refine Wp.bind (Wp.reqAt ?_)
        exact wpT_giveUp _
  exact hw.of_run.1 a u h

theorem exceedsVarCount_never (t : LR) (a : α) (u : LR) :
    (exceedsVarCount : PM α).run t ≠ (.ok a, u) := by
  unfold exceedsVarCount
  intro h
  rw [run_bind] at h
  exact giveUpAt_never t a u h

theorem ShWp.unexpectedC {β : Type} {m2 : PM β} {ρ : α → β → Prop} : ShWp G (unexpected : PM α) m2 ρ :=
  ShWp.left unexpected_never

theorem ShC.orGiveUpC {p : PM (Option α)} (hp : ShC G p) : ShC G (PM.orGiveUp p unexpected) := by
  unfold PM.orGiveUp
  refine ShC.bind hp (fun r => ?_)
  cases r with
  | some a => exact ShC.pure a
  | none => exact ShWp.unexpectedC

theorem ShC.matches {p : PM (Option α)} (hp : ShC G p) : ShC G (PM.matches p) := by
  unfold PM.matches
  exact ShC.bind hp (fun r => ShC.pure _)

theorem ShC.orParse {p q : PM (Option α)} (hp : ShC G p) (hq : ShC G q) : ShC G (PM.orParse p q) := by
  unfold PM.orParse
  refine ShC.bind hp (fun r => ?_)
  cases r with
  | some a => exact ShC.pure _
  | none => exact hq

theorem isEndOfWord_sh (off : Nat) : ShC G (isEndOfWord off) := by
  unfold isEndOfWord
  exact ShC.bind (ShC.reqAt off) (fun _ => ShC.pure _)

theorem word_sh (pat : VBytes) : ShC G (word pat) := by
  unfold word
  refine ShC.bind (ShC.scan (shScan_fixed 0 pat)) (fun off => ?_)
  split
  · refine ShC.bind (isEndOfWord_sh off) (fun c => ?_)
    split
    · exact ShC.bind (ShC.scan (shScan_tabs off)) (fun o => ShC.bind (ShC.advance o) (fun _ => ShC.pure _))
    · exact ShC.pure _
  · exact ShC.pure _

theorem numberTail_sh (value : Option Int) (off : Nat) : ShC G (numberTail value off) := by
  unfold numberTail
  split
  · refine ShC.bind (isEndOfWord_sh off) (fun c => ?_)
    split
    · split
      · exact ShC.bind (ShC.scan (shScan_tabs off)) (fun o => ShC.bind (ShC.advance o) (fun _ => ShC.pure _))
      · exact ShC.bind (ShC.bufPrefix off) (fun bs => ShC.bind (ShC.utf8Unwrap bs) (fun _ => ShC.pure _))
    · exact ShC.pure _
  · exact ShC.pure _

theorem uint_sh (t : IntTy) : ShC G (uint t) := by
  unfold uint
  refine ShC.bind (ShC.scan (shScan_asciiDigits t 0)) (fun r => ?_)
  obtain ⟨value, off⟩ := r
  exact numberTail_sh value off

theorem int_sh (t : IntTy) : ShC G (int t) := by
  unfold int
  refine ShC.bind (ShC.scan (shScan_signed t 0)) (fun r => ?_)
  obtain ⟨value, off⟩ := r
  exact numberTail_sh value off

theorem bracedUint_sh (t : IntTy) : ShC G (bracedUint t) := by
  unfold bracedUint
  refine ShC.bind ShC.reqByte (fun a => ?_)
  split
  · exact ShC.pure _
  · refine ShC.bind (ShC.scan (shScan_asciiDigits t 1)) (fun r => ?_)
    obtain ⟨value, off⟩ := r
    dsimp only
    split
    · refine ShC.bind (ShC.reqAt off) (fun c => ?_)
      split
      · split
        · exact ShC.bind (ShC.scan (shScan_tabs _)) (fun o => ShC.bind (ShC.advance o) (fun _ => ShC.pure _))
        · exact ShC.bind (ShC.bufPrefix _) (fun bs => ShC.bind (ShC.utf8Unwrap bs) (fun _ => ShC.pure _))
      · exact ShC.pure _
    · exact ShC.pure _

theorem comment_sh : ShC G comment := by
  unfold comment
  refine ShC.bind ShC.reqByte (fun a => ?_)
  split
  · refine ShC.bind (ShC.scan (shScan_nextNewline 1)) (fun off => ?_)
    refine ShC.bind (ShC.lineAtOffset off) (fun _ => ?_)
    exact ShC.bind (ShC.scan (shScan_tabs off)) (fun o => ShC.bind (ShC.advance o) (fun _ => ShC.pure _))
  · exact ShC.pure _

theorem newline_sh : ShC G newline := by
  unfold newline
  refine ShC.bind (ShC.scan (shScan_newline 0)) (fun off => ?_)
  split
  · refine ShC.bind (ShC.lineAtOffset off) (fun _ => ?_)
    exact ShC.bind (ShC.scan (shScan_tabs off)) (fun o => ShC.bind (ShC.advance o) (fun _ => ShC.pure _))
  · exact ShC.pure _

theorem interactiveNewline_sh : ShC G interactiveNewline := by
  unfold interactiveNewline
  refine ShC.bind (ShC.scan (shScan_newline 0)) (fun off => ?_)
  split
  · exact ShC.bind (ShC.lineAtOffset off) (fun _ => ShC.bind (ShC.advance off) (fun _ => ShC.pure _))
  · exact ShC.pure _

theorem eof_sh : ShC G eof := by
  unfold eof
  refine ShC.bind ShC.reqByte (fun a => ?_)
  split
  · refine ShWp.getBind (fun u1 u2 hs => ?_)
    have hio := hs.ioErr
    by_cases h1 : u1.v.ioErr = true
    · have h2 : u2.v.ioErr = true := hio ▸ h1
      simp only [h1, h2]
      exact ShC.pure _
    · have h1' : u1.v.ioErr = false := by simpa using h1
      have h2' : u2.v.ioErr = false := hio ▸ h1'
      simp only [h1', h2']
      exact ShC.pure _
  · exact ShC.pure _

theorem interactiveEndOfLine_sh : ShC G interactiveEndOfLine :=
  ShC.orParse interactiveNewline_sh eof_sh

theorem skipWhitespace_sh : ShC G skipWhitespace := by
  unfold skipWhitespace
  exact ShC.bind (ShC.scan (shScan_tabs 0)) (fun o => ShC.advance o)

theorem varCount_sh (l : LitTy) : ShC G (varCount l) := by
  unfold varCount
  refine ShC.bind ShC.setMark (fun _ => ?_)
  refine ShC.bind (uint_sh usizeTy) (fun r => ?_)
  split
  · exact ShC.pure _
  · exact ShWp.left exceedsVarCount_never
  · split
    · exact ShWp.left exceedsVarCount_never
    · exact ShC.pure _

theorem uintCount_sh (t : IntTy) : ShC G (uintCount t) := by
  unfold uintCount
  refine ShC.bind ShC.setMark (fun _ => ?_)
  refine ShC.bind (uint_sh t) (fun r => ?_)
  split
  · exact ShC.pure _
  · exact ShWp.left giveUp_never
  · exact ShC.pure _

theorem clauseGroup_sh (limit : Int) : ShC G (clauseGroup limit) := by
  unfold clauseGroup
  refine ShC.bind ShC.setMark (fun _ => ?_)
  refine ShC.bind (bracedUint_sh usizeTy) (fun r => ?_)
  split
  · exact ShC.pure _
  · exact ShWp.left giveUp_never
  · split
    · exact ShWp.left exceedsVarCount_never
    · exact ShC.pure _

theorem skipLinesLoop_sh : ∀ (f : Nat), ShC G (skipLinesLoop f)
  | 0 => by
    unfold skipLinesLoop
    exact ShWp.throw
  | f + 1 => by
    unfold skipLinesLoop
    refine ShC.bind (ShC.matches (ShC.orParse comment_sh newline_sh)) (fun b => ?_)
    split
    · exact skipLinesLoop_sh f
    · exact ShC.pure _

theorem nonTerminatingLinebreaks_sh : ShC G nonTerminatingLinebreaks := by
  unfold nonTerminatingLinebreaks
  refine ShC.bind (ShC.matches newline_sh) (fun b => ?_)
  split
  · refine ShWp.getBind (fun u1 u2 hs => ?_)
    rw [hs.rest]
    exact ShC.bind (skipLinesLoop_sh _) (fun _ => ShC.pure _)
  · exact ShC.pure _

theorem litInt_sh : ShC G litInt := by
  unfold litInt
  refine ShC.bind (int_sh isizeTy) (fun r => ?_)
  split
  · exact ShC.pure _
  · exact ShWp.left exceedsVarCount_never
  · exact ShC.pure _

theorem clauseLitsLoop_sh (l : LitTy) (limit : Int) : ∀ (f : Nat) (lit : Int) (acc : List Int),
    ShC G (clauseLitsLoop l limit f lit acc)
  | 0, _, _ => by
    unfold clauseLitsLoop
    exact ShWp.throw
  | f + 1, lit, acc => by
    unfold clauseLitsLoop
    split
    · exact ShC.pure _
    · split
      · refine ShC.bind ShC.setMark (fun _ => ?_)
        refine ShC.bind litInt_sh (fun r => ?_)
        split
        · exact clauseLitsLoop_sh l limit f _ _
        · refine ShC.bind nonTerminatingLinebreaks_sh (fun b => ?_)
          split
          · refine ShC.bind ShC.setMark (fun _ => ?_)
            exact ShC.bind (ShC.orGiveUpC litInt_sh) (fun next => clauseLitsLoop_sh l limit f _ _)
          · exact ShWp.unexpectedC
      · exact ShWp.left exceedsVarCount_never

theorem clauseLits_sh (l : LitTy) (limit : Int) : ShC G (clauseLits l limit) := by
  unfold clauseLits
  refine ShC.bind ShC.setMark (fun _ => ?_)
  refine ShC.bind litInt_sh (fun r => ?_)
  split
  · exact ShC.pure _
  · refine ShWp.getBind (fun u1 u2 hs => ?_)
    rw [hs.rest]
    exact ShC.bind (clauseLitsLoop_sh l limit _ _ _) (fun _ => ShC.pure _)

/-! ### the parser -/

theorem headerSkipLoop_sh : ∀ (f : Nat), ShC G (headerSkipLoop f)
  | 0 => by
    unfold headerSkipLoop
    exact ShWp.throw
  | f + 1 => by
    unfold headerSkipLoop
    refine ShC.bind (ShC.matches comment_sh) (fun b => ?_)
    split
    · exact headerSkipLoop_sh f
    · refine ShC.bind (ShC.matches newline_sh) (fun b => ?_)
      split
      · exact headerSkipLoop_sh f
      · exact ShC.pure _

theorem parseHeader_sh (fmt : Format) (l : LitTy) : ShC G (parseHeader fmt l) := by
  unfold parseHeader
  refine ShC.bind skipWhitespace_sh (fun _ => ?_)
  refine ShWp.getBind (fun u1 u2 hs => ?_)
  rw [hs.rest]
  refine ShC.bind (headerSkipLoop_sh _) (fun _ => ?_)
  refine ShC.bind (word_sh _) (fun r => ?_)
  split
  · exact ShC.pure _
  · refine ShC.bind (ShC.orGiveUpC (word_sh _)) (fun _ => ?_)
    refine ShC.bind (ShC.orGiveUpC (varCount_sh l)) (fun vc => ?_)
    refine ShC.bind (ShC.orGiveUpC (uintCount_sh usizeTy)) (fun cc => ?_)
    have htail : ∀ extra : Int, ShC G (do
        orGiveUp interactiveEndOfLine unexpected
        pure (some ({ varCount := vc, clauseCount := cc, extra := extra } : Header)) : PM (Option Header)) :=
      fun extra => ShC.bind (ShC.orGiveUpC interactiveEndOfLine_sh) (fun _ => ShC.pure _)
    cases fmt with
    | cnf => exact ShC.bind (ShC.pure 0) htail
    | wcnf => exact ShC.bind (ShC.orGiveUpC (uintCount_sh u64Ty)) htail
    | gcnf => exact ShC.bind (ShC.orGiveUpC (uintCount_sh usizeTy)) htail

theorem parserNew_sh (fmt : Format) (l : LitTy) (ignoreHeader : Bool) :
    ShC G (Parser.new fmt l ignoreHeader) := by
  unfold Parser.new
  refine ShC.bind (parseHeader_sh fmt l) (fun r => ?_)
  split
  · exact ShC.pure _
  · exact ShC.pure _

theorem clauseAlt_sh (p : Parser) : ShC G (clauseAlt p) := by
  unfold clauseAlt
  split
  · refine ShC.bind (clauseLits_sh _ _) (fun r => ?_)
    split
    · exact ShC.pure _
    · exact ShC.bind (ShC.orGiveUpC interactiveEndOfLine_sh) (fun _ => ShC.pure _)
  · refine ShC.bind (uintCount_sh u64Ty) (fun r => ?_)
    split
    · exact ShC.pure _
    · refine ShC.bind nonTerminatingLinebreaks_sh (fun _ => ?_)
      refine ShC.bind (ShC.orGiveUpC (clauseLits_sh _ _)) (fun lits => ?_)
      exact ShC.bind (ShC.orGiveUpC interactiveEndOfLine_sh) (fun _ => ShC.pure _)
  · refine ShC.bind (clauseGroup_sh _) (fun r => ?_)
    split
    · exact ShC.pure _
    · refine ShC.bind nonTerminatingLinebreaks_sh (fun _ => ?_)
      refine ShC.bind (ShC.orGiveUpC (clauseLits_sh _ _)) (fun lits => ?_)
      exact ShC.bind (ShC.orGiveUpC interactiveEndOfLine_sh) (fun _ => ShC.pure _)

theorem nextClauseLoop_sh (p : Parser) : ∀ (f : Nat), ShC G (nextClauseLoop p f)
  | 0 => by
    unfold nextClauseLoop
    exact ShWp.throw
  | f + 1 => by
    unfold nextClauseLoop
    dsimp only
    have htail : ∀ c : Option Clause, ShC G (match c with
        | some c => pure (some c, { p with clauseCount := p.clauseCount + 1 })
        | none => do
          if ← «matches» comment then nextClauseLoop p f
          else if ← «matches» newline then nextClauseLoop p f
          else
            let mayEnd := !p.clauseLimitActive || (p.clauseCount : Int) ≥ p.clauseLimit
            if mayEnd then
              if ← «matches» eof then pure (none, p) else unexpected
            else unexpected : PM (Option Clause × Parser)) := by
      intro c
      split
      · exact ShC.pure _
      · refine ShC.bind (ShC.matches comment_sh) (fun b => ?_)
        split
        · exact nextClauseLoop_sh p f
        · refine ShC.bind (ShC.matches newline_sh) (fun b => ?_)
          split
          · exact nextClauseLoop_sh p f
          · dsimp only
            split
            · refine ShC.bind (ShC.matches eof_sh) (fun b => ?_)
              split
              · exact ShC.pure _
              · exact ShWp.unexpectedC
            · exact ShWp.unexpectedC
    split
    · exact ShC.bind (clauseAlt_sh p) htail
    · exact ShC.bind (ShC.pure none) htail

theorem nextClause_sh (p : Parser) : ShC G p.nextClause := by
  unfold Parser.nextClause
  refine ShC.bind skipWhitespace_sh (fun _ => ?_)
  refine ShWp.getBind (fun u1 u2 hs => ?_)
  rw [hs.rest]
  exact nextClauseLoop_sh p _

/-- Whole clause streams from shifted states: if the first run ends cleanly, the second one ends
cleanly, or in a panic or an error in `G`. -/
theorem driveClauses_sh : ∀ (f1 f2 : Nat) (p : Parser) (acc1 acc2 : List Clause) (t1 t2 : LR), Sh t1 t2 →
    (driveClauses f1 p acc1 t1).2.1 = none → ∀ e, (driveClauses f2 p acc2 t2).2.1 = some e → Good G e
  | 0, _, _, _, _, _, _, _, h1, _, _ => by
    simp [driveClauses] at h1
  | f1 + 1, 0, _, _, _, _, _, _, _, e, h2 => by
    simp only [driveClauses, Option.some.injEq] at h2
    subst h2
    exact Good.panic _
  | f1 + 1, f2 + 1, p, acc1, acc2, t1, t2, hs, h1, e, h2 => by
    have hn := nextClause_sh (G := G) p t1 t2 hs
    unfold driveClauses at h1 h2
    rcases hr1 : p.nextClause.run t1 with ⟨e1 | a1, s1⟩
    · rw [hr1] at h1
      simp at h1
    · obtain ⟨hok, herr⟩ := hn a1 s1 hr1
      rcases hr2 : p.nextClause.run t2 with ⟨e2 | a2, s2⟩
      · rw [hr2] at h2
        simp only [Option.some.injEq] at h2
        subst h2
        exact herr _ _ hr2
      · obtain ⟨ha, hs'⟩ := hok a2 s2 hr2
        subst ha
        rw [hr1] at h1
        rw [hr2] at h2
        obtain ⟨c, p'⟩ := a1
        cases c with
        | none => simp at h2
        | some c =>
          simp only at h1 h2
          exact driveClauses_sh f1 f2 p' _ _ s1 s2 hs' h1 e h2

end Cat
end Cnf
end Flussab
