/-
Prefix simulation (`Proof/Sim.lean`) for the DIMACS token layer and parsers: every function of
`Model/CnfToken.lean` and `Model/Cnf.lean` commutes with extending the stream as long as its run
does not see the end of the data.  The proofs only follow the structure of the functions; the
fuelled loops are related for different amounts of fuel (`n ≤ n'`), because the fuel is computed
from the length of the stream.
-/
import Flussab.Model.Cnf
import Flussab.Proof.Sim

namespace Flussab
namespace Cnf
open PM

variable {q : VBytes} {lr : LR}

/-- A left run that panics is excluded by the premise of `R2`. -/
theorem R2.panic_left {α : Type} (s : String) (m' : PM α) : R2 q (rpanic s : PM α) m' lr := by
  intro _ res lr1 hrun hnp
  obtain ⟨rfl, _⟩ := Prod.mk.inj
    (show ((.error (.panic s) : Except PErr α), lr) = (res, lr1) from hrun)
  exact absurd hnp (by simp [NoPanic])

theorem isEndOfWord_c (off : Nat) : C q (isEndOfWord off) lr := by
  unfold isEndOfWord
  exact R2.bind (C.reqAt off) (fun _ _ => R2.pure _)

theorem word_c (pat : VBytes) : C q (word pat) lr := by
  unfold word
  refine R2.bind (C.scan (sc_fixed q 0 pat)) ?_
  intro off lr1
  split
  · refine R2.bind (isEndOfWord_c off) ?_
    intro c lr2
    split
    · refine R2.bind (C.scan (sc_tabs q off)) ?_
      intro off' lr3
      exact R2.bind (C.advance off') (fun _ _ => R2.pure _)
    · exact R2.pure _
  · exact R2.pure _

theorem fixed_c (pat : VBytes) : C q (Cnf.fixed pat) lr := by
  unfold Cnf.fixed
  refine R2.bind (C.scan (sc_fixed q 0 pat)) ?_
  intro off lr1
  split
  · exact R2.bind (C.advance off) (fun _ _ => R2.pure _)
  · exact R2.pure _

theorem numberTail_c (value : Option Int) (off : Nat) : C q (numberTail value off) lr := by
  unfold numberTail
  split
  · refine R2.bind (isEndOfWord_c off) ?_
    intro c lr2
    split
    · split
      · refine R2.bind (C.scan (sc_tabs q off)) ?_
        intro off' lr3
        exact R2.bind (C.advance off') (fun _ _ => R2.pure _)
      · refine R2.bind (C.bufPrefix off) ?_
        intro bs lr3
        exact R2.bind (C.utf8Unwrap bs) (fun _ _ => R2.pure _)
    · exact R2.pure _
  · exact R2.pure _

theorem uint_c (t : IntTy) : C q (uint t) lr := by
  unfold uint
  refine R2.bind (C.scan (sc_asciiDigits q t 0)) ?_
  intro r lr1
  exact numberTail_c r.1 r.2

theorem int_c (t : IntTy) : C q (int t) lr := by
  unfold int
  refine R2.bind (C.scan (sc_signedDigits q t 0)) ?_
  intro r lr1
  exact numberTail_c r.1 r.2

theorem bracedUint_c (t : IntTy) : C q (bracedUint t) lr := by
  unfold bracedUint
  refine R2.bind C.reqByte ?_
  intro c lr1
  split
  · exact R2.pure _
  · refine R2.bind (C.scan (sc_asciiDigits q t 1)) ?_
    intro r lr2
    obtain ⟨value, off⟩ := r
    dsimp only
    split
    · refine R2.bind (C.reqAt off) ?_
      intro c2 lr3
      split
      · split
        · refine R2.bind (C.scan (sc_tabs q (off + 1))) ?_
          intro off' lr4
          exact R2.bind (C.advance off') (fun _ _ => R2.pure _)
        · refine R2.bind (C.bufPrefix (off + 1)) ?_
          intro bs lr4
          exact R2.bind (C.utf8Unwrap bs) (fun _ _ => R2.pure _)
      · exact R2.pure _
    · exact R2.pure _

theorem comment_c : C q comment lr := by
  unfold comment
  refine R2.bind C.reqByte ?_
  intro c lr1
  split
  · refine R2.bind (C.scan (sc_nextNewline q 1)) ?_
    intro off lr2
    refine R2.bind (C.lineAtOffset off) ?_
    intro _ lr3
    refine R2.bind (C.scan (sc_tabs q off)) ?_
    intro off' lr4
    exact R2.bind (C.advance off') (fun _ _ => R2.pure _)
  · exact R2.pure _

theorem interactiveStrictComment_c : C q interactiveStrictComment lr := by
  unfold interactiveStrictComment
  refine R2.bind (C.scan (sc_fixed q 0 [99, 32])) ?_
  intro r lr1
  split
  · refine R2.bind (C.scan (sc_nextNewline q 2)) ?_
    intro off lr2
    refine R2.bind (C.lineAtOffset off) ?_
    intro _ lr3
    exact R2.bind (C.advance off) (fun _ _ => R2.pure _)
  · exact R2.pure _

theorem interactiveSkipLine_c : C q interactiveSkipLine lr := by
  unfold interactiveSkipLine
  refine R2.bind (C.scan (sc_nextNewline q 0)) ?_
  intro off lr1
  split
  · refine R2.bind (C.lineAtOffset off) ?_
    intro _ lr3
    exact R2.bind (C.advance off) (fun _ _ => R2.pure _)
  · exact R2.pure _

theorem newline_c : C q newline lr := by
  unfold newline
  refine R2.bind (C.scan (sc_newline q 0)) ?_
  intro off lr1
  split
  · refine R2.bind (C.lineAtOffset off) ?_
    intro _ lr3
    refine R2.bind (C.scan (sc_tabs q off)) ?_
    intro off' lr4
    exact R2.bind (C.advance off') (fun _ _ => R2.pure _)
  · exact R2.pure _

theorem interactiveNewline_c : C q interactiveNewline lr := by
  unfold interactiveNewline
  refine R2.bind (C.scan (sc_newline q 0)) ?_
  intro off lr1
  split
  · refine R2.bind (C.lineAtOffset off) ?_
    intro _ lr3
    exact R2.bind (C.advance off) (fun _ _ => R2.pure _)
  · exact R2.pure _

theorem eof_c : C q eof lr := by
  unfold eof
  refine R2.bind C.reqByte ?_
  intro c lr1
  split
  · refine C.get_bind (fun _ => rfl) ?_
    split
    · exact R2.pure _
    · exact R2.pure _
  · exact R2.pure _

theorem interactiveEndOfLine_c : C q interactiveEndOfLine lr :=
  C.orParse interactiveNewline_c (fun _ => eof_c)

theorem skipWhitespace_c : C q skipWhitespace lr := by
  unfold skipWhitespace
  refine R2.bind (C.scan (sc_tabs q 0)) ?_
  intro off lr1
  exact C.advance off

/-! ### `unexpected`

Its last request, `request_byte_at_offset(min n 59)`, depends on how many bytes are in front of the
cursor, so the two runs may demand different offsets — but both end in `give_up` at the cursor,
and the parked-error flag is the same: on the left because the end was not hit, on the right
because the source does not fail. -/

theorem demand_ioErr_lt (v : View) (k : Nat) (h : k < v.rest.length) :
    (v.demand k).ioErr = v.ioErr := by
  simp [View.demand, h]

theorem demand_ioErr_nofault (v : View) (k : Nat) (h : v.fault = false) :
    (v.demand k).ioErr = v.ioErr := by
  unfold View.demand
  dsimp only
  split
  · rfl
  · simp [h]

theorem giveUp_run {α : Type} (s : LR) :
    (giveUp : PM α).run s = (giveUpAt s.v.pos : PM α).run s := rfl

theorem reqAt_giveUp_r2 {α : Type} (k k' : Nat) :
    R2 q (reqAt k >>= fun _ => (giveUp : PM α)) (reqAt k' >>= fun _ => (giveUp : PM α)) lr := by
  intro hJ res lr1 hrun _
  have hl : (reqAt k >>= fun _ => (giveUp : PM α)).run lr =
      (giveUpAt lr.v.pos : PM α).run { lr with v := lr.v.demand k } := by
    rw [run_bind]
    show (giveUp : PM α).run { lr with v := lr.v.demand k } = _
    rw [giveUp_run]
    have : (lr.v.demand k).pos = lr.v.pos := (C16.demand_effect lr.v k).2.1
    simp only [this]
  have hr : (reqAt k' >>= fun _ => (giveUp : PM α)).run (ext q lr) =
      (giveUpAt lr.v.pos : PM α).run { ext q lr with v := (extv q lr.v).demand k' } := by
    rw [run_bind]
    show (giveUp : PM α).run { ext q lr with v := (extv q lr.v).demand k' } = _
    rw [giveUp_run]
    have : ((extv q lr.v).demand k').pos = lr.v.pos := (C16.demand_effect (extv q lr.v) k').2.1
    simp only [this]
  rw [hl, giveUpAt_run] at hrun
  obtain ⟨rfl, rfl⟩ := Prod.mk.inj hrun
  refine ⟨demand_JV lr.v k hJ, fun hs => ?_⟩
  obtain ⟨h1, h2⟩ := (demand_sawEnd lr.v k).mp hs
  refine ⟨h1, ?_⟩
  have e1 : (lr.v.demand k).ioErr = lr.v.ioErr := demand_ioErr_lt lr.v k h2
  have e2 : ((extv q lr.v).demand k').ioErr = lr.v.ioErr := demand_ioErr_nofault _ k' rfl
  show ∃ s, (reqAt k' >>= fun _ => (giveUp : PM α)).run (ext q lr) = (_, s)
  rw [hr, giveUpAt_run]
  refine ⟨_, Prod.ext ?_ rfl⟩
  simp only [e1, e2]
  rfl

theorem unexpected_c {α : Type} : C q (unexpected : PM α) lr := by
  unfold unexpected
  refine R2.bind (C.scan (sc_newline q 0)) ?_
  intro r lr1
  split
  · exact C.giveUp
  · refine C.get_bind (fun hs => ?_) ?_
    · have : (ext q lr1).v.isAtEnd = lr1.v.isAtEnd := by
        show ((ext q lr1).v.sawEnd && (ext q lr1).v.rest.isEmpty) =
          (lr1.v.sawEnd && lr1.v.rest.isEmpty)
        show (lr1.v.sawEnd && (ext q lr1).v.rest.isEmpty) = _
        rw [hs]; rfl
      simp only [this]
    · split
      · exact C.giveUp
      · refine R2.get_bind ?_
        exact reqAt_giveUp_r2 _ _

theorem exceedsVarCount_c {α : Type} : C q (exceedsVarCount : PM α) lr := by
  unfold exceedsVarCount
  exact R2.bind C.mark (fun p _ => C.giveUpAt p)

theorem varCount_c (l : LitTy) : C q (varCount l) lr := by
  unfold varCount
  refine R2.bind C.setMark ?_
  intro _ lr1
  refine R2.bind (uint_c usizeTy) ?_
  intro r lr2
  split
  · exact R2.pure _
  · exact exceedsVarCount_c
  · split
    · exact exceedsVarCount_c
    · exact R2.pure _

theorem uintCount_c (t : IntTy) : C q (uintCount t) lr := by
  unfold uintCount
  refine R2.bind C.setMark ?_
  intro _ lr1
  refine R2.bind (uint_c t) ?_
  intro r lr2
  split
  · exact R2.pure _
  · exact C.giveUp
  · exact R2.pure _

theorem clauseGroup_c (limit : Int) : C q (clauseGroup limit) lr := by
  unfold clauseGroup
  refine R2.bind C.setMark ?_
  intro _ lr1
  refine R2.bind (bracedUint_c usizeTy) ?_
  intro r lr2
  split
  · exact R2.pure _
  · exact C.giveUp
  · split
    · exact exceedsVarCount_c
    · exact R2.pure _

theorem litInt_c : C q litInt lr := by
  unfold litInt
  refine R2.bind (int_c isizeTy) ?_
  intro r lr1
  split
  · exact R2.pure _
  · exact exceedsVarCount_c
  · exact R2.pure _

/-- More fuel on the right. -/
theorem skipLinesLoop_r2 (n n' : Nat) (h : n ≤ n') :
    R2 q (skipLinesLoop n) (skipLinesLoop n') lr := by
  induction n generalizing n' lr with
  | zero => unfold skipLinesLoop; exact R2.panic_left _ _
  | succ n ih =>
    cases n' with
    | zero => omega
    | succ n' =>
      unfold skipLinesLoop
      refine R2.bind (C.matches (C.orParse comment_c (fun _ => newline_c))) ?_
      intro c lr1
      exact R2.ite (fun _ => ih n' (by omega)) (fun _ => R2.pure _)

theorem ext_rest_length (lr : LR) : (ext q lr).v.rest.length = lr.v.rest.length + q.length := by
  simp [ext, extv]

theorem nonTerminatingLinebreaks_c : C q nonTerminatingLinebreaks lr := by
  unfold nonTerminatingLinebreaks
  refine R2.bind (C.matches newline_c) ?_
  intro c lr1
  dsimp only
  split
  · refine R2.get_bind ?_
    refine R2.bind (skipLinesLoop_r2 _ _ (by rw [ext_rest_length]; omega)) ?_
    intro _ lr2
    exact R2.pure _
  · exact R2.pure _

theorem clauseLitsLoop_r2 (l : LitTy) (limit : Int) (n n' : Nat) (h : n ≤ n') (lit : Int)
    (acc : List Int) : R2 q (clauseLitsLoop l limit n lit acc) (clauseLitsLoop l limit n' lit acc) lr := by
  induction n generalizing n' lr lit acc with
  | zero => unfold clauseLitsLoop; exact R2.panic_left _ _
  | succ n ih =>
    cases n' with
    | zero => omega
    | succ n' =>
      unfold clauseLitsLoop
      refine R2.ite (fun _ => R2.pure _) (fun _ => ?_)
      refine R2.ite (fun _ => ?_) (fun _ => exceedsVarCount_c)
      refine R2.bind C.setMark ?_
      intro _ lr1
      refine R2.bind litInt_c ?_
      intro r lr2
      cases r with
      | some next => exact ih n' (by omega) _ _
      | none =>
        dsimp only
        refine R2.bind nonTerminatingLinebreaks_c ?_
        intro c lr3
        refine R2.ite (fun _ => ?_) (fun _ => unexpected_c)
        refine R2.bind C.setMark ?_
        intro _ lr4
        refine R2.bind (R2.orGiveUp litInt_c (fun _ => unexpected_c)) ?_
        intro next lr5
        exact ih n' (by omega) _ _

theorem clauseLits_c (l : LitTy) (limit : Int) : C q (clauseLits l limit) lr := by
  unfold clauseLits
  refine R2.bind C.setMark ?_
  intro _ lr1
  refine R2.bind litInt_c ?_
  intro r lr2
  split
  · exact R2.pure _
  · refine R2.get_bind ?_
    refine R2.bind (clauseLitsLoop_r2 l limit _ _ (by rw [ext_rest_length]; omega) _ _) ?_
    intro lits lr3
    exact R2.pure _

/-! ### parsers -/

theorem headerSkipLoop_r2 (n n' : Nat) (h : n ≤ n') :
    R2 q (headerSkipLoop n) (headerSkipLoop n') lr := by
  induction n generalizing n' lr with
  | zero => unfold headerSkipLoop; exact R2.panic_left _ _
  | succ n ih =>
    cases n' with
    | zero => omega
    | succ n' =>
      unfold headerSkipLoop
      refine R2.bind (C.matches comment_c) ?_
      intro c lr1
      refine R2.ite (fun _ => ih n' (by omega)) (fun _ => ?_)
      refine R2.bind (C.matches newline_c) ?_
      intro c2 lr2
      exact R2.ite (fun _ => ih n' (by omega)) (fun _ => R2.pure _)

theorem orGiveUp_c {α : Type} {p : PM (Option α)} (hp : C q p lr) :
    C q (orGiveUp p unexpected) lr :=
  R2.orGiveUp hp (fun _ => unexpected_c)

theorem parseHeader_c (fmt : Format) (l : LitTy) : C q (parseHeader fmt l) lr := by
  unfold parseHeader
  refine R2.bind skipWhitespace_c ?_
  intro _ lr1
  refine R2.get_bind ?_
  refine R2.bind (headerSkipLoop_r2 _ _ (by rw [ext_rest_length]; omega)) ?_
  intro _ lr2
  refine R2.bind (word_c [112]) ?_
  intro r lr3
  split
  · exact R2.pure _
  · refine R2.bind (orGiveUp_c (word_c (keyword fmt))) ?_
    intro _ lr4
    refine R2.bind (orGiveUp_c (varCount_c l)) ?_
    intro vc lr5
    refine R2.bind (orGiveUp_c (uintCount_c usizeTy)) ?_
    intro cc lr6
    have tail : ∀ (ex : Int) (lr7 : LR), C q (do
        orGiveUp interactiveEndOfLine unexpected
        pure (some ({ varCount := vc, clauseCount := cc, extra := ex } : Header))) lr7 := by
      intro ex lr7
      exact R2.bind (orGiveUp_c interactiveEndOfLine_c) (fun _ _ => R2.pure _)
    cases fmt <;> dsimp only
    · exact R2.bind (R2.pure _) (fun ex lr7 => tail ex lr7)
    · exact R2.bind (orGiveUp_c (uintCount_c u64Ty)) (fun ex lr7 => tail ex lr7)
    · exact R2.bind (orGiveUp_c (uintCount_c usizeTy)) (fun ex lr7 => tail ex lr7)

theorem parserNew_c (fmt : Format) (l : LitTy) (ignoreHeader : Bool) :
    C q (Parser.new fmt l ignoreHeader) lr := by
  unfold Parser.new
  refine R2.bind (parseHeader_c fmt l) ?_
  intro r lr1
  split
  · exact R2.pure _
  · exact R2.pure _

theorem clauseRest_c (l : LitTy) (limit : Int) (tag : Int) :
    C q (do
        let _ ← nonTerminatingLinebreaks
        let lits ← orGiveUp (clauseLits l limit) unexpected
        orGiveUp interactiveEndOfLine unexpected
        pure (some ({ tag := tag, lits } : Clause))) lr := by
  refine R2.bind nonTerminatingLinebreaks_c ?_
  intro _ lr1
  refine R2.bind (orGiveUp_c (clauseLits_c l limit)) ?_
  intro lits lr2
  exact R2.bind (orGiveUp_c interactiveEndOfLine_c) (fun _ _ => R2.pure _)

theorem clauseAlt_c (p : Parser) : C q (clauseAlt p) lr := by
  unfold clauseAlt
  split
  · refine R2.bind (clauseLits_c p.lit p.litLimit) ?_
    intro r lr1
    split
    · exact R2.pure _
    · exact R2.bind (orGiveUp_c interactiveEndOfLine_c) (fun _ _ => R2.pure _)
  · refine R2.bind (uintCount_c u64Ty) ?_
    intro r lr1
    split
    · exact R2.pure _
    · exact clauseRest_c p.lit p.litLimit _
  · refine R2.bind (clauseGroup_c p.groupLimit) ?_
    intro r lr1
    split
    · exact R2.pure _
    · exact clauseRest_c p.lit p.litLimit _

theorem nextClauseLoop_r2 (p : Parser) (n n' : Nat) (h : n ≤ n') :
    R2 q (nextClauseLoop p n) (nextClauseLoop p n') lr := by
  induction n generalizing n' lr with
  | zero => unfold nextClauseLoop; exact R2.panic_left _ _
  | succ n ih =>
    cases n' with
    | zero => omega
    | succ n' =>
      unfold nextClauseLoop
      dsimp only
      refine R2.ite (fun _ => R2.bind (clauseAlt_c p) ?_) (fun _ => R2.bind (R2.pure _) ?_)
      all_goals
        intro c lr1
        cases c with
        | some c => exact R2.pure _
        | none =>
          dsimp only
          refine R2.bind (C.matches comment_c) ?_
          intro m lr2
          refine R2.ite (fun _ => ih n' (by omega)) (fun _ => ?_)
          refine R2.bind (C.matches newline_c) ?_
          intro m2 lr3
          refine R2.ite (fun _ => ih n' (by omega)) (fun _ => ?_)
          refine R2.ite (fun _ => ?_) (fun _ => unexpected_c)
          refine R2.bind (C.matches eof_c) ?_
          intro m3 lr4
          exact R2.ite (fun _ => R2.pure _) (fun _ => unexpected_c)

theorem nextClause_c (p : Parser) : C q p.nextClause lr := by
  unfold Parser.nextClause
  refine R2.bind skipWhitespace_c ?_
  intro _ lr1
  refine R2.get_bind ?_
  exact nextClauseLoop_r2 p _ _ (by rw [ext_rest_length]; omega)

/-! ### SAT solver log -/

theorem strictCommentLoop_r2 (n n' : Nat) (h : n ≤ n') :
    R2 q (strictCommentLoop n) (strictCommentLoop n') lr := by
  induction n generalizing n' lr with
  | zero => unfold strictCommentLoop; exact R2.panic_left _ _
  | succ n ih =>
    cases n' with
    | zero => omega
    | succ n' =>
      unfold strictCommentLoop
      refine R2.bind (C.matches interactiveStrictComment_c) ?_
      intro c lr1
      exact R2.ite (fun _ => ih n' (by omega)) (fun _ => R2.pure _)

theorem valueLoop_r2 (l : LitTy) (n n' : Nat) (h : n ≤ n') (st : LogState) :
    R2 q (valueLoop l n st) (valueLoop l n' st) lr := by
  induction n generalizing n' lr st with
  | zero => unfold valueLoop; exact R2.panic_left _ _
  | succ n ih =>
    cases n' with
    | zero => omega
    | succ n' =>
      unfold valueLoop
      refine R2.bind C.setMark ?_
      intro _ lr1
      refine R2.bind litInt_c ?_
      intro r lr2
      cases r with
      | none => exact R2.pure _
      | some lit =>
        dsimp only
        refine R2.ite (fun _ => R2.pure _) (fun _ => ?_)
        exact R2.ite (fun _ => ih n' (by omega) _) (fun _ => exceedsVarCount_c)

/-- `fixed(pat)` mapped to a constant. -/
theorem fixed_then_c {β : Type} (pat : VBytes) (g : Option Unit → PM (Option β))
    (hs : ∃ v, g (some ()) = pure (some v)) (hn : g none = pure none) :
    C q (Cnf.fixed pat >>= g) lr := by
  refine R2.bind (fixed_c pat) ?_
  intro r lr1
  cases r with
  | none => rw [hn]; exact R2.pure _
  | some u =>
    obtain ⟨v, hv⟩ := hs
    cases u
    rw [hv]; exact R2.pure _

theorem logLoop_r2 (l : LitTy) (ig : Bool) (n n' : Nat) (h : n ≤ n') (st : LogState) :
    R2 q (logLoop l ig n st) (logLoop l ig n' st) lr := by
  induction n generalizing n' lr st with
  | zero => unfold logLoop; exact R2.panic_left _ _
  | succ n ih =>
    cases n' with
    | zero => omega
    | succ n' =>
      unfold logLoop
      dsimp only
      refine R2.get_bind ?_
      refine R2.bind (strictCommentLoop_r2 _ _ (by rw [ext_rest_length]; omega)) ?_
      intro _ lr1
      refine R2.ite (fun _ => R2.bind (C.matches (fixed_c [118, 32])) ?_)
        (fun _ => R2.bind (R2.pure _) ?_)
      all_goals
        intro isV lr2
        refine R2.ite (fun _ => ?_) (fun _ => ?_)
        · -- a value line
          refine R2.bind skipWhitespace_c ?_
          intro _ lr3
          refine R2.get_bind ?_
          refine R2.bind (valueLoop_r2 l _ _ (by rw [ext_rest_length]; omega) _) ?_
          intro st' lr4
          refine R2.bind (orGiveUp_c interactiveEndOfLine_c) ?_
          intro _ lr5
          exact ih n' (by omega) _
        · refine R2.ite (fun _ => R2.bind (C.matches (fixed_c [115, 32])) ?_)
            (fun _ => R2.bind (R2.pure _) ?_)
          all_goals
            intro isS lr3
            refine R2.ite (fun _ => ?_) (fun _ => ?_)
            · -- the status line
              refine R2.bind (R2.orGiveUp ?_ (fun _ => unexpected_c)) ?_
              · refine R2.bind ?_ ?_
                · exact C.orParse (fixed_then_c _ _ ⟨_, rfl⟩ rfl)
                    (fun _ => C.orParse (fixed_then_c _ _ ⟨_, rfl⟩ rfl)
                      (fun _ => fixed_then_c _ _ ⟨_, rfl⟩ rfl))
                · intro r lr4
                  cases r with
                  | none => exact R2.pure _
                  | some v =>
                    exact R2.bind (orGiveUp_c interactiveEndOfLine_c) (fun _ _ => R2.pure _)
              · intro sat lr4
                exact ih n' (by omega) _
            · refine R2.bind (C.matches eof_c) ?_
              intro m lr4
              refine R2.ite (fun _ => ?_) (fun _ => ?_)
              · exact R2.ite (fun _ => unexpected_c) (fun _ => R2.pure _)
              · refine R2.ite (fun _ => R2.bind (C.matches interactiveSkipLine_c) ?_)
                  (fun _ => R2.bind (R2.pure _) ?_)
                all_goals
                  intro sk lr5
                  exact R2.ite (fun _ => ih n' (by omega) _) (fun _ => unexpected_c)

theorem parseLog_c (l : LitTy) (ig : Bool) : C q (parseLog l ig) lr := by
  unfold parseLog
  refine R2.get_bind ?_
  refine R2.bind (logLoop_r2 l ig _ _ (by rw [ext_rest_length]; omega) _) ?_
  intro st lr1
  exact R2.pure _

end Cnf
end Flussab
