/-
C12, explicit stack: the small-step machine of `Flussab/Model/AigStack.lean` (the literal
`'outer: loop` of `Renumber::transfer` with its `Vec<Continuation>`) simulates the recursive model
`transfer` of `Flussab/Model/Aig.lean` — for EVERY `defs`, state, stack and literal, no
well-formedness needed.  `transferCost` is the exact number of loop iterations a call takes.
-/
import Flussab.Model.AigStack
import Flussab.Proof.AigBasic

namespace Flussab.Aig

/-! ### `State::Input1` is `finish` -/

theorem stepInput1_eq_finish (cfg : Config) (st : St) (lit : Nat) (d : AndGate) :
    stepInput1 cfg st lit d = finish cfg st lit d.out d.in0 d.in1 := by
  unfold stepInput1 finish St.push
  rcases sort2 d.in0 d.in1 with ⟨x, y⟩
  simp only
  generalize (if cfg.fold = true then foldGate x y else none) = fo
  cases fo with
  | some f => rfl
  | none =>
    simp only
    cases cfg.hash with
    | false => rfl
    | true =>
      simp only [if_true]
      cases ilookup ⟨x, y⟩ st.index <;> rfl

/-! ### the stack and the `path` of the recursive model -/

/-- The `lit` fields of the stacked continuations, bottom first: the `path` of `transfer`. -/
def pathOf (stk : Array Cont) : List Nat := stk.toList.map Cont.lit

theorem pathOf_empty : pathOf #[] = [] := rfl

theorem pathOf_push (stk : Array Cont) (c : Cont) : pathOf (stk.push c) = pathOf stk ++ [c.lit] := by
  unfold pathOf
  rw [Array.toList_push, List.map_append]
  rfl

theorem pathOf_length (stk : Array Cont) : (pathOf stk).length = stk.size := by
  unfold pathOf
  rw [List.length_map, Array.length_toList]

/-- The mid-stack test on the array is the test of the recursive model on the path. -/
theorem cycleHit_iff (stk : Array Cont) (lit : Nat) :
    cycleHit stk lit = true ↔ (pathOf stk)[(pathOf stk).length / 2]? = some lit := by
  unfold cycleHit
  rw [pathOf_length]
  unfold pathOf
  rw [List.getElem?_map, Array.getElem?_toList]
  cases stk[stk.size / 2]? with
  | none => simp
  | some c =>
    simp only [Option.map_some, Option.some.injEq, beq_iff_eq]
    exact eq_comm

/-! ### equations of the recursive model, case by case -/

section Equations
variable (cfg : Config) (defs : Defs) (fuel : Nat) (path : List Nat) (st : St) (lit : Nat)

theorem transfer_hit {t : Nat} (h : st.litMap.get lit = some t) :
    transfer cfg defs (fuel + 1) path st lit = .ok (t, st) := by
  simp only [transfer, h]

theorem transfer_cycle (h : st.litMap.get lit = none) (hc : path[path.length / 2]? = some lit) :
    transfer cfg defs (fuel + 1) path st lit = .error (.foundCycle lit) := by
  simp only [transfer, h, if_pos hc]

theorem transfer_undef (h : st.litMap.get lit = none) (hc : ¬ path[path.length / 2]? = some lit)
    (hd : findDef defs lit = none) :
    transfer cfg defs (fuel + 1) path st lit = .error (.notDefined lit) := by
  simp only [transfer, h, if_neg hc, hd]

theorem transfer_miss (h : st.litMap.get lit = none) (hc : ¬ path[path.length / 2]? = some lit)
    {d : AndGate} (hd : findDef defs lit = some d) :
    transfer cfg defs (fuel + 1) path st lit =
      match transfer cfg defs fuel (path ++ [lit]) st d.in0 with
      | .ok (t0, st1) =>
        match transfer cfg defs fuel (path ++ [lit]) st1 d.in1 with
        | .ok (t1, st2) => .ok (finish cfg st2 lit d.out t0 t1)
        | .error e => .error e
        | .outOfFuel => .outOfFuel
      | .error e => .error e
      | .outOfFuel => .outOfFuel := by
  simp only [transfer, h, if_neg hc, hd]
  rfl

end Equations

/-- Number of iterations of the loop in `Renumber::transfer` from `State::Transfer { lit }` until
the matching `State::Return` is reached (or the error is returned), read off the recursive model:
1 for a `lit_map` hit and for each error exit; for a gate 1 (push `Input0`) + first input + 2 (pop,
`Input0`) + second input + 2 (pop, `Input1`). -/
def transferCost (cfg : Config) (defs : Defs) : Nat → List Nat → St → Nat → Nat
  | 0, _, _, _ => 0
  | fuel + 1, path, st, lit =>
    match st.litMap.get lit with
    | some _ => 1
    | none =>
      if path[path.length / 2]? = some lit then 1
      else match findDef defs lit with
        | none => 1
        | some d =>
          match transfer cfg defs fuel (path ++ [lit]) st d.in0 with
          | .ok r0 =>
            match transfer cfg defs fuel (path ++ [lit]) r0.2 d.in1 with
            | .ok _ => transferCost cfg defs fuel (path ++ [lit]) st d.in0 +
                transferCost cfg defs fuel (path ++ [lit]) r0.2 d.in1 + 5
            | _ => transferCost cfg defs fuel (path ++ [lit]) st d.in0 +
                transferCost cfg defs fuel (path ++ [lit]) r0.2 d.in1 + 3
          | _ => transferCost cfg defs fuel (path ++ [lit]) st d.in0 + 1

section CostEquations
variable (cfg : Config) (defs : Defs) (fuel : Nat) (path : List Nat) (st : St) (lit : Nat)

theorem transferCost_hit {t : Nat} (h : st.litMap.get lit = some t) :
    transferCost cfg defs (fuel + 1) path st lit = 1 := by
  simp only [transferCost, h]

theorem transferCost_cycle (h : st.litMap.get lit = none) (hc : path[path.length / 2]? = some lit) :
    transferCost cfg defs (fuel + 1) path st lit = 1 := by
  simp only [transferCost, h, if_pos hc]

theorem transferCost_undef (h : st.litMap.get lit = none) (hc : ¬ path[path.length / 2]? = some lit)
    (hd : findDef defs lit = none) : transferCost cfg defs (fuel + 1) path st lit = 1 := by
  simp only [transferCost, h, if_neg hc, hd]

theorem transferCost_miss (h : st.litMap.get lit = none) (hc : ¬ path[path.length / 2]? = some lit)
    {d : AndGate} (hd : findDef defs lit = some d) :
    transferCost cfg defs (fuel + 1) path st lit =
      match transfer cfg defs fuel (path ++ [lit]) st d.in0 with
      | .ok r0 =>
        match transfer cfg defs fuel (path ++ [lit]) r0.2 d.in1 with
        | .ok _ => transferCost cfg defs fuel (path ++ [lit]) st d.in0 +
            transferCost cfg defs fuel (path ++ [lit]) r0.2 d.in1 + 5
        | _ => transferCost cfg defs fuel (path ++ [lit]) st d.in0 +
            transferCost cfg defs fuel (path ++ [lit]) r0.2 d.in1 + 3
      | _ => transferCost cfg defs fuel (path ++ [lit]) st d.in0 + 1 := by
  simp only [transferCost, h, if_neg hc, hd]

end CostEquations

/-! ### single steps of the machine -/

section Steps
variable (cfg : Config) (defs : Defs) (st : St) (stk : Array Cont)

theorem step_hit {lit t : Nat} (h : st.litMap.get lit = some t) :
    stepStack cfg defs ⟨⟨st, stk⟩, .transfer lit⟩ = .inl ⟨⟨st, stk⟩, .ret t⟩ := by
  simp only [stepStack, h]

theorem step_cycle {lit : Nat} (h : st.litMap.get lit = none) (hc : cycleHit stk lit = true) :
    stepStack cfg defs ⟨⟨st, stk⟩, .transfer lit⟩ = .inr (.error (.foundCycle lit), ⟨st, stk⟩) := by
  simp only [stepStack, h, hc, if_true]

theorem step_undef {lit : Nat} (h : st.litMap.get lit = none) (hc : ¬ cycleHit stk lit = true)
    (hd : findDef defs lit = none) :
    stepStack cfg defs ⟨⟨st, stk⟩, .transfer lit⟩ = .inr (.error (.notDefined lit), ⟨st, stk⟩) := by
  simp only [stepStack, h, hc, hd]
  rfl

theorem step_push {lit : Nat} (h : st.litMap.get lit = none) (hc : ¬ cycleHit stk lit = true)
    {d : AndGate} (hd : findDef defs lit = some d) :
    stepStack cfg defs ⟨⟨st, stk⟩, .transfer lit⟩ =
      .inl ⟨⟨st, stk.push (.input0 lit d)⟩, .transfer d.in0⟩ := by
  simp only [stepStack, h, hc, hd]
  rfl

theorem step_ret_push (c : Cont) (t : Nat) :
    stepStack cfg defs ⟨⟨st, stk.push c⟩, .ret t⟩ = .inl ⟨⟨st, stk⟩, c.returning t⟩ := by
  simp only [stepStack, Array.back?_push, Array.pop_push]

theorem step_ret_empty (t : Nat) :
    stepStack cfg defs ⟨⟨st, #[]⟩, .ret t⟩ = .inr (.ok t, ⟨st, #[]⟩) := by
  simp only [stepStack, Array.back?_empty]

theorem step_input0 (lit : Nat) (d : AndGate) (t : Nat) :
    stepStack cfg defs ⟨⟨st, stk⟩, .input0 lit d t⟩ =
      .inl ⟨⟨st, stk.push (.input1 lit { d with in0 := t })⟩, .transfer d.in1⟩ := rfl

theorem step_input1 (lit : Nat) (d : AndGate) (t0 t1 : Nat) :
    stepStack cfg defs ⟨⟨st, stk⟩, .input1 lit { d with in0 := t0 } t1⟩ =
      .inl ⟨⟨(finish cfg st lit d.out t0 t1).2, stk⟩, .ret (finish cfg st lit d.out t0 t1).1⟩ := by
  simp only [stepStack, stepInput1_eq_finish]

end Steps

theorem runStack_inl {cfg : Config} {defs : Defs} {s s' : StackState} (h : stepStack cfg defs s = .inl s')
    (n : Nat) : runStack cfg defs (n + 1) s = runStack cfg defs n s' := by
  simp only [runStack, h]

theorem runStack_err {cfg : Config} {defs : Defs} {s : StackState} {e : Err} {rn : Renumber}
    (h : stepStack cfg defs s = .inr (.error e, rn)) (n : Nat) :
    runStack cfg defs (n + 1) s = .error e := by
  simp only [runStack, h]

theorem runStack_ok {cfg : Config} {defs : Defs} {s : StackState} {t : Nat} {rn : Renumber}
    (h : stepStack cfg defs s = .inr (.ok t, rn)) (n : Nat) :
    runStack cfg defs (n + 1) s = .ok (t, rn) := by
  simp only [runStack, h]

/-- More fuel never changes a finished run. -/
theorem runStack_mono (cfg : Config) (defs : Defs) :
    ∀ (n : Nat) (s : StackState), runStack cfg defs n s ≠ .outOfFuel →
      ∀ k, runStack cfg defs (n + k) s = runStack cfg defs n s := by
  intro n
  induction n with
  | zero => intro s h; exact absurd rfl h
  | succ n ih =>
    intro s h k
    have e : n + 1 + k = (n + k) + 1 := by omega
    rw [e]
    cases hs : stepStack cfg defs s with
    | inl s' =>
      rw [runStack_inl hs] at h
      rw [runStack_inl hs, runStack_inl hs]
      exact ih s' h k
    | inr r =>
      obtain ⟨r, rn⟩ := r
      cases r with
      | ok t => rw [runStack_ok hs, runStack_ok hs]
      | error e => rw [runStack_err hs, runStack_err hs]

/-! ### the simulation -/

/-- **Big-step simulation.**  Started in `State::Transfer { lit }` on ANY stack `stk`, the machine
takes exactly `transferCost` iterations and then either is in `State::Return { transferred }` with
the tables the recursive `transfer` (called with `path` = the stacked literals) returns and the
stack as it was, or has returned the same error.  No assumption on `defs`, the state or the graph;
the only hypothesis is that the recursive model had enough recursion-depth fuel. -/
theorem runStack_transfer (cfg : Config) (defs : Defs) :
    ∀ (dfuel : Nat) (stk : Array Cont) (st : St) (lit : Nat),
      transfer cfg defs dfuel (pathOf stk) st lit ≠ .outOfFuel →
      ∀ K, runStack cfg defs (transferCost cfg defs dfuel (pathOf stk) st lit + K)
          ⟨⟨st, stk⟩, .transfer lit⟩ =
        match transfer cfg defs dfuel (pathOf stk) st lit with
        | .ok r => runStack cfg defs K ⟨⟨r.2, stk⟩, .ret r.1⟩
        | .error e => .error e
        | .outOfFuel => .outOfFuel := by
  intro dfuel
  induction dfuel with
  | zero => intro stk st lit h; exact absurd rfl h
  | succ dfuel ih =>
    intro stk st lit hne K
    cases hget : st.litMap.get lit with
    | some t =>
      rw [transfer_hit _ _ _ _ _ _ hget, transferCost_hit _ _ _ _ _ _ hget, Nat.add_comm]
      exact runStack_inl (step_hit cfg defs st stk hget) K
    | none =>
      by_cases hc : (pathOf stk)[(pathOf stk).length / 2]? = some lit
      · rw [transfer_cycle _ _ _ _ _ _ hget hc, transferCost_cycle _ _ _ _ _ _ hget hc, Nat.add_comm]
        exact runStack_err (step_cycle cfg defs st stk hget ((cycleHit_iff _ _).mpr hc)) K
      · have hc' : ¬ cycleHit stk lit = true := fun h => hc ((cycleHit_iff _ _).mp h)
        cases hfd : findDef defs lit with
        | none =>
          rw [transfer_undef _ _ _ _ _ _ hget hc hfd, transferCost_undef _ _ _ _ _ _ hget hc hfd,
            Nat.add_comm]
          exact runStack_err (step_undef cfg defs st stk hget hc' hfd) K
        | some d =>
          rw [transfer_miss _ _ _ _ _ _ hget hc hfd] at hne ⊢
          rw [transferCost_miss _ _ _ _ _ _ hget hc hfd]
          have hp0 : pathOf (stk.push (.input0 lit d)) = pathOf stk ++ [lit] := pathOf_push _ _
          have hpush := step_push cfg defs st stk hget hc' hfd
          cases e0 : transfer cfg defs dfuel (pathOf stk ++ [lit]) st d.in0 with
          | outOfFuel => rw [e0] at hne; exact absurd rfl hne
          | error e =>
            simp only
            have h0 := ih (stk.push (.input0 lit d)) st d.in0 (by rw [hp0, e0]; simp) K
            rw [hp0, e0] at h0
            have e : transferCost cfg defs dfuel (pathOf stk ++ [lit]) st d.in0 + 1 + K =
                (transferCost cfg defs dfuel (pathOf stk ++ [lit]) st d.in0 + K) + 1 := by omega
            rw [e, runStack_inl hpush]
            exact h0
          | ok r0 =>
            obtain ⟨t0, st1⟩ := r0
            rw [e0] at hne
            simp only at hne ⊢
            have hp1 : pathOf (stk.push (.input1 lit { d with in0 := t0 })) = pathOf stk ++ [lit] :=
              pathOf_push _ _
            have hstep0 := step_ret_push cfg defs st1 stk (.input0 lit d) t0
            have hstep1 := step_input0 cfg defs st1 stk lit d t0
            cases e1 : transfer cfg defs dfuel (pathOf stk ++ [lit]) st1 d.in1 with
            | outOfFuel => rw [e1] at hne; exact absurd rfl hne
            | error e =>
              simp only
              have h1 := ih (stk.push (.input1 lit { d with in0 := t0 })) st1 d.in1
                (by rw [hp1, e1]; simp) K
              rw [hp1, e1] at h1
              have h0 := ih (stk.push (.input0 lit d)) st d.in0 (by rw [hp0, e0]; simp)
                (transferCost cfg defs dfuel (pathOf stk ++ [lit]) st1 d.in1 + K + 1 + 1)
              rw [hp0, e0] at h0
              simp only at h0
              have e : transferCost cfg defs dfuel (pathOf stk ++ [lit]) st d.in0 +
                  transferCost cfg defs dfuel (pathOf stk ++ [lit]) st1 d.in1 + 3 + K =
                  (transferCost cfg defs dfuel (pathOf stk ++ [lit]) st d.in0 +
                    (transferCost cfg defs dfuel (pathOf stk ++ [lit]) st1 d.in1 + K + 1 + 1)) + 1 := by
                omega
              rw [e, runStack_inl hpush, h0, runStack_inl hstep0]
              show runStack cfg defs _ ⟨⟨st1, stk⟩, .input0 lit d t0⟩ = _
              rw [runStack_inl hstep1]
              exact h1
            | ok r1 =>
              obtain ⟨t1, st2⟩ := r1
              simp only
              have hstep2 := step_ret_push cfg defs st2 stk (.input1 lit { d with in0 := t0 }) t1
              have hstep3 := step_input1 cfg defs st2 stk lit d t0 t1
              have h1 := ih (stk.push (.input1 lit { d with in0 := t0 })) st1 d.in1
                (by rw [hp1, e1]; simp) (K + 1 + 1)
              rw [hp1, e1] at h1
              simp only at h1
              have h0 := ih (stk.push (.input0 lit d)) st d.in0 (by rw [hp0, e0]; simp)
                (transferCost cfg defs dfuel (pathOf stk ++ [lit]) st1 d.in1 + (K + 1 + 1) + 1 + 1)
              rw [hp0, e0] at h0
              simp only at h0
              have e : transferCost cfg defs dfuel (pathOf stk ++ [lit]) st d.in0 +
                  transferCost cfg defs dfuel (pathOf stk ++ [lit]) st1 d.in1 + 5 + K =
                  (transferCost cfg defs dfuel (pathOf stk ++ [lit]) st d.in0 +
                    (transferCost cfg defs dfuel (pathOf stk ++ [lit]) st1 d.in1 + (K + 1 + 1) + 1 + 1)) + 1 := by
                omega
              rw [e, runStack_inl hpush, h0, runStack_inl hstep0]
              show runStack cfg defs _ ⟨⟨st1, stk⟩, .input0 lit d t0⟩ = _
              rw [runStack_inl hstep1, h1, runStack_inl hstep2]
              show runStack cfg defs _ ⟨⟨st2, stk⟩, .input1 lit { d with in0 := t0 } t1⟩ = _
              rw [runStack_inl hstep3]

/-- The recursive model's result, as a result of `transferStack` called on the stack `stk`. -/
def liftRes (stk : Array Cont) : Res (Nat × St) → Res (Nat × Renumber)
  | .ok r => .ok (r.1, ⟨r.2, stk⟩)
  | .error e => .error e
  | .outOfFuel => .outOfFuel

/-- **One call of `Renumber::transfer`** (as `initialize` makes it: on the empty stack) — same
returned literal, same `lit_map` / `last_code` / `and_gates` / `and_gate_index`, stack empty again,
same error — as soon as the loop is given `transferCost + 1` iterations. -/
theorem transferStack_eq (cfg : Config) (defs : Defs) (dfuel : Nat) (st : St) (lit : Nat)
    (h : transfer cfg defs dfuel [] st lit ≠ .outOfFuel) (fuel : Nat)
    (hf : transferCost cfg defs dfuel [] st lit + 1 ≤ fuel) :
    transferStack cfg defs fuel ⟨st, #[]⟩ lit = liftRes #[] (transfer cfg defs dfuel [] st lit) := by
  obtain ⟨K, rfl⟩ : ∃ K, fuel = transferCost cfg defs dfuel [] st lit + (K + 1) := ⟨fuel -
    (transferCost cfg defs dfuel [] st lit + 1), by omega⟩
  have := runStack_transfer cfg defs dfuel #[] st lit h (K + 1)
  rw [pathOf_empty] at this
  unfold transferStack
  rw [this]
  cases transfer cfg defs dfuel [] st lit with
  | outOfFuel => rfl
  | error e => rfl
  | ok r => exact runStack_ok (step_ret_empty cfg defs r.2 r.1) K

/-- **The two models never disagree**: whatever the two fuels, if neither run is cut off they
return the same literal, tables and error. -/
theorem transferStack_agrees (cfg : Config) (defs : Defs) (dfuel fuel : Nat) (st : St) (lit : Nat)
    (h : transfer cfg defs dfuel [] st lit ≠ .outOfFuel)
    (h' : transferStack cfg defs fuel ⟨st, #[]⟩ lit ≠ .outOfFuel) :
    transferStack cfg defs fuel ⟨st, #[]⟩ lit = liftRes #[] (transfer cfg defs dfuel [] st lit) := by
  have hbig := transferStack_eq cfg defs dfuel st lit h
    (fuel + (transferCost cfg defs dfuel [] st lit + 1)) (by omega)
  unfold transferStack at *
  rw [runStack_mono cfg defs fuel _ h'] at hbig
  exact hbig

end Flussab.Aig
