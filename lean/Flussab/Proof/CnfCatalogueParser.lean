/-
Prefix determinism inside a line (C08, replaced numeral token): the clause parser of
`Model/Cnf.lean` (header, clauses of the three formats, `next_clause`) and whole documents, run
side by side on `pre ++ tok ++ post` and `pre ++ tok' ++ post`; `cnf_overflow_located` is the
document-level statement.

The fuelled loops get their fuel from the length of the remaining input, which differs between the
two runs; `Both2` is the two-program form of `Both` (in-prefix statement + shifted-states statement)
used for them.
-/
import Flussab.Proof.CnfCatalogueLines

namespace Flussab
namespace Cnf
namespace Cat
open PM
open Flussab.Btor2.Cat

variable {X : Ctx} {α β : Type}

/-! ### two programs -/

structure Both2 (X : Ctx) (m1 m2 : PM α) : Prop where
  p : PWC X m1 m2
  s : ShWp (Loc X) m1 m2 Eq

theorem Both.to2 {m : PM α} (h : Both X m) : Both2 X m m := ⟨h.p, h.s⟩
theorem Both2.to1 {m : PM α} (h : Both2 X m m) : Both X m := ⟨h.p, h.s⟩

theorem Both2.bind {m1 m2 : PM α} {f1 f2 : α → PM β} (hm : Both2 X m1 m2)
    (hf : ∀ a, Both2 X (f1 a) (f2 a)) : Both2 X (m1 >>= f1) (m2 >>= f2) :=
  ⟨PWC.bind hm.p (fun a => (hf a).p) (fun a => (hf a).s),
    ShWp.bind hm.s (fun a1 a2 h => by subst h; exact (hf a1).s)⟩

theorem Both2.pure (a : α) : Both2 X (pure a : PM α) (pure a : PM α) := (Both.pure a).to2

theorem Both2.left {m1 m2 : PM α} (h : ∀ t a u, m1.run t ≠ (.ok a, u)) : Both2 X m1 m2 :=
  ⟨PW.left h, ShWp.left h⟩

theorem Both2.throwLeft {e : PErr} {m2 : PM α} : Both2 X (throw e : PM α) m2 :=
  Both2.left (fun _ _ _ h => by cases h)

theorem Both2.panicRight {m1 : PM α} {site : String} : Both2 X m1 (throw (.panic site) : PM α) :=
  ⟨fun _ _ => RWp.panicRight, fun _ _ _ => RWp.panicRight⟩

theorem Both2.unexpected {m2 : PM α} : Both2 X (Cnf.unexpected : PM α) m2 := Both2.left unexpected_never

/-- `get` followed by programs that may depend on the (different) states. -/
theorem Both2.getBind {k1 k2 : LR → PM α} (h : ∀ u1 u2, Both2 X (k1 u1) (k2 u2)) :
    Both2 X (get >>= k1) (get >>= k2) :=
  ⟨fun s hs => RWp.getBind ((h _ _).p s hs), ShWp.getBind (fun u1 u2 _ => (h u1 u2).s)⟩

theorem Both.getBind {k : LR → PM α} (h : ∀ u1 u2, Both2 X (k u1) (k u2)) : Both X (get >>= k) :=
  (Both2.getBind h).to1

/-- Two programs from states whose mark is at the cursor. -/
structure BothM2 (X : Ctx) (m1 m2 : PM α) : Prop where
  p : PWM X m1 m2
  s : ShWp (Loc X) m1 m2 Eq

theorem BothM2.bind {m : PM α} {f1 f2 : α → PM β} (hm : BothM X m) (hf : ∀ a, Both2 X (f1 a) (f2 a)) :
    BothM2 X (m >>= f1) (m >>= f2) := by
  refine ⟨?_, ShWp.bind hm.s (fun a1 a2 h => by subst h; exact (hf a1).s)⟩
  intro s hs hmk
  refine RWp.bind' (hm.p s hs hmk) ?_
  intro a1 u1 a2 u2 hpost
  rcases hpost with ⟨rfl, s', hs', rfl, rfl⟩ | ⟨hr, hsh⟩ | ⟨he, _⟩ | ⟨he, _⟩
  · exact (hf a1).p s' hs'
  · subst hr
    exact ((hf a1).s u1 u2 hsh).mono (fun _ _ _ _ h => Or.inr (Or.inl h))
  · exact he.elim
  · exact he.elim

theorem Both2.setMark {m1 m2 : PM α} (h : BothM2 X m1 m2) :
    Both2 X (PM.setMark >>= fun _ => m1) (PM.setMark >>= fun _ => m2) := by
  refine ⟨?_, ShWp.bind ShC.setMark (fun _ _ _ => h.s)⟩
  intro s hs
  refine RWp.bind (RWp.setMark ?_)
  exact h.p { s with v := s.v.setMark } hs.setMark rfl

theorem bothM_requiredLitInt (hX : OKC X) : BothM X (PM.orGiveUp litInt Cnf.unexpected) := by
  unfold PM.orGiveUp
  refine BothM.bind (bothM_litInt hX) (fun r => ?_)
  cases r with
  | some a => exact Both.pure a
  | none => exact Both.unexpected

/-! ### clause literals -/

theorem skipLinesLoop_b (hX : OKC X) : ∀ (f1 f2 : Nat), Both2 X (skipLinesLoop f1) (skipLinesLoop f2)
  | 0, _ => by
    rw [skipLinesLoop.eq_1]
    exact Both2.throwLeft
  | f1 + 1, 0 => by
    rw [skipLinesLoop.eq_1]
    exact Both2.panicRight
  | f1 + 1, f2 + 1 => by
    rw [skipLinesLoop.eq_2, skipLinesLoop.eq_2]
    refine Both2.bind (Both.matches (Both.orParse (both_comment hX) (both_newline hX))).to2 (fun b => ?_)
    split
    · exact skipLinesLoop_b hX f1 f2
    · exact Both2.pure _

theorem both_nonTerminatingLinebreaks (hX : OKC X) : Both X nonTerminatingLinebreaks := by
  unfold nonTerminatingLinebreaks
  refine Both.bind (Both.matches (both_newline hX)) (fun b => ?_)
  split
  · refine Both.getBind (fun u1 u2 => ?_)
    exact Both2.bind (skipLinesLoop_b hX _ _) (fun _ => Both2.pure _)
  · exact Both.pure _

theorem clauseLitsLoop_b (hX : OKC X) (l : LitTy) (limit : Int) :
    ∀ (f1 f2 : Nat) (lit : Int) (acc : List Int),
      Both2 X (clauseLitsLoop l limit f1 lit acc) (clauseLitsLoop l limit f2 lit acc)
  | 0, _, _, _ => by
    rw [clauseLitsLoop.eq_1]
    exact Both2.throwLeft
  | f1 + 1, 0, _, _ => by
    rw [clauseLitsLoop.eq_1]
    exact Both2.panicRight
  | f1 + 1, f2 + 1, lit, acc => by
    rw [clauseLitsLoop.eq_2, clauseLitsLoop.eq_2]
    split
    · exact Both2.pure _
    · split
      · refine Both2.setMark (BothM2.bind (bothM_litInt hX) (fun r => ?_))
        split
        · exact clauseLitsLoop_b hX l limit f1 f2 _ _
        · refine Both2.bind (both_nonTerminatingLinebreaks hX).to2 (fun b => ?_)
          split
          · exact Both2.setMark (BothM2.bind (bothM_requiredLitInt hX)
              (fun next => clauseLitsLoop_b hX l limit f1 f2 _ _))
          · exact Both2.unexpected
      · exact Both2.left exceedsVarCount_never

theorem both_clauseLits (hX : OKC X) (l : LitTy) (limit : Int) : Both X (clauseLits l limit) := by
  unfold clauseLits
  refine (Both2.setMark (BothM2.bind (bothM_litInt hX) (fun r => ?_))).to1
  split
  · exact Both2.pure _
  · refine Both2.getBind (fun u1 u2 => ?_)
    exact Both2.bind (clauseLitsLoop_b hX l limit _ _ _ _) (fun _ => Both2.pure _)

/-! ### header -/

theorem headerSkipLoop_b (hX : OKC X) : ∀ (f1 f2 : Nat), Both2 X (headerSkipLoop f1) (headerSkipLoop f2)
  | 0, _ => by
    rw [headerSkipLoop.eq_1]
    exact Both2.throwLeft
  | f1 + 1, 0 => by
    rw [headerSkipLoop.eq_1]
    exact Both2.panicRight
  | f1 + 1, f2 + 1 => by
    rw [headerSkipLoop.eq_2, headerSkipLoop.eq_2]
    refine Both2.bind (Both.matches (both_comment hX)).to2 (fun b => ?_)
    split
    · exact headerSkipLoop_b hX f1 f2
    · refine Both2.bind (Both.matches (both_newline hX)).to2 (fun b => ?_)
      split
      · exact headerSkipLoop_b hX f1 f2
      · exact Both2.pure _

theorem keyword_ok (fmt : Format) :
    keyword fmt ≠ [] ∧ ∀ x ∈ keyword fmt, isDigit x = false ∧ x ≠ 10 := by
  cases fmt <;> exact ⟨by decide, by decide⟩

theorem both_parseHeader (hX : OKC X) (fmt : Format) (l : LitTy) : Both X (parseHeader fmt l) := by
  unfold parseHeader
  refine Both.bind (both_skipWhitespace hX) (fun _ => ?_)
  refine Both.getBind (fun u1 u2 => ?_)
  refine Both2.bind (headerSkipLoop_b hX _ _) (fun _ => Both.to2 ?_)
  refine Both.bind (both_word hX [112] (by decide) (by decide)) (fun r => ?_)
  split
  · exact Both.pure _
  · refine Both.bind (Both.orGiveUp (both_word hX _ (keyword_ok fmt).1 (keyword_ok fmt).2)) (fun _ => ?_)
    refine Both.bind (Both.orGiveUp (both_varCount hX l)) (fun vc => ?_)
    refine Both.bind (Both.orGiveUp (both_uintCount hX usizeTy (by decide) usize_fit)) (fun cc => ?_)
    have htail : ∀ extra : Int, Both X (do
        orGiveUp interactiveEndOfLine unexpected
        pure (some ({ varCount := vc, clauseCount := cc, extra := extra } : Header)) : PM (Option Header)) :=
      fun extra => Both.bind (Both.orGiveUp (both_interactiveEndOfLine hX)) (fun _ => Both.pure _)
    cases fmt with
    | cnf => exact Both.bind (Both.pure 0) htail
    | wcnf => exact Both.bind (Both.orGiveUp (both_uintCount hX u64Ty (by decide) u64_fit)) htail
    | gcnf => exact Both.bind (Both.orGiveUp (both_uintCount hX usizeTy (by decide) usize_fit)) htail

theorem both_parserNew (hX : OKC X) (fmt : Format) (l : LitTy) (ignoreHeader : Bool) :
    Both X (Parser.new fmt l ignoreHeader) := by
  unfold Parser.new
  refine Both.bind (both_parseHeader hX fmt l) (fun r => ?_)
  split
  · exact Both.pure _
  · exact Both.pure _

/-! ### clauses -/

theorem both_clauseAlt (hX : OKC X) (p : Parser) : Both X (clauseAlt p) := by
  unfold clauseAlt
  split
  · refine Both.bind (both_clauseLits hX _ _) (fun r => ?_)
    split
    · exact Both.pure _
    · exact Both.bind (Both.orGiveUp (both_interactiveEndOfLine hX)) (fun _ => Both.pure _)
  · refine Both.bind (both_uintCount hX u64Ty (by decide) u64_fit) (fun r => ?_)
    split
    · exact Both.pure _
    · refine Both.bind (both_nonTerminatingLinebreaks hX) (fun _ => ?_)
      refine Both.bind (Both.orGiveUp (both_clauseLits hX _ _)) (fun lits => ?_)
      exact Both.bind (Both.orGiveUp (both_interactiveEndOfLine hX)) (fun _ => Both.pure _)
  · refine Both.bind (both_clauseGroup hX _) (fun r => ?_)
    split
    · exact Both.pure _
    · refine Both.bind (both_nonTerminatingLinebreaks hX) (fun _ => ?_)
      refine Both.bind (Both.orGiveUp (both_clauseLits hX _ _)) (fun lits => ?_)
      exact Both.bind (Both.orGiveUp (both_interactiveEndOfLine hX)) (fun _ => Both.pure _)

theorem nextClauseLoop_b (hX : OKC X) (p : Parser) :
    ∀ (f1 f2 : Nat), Both2 X (nextClauseLoop p f1) (nextClauseLoop p f2)
  | 0, _ => by
    rw [nextClauseLoop.eq_1]
    exact Both2.throwLeft
  | f1 + 1, 0 => by
    rw [nextClauseLoop.eq_1]
    exact Both2.panicRight
  | f1 + 1, f2 + 1 => by
    rw [nextClauseLoop.eq_2, nextClauseLoop.eq_2]
    dsimp only
    have htail : ∀ c : Option Clause, Both2 X
        (match c with
          | some c => pure (some c, { p with clauseCount := p.clauseCount + 1 })
          | none => do
            if ← «matches» comment then nextClauseLoop p f1
            else if ← «matches» newline then nextClauseLoop p f1
            else
              let mayEnd := !p.clauseLimitActive || (p.clauseCount : Int) ≥ p.clauseLimit
              if mayEnd then
                if ← «matches» eof then pure (none, p) else unexpected
              else unexpected : PM (Option Clause × Parser))
        (match c with
          | some c => pure (some c, { p with clauseCount := p.clauseCount + 1 })
          | none => do
            if ← «matches» comment then nextClauseLoop p f2
            else if ← «matches» newline then nextClauseLoop p f2
            else
              let mayEnd := !p.clauseLimitActive || (p.clauseCount : Int) ≥ p.clauseLimit
              if mayEnd then
                if ← «matches» eof then pure (none, p) else unexpected
              else unexpected : PM (Option Clause × Parser)) := by
      intro c
      split
      · exact Both2.pure _
      · refine Both2.bind (Both.matches (both_comment hX)).to2 (fun b => ?_)
        split
        · exact nextClauseLoop_b hX p f1 f2
        · refine Both2.bind (Both.matches (both_newline hX)).to2 (fun b => ?_)
          split
          · exact nextClauseLoop_b hX p f1 f2
          · dsimp only
            split
            · refine Both2.bind (Both.matches (both_eof hX)).to2 (fun b => ?_)
              split
              · exact Both2.pure _
              · exact Both2.unexpected
            · exact Both2.unexpected
    split
    · exact Both2.bind (both_clauseAlt hX p).to2 htail
    · exact Both2.bind (Both2.pure none) htail

theorem both_nextClause (hX : OKC X) (p : Parser) : Both X p.nextClause := by
  unfold Parser.nextClause
  refine Both.bind (both_skipWhitespace hX) (fun _ => ?_)
  exact Both.getBind (fun u1 u2 => nextClauseLoop_b hX p _ _)

/-! ### whole documents -/

theorem driveClauses_pw (hX : OKC X) : ∀ (f1 f2 : Nat) (p : Parser) (acc1 acc2 : List Clause) (s : LR),
    St X s → (driveClauses f1 p acc1 (E X.q1 s)).2.1 = none →
    ∀ e, (driveClauses f2 p acc2 (E X.q2 s)).2.1 = some e → Good (Loc X) e
  | 0, _, _, _, _, _, _, h1, _, _ => by
    simp [driveClauses] at h1
  | f1 + 1, 0, _, _, _, _, _, _, e, h2 => by
    simp only [driveClauses, Option.some.injEq] at h2
    subst h2
    exact Good.panic _
  | f1 + 1, f2 + 1, p, acc1, acc2, s, hs, h1, e, h2 => by
    have hn := (both_nextClause hX p).p s hs
    unfold driveClauses at h1 h2
    rcases hr1 : p.nextClause.run (E X.q1 s) with ⟨e1 | a1, u1⟩
    · rw [hr1] at h1
      simp at h1
    · obtain ⟨hok, herr⟩ := hn a1 u1 hr1
      rcases hr2 : p.nextClause.run (E X.q2 s) with ⟨e2 | a2, u2⟩
      · rw [hr2] at h2
        simp only [Option.some.injEq] at h2
        subst h2
        exact herr _ _ hr2
      · rw [hr1] at h1
        rw [hr2] at h2
        rcases hok a2 u2 hr2 with ⟨rfl, s', hs', rfl, rfl⟩ | ⟨rfl, hsh⟩ | ⟨h, _⟩ | ⟨h, _⟩
        · obtain ⟨c, p'⟩ := a1
          cases c with
          | none => simp at h2
          | some c =>
            simp only at h1 h2
            exact driveClauses_pw hX f1 f2 p' _ _ s' hs' h1 e h2
        · obtain ⟨c, p'⟩ := a1
          cases c with
          | none => simp at h2
          | some c =>
            simp only at h1 h2
            exact driveClauses_sh f1 f2 p' _ _ u1 u2 hsh h1 e h2
        · exact h.elim
        · exact h.elim

/-- **Replaced numeral token** (DIMACS family, document level): if `pre ++ tok ++ post` is accepted,
`tok` and `tok'` are digit strings, the value of `tok'` is at least `2^64`, the token is delimited,
and `pre ++ tok' ++ post` is rejected with a syntax error, then the error is on the line of the token
and its column lies on the token. -/
theorem cnf_overflow_located (fmt : Format) (lt : LitTy) (ignoreHeader : Bool)
    (pre tok tok' post : VBytes) (l c : Nat)
    (hacc : (parseAll fmt lt ignoreHeader (LR.init (pre ++ tok ++ post) false)).final = none)
    (hrej : (parseAll fmt lt ignoreHeader (LR.init (pre ++ tok' ++ post) false)).final = some (.syn l c))
    (hne : tok ≠ []) (hd : tok.all isDigit = true) (hd' : tok'.all isDigit = true)
    (hbig : 2 ^ 64 ≤ Text.decVal tok')
    (hpre : pre = [] ∨ pre.getLast? = some 32 ∨ pre.getLast? = some 10)
    (hpost : post.head? = some 32 ∨ post.head? = some 9 ∨ post.head? = some 13 ∨ post.head? = some 10) :
    l = 1 + pre.count 10 ∧
    (pre.reverse.takeWhile (· != 10)).length + 1 ≤ c ∧
    c < (pre.reverse.takeWhile (· != 10)).length + 1 + tok'.length := by
  let X : Ctx := ⟨tok, tok', post, 1 + pre.count 10, lll pre + 1⟩
  have hpost' : ∃ c tl, post = c :: tl ∧ (c = 32 ∨ c = 9 ∨ c = 13 ∨ c = 10) := by
    cases post with
    | nil => simp at hpost
    | cons c tl => exact ⟨c, tl, rfl, by simpa using hpost⟩
  have hX : OKC X := ⟨hne, hd, hd', hbig, hpost'⟩
  have hs : St X (LR.init pre false) := by
    refine ⟨rfl, ?_, fun _ => rfl, ?_, hpre⟩
    · intro h0
      refine ⟨Nat.le_refl _, ?_⟩
      show lll pre + 1 + 0 = 0 + pre.length + 1
      have h0' : pre.count 10 = 0 := h0
      rw [lll_no_lf h0']; omega
    · show 0 ≤ _
      exact Nat.zero_le _
  have e1 : LR.init (pre ++ tok ++ post) false = E X.q1 (LR.init pre false) := by
    simp [LR.init, View.init, E, Ctx.q1, X]
  have e2 : LR.init (pre ++ tok' ++ post) false = E X.q2 (LR.init pre false) := by
    simp [LR.init, View.init, E, Ctx.q2, X]
  rw [e1] at hacc
  rw [e2] at hrej
  have hn := (both_parserNew hX fmt lt ignoreHeader).p _ hs
  unfold parseAll at hacc hrej
  have hgood : Good (Loc X) (.syn l c) := by
    rcases hr1 : (Parser.new fmt lt ignoreHeader).run (E X.q1 (LR.init pre false)) with ⟨e1' | p1, u1⟩
    · rw [hr1] at hacc
      simp at hacc
    · obtain ⟨hok, herr⟩ := hn p1 u1 hr1
      rw [hr1] at hacc
      rcases hr2 : (Parser.new fmt lt ignoreHeader).run (E X.q2 (LR.init pre false)) with ⟨e2' | p2, u2⟩
      · rw [hr2] at hrej
        simp only [Option.some.injEq] at hrej
        subst hrej
        exact herr _ _ hr2
      · rw [hr2] at hrej
        simp only at hacc hrej
        generalize hd1 : driveClauses (u1.v.rest.length + 2) p1 [] u1 = r1 at hacc
        generalize hd2 : driveClauses (u2.v.rest.length + 2) p2 [] u2 = r2 at hrej
        obtain ⟨i1, fin1, w1⟩ := r1
        obtain ⟨i2, fin2, w2⟩ := r2
        simp only at hacc hrej
        subst hacc
        subst hrej
        rcases hok p2 u2 hr2 with ⟨rfl, s', hs', rfl, rfl⟩ | ⟨rfl, hsh⟩ | ⟨h, _⟩ | ⟨h, _⟩
        · exact driveClauses_pw hX _ _ p1 [] [] s' hs' (by rw [hd1]) _ (by rw [hd2])
        · exact driveClauses_sh _ _ p1 [] [] u1 u2 hsh (by rw [hd1]) _ (by rw [hd2])
        · exact h.elim
        · exact h.elim
  rcases hgood with ⟨site, hsite⟩ | hloc
  · cases hsite
  · exact hloc l c rfl

end Cat
end Cnf
end Flussab
