/-
Lemmas about the source model (L0): what one retried `read` can do.
-/
import Flussab.Model.Source

namespace Flussab
namespace Source

/-- A source that obeys the `Read` contract: no lying event in its schedule. -/
def Honest (s : Source) : Prop := ∀ x, Ev.lie x ∉ s.sched

/-- Ghost consistency: after the end nothing is left. -/
def WF (s : Source) : Prop := s.ended = true → s.pre = [] ∧ s.data = []

theorem skipIntr_suffix (l : List Ev) : ∃ p, l = p ++ (skipIntr l).2 ∧ ∀ e ∈ p, e = Ev.intr := by
  induction l with
  | nil => exact ⟨[], by simp [skipIntr]⟩
  | cons e t ih =>
    cases e with
    | intr =>
      obtain ⟨p, hp, hall⟩ := ih
      refine ⟨Ev.intr :: p, ?_, ?_⟩
      · simp [skipIntr]; exact hp
      · intro e he
        cases he with
        | head => rfl
        | tail _ h => exact hall e h
    | give n => exact ⟨[], by simp [skipIntr]⟩
    | lie x => exact ⟨[], by simp [skipIntr]⟩

theorem skipIntr_head (l : List Ev) : ∀ t, (skipIntr l).2 ≠ Ev.intr :: t := by
  induction l with
  | nil => simp [skipIntr]
  | cons e t ih =>
    cases e with
    | intr => simpa [skipIntr] using ih
    | give n => simp [skipIntr]
    | lie x => simp [skipIntr]

/-- Everything a retried read can do to a source that has not ended, for a slice of `cap ≥ 1`
bytes. -/
inductive Outcome (s : Source) (cap : Nat) : ReadRes → Source → Prop
  /-- `Ok(n)`, `0 < n ≤ cap`: the next `n` bytes of the stream, in order -/
  | bytes (bs : Bytes) (s' : Source) :
      bs ≠ [] → bs.length ≤ cap → bs ++ (s'.pre ++ s'.data) = s.pre ++ s.data →
      s'.ended = false → s'.fault = s.fault → s'.afterEnd = s.afterEnd →
      s'.lastGive = bs.length → (∃ p, s.sched = p ++ s'.sched) →
      (s.pre = [] → s'.prod = s.prod + 1) → (s.pre ≠ [] → s'.prod = s.prod ∧ s'.calls = s.calls) →
      s'.delivered = s.delivered + bs.length →
      Outcome s cap (.data bs) s'
  /-- `Ok(0)`: only when the stream is exhausted and does not end in a fault -/
  | eof (s' : Source) :
      s.pre = [] → s.data = [] → s'.pre = [] → s'.data = [] → s'.ended = true →
      s.fault = false → s'.fault = false → s'.afterEnd = s.afterEnd → s'.lastGive = 0 →
      (∃ p, s.sched = p ++ s'.sched) → s'.prod = s.prod + 1 → s'.delivered = s.delivered →
      Outcome s cap (.data []) s'
  /-- terminal error: only when the stream is exhausted and ends in a fault -/
  | err (s' : Source) :
      s.pre = [] → s.data = [] → s'.pre = [] → s'.data = [] → s'.ended = true →
      s.fault = true → s'.fault = true → s'.afterEnd = s.afterEnd → s'.lastGive = 0 →
      (∃ p, s.sched = p ++ s'.sched) → s'.prod = s.prod + 1 → s'.delivered = s.delivered →
      Outcome s cap .err s'
  /-- contract violation: only with a lying event in the schedule -/
  | lie (n : Nat) (s' : Source) :
      cap < n → (∃ x, Ev.lie x ∈ s.sched) → s'.ended = false → s'.fault = s.fault →
      s'.afterEnd = s.afterEnd → s'.pre = [] → s.pre = [] → (∃ p, s.sched = p ++ s'.sched) →
      s'.delivered = s.delivered →
      Outcome s cap (.lie n) s'

theorem deliver_outcome (s0 s : Source) (n cap : Nat) (hn : 1 ≤ n) (hcap : 1 ≤ cap)
    (hpre0 : s0.pre = []) (hpre : s.pre = []) (hdata : s.data = s0.data) (hend : s.ended = false)
    (hfault : s.fault = s0.fault) (haft : s.afterEnd = s0.afterEnd) (hprod : s.prod = s0.prod)
    (hsched : ∃ p, s0.sched = p ++ s.sched) (hdel : s.delivered = s0.delivered) :
    Outcome s0 cap (s.deliver n cap).1 (s.deliver n cap).2 := by
  unfold deliver
  by_cases hk : min (min n cap) s.data.length = 0
  · have hlen : s.data.length = 0 := by omega
    have hnil : s.data = [] := List.eq_nil_of_length_eq_zero hlen
    have hnil0 : s0.data = [] := by rw [← hdata]; exact hnil
    simp only [hnil, List.length_nil, Nat.min_zero, ↓reduceIte, List.isEmpty_nil]
    cases hf : s.fault
    · simp only [Bool.false_eq_true, ↓reduceIte]
      refine .eof _ hpre0 hnil0 ?_ ?_ ?_ ?_ ?_ ?_ ?_ ?_ ?_ ?_ <;> simp_all
    · simp only [↓reduceIte]
      refine .err _ hpre0 hnil0 ?_ ?_ ?_ ?_ ?_ ?_ ?_ ?_ ?_ ?_ <;> simp_all
  · simp only [hk, ↓reduceIte]
    have hpos : 0 < s.data.length := by omega
    refine .bytes _ _ ?_ ?_ ?_ ?_ ?_ ?_ ?_ ?_ ?_ ?_ ?_
    · intro h
      have : (List.take (min (min n cap) s.data.length) s.data).length = 0 := by rw [h]; rfl
      simp only [List.length_take] at this; omega
    · simp only [List.length_take]; omega
    · simp [hpre, hpre0, hdata]
    · exact hend
    · exact hfault
    · exact haft
    · simp only [List.length_take]; omega
    · exact hsched
    · intro _; simp [hprod]
    · intro h; exact absurd hpre0 h
    · simp only [List.length_take, hdel]; omega

/-- One call whose schedule does not start with `intr`, stated relative to a source `s0` that
differs from `s` only in ghost counters and a schedule prefix. -/
theorem read_nonintr_outcome (s0 s : Source) (cap : Nat) (hcap : 1 ≤ cap) (hend : s.ended = false)
    (hhead : ∀ t, s.sched ≠ Ev.intr :: t)
    (hpre : s.pre = s0.pre) (hdata : s.data = s0.data) (hfault : s.fault = s0.fault)
    (haft : s.afterEnd = s0.afterEnd) (hprod : s.prod = s0.prod) (hdel : s.delivered = s0.delivered)
    (hcalls : s0.pre ≠ [] → s.calls = s0.calls)
    (hsched : ∃ p, s0.sched = p ++ s.sched) :
    Outcome s0 cap (s.read cap).1 (s.read cap).2 := by
  obtain ⟨p0, hp0⟩ := hsched
  unfold read
  by_cases hp : s.pre = []
  · have he : s.pre.isEmpty = true := by simp [hp]
    have hp' : s0.pre = [] := by rw [← hpre]; exact hp
    simp only [he, Bool.not_true, Bool.false_eq_true, ↓reduceIte, hend]
    match hs : s.sched with
    | .intr :: rest => exact absurd hs (hhead rest)
    | .lie x :: rest =>
      simp only
      refine .lie _ _ (by omega) ⟨x, by simp [hp0, hs]⟩ ?_ ?_ ?_ ?_ hp' ⟨p0 ++ [Ev.lie x], by simp [hp0, hs]⟩ ?_
        <;> simp_all
    | .give n :: rest =>
      simp only
      refine deliver_outcome s0 _ (max n 1) cap (by omega) hcap hp' ?_ ?_ ?_ ?_ ?_ ?_
        ⟨p0 ++ [Ev.give n], by simp [hp0, hs]⟩ ?_ <;> simp_all
    | [] =>
      simp only
      refine deliver_outcome s0 _ cap cap hcap hcap hp' ?_ ?_ ?_ ?_ ?_ ?_ ⟨p0, by simp [hp0, hs]⟩ ?_
        <;> simp_all
  · have hne : s.pre.isEmpty = false := by
      cases h : s.pre with
      | nil => exact absurd h hp
      | cons a t => rfl
    have hp' : s0.pre ≠ [] := by rw [← hpre]; exact hp
    simp only [hne, Bool.not_false, ↓reduceIte]
    have hlen : 0 < s.pre.length := by
      cases h : s.pre with
      | nil => exact absurd h hp
      | cons a t => simp
    refine .bytes _ _ ?_ ?_ ?_ hend hfault haft ?_ ⟨p0, hp0⟩ ?_ ?_ ?_
    · intro h
      have : (List.take (min cap s.pre.length) s.pre).length = 0 := by rw [h]; rfl
      simp only [List.length_take] at this; omega
    · simp only [List.length_take]; omega
    · simp [← List.append_assoc, hpre, hdata]
    · simp only [List.length_take]; omega
    · intro h; exact absurd h hp'
    · intro _; exact ⟨hprod, hcalls hp'⟩
    · simp only [List.length_take, hdel]; omega

/-- The retried read never returns `Interrupted`, and what it does is one of four outcomes. -/
theorem readRetry_outcome (s : Source) (cap : Nat) (hcap : 1 ≤ cap) (hend : s.ended = false) :
    Outcome s cap (s.readRetry cap).1 (s.readRetry cap).2 := by
  unfold readRetry
  by_cases hp : s.pre = []
  · have he : s.pre.isEmpty = true := by simp [hp]
    simp only [he, Bool.not_true, Bool.false_eq_true, ↓reduceIte, hend]
    obtain ⟨p, hp2, _⟩ := skipIntr_suffix s.sched
    exact read_nonintr_outcome s _ cap hcap rfl (skipIntr_head s.sched) rfl rfl rfl rfl rfl rfl
      (fun h => absurd hp h) ⟨p, hp2⟩
  · have hne : s.pre.isEmpty = false := by
      cases h : s.pre with
      | nil => exact absurd h hp
      | cons a t => rfl
    simp only [hne, Bool.not_false, ↓reduceIte]
    -- with pre-buffered bytes the schedule is not consulted
    have hlen : 0 < s.pre.length := by
      cases h' : s.pre with
      | nil => exact absurd h' hp
      | cons a t => simp
    unfold read
    simp only [hne, Bool.not_false, ↓reduceIte]
    refine .bytes _ _ ?_ ?_ ?_ hend rfl rfl ?_ ⟨[], rfl⟩ ?_ ?_ ?_
    · intro h'
      have : (List.take (min cap s.pre.length) s.pre).length = 0 := by rw [h']; rfl
      simp only [List.length_take] at this; omega
    · simp only [List.length_take]; omega
    · simp [← List.append_assoc]
    · simp only [List.length_take]; omega
    · intro h'; exact absurd h' hp
    · intro _; exact ⟨rfl, rfl⟩
    · simp only [List.length_take]; omega

theorem Honest.of_suffix {s s' : Source} (h : Honest s) (hs : ∃ p, s.sched = p ++ s'.sched) :
    Honest s' := by
  obtain ⟨p, hp⟩ := hs
  intro x hx
  exact h x (by rw [hp]; simp [hx])

end Source
end Flussab
