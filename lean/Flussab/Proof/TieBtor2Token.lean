/-
Proofs of the tie between the generated BTOR2 token model (`Gen/Btor2TokenGen.lean`, from
`flussab-btor2/src/token.rs`) and `Model/Btor2Token.lean`.  Statements: `Props/TieBtor2Token.lean`.

Loops: the five `while matches!(request_byte_at_offset(offset), ..) { offset += 1 }` scanners share one
lemma (`scan_loop`: any function with their recursion equation computes `scanWhile`, and the fuel
`rest.length + 1` is enough); `skip_whitespace` and `ascii_lowercase` have their own induction on fuel.
-/
import Flussab.Gen.Btor2TokenGen
import Flussab.Proof.Btor2Basic

namespace Flussab
namespace TieBtor2TokenAux
open PM

variable {α β : Type}

theorem pure_apply (a : α) (lr : LR) : (pure a : PM α) lr = (.ok a, lr) := rfl
theorem rpanic_apply (s : String) (lr : LR) : (rpanic s : PM α) lr = (.error (.panic s), lr) := rfl
theorem get_apply (lr : LR) : (get : PM LR) lr = (.ok lr, lr) := rfl
theorem getLR_apply (lr : LR) : PMExt.getLR lr = (.ok lr, lr) := rfl
theorem scan_apply (f : View → α × View) (lr : LR) :
    scan f lr = (.ok (f lr.v).1, { lr with v := (f lr.v).2 }) := rfl

theorem bufPrefix_apply (n : Nat) (lr : LR) :
    bufPrefix n lr = match lr.v.bufPrefix n with
      | some bs => (.ok bs, lr)
      | none => (.error (.panic "slice beyond scanned data"), lr) := by
  unfold bufPrefix
  rw [bind_apply, get_apply]
  simp only []
  cases lr.v.bufPrefix n <;> rfl

theorem liftOpt_apply (o : Option α) (lr : LR) :
    PMExt.liftOpt o lr = match o with
      | some a => (.ok a, lr)
      | none => (.error (.panic "index out of bounds"), lr) := by
  cases o <;> rfl

theorem bufAt0_bind (g : UInt8 → PM β) (h : VBytes → PM β) (hgh : ∀ b, g b = h [b]) :
    (Btor2TokenExt.bufAt 0 >>= g) = (bufPrefix 1 >>= h) := by
  funext lr
  unfold Btor2TokenExt.bufAt
  rw [bind_assoc, bind_apply, bind_apply, bufPrefix_apply]
  unfold View.bufPrefix
  by_cases hd : 1 ≤ lr.v.demanded
  · simp only [hd, if_true]
    have hl : 1 ≤ lr.v.rest.length := by unfold View.demanded at hd; omega
    rcases hr : lr.v.rest with _ | ⟨b, tl⟩
    · rw [hr] at hl; simp at hl
    · simp only [List.take_succ_cons, List.take_zero]
      rw [bind_apply, liftOpt_apply]
      simp only [List.getElem?_cons_zero, hgh]
  · simp only [hd, if_false]

theorem exceedsCount_eq {α : Type} (w v : Unit) : (Gen.Btor2Token.exceedsCount w v : PM α) = Btor2.exceedsCount := rfl

theorem singleton_bne (b c : UInt8) : ([b] != [c]) = (b != c) := by
  by_cases h : b = c
  · subst h; simp
  · have e : (b != c) = true := by simpa using h
    have e2 : ([b] != [c]) = true := by simpa using h
    rw [e, e2]

theorem uint_eq : Gen.Btor2Token.uint = Btor2.uint := by
  unfold Gen.Btor2Token.uint Btor2.uint
  congr 1
  funext p
  rcases p with ⟨value, off⟩
  simp only []
  by_cases h0 : off = 0
  · simp [h0]
  · simp [h0]
    apply bufAt0_bind
    intro b
    rw [singleton_bne]
    by_cases hb : b = 48
    · subst hb
      by_cases h1 : off = 1 <;> cases value <;> simp [h1]
    · have e : (b != 48) = true := by simpa using hb
      rw [e]
      cases value <;> simp [hb]


theorem newline_eq : Gen.Btor2Token.newline = Btor2.newline := by
  unfold Gen.Btor2Token.newline Btor2.newline
  congr 1
  funext o
  rcases o with _ | b
  · rfl
  · by_cases h : b = 10
    · subst h; rfl
    · have e : (b == 10) = false := by simpa using h
      have e2 : (some b == some 10) = false := by simp [h]
      simp [e, e2]

theorem space_eq : Gen.Btor2Token.space = Btor2.space := by
  unfold Gen.Btor2Token.space Btor2.space
  congr 1
  funext o
  rcases o with _ | b
  · rfl
  · by_cases h : b = 32
    · subst h; rfl
    · have e : (b == 32) = false := by simpa using h
      have e2 : (some b == some 32) = false := by simp [h]
      simp [e, e2]

theorem commentStart_eq : Gen.Btor2Token.commentStart = Btor2.commentStart := by
  unfold Gen.Btor2Token.commentStart Btor2.commentStart
  congr 1
  funext o
  rcases o with _ | b
  · rfl
  · by_cases h : b = 59
    · subst h; rfl
    · have e : (b == 59) = false := by simpa using h
      have e2 : (some b == some 59) = false := by simp [h]
      simp [e, e2]

theorem requiredSpace_eq : Gen.Btor2Token.requiredSpace = Btor2.requiredSpace := by
  unfold Gen.Btor2Token.requiredSpace Btor2.requiredSpace
  simp [space_eq]

theorem eof_eq : Gen.Btor2Token.eof = Btor2.eof := by
  unfold Gen.Btor2Token.eof Btor2.eof PMExt.ioError
  simp


theorem giveUpAt_apply (pos : Nat) (lr : LR) :
    (giveUpAt pos : PM α) lr =
      (.error (if lr.v.ioErr then .io
               else if pos < lr.lineStart then .panic "column underflow (position before line start)"
               else .syn lr.line (pos - lr.lineStart + 1)),
       { lr with v := { lr.v with ioErr := false } }) := by
  unfold giveUpAt View.checkIoError
  rw [bind_apply, get_apply]
  simp only []
  rw [bind_apply]
  by_cases h1 : lr.v.ioErr = true
  · simp only [h1, if_true]; rfl
  · by_cases h2 : pos < lr.lineStart
    · simp only [h1, h2, if_true]; rfl
    · simp only [h1, h2, if_false]; rfl

theorem exceedsCount_bind (f : α → PM β) : ((Btor2.exceedsCount : PM α) >>= f) = Btor2.exceedsCount := by
  funext lr
  unfold Btor2.exceedsCount
  rw [bind_assoc, bind_apply, bind_apply]
  have hm : mark lr = (.ok lr.v.mark, lr) := rfl
  rw [hm]
  simp only []
  rw [bind_apply, giveUpAt_apply, giveUpAt_apply]

theorem nonnegativeInt_eq (w : Unit) : Gen.Btor2Token.nonnegativeInt w = Btor2.nonnegativeInt := by
  unfold Gen.Btor2Token.nonnegativeInt Btor2.nonnegativeInt Btor2TokenExt.mapErr
  simp only [uint_eq, exceedsCount_eq]
  congr 1; funext _; congr 1; funext r
  rcases r with _ | _ | v <;> rfl

theorem positiveTail :
    Btor2TokenExt.mapP (Btor2TokenExt.mapErr Btor2.uint (fun _ => Btor2.exceedsCount)) Btor2TokenExt.nonZeroUnwrap =
      (do match ← Btor2.uint with
          | none => pure none
          | some none => Btor2.exceedsCount
          | some (some v) =>
            if v == 0 then rpanic "NonZeroU64::new(0).unwrap()" else pure (some v)) := by
  unfold Btor2TokenExt.mapP Btor2TokenExt.mapErr Btor2TokenExt.nonZeroUnwrap
  rw [bind_assoc]
  congr 1
  funext r
  rcases r with _ | _ | v
  · rfl
  · exact exceedsCount_bind _
  · show (pure (some v) >>= _) = _
    rw [pure_bind]
    by_cases hv : v = 0
    · subst hv; rfl
    · have e : (v == 0) = false := by simpa using hv
      simp [e]

theorem positiveInt_eq (w : Unit) : Gen.Btor2Token.positiveInt w = Btor2.positiveInt := by
  unfold Gen.Btor2Token.positiveInt Btor2.positiveInt
  simp only [uint_eq, exceedsCount_eq, positiveTail]
  congr 1
  funext o
  rcases o with _ | b
  · rfl
  · by_cases h : b = 48
    · subst h; rfl
    · have e : (b == 48) = false := by simpa using h
      have e2 : (some b == some 48) = false := by simp [h]
      simp [e, e2]
      congr 1

theorem nodeId_eq : Gen.Btor2Token.nodeId = Btor2.nodeId := by
  unfold Gen.Btor2Token.nodeId Btor2.nodeId
  simp [positiveInt_eq]

theorem sortId_eq : Gen.Btor2Token.sortId = Btor2.sortId := by
  unfold Gen.Btor2Token.sortId Btor2.sortId
  simp [positiveInt_eq]

theorem requiredPositiveInt_eq (w : Unit) : Gen.Btor2Token.requiredPositiveInt w = Btor2.requiredPositiveInt := by
  unfold Gen.Btor2Token.requiredPositiveInt Btor2.requiredPositiveInt
  simp [positiveInt_eq]

theorem requiredNonnegativeInt_eq (w : Unit) :
    Gen.Btor2Token.requiredNonnegativeInt w = Btor2.requiredNonnegativeInt := by
  unfold Gen.Btor2Token.requiredNonnegativeInt Btor2.requiredNonnegativeInt
  simp [nonnegativeInt_eq]

theorem requiredNodeId_eq : Gen.Btor2Token.requiredNodeId = Btor2.requiredNodeId := by
  unfold Gen.Btor2Token.requiredNodeId Btor2.requiredNodeId
  simp [nodeId_eq]

theorem requiredSortId_eq : Gen.Btor2Token.requiredSortId = Btor2.requiredSortId := by
  unfold Gen.Btor2Token.requiredSortId Btor2.requiredSortId
  simp [sortId_eq]


open Btor2 Text

/-- The generated `while matches!(request_byte_at_offset(offset), <c>) { offset += 1 }` loops: any
function with their recursion equation computes `scanWhile` (given enough fuel). -/
theorem scan_loop {ρ : Type} (L : Nat → Nat → PM (Ctl Nat ρ)) (c : Option UInt8 → Bool) (hn : c none = false)
    (hs : ∀ f off, L (f + 1) off =
      (reqAt off >>= fun t => if (!(c t)) = true then pure (Ctl.brk off) else L f (off + 1)))
    (fuel : Nat) : ∀ (off : Nat) (lr : LR), lr.v.rest.length - off < fuel →
    L fuel off lr =
      (.ok (Ctl.brk (off + runLen (fun b => c (some b)) (lr.v.rest.drop off))),
       { lr with v := lr.v.demand (off + runLen (fun b => c (some b)) (lr.v.rest.drop off)) }) := by
  induction fuel with
  | zero => intro off lr h; omega
  | succ fuel ih =>
    intro off lr hf
    rw [hs, bind_apply, reqAt_apply]
    simp only []
    by_cases hlt : off < lr.v.rest.length
    · have hget : lr.v.rest[off]? = some lr.v.rest[off] := List.getElem?_eq_getElem hlt
      have hdrop : lr.v.rest.drop off = lr.v.rest[off] :: lr.v.rest.drop (off + 1) := List.drop_eq_getElem_cons hlt
      rw [hget, hdrop]
      by_cases hb : c (some lr.v.rest[off]) = true
      · simp only [runLen, hb, Bool.not_true, Bool.false_eq_true, if_false, if_true]
        rw [ih (off + 1) _ (by show (lr.v.demand off).rest.length - (off + 1) < fuel; rw [demand_rest]; omega)]
        show _ = _
        simp only [demand_rest]
        rw [show off + (runLen (fun b => c (some b)) (List.drop (off + 1) lr.v.rest) + 1)
          = off + 1 + runLen (fun b => c (some b)) (List.drop (off + 1) lr.v.rest) by omega]
        rw [demand_demand lr.v off _ hlt (by omega)]
      · have hb' : c (some lr.v.rest[off]) = false := by simpa using hb
        simp only [runLen, hb', Bool.not_false, if_true, Bool.false_eq_true, if_false, Nat.add_zero]
        rfl
    · have hnone : lr.v.rest[off]? = none := List.getElem?_eq_none (by omega)
      have hdrop : lr.v.rest.drop off = [] := List.drop_eq_nil_of_le (by omega)
      rw [hnone, hdrop]
      simp only [runLen, hn, Bool.not_false, if_true, Nat.add_zero]
      rfl


theorem fuel_ok (lr : LR) (off : Nat) : lr.v.rest.length - off < lr.v.rest.length + 1 := by omega

theorem hex_step (f off : Nat) : Gen.Btor2Token.hexString.loop1 (f + 1) off =
    (reqAt off >>= fun t => if (!((fun o : Option UInt8 => match o with | some b => isHexDigit b | none => false) t)) = true
      then pure (Ctl.brk off) else Gen.Btor2Token.hexString.loop1 f (off + 1)) := by
  rw [Gen.Btor2Token.hexString.loop1]
  congr 1
  funext o
  rcases o with _ | b
  · rfl
  · rfl


/-- `unsafe { str::from_utf8_unchecked(&reader.buf()[a..b]) }`, checked. -/
def bufStr (a b : Nat) : PM VBytes := do
  let t ← Btor2TokenExt.bufRange a b
  utf8Unwrap t
  pure t

theorem hexString_eq (off : Nat) :
    Gen.Btor2Token.hexString off = (scan (Btor2.hexString · off) >>= fun e => bufStr off e) := by
  funext lr
  unfold Gen.Btor2Token.hexString
  rw [bind_apply, getLR_apply]
  simp only []
  rw [bind_apply, scan_loop _ _ rfl hex_step _ off lr (fuel_ok lr off)]
  simp only []
  rw [bind_apply, pure_apply, bind_apply, scan_apply]
  rfl


theorem bin_step (f off : Nat) : Gen.Btor2Token.binaryString.loop1 (f + 1) off =
    (reqAt off >>= fun t => if (!((fun o : Option UInt8 => match o with | some b => isBinDigit b | none => false) t)) = true
      then pure (Ctl.brk off) else Gen.Btor2Token.binaryString.loop1 f (off + 1)) := by
  rw [Gen.Btor2Token.binaryString.loop1]
  congr 1
  funext o
  rcases o with _ | b <;> rfl

theorem binaryString_eq (off : Nat) :
    Gen.Btor2Token.binaryString off = (scan (Btor2.binaryString · off) >>= fun e => bufStr off e) := by
  funext lr
  unfold Gen.Btor2Token.binaryString
  rw [bind_apply, getLR_apply]
  simp only []
  rw [bind_apply, scan_loop _ _ rfl bin_step _ off lr (fuel_ok lr off)]
  simp only []
  rw [bind_apply, pure_apply, bind_apply, scan_apply]
  rfl

theorem dec_step (f off : Nat) : Gen.Btor2Token.decimalString.loop1 (f + 1) off =
    (reqAt off >>= fun t => if (!((fun o : Option UInt8 => match o with | some b => isDigit b | none => false) t)) = true
      then pure (Ctl.brk off) else Gen.Btor2Token.decimalString.loop1 f (off + 1)) := by
  rw [Gen.Btor2Token.decimalString.loop1]
  congr 1
  funext o
  rcases o with _ | b <;> rfl

theorem decimalString_k1_eq (off start : Nat) :
    Gen.Btor2Token.decimalString.k1 off start = (scan (scanWhile isDigit · off) >>= fun e => bufStr start e) := by
  funext lr
  unfold Gen.Btor2Token.decimalString.k1
  rw [bind_apply, getLR_apply]
  simp only []
  rw [bind_apply, scan_loop _ _ rfl dec_step _ off lr (fuel_ok lr off)]
  simp only []
  rw [bind_apply, pure_apply, bind_apply, scan_apply]
  rfl

theorem decimalString_eq (off : Nat) :
    Gen.Btor2Token.decimalString off = (scan (Btor2.decimalString · off) >>= fun e => bufStr off e) := by
  funext lr
  unfold Gen.Btor2Token.decimalString
  simp only [decimalString_k1_eq]
  rw [bind_apply, reqAt_apply, bind_apply, scan_apply]
  simp only [Btor2.decimalString]
  rcases lr.v.rest[off]? with _ | b
  · rfl
  · by_cases h : b = 45
    · subst h; rfl
    · have e : (b == 45) = false := by simpa using h
      have e2 : (some b == some 45) = false := by simp [h]
      simp only [e, e2, Bool.false_eq_true, if_false]
      rfl


theorem sym_step (f off : Nat) : Gen.Btor2Token.symbolName.loop1 (f + 1) off =
    (reqAt off >>= fun t => if (!((fun o : Option UInt8 => match o with | some b => b != 10 && b != 32 | none => false) t)) = true
      then pure (Ctl.brk off) else Gen.Btor2Token.symbolName.loop1 f (off + 1)) := by
  rw [Gen.Btor2Token.symbolName.loop1]
  congr 1
  funext o
  rcases o with _ | b
  · rfl
  · have e : (!(!(b == 10 || b == 32))) = !(b != 10 && b != 32) := by
      show (!(!(b == 10 || b == 32))) = !((!(b == 10)) && !(b == 32))
      cases (b == 10) <;> cases (b == 32) <;> rfl
    simp only [e]

theorem symbolName_eq : Gen.Btor2Token.symbolName = Btor2.symbolName := by
  funext lr
  unfold Gen.Btor2Token.symbolName Btor2.symbolName
  rw [bind_apply, getLR_apply]
  simp only []
  rw [bind_apply, scan_loop _ _ rfl sym_step _ 0 lr (fuel_ok lr 0)]
  simp only []
  rw [bind_apply, pure_apply, bind_apply, scan_apply]
  rfl

theorem com_step (f off : Nat) : Gen.Btor2Token.commentBody.loop1 (f + 1) off =
    (reqAt off >>= fun t => if (!((fun o : Option UInt8 => match o with | some b => b != 10 | none => false) t)) = true
      then pure (Ctl.brk off) else Gen.Btor2Token.commentBody.loop1 f (off + 1)) := by
  rw [Gen.Btor2Token.commentBody.loop1]
  congr 1
  funext o
  rcases o with _ | b
  · rfl
  · have e : (!(!(b == 10))) = !(b != 10) := by
      show (!(!(b == 10))) = !(!(b == 10))
      rfl
    simp only [e]

theorem comment_tail (off : Nat) :
    (do let t5 ← reqAt off
        if t5.isNone then Btor2TokenExt.checkIoErrorTry
        advanceWithBuf off : PM VBytes) =
    (do if (← reqAt off).isNone then
          let lr ← get
          let (e, v') := lr.v.checkIoError
          set { lr with v := v' }
          if e then throw .io
        advanceWithBuf off) := by
  unfold Btor2TokenExt.checkIoErrorTry
  congr 1
  funext o
  cases o.isNone
  · rfl
  · simp only [if_true, bind_assoc]
    congr 1
    funext lr
    congr 1
    funext _
    cases lr.v.checkIoError.fst
    · simp
    · simp

theorem commentBody_eq : Gen.Btor2Token.commentBody = Btor2.commentBody := by
  funext lr
  unfold Gen.Btor2Token.commentBody Btor2.commentBody
  rw [bind_apply, getLR_apply]
  simp only []
  rw [bind_apply, scan_loop _ _ rfl com_step _ 0 lr (fuel_ok lr 0)]
  simp only []
  rw [bind_apply, pure_apply, bind_apply, scan_apply]
  simp only []
  exact congrFun (comment_tail _) _


theorem ws_loop (fuel : Nat) : ∀ (off : Nat) (lr : LR), lr.v.rest.length - off < fuel →
    Gen.Btor2Token.skipWhitespace.loop1 fuel off lr =
      (skipWsLoop fuel off >>= fun o => (pure (Ctl.brk o) : PM (Ctl Nat Unit))) lr := by
  induction fuel with
  | zero => intro off lr h; omega
  | succ fuel ih =>
    intro off lr hf
    rw [Gen.Btor2Token.skipWhitespace.loop1, skipWsLoop, bind_assoc, bind_apply, bind_apply, reqAt_apply]
    simp only []
    have hr : (lr.v.demand off).rest = lr.v.rest := demand_rest _ _
    by_cases hlt : off < lr.v.rest.length
    · have hget : lr.v.rest[off]? = some lr.v.rest[off] := List.getElem?_eq_getElem hlt
      rw [hget]
      generalize lr.v.rest[off] = b
      by_cases h32 : b = 32
      · subst h32
        simp only [beq_self_eq_true, if_true]
        show (pure () >>= fun _ => Gen.Btor2Token.skipWhitespace.loop1 fuel (off + 1)) _ = _
        rw [pure_bind]
        exact ih _ _ (by show (lr.v.demand off).rest.length - (off + 1) < fuel; rw [hr]; omega)
      · have e32 : (b == 32) = false := by simpa using h32
        by_cases h10 : b = 10
        · subst h10
          simp only [beq_self_eq_true, if_true, e32, Bool.false_eq_true, if_false]
          rw [bind_assoc, bind_apply, bind_apply]
          cases hl : lineAtOffset (off + 1) { lr with v := lr.v.demand off } with
          | mk r lr2 =>
            cases r with
            | error e => rfl
            | ok a =>
              simp only []
              have := lineAtOffset_rest _ _ _ _ hl
              exact ih _ _ (by rw [this]; show (lr.v.demand off).rest.length - (off + 1) < fuel; rw [hr]; omega)
        · have e10 : (b == 10) = false := by simpa using h10
          simp only [e32, e10, Bool.false_eq_true, if_false]
          split
          · rename_i h; exact absurd (Option.some.inj h) h32
          · rename_i h; exact absurd (Option.some.inj h) h10
          · rfl
    · have hnone : lr.v.rest[off]? = none := List.getElem?_eq_none (by omega)
      rw [hnone]
      rfl

theorem skipWhitespace_eq : Gen.Btor2Token.skipWhitespace = Btor2.skipWhitespace := by
  funext lr
  unfold Gen.Btor2Token.skipWhitespace Btor2.skipWhitespace
  rw [bind_apply, getLR_apply]
  simp only []
  rw [bind_apply, ws_loop _ 0 lr (by omega)]
  show _ = (skipWsLoop (lr.v.rest.length + 2) 0 >>= fun off => advance off) lr
  rw [bind_apply, bind_apply]
  cases skipWsLoop (lr.v.rest.length + 2) 0 lr with
  | mk r lr2 =>
    cases r with
    | error e => rfl
    | ok a =>
      simp only []
      show (pure a >>= fun o => advance o >>= fun _ => pure ()) lr2 = _
      rw [pure_bind, bind_pure]


/-! ### the constants: the scanned text is inside the scanned prefix and ASCII -/

/-- What `required_*_constant` needs of its scanner (started at offset 0): it only demands bytes, the
text it reports has been demanded, and the text is ASCII (so the unchecked conversions to `str`
are sound). -/
def GoodScan (S : View → Nat → Nat × View) : Prop :=
  ∀ v : View, (S v 0).2.rest = v.rest ∧ (S v 0).1 ≤ (S v 0).2.demanded ∧ ∀ x ∈ v.rest.take (S v 0).1, x < 128

theorem runLen_take_all (p : UInt8 → Bool) (l : VBytes) : ∀ x ∈ l.take (runLen p l), p x = true := by
  induction l with
  | nil => intro x hx; simp [runLen] at hx
  | cons a t ih =>
    intro x hx
    by_cases ha : p a = true
    · simp only [runLen, ha, if_true, List.take_succ_cons, List.mem_cons] at hx
      rcases hx with rfl | hx
      · exact ha
      · exact ih x hx
    · simp [runLen, ha] at hx

theorem demanded_demand (v : View) (n : Nat) (hn : n ≤ v.rest.length) : n ≤ (v.demand n).demanded := by
  unfold View.demanded
  rw [demand_rest, demand_peeked, demand_pos]
  omega

theorem goodScan_scanWhile (p : UInt8 → Bool) (hp : ∀ x, p x = true → x < 128) : GoodScan (scanWhile p) := by
  intro v
  simp only [scanWhile, List.drop_zero, Nat.zero_add]
  refine ⟨demand_rest _ _, demanded_demand _ _ (runLen_le _ _), ?_⟩
  intro x hx
  exact hp x (runLen_take_all p _ x hx)

theorem isHexDigit_ascii (x : UInt8) (h : isHexDigit x = true) : x < 128 := by
  simp only [isHexDigit, Bool.or_eq_true, Bool.and_eq_true, decide_eq_true_eq] at h
  rcases h with (⟨_, h⟩ | ⟨_, h⟩) | ⟨_, h⟩ <;> exact Nat.lt_of_le_of_lt h (by decide)

theorem isDigit_ascii (x : UInt8) (h : isDigit x = true) : x < 128 := by
  simp only [isDigit, Bool.and_eq_true, decide_eq_true_eq] at h
  exact Nat.lt_of_le_of_lt h.2 (by decide)

theorem isBinDigit_ascii (x : UInt8) (h : isBinDigit x = true) : x < 128 := by
  simp only [isBinDigit, Bool.or_eq_true, beq_iff_eq] at h
  rcases h with rfl | rfl <;> decide


theorem utf8Unwrap_ok (bs : VBytes) (h : ∀ x ∈ bs, x < 128) : utf8Unwrap bs = pure () := by
  unfold utf8Unwrap
  have : bs.all (· < 128) = true := by
    rw [List.all_eq_true]; intro x hx; simpa using h x hx
  rw [this]; rfl

theorem advance_apply (n : Nat) (lr : LR) :
    advance n lr = match lr.v.advance n with
      | some v' => (.ok (), { lr with v := v' })
      | none => (.error (.panic "advance beyond scanned data"), lr) := by
  unfold advance
  rw [bind_apply, get_apply]
  simp only []
  cases lr.v.advance n <;> rfl

/-- The body of `required_*_constant` after the scanner, against the model. -/
theorem requiredConstant_tail (S : View → Nat → Nat × View) (hS : GoodScan S) :
    (scan (S · 0) >>= fun e => bufStr 0 e >>= fun t1 =>
      if (t1.length == 0) = true then (Btor2.unexpected : PM VBytes)
      else advanceWithBuf t1.length >>= fun t2 => utf8Unwrap t2 >>= fun _ => pure t2) =
    Btor2.requiredConstant S := by
  funext lr
  unfold Btor2.requiredConstant
  rw [bind_apply, bind_apply, scan_apply]
  simp only []
  obtain ⟨hrest, hdem, hascii⟩ := hS lr.v
  generalize hn : (S lr.v 0).1 = n at *
  generalize hv : (S lr.v 0).2 = v' at *
  have hlen : n ≤ v'.rest.length := by unfold View.demanded at hdem; omega
  have hbp : v'.bufPrefix n = some (v'.rest.take n) := by unfold View.bufPrefix; simp [hdem]
  have hsl : sliceChecked (v'.rest.take n) 0 n = some (v'.rest.take n) := by
    unfold sliceChecked
    simp [List.length_take, Nat.min_eq_left hlen, List.take_take]
  have hasc : ∀ x ∈ v'.rest.take n, x < 128 := by rw [hrest]; exact hascii
  have hstr : bufStr 0 n { lr with v := v' } = (.ok (v'.rest.take n), { lr with v := v' }) := by
    unfold bufStr Btor2TokenExt.bufRange
    rw [bind_apply, bind_apply, bufPrefix_apply]
    simp only [hbp]
    rw [liftOpt_apply, hsl]
    simp only []
    rw [utf8Unwrap_ok _ hasc]
    rfl
  rw [bind_apply, hstr]
  simp only [List.length_take, Nat.min_eq_left hlen]
  by_cases h0 : n = 0
  · subst h0; rfl
  · have e0 : (n == 0) = false := by simpa using h0
    simp only [e0, Bool.false_eq_true, if_false]
    unfold advanceWithBuf
    rw [bind_assoc, bind_apply, bind_apply, bufPrefix_apply]
    simp only [hbp]
    rw [bind_assoc, bind_apply, bind_apply, advance_apply]
    cases v'.advance n with
    | none => rfl
    | some v2 =>
      simp only []
      rw [pure_bind, utf8Unwrap_ok _ hasc]
      rfl


theorem goodScan_hex : GoodScan Btor2.hexString := goodScan_scanWhile _ isHexDigit_ascii
theorem goodScan_bin : GoodScan Btor2.binaryString := goodScan_scanWhile _ isBinDigit_ascii

theorem goodScan_dec : GoodScan Btor2.decimalString := by
  intro v
  unfold Btor2.decimalString
  simp only []
  by_cases hm : v.rest[0]? = some 45
  · have hlt : 0 < v.rest.length := by
      rcases hr : v.rest with _ | ⟨a, t⟩
      · rw [hr] at hm; simp at hm
      · simp
    simp only [hm, beq_self_eq_true, if_true, scanWhile, demand_rest v 0]
    rw [demand_demand v 0 _ hlt (by omega)]
    have hle := runLen_le isDigit (v.rest.drop (0 + 1))
    have hdl : (v.rest.drop (0 + 1)).length = v.rest.length - 1 := by simp
    refine ⟨demand_rest _ _, demanded_demand _ _ (by omega), ?_⟩
    rcases hr : v.rest with _ | ⟨a, t⟩
    · rw [hr] at hlt; simp at hlt
    · rw [hr] at hm
      have ha : a = 45 := by simpa using hm
      subst ha
      simp only [Nat.zero_add, List.drop_succ_cons, List.drop_zero]
      rw [Nat.add_comm, List.take_succ_cons]
      intro x hx
      rcases List.mem_cons.mp hx with rfl | hx
      · decide
      · exact isDigit_ascii x (runLen_take_all isDigit _ x hx)
  · have e : (v.rest[0]? == some 45) = false := by simpa using hm
    simp only [e, Bool.false_eq_true, if_false, scanWhile, Nat.zero_add, List.drop_zero]
    have hr0 := demand_rest v 0
    rw [hr0]
    by_cases hlt : 0 < v.rest.length
    · rw [demand_demand v 0 _ hlt (by omega)]
      refine ⟨demand_rest _ _, demanded_demand _ _ (runLen_le _ _), ?_⟩
      intro x hx
      exact isDigit_ascii x (runLen_take_all isDigit _ x hx)
    · have hnil : v.rest = [] := List.eq_nil_of_length_eq_zero (by omega)
      rw [hnil]
      simp only [runLen]
      refine ⟨by rw [demand_rest, demand_rest, hnil], Nat.zero_le _, ?_⟩
      intro x hx; simp at hx

theorem requiredHexConstant_eq : Gen.Btor2Token.requiredHexConstant = Btor2.requiredHexConstant := by
  unfold Gen.Btor2Token.requiredHexConstant Btor2.requiredHexConstant
  rw [hexString_eq, ← requiredConstant_tail _ goodScan_hex, bind_assoc]

theorem requiredBinaryConstant_eq : Gen.Btor2Token.requiredBinaryConstant = Btor2.requiredBinaryConstant := by
  unfold Gen.Btor2Token.requiredBinaryConstant Btor2.requiredBinaryConstant
  rw [binaryString_eq, ← requiredConstant_tail _ goodScan_bin, bind_assoc]

theorem requiredDecimalConstant_eq : Gen.Btor2Token.requiredDecimalConstant = Btor2.requiredDecimalConstant := by
  unfold Gen.Btor2Token.requiredDecimalConstant Btor2.requiredDecimalConstant
  rw [decimalString_eq, ← requiredConstant_tail _ goodScan_dec, bind_assoc]


/-! ### the keyword scanner loop -/

theorem lower_loop (bl : Nat → Nat) (fuel : Nat) : ∀ (off : Nat) (lr : LR) (e : Nat) (v' : View),
    lowercaseLoop bl fuel lr.v off = some (e, v') →
    Gen.Btor2Token.asciiLowercase.loop1 bl fuel off lr = (.ok (Ctl.brk e), { lr with v := v' }) := by
  induction fuel with
  | zero => intro off lr e v' h; simp [lowercaseLoop] at h
  | succ fuel ih =>
    intro off lr e v' h
    rw [Gen.Btor2Token.asciiLowercase.loop1, bind_apply]
    unfold Btor2TokenExt.lowercaseU64
    rw [bind_apply, get_apply]
    simp only []
    rw [lowercaseLoop] at h
    cases hk : Btor2.asciiLowercaseU64 lr.v off (bl off) with
    | none => rw [hk] at h; simp at h
    | some r =>
      obtain ⟨⟨w, adv⟩, v1⟩ := r
      rw [hk] at h
      simp only [] at h
      simp only []
      by_cases ha : adv < 8
      · simp only [ha, if_true, Option.some.injEq, Prod.mk.injEq] at h
        obtain ⟨rfl, rfl⟩ := h
        have hs : (set ({ lr with v := v1 } : LR) : PM PUnit) lr = (.ok ⟨⟩, { lr with v := v1 }) := rfl
        simp only [bind_apply, pure_apply, hs, ha, decide_true, if_true]
      · simp only [ha, if_false] at h
        have := ih (off + adv) { lr with v := v1 } e v' h
        have hs : (set ({ lr with v := v1 } : LR) : PM PUnit) lr = (.ok ⟨⟩, { lr with v := v1 }) := rfl
        simp only [bind_apply, pure_apply, hs, ha, decide_false, Bool.false_eq_true, if_false]
        exact this


/-- `ascii_lowercase`: when the model's loop returns (always: `Props/C01Btor2.lean`; its `none` — a
kernel overflow check or the fuel — carries no state, hence the hypothesis), the generated function
returns the scanned keyword. -/
theorem asciiLowercase_eq (bl : Nat → Nat) (off : Nat) (lr : LR) (e : Nat) (v' : View)
    (h : Btor2.asciiLowercaseMulti lr.v off bl = some (e, v')) :
    Gen.Btor2Token.asciiLowercase bl off lr = bufStr off e { lr with v := v' } := by
  unfold Gen.Btor2Token.asciiLowercase
  rw [bind_apply, getLR_apply]
  simp only []
  rw [bind_apply, lower_loop bl _ off lr e v' h]
  rfl

end TieBtor2TokenAux
end Flussab
