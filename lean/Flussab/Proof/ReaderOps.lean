/-
L1 proofs, operation level: what each call of the safe API does to the stream in front of the
cursor (`rest`), the position, the mark, the flags and the invariant.
-/
import Flussab.Proof.Reader

namespace Flussab
namespace Reader

/-- Number of bytes an op moves the cursor by when run on `r`. -/
def Op.adv (r : Reader) : Op → Nat
  | .advance n => if n ≤ r.validLen then n else 0
  | .advanceWithBuf n => if n ≤ r.validLen then n else 0
  | _ => 0

/-- Ops whose parameters are inside the property's domain (`set_chunk_size(c)`, `c ≥ 1`). -/
def Op.Valid : Op → Prop
  | .setChunk c => 1 ≤ c
  | _ => True

/-- One-op summary shared by all properties of the reader. -/
structure Effect (r r' : Reader) (n : Nat) (bs : Bytes) : Prop where
  ok : r'.Ok
  window : r'.window = (r.window ++ bs).drop n
  validLen : r'.validLen + n = r.validLen + bs.length
  position : r'.position = r.position + n
  fault : r'.src.fault = r.src.fault
  mono : r.complete = true → r'.complete = true
  after : r'.src.afterEnd = r.src.afterEnd

theorem Ok.window_length {r : Reader} (h : r.Ok) : r.window.length = r.validLen :=
  Reader.window_length r h.inBuf

theorem Ok.complete_rest {r : Reader} (h : r.Ok) (hc : r.complete = true) : r.rest = r.window := by
  have he : r.src.ended = true := by rw [h.endC]; exact hc
  obtain ⟨h1, h2⟩ := h.wf he
  simp [rest, h1, h2]

theorem advance_spec (r : Reader) (h : r.Ok) (n : Nat) :
    (n ≤ r.validLen ∧ ∃ r', r.advance n = (some (), r') ∧ Effect r r' n [] ∧
        r'.src = r.src ∧ r'.mark = r.mark ∧ r'.complete = r.complete ∧ r'.ioError = r.ioError ∧
        r'.chunk = r.chunk ∧ r'.buf = r.buf ∧ r'.posInBuf = r.posInBuf + n) ∨
    (r.validLen < n ∧ r.advance n = (none, r)) := by
  unfold advance
  by_cases hv : r.validLen < n
  · right; simp [hv]
  · left
    simp only [hv, ↓reduceIte]
    refine ⟨by omega, _, rfl, ?_, rfl, rfl, rfl, rfl, rfl, rfl, rfl⟩
    refine { ok := ?_, window := ?_, validLen := by simp only [List.length_nil]; omega,
             position := by simp [position]; omega, fault := rfl, mono := id, after := rfl }
    · exact { inBuf := by have := h.inBuf; simp only; omega, chunkPos := h.chunkPos, errC := h.errC,
              endC := h.endC, after := h.after, wf := h.wf }
    · simp only [window, List.append_nil]
      rw [List.drop_take, List.drop_drop]

theorem window_le_rest (r : Reader) : r.window <+: r.rest := by
  simp [rest]

theorem Grew.rest {r r' : Reader} {bs : Bytes} (g : Grew r r' bs) : r'.rest = r.rest := by
  simp only [Reader.rest, g.window, List.append_assoc, g.stream]

/-- `request(n)` with an honest source. -/
theorem request_spec (r : Reader) (h : r.Ok) (hh : r.src.Honest) (n : Nat) :
    ∃ r' bs, r.request n = (some r'.window, r') ∧ r'.Ok ∧ Grew r r' bs ∧
      (n ≤ r.validLen → r' = r) ∧ (n ≤ r'.validLen ∨ r'.complete = true) ∧
      (r' = r ∨ r'.validLen - r'.src.lastGive < n) ∧
      r'.buf.length ≤ max r.buf.length (3 * r.chunk + n) ∧
      (r'.complete = r.complete ∨ r'.validLen < n) := by
  unfold request
  rcases requestLoop_spec (r.fuel + 1) r n h with ⟨r', bs, e, ok, g, h1, h2, h3, h4, h5⟩ | ⟨r', bs, e, ok, ⟨x, hx⟩, _⟩
  · rw [e]
    exact ⟨r', bs, rfl, ok, g, h1, h2 (by simp [fuel]), h3, h4, h5⟩
  · exact absurd hx (hh x)

/-- `request_byte_at_offset(k)` with an honest source: the byte at offset `k` of the stream in
front of the cursor, `None` exactly when the stream is shorter. -/
theorem requestByteAt_spec (r : Reader) (h : r.Ok) (hh : r.src.Honest) (k : Nat) :
    ∃ r' bs, r.requestByteAt k = (some (r.rest[k]?), r') ∧ r'.Ok ∧ Grew r r' bs ∧
      (k < r.validLen → r' = r) ∧ (k < r'.validLen ∨ (r'.complete = true ∧ r.rest.length ≤ k)) ∧
      (r' = r ∨ r'.validLen - r'.src.lastGive ≤ k) ∧
      r'.buf.length ≤ max r.buf.length (3 * r.chunk + (k + 1)) ∧
      (r'.complete = r.complete ∨ r'.validLen ≤ k) := by
  unfold requestByteAt
  rcases requestLoop_spec (r.fuel + 1) r (k + 1) h with ⟨r', bs, e, ok, g, h1, h2, h3, h4, h5⟩ | ⟨r', bs, e, ok, ⟨x, hx⟩, _⟩
  · rw [e]
    have hw := ok.window_length
    have hrest : r.rest = r'.rest := g.rest.symm
    have hfin := h2 (by simp [fuel])
    refine ⟨r', bs, ?_, ok, g, fun hk => h1 (by omega), ?_, ?_, h4, by rcases h5 with h5 | h5; exact Or.inl h5; exact Or.inr (by omega)⟩
    · simp only
      congr 2
      rw [hrest]
      rcases hfin with hf | hf
      · simp only [Reader.rest]
        rw [List.getElem?_append_left (by omega)]
      · rw [ok.complete_rest hf]
    · rcases hfin with hf | hf
      · left; omega
      · by_cases hk : k < r'.validLen
        · left; exact hk
        · right
          refine ⟨hf, ?_⟩
          rw [hrest, ok.complete_rest hf, hw]; omega
    · rcases h3 with h3 | h3
      · left; exact h3
      · right; omega
  · exact absurd hx (hh x)

theorem Grew.honest {r r' : Reader} {bs : Bytes} (g : Grew r r' bs) (hh : r.src.Honest) :
    r'.src.Honest := hh.of_suffix g.sched

/-- Everything one op does, for an honest source: the stream in front of the cursor only loses
the bytes advanced over; position counts them; mark, flags and honesty as stated. -/
structure Stepped (r r' : Reader) (op : Op) : Prop where
  ok : r'.Ok
  honest : r'.src.Honest
  rest : r'.rest = r.rest.drop (op.adv r)
  position : r'.position = r.position + op.adv r
  mark : op ≠ .setMark → (∀ p, op ≠ .setMarkTo p) → r'.mark = r.mark
  fault : r'.src.fault = r.src.fault
  mono : r.complete = true → r'.complete = true
  after : r'.src.afterEnd = 0

theorem rest_drop_of_advance (r r' : Reader) (n : Nat) (hn : n ≤ r.validLen) (h : r.Ok)
    (hw : r'.window = (r.window ++ []).drop n) (hs : r'.src = r.src) : r'.rest = r.rest.drop n := by
  simp only [Reader.rest, hw, hs, List.append_nil]
  rw [List.drop_append_of_le_length (by rw [h.window_length]; exact hn)]

theorem op_stepped (r : Reader) (op : Op) (h : r.Ok) (hh : r.src.Honest) (hv : op.Valid) :
    Stepped r (op.run r).2 op := by
  cases op with
  | request n =>
    obtain ⟨r', bs, e, ok, g, _⟩ := request_spec r h hh n
    simp only [Op.run, e]
    exact { ok := ok, honest := g.honest hh, rest := by simp [Op.adv, g.rest],
            position := by simp [Op.adv, g.position], mark := fun _ _ => g.mark, fault := g.fault,
            mono := g.mono, after := by rw [g.after]; exact h.after }
  | reqAt k =>
    obtain ⟨r', bs, e, ok, g, _⟩ := requestByteAt_spec r h hh k
    simp only [Op.run, e]
    exact { ok := ok, honest := g.honest hh, rest := by simp [Op.adv, g.rest],
            position := by simp [Op.adv, g.position], mark := fun _ _ => g.mark, fault := g.fault,
            mono := g.mono, after := by rw [g.after]; exact h.after }
  | requestMore =>
    rcases requestMore_spec r h with ⟨hc, e⟩ | ⟨hc, r', bs, e, f, ok, _⟩ | ⟨hc, r', e, l, ok, _⟩
    · simp only [Op.run, e]
      exact { ok := h, honest := hh, rest := by simp [Op.adv], position := by simp [Op.adv],
              mark := fun _ _ => rfl, fault := rfl, mono := id, after := h.after }
    · simp only [Op.run, e]
      have g : Grew r r' bs := by simpa using Grew.step (Grew.refl r) hc f
      exact { ok := ok, honest := g.honest hh, rest := by simp [Op.adv, g.rest],
              position := by simp [Op.adv, g.position], mark := fun _ _ => g.mark, fault := g.fault,
              mono := g.mono, after := by rw [g.after]; exact h.after }
    · obtain ⟨x, hx⟩ := l.lies
      exact absurd hx (hh x)
  | advance n =>
    rcases advance_spec r h n with ⟨hn, r', e, eff, hs, hm, hc, hi, _⟩ | ⟨hn, e⟩
    · simp only [Op.run, e]
      exact { ok := eff.ok, honest := by rw [hs]; exact hh,
              rest := by simp only [Op.adv, hn, ↓reduceIte]; exact rest_drop_of_advance r r' n hn h eff.window hs,
              position := by simp only [Op.adv, hn, ↓reduceIte]; exact eff.position,
              mark := fun _ _ => hm, fault := eff.fault, mono := eff.mono,
              after := by rw [eff.after]; exact h.after }
    · simp only [Op.run, e]
      have : ¬ n ≤ r.validLen := by omega
      exact { ok := h, honest := hh, rest := by simp [Op.adv, this], position := by simp [Op.adv, this],
              mark := fun _ _ => rfl, fault := rfl, mono := id, after := h.after }
  | advanceWithBuf n =>
    rcases advance_spec r h n with ⟨hn, r', e, eff, hs, hm, hc, hi, _⟩ | ⟨hn, e⟩
    · simp only [Op.run, advanceWithBuf, e]
      exact { ok := eff.ok, honest := by rw [hs]; exact hh,
              rest := by simp only [Op.adv, hn, ↓reduceIte]; exact rest_drop_of_advance r r' n hn h eff.window hs,
              position := by simp only [Op.adv, hn, ↓reduceIte]; exact eff.position,
              mark := fun _ _ => hm, fault := eff.fault, mono := eff.mono,
              after := by rw [eff.after]; exact h.after }
    · simp only [Op.run, advanceWithBuf, e]
      have : ¬ n ≤ r.validLen := by omega
      exact { ok := h, honest := hh, rest := by simp [Op.adv, this], position := by simp [Op.adv, this],
              mark := fun _ _ => rfl, fault := rfl, mono := id, after := h.after }
  | setMark =>
    simp only [Op.run]
    exact { ok := ⟨h.inBuf, h.chunkPos, h.errC, h.endC, h.after, h.wf⟩, honest := hh,
            rest := by simp [Op.adv, Reader.rest, setMark, window], position := by simp [Op.adv, position, setMark],
            mark := fun hne _ => absurd rfl hne, fault := rfl, mono := id, after := h.after }
  | setMarkTo p =>
    simp only [Op.run]
    exact { ok := ⟨h.inBuf, h.chunkPos, h.errC, h.endC, h.after, h.wf⟩, honest := hh,
            rest := by simp [Op.adv, Reader.rest, setMarkToPosition, window],
            position := by simp [Op.adv, position, setMarkToPosition],
            mark := fun _ hne => absurd rfl (hne p), fault := rfl, mono := id, after := h.after }
  | setChunk c =>
    simp only [Op.run]
    exact { ok := ⟨h.inBuf, hv, h.errC, h.endC, h.after, h.wf⟩, honest := hh,
            rest := by simp [Op.adv, Reader.rest, setChunkSize, window],
            position := by simp [Op.adv, position, setChunkSize],
            mark := fun _ _ => rfl, fault := rfl, mono := id, after := h.after }
  | checkIoError =>
    simp only [Op.run, checkIoError]
    exact { ok := ⟨h.inBuf, h.chunkPos, fun hf => absurd hf (by simp), h.endC, h.after, h.wf⟩, honest := hh,
            rest := by simp [Op.adv, Reader.rest, window],
            position := by simp [Op.adv, position],
            mark := fun _ _ => rfl, fault := rfl, mono := id, after := h.after }

end Reader
end Flussab
