/-
Exact error locations of the BTOR2 tokens (C08): every `required_*` token — the space between
tokens, ids / widths / counts, indices, node and sort keywords, the three constant forms — that
fails with a syntax error reports it at the cursor it was called at: the first byte of the missing,
garbled or out-of-range token.  (The two error exits are `unexpected`, reached after a
Fallthrough that consumed nothing, and `exceeds_count`, which after F11 reports at the mark set
when the number started.)

A partial-correctness pass whose error postcondition `AtStart lr` fixes the location of syntax
errors and accepts I/O errors and (formally) panics — that there are none is C05.
-/
import Flussab.Proof.Btor2Lookahead

namespace Flussab
namespace Btor2
open PM

/-- Error predicate: a syntax error is at the cursor of `lr`. -/
def AtStart (lr : LR) (e : PErr) (_ : LR) : Prop :=
  match e with
  | .syn l c => l = lr.line ∧ c = lr.v.pos - lr.lineStart + 1
  | _ => True

/-- Only look-ahead happened since `lr`. -/
structure Still (lr lr1 : LR) : Prop where
  pos : lr1.v.pos = lr.v.pos
  line : lr1.line = lr.line
  lineStart : lr1.lineStart = lr.lineStart

theorem Still.refl (lr : LR) : Still lr lr := ⟨rfl, rfl, rfl⟩
theorem Still.trans {a b c : LR} (h1 : Still a b) (h2 : Still b c) : Still a c :=
  ⟨h2.pos.trans h1.pos, h2.line.trans h1.line, h2.lineStart.trans h1.lineStart⟩

variable {lr0 lr : LR}

theorem Wp.reqAt_st (k : Nat) : Wp (AtStart lr0) (PM.reqAt k) lr (fun x lr1 => x = lr.v.rest[k]? ∧ Still lr lr1) :=
  Wp.reqAt ⟨rfl, demand_pos _ _, rfl, rfl⟩

theorem Wp.advance_st (n : Nat) {Q : Unit → LR → Prop} (h : ∀ lr1, Q () lr1) :
    Wp (AtStart lr0) (PM.advance n) lr Q := by
  unfold PM.advance
  refine Wp.bind (Wp.get ?_)
  split
  · exact Wp.set (h _)
  · exact Wp.throw trivial

theorem Wp.bufPrefix_st (n : Nat) : Wp (AtStart lr0) (PM.bufPrefix n) lr (fun _ lr1 => lr1 = lr) := by
  unfold PM.bufPrefix
  refine Wp.bind (Wp.get ?_)
  split
  · exact Wp.pure rfl
  · exact Wp.throw trivial

/-- Whatever the first step does (it raises no syntax error), the rest decides. -/
theorem Wp.bind_noSyn {α β : Type} {m : PM α} {f : α → PM β} {Q : β → LR → Prop}
    (hm : Wp (AtStart lr0) m lr (fun _ _ => True)) (h : ∀ a lr1, Wp (AtStart lr0) (f a) lr1 Q) :
    Wp (AtStart lr0) (m >>= f) lr Q :=
  Wp.bind (hm.mono (fun a lr1 _ => h a lr1))

/-- `give_up` at a state that is still at the cursor of `lr0`. -/
theorem giveUp_at {α : Type} {Q : α → LR → Prop} (s : Still lr0 lr) :
    Wp (AtStart lr0) (PM.giveUp : PM α) lr Q := by
  unfold PM.giveUp PM.giveUpAt
  refine Wp.bind (Wp.position ?_)
  refine Wp.bind (Wp.get ?_)
  refine Wp.bind (Wp.set ?_)
  split
  · exact Wp.throw trivial
  · split
    · exact Wp.throw trivial
    · refine Wp.throw ?_
      show lr.line = lr0.line ∧ lr.v.pos - lr.lineStart + 1 = lr0.v.pos - lr0.lineStart + 1
      rw [s.line, s.pos, s.lineStart]
      exact ⟨rfl, rfl⟩

/-- `unexpected` after nothing but look-ahead: the error is at the cursor of `lr0`. -/
theorem unexpected_at {α : Type} {Q : α → LR → Prop} (s : Still lr0 lr) :
    Wp (AtStart lr0) (unexpected : PM α) lr Q := by
  unfold unexpected
  refine Wp.bind (Wp.scan ?_)
  have s1 : Still lr0 { lr with v := (Text.newline lr.v 0).2 } := by
    refine s.trans ⟨?_, rfl, rfl⟩
    show (Text.newline lr.v 0).2.pos = lr.v.pos
    simp only [Text.newline]
    split
    · exact demand_pos _ _
    · split
      · rw [demand_pos, demand_pos]
      · rw [demand_pos, demand_pos]
    · exact demand_pos _ _
  split
  · exact giveUp_at s1
  · refine Wp.bind (Wp.get ?_)
    split
    · exact giveUp_at s1
    · refine Wp.bind (Wp.get ?_)
      refine Wp.bind (Wp.reqAt ?_)
      exact giveUp_at (s1.trans ⟨demand_pos _ _, rfl, rfl⟩)

theorem orGiveUp_at {α : Type} {p : PM (Option α)}
    (h : Wp (AtStart lr) p lr (fun r lr1 => r = none → Still lr lr1)) :
    Wp (AtStart lr) (orGiveUp p unexpected) lr (fun _ _ => True) := by
  refine Wp.orGiveUp (h.mono ?_)
  intro r lr1 hr
  cases r with
  | some a => trivial
  | none => exact unexpected_at (hr rfl)

/-- Single-byte tokens (`space`, `comment_start`). -/
theorem byteToken_at (c : UInt8) :
    Wp (AtStart lr) (do if (← reqByte) == some c then advance 1; pure (some ()) else pure none : PM (Option Unit)) lr
      (fun r lr1 => r = none → Still lr lr1) := by
  refine Wp.bind' (Wp.reqAt_st 0) ?_
  intro a lr1 ⟨_, s1⟩
  split
  · refine Wp.bind (Wp.advance_st 1 (fun lr2 => ?_))
    exact Wp.pure (by simp)
  · exact Wp.pure (fun _ => s1)

theorem requiredSpace_at : Wp (AtStart lr) requiredSpace lr (fun _ _ => True) :=
  orGiveUp_at (byteToken_at 32)

theorem demand_mark (v : View) (k : Nat) : (v.demand k).mark = v.mark := by
  unfold View.demand; dsimp only; split <;> rfl

theorem Wp.asciiDigits_st (t : IntTy) :
    Wp (AtStart lr0) (PM.scan (Text.asciiDigits t · 0)) lr (fun _ lr1 => Still lr lr1 ∧
      lr1.v.mark = lr.v.mark) := by
  apply Wp.scan
  obtain ⟨_, h2⟩ := digitsCont_spec t false lr.v 0 (some 0)
  simp only [Text.asciiDigits]
  rw [h2]
  exact ⟨⟨demand_pos _ _, rfl, rfl⟩, demand_mark _ _⟩

/-- `uint` raises no error of its own; a Fallthrough or a rejected numeral leave the cursor (and
the mark) where they were. -/
theorem uint_at : Wp (AtStart lr0) uint lr (fun r lr1 => (r = none ∨ r = some none) →
    Still lr lr1 ∧ lr1.v.mark = lr.v.mark) := by
  unfold uint
  refine Wp.bind' (Wp.asciiDigits_st u64Ty) ?_
  intro r lr1 s1
  obtain ⟨value, off⟩ := r
  dsimp only
  split
  · refine Wp.bind' (Wp.bufPrefix_st 1) ?_
    intro first lr2 e2
    subst e2
    split
    · refine Wp.bind (Wp.advance_st _ (fun lr3 => ?_))
      exact Wp.pure (by simp)
    · refine Wp.bind' (Wp.bufPrefix_st _) ?_
      intro _ lr3 e3
      subst e3
      refine Wp.bind ?_
      unfold PM.utf8Unwrap
      split
      · exact Wp.pure (Wp.pure (fun _ => s1))
      · exact Wp.throw trivial
  · exact Wp.pure (fun _ => s1)

/-- `exceeds_count` with the mark at the cursor of `lr0`, on its line. -/
theorem exceedsCount_at' {α : Type} {Q : α → LR → Prop} (hl : lr.line = lr0.line)
    (hs : lr.lineStart = lr0.lineStart) (hm : lr.v.mark = lr0.v.pos) :
    Wp (AtStart lr0) (exceedsCount : PM α) lr Q := by
  unfold exceedsCount PM.giveUpAt
  refine Wp.bind (Wp.mark ?_)
  refine Wp.bind (Wp.get ?_)
  refine Wp.bind (Wp.set ?_)
  split
  · exact Wp.throw trivial
  · split
    · exact Wp.throw trivial
    · refine Wp.throw ?_
      show lr.line = lr0.line ∧ lr.v.mark - lr.lineStart + 1 = lr0.v.pos - lr0.lineStart + 1
      rw [hl, hm, hs]
      exact ⟨rfl, rfl⟩

/-- `positive_int`: its own error (`exceeds_count`) is at the cursor; a Fallthrough consumed nothing. -/
theorem positiveInt_at : Wp (AtStart lr) positiveInt lr (fun r lr1 => r = none → Still lr lr1) := by
  unfold positiveInt
  refine Wp.bind' (Wp.reqAt_st 0) ?_
  intro a lr1 ⟨_, s1⟩
  split
  · exact Wp.pure (fun _ => s1)
  · refine Wp.bind (Wp.setMark ?_)
    have s2 : Still lr { lr1 with v := lr1.v.setMark } := ⟨s1.pos, s1.line, s1.lineStart⟩
    refine Wp.bind' uint_at ?_
    intro r lr3 hr
    split
    · exact Wp.pure (fun _ => s2.trans (hr (Or.inl rfl)).1)
    · -- the numeral was rejected: nothing was consumed, the mark is where the number starts
      obtain ⟨s3, hm⟩ := hr (Or.inr rfl)
      have s := s2.trans s3
      exact exceedsCount_at' s.line s.lineStart (by rw [hm]; exact s1.pos)
    · split
      · exact Wp.throw trivial
      · exact Wp.pure (by simp)

theorem nonnegativeInt_at : Wp (AtStart lr) nonnegativeInt lr (fun r lr1 => r = none → Still lr lr1) := by
  unfold nonnegativeInt
  refine Wp.bind (Wp.setMark ?_)
  have s2 : Still lr { lr with v := lr.v.setMark } := ⟨rfl, rfl, rfl⟩
  refine Wp.bind' uint_at ?_
  intro r lr3 hr
  split
  · exact Wp.pure (fun _ => s2.trans (hr (Or.inl rfl)).1)
  · obtain ⟨s3, hm⟩ := hr (Or.inr rfl)
    have s := s2.trans s3
    exact exceedsCount_at' s.line s.lineStart (by rw [hm]; rfl)
  · exact Wp.pure (by simp)

theorem requiredId_at : Wp (AtStart lr) requiredNodeId lr (fun _ _ => True) := orGiveUp_at positiveInt_at

theorem requiredNonneg_at : Wp (AtStart lr) requiredNonnegativeInt lr (fun _ _ => True) :=
  orGiveUp_at nonnegativeInt_at

/-- Keyword tokens: no match → nothing consumed → `unexpected` at the first letter. -/
theorem keywordToken_at {τ : Type} (table : VBytes → Option τ) :
    Wp (AtStart lr) (keywordToken table) lr (fun r lr1 => r = none → Still lr lr1) := by
  unfold keywordToken lowercaseRun
  refine Wp.bind (Wp.scan ?_)
  simp only [scanWhile]
  refine Wp.bind' (Wp.bufPrefix_st _) ?_
  intro matched lr2 e2
  subst e2
  split
  · exact Wp.pure (fun _ => ⟨demand_pos _ _, rfl, rfl⟩)
  · refine Wp.bind (Wp.advance_st _ (fun lr3 => ?_))
    exact Wp.pure (by simp)

theorem requiredKeyword_at {τ : Type} (table : VBytes → Option τ) :
    Wp (AtStart lr) (orGiveUp (keywordToken table) unexpected) lr (fun _ _ => True) :=
  orGiveUp_at (keywordToken_at table)

/-- `required_*_constant`: no digit of the right kind → `unexpected` at the first byte. -/
theorem requiredConstant_at (scanner : View → Nat → Nat × View) (hs : ScanLa scanner) :
    Wp (AtStart lr) (requiredConstant scanner) lr (fun _ _ => True) := by
  unfold requiredConstant
  refine Wp.bind (Wp.scan ?_)
  split
  · exact unexpected_at ⟨(hs lr.v).1, rfl, rfl⟩
  · unfold PM.advanceWithBuf
    refine Wp.bind' (Wp.bufPrefix_st _) ?_
    intro _ lr2 _
    refine Wp.bind (Wp.advance_st _ (fun lr3 => ?_))
    exact Wp.pure trivial

end Btor2
end Flussab
