/-
The keyword tables of `flussab-btor2`, as regenerated from the source into
`Flussab.Gen.Btor2Tables`: every keyword the writer emits (`name()` of the three operator
families and the byte literals of `write_into`) is mapped by the parser's `match` back to the
token it was written for.  All proofs are `decide` over the generated tables, so they are
re-checked against what the source says on every check run.
-/
import Flussab.Model.Btor2

namespace Flussab.Btor2Tables
open Flussab Flussab.Btor2 Flussab.Gen.Btor2

/-! ### the generated enumerations are complete -/

theorem binaryOp_all (b : BinaryOp) : b ∈ BinaryOp.all := by cases b <;> decide
theorem ternaryOp_all (t : TernaryOp) : t ∈ TernaryOp.all := by cases t <;> decide
theorem unaryTok_all (t : NodeValueUnaryOpToken) : t ∈ NodeValueUnaryOpToken.all := by cases t <;> decide
theorem extTok_all (t : NodeValueExtOpToken) : t ∈ NodeValueExtOpToken.all := by cases t <;> decide
theorem assignmentKind_all (k : AssignmentKind) : k ∈ AssignmentKind.all := by cases k <;> decide
theorem outputKind_all (k : SingleValueOutputKind) : k ∈ SingleValueOutputKind.all := by cases k <;> decide

/-! ### operator families (`name()`) -/

theorem binary_roundtrip (b : BinaryOp) :
    nodeToken (binaryOpName b) = some (.value (.binaryOp b)) := by
  have h : ∀ b ∈ BinaryOp.all, nodeToken (binaryOpName b) = some (.value (.binaryOp b)) := by decide
  exact h b (binaryOp_all b)

theorem ternary_roundtrip (t : TernaryOp) :
    nodeToken (ternaryOpName t) = some (.value (.ternaryOp t)) := by
  cases t <;> decide

/-- Plain unary operators: the token the parser produces converts (`unary_op()`) to the operator
whose name was written. -/
theorem unary_roundtrip (t : NodeValueUnaryOpToken) :
    nodeToken (unaryOpName (unaryOpTokenUnaryOp t)) = some (.value (.unaryOp t)) := by
  cases t <;> decide

/-- `uext` / `sext`, for every pad width. -/
theorem ext_roundtrip (e : NodeValueExtOpToken) (pad : Nat) :
    nodeToken (unaryOpName (extOpTokenUnaryOp e pad)) = some (.value (.extOp e)) := by
  cases e <;> (simp only [extOpTokenUnaryOp, unaryOpName]; decide)

theorem slice_roundtrip (u l : Nat) : nodeToken (unaryOpName (.slice u l)) = some (.value .slice) := by
  simp only [unaryOpName]; decide

/-- Every `UnaryOp` is reached by exactly one of the three parser branches. -/
theorem unary_cover (op : UnaryOp) :
    (∃ t, op = unaryOpTokenUnaryOp t) ∨ (∃ e pad, op = extOpTokenUnaryOp e pad) ∨ (∃ u l, op = .slice u l) := by
  cases op with
  | uext w => exact .inr (.inl ⟨.uext, w, rfl⟩)
  | sext w => exact .inr (.inl ⟨.sext, w, rfl⟩)
  | slice u l => exact .inr (.inr ⟨u, l, rfl⟩)
  | not => exact .inl ⟨.not, rfl⟩
  | inc => exact .inl ⟨.inc, rfl⟩
  | dec => exact .inl ⟨.dec, rfl⟩
  | neg => exact .inl ⟨.neg, rfl⟩
  | redand => exact .inl ⟨.redand, rfl⟩
  | redor => exact .inl ⟨.redor, rfl⟩
  | redxor => exact .inl ⟨.redxor, rfl⟩

/-- The value token the parser must see for an operator of the model. -/
def unaryOpToken : UnaryOp → NodeValueToken
  | .uext _ => .extOp .uext
  | .sext _ => .extOp .sext
  | .slice _ _ => .slice
  | .not => .unaryOp .not
  | .inc => .unaryOp .inc
  | .dec => .unaryOp .dec
  | .neg => .unaryOp .neg
  | .redand => .unaryOp .redand
  | .redor => .unaryOp .redor
  | .redxor => .unaryOp .redxor

def opToken : Op → NodeValueToken
  | .unary op _ => unaryOpToken op
  | .binary op _ _ => .binaryOp op
  | .ternary op _ _ _ => .ternaryOp op

theorem unaryOp_roundtrip (op : UnaryOp) : nodeToken (unaryOpName op) = some (.value (unaryOpToken op)) := by
  cases op <;> (simp only [unaryOpName, unaryOpToken]; decide)

/-- **`keyword_roundtrip`**: for every operator value (all three families, every operand and
index), the keyword `Value::write_into` emits (`op.name()`) is read back by `node_token` as the
token of that operator. -/
theorem keyword_roundtrip (op : Op) : nodeToken (opName op) = some (.value (opToken op)) := by
  cases op with
  | unary op a0 => exact unaryOp_roundtrip op
  | binary op a0 a1 => exact binary_roundtrip op
  | ternary op a0 a1 a2 => exact ternary_roundtrip op

/-! ### keywords written as byte literals (`b"sort bitvec "`, `b"init "`, …) -/

/-- A writer keyword is the keyword followed by one space. -/
theorem assignment_roundtrip (k : AssignmentKind) :
    (assignmentKindKw k).getLast? = some 32 ∧
    nodeToken (assignmentKindKw k).dropLast = some (.assignment k) := by
  cases k <;> decide

theorem output_roundtrip (k : SingleValueOutputKind) :
    (singleValueOutputKindKw k).getLast? = some 32 ∧
    nodeToken (singleValueOutputKindKw k).dropLast = some (.output k) := by
  cases k <;> decide

theorem justice_roundtrip :
    kwOutputJustice.getLast? = some 32 ∧ nodeToken kwOutputJustice.dropLast = some .justice := by decide

theorem const_roundtrip :
    nodeToken kwConstBinary.dropLast = some (.value .const) ∧ kwConstBinary.getLast? = some 32 ∧
    nodeToken kwConstDecimal.dropLast = some (.value .constd) ∧ kwConstDecimal.getLast? = some 32 ∧
    nodeToken kwConstHex.dropLast = some (.value .consth) ∧ kwConstHex.getLast? = some 32 ∧
    nodeToken kwConstOne.dropLast = some (.value .one) ∧ kwConstOne.getLast? = some 32 ∧
    nodeToken kwConstOnes.dropLast = some (.value .ones) ∧ kwConstOnes.getLast? = some 32 ∧
    nodeToken kwConstZero.dropLast = some (.value .zero) ∧ kwConstZero.getLast? = some 32 ∧
    nodeToken kwValueVariantInput.dropLast = some (.value .input) ∧ kwValueVariantInput.getLast? = some 32 ∧
    nodeToken kwValueVariantState.dropLast = some (.value .state) ∧ kwValueVariantState.getLast? = some 32 := by
  decide

/-- `"sort bitvec "` / `"sort array "` = `sort`, space, sort keyword, space. -/
theorem sort_roundtrip :
    kwSortBitVec = [115, 111, 114, 116, 32] ++ [98, 105, 116, 118, 101, 99] ++ [32] ∧
    kwSortArray = [115, 111, 114, 116, 32] ++ [97, 114, 114, 97, 121] ++ [32] ∧
    nodeToken [115, 111, 114, 116] = some .sort ∧
    sortToken [98, 105, 116, 118, 101, 99] = some .bitvec ∧
    sortToken [97, 114, 114, 97, 121] = some .array := by
  decide

theorem comment_kw : kwLineComment = [59] := by decide

/-- Every keyword of both tables is a non-empty run of `a..z` — what the scanner can return. -/
theorem keywords_lowercase :
    (∀ e ∈ nodeKeywords, e.1 ≠ [] ∧ e.1.all isLower = true) ∧
    (∀ e ∈ sortKeywords, e.1 ≠ [] ∧ e.1.all isLower = true) := by
  decide

/-- No two arms of a keyword `match` have the same keyword (so "first arm wins" never matters). -/
theorem keywords_distinct :
    (nodeKeywords.map (·.1)).Nodup ∧ (sortKeywords.map (·.1)).Nodup := by
  decide

end Flussab.Btor2Tables
