/-
How many bytes the AIGER token functions consume when they return, compared with how many bytes
the writers emit for what was returned.  `Con m Q`: whenever `m` returns `a`, it has taken `k`
bytes off the front of the remaining input (and nothing else happened to it), and `Q a k`.

The canonical forms the writers emit are never longer than what the parser accepts for them:
a decimal number has no leading zeros (`uint` is exact), a varint written by `write_binary_uint`
is the shortest encoding of its value (`writeBinaryUint_minimal`; the reader also accepts padded
ones such as `0x80 0x00`).
-/
import Flussab.Proof.AigerConverseTokens
import Flussab.Proof.AigerVarint
import Flussab.Proof.AigerUint

namespace Flussab
namespace Aiger
open PM

/-- If `m` returns `a`, it has consumed exactly `k` bytes of the remaining input, and `Q a k`. -/
def Con {α : Type} (m : PM α) (Q : α → Nat → Prop) : Prop :=
  ∀ lr a lr', m.run lr = (.ok a, lr') → ∃ k, lr.v.rest.length = lr'.v.rest.length + k ∧ Q a k

section rules
variable {α β : Type}

theorem Con.of_fails {m : PM α} {Q : α → Nat → Prop} (h : Fails m) : Con m Q :=
  fun lr a lr' hr => absurd hr (h lr a lr')

theorem Con.pure {a : α} {Q : α → Nat → Prop} (h : Q a 0) : Con (Pure.pure a : PM α) Q := by
  intro lr b lr' hr
  obtain ⟨rfl, rfl⟩ := pure_ret hr
  exact ⟨0, rfl, h⟩

theorem Con.bind {m : PM α} {f : α → PM β} {Q1 : α → Nat → Prop} {Q : β → Nat → Prop}
    (h1 : Con m Q1) (h2 : ∀ a k1, Q1 a k1 → Con (f a) (fun b k2 => Q b (k1 + k2))) :
    Con (m >>= f) Q := by
  intro lr b lr' hr
  obtain ⟨a, lr1, hm, hf⟩ := bind_ret hr
  obtain ⟨k1, e1, q1⟩ := h1 lr a lr1 hm
  obtain ⟨k2, e2, q2⟩ := h2 a k1 q1 lr1 b lr' hf
  exact ⟨k1 + k2, by omega, q2⟩

theorem Con.mono {m : PM α} {Q Q' : α → Nat → Prop} (h : Con m Q) (hq : ∀ a k, Q a k → Q' a k) :
    Con m Q' := by
  intro lr a lr' hr
  obtain ⟨k, e, q⟩ := h lr a lr' hr
  exact ⟨k, e, hq a k q⟩

theorem Con.ite {c : Prop} [Decidable c] {a b : PM α} {Q : α → Nat → Prop}
    (ha : c → Con a Q) (hb : ¬ c → Con b Q) : Con (if c then a else b) Q := by
  split
  · exact ha ‹_›
  · exact hb ‹_›

/-- Something that leaves the remaining input alone. -/
theorem Con.keep {m : PM α} (h : ∀ lr a lr', m.run lr = (.ok a, lr') → lr'.v.rest = lr.v.rest) :
    Con m (fun _ k => k = 0) := by
  intro lr a lr' hr
  exact ⟨0, by rw [h lr a lr' hr]; rfl, rfl⟩

theorem Con.and_post {m : PM α} {Q : α → Nat → Prop} {P : α → Prop} (h : Con m Q) (hp : Post m P) :
    Con m (fun a k => Q a k ∧ P a) := by
  intro lr a lr' hr
  obtain ⟨k, e, q⟩ := h lr a lr' hr
  exact ⟨k, e, q, hp lr a lr' hr⟩

/-- Refine the postcondition with a fact about the run. -/
theorem Con.strengthen {m : PM α} {Q Q' : α → Nat → Prop} (h : Con m Q)
    (hs : ∀ lr a lr' k, m.run lr = (.ok a, lr') → lr.v.rest.length = lr'.v.rest.length + k →
      Q a k → Q' a k) : Con m Q' := by
  intro lr a lr' hr
  obtain ⟨k, e, q⟩ := h lr a lr' hr
  exact ⟨k, e, hs lr a lr' k hr e q⟩

theorem Con.orGiveUp {p : PM (Option α)} {err : PM α} {Q : α → Nat → Prop}
    (hp : Con p (fun r k => ∀ a, r = some a → Q a k)) (he : Fails err) :
    Con (PM.orGiveUp p err) Q := by
  unfold PM.orGiveUp
  refine Con.bind hp fun r k1 hr => ?_
  cases r with
  | none => exact Con.of_fails he
  | some a => exact Con.pure (hr a rfl)

end rules

/-! ### primitives -/

theorem con_get : Con (get : PM LR) (fun _ k => k = 0) :=
  Con.keep fun lr a lr' h => by obtain ⟨_, rfl⟩ := get_ret h; rfl

theorem con_reqAt (n : Nat) : Con (reqAt n) (fun _ k => k = 0) :=
  Con.keep fun lr a lr' h => by obtain ⟨_, rfl⟩ := reqAt_ret h; exact demand_rest _ _

theorem con_reqByte : Con reqByte (fun _ k => k = 0) := con_reqAt 0

theorem con_scan {α : Type} (f : View → α × View) (V : α → Prop) (hf : ∀ v, (f v).2.rest = v.rest)
    (hv : ∀ v, V (f v).1) : Con (scan f) (fun a k => k = 0 ∧ V a) := by
  intro lr a lr' h
  rw [run_scan] at h
  cases h
  exact ⟨0, by simp only [hf]; rfl, rfl, hv _⟩

theorem con_advance (n : Nat) : Con (advance n) (fun _ k => k = n) := by
  intro lr a lr' h
  obtain ⟨rfl, hn⟩ := advance_ret h
  exact ⟨n, by simp only [List.length_drop]; omega, rfl⟩

theorem con_bufPrefix (n : Nat) : Con (bufPrefix n) (fun _ k => k = 0) :=
  Con.keep fun lr a lr' h => by obtain ⟨_, rfl, _⟩ := bufPrefix_ret h; rfl

theorem con_advanceWithBuf (n : Nat) : Con (advanceWithBuf n) (fun _ k => k = n) := by
  intro lr a lr' h
  obtain ⟨_, hn, rfl⟩ := advanceWithBuf_ret h
  exact ⟨n, by simp only [List.length_drop]; omega, rfl⟩

theorem con_lineAtOffset (off : Nat) : Con (lineAtOffset off) (fun _ k => k = 0) :=
  Con.keep fun lr a lr' h => by obtain ⟨rfl, _⟩ := lineAtOffset_ret h; rfl

theorem con_setMark : Con setMark (fun _ k => k = 0) :=
  Con.keep fun lr a lr' h => by rw [run_setMark] at h; cases h; rfl

theorem con_utf8Unwrap (bs : VBytes) : Con (utf8Unwrap bs) (fun _ k => k = 0) :=
  Con.keep fun lr a lr' h => by
    rw [run_utf8Unwrap] at h
    split at h
    · cases h; rfl
    · cases h

theorem con_checkedSub (site : String) (a b : Nat) :
    Con (checkedSub site a b) (fun _ k => k = 0) := by
  unfold checkedSub
  exact Con.ite (fun _ => Con.of_fails (fails_rpanic _)) (fun _ => Con.pure rfl)

theorem con_checkedAdd (site : String) (a b : Nat) :
    Con (checkedAdd site a b) (fun _ k => k = 0) := by
  unfold checkedAdd
  exact Con.ite (fun _ => Con.of_fails (fails_rpanic _)) (fun _ => Con.pure rfl)

theorem con_checkedMul (site : String) (a b : Nat) :
    Con (checkedMul site a b) (fun _ k => k = 0) := by
  unfold checkedMul
  exact Con.ite (fun _ => Con.of_fails (fails_rpanic _)) (fun _ => Con.pure rfl)

/-! ### scanners leave the input alone -/

theorem fixed_rest (v : View) (pat : VBytes) : (Text.fixed v 0 pat).2.rest = v.rest := by
  unfold Text.fixed
  simp only
  split
  · split
    · rfl
    · exact demand_rest _ _
  · exact demand_rest _ _

theorem fixed_val (v : View) (pat : VBytes) :
    (Text.fixed v 0 pat).1 = 0 ∨ (Text.fixed v 0 pat).1 = pat.length := by
  unfold Text.fixed
  simp only
  split
  · right; simp
  · left; rfl

theorem asciiDigits_rest (t : IntTy) (v : View) : (Text.asciiDigits t v 0).2.rest = v.rest := by
  simp only [Text.asciiDigits, Text.digitsCont]
  exact demand_rest _ _

/-! ### tokens -/

/-- `some` = the pattern was consumed. -/
def TokQ (n : Nat) (r : Option Unit) (k : Nat) : Prop :=
  match r with
  | some _ => k = n
  | none => k = 0

theorem con_fixed (pat : VBytes) : Con (fixed pat) (TokQ pat.length) := by
  unfold fixed
  refine Con.bind (con_scan _ (fun off => off = 0 ∨ off = pat.length) (fun v => fixed_rest v pat)
    (fun v => fixed_val v pat)) fun off k1 h1 => ?_
  obtain ⟨rfl, hv⟩ := h1
  split
  · rename_i hne
    have hoff : off = pat.length := by
      rcases hv with h | h
      · subst h; simp at hne
      · exact h
    refine Con.bind (con_advance off) fun _ k2 h2 => Con.pure ?_
    show 0 + (k2 + 0) = pat.length
    omega
  · exact Con.pure rfl

theorem con_fixedNotEol (pat : VBytes) : Con (fixedNotEol pat) (TokQ pat.length) := by
  unfold fixedNotEol
  refine Con.bind (con_scan _ (fun off => off = 0 ∨ off = pat.length) (fun v => fixed_rest v pat)
    (fun v => fixed_val v pat)) fun off k1 h1 => ?_
  obtain ⟨rfl, hv⟩ := h1
  split
  · rename_i hne
    have hoff : off = pat.length := by
      rcases hv with h | h
      · subst h; simp at hne
      · exact h
    refine Con.bind (con_reqAt off) fun x k2 h2 => ?_
    split
    · refine Con.pure ?_
      show 0 + (k2 + 0) = 0
      omega
    · refine Con.bind (con_advance off) fun _ k3 h3 => Con.pure ?_
      show 0 + (k2 + (k3 + 0)) = pat.length
      omega
  · exact Con.pure rfl

theorem con_space : Con space (TokQ 1) := by
  unfold space
  refine Con.bind con_reqByte fun x k1 h1 => ?_
  split
  · refine Con.bind (con_advance 1) fun _ k2 h2 => Con.pure ?_
    show k1 + (k2 + 0) = 1
    omega
  · refine Con.pure ?_
    show k1 + 0 = 0
    omega

theorem con_requiredSpace : Con requiredSpace (fun _ k => k = 1) := by
  unfold requiredSpace
  refine Con.orGiveUp (Con.mono con_space ?_) fails_unexpected
  intro r k h a ha
  subst ha
  exact h

theorem con_newline : Con newline (TokQ 1) := by
  unfold newline
  refine Con.bind con_reqByte fun x k1 h1 => ?_
  split
  · refine Con.bind (con_advance 1) fun _ k2 h2 => ?_
    refine Con.bind (con_lineAtOffset 0) fun _ k3 h3 => Con.pure ?_
    show k1 + (k2 + (k3 + 0)) = 1
    omega
  · refine Con.pure ?_
    show k1 + 0 = 0
    omega

theorem con_requiredNewline : Con requiredNewline (fun _ k => k = 1) := by
  unfold requiredNewline
  refine Con.orGiveUp (Con.mono con_newline ?_) fails_unexpected
  intro r k h a ha
  subst ha
  exact h

theorem con_requiredNewlineOrSpace : Con requiredNewlineOrSpace (fun _ k => k = 1) := by
  unfold requiredNewlineOrSpace
  refine Con.bind con_reqByte fun x k1 h1 => ?_
  split
  · refine Con.bind (con_advance 1) fun _ k2 h2 => ?_
    split
    · refine Con.bind (con_lineAtOffset 0) fun _ k3 h3 => Con.pure ?_
      show k1 + (k2 + (k3 + 0)) = 1
      omega
    · refine Con.pure ?_
      show k1 + (k2 + 0) = 1
      omega
  · exact Con.of_fails fails_unexpected

/-- `uint` only ever consumes a prefix of the input. -/
theorem con_uint_weak : Con uint (fun _ _ => True) := by
  unfold uint
  refine Con.bind (con_scan _ (fun _ => True) (fun v => asciiDigits_rest usizeTy v)
    (fun _ => trivial)) fun r k1 _ => ?_
  obtain ⟨value, off⟩ := r
  simp only
  split
  · refine Con.bind (con_bufPrefix off) fun bs k2 _ => ?_
    split
    · exact Con.of_fails (fails_rpanic _)
    · try dsimp only
      split
      · exact Con.bind (con_advance off) fun _ k3 _ => Con.pure trivial
      · exact Con.bind (con_utf8Unwrap _) fun _ k3 _ => Con.pure trivial
  · exact Con.pure trivial

/-- Length of the canonical decimal text. -/
def dl (n : Nat) : Nat := (natText n).length

theorem dl_pos (n : Nat) : 1 ≤ dl n := by
  unfold dl natText
  rw [Writer.natDigits_eq]
  obtain ⟨_, _, hne, _, _⟩ := Writer.digitsOf_spec n
  cases h : Writer.digitsOf n with
  | nil => exact absurd h hne
  | cons _ _ => simp

theorem dl_mono {a b : Nat} (h : a ≤ b) : dl a ≤ dl b := by
  unfold dl natText
  rw [Writer.natDigits_eq, Writer.natDigits_eq]
  exact Writer.digitsOf_length_mono a b h

theorem dl_fromCode (l : LitTy) (c : Nat) : dl (l.fromCode c) ≤ dl c :=
  dl_mono (Nat.mod_le _ _)

/-- A number token consumes exactly the canonical text of its value. -/
theorem con_uint : Con uint (fun r k => ∀ v, r = .ok v → k = dl v) := by
  refine Con.strengthen con_uint_weak ?_
  intro lr a lr' k hr e _ v hv
  subst hv
  obtain ⟨rest, h1, h2, _, _⟩ := uint_exact lr lr' v hr
  rw [h1, h2, List.length_append] at e
  unfold dl natText
  omega

theorem con_headerField (limit : Nat) : Con (headerField limit) (fun c k => k = dl c ∧ c ≤ limit) := by
  unfold headerField
  refine Con.bind con_setMark fun _ k1 h1 => ?_
  refine Con.bind con_uint fun r k2 h2 => ?_
  cases r with
  | fall => exact Con.of_fails fails_unexpected
  | bad => exact Con.of_fails fails_errorAtMark
  | ok count =>
    simp only
    refine Con.ite (fun _ => Con.of_fails fails_errorAtMark) (fun h => Con.pure ⟨?_, by omega⟩)
    have := h2 count rfl
    omega

theorem con_symbolIndex (limit : Nat) : Con (symbolIndex limit) (fun c k => k = dl c ∧ c ≤ limit) :=
  con_headerField limit

theorem con_lit (limit : Nat) (assigning : Bool) : Con (lit limit assigning) (fun c k => k = dl c) := by
  unfold lit
  refine Con.bind con_setMark fun _ k1 h1 => ?_
  refine Con.bind con_uint fun r k2 h2 => ?_
  cases r with
  | fall => exact Con.of_fails fails_unexpected
  | bad => exact Con.of_fails fails_errorAtMark
  | ok count =>
    simp only
    refine Con.ite (fun _ => Con.of_fails fails_errorAtMark) (fun _ => ?_)
    refine Con.ite (fun _ => Con.of_fails fails_errorAtMark) (fun _ => Con.pure ?_)
    have := h2 count rfl
    show k1 + (k2 + 0) = dl count
    omega

theorem con_remainingLineContent : Con remainingLineContent (fun name k => k = name.length + 1) := by
  intro lr name lr' h
  obtain ⟨rest, h1, h2, _, _⟩ := remainingLineContent_exact lr lr' name h
  exact ⟨name.length + 1, by rw [h1, h2]; simp; omega, rfl⟩

theorem con_remainingFileContent : Con remainingFileContent (fun c k => c.length ≤ k) := by
  intro lr c lr' h
  obtain ⟨h1, h2, _, _⟩ := remainingFileContent_exact lr lr' c h
  refine ⟨lr.v.rest.length, by rw [h1]; simp, ?_⟩
  show c.length ≤ lr.v.rest.length
  rw [h2, List.length_take]
  omega

theorem con_eof : Con eof (fun _ k => k = 0) := by
  unfold eof
  refine Con.bind con_reqByte fun x k1 h1 => ?_
  split
  · refine Con.bind con_get fun s k2 h2 => ?_
    split
    · refine Con.pure ?_
      show k1 + (k2 + 0) = 0
      omega
    · refine Con.pure ?_
      show k1 + (k2 + 0) = 0
      omega
  · refine Con.pure ?_
    show k1 + 0 = 0
    omega

/-! ### varints: the writer's encoding is the shortest -/

theorem leValue_nil_of_shape {bs : VBytes} (h : Shape bs) : bs ≠ [] := shape_ne_nil h

theorem writeBinaryUintAux_minimal : ∀ (f n : Nat) (ws : VBytes), writeBinaryUintAux f n = some ws →
    ∀ bs : VBytes, Shape bs → leValue bs = n → ws.length ≤ bs.length := by
  intro f
  induction f with
  | zero => intro n ws h; simp [writeBinaryUintAux] at h
  | succ f ih =>
    intro n ws h bs hs hv
    unfold writeBinaryUintAux at h
    by_cases h0 : n / 128 = 0
    · simp only [h0, beq_self_eq_true, ↓reduceIte, Option.some.injEq] at h
      subst h
      have := shape_ne_nil hs
      cases bs with
      | nil => exact absurd rfl this
      | cons _ _ => simp
    · have hb : (n / 128 == 0) = false := by simpa using h0
      simp only [hb, Bool.false_eq_true, ↓reduceIte] at h
      cases hw : writeBinaryUintAux f (n / 128) with
      | none => rw [hw] at h; simp at h
      | some ws' =>
        rw [hw] at h
        simp only [Option.map_some, Option.some.injEq] at h
        subst h
        cases bs with
        | nil => exact absurd hs (by simp [Shape])
        | cons x rest =>
          have hx := low7_lt x
          simp only [leValue] at hv
          have hrest : leValue rest = n / 128 := by omega
          cases rest with
          | nil => simp [leValue] at hrest; omega
          | cons y ys =>
            have hs' : Shape (y :: ys) := hs.2
            have := ih (n / 128) ws' hw (y :: ys) hs' hrest
            simp only [List.length_cons] at this ⊢
            omega

/-- Length of what `write_binary_uint` emits (0 where it would panic, which it does not for a
`usize`). -/
def vlen (n : Nat) : Nat := ((writeBinaryUint n).getD []).length

theorem vlen_le {n : Nat} {bs : VBytes} (hs : Shape bs) (hv : leValue bs = n) : vlen n ≤ bs.length := by
  unfold vlen
  cases hw : writeBinaryUint n with
  | none => simp
  | some ws =>
    simp only [Option.getD_some]
    exact writeBinaryUintAux_minimal 10 n ws hw bs hs hv

theorem con_binaryUint : Con binaryUint (fun n k => vlen n ≤ k) := by
  intro lr n lr' h
  obtain ⟨bs, rest, h1, _, _, hs, hv, _, h2, _⟩ := binaryUint_exact lr lr' n h
  exact ⟨bs.length, by rw [h1, h2, List.length_append]; omega, vlen_le hs hv.symm⟩

/-- `delta_code(code)`: the result is `code - d` for a delta `d ≤ code` whose canonical encoding
is no longer than what was consumed. -/
theorem con_deltaCode (code : Nat) :
    Con (deltaCode code) (fun r k => ∃ d, d ≤ code ∧ r = code - d ∧ vlen d ≤ k) := by
  unfold deltaCode
  refine Con.bind con_setMark fun _ k1 h1 => ?_
  refine Con.bind con_binaryUint fun delta k2 h2 => ?_
  refine Con.ite (fun _ => Con.of_fails fails_errorAtMark) (fun h => Con.pure ⟨delta, by omega, rfl, ?_⟩)
  omega

end Aiger
end Flussab
