/-
The BTOR2 keyword scanner `ascii_lowercase`: whatever amount of data is buffered at each 8-byte
step (which selects the SWAR kernel or the byte-wise cold path), it returns the end of the longest
run of `a..z` — the reference `lowercaseRun` — and leaves the reader in the same abstract state,
having demanded no byte beyond the one that ends the run.
-/
import Flussab.Proof.SwarLower
import Flussab.Proof.Btor2Basic

namespace Flussab.Btor2
open Flussab Flussab.Text

/-! ### the cold path -/

theorem coldLoop_false (off : Nat) (k i len : Nat) (acc : VBytes) (v : View) :
    coldLoop off k i false len acc v = (acc.reverse ++ List.replicate k 0, len, v) := by
  induction k generalizing i acc with
  | zero => simp [coldLoop]
  | succ k ih =>
    simp only [coldLoop, Bool.false_eq_true, ↓reduceIte]
    rw [ih]
    simp [List.replicate_succ]

/-- `k + 1` calls of the closure, still reading at index `i`: the count is the run capped at
`k + 1`, and the requests amount to demanding the byte that stopped the scan (or the last of the
`k + 1` bytes). -/
theorem coldLoop_true (off : Nat) (k i : Nat) (acc : VBytes) (v : View) :
    (coldLoop off (k + 1) i true i acc v).2.1 = i + min (runLen isLower (v.rest.drop (off + i))) (k + 1) ∧
    (coldLoop off (k + 1) i true i acc v).2.2 =
      v.demand (off + i + min (runLen isLower (v.rest.drop (off + i))) k) := by
  induction k generalizing i acc v with
  | zero =>
    obtain ⟨h1, h2, h3⟩ := runLen_drop_cases isLower v.rest (off + i)
    simp only [coldLoop, ↓reduceIte, View.reqAt]
    cases hj : v.rest[off + i]? with
    | none => simp [h1 hj]
    | some c =>
      cases hp : isLower c with
      | false => simp [h2 c hj hp, coldLoop, hp]
      | true =>
        obtain ⟨e, _⟩ := h3 c hj hp
        simp only [hp, ↓reduceIte, e, coldLoop]
        constructor
        · omega
        · simp
  | succ k ih =>
    obtain ⟨h1, h2, h3⟩ := runLen_drop_cases isLower v.rest (off + i)
    rw [coldLoop]
    simp only [↓reduceIte, View.reqAt]
    cases hj : v.rest[off + i]? with
    | none =>
      simp only [coldLoop_false, h1 hj]
      simp
    | some c =>
      cases hp : isLower c with
      | false =>
        simp only [hp, Bool.false_eq_true, ↓reduceIte, coldLoop_false, h2 c hj hp]
        simp
      | true =>
        obtain ⟨e, hlt⟩ := h3 c hj hp
        simp only [hp, ↓reduceIte]
        obtain ⟨i1, i2⟩ := ih (i + 1) (c :: acc) (v.demand (off + i))
        rw [demand_rest] at i1 i2
        rw [show off + (i + 1) = off + i + 1 by omega] at i1 i2
        rw [i1, i2, e]
        constructor
        · omega
        · rw [demand_demand v _ _ hlt (by omega)]
          congr 1; omega

/-- `ascii_lowercase_u64_cold`: count and view. -/
theorem cold_spec (v : View) (off : Nat) :
    (asciiLowercaseU64Cold v off).1.2 = min (runLen isLower (v.rest.drop off)) 8 ∧
    (asciiLowercaseU64Cold v off).2 = v.demand (off + min (runLen isLower (v.rest.drop off)) 7) := by
  obtain ⟨h1, h2⟩ := coldLoop_true off 7 0 [] v
  simp only [Nat.add_zero, Nat.zero_add] at h1 h2
  unfold asciiLowercaseU64Cold
  generalize coldLoop off 8 0 true 0 [] v = r at *
  obtain ⟨bytes, len, v'⟩ := r
  exact ⟨h1, h2⟩

/-! ### one 8-byte step -/

theorem explicit8 (l : VBytes) (h : 8 ≤ l.length) :
    ∃ b0 b1 b2 b3 b4 b5 b6 b7 rest, l = b0 :: b1 :: b2 :: b3 :: b4 :: b5 :: b6 :: b7 :: rest := by
  match l, h with
  | b0 :: b1 :: b2 :: b3 :: b4 :: b5 :: b6 :: b7 :: rest, _ => exact ⟨b0, b1, b2, b3, b4, b5, b6, b7, rest, rfl⟩

/-- The SWAR path on 8 existing bytes: the run capped at 8. -/
theorem fast_count (v : View) (off : Nat) (h : off + 8 ≤ v.rest.length) :
    (Gen.asciiLowercaseU64 (le64 (v.rest.drop off))).2 = min (runLen isLower (v.rest.drop off)) 8 := by
  obtain ⟨b0, b1, b2, b3, b4, b5, b6, b7, rest, hl⟩ := explicit8 (v.rest.drop off) (by simp; omega)
  rw [hl, SwarLower.lower_list, takeWhile_take_length]

/-- **One step of `ascii_lowercase`**, for any buffered amount `bl ≤` stream length: it never
panics, advances by the run capped at 8, and
* if the run is shorter than 8, leaves the view as `demand (off + run)` would, up to `peeked`,
  having demanded no more than that;
* if the run has 8 or more bytes, only the ghost moved, by at most 8 bytes. -/
theorem step_spec (v : View) (off bl : Nat) (hbl : bl ≤ v.rest.length) :
    ∃ w v', asciiLowercaseU64 v off bl = some ((w, min (runLen isLower (v.rest.drop off)) 8), v') ∧
      v.peeked ≤ v'.peeked ∧
      (runLen isLower (v.rest.drop off) < 8 →
        SameButPeek v' (v.demand (off + runLen isLower (v.rest.drop off))) ∧
        v'.peeked ≤ (v.demand (off + runLen isLower (v.rest.drop off))).peeked) ∧
      (8 ≤ runLen isLower (v.rest.drop off) →
        SameButPeek v' v ∧ v'.peeked ≤ max v.peeked (v.pos + off + 8)) := by
  have hr := runLen_le isLower (v.rest.drop off)
  simp only [List.length_drop] at hr
  unfold asciiLowercaseU64
  by_cases hc : bl < off + 8
  · -- cold path
    simp only [hc, ↓reduceIte]
    obtain ⟨c1, c2⟩ := cold_spec v off
    generalize asciiLowercaseU64Cold v off = r at *
    obtain ⟨⟨w, n⟩, v'⟩ := r
    simp only at c1 c2
    subst c1 c2
    refine ⟨w, _, rfl, ?_, ?_, ?_⟩
    · rw [demand_peeked]; omega
    · intro hlt
      rw [show min (runLen isLower (v.rest.drop off)) 7 = runLen isLower (v.rest.drop off) by omega]
      exact ⟨SameButPeek.refl _, Nat.le_refl _⟩
    · intro hge
      rw [show min (runLen isLower (v.rest.drop off)) 7 = 7 by omega]
      refine ⟨sameButPeek_of_lt v _ (by omega), ?_⟩
      rw [demand_peeked]; omega
  · -- SWAR path: 8 bytes are buffered, hence exist
    simp only [hc, ↓reduceIte, SwarLower.lower_noPanic]
    have h8 : off + 8 ≤ v.rest.length := by omega
    have hcnt := fast_count v off h8
    generalize Gen.asciiLowercaseU64 (le64 (v.rest.drop off)) = r at *
    obtain ⟨w, n⟩ := r
    simp only at hcnt
    subst hcnt
    refine ⟨w, v, rfl, Nat.le_refl _, ?_, ?_⟩
    · intro hlt
      have hex : off + runLen isLower (v.rest.drop off) < v.rest.length := by omega
      refine ⟨?_, ?_⟩
      · rw [demand_of_lt v _ hex]; exact ⟨rfl, rfl, rfl, rfl, rfl, rfl⟩
      · rw [demand_peeked]; omega
    · intro _
      exact ⟨SameButPeek.refl _, by omega⟩

/-! ### the loop -/

/-- **The loop of `ascii_lowercase`** with enough fuel, for every sequence of buffered amounts. -/
theorem loop_spec (bl : Nat → Nat) (f : Nat) (v : View) (off : Nat)
    (hbl : ∀ o, bl o ≤ v.rest.length) (hf : runLen isLower (v.rest.drop off) < 8 * f) :
    ∃ v', lowercaseLoop bl f v off = some (off + runLen isLower (v.rest.drop off), v') ∧
      SameButPeek v' (v.demand (off + runLen isLower (v.rest.drop off))) ∧
      v.peeked ≤ v'.peeked ∧
      v'.peeked ≤ (v.demand (off + runLen isLower (v.rest.drop off))).peeked := by
  induction f generalizing v off with
  | zero => omega
  | succ f ih =>
    obtain ⟨w, v1, hs, hp, hshort, hlong⟩ := step_spec v off (bl off) (hbl off)
    rw [lowercaseLoop, hs]
    by_cases hlt : runLen isLower (v.rest.drop off) < 8
    · -- last step
      obtain ⟨s1, s2⟩ := hshort hlt
      simp only [show min (runLen isLower (v.rest.drop off)) 8 = runLen isLower (v.rest.drop off) by omega, hlt,
        ↓reduceIte]
      exact ⟨v1, rfl, s1, hp, s2⟩
    · obtain ⟨s1, s2⟩ := hlong (by omega)
      simp only [show min (runLen isLower (v.rest.drop off)) 8 = 8 by omega, Nat.lt_irrefl, ↓reduceIte]
      have hrun := runLen_drop_add isLower v.rest off 8 (by omega)
      obtain ⟨v', e, a1, a2, a3⟩ := ih v1 (off + 8) (by rw [s1.rest]; exact hbl) (by rw [s1.rest, hrun]; omega)
      rw [s1.rest, hrun] at e a1 a3
      have hk : off + 8 + (runLen isLower (v.rest.drop off) - 8) = off + runLen isLower (v.rest.drop off) := by omega
      rw [hk] at e a1 a3
      refine ⟨v', e, a1.trans (s1.demand _), by omega, ?_⟩
      rw [demand_peeked] at a3 ⊢
      rw [s1.pos] at a3
      omega

end Flussab.Btor2
