/-
C12: assembling the invariant for a whole `renumber_aig` run; duplicate definitions.
-/
import Flussab.Proof.AigInit

namespace Flussab.Aig

/-- The pieces of a successful `renumber_aig`. -/
theorem renumber_ok_decomp {cfg : Config} {a : Aig} {fuel : Nat} {o : OrderedAig} {m : LitMap}
    (h : renumber cfg a fuel = .ok (o, m)) :
    ∃ defs st0 st, litDefs a = .ok defs ∧
      initLatches defs a.latches (initInputs a.inputs St.init) = .ok st0 ∧
      transferAll cfg defs fuel (roots cfg a) st0 = .ok st ∧ m = st.litMap ∧
      o = { maxVarIndex := st.lastCode / 2, inputCount := a.inputs.length,
            latches := a.latches.map fun l => { next := mapLit st.litMap l.next, init := l.init },
            outputs := a.outputs.map (mapLit st.litMap), bad := a.bad.map (mapLit st.litMap),
            constraints := a.constraints.map (mapLit st.litMap),
            justice := a.justice.map fun js => js.map (mapLit st.litMap),
            fairness := a.fairness.map (mapLit st.litMap), gates := st.gates } := by
  unfold renumber at h
  split at h
  · exact absurd h (by simp)
  · exact absurd h (by simp)
  · rename_i st hst
    injection h with h; injection h with h1 h2
    unfold initState at hst
    split at hst
    · exact absurd hst (by simp)
    · rename_i defs hdefs
      split at hst
      · exact absurd hst (by simp)
      · rename_i st0 hst0
        exact ⟨defs, st0, st, hdefs, hst0, hst, h2.symm, h1.symm⟩

/-- Everything the invariant gives about a successful run. -/
theorem renumber_ok_inv {cfg : Config} {a : Aig} {fuel : Nat} {o : OrderedAig} {m : LitMap}
    (h : renumber cfg a fuel = .ok (o, m)) :
    ∃ st, Inv a st ∧ m = st.litMap ∧ (∀ r ∈ roots cfg a, st.litMap.HasKey r) ∧
      o = { maxVarIndex := st.lastCode / 2, inputCount := a.inputs.length,
            latches := a.latches.map fun l => { next := mapLit st.litMap l.next, init := l.init },
            outputs := a.outputs.map (mapLit st.litMap), bad := a.bad.map (mapLit st.litMap),
            constraints := a.constraints.map (mapLit st.litMap),
            justice := a.justice.map fun js => js.map (mapLit st.litMap),
            fairness := a.fairness.map (mapLit st.litMap), gates := st.gates } := by
  obtain ⟨defs, st0, st, h1, h2, h3, h4, h5⟩ := renumber_ok_decomp h
  have i0 : Inv a st0 :=
    (initLatches_inv a.latches [] _ _ (by simp)
      (by simpa using initInputs_inv (a := a) a.inputs [] St.init (by simp) (initInv_init a)) h2).toInv
  obtain ⟨i1, _, i3⟩ := transferAll_post (litDefs_defsOk h1) cfg fuel _ _ _ i0 h3
  exact ⟨st, i1, h4, i3, h5⟩

/-- A successful run implies that no variable is defined twice. -/
theorem init_nodup {a : Aig} {defs : Defs} {st st0 : St} (h1 : litDefs a = .ok defs)
    (h2 : initLatches defs a.latches st = .ok st0) : (definedVars a).Nodup := by
  have n1 := (litDefs_ok h1).2
  rw [litDefs_kv h1] at n1
  obtain ⟨n2, n3⟩ := initLatches_nodup h2
  have n3' : ∀ l ∈ a.latches, l.state / 2 ∉ kv defs := fun l hl => (n3 l hl).1
  rw [litDefs_kv h1] at n3'
  unfold definedVars definedLits
  simp only [List.map_cons, List.map_append, List.map_map]
  -- rearrange: 0 :: inputs ++ gates ++ latches
  have hI : (a.inputs.map (· / 2)).Nodup := by
    have := (List.nodup_append.mp n1).2.1
    have := (List.nodup_append.mp this).1
    exact (List.reverse_perm _).nodup_iff.mp this
  have hG : (a.gates.map (·.out / 2)).Nodup := (List.reverse_perm _).nodup_iff.mp (List.nodup_append.mp n1).1
  have h0I : 0 ∉ a.inputs.map (· / 2) := by
    intro hm
    have := (List.nodup_append.mp (List.nodup_append.mp n1).2.1).2.2 0 (List.mem_reverse.mpr hm) 0 (by simp)
    exact this rfl
  have hGI0 : ∀ x ∈ a.gates.map (·.out / 2), x ∉ a.inputs.map (· / 2) ∧ x ≠ 0 := by
    intro x hx
    have := (List.nodup_append.mp n1).2.2 x (List.mem_reverse.mpr hx)
    constructor
    · intro hm; exact this x (by simp only [List.mem_append, List.mem_reverse]; exact Or.inl hm) rfl
    · intro h0; exact this 0 (by simp) h0
  have hL : ∀ l ∈ a.latches, l.state / 2 ≠ 0 ∧ l.state / 2 ∉ a.inputs.map (· / 2) ∧
      l.state / 2 ∉ a.gates.map (·.out / 2) := by
    intro l hl
    have := n3' l hl
    simp only [List.mem_append, List.mem_reverse, List.mem_singleton, not_or] at this
    exact ⟨this.2.2, this.2.1, this.1⟩
  rw [List.nodup_cons]
  constructor
  · simp only [List.mem_append, List.mem_map, Function.comp, not_or]
    refine ⟨⟨?_, ?_⟩, ?_⟩
    · intro ⟨x, hx, he⟩; exact h0I (List.mem_map.mpr ⟨x, hx, he⟩)
    · intro ⟨g, hg, he⟩; exact (hGI0 _ (List.mem_map.mpr ⟨g, hg, rfl⟩)).2 he
    · intro ⟨l, hl, he⟩; exact (hL l hl).1 he
  · rw [List.nodup_append]
    refine ⟨?_, n2, ?_⟩
    · rw [List.nodup_append]
      refine ⟨hI, hG, ?_⟩
      intro x hx y hy hxy
      subst hxy
      exact (hGI0 x hy).1 hx
    · intro x hx y hy hxy
      subst hxy
      simp only [List.mem_map, Function.comp] at hy
      obtain ⟨l, hl, rfl⟩ := hy
      simp only [List.mem_append] at hx
      rcases hx with hx | hx
      · exact (hL l hl).2.1 hx
      · exact (hL l hl).2.2 hx

/-- A successful run implies that no variable is defined twice. -/
theorem renumber_ok_nodup {cfg : Config} {a : Aig} {fuel : Nat} {o : OrderedAig} {m : LitMap}
    (h : renumber cfg a fuel = .ok (o, m)) : (definedVars a).Nodup := by
  obtain ⟨defs, st0, st, h1, h2, _, _, _⟩ := renumber_ok_decomp h
  exact init_nodup h1 h2

/-- Duplicate definitions are reported as `LitAlreadyDefined`. -/
theorem renumber_dup {cfg : Config} {a : Aig} {fuel : Nat} (h : ¬ (definedVars a).Nodup) :
    ∃ l, renumber cfg a fuel = .error (.alreadyDefined l) := by
  unfold renumber initState
  cases h1 : litDefs a with
  | error e =>
    obtain ⟨l, rfl⟩ := litDefs_err h1
    exact ⟨l, rfl⟩
  | ok defs =>
    cases h2 : initLatches defs a.latches (initInputs a.inputs St.init) with
    | error e =>
      obtain ⟨l, rfl⟩ := initLatches_err h2
      exact ⟨l, by simp only [h2]⟩
    | ok st0 => exact absurd (init_nodup h1 h2) h

end Flussab.Aig
