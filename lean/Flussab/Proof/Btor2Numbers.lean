/-
Number tokens of the BTOR2 parser are exact (C06): a returned number is the decimal value of the
digit run at the cursor — all of it, never a wrapped or truncated value — that run is consumed and
nothing else, it has no leading zero, and the value is in range of the type it is stored in.
Partial-correctness pass (error postcondition `T`); `C13.digits_exact` supplies the value.
-/
import Flussab.Proof.Btor2Wf

namespace Flussab
namespace Btor2
open PM

variable {lr : LR}

/-- What an accepted number token means: `ds`, the longest digit run at the cursor of `lr`, is
non-empty, has no leading zero (unless it is `0` itself), its decimal value is `v < 2^64`, and
`lr1` is `lr` with exactly `ds` consumed. -/
structure NumberRead (lr : LR) (v : Nat) (lr1 : LR) : Prop where
  value : v = Text.decVal (lr.v.rest.takeWhile isDigit)
  nonempty : lr.v.rest.takeWhile isDigit ≠ []
  canonical : lr.v.rest.takeWhile isDigit = [48] ∨ (lr.v.rest.takeWhile isDigit).head? ≠ some 48
  range : v < 2 ^ 64
  pos : lr1.v.pos = lr.v.pos + (lr.v.rest.takeWhile isDigit).length
  rest : lr1.v.rest = lr.v.rest.drop (lr.v.rest.takeWhile isDigit).length

/-- `ascii_digits` at the cursor: value (exact iff it fits) and length of the digit run. -/
theorem Wp.asciiDigits_exact :
    Wp T (PM.scan (Text.asciiDigits u64Ty · 0)) lr (fun r lr1 =>
      r = (if u64Ty.fits (Text.decVal (lr.v.rest.takeWhile isDigit) : Nat) then
             some ((Text.decVal (lr.v.rest.takeWhile isDigit) : Nat) : Int) else none,
           (lr.v.rest.takeWhile isDigit).length) ∧
      lr1.v.rest = lr.v.rest ∧ lr1.v.pos = lr.v.pos) := by
  apply Wp.scan
  have hx := C13.digits_exact u64Ty (by decide) lr.v 0
  obtain ⟨_, h2⟩ := digitsCont_spec u64Ty false lr.v 0 (some 0)
  simp only [List.drop_zero, Nat.zero_add] at hx h2
  simp only [Text.asciiDigits] at hx ⊢
  rw [hx, h2]
  exact ⟨rfl, demand_rest _ _, demand_pos _ _⟩

theorem uint_exact_pc : Wp T uint lr (fun r lr1 => ∀ v, r = some (some v) → NumberRead lr v lr1) := by
  unfold uint
  refine Wp.bind' Wp.asciiDigits_exact ?_
  intro r lr1 ⟨hr, r1, p1⟩
  obtain ⟨value, off⟩ := r
  simp only [Prod.mk.injEq] at hr
  obtain ⟨hval, hoff⟩ := hr
  dsimp only
  split
  · rename_i hne
    have hne' : off ≠ 0 := by simpa using hne
    refine Wp.bind' (Wp.bufPrefix_val 1) ?_
    intro first lr2 ⟨e2, hfirst, _⟩
    subst e2
    split
    · rename_i _ _ x hok
      refine Wp.bind' (Wp.advance_pc off) ?_
      intro _ lr3 ⟨p3, _, r3⟩
      refine Wp.pure ?_
      intro w hw
      simp only [Option.some.injEq] at hw
      subst hw
      have hds : lr.v.rest.takeWhile isDigit ≠ [] := by
        intro he; rw [he] at hoff; simp at hoff; omega
      -- the value is `some` only if it fits
      by_cases hfit : u64Ty.fits (Text.decVal (lr.v.rest.takeWhile isDigit) : Nat) = true
      · rw [if_pos hfit] at hval
        simp only [Option.some.injEq] at hval
        subst hval
        rw [IntTy.fits_iff] at hfit
        simp only [u64Ty, IntTy.minVal, IntTy.maxVal, Bool.false_eq_true, ↓reduceIte] at hfit
        refine ⟨by simp, hds, ?_, by omega, by rw [p3, p1, hoff], by rw [r3, r1, hoff]⟩
        -- no leading zero: `buf()[0] != b'0' || offset == 1`
        simp only [Bool.or_eq_true, bne_iff_ne, ne_eq, beq_iff_eq] at hok
        rw [hfirst, r1] at hok
        cases hd : lr.v.rest with
        | nil => rw [hd] at hds; simp at hds
        | cons d rs =>
          rw [hd] at hok hds hoff
          by_cases hdd : isDigit d = true
          · simp only [List.takeWhile, hdd, List.length_cons] at hoff
            simp only [List.takeWhile, hdd, List.head?_cons, ne_eq, Option.some.injEq, List.cons.injEq]
            by_cases h48 : d = 48
            · left
              rcases hok with h | h
              · exact absurd (by simp [h48]) h
              · exact ⟨h48, List.length_eq_zero_iff.mp (by omega)⟩
            · right; exact h48
          · simp [List.takeWhile, hdd] at hds
      · rw [if_neg hfit] at hval; simp at hval
    · refine Wp.bind_any ?_
      intro _ lr3
      refine Wp.bind_any ?_
      intro _ lr4
      exact Wp.pure (fun v hv => by simp at hv)
  · exact Wp.pure (fun v hv => by simp at hv)

theorem NumberRead.congr {lr0 lr lr1 : LR} {v : Nat} (hr : lr0.v.rest = lr.v.rest)
    (hp : lr0.v.pos = lr.v.pos) (h : NumberRead lr0 v lr1) : NumberRead lr v lr1 := by
  obtain ⟨h1, h2, h3, h4, h5, h6⟩ := h
  rw [hr] at h1 h2 h3 h5 h6
  rw [hp] at h5
  exact ⟨h1, h2, h3, h4, h5, h6⟩

/-- `positive_int`: additionally the value is not zero (so `NonZeroU64::new` succeeds). -/
theorem positiveInt_exact_pc :
    Wp T positiveInt lr (fun r lr1 => ∀ v, r = some v → NumberRead lr v lr1 ∧ 0 < v) := by
  unfold positiveInt
  refine Wp.bind' (Wp.reqAt_pc 0) ?_
  intro a lr1 ⟨_, p1, r1, _⟩
  split
  · exact Wp.pure (fun v hv => by simp at hv)
  · refine Wp.bind (Wp.setMark ?_)
    refine Wp.bind' uint_exact_pc ?_
    intro r lr3 hr
    split
    · exact Wp.pure (fun v hv => by simp at hv)
    · exact exceedsCount_pc _
    · rename_i v
      split
      · trivial
      · rename_i hnz
        refine Wp.pure ?_
        intro w hw
        simp only [Option.some.injEq] at hw
        subst hw
        have hne : v ≠ 0 := by simpa using hnz
        exact ⟨NumberRead.congr (lr0 := { lr1 with v := lr1.v.setMark }) (lr := lr) r1 p1 (hr v rfl), by omega⟩

theorem nonnegativeInt_exact_pc :
    Wp T nonnegativeInt lr (fun r lr1 => ∀ v, r = some v → NumberRead lr v lr1) := by
  unfold nonnegativeInt
  refine Wp.bind (Wp.setMark ?_)
  refine Wp.bind' uint_exact_pc ?_
  intro r lr3 hr
  split
  · exact Wp.pure (fun v hv => by simp at hv)
  · exact exceedsCount_pc _
  · rename_i v
    refine Wp.pure ?_
    intro w hw
    simp only [Option.some.injEq] at hw
    subst hw
    exact NumberRead.congr (lr0 := { lr with v := lr.v.setMark }) (lr := lr) rfl rfl (hr v rfl)

theorem requiredId_exact_pc :
    Wp T requiredNodeId lr (fun v lr1 => NumberRead lr v lr1 ∧ 0 < v) :=
  orGiveUp_pc (positiveInt_exact_pc.mono (fun _ _ hh a ha => hh a ha))

theorem requiredNonneg_exact_pc :
    Wp T requiredNonnegativeInt lr (fun v lr1 => NumberRead lr v lr1) :=
  orGiveUp_pc (nonnegativeInt_exact_pc.mono (fun _ _ hh a ha => hh a ha))

/-- A digit run that does not fit in `u64`, or has a leading zero, is never turned into a value:
`uint` reports it (`Res(Err(numeral))`), and the callers turn that into a syntax error. -/
theorem uint_rejects_pc :
    Wp T uint lr (fun r _ => ∀ v, r = some (some v) →
      Text.decVal (lr.v.rest.takeWhile isDigit) < 2 ^ 64 ∧
      ¬ (2 ≤ (lr.v.rest.takeWhile isDigit).length ∧ (lr.v.rest.takeWhile isDigit).head? = some 48)) := by
  refine uint_exact_pc.mono ?_
  intro r lr1 h v hv
  obtain ⟨h1, _, h3, h4, _, _⟩ := h v hv
  refine ⟨by rw [← h1]; exact h4, ?_⟩
  rintro ⟨hlen, hhead⟩
  rcases h3 with h | h
  · rw [h] at hlen; simp at hlen
  · exact h hhead

end Btor2
end Flussab
