/-
Safety of the BTOR2 line parser (`Model/Btor2.lean`): `next_line` and the loop that drives it
never panic (no `unwrap` on `None`, no slice / `advance` beyond scanned data, no arithmetic
overflow, no fuel exhaustion), keep the `LineReader` invariant, and every error is an I/O error of
a failing source or a syntax error that designates a position inside the input.
-/
import Flussab.Proof.Btor2Safe

namespace Flussab
namespace Btor2
open PM Lines

variable {b : VBytes} {f : Bool} {lr : LR}

/-- Postcondition of a sub-parser that returns or fails: it only moves forward. -/
abbrev StepPost (b : VBytes) (f : Bool) (lr : LR) {α : Type} (_ : α) (lr1 : LR) : Prop :=
  Inv b f lr1 ∧ lr.v.pos ≤ lr1.v.pos

local macro "req_space" : tactic =>
  `(tactic| (refine Wp.bind' (requiredSpace_ok (by assumption)) ?_; intro _ _ ⟨_, _, _⟩))
local macro "req_id" : tactic =>
  `(tactic| (refine Wp.bind' (requiredNodeId_ok (by assumption)) ?_; intro _ _ ⟨_, _, _⟩))
local macro "req_nonneg" : tactic =>
  `(tactic| (refine Wp.bind' (requiredNonnegativeInt_ok (by assumption)) ?_; intro _ _ ⟨_, _, _⟩))
local macro "req_bin" : tactic =>
  `(tactic| (refine Wp.bind' (requiredBinaryConstant_ok (by assumption)) ?_; intro _ _ ⟨_, _⟩))
local macro "req_dec" : tactic =>
  `(tactic| (refine Wp.bind' (requiredDecimalConstant_ok (by assumption)) ?_; intro _ _ ⟨_, _⟩))
local macro "req_hex" : tactic =>
  `(tactic| (refine Wp.bind' (requiredHexConstant_ok (by assumption)) ?_; intro _ _ ⟨_, _⟩))
local macro "ret" : tactic => `(tactic| exact Wp.pure ⟨by assumption, by omega⟩)

/-- The `for _ in 0..count` loop of a `justice` line: every round consumes input, so the fuel
(`> ` remaining input) is never exhausted — however large `count` is. -/
theorem justiceLoop_ok (fuel : Nat) : ∀ (remaining : Nat) (acc : List Nat) (lr : LR),
    Inv b f lr → lr.v.rest.length < fuel →
    Wp (Err b f) (justiceLoop fuel remaining acc) lr (StepPost b f lr) := by
  induction fuel with
  | zero => intro _ _ lr _ hf; omega
  | succ fuel ih =>
    intro remaining acc lr h hf
    unfold justiceLoop
    split
    · exact Wp.pure ⟨h, Nat.le_refl _⟩
    · refine Wp.bind' (requiredSpace_ok h) ?_
      intro _ lr1 ⟨i1, _, p1⟩
      refine Wp.bind' (requiredNodeId_ok i1) ?_
      intro c lr2 ⟨i2, p2, _⟩
      have hlt := Base.rest_lt h.toBase i2.toBase (by omega)
      refine (ih _ _ lr2 i2 (by omega)).mono ?_
      intro _ lr3 ⟨i3, p3⟩
      exact ⟨i3, by omega⟩

/-- The value arm of `try_node`. -/
theorem valueVariant_ok (tok : Gen.Btor2.NodeValueToken) (h : Inv b f lr) :
    Wp (Err b f) (valueVariant tok) lr (StepPost b f lr) := by
  cases tok <;> simp only [valueVariant]
  case const => req_space; req_bin; ret
  case constd => req_space; req_dec; ret
  case consth => req_space; req_hex; ret
  case ones => ret
  case one => ret
  case zero => ret
  case input => ret
  case state => ret
  case extOp e => req_space; req_id; req_space; req_nonneg; ret
  case slice => req_space; req_id; req_space; req_nonneg; req_space; req_nonneg; ret
  case unaryOp t => req_space; req_id; ret
  case binaryOp t => req_space; req_id; req_space; req_id; ret
  case ternaryOp t => req_space; req_id; req_space; req_id; req_space; req_id; ret

/-- The `match node_token { … }` of `try_node`. -/
theorem nodeVariant_ok (tok : Gen.Btor2.NodeToken) (h : Inv b f lr) :
    Wp (Err b f) (nodeVariant tok) lr (StepPost b f lr) := by
  cases tok <;> simp only [nodeVariant]
  case sort =>
    req_space
    refine Wp.bind' (orGiveUp_tok (sortToken_ok (by assumption))) ?_
    intro st _ ⟨_, _, _⟩
    cases st
    · dsimp only; req_space; req_id; ret
    · dsimp only; req_space; req_id; req_space; req_id; ret
  case assignment k => req_space; req_id; req_space; req_id; req_space; req_id; ret
  case output k => req_space; req_id; ret
  case justice =>
    req_space; req_id
    refine Wp.bind (Wp.get ?_)
    rename_i lrj _ _ _
    refine Wp.bind' (justiceLoop_ok _ _ _ lrj (by assumption) (by omega)) ?_
    intro _ _ ⟨_, _⟩
    ret
  case value vt =>
    req_space; req_id
    refine Wp.bind' (valueVariant_ok vt (by assumption)) ?_
    intro _ _ ⟨_, _⟩
    ret

/-- The `(symbol, comment)` tail of `try_node`. -/
theorem trailer_ok (h : Inv b f lr) : Wp (Err b f) trailer lr (StepPost b f lr) := by
  unfold trailer
  refine Wp.bind' (space_ok h) ?_
  intro r lr1 ⟨i1, f1, _⟩
  have := f1.pos
  cases r with
  | some _ =>
    dsimp only
    refine Wp.bind' (commentStart_ok i1) ?_
    intro r lr2 ⟨i2, f2, _⟩
    have := f2.pos
    cases r with
    | some _ => exact Wp.pure ⟨i2, by omega⟩
    | none =>
      dsimp only
      refine Wp.bind' (symbolName_ok i2) ?_
      intro r lr3 ⟨i3, f3, _⟩
      have := f3.pos
      cases r with
      | some sym =>
        dsimp only
        refine Wp.bind' (space_ok i3) ?_
        intro r lr4 ⟨i4, f4, _⟩
        have := f4.pos
        cases r with
        | some _ =>
          dsimp only
          refine Wp.bind' (commentStart_ok i4) ?_
          intro r lr5 ⟨i5, f5, _⟩
          have := f5.pos
          cases r with
          | some _ => exact Wp.pure ⟨i5, by omega⟩
          | none => exact unexpected_ok i5
        | none =>
          dsimp only
          refine Wp.bind' (newline_ok i4) ?_
          intro r lr5 ⟨i5, p5, _⟩
          cases r with
          | some _ => exact Wp.pure ⟨i5, by omega⟩
          | none => exact unexpected_ok i5
      | none => exact unexpected_ok i3
  | none =>
    dsimp only
    refine Wp.bind' (newline_ok i1) ?_
    intro r lr2 ⟨i2, p2, _⟩
    cases r with
    | some _ => exact Wp.pure ⟨i2, by omega⟩
    | none => exact unexpected_ok i2

/-- `try_node`: a returned node has consumed at least its id. -/
theorem tryNode_ok (h : Inv b f lr) : Wp (Err b f) tryNode lr (LinePost b f lr) := by
  unfold tryNode
  refine Wp.bind' (positiveInt_ok h) ?_
  intro r lr1 ⟨⟨i1, p1, s1⟩, _⟩
  cases r with
  | none => exact Wp.pure ⟨i1, p1, by simp⟩
  | some id =>
    dsimp only
    have := s1 rfl
    refine Wp.bind' (requiredSpace_ok i1) ?_
    intro _ lr2 ⟨i2, _, p2⟩
    refine Wp.bind' (orGiveUp_tok (nodeToken_ok i2)) ?_
    intro tok lr3 ⟨i3, _, p3⟩
    refine Wp.bind' (nodeVariant_ok tok i3) ?_
    intro variant lr4 ⟨i4, p4⟩
    refine Wp.bind' (trailer_ok i4) ?_
    intro sc lr5 ⟨i5, p5⟩
    exact Wp.pure ⟨i5, by omega, fun _ => by omega⟩

theorem checkIoError_ok (h : Inv b f lr) (hio : lr.v.ioErr = false) :
    Wp (Err b f) checkIoError lr (fun _ lr1 => Inv b f lr1 ∧ lr1.v.pos = lr.v.pos) := by
  unfold checkIoError
  refine Wp.bind (Wp.get ?_)
  simp only [View.checkIoError]
  refine Wp.bind (Wp.set ?_)
  simp only [hio, Bool.false_eq_true, ↓reduceIte]
  exact Wp.pure ⟨h.ext (ext_clearIoErr (Ext.refl lr) hio), rfl⟩

/-- **`next_line`**: returns a line (having consumed input), the end of the file (only for a
source that did not fail), or an error in `Err`; never a panic. -/
theorem nextLine_ok (h : Inv b f lr) :
    Wp (Err b f) nextLine lr (fun r lr1 => LinePost b f lr r lr1 ∧ (r = none → f = false)) := by
  unfold nextLine
  refine Wp.bind' (skipWhitespace_ok h) ?_
  intro _ lr1 ⟨i1, p1⟩
  refine Wp.bind' (tryNode_ok i1) ?_
  intro r lr2 ⟨i2, p2, s2⟩
  cases r with
  | some nc =>
    obtain ⟨node, hasComment⟩ := nc
    have := s2 rfl
    dsimp only
    split
    · refine Wp.bind' (commentBody_ok i2) ?_
      intro c lr3 ⟨i3, f3⟩
      have := f3.pos
      exact Wp.pure ⟨⟨i3, by omega, fun _ => by omega⟩, by simp⟩
    · exact Wp.pure ⟨⟨i2, by omega, fun _ => by omega⟩, by simp⟩
  | none =>
    dsimp only
    refine Wp.bind' (commentStart_ok i2) ?_
    intro r lr3 ⟨i3, f3, s3⟩
    have := f3.pos
    cases r with
    | some _ =>
      have := s3 rfl
      dsimp only
      refine Wp.bind' (commentBody_ok i3) ?_
      intro c lr4 ⟨i4, f4⟩
      have := f4.pos
      exact Wp.pure ⟨⟨i4, by omega, fun _ => by omega⟩, by simp⟩
    | none =>
      dsimp only
      refine Wp.bind' (eof_ok i3) ?_
      intro r lr4 ⟨i4, _, p4, s4⟩
      cases r with
      | some _ =>
        obtain ⟨hf, _, hio⟩ := s4 rfl
        dsimp only
        refine Wp.bind' (checkIoError_ok i4 hio) ?_
        intro _ lr5 ⟨i5, p5⟩
        exact Wp.pure ⟨⟨i5, by omega, by simp⟩, fun _ => hf⟩
      | none => exact unexpected_ok i4

/-- The loop that drives `next_line` to the end: the final outcome is a clean end (only for a
source that did not fail) or an error in `Err`; in particular never a panic and never "out of
fuel". -/
theorem driveLines_ok (fuel : Nat) : ∀ (acc : List Line) (lr : LR), Inv b f lr → lr.v.rest.length < fuel →
    (∀ e, (driveLines fuel acc lr).2.1 = some e → Err b f e (driveLines fuel acc lr).2.2) ∧
    ((driveLines fuel acc lr).2.1 = none → f = false ∧ Inv b f (driveLines fuel acc lr).2.2) := by
  induction fuel with
  | zero => intro _ lr _ hf; omega
  | succ fuel ih =>
    intro acc lr h hf
    obtain ⟨hok, herr⟩ := (nextLine_ok h).of_run
    unfold driveLines
    rcases hrun : nextLine.run lr with ⟨r, lr'⟩
    cases r with
    | error e =>
      simp only
      exact ⟨fun e' he' => by simp only [Option.some.injEq] at he'; subst he'; exact herr e lr' hrun,
        fun hn => by simp at hn⟩
    | ok o =>
      obtain ⟨⟨i1, p1, s1⟩, hnone⟩ := hok o lr' hrun
      cases o with
      | none =>
        simp only
        exact ⟨fun e he => by simp at he, fun _ => ⟨hnone rfl, i1⟩⟩
      | some l =>
        simp only
        have hlt := Base.rest_lt h.toBase i1.toBase (s1 rfl)
        exact ih (l :: acc) lr' i1 (by omega)

end Btor2
end Flussab
