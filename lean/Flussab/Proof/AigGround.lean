/-
C12: well-founded variables.  A successful run makes every transferred root well-founded, and a
well-founded variable reaches neither an undefined variable nor a combinational cycle.
-/
import Flussab.Proof.AigMain

namespace Flussab.Aig

/-! ### well-founded variables: no undefined literal and no cycle below them -/

theorem nodup_map_inj {α β : Type} {f : α → β} {l : List α} (h : (l.map f).Nodup) {x y : α}
    (hx : x ∈ l) (hy : y ∈ l) (he : f x = f y) : x = y := by
  induction l with
  | nil => simp at hx
  | cons z rest ih =>
    simp only [List.map_cons, List.nodup_cons, List.mem_map, not_exists, not_and] at h
    rcases List.mem_cons.mp hx with hx' | hx' <;> rcases List.mem_cons.mp hy with hy' | hy'
    · rw [hx', hy']
    · rw [hx'] at he; exact absurd he.symm (h.1 y hy')
    · rw [hy'] at he; exact absurd he (h.1 x hx')
    · exact ih h.2 hx' hy' 

theorem mem_definedVars_gate {a : Aig} {g : AndGate} (hg : g ∈ a.gates) : g.out / 2 ∈ definedVars a := by
  unfold definedVars definedLits
  simp only [List.map_cons, List.map_append, List.map_map, List.mem_cons, List.mem_append, List.mem_map]
  exact Or.inr (Or.inl (Or.inr ⟨g, hg, rfl⟩))

/-- Under unique definitions a gate-output variable is none of constant / input / latch, and its
gate is unique. -/
theorem gate_var_unique {a : Aig} (hn : (definedVars a).Nodup) {g : AndGate} (hg : g ∈ a.gates) :
    g.out / 2 ≠ 0 ∧ (∀ l ∈ a.inputs, l / 2 ≠ g.out / 2) ∧ (∀ l ∈ a.latches, l.state / 2 ≠ g.out / 2) ∧
    ∀ g' ∈ a.gates, g'.out / 2 = g.out / 2 → g' = g := by
  unfold definedVars definedLits at hn
  simp only [List.map_cons, List.map_append, List.map_map] at hn
  rw [List.nodup_cons] at hn
  obtain ⟨h0, hn⟩ := hn
  rw [List.nodup_append] at hn
  obtain ⟨hIG, _, hIGL⟩ := hn
  rw [List.nodup_append] at hIG
  obtain ⟨_, hG, hIGd⟩ := hIG
  have hgm : g.out / 2 ∈ List.map ((fun x => x / 2) ∘ fun x => x.out) a.gates :=
    List.mem_map.mpr ⟨g, hg, rfl⟩
  refine ⟨?_, ?_, ?_, ?_⟩
  · intro h
    have hm : g.out / 2 ∈ List.map (fun x => x / 2) a.inputs ++
        List.map ((fun x => x / 2) ∘ fun x => x.out) a.gates ++
        List.map ((fun x => x / 2) ∘ fun x => x.state) a.latches :=
      List.mem_append.mpr (Or.inl (List.mem_append.mpr (Or.inr hgm)))
    rw [h] at hm; exact h0 (by simpa using hm)
  · intro l hl he
    exact hIGd (l / 2) (List.mem_map.mpr ⟨l, hl, rfl⟩) (g.out / 2) hgm he
  · intro l hl he
    exact hIGL (g.out / 2) (List.mem_append.mpr (Or.inr hgm)) (l.state / 2)
      (List.mem_map.mpr ⟨l, hl, rfl⟩) he.symm
  · intro g' hg' he
    exact nodup_map_inj hG hg' hg he

/-- Inversion: a well-founded gate output has well-founded gate inputs. -/
theorem Grounded.gate_inv {a : Aig} (hn : (definedVars a).Nodup) {g : AndGate} (hg : g ∈ a.gates)
    (h : Grounded a (g.out / 2)) : Grounded a (g.in0 / 2) ∧ Grounded a (g.in1 / 2) := by
  obtain ⟨u0, uI, uL, uG⟩ := gate_var_unique hn hg
  generalize hv : g.out / 2 = v at h
  cases h with
  | const => exact absurd hv u0
  | input l hl => exact absurd hv.symm (uI l hl)
  | latch l hl => exact absurd hv.symm (uL l hl)
  | gate g' hg' h0 h1 =>
    have := uG g' hg' hv.symm
    subst this
    exact ⟨h0, h1⟩

theorem Grounded.defined {a : Aig} {v : Nat} (h : Grounded a v) : v ∈ definedVars a := by
  unfold definedVars definedLits
  simp only [List.map_cons, List.map_append, List.map_map, List.mem_cons, List.mem_append, List.mem_map]
  cases h with
  | const => exact Or.inl (by omega)
  | input l hl => exact Or.inr (Or.inl (Or.inl ⟨l, hl, rfl⟩))
  | latch l hl => exact Or.inr (Or.inr ⟨l, hl, rfl⟩)
  | gate g hg _ _ => exact Or.inr (Or.inl (Or.inr ⟨g, hg, rfl⟩))

theorem Grounded.dep {a : Aig} (hn : (definedVars a).Nodup) {v w : Nat} (h : Grounded a v)
    (hd : Dep a v w) : Grounded a w := by
  obtain ⟨g, hg, rfl, hw⟩ := hd
  obtain ⟨h0, h1⟩ := h.gate_inv hn hg
  rcases hw with rfl | rfl
  · exact h0
  · exact h1

theorem Grounded.depPlus {a : Aig} (hn : (definedVars a).Nodup) {v w : Nat} (h : Grounded a v)
    (hd : DepPlus a v w) : Grounded a w := by
  induction hd with
  | single d => exact h.dep hn d
  | cons d _ ih => exact ih (h.dep hn d)

theorem DepPlus.snoc {a : Aig} {v w x : Nat} (h : DepPlus a v w) (d : Dep a w x) : DepPlus a v x := by
  induction h with
  | single d' => exact DepPlus.cons d' (DepPlus.single d)
  | cons d' _ ih => exact DepPlus.cons d' (ih d)

/-- A well-founded variable is accessible for the dependency relation … -/
theorem Grounded.acc {a : Aig} (hn : (definedVars a).Nodup) {v : Nat} (h : Grounded a v) :
    Acc (fun w v => Dep a v w) v := by
  induction h with
  | const =>
    constructor; intro w ⟨g, hg, he, _⟩
    exact absurd he (gate_var_unique hn hg).1
  | input l hl =>
    constructor; intro w ⟨g, hg, he, _⟩
    exact absurd he.symm ((gate_var_unique hn hg).2.1 l hl)
  | latch l hl =>
    constructor; intro w ⟨g, hg, he, _⟩
    exact absurd he.symm ((gate_var_unique hn hg).2.2.1 l hl)
  | gate g hg _ _ ih0 ih1 =>
    constructor; intro w ⟨g', hg', he, hw⟩
    have := (gate_var_unique hn hg).2.2.2 g' hg' he
    subst this
    rcases hw with rfl | rfl
    · exact ih0
    · exact ih1

/-- … hence lies on no combinational cycle. -/
theorem acc_not_onCycle {a : Aig} {v : Nat} (h : Acc (fun w v => Dep a v w) v) : ¬ OnCycle a v := by
  induction h with
  | intro v _ ih =>
    intro hc
    unfold OnCycle at hc
    cases hc with
    | single d => exact ih v d (DepPlus.single d)
    | cons d p => exact ih _ d (p.snoc d)

theorem Grounded.not_onCycle {a : Aig} (hn : (definedVars a).Nodup) {v : Nat} (h : Grounded a v) :
    ¬ OnCycle a v := acc_not_onCycle (h.acc hn)

theorem Grounded.not_undefined {a : Aig} {v : Nat} (h : Grounded a v) : ¬ Undefined a v :=
  fun hu => hu h.defined

/-- A successful run: every transferred root is well-founded. -/
theorem renumber_ok_grounded {cfg : Config} {a : Aig} {fuel : Nat} {o : OrderedAig} {m : LitMap}
    (h : renumber cfg a fuel = .ok (o, m)) : ∀ r ∈ roots cfg a, Grounded a (r / 2) := by
  obtain ⟨st, inv, _, hk, _⟩ := renumber_ok_inv h
  exact fun r hr => inv.key_ground (hk r hr)

end Flussab.Aig
