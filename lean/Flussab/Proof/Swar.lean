/-
The 8-byte SWAR digit kernel (`swar_ascii_digits_u64_le`, regenerated from /repo into
`Flussab.Gen.Swar`) is correct for ALL 2^64 words: for each possible number `c ∈ 0..8` of leading
digit bytes it returns `c` and the decimal value of those `c` digits.  Each case is one
`bv_decide` call (SAT + verified LRAT check); these are the only theorems of the development that
depend on the `bv_decide` native axioms (DESIGN.md §6).
-/
import Flussab.Gen.Swar
import Std.Tactic.BVDecide

namespace Flussab.Swar
open Flussab.Gen

/-- Byte `i` of a little-endian word. -/
def byteAt (w : BitVec 64) (i : Nat) : BitVec 8 := (w >>> (8 * i)).setWidth 8
def isDig (b : BitVec 8) : Bool := 48#8 ≤ b && b ≤ 57#8
def dv (w : BitVec 64) (i : Nat) : BitVec 32 := ((byteAt w i) - 48#8).setWidth 32

theorem ite_fst {α β} (c : Prop) [Decidable c] (a b : α × β) :
    (if c then a else b).1 = if c then a.1 else b.1 := by split <;> rfl
theorem ite_snd {α β} (c : Prop) [Decidable c] (a b : α × β) :
    (if c then a else b).2 = if c then a.2 else b.2 := by split <;> rfl
theorem ite_toNat (c : Prop) [Decidable c] (a b : BitVec 64) :
    (if c then a.toNat else b.toNat) = (if c then a else b).toNat := by split <;> rfl
theorem toNat_eq_of_eq_ofNat {x : BitVec 64} {n : Nat} (h : x = BitVec.ofNat 64 n) (hn : n < 2 ^ 64) :
    x.toNat = n := by
  subst h; simp [BitVec.toNat_ofNat]; omega

theorem swar_c0 (w : BitVec 64)  (h0 : isDig (byteAt w 0) = false) :
    swarAsciiDigitsU64Le w = (0#32, 0) := by
  simp only [byteAt, isDig, dv] at *
  refine Prod.ext ?_ ?_
  · simp only [swarAsciiDigitsU64Le]
    rw [ite_fst]
    bv_decide (config := {timeout := 600})
  · simp only [swarAsciiDigitsU64Le]
    rw [ite_snd]; simp only [ite_toNat]
    apply toNat_eq_of_eq_ofNat _ (by decide)
    bv_decide (config := {timeout := 600})

theorem swar_c1 (w : BitVec 64) (h0 : isDig (byteAt w 0) = true) (h1 : isDig (byteAt w 1) = false) :
    swarAsciiDigitsU64Le w = (dv w 0, 1) := by
  simp only [byteAt, isDig, dv] at *
  refine Prod.ext ?_ ?_
  · simp only [swarAsciiDigitsU64Le]
    rw [ite_fst]
    bv_decide (config := {timeout := 600})
  · simp only [swarAsciiDigitsU64Le]
    rw [ite_snd]; simp only [ite_toNat]
    apply toNat_eq_of_eq_ofNat _ (by decide)
    bv_decide (config := {timeout := 600})

theorem swar_c2 (w : BitVec 64) (h0 : isDig (byteAt w 0) = true) (h1 : isDig (byteAt w 1) = true) (h2 : isDig (byteAt w 2) = false) :
    swarAsciiDigitsU64Le w = ((dv w 0) * 10#32 + dv w 1, 2) := by
  simp only [byteAt, isDig, dv] at *
  refine Prod.ext ?_ ?_
  · simp only [swarAsciiDigitsU64Le]
    rw [ite_fst]
    bv_decide (config := {timeout := 600})
  · simp only [swarAsciiDigitsU64Le]
    rw [ite_snd]; simp only [ite_toNat]
    apply toNat_eq_of_eq_ofNat _ (by decide)
    bv_decide (config := {timeout := 600})

theorem swar_c3 (w : BitVec 64) (h0 : isDig (byteAt w 0) = true) (h1 : isDig (byteAt w 1) = true) (h2 : isDig (byteAt w 2) = true) (h3 : isDig (byteAt w 3) = false) :
    swarAsciiDigitsU64Le w = (((dv w 0) * 10#32 + dv w 1) * 10#32 + dv w 2, 3) := by
  simp only [byteAt, isDig, dv] at *
  refine Prod.ext ?_ ?_
  · simp only [swarAsciiDigitsU64Le]
    rw [ite_fst]
    bv_decide (config := {timeout := 600})
  · simp only [swarAsciiDigitsU64Le]
    rw [ite_snd]; simp only [ite_toNat]
    apply toNat_eq_of_eq_ofNat _ (by decide)
    bv_decide (config := {timeout := 600})

theorem swar_c4 (w : BitVec 64) (h0 : isDig (byteAt w 0) = true) (h1 : isDig (byteAt w 1) = true) (h2 : isDig (byteAt w 2) = true) (h3 : isDig (byteAt w 3) = true) (h4 : isDig (byteAt w 4) = false) :
    swarAsciiDigitsU64Le w = ((((dv w 0) * 10#32 + dv w 1) * 10#32 + dv w 2) * 10#32 + dv w 3, 4) := by
  simp only [byteAt, isDig, dv] at *
  refine Prod.ext ?_ ?_
  · simp only [swarAsciiDigitsU64Le]
    rw [ite_fst]
    bv_decide (config := {timeout := 600})
  · simp only [swarAsciiDigitsU64Le]
    rw [ite_snd]; simp only [ite_toNat]
    apply toNat_eq_of_eq_ofNat _ (by decide)
    bv_decide (config := {timeout := 600})

theorem swar_c5 (w : BitVec 64) (h0 : isDig (byteAt w 0) = true) (h1 : isDig (byteAt w 1) = true) (h2 : isDig (byteAt w 2) = true) (h3 : isDig (byteAt w 3) = true) (h4 : isDig (byteAt w 4) = true) (h5 : isDig (byteAt w 5) = false) :
    swarAsciiDigitsU64Le w = (((((dv w 0) * 10#32 + dv w 1) * 10#32 + dv w 2) * 10#32 + dv w 3) * 10#32 + dv w 4, 5) := by
  simp only [byteAt, isDig, dv] at *
  refine Prod.ext ?_ ?_
  · simp only [swarAsciiDigitsU64Le]
    rw [ite_fst]
    bv_decide (config := {timeout := 600})
  · simp only [swarAsciiDigitsU64Le]
    rw [ite_snd]; simp only [ite_toNat]
    apply toNat_eq_of_eq_ofNat _ (by decide)
    bv_decide (config := {timeout := 600})

theorem swar_c6 (w : BitVec 64) (h0 : isDig (byteAt w 0) = true) (h1 : isDig (byteAt w 1) = true) (h2 : isDig (byteAt w 2) = true) (h3 : isDig (byteAt w 3) = true) (h4 : isDig (byteAt w 4) = true) (h5 : isDig (byteAt w 5) = true) (h6 : isDig (byteAt w 6) = false) :
    swarAsciiDigitsU64Le w = ((((((dv w 0) * 10#32 + dv w 1) * 10#32 + dv w 2) * 10#32 + dv w 3) * 10#32 + dv w 4) * 10#32 + dv w 5, 6) := by
  simp only [byteAt, isDig, dv] at *
  refine Prod.ext ?_ ?_
  · simp only [swarAsciiDigitsU64Le]
    rw [ite_fst]
    bv_decide (config := {timeout := 600})
  · simp only [swarAsciiDigitsU64Le]
    rw [ite_snd]; simp only [ite_toNat]
    apply toNat_eq_of_eq_ofNat _ (by decide)
    bv_decide (config := {timeout := 600})

theorem swar_c7 (w : BitVec 64) (h0 : isDig (byteAt w 0) = true) (h1 : isDig (byteAt w 1) = true) (h2 : isDig (byteAt w 2) = true) (h3 : isDig (byteAt w 3) = true) (h4 : isDig (byteAt w 4) = true) (h5 : isDig (byteAt w 5) = true) (h6 : isDig (byteAt w 6) = true) (h7 : isDig (byteAt w 7) = false) :
    swarAsciiDigitsU64Le w = (((((((dv w 0) * 10#32 + dv w 1) * 10#32 + dv w 2) * 10#32 + dv w 3) * 10#32 + dv w 4) * 10#32 + dv w 5) * 10#32 + dv w 6, 7) := by
  simp only [byteAt, isDig, dv] at *
  refine Prod.ext ?_ ?_
  · simp only [swarAsciiDigitsU64Le]
    rw [ite_fst]
    bv_decide (config := {timeout := 600})
  · simp only [swarAsciiDigitsU64Le]
    rw [ite_snd]; simp only [ite_toNat]
    apply toNat_eq_of_eq_ofNat _ (by decide)
    bv_decide (config := {timeout := 600})

theorem swar_c8 (w : BitVec 64) (h0 : isDig (byteAt w 0) = true) (h1 : isDig (byteAt w 1) = true) (h2 : isDig (byteAt w 2) = true) (h3 : isDig (byteAt w 3) = true) (h4 : isDig (byteAt w 4) = true) (h5 : isDig (byteAt w 5) = true) (h6 : isDig (byteAt w 6) = true) (h7 : isDig (byteAt w 7) = true) :
    swarAsciiDigitsU64Le w = ((((((((dv w 0) * 10#32 + dv w 1) * 10#32 + dv w 2) * 10#32 + dv w 3) * 10#32 + dv w 4) * 10#32 + dv w 5) * 10#32 + dv w 6) * 10#32 + dv w 7, 8) := by
  simp only [byteAt, isDig, dv] at *
  refine Prod.ext ?_ ?_
  · simp only [swarAsciiDigitsU64Le]
    rw [ite_fst]
    bv_decide (config := {timeout := 600})
  · simp only [swarAsciiDigitsU64Le]
    rw [ite_snd]; simp only [ite_toNat]
    apply toNat_eq_of_eq_ofNat _ (by decide)
    bv_decide (config := {timeout := 600})

end Flussab.Swar
