/-
Proofs of the tie between the generated section readers of the ASCII AIGER parser (`Gen/AigerSectionsGen.lean`,
from `flussab-aiger/src/ascii.rs`: `Parser::inputs`, `impl ParseInputs` … `impl ParseAndGates`) and the section
functions of `Model/Aiger.lean`.  Statements: `Props/TieAigerSections.lean`.

The generated code runs in `ASM = StateT Aiger.St PM`; the model threads the record `Aiger.St` explicitly through
`PM`.  `run_tok`, `run_getS`, … turn one run of a generated function into a `PM` term, which `simp` normalises
with the monad laws; the remaining steps are `pm_bind_congr` and case splits on the conditions the code tests.

Loops (`while self.x_left != 0 { self.next_x()?; }`): `loop_eq` compares the generated loop with the model's
`whileSome` for every fuel above `left`; what is needed of the model reader is `Counted`: with `left = 0` it
returns `none` without touching anything, with `left = n + 1` every result is `some _` in a state with
`left = n`.  So the fuel `left + 1` both sides start with is never used up (the out-of-fuel values differ).
-/
import Flussab.Gen.AigerSectionsGen
import Flussab.Proof.TieAigerHeader

set_option linter.unusedVariables false
set_option linter.unusedSimpArgs false

namespace Flussab
namespace TieAigerSectionsAux
open PM AigerSectionsExt TieAigerHeaderAux

variable {α β : Type}

@[simp] theorem run_tok (x : PM α) (s : Aiger.St) : (tok x).run s = x >>= fun a => pure (a, s) := by
  simp [tok]
@[simp] theorem run_getS (s : Aiger.St) : getS.run s = (pure (s, s) : PM _) := rfl
@[simp] theorem run_modifyS (f : Aiger.St → Aiger.St) (s : Aiger.St) :
    (modifyS f).run s = (pure ((), f s) : PM _) := rfl
@[simp] theorem run_usub (a b : Nat) (s : Aiger.St) :
    (usub a b).run s = PMExt.usub a b >>= fun a => pure (a, s) := by
  simp [usub]
@[simp] theorem run_uadd (a b : Nat) (s : Aiger.St) :
    (uadd a b).run s = PMExt.uadd a b >>= fun a => pure (a, s) := by
  simp [uadd]

/-- `self.x_left -= 1` behind the test `self.x_left == 0`: the check cannot fail. -/
theorem usub_succ (n : Nat) : PMExt.usub (n + 1) 1 = pure n := by
  simp [PMExt.usub]

theorem errorAtMark_bind {γ δ : Type} (f : γ → PM δ) :
    ((Aiger.errorAtMark : PM γ) >>= f) = Aiger.errorAtMark := by
  funext lr
  have h : ∀ (τ : Type), (Aiger.errorAtMark : PM τ) lr = (PM.giveUpAt lr.v.mark : PM τ) lr := by
    intro τ
    unfold Aiger.errorAtMark
    rw [PM.bind_apply]
    rfl
  rw [PM.bind_apply, h, h, TieLineReaderAux.giveUpAt_apply, TieLineReaderAux.giveUpAt_apply]

/-! ### the `next_*` functions -/

/-- The six literal sections have the same body up to the message and the `assigning` flag. -/
theorem nextLit_eq (g : ASM (Option Nat)) (assigning : Bool)
    (hg : g = do
      if ((← getS).left == 0) then
        return none
      let v1 := 1
      let t2 ← usub (← getS).left v1
      modifyS fun r => { r with left := t2 }
      let t3 ← tok (Aiger.lit ((← getS).p.maxLit) assigning)
      let lit := ((← getS).p.lit.fromCode t3)
      let t4 ← tok (Aiger.requiredNewline)
      pure (some lit))
    (s : Aiger.St) : g.run s = Aiger.nextLit assigning s := by
  subst hg
  rcases s with ⟨p, left, total⟩
  cases left with
  | zero => simp [Aiger.nextLit]
  | succ n => simp [Aiger.nextLit, Aiger.litLine, usub_succ]

theorem nextInput_eq (s : Aiger.St) : Gen.AigerSections.nextInput.run s = Aiger.nextInput s :=
  nextLit_eq _ true (by unfold Gen.AigerSections.nextInput; rfl) s
theorem nextOutput_eq (s : Aiger.St) : Gen.AigerSections.nextOutput.run s = Aiger.nextOutput s :=
  nextLit_eq _ false (by unfold Gen.AigerSections.nextOutput; rfl) s
theorem nextBadStateProperty_eq (s : Aiger.St) :
    Gen.AigerSections.nextBadStateProperty.run s = Aiger.nextBad s :=
  nextLit_eq _ false (by unfold Gen.AigerSections.nextBadStateProperty; rfl) s
theorem nextInvariantConstraint_eq (s : Aiger.St) :
    Gen.AigerSections.nextInvariantConstraint.run s = Aiger.nextConstraint s :=
  nextLit_eq _ false (by unfold Gen.AigerSections.nextInvariantConstraint; rfl) s
theorem nextJusticeLit_eq (s : Aiger.St) :
    Gen.AigerSections.nextJusticePropertyLocalFairnessConstraint.run s = Aiger.nextJusticeLit s :=
  nextLit_eq _ false (by unfold Gen.AigerSections.nextJusticePropertyLocalFairnessConstraint; rfl) s
theorem nextFairnessConstraint_eq (s : Aiger.St) :
    Gen.AigerSections.nextFairnessConstraint.run s = Aiger.nextFairness s :=
  nextLit_eq _ false (by unfold Gen.AigerSections.nextFairnessConstraint; rfl) s

theorem inputs_eq (s : Aiger.St) :
    Prod.fst <$> Gen.AigerSections.inputs.run s = (pure s.p.inputs : PM Aiger.St) := by
  unfold Gen.AigerSections.inputs
  simp [Aiger.Parser.inputs]

theorem nextAndGate_eq (s : Aiger.St) : Gen.AigerSections.nextAndGate.run s = Aiger.nextAndGateAscii s := by
  unfold Gen.AigerSections.nextAndGate
  rcases s with ⟨p, left, total⟩
  cases left with
  | zero => simp [Aiger.nextAndGateAscii]
  | succ n => simp [Aiger.nextAndGateAscii, usub_succ]

theorem nextLatch_eq (s : Aiger.St) : Gen.AigerSections.nextLatch.run s = Aiger.nextLatchAscii s := by
  unfold Gen.AigerSections.nextLatch Gen.AigerSections.nextLatch.k1
  rcases s with ⟨p, left, total⟩
  cases left with
  | zero => simp [Aiger.nextLatchAscii]
  | succ n =>
    simp [Aiger.nextLatchAscii, usub_succ, Aiger.latchReset, Aiger.latchInit]
    apply pm_bind_congr; intro sc
    apply pm_bind_congr; intro _
    apply pm_bind_congr; intro nx
    apply pm_bind_congr; intro sp
    cases sp with
    | false => simp
    | true =>
      simp
      apply pm_bind_congr; intro ic
      by_cases h1 : ic < 2
      · simp [h1]
      · by_cases h2 : ic = sc
        · subst h2; simp [h1]
        · simp [h1, h2, errorAtMark_bind]

/-- `total_local_fairness_count` is a `usize`: for `s.total ≤ usize::MAX` neither `usize::MAX - total` nor
`total += count` (with `count ≤ usize::MAX - total`, `headerField_le`) can overflow, so the differently named
panic sites of the two sides are never reached. -/
theorem nextJusticePropertySize_eq (s : Aiger.St) (ht : s.total ≤ PM.usizeMax) :
    Gen.AigerSections.nextJusticePropertySize.run s = Aiger.nextJusticeSize s := by
  unfold Gen.AigerSections.nextJusticePropertySize
  rcases s with ⟨p, left, total⟩
  simp only at ht
  cases left with
  | zero => simp [Aiger.nextJusticeSize]
  | succ n =>
    have h1 : PMExt.usub PM.usizeMax total = pure (PM.usizeMax - total) := by simp [PMExt.usub, ht]
    have h2 : Aiger.checkedSub "usize::MAX - total_local_fairness_count" PM.usizeMax total =
        pure (PM.usizeMax - total) := by
      have : ¬ total > PM.usizeMax := by omega
      simp [Aiger.checkedSub, this]
    simp only [Aiger.nextJusticeSize, h2]
    simp [usub_succ, h1]
    refine bind_congr_post _ (fun c => c ≤ PM.usizeMax - total) (fun lr a s h => headerField_le _ lr a s h) _ _ ?_
    intro c hc
    apply pm_bind_congr; intro _
    have : ¬ total + c > PM.usizeMax := by omega
    simp [PMExt.uadd, Aiger.checkedAdd, this]

/-! ### the draining loops and the transitions -/

/-- A model reader of a counted section, on the states with `I`: with `left = 0` it returns `none` and leaves
the state; with `left = n + 1` every result is `some _` in a state with `left = n` that has `I` again. -/
structure Counted (I : Aiger.St → Prop) (mn : Aiger.St → PM (Option α × Aiger.St)) : Prop where
  zero : ∀ s, s.left = 0 → mn s = pure (none, s)
  succ : ∀ s n, I s → s.left = n + 1 → ∃ (γ : Type) (body : PM γ) (k : γ → α × Aiger.St),
    mn s = (body >>= fun c => pure (some (k c).1, (k c).2)) ∧ ∀ c, (k c).2.left = n ∧ I (k c).2

theorem counted_nextLit (assigning : Bool) : Counted (fun _ => True) (Aiger.nextLit assigning) := by
  constructor
  · intro s h
    rcases s with ⟨p, left, total⟩
    simp only at h; subst h
    rfl
  · intro s n _ h
    rcases s with ⟨p, left, total⟩
    simp only at h; subst h
    refine ⟨Nat, Aiger.litLine p assigning, fun c => (c, { p := p, left := n, total := total }), ?_,
      fun _ => ⟨rfl, trivial⟩⟩
    simp [Aiger.nextLit]

theorem counted_nextLatch : Counted (fun _ => True) Aiger.nextLatchAscii := by
  constructor
  · intro s h
    rcases s with ⟨p, left, total⟩
    simp only at h; subst h
    rfl
  · intro s n _ h
    rcases s with ⟨p, left, total⟩
    simp only at h; subst h
    refine ⟨Aiger.Latch, (do
        let stateCode ← Aiger.lit p.maxLit true
        Aiger.requiredSpace
        let nx ← Aiger.lit p.maxLit false
        let init ← Aiger.latchReset p stateCode
        pure ({ state := p.lit.fromCode stateCode, next := p.lit.fromCode nx, init := init } : Aiger.Latch)),
      fun c => (c, { p := p, left := n, total := total }), ?_, fun _ => ⟨rfl, trivial⟩⟩
    simp [Aiger.nextLatchAscii]

theorem counted_nextAndGate : Counted (fun _ => True) Aiger.nextAndGateAscii := by
  constructor
  · intro s h
    rcases s with ⟨p, left, total⟩
    simp only at h; subst h
    rfl
  · intro s n _ h
    rcases s with ⟨p, left, total⟩
    simp only at h; subst h
    refine ⟨Aiger.AndGate, (do
        let o ← Aiger.lit p.maxLit true
        Aiger.requiredSpace
        let i0 ← Aiger.lit p.maxLit false
        Aiger.requiredSpace
        let i1 ← Aiger.lit p.maxLit false
        Aiger.requiredNewline
        pure ({ in0 := p.lit.fromCode i0, in1 := p.lit.fromCode i1, out := p.lit.fromCode o } : Aiger.AndGate)),
      fun c => (c, { p := p, left := n, total := total }), ?_, fun _ => ⟨rfl, trivial⟩⟩
    simp [Aiger.nextAndGateAscii]

/-- A successful `checkedAdd` returns at most `usize::MAX`. -/
theorem checkedAdd_min {γ : Type} (site : String) (a b : Nat) (F : Nat → PM γ) :
    (Aiger.checkedAdd site a b >>= F) = (Aiger.checkedAdd site a b >>= fun t => F (min t PM.usizeMax)) := by
  unfold Aiger.checkedAdd
  by_cases h : a + b > PM.usizeMax
  · simp only [h, if_true]
    funext lr
    rw [PM.bind_apply, PM.bind_apply]
    rfl
  · have : min (a + b) PM.usizeMax = a + b := by omega
    simp [h, this]

theorem counted_nextJusticeSize : Counted (fun s => s.total ≤ PM.usizeMax) Aiger.nextJusticeSize := by
  constructor
  · intro s h
    rcases s with ⟨p, left, total⟩
    simp only at h; subst h
    rfl
  · intro s n _ h
    rcases s with ⟨p, left, total⟩
    simp only at h; subst h
    refine ⟨Nat × Nat, (do
        let limit ← Aiger.checkedSub "usize::MAX - total_local_fairness_count" PM.usizeMax total
        let count ← Aiger.headerField limit
        Aiger.requiredNewline
        let t ← Aiger.checkedAdd "total_local_fairness_count += count" total count
        pure (count, t)),
      fun c => (c.1, { p := p, left := n, total := min c.2 PM.usizeMax }), ?_, fun c => ⟨rfl, ?_⟩⟩
    · simp only [Aiger.nextJusticeSize, bind_assoc, pure_bind]
      apply pm_bind_congr; intro limit
      apply pm_bind_congr; intro count
      apply pm_bind_congr; intro _
      exact checkedAdd_min _ _ _ _
    · exact Nat.min_le_right _ _

theorem loop_eq (I : Aiger.St → Prop) (gn : ASM (Option α)) (mn : Aiger.St → PM (Option α × Aiger.St))
    (hn : ∀ s, I s → gn.run s = mn s) (hc : Counted I mn)
    (L : Nat → Unit → ASM (Ctl Unit β))
    (hL : ∀ f, L (f + 1) () = do
      if !((← getS).left != 0) then
        return (Ctl.brk ())
      let t1 ← gn
      let _ := t1
      L f ()) :
    ∀ (fuel : Nat) (s : Aiger.St) (acc : List α), I s → s.left < fuel →
      (L fuel ()).run s = (Aiger.whileSome mn fuel s acc >>= fun r => pure ((Ctl.brk () : Ctl Unit β), r.2)) := by
  intro fuel
  induction fuel with
  | zero => intro s acc _ h; omega
  | succ f ih =>
    intro s acc hi h
    rw [hL, Aiger.whileSome]
    cases hl : s.left with
    | zero =>
      rw [hc.zero s hl]
      simp [hl]
    | succ n =>
      obtain ⟨γ, body, k, hb, hk⟩ := hc.succ s n hi hl
      simp [hl, hn s hi, hb]
      apply pm_bind_congr; intro c
      exact ih (k c).2 ((k c).1 :: acc) (hk c).2 (by rw [(hk c).1]; omega)

/-- A transition function: the draining loop with the fuel `left + 1`, then `rest`. -/
theorem drain_eq (I : Aiger.St → Prop) (gn : ASM (Option α)) (mn : Aiger.St → PM (Option α × Aiger.St))
    (hn : ∀ s, I s → gn.run s = mn s) (hc : Counted I mn)
    (L : Nat → Unit → ASM (Ctl Unit β))
    (hL : ∀ f, L (f + 1) () = do
      if !((← getS).left != 0) then
        return (Ctl.brk ())
      let t1 ← gn
      let _ := t1
      L f ())
    (K : Ctl Unit β → ASM β) (rest g : ASM β) (hg : g = do
      let r2 ← L ((← getS).left + 1) ()
      K r2) (hK : K (Ctl.brk ()) = rest) (s : Aiger.St) (hi : I s) :
    g.run s = Aiger.finish mn s >>= fun s' => rest.run s' := by
  subst hg hK
  simp [Aiger.finish, loop_eq I gn mn hn hc L hL (s.left + 1) s [] hi (by omega)]

theorem latches_eq (s : Aiger.St) (hb : s.p.bin = false) :
    Prod.fst <$> Gen.AigerSections.latches.run s = Aiger.toLatches s := by
  rw [drain_eq (fun _ => True) _ _ (fun s h => nextInput_eq s) (counted_nextLit true) Gen.AigerSections.latches.loop1 (fun f => rfl) _ (do
      let t3 ← getS
      pure ({ t3 with left := ((← getS).p.header).latchCount } : Aiger.St)) Gen.AigerSections.latches
    rfl rfl s trivial]
  simp [Aiger.toLatches, hb]

theorem outputs_eq (s : Aiger.St) (hb : s.p.bin = false) :
    Prod.fst <$> Gen.AigerSections.outputs.run s = Aiger.toOutputs s := by
  rw [drain_eq (fun _ => True) _ _ (fun s h => nextLatch_eq s) counted_nextLatch Gen.AigerSections.outputs.loop1 (fun f => rfl) _ (do
      let t3 ← getS
      pure ({ t3 with left := ((← getS).p.header).outputCount } : Aiger.St)) Gen.AigerSections.outputs
    rfl rfl s trivial]
  simp [Aiger.toOutputs, hb]

theorem badStateProperties_eq (s : Aiger.St) :
    Prod.fst <$> Gen.AigerSections.badStateProperties.run s = Aiger.toBad s := by
  rw [drain_eq (fun _ => True) _ _ (fun s h => nextOutput_eq s) (counted_nextLit false) Gen.AigerSections.badStateProperties.loop1 (fun f => rfl) _ (do
      let t3 ← getS
      pure ({ t3 with left := ((← getS).p.header).badCount } : Aiger.St)) Gen.AigerSections.badStateProperties
    rfl rfl s trivial]
  simp [Aiger.toBad]

theorem invariantConstraints_eq (s : Aiger.St) :
    Prod.fst <$> Gen.AigerSections.invariantConstraints.run s = Aiger.toConstraints s := by
  rw [drain_eq (fun _ => True) _ _ (fun s h => nextBadStateProperty_eq s) (counted_nextLit false) Gen.AigerSections.invariantConstraints.loop1 (fun f => rfl) _ (do
      let t3 ← getS
      pure ({ t3 with left := ((← getS).p.header).constraintCount } : Aiger.St)) Gen.AigerSections.invariantConstraints
    rfl rfl s trivial]
  simp [Aiger.toConstraints]

theorem justiceProperties_eq (s : Aiger.St) :
    Prod.fst <$> Gen.AigerSections.justiceProperties.run s = Aiger.toJusticeSizes s := by
  rw [drain_eq (fun _ => True) _ _ (fun s h => nextInvariantConstraint_eq s) (counted_nextLit false) Gen.AigerSections.justiceProperties.loop1 (fun f => rfl) _ (do
      let t3 ← getS
      pure ({ t3 with left := ((← getS).p.header).justiceCount, total := 0 } : Aiger.St)) Gen.AigerSections.justiceProperties
    rfl rfl s trivial]
  simp [Aiger.toJusticeSizes]

theorem justiceLits_eq (s : Aiger.St) (ht : s.total ≤ PM.usizeMax) :
    Prod.fst <$> Gen.AigerSections.justicePropertyLocalFairnessConstraints.run s = Aiger.toJusticeLits s := by
  rw [drain_eq (fun s => s.total ≤ PM.usizeMax) _ _ (fun s h => nextJusticePropertySize_eq s h) counted_nextJusticeSize Gen.AigerSections.justicePropertyLocalFairnessConstraints.loop1 (fun f => rfl) _ (do
      let t3 ← getS
      pure ({ t3 with left := (← getS).total } : Aiger.St)) Gen.AigerSections.justicePropertyLocalFairnessConstraints
    rfl rfl s ht]
  simp [Aiger.toJusticeLits]

theorem fairnessConstraints_eq (s : Aiger.St) :
    Prod.fst <$> Gen.AigerSections.fairnessConstraints.run s = Aiger.toFairness s := by
  rw [drain_eq (fun _ => True) _ _ (fun s h => nextJusticeLit_eq s) (counted_nextLit false) Gen.AigerSections.fairnessConstraints.loop1 (fun f => rfl) _ (do
      let t3 ← getS
      pure ({ t3 with left := ((← getS).p.header).fairnessCount } : Aiger.St)) Gen.AigerSections.fairnessConstraints
    rfl rfl s trivial]
  simp [Aiger.toFairness]

theorem andGates_eq (s : Aiger.St) :
    Prod.fst <$> Gen.AigerSections.andGates.run s = Aiger.toAndGates s := by
  rw [drain_eq (fun _ => True) _ _ (fun s h => nextFairnessConstraint_eq s) (counted_nextLit false) Gen.AigerSections.andGates.loop1 (fun f => rfl) _ (do
      let t3 ← getS
      pure ({ t3 with left := ((← getS).p.header).andGateCount } : Aiger.St)) Gen.AigerSections.andGates
    rfl rfl s trivial]
  simp [Aiger.toAndGates]

theorem symbols_eq (s : Aiger.St) (hb : s.p.bin = false) :
    Prod.fst <$> Gen.AigerSections.symbols.run s = Aiger.toSymbols s := by
  rw [drain_eq (fun _ => True) _ _ (fun s h => nextAndGate_eq s) counted_nextAndGate Gen.AigerSections.symbols.loop1
    (fun f => rfl) _ (do
      let t3 ← getS
      pure t3.p) Gen.AigerSections.symbols
    rfl rfl s trivial]
  simp [Aiger.toSymbols, hb]

end TieAigerSectionsAux
end Flussab
