/-
Round trip of whole AIGER files (property C03): header, symbol table, comment, and the assembly of
`ascii::Parser::parse` / `binary::Parser::parse` on what `write_aig` / `write_ordered_aig` wrote.
-/
import Flussab.Proof.AigerRtSections

namespace Flussab.AigerRT
open Flussab Flussab.CnfP
open Flussab.PM hiding run_bind
open Flussab.Aiger hiding run_bind run_pure run_throw run_rpanic run_get run_set run_modify run_scan
  run_reqAt run_reqByte run_setMark run_mark run_position run_ite run_bufPrefix run_advance
  run_utf8Unwrap
set_option linter.unusedSimpArgs false
set_option linter.unusedVariables false

/-! ### header -/

/-- All nine header fields are `usize` values. -/
def HeaderSmall (h : Header) : Prop := ∀ x ∈ headerFields h, x < 2 ^ 64

/-- The text of one header field: a space and the number. -/
def fld (n : Nat) : VBytes := 32 :: natText n

theorem magic_ne (bin : Bool) : magic bin ≠ [] := by cases bin <;> simp [magic]

/-- The mandatory part of `Header::parse`, followed by whatever reads the rest of the line. -/
theorem header_mand {N} (bin : Bool) (l : LitTy) (h h5 : Header) (hs : HeaderSane l h)
    (hsm : HeaderSmall h)
    (h5def : h5 = { maxVarIndex := h.maxVarIndex, inputCount := h.inputCount, latchCount := h.latchCount,
                    outputCount := h.outputCount, andGateCount := h.andGateCount })
    (T rest : VBytes) (hnd : ND T) (hopt : Steps N (headerOptional h5) h T rest) :
    Steps N (Header.parse bin l) h
      (magic bin ++ (fld h.maxVarIndex ++ (fld h.inputCount ++ (fld h.latchCount ++
        (fld h.outputCount ++ (fld h.andGateCount ++ T)))))) rest := by
  have hlt : ∀ x ∈ headerFields h, x < 2 ^ 64 := hsm
  have hM := hlt h.maxVarIndex (by simp [headerFields])
  have hI := hlt h.inputCount (by simp [headerFields])
  have hL := hlt h.latchCount (by simp [headerFields])
  have hO := hlt h.outputCount (by simp [headerFields])
  have hA := hlt h.andGateCount (by simp [headerFields])
  obtain ⟨hs1, hs2⟩ := hs
  have hu : usizeMax = 2 ^ 64 - 1 := rfl
  unfold Header.parse
  simp only [fld, natText, List.cons_append]
  refine Steps.bind (Steps.orGiveUp (fixed_steps (magic bin) _ (magic_ne bin))) ?_
  refine Steps.bind (requiredSpace_steps _) ?_
  refine Steps.bind (headerField_steps _ h.maxVarIndex hM hs1 _ (ND.space _)) ?_
  refine Steps.bind (requiredSpace_steps _) ?_
  refine Steps.bind (headerField_steps _ h.inputCount hI (by omega) _ (ND.space _)) ?_
  refine Steps.bind (checkedSub_steps _ _ _ _ (by omega)) ?_
  refine Steps.bind (requiredSpace_steps _) ?_
  refine Steps.bind (headerField_steps _ h.latchCount hL (by omega) _ (ND.space _)) ?_
  refine Steps.bind (checkedSub_steps _ _ _ _ (by omega)) ?_
  refine Steps.bind (requiredSpace_steps _) ?_
  refine Steps.bind (headerField_steps _ h.outputCount hO (by omega) _ (ND.space _)) ?_
  refine Steps.bind (requiredSpace_steps _) ?_
  refine Steps.bind (headerField_steps _ h.andGateCount hA (by omega) _ hnd) ?_
  rw [← h5def]
  exact hopt

theorem usize_le {x : Nat} (h : x < 2 ^ 64) : x ≤ usizeMax := by
  have hu : usizeMax = 2 ^ 64 - 1 := rfl
  omega

theorem hopt5 {N} (h5 : Header) (rest : VBytes) : Steps N (headerOptional h5) h5 (10 :: rest) rest := by
  unfold headerOptional
  refine Steps.bind (newlineOrSpace_newline rest) ?_
  simp only [Bool.not_false, ↓reduceIte]
  exact Steps.pure _ _

theorem hopt6 {N} (h5 : Header) (b : Nat) (hb : b < 2 ^ 64) (rest : VBytes) :
    Steps N (headerOptional h5) { h5 with badCount := b } (fld b ++ 10 :: rest) rest := by
  unfold headerOptional
  simp only [fld, natText, List.cons_append]
  refine Steps.bind (newlineOrSpace_space _) ?_
  simp only [Bool.not_true, Bool.false_eq_true, ↓reduceIte]
  refine Steps.bind (headerField_steps _ b hb (usize_le hb) _ (ND.newline _)) ?_
  refine Steps.bind (newlineOrSpace_newline rest) ?_
  simp only [Bool.not_false, ↓reduceIte]
  exact Steps.pure _ _

theorem hopt7 {N} (h5 : Header) (b c : Nat) (hb : b < 2 ^ 64) (hc : c < 2 ^ 64) (rest : VBytes) :
    Steps N (headerOptional h5) { h5 with badCount := b, constraintCount := c }
      (fld b ++ (fld c ++ 10 :: rest)) rest := by
  unfold headerOptional
  simp only [fld, natText, List.cons_append]
  refine Steps.bind (newlineOrSpace_space _) ?_
  simp only [Bool.not_true, Bool.false_eq_true, ↓reduceIte]
  refine Steps.bind (headerField_steps _ b hb (usize_le hb) _ (ND.space _)) ?_
  refine Steps.bind (newlineOrSpace_space _) ?_
  simp only [Bool.not_true, Bool.false_eq_true, ↓reduceIte]
  refine Steps.bind (headerField_steps _ c hc (usize_le hc) _ (ND.newline _)) ?_
  refine Steps.bind (newlineOrSpace_newline rest) ?_
  simp only [Bool.not_false, ↓reduceIte]
  exact Steps.pure _ _

theorem hopt8 {N} (h5 : Header) (b c j : Nat) (hb : b < 2 ^ 64) (hc : c < 2 ^ 64) (hj : j < 2 ^ 64)
    (rest : VBytes) :
    Steps N (headerOptional h5) { h5 with badCount := b, constraintCount := c, justiceCount := j }
      (fld b ++ (fld c ++ (fld j ++ 10 :: rest))) rest := by
  unfold headerOptional
  simp only [fld, natText, List.cons_append]
  refine Steps.bind (newlineOrSpace_space _) ?_
  simp only [Bool.not_true, Bool.false_eq_true, ↓reduceIte]
  refine Steps.bind (headerField_steps _ b hb (usize_le hb) _ (ND.space _)) ?_
  refine Steps.bind (newlineOrSpace_space _) ?_
  simp only [Bool.not_true, Bool.false_eq_true, ↓reduceIte]
  refine Steps.bind (headerField_steps _ c hc (usize_le hc) _ (ND.space _)) ?_
  refine Steps.bind (newlineOrSpace_space _) ?_
  simp only [Bool.not_true, Bool.false_eq_true, ↓reduceIte]
  refine Steps.bind (headerField_steps _ j hj (usize_le hj) _ (ND.newline _)) ?_
  refine Steps.bind (newlineOrSpace_newline rest) ?_
  simp only [Bool.not_false, ↓reduceIte]
  exact Steps.pure _ _

theorem hopt9 {N} (h5 : Header) (b c j f : Nat) (hb : b < 2 ^ 64) (hc : c < 2 ^ 64) (hj : j < 2 ^ 64)
    (hf : f < 2 ^ 64) (rest : VBytes) :
    Steps N (headerOptional h5)
      { h5 with badCount := b, constraintCount := c, justiceCount := j, fairnessCount := f }
      (fld b ++ (fld c ++ (fld j ++ (fld f ++ 10 :: rest)))) rest := by
  unfold headerOptional
  simp only [fld, natText, List.cons_append]
  refine Steps.bind (newlineOrSpace_space _) ?_
  simp only [Bool.not_true, Bool.false_eq_true, ↓reduceIte]
  refine Steps.bind (headerField_steps _ b hb (usize_le hb) _ (ND.space _)) ?_
  refine Steps.bind (newlineOrSpace_space _) ?_
  simp only [Bool.not_true, Bool.false_eq_true, ↓reduceIte]
  refine Steps.bind (headerField_steps _ c hc (usize_le hc) _ (ND.space _)) ?_
  refine Steps.bind (newlineOrSpace_space _) ?_
  simp only [Bool.not_true, Bool.false_eq_true, ↓reduceIte]
  refine Steps.bind (headerField_steps _ j hj (usize_le hj) _ (ND.space _)) ?_
  refine Steps.bind (newlineOrSpace_space _) ?_
  simp only [Bool.not_true, Bool.false_eq_true, ↓reduceIte]
  refine Steps.bind (headerField_steps _ f hf (usize_le hf) _ (ND.newline _)) ?_
  refine Steps.bind (requiredNewline_steps rest) ?_
  exact Steps.pure _ _

theorem trimRev_succ (n : Nat) (rest : List Nat) : trimFieldsRev ((n + 1) :: rest) = (n + 1) :: rest := by
  unfold trimFieldsRev; rfl

theorem trimRev_zero (rest : List Nat) (h : rest.length ≥ 5) :
    trimFieldsRev (0 :: rest) = trimFieldsRev rest := by
  rw [trimFieldsRev]; simp [h]

theorem trimRev_zero_stop (rest : List Nat) (h : ¬ rest.length ≥ 5) :
    trimFieldsRev (0 :: rest) = 0 :: rest := by
  rw [trimFieldsRev]; simp [h]

/-- **`header_fields_roundtrip`**: `Header::parse` reads back what `write_header` wrote, whichever
of the five field counts (5–9) the trimming of trailing zeros produced. -/
theorem header_steps {N} (bin : Bool) (l : LitTy) (h : Header) (hs : HeaderSane l h)
    (hsm : HeaderSmall h) (rest : VBytes) :
    Steps N (Header.parse bin l) h (writeHeader bin h ++ rest) rest := by
  have hlt : ∀ x ∈ headerFields h, x < 2 ^ 64 := hsm
  have hB := hlt h.badCount (by simp [headerFields])
  have hC := hlt h.constraintCount (by simp [headerFields])
  have hJ := hlt h.justiceCount (by simp [headerFields])
  have hF := hlt h.fairnessCount (by simp [headerFields])
  obtain ⟨m, i, la, o, a, b, c, j, f⟩ := h
  simp only at hB hC hJ hF
  have key : ∀ (T : VBytes), ND T →
      Steps N (headerOptional ⟨m, i, la, o, a, 0, 0, 0, 0⟩) ⟨m, i, la, o, a, b, c, j, f⟩ T rest →
      Steps N (Header.parse bin l) ⟨m, i, la, o, a, b, c, j, f⟩
        (magic bin ++ (fld m ++ (fld i ++ (fld la ++ (fld o ++ (fld a ++ T)))))) rest :=
    fun T hnd hopt => header_mand bin l _ _ hs hsm rfl T rest hnd hopt
  unfold writeHeader trimFields headerFields
  simp only [List.reverse_cons, List.reverse_nil, List.nil_append, List.cons_append]
  cases f with
  | succ f' =>
    rw [trimRev_succ]
    simp only [List.reverse_cons, List.reverse_nil, List.nil_append, List.cons_append, List.map_cons,
      List.map_nil, List.flatten_cons, List.flatten_nil, List.append_nil, List.append_assoc,
      List.singleton_append]
    exact key _ (ND.space _) (hopt9 _ b c j (f' + 1) hB hC hJ hF rest)
  | zero =>
    rw [trimRev_zero _ (by simp)]
    cases j with
    | succ j' =>
      rw [trimRev_succ]
      simp only [List.reverse_cons, List.reverse_nil, List.nil_append, List.cons_append, List.map_cons,
        List.map_nil, List.flatten_cons, List.flatten_nil, List.append_nil, List.append_assoc,
        List.singleton_append]
      exact key _ (ND.space _) (hopt8 _ b c (j' + 1) hB hC hJ rest)
    | zero =>
      rw [trimRev_zero _ (by simp)]
      cases c with
      | succ c' =>
        rw [trimRev_succ]
        simp only [List.reverse_cons, List.reverse_nil, List.nil_append, List.cons_append, List.map_cons,
          List.map_nil, List.flatten_cons, List.flatten_nil, List.append_nil, List.append_assoc,
          List.singleton_append]
        exact key _ (ND.space _) (hopt7 _ b (c' + 1) hB hC rest)
      | zero =>
        rw [trimRev_zero _ (by simp)]
        cases b with
        | succ b' =>
          rw [trimRev_succ]
          simp only [List.reverse_cons, List.reverse_nil, List.nil_append, List.cons_append, List.map_cons,
            List.map_nil, List.flatten_cons, List.flatten_nil, List.append_nil, List.append_assoc,
            List.singleton_append]
          exact key _ (ND.space _) (hopt6 _ (b' + 1) hB rest)
        | zero =>
          rw [trimRev_zero _ (by simp)]
          have hstop : trimFieldsRev [a, o, la, i, m] = [a, o, la, i, m] := by
            cases a with
            | zero => exact trimRev_zero_stop _ (by simp)
            | succ a' => exact trimRev_succ _ _
          rw [hstop]
          simp only [List.reverse_cons, List.reverse_nil, List.nil_append, List.cons_append, List.map_cons,
            List.map_nil, List.flatten_cons, List.flatten_nil, List.append_nil, List.append_assoc,
            List.singleton_append]
          exact key _ (ND.newline _) (hopt5 _ rest)

/-! ### `Parser::new` -/

/-- The parser `Parser::new` builds for a header. -/
def parserOf (bin : Bool) (l : LitTy) (h : Header) : Parser :=
  { bin, lit := l, header := h, maxLit := h.maxVarIndex * 2 + 1,
    code := if bin then ((h.inputCount + 1) % 2 ^ 64 * 2) % 2 ^ 64 else 0 }

theorem maxCode_le (l : LitTy) (hl : l.bits ≤ 64) : l.maxCode ≤ usizeMax := by
  unfold LitTy.maxCode usizeMax
  have : 2 ^ l.bits ≤ 2 ^ 64 := Nat.pow_le_pow_right (by decide) hl
  omega

theorem parserNew_steps {N} (bin : Bool) (l : LitTy) (hl : l.bits ≤ 64) (hl1 : 1 ≤ l.maxCode)
    (h : Header) (hs : HeaderSane l h) (hsm : HeaderSmall h) (rest : VBytes) :
    Steps N (Parser.new bin l) (parserOf bin l h) (writeHeader bin h ++ rest) rest := by
  have hmc := maxCode_le l hl
  have hm := hs.1
  have hu : usizeMax = 2 ^ 64 - 1 := rfl
  unfold Parser.new
  refine Steps.bind (header_steps bin l h hs hsm rest) ?_
  refine Steps.bind (checkedMul_steps _ _ _ _ (by omega)) ?_
  refine Steps.bind (checkedAdd_steps _ _ _ _ (by omega)) ?_
  exact Steps.pure _ _

theorem parserOf_ok (bin : Bool) (l : LitTy) (hl : l.bits ≤ 64) (hl1 : 1 ≤ l.maxCode) (h : Header)
    (hs : HeaderSane l h) : POk (parserOf bin l h) := by
  have hmc := maxCode_le l hl
  have hm := hs.1
  have hu : usizeMax = 2 ^ 64 - 1 := rfl
  refine ⟨?_, ?_, ?_⟩
  · show h.maxVarIndex * 2 + 1 ≤ l.maxCode; omega
  · show h.maxVarIndex * 2 + 1 < 2 ^ 64; omega
  · show 1 ≤ h.maxVarIndex * 2 + 1; omega

/-! ### transitions of an exhausted section -/

theorem finish_zero {N} {α : Type} (next : St → PM (Option α × St))
    (hnone : ∀ s r, s.left = 0 → Steps N (next s) (none, s) r r) (s : St) (r : VBytes) (hl : s.left = 0) :
    Steps N (finish next s) s r r := by
  unfold finish
  rw [hl]
  unfold whileSome
  refine Steps.bind (Steps.bind (hnone s r hl) (Steps.pure _ _)) ?_
  exact Steps.pure _ _

/-! ### symbol table -/

theorem symAlt_zero {N} (c : UInt8) (ne : Bool) (r : VBytes) : Steps N (symAlt 0 c ne) none r r := by
  unfold symAlt
  simp only [Nat.lt_irrefl, ↓reduceIte]
  exact Steps.pure _ _

theorem symAlt_fall {N} (count : Nat) (c : UInt8) (ne : Bool) (r : VBytes) (h : r.head? ≠ some c) :
    Steps N (symAlt count c ne) none r r := by
  unfold symAlt
  split
  · cases ne with
    | true =>
      simp only [↓reduceIte]
      refine Steps.bind (fixedNotEol_fall c r h) ?_
      exact Steps.pure _ _
    | false =>
      simp only [Bool.false_eq_true, ↓reduceIte]
      refine Steps.bind (fixed_fall c r h) ?_
      exact Steps.pure _ _
  · exact Steps.pure _ _

/-- `c` followed by a newline is the comment header for every alternative. -/
theorem symAlt_comment {N} (count : Nat) (c : UInt8) (ne : Bool) (rest : VBytes)
    (h : c = 99 → ne = true) : Steps N (symAlt count c ne) none (99 :: 10 :: rest) (99 :: 10 :: rest) := by
  by_cases hc : c = 99
  · subst hc
    rw [h rfl]
    unfold symAlt
    split
    · simp only [↓reduceIte]
      refine Steps.bind (fixedNotEol_nl 99 rest) ?_
      exact Steps.pure _ _
    · exact Steps.pure _ _
  · exact symAlt_fall count c ne _ (by simp; exact fun h => hc h.symm)

theorem natDigits_head (n : Nat) : ∃ d t, Writer.natDigits n = d :: t ∧ isDigit d = true := by
  obtain ⟨_, hall, hne, _, _⟩ := Writer.digitsOf_spec n
  rw [Writer.natDigits_eq]
  cases hd : Writer.digitsOf n with
  | nil => exact absurd hd hne
  | cons d t => exact ⟨d, t, rfl, hall d (by rw [hd]; simp)⟩

theorem symAlt_hit {N} (count : Nat) (c : UInt8) (ne : Bool) (idx : Nat) (hidx : idx < count)
    (hc : count < 2 ^ 64) (rest : VBytes) :
    Steps N (symAlt count c ne) (some idx) (c :: (natText idx ++ 32 :: rest)) (32 :: rest) := by
  obtain ⟨d, t, hdt, hd⟩ := natDigits_head idx
  have hd10 : d ≠ 10 := by intro h; subst h; simp [isDigit] at hd
  unfold symAlt
  have hpos : count > 0 := by omega
  simp only [hpos, ↓reduceIte]
  refine Steps.bind (a := some ()) (r1 := natText idx ++ 32 :: rest) ?_ ?_
  · cases ne with
    | true =>
      simp only [↓reduceIte, natText, hdt, List.cons_append]
      exact fixedNotEol_steps c d _ hd10
    | false =>
      simp only [Bool.false_eq_true, ↓reduceIte]
      exact fixed_steps [c] _ (by simp)
  · simp only
    refine Steps.bind (checkedSub_steps _ _ _ _ (by omega)) ?_
    unfold symbolIndex
    have := headerField_steps (N := N) (count - 1) idx (by omega) (by omega) (32 :: rest) (ND.space _)
    exact Steps.bind this (Steps.pure _ _)

abbrev Alt := SymKind × Nat × UInt8 × Bool

theorem symTarget_fall {N} : ∀ (alts : List Alt) (r : VBytes), (∀ a ∈ alts, r.head? ≠ some a.2.2.1) →
    Steps N (symTarget alts) none r r := by
  intro alts
  induction alts with
  | nil => intro r _; unfold symTarget; exact Steps.pure _ _
  | cons a alts ih =>
    intro r h
    obtain ⟨k, count, c, ne⟩ := a
    unfold symTarget
    refine Steps.bind (symAlt_fall count c ne r (h (k, count, c, ne) (by simp))) ?_
    exact ih r (fun a ha => h a (by simp [ha]))

theorem symTarget_comment {N} : ∀ (alts : List Alt) (rest : VBytes),
    (∀ a ∈ alts, a.2.2.1 = 99 → a.2.2.2 = true) →
    Steps N (symTarget alts) none (99 :: 10 :: rest) (99 :: 10 :: rest) := by
  intro alts
  induction alts with
  | nil => intro r _; unfold symTarget; exact Steps.pure _ _
  | cons a alts ih =>
    intro rest h
    obtain ⟨k, count, c, ne⟩ := a
    unfold symTarget
    refine Steps.bind (symAlt_comment count c ne rest (h (k, count, c, ne) (by simp))) ?_
    exact ih rest (fun a ha => h a (by simp [ha]))

theorem symTarget_hit {N} (k : SymKind) (count : Nat) (c : UInt8) (ne : Bool) (post : List Alt)
    (idx : Nat) (hidx : idx < count) (hc : count < 2 ^ 64) (rest : VBytes) :
    ∀ (pre : List Alt), (∀ a ∈ pre, a.2.2.1 ≠ c) →
    Steps N (symTarget (pre ++ (k, count, c, ne) :: post)) (some (k, idx))
      (c :: (natText idx ++ 32 :: rest)) (32 :: rest) := by
  intro pre
  induction pre with
  | nil =>
    intro _
    simp only [List.nil_append]
    unfold symTarget
    refine Steps.bind (symAlt_hit count c ne idx hidx hc rest) ?_
    exact Steps.pure _ _
  | cons a pre ih =>
    intro h
    obtain ⟨k', count', c', ne'⟩ := a
    simp only [List.cons_append]
    unfold symTarget
    refine Steps.bind (symAlt_fall count' c' ne' _ ?_) ?_
    · have := h (k', count', c', ne') (by simp)
      simp only [List.head?_cons, ne_eq, Option.some.injEq]
      exact fun e => this e.symm
    · exact ih (fun a ha => h a (by simp [ha]))

/-- Where a kind sits in the prefix chain. -/
theorem symKinds_split (h : Header) (k : SymKind) :
    ∃ pre post ne, symKinds h = pre ++ (k, symCount h k, symPrefix k, ne) :: post ∧
      ∀ a ∈ pre, a.2.2.1 ≠ symPrefix k := by
  cases k
  · exact ⟨[], _, _, rfl, by simp⟩
  · exact ⟨[_], _, _, rfl, by simp [symPrefix]⟩
  · exact ⟨[_, _], _, _, rfl, by simp [symPrefix]⟩
  · exact ⟨[_, _, _], _, _, rfl, by simp [symPrefix]⟩
  · exact ⟨[_, _, _, _], _, _, rfl, by simp [symPrefix]⟩
  · exact ⟨[_, _, _, _, _], _, _, rfl, by simp [symPrefix]⟩
  · exact ⟨[_, _, _, _, _, _], _, _, rfl, by simp [symPrefix]⟩

/-- A symbol in the domain of the round trip. -/
def SymOk (h : Header) (sym : Symbol) : Prop :=
  sym.index < symCount h sym.kind ∧ sym.name.all (· != 10) = true ∧ validUtf8 sym.name = true

theorem symCount_lt (h : Header) (hsm : HeaderSmall h) (k : SymKind) : symCount h k < 2 ^ 64 := by
  cases k <;> exact hsm _ (by simp [headerFields, symCount])

/-- `next_symbol` reads back what `write_symbol` wrote. -/
theorem nextSymbol_steps {N} (p : Parser) (hsm : HeaderSmall p.header) (sym : Symbol)
    (hok : SymOk p.header sym) (rest : VBytes) :
    Steps N (nextSymbol p) (some sym) (writeSymbol sym ++ rest) rest := by
  obtain ⟨hidx, hn, hu⟩ := hok
  obtain ⟨pre, post, ne, hsplit, hpre⟩ := symKinds_split p.header sym.kind
  unfold nextSymbol writeSymbol
  rw [hsplit]
  simp only [List.cons_append, List.nil_append, List.append_assoc, List.singleton_append]
  refine Steps.bind (symTarget_hit sym.kind _ _ ne post sym.index hidx (symCount_lt _ hsm _) _ pre hpre) ?_
  simp only
  refine Steps.bind (requiredSpace_steps _) ?_
  refine Steps.bind (remainingLineContent_steps sym.name rest hn hu) ?_
  exact Steps.pure _ _

theorem symKinds_c (h : Header) : ∀ a ∈ symKinds h, a.2.2.1 = 99 → a.2.2.2 = true := by
  intro a ha
  simp only [symKinds, List.mem_cons, List.mem_nil_iff, or_false] at ha
  rcases ha with rfl | rfl | rfl | rfl | rfl | rfl | rfl <;> simp

/-- After the last symbol: the end of the file, or the comment header. -/
def TailStart (r : VBytes) : Prop := r = [] ∨ ∃ rest, r = 99 :: 10 :: rest

theorem nextSymbol_end {N} (p : Parser) (r : VBytes) (hr : TailStart r) :
    Steps N (nextSymbol p) none r r := by
  unfold nextSymbol
  rcases hr with rfl | ⟨rest, rfl⟩
  · refine Steps.bind (symTarget_fall _ [] (by simp)) ?_
    exact Steps.pure _ _
  · refine Steps.bind (symTarget_comment _ rest (symKinds_c p.header)) ?_
    exact Steps.pure _ _

/-- The symbol loop of `parse()`. -/
theorem symbolsLoop_steps {N} (p : Parser) (hsm : HeaderSmall p.header) (tail : VBytes)
    (ht : TailStart tail) :
    ∀ (syms : List Symbol) (acc : List Symbol) (fuel : Nat), syms.length < fuel →
      (∀ s ∈ syms, SymOk p.header s) →
      Steps N (whileSome (fun (_ : Unit) => do pure (← nextSymbol p, ())) fuel () acc)
        (acc.reverse ++ syms, ()) ((syms.map writeSymbol).flatten ++ tail) tail := by
  intro syms
  induction syms with
  | nil =>
    intro acc fuel hf _
    cases fuel with
    | zero => simp at hf
    | succ fuel =>
      unfold whileSome
      simp only [List.map_nil, List.flatten_nil, List.nil_append, List.append_nil]
      refine Steps.bind (Steps.bind (nextSymbol_end p tail ht) (Steps.pure _ _)) ?_
      exact Steps.pure _ _
  | cons x xs ih =>
    intro acc fuel hf hok
    cases fuel with
    | zero => simp at hf
    | succ fuel =>
      unfold whileSome
      simp only [List.map_cons, List.flatten_cons, List.append_assoc]
      refine Steps.bind (Steps.bind (nextSymbol_steps p hsm x (hok x (by simp)) _) (Steps.pure _ _)) ?_
      have := ih (x :: acc) fuel (by simp only [List.length_cons] at hf; omega)
        (fun s hs => hok s (by simp [hs]))
      simp only [List.reverse_cons, List.append_assoc, List.singleton_append] at this ⊢
      exact this

theorem writeSymbol_pos (s : Symbol) : 1 ≤ (writeSymbol s).length := by
  unfold writeSymbol; simp

theorem symbols_length (syms : List Symbol) : syms.length ≤ ((syms.map writeSymbol).flatten).length := by
  induction syms with
  | nil => simp
  | cons x xs ih =>
    simp only [List.length_cons, List.map_cons, List.flatten_cons, List.length_append]
    have := writeSymbol_pos x
    omega

/-! ### comment -/

theorem skipSymbols_end {N} (p : Parser) (r : VBytes) (hr : TailStart r) (fuel : Nat) (hf : 0 < fuel) :
    Steps N (skipSymbols p fuel) () r r := by
  cases fuel with
  | zero => omega
  | succ fuel =>
    unfold skipSymbols
    refine Steps.bind (nextSymbol_end p r hr) ?_
    simp only [Option.isSome_none, Bool.false_eq_true, ↓reduceIte]
    exact Steps.pure _ _

theorem tailStart_comment (c : Option VBytes) : TailStart (writeTail [] c) := by
  cases c with
  | none => exact Or.inl rfl
  | some c => exact Or.inr ⟨c ++ [10], by simp [writeTail, writeComment]⟩

/-- `comment()` reads back what `write_comment` wrote (or finds the end of the file). -/
theorem comment_steps {N} (p : Parser) (c : Option VBytes) (hc : ∀ x, c = some x → validUtf8 x = true) :
    Steps N (comment p) c (writeTail [] c) [] := by
  unfold comment
  refine Steps.get_bind ?_
  intro lr _
  refine Steps.bind (skipSymbols_end p _ (tailStart_comment c) _ (by omega)) ?_
  cases c with
  | none =>
    simp only [writeTail, List.map_nil, List.flatten_nil, List.nil_append]
    refine Steps.bind (fixed_fall 99 [] (by simp)) ?_
    simp only [Option.isSome_none, Bool.false_eq_true, ↓reduceIte]
    refine Steps.bind (Steps.orGiveUp eof_steps) ?_
    exact Steps.pure _ _
  | some x =>
    simp only [writeTail, writeComment, List.map_nil, List.flatten_nil, List.nil_append,
      List.cons_append, List.append_assoc]
    refine Steps.bind (fixed_steps [99] _ (by simp)) ?_
    simp only [Option.isSome_some, ↓reduceIte]
    refine Steps.bind (requiredNewline_steps _) ?_
    refine Steps.bind (remainingFileContent_steps x (hc x rfl)) ?_
    exact Steps.pure _ _

/-- The tail of `parse()`: symbol table and comment. -/
theorem parseTail_steps {N} (p : Parser) (hsm : HeaderSmall p.header) (syms : List Symbol)
    (c : Option VBytes) (hs : ∀ s ∈ syms, SymOk p.header s)
    (hc : ∀ x, c = some x → validUtf8 x = true) :
    Steps N (parseTail p) (syms, c) (writeTail syms c) [] := by
  unfold parseTail
  refine Steps.get_bind ?_
  intro lr hlr
  have hw : writeTail syms c = (syms.map writeSymbol).flatten ++ writeTail [] c := by
    unfold writeTail; simp
  rw [hw]
  have hfuel : syms.length < lr.v.rest.length + 2 := by
    rw [hlr, hw]
    have := symbols_length syms
    simp only [List.length_append]; omega
  have := symbolsLoop_steps (N := N) p hsm (writeTail [] c) (tailStart_comment c) syms [] _ hfuel hs
  simp only [List.reverse_nil, List.nil_append] at this
  refine Steps.bind this ?_
  simp only
  refine Steps.bind (comment_steps p c hc) ?_
  exact Steps.pure _ _

/-! ### transitions -/

theorem toLatches_zero {N} (s : St) (r : VBytes) (hl : s.left = 0) :
    Steps N (toLatches s) { s with left := s.p.header.latchCount } r r := by
  unfold toLatches
  refine Steps.bind (a := s) ?_ (Steps.pure _ _)
  cases s.p.bin with
  | true => simp only [↓reduceIte]; exact Steps.pure _ _
  | false =>
    simp only [Bool.false_eq_true, ↓reduceIte]
    exact finish_zero nextInput (fun s r hl => nextLit_none true s r hl) s r hl

theorem toOutputs_zero {N} (s : St) (r : VBytes) (hl : s.left = 0) :
    Steps N (toOutputs s) { s with left := s.p.header.outputCount } r r := by
  unfold toOutputs
  refine Steps.bind (a := s) ?_ (Steps.pure _ _)
  cases s.p.bin with
  | true =>
    simp only [↓reduceIte]
    exact finish_zero nextLatchBin (fun s r hl => nextLatchBin_none s r hl) s r hl
  | false =>
    simp only [Bool.false_eq_true, ↓reduceIte]
    exact finish_zero nextLatchAscii (fun s r hl => nextLatchAscii_none s r hl) s r hl

theorem finishLit_zero {N} (s : St) (r : VBytes) (hl : s.left = 0) :
    Steps N (finish (nextLit false) s) s r r :=
  finish_zero (nextLit false) (fun s r hl => nextLit_none false s r hl) s r hl

theorem toBad_zero {N} (s : St) (r : VBytes) (hl : s.left = 0) :
    Steps N (toBad s) { s with left := s.p.header.badCount } r r := by
  unfold toBad nextOutput
  exact Steps.bind (finishLit_zero s r hl) (Steps.pure _ _)

theorem toConstraints_zero {N} (s : St) (r : VBytes) (hl : s.left = 0) :
    Steps N (toConstraints s) { s with left := s.p.header.constraintCount } r r := by
  unfold toConstraints nextBad
  exact Steps.bind (finishLit_zero s r hl) (Steps.pure _ _)

theorem toJusticeSizes_zero {N} (s : St) (r : VBytes) (hl : s.left = 0) :
    Steps N (toJusticeSizes s) { s with left := s.p.header.justiceCount, total := 0 } r r := by
  unfold toJusticeSizes nextConstraint
  exact Steps.bind (finishLit_zero s r hl) (Steps.pure _ _)

theorem toJusticeLits_zero {N} (s : St) (r : VBytes) (hl : s.left = 0) :
    Steps N (toJusticeLits s) { s with left := s.total } r r := by
  unfold toJusticeLits
  exact Steps.bind (finish_zero nextJusticeSize (fun s r hl => nextJusticeSize_none s r hl) s r hl)
    (Steps.pure _ _)

theorem toFairness_zero {N} (s : St) (r : VBytes) (hl : s.left = 0) :
    Steps N (toFairness s) { s with left := s.p.header.fairnessCount } r r := by
  unfold toFairness nextJusticeLit
  exact Steps.bind (finishLit_zero s r hl) (Steps.pure _ _)

theorem toAndGates_zero {N} (s : St) (r : VBytes) (hl : s.left = 0) :
    Steps N (toAndGates s) { s with left := s.p.header.andGateCount } r r := by
  unfold toAndGates nextFairness
  exact Steps.bind (finishLit_zero s r hl) (Steps.pure _ _)

theorem toSymbols_zero {N} (s : St) (r : VBytes) (hl : s.left = 0) :
    Steps N (toSymbols s) s.p r r := by
  unfold toSymbols
  refine Steps.bind (a := s) ?_ (Steps.pure _ _)
  cases s.p.bin with
  | true =>
    simp only [↓reduceIte]
    exact finish_zero nextAndGateBin (fun s r hl => nextAndGateBin_none s r hl) s r hl
  | false =>
    simp only [Bool.false_eq_true, ↓reduceIte]
    exact finish_zero nextAndGateAscii (fun s r hl => nextAndGateAscii_none s r hl) s r hl

/-! ### the middle sections -/

theorem writeLits_flatten (j : List (List Nat)) : writeLits j.flatten = (j.map writeLits).flatten := by
  induction j with
  | nil => rfl
  | cons x xs ih =>
    simp only [List.flatten_cons, List.map_cons]
    rw [← ih]
    simp [writeLits]

/-- The middle sections of a circuit in the domain of the round trip. -/
structure MidWF (p : Parser) (o b c : List Nat) (j : List (List Nat)) (f : List Nat) : Prop where
  outputs : o.length = p.header.outputCount
  bad : b.length = p.header.badCount
  constraints : c.length = p.header.constraintCount
  justice : j.length = p.header.justiceCount
  fairness : f.length = p.header.fairnessCount
  lits : ∀ x ∈ o ++ b ++ c ++ j.flatten ++ f, x ≤ p.maxLit
  total : (j.map List.length).sum ≤ usizeMax

theorem parseMid_steps {N} (s : St) (hp : POk s.p) (hl : s.left = 0) (o b c : List Nat)
    (j : List (List Nat)) (f : List Nat) (hw : MidWF s.p o b c j f) (rest : VBytes) :
    Steps N (parseMid s)
      ({ outputs := o, bad := b, constraints := c, justice := j, fairness := f },
       { p := s.p, left := 0, total := (j.map List.length).sum })
      (writeMid o b c j f ++ rest) rest := by
  have hlit : ∀ (xs : List Nat), (∀ x ∈ xs, x ∈ o ++ b ++ c ++ j.flatten ++ f) →
      ∀ x ∈ xs, x ≤ s.p.maxLit ∧ (false = true → x % 2 = 0 ∧ 2 ≤ x) :=
    fun xs h x hx => ⟨hw.lits x (h x hx), fun h => by cases h⟩
  unfold parseMid writeMid
  simp only [List.append_assoc]
  refine Steps.bind (toOutputs_zero s _ hl) ?_
  refine Steps.bind (lits_steps false o ({ s with left := s.p.header.outputCount } : St) hp _
    (by simp [hw.outputs]) (hlit o (fun x hx => by simp [hx]))) ?_
  simp only
  refine Steps.bind (toBad_zero _ _ rfl) ?_
  refine Steps.bind (lits_steps false b ({ p := s.p, left := s.p.header.badCount, total := s.total } : St)
    hp _ (by simp [hw.bad]) (hlit b (fun x hx => by simp [hx]))) ?_
  simp only
  refine Steps.bind (toConstraints_zero _ _ rfl) ?_
  refine Steps.bind (lits_steps false c
    ({ p := s.p, left := s.p.header.constraintCount, total := s.total } : St)
    hp _ (by simp [hw.constraints]) (hlit c (fun x hx => by simp [hx]))) ?_
  simp only
  refine Steps.bind (toJusticeSizes_zero _ _ rfl) ?_
  refine Steps.bind (sizes_steps (j.map List.length)
    ({ p := s.p, left := s.p.header.justiceCount, total := 0 } : St) _ (by simp [hw.justice])
    (by simp only [Nat.zero_add]; exact hw.total)) ?_
  simp only [Nat.zero_add]
  refine Steps.bind (toJusticeLits_zero _ _ rfl) ?_
  simp only
  obtain ⟨final, hst, hfl, hlen⟩ := justiceLits_steps (N := N) (j.map List.length) j.flatten
    ({ p := s.p, left := (j.map List.length).sum, total := (j.map List.length).sum } : St)
    ((j.map List.length).map fun _ => []) 0 ((j.map List.length).sum + 1)
    (writeLits f ++ rest) hp (by simp [List.length_flatten]) (by simp [List.length_flatten])
    (jinv_init _) (fun k l _ hk => by
      simp only [List.getElem?_map] at hk
      cases hj : j[k]? with
      | none => rw [hj] at hk; simp at hk
      | some _ => rw [hj] at hk; simp at hk; exact hk)
    (fun x hx => hw.lits x (by simp [hx]))
  have hfinal : final = j := by
    apply eq_of_flatten_lengths
    · rw [hfl]
      have : (List.map (fun _ => ([] : List Nat)) (List.map List.length j)).flatten = [] := by
        rw [List.flatten_eq_nil_iff]; intro l hl; simp at hl; exact hl.2
      rw [this, List.nil_append]
    · exact hlen
  rw [hfinal, writeLits_flatten] at hst
  refine Steps.bind hst ?_
  simp only
  refine Steps.bind (toFairness_zero _ _ rfl) ?_
  refine Steps.bind (lits_steps false f
    ({ p := s.p, left := s.p.header.fairnessCount, total := (j.map List.length).sum } : St)
    hp _ (by simp [hw.fairness]) (hlit f (fun x hx => by simp [hx]))) ?_
  exact Steps.pure _ _

/-! ### whole ASCII files -/

/-- The header `write_aig` writes for a circuit. -/
def aigHeader (a : Aig) : Header :=
  { maxVarIndex := a.maxVarIndex, inputCount := a.inputs.length, latchCount := a.latches.length,
    outputCount := a.outputs.length, andGateCount := a.gates.length, badCount := a.bad.length,
    constraintCount := a.constraints.length, justiceCount := a.justice.length,
    fairnessCount := a.fairness.length }

/-- Domain of the ASCII round trip for literal type `l`. -/
structure WFaig (l : LitTy) (a : Aig) : Prop where
  bits : l.bits ≤ 64
  maxVar : 2 * a.maxVarIndex + 1 ≤ l.maxCode
  vars : a.inputs.length + a.latches.length + a.gates.length ≤ a.maxVarIndex
  inputs : ∀ x ∈ a.inputs, x ≤ 2 * a.maxVarIndex + 1 ∧ x % 2 = 0 ∧ 2 ≤ x
  latches : ∀ x ∈ a.latches, x.state ≤ 2 * a.maxVarIndex + 1 ∧ x.state % 2 = 0 ∧ 2 ≤ x.state ∧
    x.next ≤ 2 * a.maxVarIndex + 1
  lits : ∀ x ∈ a.outputs ++ a.bad ++ a.constraints ++ a.justice.flatten ++ a.fairness,
    x ≤ 2 * a.maxVarIndex + 1
  gates : ∀ g ∈ a.gates, g.out ≤ 2 * a.maxVarIndex + 1 ∧ g.out % 2 = 0 ∧ 2 ≤ g.out ∧
    g.in0 ≤ 2 * a.maxVarIndex + 1 ∧ g.in1 ≤ 2 * a.maxVarIndex + 1
  symbols : ∀ s ∈ a.symbols, SymOk (aigHeader a) s
  comment : ∀ c, a.comment = some c → validUtf8 c = true
  /-- every count is a `usize` (implied by `size`; kept as an explicit hypothesis) -/
  counts : HeaderSmall (aigHeader a)
  justiceTotal : (a.justice.map List.length).sum ≤ usizeMax
  /-- the file fits the `usize` arithmetic of the line bookkeeping -/
  size : (writeAig a).length < usizeMax

theorem WFaig.sane {l : LitTy} {a : Aig} (h : WFaig l a) : HeaderSane l (aigHeader a) := by
  have := h.maxVar
  exact ⟨by show a.maxVarIndex ≤ (l.maxCode - 1) / 2; omega, h.vars⟩

theorem parseAscii_steps {N} (l : LitTy) (a : Aig) (h : WFaig l a) :
    Steps N (parseAscii (parserOf false l (aigHeader a))) a
      (writeLits a.inputs ++ ((a.latches.map writeLatchAscii).flatten ++
        (writeMid a.outputs a.bad a.constraints a.justice a.fairness ++
          ((a.gates.map writeAndGateAscii).flatten ++ writeTail a.symbols a.comment)))) [] := by
  have hl1 : 1 ≤ l.maxCode := by have := h.maxVar; omega
  have hp : POk (parserOf false l (aigHeader a)) := parserOf_ok false l h.bits hl1 _ h.sane
  have hml : (parserOf false l (aigHeader a)).maxLit = a.maxVarIndex * 2 + 1 := rfl
  unfold parseAscii
  simp only
  refine Steps.bind (lits_steps true a.inputs (parserOf false l (aigHeader a)).inputs hp _ rfl
    (fun x hx => by
      obtain ⟨h1, h2, h3⟩ := h.inputs x hx
      exact ⟨by show x ≤ a.maxVarIndex * 2 + 1; omega, fun _ => ⟨h2, h3⟩⟩)) ?_
  simp only
  refine Steps.bind (toLatches_zero _ _ rfl) ?_
  refine Steps.bind (latchesAscii_steps a.latches
    ({ p := parserOf false l (aigHeader a), left := a.latches.length, total := 0 } : St) _ rfl
    (fun x hx => by
      obtain ⟨h1, h2, h3, h4⟩ := h.latches x hx
      exact ⟨hp, by show x.state ≤ a.maxVarIndex * 2 + 1; omega, h2, h3,
        by show x.next ≤ a.maxVarIndex * 2 + 1; omega⟩)) ?_
  simp only
  refine Steps.bind (parseMid_steps
    ({ p := parserOf false l (aigHeader a), left := 0, total := 0 } : St) hp rfl
    a.outputs a.bad a.constraints a.justice a.fairness
    ⟨rfl, rfl, rfl, rfl, rfl, fun x hx => by
      have := h.lits x hx; show x ≤ a.maxVarIndex * 2 + 1; omega, h.justiceTotal⟩ _) ?_
  simp only
  refine Steps.bind (toAndGates_zero _ _ rfl) ?_
  refine Steps.bind (gatesAscii_steps a.gates
    ({ p := parserOf false l (aigHeader a), left := a.gates.length,
       total := (a.justice.map List.length).sum } : St) _ rfl
    (fun g hg => by
      obtain ⟨h1, h2, h3, h4, h5⟩ := h.gates g hg
      exact ⟨hp, by show g.out ≤ a.maxVarIndex * 2 + 1; omega, h2, h3,
        by show g.in0 ≤ a.maxVarIndex * 2 + 1; omega, by show g.in1 ≤ a.maxVarIndex * 2 + 1; omega⟩)) ?_
  simp only
  refine Steps.bind (toSymbols_zero _ _ rfl) ?_
  refine Steps.bind (parseTail_steps (parserOf false l (aigHeader a)) h.counts a.symbols a.comment
    h.symbols h.comment) ?_
  simp only
  cases a
  exact Steps.pure _ _

/-- **`aag_roundtrip`** in `Steps` form. -/
theorem parseAag_steps {N} (l : LitTy) (a : Aig) (h : WFaig l a) :
    Steps N (parseAag l) a (writeAig a) [] := by
  have hl1 : 1 ≤ l.maxCode := by have := h.maxVar; omega
  unfold parseAag
  have hw : writeAig a = writeHeader false (aigHeader a) ++ (writeLits a.inputs ++
      ((a.latches.map writeLatchAscii).flatten ++
        (writeMid a.outputs a.bad a.constraints a.justice a.fairness ++
          ((a.gates.map writeAndGateAscii).flatten ++ writeTail a.symbols a.comment)))) := by
    unfold writeAig aigHeader
    simp only [List.append_assoc]
  rw [hw]
  refine Steps.bind (parserNew_steps false l h.bits hl1 (aigHeader a) h.sane h.counts _) ?_
  exact parseAscii_steps l a h

/-- The initial state of a parse of a healthy source is good. -/
theorem good_init (b : VBytes) (hb : b.length < usizeMax) : Good b.length (LR.init b false) :=
  ⟨hb, rfl, rfl, by simp [LR.init, View.init], by simp [LR.init, View.init]⟩

/-- **`aag_roundtrip`**: `ascii::Parser::parse` on what `ascii::Writer::write_aig` wrote for a
well-formed `Aig` returns that `Aig`, having consumed the whole file. -/
theorem aag_roundtrip (l : LitTy) (a : Aig) (h : WFaig l a) :
    ∃ lr', (parseAag l).run (LR.init (writeAig a) false) = (.ok a, lr') ∧ lr'.v.rest = [] := by
  obtain ⟨lr', hr, _, hrest⟩ := parseAag_steps (N := (writeAig a).length) l a h
    (LR.init (writeAig a) false) (good_init _ h.size) rfl
  exact ⟨lr', hr, hrest⟩

end Flussab.AigerRT
