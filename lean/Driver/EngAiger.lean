/-
Driver side of engine `aiger` (ASCII and binary AIGER): runs the View-level parser models on the
delivered bytes, item by item through the streaming section functions (or `parse()`), and prints
the same observation string as `harness/src/eng_aiger.rs`.  For data that the crate's own writer
produced (`w=1|2`) the writer model is run on the parsed value and compared with the data.
-/
import Flussab.Model.Aiger
import Driver.EngCnf
import Flussab.Model.AigerRun

namespace Driver
open Flussab Flussab.Aiger

namespace AigerEng

def parseTy (s : String) : LitTy :=
  if s == "u8" then ⟨8⟩ else if s == "u16" then ⟨16⟩ else if s == "u32" then ⟨32⟩ else ⟨64⟩

def showInit : Option Bool → String
  | some false => "0"
  | some true => "1"
  | none => "x"

def showHeader (h : Header) : String :=
  s!"H:{h.maxVarIndex}:{h.inputCount}:{h.latchCount}:{h.outputCount}:{h.andGateCount}:{h.badCount}:{h.constraintCount}:{h.justiceCount}:{h.fairnessCount}"

def kindChar : SymKind → String
  | .input => "i" | .output => "o" | .latch => "l" | .bad => "b"
  | .constraint => "c" | .justice => "j" | .fairness => "f"

def showSymbol (s : Symbol) : String := s!"S:{kindChar s.kind}{s.index}:{hex s.name}"

def showComment : Option VBytes → String
  | none => "K:none"
  | some c => s!"K:{hex c}"

/-- Driver state: the line reader, the items so far (reversed), and — for `ls=1` — the position of
the line source: `doff` bytes have been delivered, `dsuf` is the data from there on. -/
structure DS where
  lr : LR
  items : List String := []
  dsuf : VBytes := []
  doff : Nat := 0

/-- How items are annotated: `ls` (one line per read: every item carries `@<delivered>`) and the
reader's chunk size (`0` = no line is longer than a read request). -/
structure Ann where
  ls : Bool
  chunk : Nat
  /-- section transitions are observed as pseudo-items `T:<section>@<delivered>` (line sources) -/
  trans : Bool := false

/-- The line source hands out one line per read, a line longer than the chunk in chunk-sized pieces
(every read request of the reader has the size of the chunk).  From `i` delivered bytes (a piece
boundary, `pc` = bytes of the current piece so far) to the first boundary at or beyond `peeked`:
the reader performs one read per refill and refills only when a demanded byte is missing. -/
def deliveredGo (chunk peeked : Nat) : VBytes → Nat → Nat → VBytes × Nat
  | [], i, _ => ([], i)
  | b :: bs, i, pc =>
    if b == 10 || pc + 1 == chunk then
      if i + 1 ≥ peeked then (bs, i + 1) else deliveredGo chunk peeked bs (i + 1) 0
    else deliveredGo chunk peeked bs (i + 1) (pc + 1)

abbrev DM := ExceptT String (StateM DS)

/-- Run one model call; a model error ends the drive with its observation. -/
def step {α : Type} (act : PM α) : DM α := do
  let ds ← get
  match act.run ds.lr with
  | (.ok a, lr') => set { ds with lr := lr' }; pure a
  | (.error e, lr') => set { ds with lr := lr' }; throw (showPErr e)

def emit (at_ : Ann) (s : String) : DM Unit :=
  modify fun ds =>
    if at_.ls then
      -- `peeked` only grows, so the boundary found for the previous item is a lower bound
      let peeked := ds.lr.v.peeked
      let (suf, off) := if peeked ≤ ds.doff then (ds.dsuf, ds.doff)
                        else deliveredGo at_.chunk peeked ds.dsuf ds.doff 0
      { ds with items := (s ++ s!"@{off}") :: ds.items, dsuf := suf, doff := off }
    else { ds with items := s :: ds.items }

/-- `while let Some(x) = s.next()? { items.push(x) }`, at most `lim` items (second argument; the
first is fuel). -/
def drain {α : Type} (at_ : Ann) (next : St → PM (Option α × St)) (sh : α → String) :
    Nat → Nat → St → DM St
  | 0, _, _ => throw "E:panic"
  | _, 0, s => pure s
  | f + 1, lim + 1, s => do
    match ← step (next s) with
    | (some a, s') => emit at_ (sh a); drain at_ next sh f lim s'
    | (none, s') => pure s'

def drainSymbols (at_ : Ann) (p : Parser) : Nat → Nat → DM Unit
  | 0, _ => throw "E:panic"
  | _, 0 => pure ()
  | f + 1, lim + 1 => do
    match ← step (nextSymbol p) with
    | some s => emit at_ (showSymbol s); drainSymbols at_ p f lim
    | none => pure ()

/-- A section transition returned: the look-ahead ghost at that moment is observed like an item's
(`T:<section>@<delivered>`), for line sources only. -/
def emitT (at_ : Ann) (name : String) : DM Unit :=
  if at_.trans then emit at_ s!"T:{name}" else pure ()

/-- `mode=stream | skip | m<mask>[.<n>]`: how many items the driver takes from section `i`
(`none` = all; same table as `eng_aiger.rs::mode_limits`). -/
def modeLimit (mode : String) (i : Nat) : Option Nat :=
  if mode == "stream" then none
  else if mode == "skip" then (if i == 9 then none else some 0)
  else match mode.toList with
    | 'm' :: rest =>
      let (mask, n) := match (String.ofList rest).splitOn "." with
        | [a, b] => (a.toNat?.getD 0, b.toNat?)
        | [a] => (a.toNat?.getD 0, none)
        | _ => (0, some 0)
      if (mask >>> i) % 2 == 1 then n else some 0
    | _ => some 0

def midItems (o b c : List Nat) (j : List (List Nat)) (f : List Nat) : List String :=
  o.map (s!"O:{·}") ++ b.map (s!"B:{·}") ++ c.map (s!"C:{·}") ++ j.map (s!"JS:{·.length}") ++
    j.flatten.map (s!"J:{·}") ++ f.map (s!"F:{·}")

def aigItems (a : Aig) : List String :=
  [showHeader { maxVarIndex := a.maxVarIndex, inputCount := a.inputs.length, latchCount := a.latches.length,
                outputCount := a.outputs.length, andGateCount := a.gates.length, badCount := a.bad.length,
                constraintCount := a.constraints.length, justiceCount := a.justice.length,
                fairnessCount := a.fairness.length }] ++
    a.inputs.map (s!"I:{·}") ++
    a.latches.map (fun l => s!"L:{l.state}:{l.next}:{showInit l.init}") ++
    midItems a.outputs a.bad a.constraints a.justice a.fairness ++
    a.gates.map (fun g => s!"A:{g.out}:{g.in0}:{g.in1}") ++
    a.symbols.map showSymbol ++ [showComment a.comment]

def orderedItems (a : OrderedAig) : List String :=
  [showHeader (orderedHeader a)] ++
    a.latches.map (fun l => s!"L:{l.next}:{showInit l.init}") ++
    midItems a.outputs a.bad a.constraints a.justice a.fairness ++
    a.gates.map (fun g => s!"A:{g.in0}:{g.in1}") ++
    a.symbols.map showSymbol ++ [showComment a.comment]

/-- The whole drive through the streaming interface; `lim i` = number of items taken from section
`i` before the next transition is called (`none` = all of them). -/
def driveStream (bin : Bool) (l : LitTy) (lim : Nat → Option Nat) (at_ : Ann) : DM Unit := do
  let p ← step (Parser.new bin l)
  emit at_ (showHeader p.header)
  let dr {α : Type} (i : Nat) (next : St → PM (Option α × St)) (sh : α → String) (s : St) : DM St :=
    drain at_ next sh (s.left + 1) ((lim i).getD (s.left + 1)) s
  let s : St ← if bin then pure { p } else do
    let s := p.inputs
    emitT at_ "inputs"
    dr 0 nextInput (s!"I:{·}") s
  let s ← step (toLatches s)
  emitT at_ "latches"
  let s ← if bin then dr 1 nextLatchBin (fun l => s!"L:{l.next}:{showInit l.init}") s
          else dr 1 nextLatchAscii (fun l => s!"L:{l.state}:{l.next}:{showInit l.init}") s
  let s ← step (toOutputs s)
  emitT at_ "outputs"
  let s ← dr 2 nextOutput (s!"O:{·}") s
  let s ← step (toBad s)
  emitT at_ "bad"
  let s ← dr 3 nextBad (s!"B:{·}") s
  let s ← step (toConstraints s)
  emitT at_ "constraints"
  let s ← dr 4 nextConstraint (s!"C:{·}") s
  let s ← step (toJusticeSizes s)
  emitT at_ "justice"
  let s ← dr 5 nextJusticeSize (s!"JS:{·}") s
  let s ← step (toJusticeLits s)
  emitT at_ "jlits"
  let s ← dr 6 nextJusticeLit (s!"J:{·}") s
  let s ← step (toFairness s)
  emitT at_ "fairness"
  let s ← dr 7 nextFairness (s!"F:{·}") s
  let s ← step (toAndGates s)
  emitT at_ "gates"
  let s ← if bin then dr 8 nextAndGateBin (fun g => s!"A:{g.in0}:{g.in1}") s
          else dr 8 nextAndGateAscii (fun g => s!"A:{g.out}:{g.in0}:{g.in1}") s
  let p ← step (toSymbols s)
  emitT at_ "symbols"
  let fuel := (← get).lr.v.rest.length + 2
  drainSymbols at_ p fuel ((lim 9).getD fuel)
  let c ← step (comment p)
  emit at_ (showComment c)

def driveParse (bin : Bool) (l : LitTy) (at_ : Ann) : DM Unit := do
  if bin then
    let a ← step (parseAig l)
    emit at_ "P"
    (orderedItems a).forM (emit at_)
  else
    let a ← step (parseAag l)
    emit at_ "P"
    (aigItems a).forM (emit at_)

def hex16 (n : UInt64) : String :=
  String.ofList ((List.range 16).reverse.map fun i => hexDigit ((n.toNat / 16 ^ i) % 16))

def fnv (s : String) : UInt64 :=
  s.toUTF8.foldl (fun h b => (h ^^^ b.toUInt64) * 0x100000001b3) 0xcbf29ce484222325

/-- At most 200 bytes of an item (items are ASCII). -/
def clip (s : String) : String :=
  if s.utf8ByteSize ≤ 200 then s else s!"{s.take 200}..({s.utf8ByteSize} bytes)"

/-- The observation; longer than 64 KiB: `D:<items>:<bytes>:<fnv-1a 64>|<first>|<last>|<outcome>`
(same formula as `eng_aiger.rs::digest`). -/
def digest (items : List String) (fin : String) : String :=
  let text := "|".intercalate (items ++ [fin])
  if text.utf8ByteSize ≤ 65536 then text else
  let first := match items.head? with | some x => clip x | none => "-"
  let last := match items.getLast? with | some x => clip x | none => "-"
  s!"D:{items.length}:{text.utf8ByteSize}:{hex16 (fnv text)}|{first}|{last}|{fin}"

/-- `OrderedAig` that `ascii::write_ordered_aig` would have been given to produce `a`. -/
def toOrdered (a : Aig) : OrderedAig :=
  { maxVarIndex := a.maxVarIndex, inputCount := a.inputs.length,
    latches := a.latches.map fun l => { next := l.next, init := l.init },
    outputs := a.outputs, bad := a.bad, constraints := a.constraints, justice := a.justice,
    fairness := a.fairness, gates := a.gates.map fun g => { in0 := g.in0, in1 := g.in1 },
    symbols := a.symbols, comment := a.comment }

/-- Writer model against data written by the real writer: `""` = agrees. -/
def writerCheck (bin : Bool) (l : LitTy) (w : String) (data : VBytes) : String :=
  if w == "" then "" else
  let lr0 := LR.init data false
  if bin then
    match (parseAig l).run lr0 with
    | (.ok a, _) =>
      match writeOrderedAigBinary a with
      | .ok bs => if bs == data then "" else "|W:mismatch"
      | .error _ => "|W:panic"
    | _ => "|W:unparsed"
  else
    match (parseAag l).run lr0 with
    | (.ok a, _) =>
      let bs := if w == "2" then writeOrderedAigAscii l (toOrdered a) else writeAig a
      if bs == data then "" else "|W:mismatch"
    | _ => "|W:unparsed"

/-- Rendering of the items of `Model/AigerRun.lean` (the model-level twin of `driveStream` /
`driveParse` above, about which the C04 prefix theorems are stated). -/
def showItem : Item → String
  | .header h => showHeader h
  | .input c => s!"I:{c}"
  | .latch l => s!"L:{l.state}:{l.next}:{showInit l.init}"
  | .olatch l => s!"L:{l.next}:{showInit l.init}"
  | .output c => s!"O:{c}"
  | .bad c => s!"B:{c}"
  | .constraint c => s!"C:{c}"
  | .justiceSize n => s!"JS:{n}"
  | .justiceLit c => s!"J:{c}"
  | .fairness c => s!"F:{c}"
  | .gate g => s!"A:{g.out}:{g.in0}:{g.in1}"
  | .ogate g => s!"A:{g.in0}:{g.in1}"
  | .symbol s => showSymbol s
  | .comment c => showComment c
  | .parsed => "P"

/-- Tie of `Model/AigerRun.lean` to this driver (and through it to the implementation): on every
case without line annotations and of moderate size the twin must hand out the same items and end
the same way; otherwise the observation is marked and the correspondence breaks. -/
def runTwinCheck (bin : Bool) (l : LitTy) (mode : String) (data : VBytes) (fault : Bool)
    (items : List String) (fin : String) : String :=
  let r := if mode == "parse" then runParse bin l (LR.init data fault)
           else runStream bin l (mode == "stream") (LR.init data fault)
  let fin' := match r.final with | none => "END" | some e => showPErr e
  if r.items.map showItem == items && fin' == fin then "" else "|RUNTWIN:mismatch"

end AigerEng

open AigerEng in
def runAigerCase (line : String) : String × String :=
  let fs := fields line
  let fmtS := field fs "fmt"
  let bin := fmtS == "aig"
  let l := parseTy (field fs "ty")
  let mode := field fs "mode"
  let ls := field fs "ls" == "1"
  -- scale cases: `cut=<n>` keeps the first `n` bytes, `post=<data field>` is appended after the cut
  let post := if field fs "post" == "" then [] else dataFieldOnto (field fs "post") []
  let full := match (field fs "cut").toNat? with
    | some n => dataFieldTakeOnto (field fs "d") n post
    | none => dataFieldOnto (field fs "d") post
  let (data, fault) := match (field fs "k").toNat? with
    | some k => (full.take k, true)
    | none => (full, false)
  let at_ : Ann := { ls, chunk := fieldNat fs "c", trans := ls }
  let act := if mode == "parse" then driveParse bin l at_ else driveStream bin l (modeLimit mode) at_
  let (r, ds) := (act.run).run { lr := LR.init data fault, dsuf := data }
  let fin := match r with
    | .ok () => "END"
    | .error e => e
  let items := ds.items.reverse
  let wchk := if fin == "END" && !fault then writerCheck bin l (field fs "w") data else ""
  let nsyms := (items.filter (·.startsWith "S:")).length
  let ngates := (items.filter (·.startsWith "A:")).length
  let cmt := items.any (fun s => s.startsWith "K:" && !s.startsWith "K:none")
  -- the twin knows the three plain modes
  let plain := mode == "stream" || mode == "skip" || mode == "parse"
  let twin := if !ls && plain && data.length ≤ 65536 then runTwinCheck bin l mode data fault items fin else ""
  (digest items fin ++ wchk ++ twin,
   s!"twin={b2s (!ls && plain && data.length ≤ 65536)} fmt={fmtS} ty={field fs "ty"} mode={mode} items={items.length} gates={ngates} syms={nsyms} cmt={b2s cmt} fin={fin.take 5} fault={b2s fault} ls={b2s ls} w={field fs "w"}")

end Driver
