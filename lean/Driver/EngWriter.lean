/-
Driver side of engine `writer` (C11, C14 writer part).
-/
import Flussab.Model.Writer
import Driver.Util

namespace Driver
open Flussab

def genBytes (len seed : Nat) : WBytes :=
  (List.range len).map fun j => UInt8.ofNat ((seed * 31 + j * 7 + j / 256) % 256)

def fnv (bs : WBytes) : Nat :=
  bs.foldl (fun h b => ((h ^^^ b.toNat) * 0x100000001b3) % 18446744073709551616) 0xcbf29ce484222325

def hex16 (n : Nat) : String :=
  String.ofList ((List.range 16).reverse.map fun i => hexDigit ((n / 16 ^ i) % 16))

def parseWSched (s : String) : List WEv :=
  if s == "-" then [] else
  (s.splitOn ",").filterMap fun t =>
    match t.toList with
    | 'a' :: r => some (.accept ((String.ofList r).toNat?.getD 0))
    | 'i' :: _ => some .intr
    | 'z' :: _ => some .zero
    | 'f' :: _ => some .fail
    | 'p' :: _ => some .panic
    | _ => none

def parseInt (s : String) : Int :=
  match s.toList with
  | '-' :: r => -((String.ofList r).toNat?.getD 0 : Nat)
  | _ => (s.toNat?.getD 0 : Nat)

def parseTy (s : String) : Bool × Nat :=
  let signed := s.startsWith "i"
  let rest := String.ofList (s.toList.drop 1)
  (signed, if rest == "size" then 64 else rest.toNat?.getD 64)

def parseWOp (t : String) : Option Writer.Op :=
  match t.toList with
  | 'w' :: r | 'W' :: r =>
    match (String.ofList r).splitOn "." with
    | [l, s] => some (.write (genBytes (l.toNat?.getD 0) (s.toNat?.getD 0)))
    | _ => none
  | 'd' :: 'r' :: [] => some .drop
  | 'd' :: r =>
    match (String.ofList r).splitOn ":" with
    | [ty, v] => let (s, b) := parseTy ty; some (.digits s b (parseInt v))
    | _ => none
  | 'p' :: r =>
    match (String.ofList r).splitOn "." with
    | [l, bl, s] =>
      let len := l.toNat?.getD 0
      some (.ptr len (genBytes (min (bl.toNat?.getD 0) len) (s.toNat?.getD 0)))
    | _ => none
  | ['f', 'l'] => some .flush
  | ['f', 'd'] => some .flushDefer
  | ['c', 'k'] => some .check
  | _ => none

def showWRes (op : Writer.Op) : Option Bool → String
  | none => "panic"
  | some b => match op with
    | .ptr _ _ => if b then "ptr" else "null"
    | .flush | .check => if b then "err" else "ok"
    | _ => "ok"

def runWriterCase (line : String) : String × String :=
  let fs := fields line
  let w0 : Writer := { sink := { sched := parseWSched (field fs "s") } }
  let ops := if field fs "o" == "-" then [] else (field fs "o").splitOn ","
  let (outs, w, _, cold, maxbuf) := ops.foldl (fun (acc : List String × Writer × Bool × Nat × Nat) t =>
      let (outs, w, dropped, cold, maxbuf) := acc
      if dropped then acc else
      match parseWOp t with
      | none => (outs ++ ["bad-op"], w, dropped, cold, maxbuf)
      | some op =>
        let (res, w') := op.run w
        let isDrop := match op with | .drop => true | _ => false
        let wentCold := w'.sink.log.length != w.sink.log.length
        (outs ++ [showWRes op res], w', isDrop, if wentCold then cold + 1 else cold, max maxbuf w'.buf.length))
    ([], w0, false, 0, 0)
  let log := ",".intercalate (w.sink.log.map fun (a, b) => s!"{a}>{b}")
  (s!"{",".intercalate outs}|{log}|{w.sink.sunk.length}:{hex16 (fnv w.sink.sunk)}",
   s!"sinkcalls={w.sink.log.length} coldops={cold} err={b2s w.ioError} panicked={b2s w.panicked} full={b2s (maxbuf == w.cap)}")

end Driver
