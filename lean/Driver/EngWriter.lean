/-
Driver side of engine `writer` (C11, C14 writer part).
-/
import Flussab.Model.Writer
import Flussab.Model.WriterGenRun
import Driver.Util

namespace Driver
open Flussab

def genBytes (len seed : Nat) : WBytes :=
  (List.range len).map fun j => UInt8.ofNat ((seed * 31 + j * 7 + j / 256) % 256)

/-- FNV-1a, 64 bit (machine arithmetic: the sink contents of a scale case are several MiB). -/
def fnv (bs : WBytes) : Nat :=
  (bs.foldl (fun (h : UInt64) b => (h ^^^ b.toUInt64) * 0x100000001b3) 0xcbf29ce484222325).toNat

def hex16 (n : Nat) : String :=
  String.ofList ((List.range 16).reverse.map fun i => hexDigit ((n / 16 ^ i) % 16))

def parseWSched (s : String) : List WEv :=
  if s == "-" then [] else
  (s.splitOn ",").filterMap fun t =>
    match t.toList with
    | 'a' :: r => some (.accept ((String.ofList r).toNat?.getD 0))
    | 'i' :: _ => some .intr
    | 'z' :: _ => some .zero
    | 'f' :: _ => some .fail
    | 'p' :: _ => some .panic
    -- over-report (`Ok(len + 1)`, nothing taken): std's `write_all` panics at `&buf[n..]` — a panicking sink
    | 'o' :: _ => some .panic
    | _ => none

def parseInt (s : String) : Int :=
  match s.toList with
  | '-' :: r => -((String.ofList r).toNat?.getD 0 : Nat)
  | _ => (s.toNat?.getD 0 : Nat)

def parseTy (s : String) : Bool × Nat :=
  let signed := s.startsWith "i"
  let rest := String.ofList (s.toList.drop 1)
  (signed, if rest == "size" then 64 else rest.toNat?.getD 64)

/-- `k` is added to the data seed (iteration of a repeated op). -/
def parseWOpK (t : String) (k : Nat) : Option Writer.Op :=
  match t.toList with
  | 'w' :: r | 'W' :: r =>
    match (String.ofList r).splitOn "." with
    | [l, s] => some (.write (genBytes (l.toNat?.getD 0) (s.toNat?.getD 0 + k)))
    | _ => none
  | 'd' :: 'r' :: [] => some .drop
  -- the caller panics with the writer alive: the unwinding drops it (`Drop` is the same code)
  | ['u', 'd', 'r', 'o', 'p'] => some .drop
  | 'd' :: r =>
    match (String.ofList r).splitOn ":" with
    | [ty, v] => let (s, b) := parseTy ty; some (.digits s b (parseInt v))
    | _ => none
  | 'p' :: r =>
    match (String.ofList r).splitOn "." with
    | [l, bl, s] =>
      let len := l.toNat?.getD 0
      some (.ptr len (genBytes (min (bl.toNat?.getD 0) len) (s.toNat?.getD 0 + k)))
    | _ => none
  | ['f', 'l'] => some .flush
  | ['f', 'd'] => some .flushDefer
  | ['c', 'k'] => some .check
  | _ => none

def parseWOp (t : String) : Option Writer.Op := parseWOpK t 0

def isWriteLike : Writer.Op → Bool
  | .write _ | .digits _ _ _ | .ptr _ _ => true
  | _ => false

/-- `x<count>:<op>`: the count and the op text. -/
def parseRepeat (t : String) : Option (Nat × String) :=
  match t.toList with
  | 'x' :: r =>
    match (String.ofList r).splitOn ":" with
    | c :: rest@(_ :: _) =>
      let inner := ":".intercalate rest
      match parseWOpK inner 0 with
      | some op => if isWriteLike op then some (c.toNat?.getD 0, inner) else none
      | none => none
    | _ => none
  | _ => none

/-- Everything of a writer state an operation can change, as text. -/
def wSig (w : Writer) : String :=
  s!"{w.buf.length}/{fnv w.buf}/{w.cap}/{b2s w.ioError}{b2s w.panicked}/{w.sink.sched.length}/{w.sink.sunk.length}/{fnv w.sink.sunk}/{w.sink.log.length}"

/-- One op on the hand-written model and, next to it, on the model *generated from the Rust source*
(`TieWriter.genRun`, theorem `TieWriter.op_tied`): `false` = they differ in result or state. -/
def genAgrees (gen : Bool) (w : Writer) (op : Writer.Op) (res : Option Bool) (w' : Writer) : Bool :=
  if !gen then true else      -- `nogen=1`: the hand-written model alone (see `EngReader.runROp`)
  let (gres, gw') := TieWriter.genRun w op
  gres == res && wSig gw' == wSig w'

def showWRes (op : Writer.Op) : Option Bool → String
  | none => "panic"
  | some b => match op with
    | .ptr _ _ => if b then "ptr" else "null"
    | .flush | .check => if b then "err" else "ok"
    | _ => "ok"

/-- Run a repeated write-like op: results as runs (most recent first), final writer, number of
iterations that reached the sink, largest buffer length seen. -/
def runRepeat (gen : Bool) (inner : String) : Nat → Nat → Writer → List (String × Nat) → Nat → Nat →
    Writer × List (String × Nat) × Nat × Nat
  | 0, _, w, runs, cold, maxbuf => (w, runs, cold, maxbuf)
  | n + 1, k, w, runs, cold, maxbuf =>
    match parseWOpK inner k with
    | none => (w, runs, cold, maxbuf)
    | some op =>
      let (res, w') := op.run w
      let r := showWRes op res ++ (if genAgrees gen w op res w' then "" else "!GENERATED-MODEL-DIFFERS")
      let runs := match runs with
        | (last, c) :: rest => if last == r then (last, c + 1) :: rest else (r, 1) :: runs
        | [] => [(r, 1)]
      let cold := if w'.sink.log.length != w.sink.log.length then cold + 1 else cold
      runRepeat gen inner n (k + 1) w' runs cold (max maxbuf w'.buf.length)

def runWriterCase (line : String) : String × String :=
  let fs := fields line
  let gen := field fs "nogen" != "1"
  let w0 : Writer := { sink := { sched := parseWSched (field fs "s") } }
  let ops := if field fs "o" == "-" then [] else (field fs "o").splitOn ","
  let (outs, w, _, cold, maxbuf) := ops.foldl (fun (acc : List String × Writer × Bool × Nat × Nat) t =>
      let (outs, w, dropped, cold, maxbuf) := acc
      if dropped then acc else
      match parseRepeat t with
      | some (count, inner) =>
        let (w', runs, cold, maxbuf) := runRepeat gen inner count 0 w [] cold maxbuf
        let txt := if runs.isEmpty then "-" else "/".intercalate (runs.reverse.map fun (r, c) => s!"{r}*{c}")
        (outs ++ [txt], w', dropped, cold, maxbuf)
      | none =>
      match parseWOp t with
      | none => (outs ++ ["bad-op"], w, dropped, cold, maxbuf)
      | some op =>
        let (res, w') := op.run w
        let isDrop := match op with | .drop => true | _ => false
        let wentCold := w'.sink.log.length != w.sink.log.length
        let mark := if genAgrees gen w op res w' then "" else "!GENERATED-MODEL-DIFFERS"
        (outs ++ [showWRes op res ++ mark], w', isDrop, if wentCold then cold + 1 else cold, max maxbuf w'.buf.length))
    ([], w0, false, 0, 0)
  let log := ",".intercalate (w.sink.log.map fun (a, b) => s!"{a}>{b}")
  (s!"{",".intercalate outs}|{log}|{w.sink.sunk.length}:{hex16 (fnv w.sink.sunk)}",
   s!"sinkcalls={w.sink.log.length} coldops={cold} err={b2s w.ioError} panicked={b2s w.panicked} full={b2s (maxbuf == w.cap)}")

end Driver
