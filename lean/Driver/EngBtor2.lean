/-
Driver side of engine `btor2`: runs the View-level model of the BTOR2 line parser on the
delivered bytes and prints the same observation string as `harness/src/eng_btor2.rs`.
-/
import Flussab.Model.Btor2
import Driver.EngCnf

namespace Driver
open Flussab Flussab.Btor2

def b2str (bs : VBytes) : String := String.ofList (bs.map fun b => Char.ofNat b.toNat)

/-- FNV-1a 64 (as `eng_btor2.rs::fnv64_step`). -/
def b2fnvBytes (h : UInt64) (bs : VBytes) : UInt64 :=
  bs.foldl (fun h b => (h ^^^ b.toUInt64) * 0x100000001b3) h

def b2fnvStr (h : UInt64) (s : String) : UInt64 :=
  s.foldl (fun h c => (h ^^^ c.toNat.toUInt64) * 0x100000001b3) h

def b2fnvInit : UInt64 := 0xcbf29ce484222325

def b2hex16 (h : UInt64) : String :=
  String.ofList ((List.range 16).reverse.map fun i => hexDigit ((h.toNat / 16 ^ i) % 16))

/-- A byte field of an observation: hex up to 256 bytes, `#<len>:<fnv-1a 64 of the bytes>` beyond
(scale cases; same formula as `eng_btor2.rs::fhex`). -/
def b2fhex (bs : VBytes) : String :=
  if View.lengthGe bs 257 then s!"#{bs.length}:{b2hex16 (b2fnvBytes b2fnvInit bs)}" else hex bs

/-- The condition list of a justice line: comma-joined up to 256 conditions,
`#<n>:<fnv of the comma-joined text>` beyond. -/
def b2justice (ns : List Nat) : String :=
  if ns.isEmpty then "-"
  else if ns.length ≤ 256 then ",".intercalate (ns.map toString)
  else
    let h := (ns.foldl (fun (acc : UInt64 × Bool) n =>
      let h := if acc.2 then acc.1 else b2fnvStr acc.1 ","
      (b2fnvStr h (toString n), false)) (b2fnvInit, true)).1
    s!"#{ns.length}:{b2hex16 h}"

/-- Items and final outcome, `|`-joined; if the joined items exceed 65536 bytes they are replaced
by `#T<items>:<bytes>:<fnv of the joined items>` (as `eng_btor2.rs::join_obs`). -/
def b2joinObs (items : List String) (fin : String) : String :=
  let len := items.foldl (fun a s => a + s.utf8ByteSize) 0 + (items.length - 1)
  if len > 65536 then
    let h := (items.foldl (fun (acc : UInt64 × Bool) s =>
      let h := if acc.2 then acc.1 else b2fnvStr acc.1 "|"
      (b2fnvStr h s, false)) (b2fnvInit, true)).1
    s!"#T{items.length}:{len}:{b2hex16 h}|{fin}"
  else "|".intercalate (items ++ [fin])

def b2optHex : Option VBytes → String
  | some bs => b2fhex bs
  | none => "~"

def b2Variant : NodeVariant → String
  | .sort (.bitVec w) => s!"sort.bitvec.{w}"
  | .sort (.array d c) => s!"sort.array.{d}.{c}"
  | .value s (.const (.binary c)) => s!"val.{s}.const.{b2fhex c}"
  | .value s (.const (.decimal c)) => s!"val.{s}.constd.{b2fhex c}"
  | .value s (.const (.hex c)) => s!"val.{s}.consth.{b2fhex c}"
  | .value s (.const .one) => s!"val.{s}.one"
  | .value s (.const .ones) => s!"val.{s}.ones"
  | .value s (.const .zero) => s!"val.{s}.zero"
  | .value s .input => s!"val.{s}.input"
  | .value s .state => s!"val.{s}.state"
  | .value s (.op (.unary op a)) =>
    let name := b2str (Gen.Btor2.unaryOpName op)
    match op with
    | .uext w => s!"val.{s}.op.{name}.{a}.{w}"
    | .sext w => s!"val.{s}.op.{name}.{a}.{w}"
    | .slice u l => s!"val.{s}.op.{name}.{a}.{u}.{l}"
    | _ => s!"val.{s}.op.{name}.{a}"
  | .value s (.op (.binary op a0 a1)) => s!"val.{s}.op.{b2str (Gen.Btor2.binaryOpName op)}.{a0}.{a1}"
  | .value s (.op (.ternary op a0 a1 a2)) =>
    s!"val.{s}.op.{b2str (Gen.Btor2.ternaryOpName op)}.{a0}.{a1}.{a2}"
  | .assignment state sort kind value =>
    -- the kind as the keyword without its trailing space
    s!"{b2str (Gen.Btor2.assignmentKindKw kind).dropLast}.{sort}.{state}.{value}"
  | .output (.singleValue kind v) => s!"out.{b2str (Gen.Btor2.singleValueOutputKindKw kind).dropLast}.{v}"
  | .output (.justice ns) => "justice." ++ b2justice ns

def b2Line : Line → String
  | .comment c => s!"c:{b2fhex c}"
  | .node n => s!"n:{n.id}:{b2Variant n.variant}:{b2optHex n.symbol}:{b2optHex n.comment}"

/-- Length of the longest run of `a..z` in the input (which keyword-scanner steps a case needs). -/
def maxLowerRun (bs : VBytes) : Nat :=
  (bs.foldl (fun (acc : Nat × Nat) b =>
    if isLower b then (acc.1 + 1, max acc.2 (acc.1 + 1)) else (0, acc.2)) (0, 0)).2

/-- `v=<b|d|h>:<hex>`: the model of the `TryFrom<&str>` validators. -/
def runValidatorCase (v : String) : String × String :=
  let bytes := dataField (String.ofList (v.toList.drop 2))
  let ok := match v.toList.head? with
    | some 'b' => binaryConstOk bytes
    | some 'd' => decimalConstOk bytes
    | _ => hexConstOk bytes
  (s!"V:{b2s ok}", s!"valid={b2s ok} ty={String.ofList (v.toList.take 1)}")

/-- `lineDelivered` (Driver/EngCnf.lean) with a cursor, so that a document of many lines costs one
walk in total: `rest` = the data from offset `o` on, where `o` is 0 or a value returned before.
The look-ahead ghost only grows, so the end of the line that contains byte `peeked - 1` is `o`
itself if `peeked ≤ o`, and otherwise the first newline at or after `peeked - 1`, which lies at or
after `o`. -/
def b2LineDeliveredFrom (rest : VBytes) (o peeked : Nat) : VBytes × Nat :=
  if peeked ≤ o then (rest, o) else
  let rec go (r : VBytes) (i : Nat) : VBytes × Nat :=
    match r with
    | [] => ([], i)
    | b :: bs => if b == 10 && i + 1 ≥ peeked then (bs, i + 1) else go bs (i + 1)
  go rest o

/-- `|AGAIN:<outcome>` per re-call of `next_line` on the state the model is left in after the
final outcome (as `eng_btor2.rs`; `Driver.recalls` calls). -/
def b2Again : Nat → LR → String
  | 0, _ => ""
  | n + 1, lr =>
    match nextLine.run lr with
    | (.ok (some l), lr') => "|AGAIN:" ++ b2Line l ++ b2Again n lr'
    | (.ok none, lr') => "|AGAIN:END" ++ b2Again n lr'
    | (.error (.panic _), _) => "|AGAIN:E:panic"
    | (.error e, lr') => "|AGAIN:" ++ showPErr e ++ b2Again n lr'

def runBtor2Case (line : String) : String × String :=
  let fs := fields line
  if field fs "v" != "" then runValidatorCase (field fs "v") else
  let lsb := field fs "ls" == "2"   -- one byte per read
  let ls := field fs "ls" == "1" || lsb
  let full := dataField (field fs "d")
  let (data, fault) := match (field fs "k").toNat? with
    | some k => (full.take k, true)
    | none => (full, false)
  let lr0 := LR.init data fault
  -- drive line by line so that the look-ahead ghost can be reported per item; `cur` = cursor of
  -- `b2LineDeliveredFrom`
  let rec drive (fuel : Nat) (lr : LR) (cur : VBytes × Nat) (acc : List String) (cm sy : Nat) :
      List String × String × Nat × Nat :=
    match fuel with
    | 0 => (acc.reverse, "E:panic", cm, sy)
    | f + 1 =>
      match nextLine.run lr with
      | (.ok (some l), lr') =>
        let (c1, s1) := match l with
          | .comment _ => (1, 0)
          | .node n => ((if n.comment.isSome then 1 else 0), (if n.symbol.isSome then 1 else 0))
        let cur' := if lsb then (cur.1, min lr'.v.peeked data.length)
                    else if ls then b2LineDeliveredFrom cur.1 cur.2 lr'.v.peeked else cur
        let at_ := if ls then s!"@{cur'.2}" else ""
        drive f lr' cur' (s!"{b2Line l}{at_}" :: acc) (cm + c1) (sy + s1)
      | (.ok none, lr') => (acc.reverse, "END" ++ b2Again recalls lr', cm, sy)
      | (.error (.panic s), _) => (acc.reverse, showPErr (.panic s), cm, sy)
      | (.error e, lr') => (acc.reverse, showPErr e ++ b2Again recalls lr', cm, sy)
  let (items, fin, cm, sy) := drive (data.length + 2) lr0 (data, 0) [] 0 0
  (b2joinObs items fin,
   s!"lines={items.length} fin={fin.take 5} fault={b2s fault} ls={b2s ls} cmt={cm} sym={sy} maxkw={maxLowerRun data}")

end Driver
