/-
Driver side of engine `comb` (C15): the same concrete closures as `harness/src/eng_comb.rs`.
-/
import Flussab.Model.Parsed
import Driver.Util

namespace Driver
open Flussab

def showOpt : Option Nat → String
  | none => "None"
  | some v => s!"Some({v})"

def showP (p : Parsed String Nat) : String :=
  match p with
  | .fallthrough => "P:ft"
  | .ok v => s!"P:ok:{v}"
  | .err e => s!"P:err:{e}"

def showR (r : Except Nat String) : String :=
  match r with
  | .ok v => s!"R:ok:{v}"
  | .error e => s!"R:err:{e}"

def pIn (s : String) : Parsed Nat Nat :=
  if s == "ft" then .fallthrough else if s == "ok" then .ok 5 else .err 7

def rIn (s : String) : Except Nat Nat := if s == "ok" then .ok 5 else .error 7

def pStr (p : Parsed Nat Nat) : Parsed String Nat :=
  match p with | .ok v => .ok (toString v) | .err e => .err e | .fallthrough => .fallthrough

def rStr (r : Except Nat Nat) : Except Nat String :=
  match r with | .ok v => .ok (toString v) | .error e => .error e

def alsoF (b : String) (v : Nat) : Nat × Except Nat Unit :=
  let v' := v + 1000
  (v', if b == "ok" then .ok () else .error (v' + 200))

def runCombCase (line : String) : String × String :=
  let fs := fields line
  let k := field fs "k"
  let i := field fs "in"
  let b := field fs "b"
  let (shown, calls) : String × Nat :=
    if k == "or_parse" then
      let r := (pIn i).orParse (fun _ => if b == "ok" then .ok 105 else if b == "err" then .err 207 else .fallthrough)
      (showP (pStr r.1), r.2)
    else if k == "or_always_parse" then
      let r := (pIn i).orAlwaysParse (fun _ => if b == "ok" then .ok 105 else .error 207)
      (showR (rStr r.1), r.2)
    else if k == "or_give_up" then
      let r := (pIn i).orGiveUp (fun _ => 99)
      (showR (rStr r.1), r.2)
    else if k == "optional" then
      (showR (match (pIn i).optional with | .ok o => .ok (showOpt o) | .error e => .error e), 0)
    else if k == "matches" then
      (showR (match (pIn i).matches with | .ok o => .ok (toString o) | .error e => .error e), 0)
    else if k == "and_then" then
      let r := (pIn i).andThen (fun v => if b == "ok" then .ok (v + 100) else .error (v + 200))
      (showP (pStr r.1), r.2)
    else if k == "and_also" then
      let r := (pIn i).andAlso (alsoF b)
      (showP (pStr r.1), r.2)
    else if k == "and_do" then
      let r := (pIn i).andDo (· + 1000)
      (showP (pStr r.1), r.2)
    else if k == "map" then
      let r := (pIn i).map (· + 100)
      (showP (pStr r.1), r.2)
    else if k == "map_err" then
      let r := (pIn i).mapErr (· + 300)
      (showP (pStr r.1), r.2)
    else if k == "err_into" then
      let r := (pIn i).errInto id
      (showP (pStr r.1), 0)   -- `From::from` is not a counted closure
    else if k == "from_result" then
      (showP (pStr (Parsed.ofResult (rIn i))), 0)
    else if k == "r_err_into" then
      let r := ResultExt.errInto (rIn i) id
      (showR (rStr r.1), 0)
    else if k == "r_and_also" then
      let r := ResultExt.andAlso (rIn i) (alsoF b)
      (showR (rStr r.1), r.2)
    else if k == "r_and_do" then
      let r := ResultExt.andDo (rIn i) (· + 1000)
      (showR (rStr r.1), r.2)
    else ("bad-combinator", 0)
  -- `t=zst`: the zero-sized instantiation carries no data; the observation is the case and the call count
  let shown := if field fs "t" == "zst" then ":".intercalate ((shown.splitOn ":").take 2) else shown
  (s!"{shown}|{calls}", s!"k={k} in={i}")

end Driver
