/-
Driver side of engine `renumber` (C12): parses an AIG case line, runs `Flussab.Aig.renumberAig`
and prints the same observation string as `harness/src/eng_renumber.rs`.

Case line:
  renumber cfg=<trim><hash><fold> [ty=<u8|u16|u32|u64|usize>] inputs=<l,..|-> latches=<state:next:init,..|->
           gates=<out:in0:in1,..|-> outputs=<l,..|-> bad=.. constraints=.. justice=<l,..;l,..|-> (empty group = `e`)
           fairness=..     (`ty`: literal type of the implementation side; all codes fit it, the model is on `Nat`)
  renumber deep=<chain|cycle> n=<N>      (implementation-only stack-depth case; see `deepObs`)
  renumber cfg=.. ni=<N> nl=<N> ord=.. num=.. pol=.. gs=<gate segments> ln=.. outputs=.. ..   (scale case:
           generator spec, see `expandSpec`; the observation is a digest of the full one)
-/
import Flussab.Model.Aig
import Flussab.Model.AigStack
import Driver.Util

namespace Driver
open Flussab Flussab.Aig

def parseNats (s : String) : List Nat :=
  if s == "-" || s.isEmpty then [] else (s.splitOn ",").map fun t => t.toNat?.getD 0

def parseInit (s : String) : Option Bool :=
  if s == "0" then some false else if s == "1" then some true else none

def parseLatches (s : String) : List Latch :=
  if s == "-" || s.isEmpty then [] else
  (s.splitOn ",").map fun t =>
    match t.splitOn ":" with
    | [a, b, c] => { state := a.toNat?.getD 0, next := b.toNat?.getD 0, init := parseInit c }
    | _ => { state := 0, next := 0, init := none }

def parseGates (s : String) : List AndGate :=
  if s == "-" || s.isEmpty then [] else
  (s.splitOn ",").map fun t =>
    match t.splitOn ":" with
    | [o, a, b] => { out := o.toNat?.getD 0, in0 := a.toNat?.getD 0, in1 := b.toNat?.getD 0 }
    | _ => { out := 0, in0 := 0, in1 := 0 }

def parseJustice (s : String) : List (List Nat) :=
  if s == "-" || s.isEmpty then [] else
  (s.splitOn ";").map fun g => if g == "e" then [] else parseNats g

def parseCfg (s : String) : Config :=
  match s.toList with
  | [t, h, f] => { trim := t == '1', hash := h == '1', fold := f == '1' }
  | _ => { trim := false, hash := false, fold := false }

def showNats (l : List Nat) : String :=
  if l.isEmpty then "-" else ",".intercalate (l.map toString)

def showInit : Option Bool → String
  | none => "x"
  | some false => "0"
  | some true => "1"

def showJustice (j : List (List Nat)) : String :=
  if j.isEmpty then "-" else ";".intercalate (j.map fun g => if g.isEmpty then "e" else showNats g)

/-- Merge sort on keys, first occurrence wins (stable w.r.t. the newest-first traversal). -/
def mergeKV : Nat → List (Nat × Nat) → List (Nat × Nat) → List (Nat × Nat)
  | 0, a, b => a ++ b
  | _, [], b => b
  | _, a, [] => a
  | n + 1, x :: xs, y :: ys =>
    if x.1 < y.1 then x :: mergeKV n xs (y :: ys)
    else if y.1 < x.1 then y :: mergeKV n (x :: xs) ys
    else x :: mergeKV n xs ys   -- same key: left (newer) binding wins

def sortKV : Nat → List (Nat × Nat) → List (Nat × Nat)
  | 0, l => l
  | _, [] => []
  | _, [x] => [x]
  | n + 1, l =>
    let h := l.length / 2
    let a := sortKV n (l.take h)
    let b := sortKV n (l.drop h)
    mergeKV (a.length + b.length) a b

def sortedMap (m : LitMap) : List (Nat × Nat) := sortKV (m.length + 1) m

def showMap (m : LitMap) : String :=
  let s := sortedMap m
  if s.isEmpty then "-" else ",".intercalate (s.map fun (k, v) => s!"{k}:{v}")

def showOrdered (o : OrderedAig) : String :=
  let ls := if o.latches.isEmpty then "-" else
    ",".intercalate (o.latches.map fun l => s!"{l.next}:{showInit l.init}")
  let gs := if o.gates.isEmpty then "-" else
    ",".intercalate (o.gates.map fun g => s!"{g.in0}:{g.in1}")
  s!"M={o.maxVarIndex} I={o.inputCount} L={ls} O={showNats o.outputs} B={showNats o.bad} " ++
  s!"C={showNats o.constraints} J={showJustice o.justice} F={showNats o.fairness} A={gs}"

def showErr : Err → String
  | .alreadyDefined l => s!"err:LitAlreadyDefined:{l}"
  | .notDefined l => s!"err:LitNotDefined:{l}"
  | .foundCycle l => s!"err:FoundCycle:{l}"

def errKind : Err → String
  | .alreadyDefined _ => "dup"
  | .notDefined _ => "undef"
  | .foundCycle _ => "cycle"

/-- Branch accounting: replay the final `lit_map` in insertion order and classify every and-gate
key as emitted / folded / hashed (the entries never change once inserted). -/
def classify (cfg : Config) (a : Aig) (o : OrderedAig) (m : LitMap) : Nat × Nat × Nat :=
  let base := a.inputs.length + a.latches.length
  let gateOf (k : Nat) : Option AndGate :=
    a.gates.find? fun g => 2 * (g.out / 2) == k
  m.reverse.foldl (fun (acc : Nat × Nat × Nat) (kv : Nat × Nat) =>
    let (emitted, folded, hashed) := acc
    match gateOf kv.1 with
    | none => acc
    | some g =>
      let v := kv.2 ^^^ (g.out % 2)
      if v == 2 * (base + 1 + emitted) then (emitted + 1, folded, hashed)
      else
        let (x, y) := sort2 (mapLit m g.in0) (mapLit m g.in1)
        if cfg.fold && (foldGate x y).isSome then (emitted, folded + 1, hashed)
        else (emitted, folded, hashed + 1)) (0, 0, 0)
  |> fun r => if o.gates.length == r.1 then r else (o.gates.length, r.2.1, r.2.2)

/-- The deep cases exercise the *native stack* of the implementation (an explicit-stack DFS must
survive 10^5..10^6 levels); the association-list model is quadratic and is not run at that size.
The expected observation is determined by the shape alone. -/
def deepObs (shape : String) : String :=
  if shape == "chain" then "deep:ok" else "deep:err:FoundCycle"

/-! ### Scale cases: the circuit is described by a generator spec

The same expansion as `expand_spec` in `harness/src/eng_renumber.rs` (see the description of the
segment syntax there).  The `k` gate segment only occurs in `big=1` cases, which never get here. -/

namespace Rn

/-- splitmix64, as `common.rs::Rng`. -/
structure SRng where
  s : UInt64

def SRng.new (seed : Nat) : SRng :=
  ⟨((UInt64.ofNat seed) * 0x9E3779B97F4A7C15) ^^^ 0xD1B54A32D192ED03⟩

def SRng.next (r : SRng) : UInt64 × SRng :=
  let s := r.s + 0x9E3779B97F4A7C15
  let z := (s ^^^ (s >>> 30)) * 0xBF58476D1CE4E5B9
  let z := (z ^^^ (z >>> 27)) * 0x94D049BB133111EB
  (z ^^^ (z >>> 31), ⟨s⟩)

def segList (s : String) : List String :=
  if s == "-" || s.isEmpty then [] else s.splitOn "+"

/-- Kind letter and `.`-separated parameters of a segment. -/
def segParts (s : String) : Char × List String :=
  match s.toList with
  | c :: rest => (c, (String.ofList rest).splitOn ".")
  | [] => (' ', [])

def pNat (s : String) : Nat := s.toNat?.getD 0
def pInt (s : String) : Int := s.toInt?.getD 0

def specGateCount (gs : String) : Nat :=
  (segList gs).foldl (fun n seg =>
    match segParts seg with
    | ('x', _) => n + 1
    | ('c', c :: _) => n + pNat c
    | ('g', c :: _) => n + pNat c
    | ('p', [_, n1, _, n2]) => n + pNat n1 * pNat n2
    | ('k', c :: _) => n + 2 * pNat c
    | _ => n) 0

def pickSignal (r : UInt64) (s win : Nat) : Nat :=
  if s == 0 || (r >>> 60) == 0 then (r &&& 1).toNat else
  let w := if win == 0 || win > s then s else win
  let v := s - ((r >>> 1).toNat % w)
  2 * v + (r &&& 1).toNat

/-- State of the gate expansion: number of allocating gates, gates `(out, in0, in1)` so far. -/
abbrev GAcc := Nat × Array (Nat × Nat × Nat)

def gAlloc (base : Nat) (acc : GAcc) (a b : Nat) : GAcc :=
  (acc.1 + 1, acc.2.push (2 * (base + 1 + acc.1), a, b))

def expandGateSeg (base : Nat) (acc : GAcc) (seg : String) : GAcc :=
  match segParts seg with
  | ('x', [a, b]) => gAlloc base acc (pNat a) (pNat b)
  | ('c', [c, a0, da, b0, db]) =>
    let (a0, da, b0, db) := (pInt a0, pInt da, pInt b0, pInt db)
    (List.range (pNat c)).foldl (fun acc (i : Nat) =>
      gAlloc base acc (a0 + Int.ofNat i * da).toNat (b0 + Int.ofNat i * db).toNat) acc
  | ('p', [lo1, n1, lo2, n2]) =>
    let (lo1, n1, lo2, n2) := (pNat lo1, pNat n1, pNat lo2, pNat n2)
    (List.range n1).foldl (fun acc i =>
      (List.range n2).foldl (fun acc j => gAlloc base acc (lo1 + i) (lo2 + j)) acc) acc
  | ('g', [c, seed, win]) =>
    let win := pNat win
    ((List.range (pNat c)).foldl (fun (st : GAcc × SRng) _ =>
      let (acc, rng) := st
      let s := base + acc.1
      let (r1, rng) := rng.next
      let (r2, rng) := rng.next
      (gAlloc base acc (pickSignal r1 s win) (pickSignal r2 s win), rng)) (acc, SRng.new (pNat seed))).1
  | ('o', [o, a, b]) => (acc.1, acc.2.push (pNat o, pNat a, pNat b))
  | _ => acc

def expandGates (gs : String) (base : Nat) : Array (Nat × Nat × Nat) :=
  ((segList gs).foldl (expandGateSeg base) (0, #[])).2

def expandLits (s : String) (total : Nat) : List Nat :=
  ((segList s).foldl (fun (out : Array Nat) seg =>
    match segParts seg with
    | ('c', [c, start, step]) =>
      let (start, step) := (pInt start, pInt step)
      (List.range (pNat c)).foldl (fun out (i : Nat) => out.push (start + Int.ofNat i * step).toNat) out
    | ('g', [c, seed]) =>
      ((List.range (pNat c)).foldl (fun (st : Array Nat × SRng) _ =>
        let (r, rng) := st.2.next
        (st.1.push (r.toNat % (2 * total + 2)), rng)) (out, SRng.new (pNat seed))).1
    | _ => out.push (pNat seg)) #[]).toList

def canonToOrig (total : Nat) (num : Char) (pol : Nat) (c : Nat) : Nat :=
  let v := c / 2
  if v == 0 then c else
  let m :=
    if num == 'r' && v ≤ total then total + 1 - v
    else if num == 'h' then 3 * v + 1
    else if num == 'b' then 2147483648 - total / 2 + v
    else v
  let odd := if pol > 0 && v % pol == 0 then 1 else 0
  2 * m + ((c % 2) ^^^ odd)

/-- `common.rs::shuffle` (Fisher-Yates from the top). -/
def shuffleArr {α : Type} (seed : Nat) (v : Array α) : Array α :=
  ((List.range (v.size - 1)).foldl (fun (st : Array α × SRng) k =>
    let i := v.size - 1 - k
    let (r, rng) := st.2.next
    let j := r.toNat % (i + 1)
    (st.1.swapIfInBounds i j, rng)) (v, SRng.new seed)).1

def specInit (j : Nat) : Option Bool :=
  if j % 3 == 0 then none else if j % 3 == 1 then some false else some true

def expandSpec (fs : List (String × String)) : Config × Aig :=
  let cfg := parseCfg (field fs "cfg")
  let ni := fieldNat fs "ni"
  let nl := fieldNat fs "nl"
  let base := ni + nl
  let gs := field fs "gs"
  let total := base + specGateCount gs
  let num := (field fs "num").toList.headD 'i'
  let tr := canonToOrig total num (fieldNat fs "pol")
  let gates0 := expandGates gs base
  let ord := field fs "ord"
  let gates := match ord.toList with
    | 'r' :: _ => gates0.reverse
    | 's' :: sd => shuffleArr (pNat (String.ofList sd)) gates0
    | _ => gates0
  let lits (k : String) : List Nat := (expandLits (field fs k) total).map tr
  let next := (expandLits (field fs "ln") total).toArray
  let j := field fs "justice"
  (cfg, {
    inputs := (List.range ni).map fun i => tr (2 * (i + 1)),
    latches := (List.range nl).map fun k =>
      { state := tr (2 * (ni + 1 + k)), next := tr (next.getD k 0), init := specInit k },
    gates := gates.toList.map fun (o, a, b) => { out := tr o, in0 := tr a, in1 := tr b },
    outputs := lits "outputs", bad := lits "bad", constraints := lits "constraints",
    justice := if j == "-" || j.isEmpty then [] else
      (j.splitOn ";").map fun g => if g == "e" then [] else (expandLits g total).map tr,
    fairness := lits "fairness" })

def fnvStr (s : String) : UInt64 :=
  s.toUTF8.foldl (fun h b => (h ^^^ b.toUInt64) * 0x100000001b3) 0xcbf29ce484222325

def hex16 (n : UInt64) : String :=
  String.ofList ((List.range 16).reverse.map fun i => hexDigit ((n.toNat / 16 ^ i) % 16))

def runScaleCase (fs : List (String × String)) : String × String :=
  let (cfg, a) := expandSpec fs
  let cfgTag := s!"scale=1 trim={b2s cfg.trim} hash={b2s cfg.hash} fold={b2s cfg.fold}"
  match renumberStack cfg a with
  | .ok (o, m) =>
    let full := s!"ok {showOrdered o} map={showMap m}"
    let merged := m.length - 1 - a.inputs.length - a.latches.length - o.gates.length
    let what := if cfg.hash && cfg.fold then "merged" else if cfg.hash then "hashed" else "folded"
    (s!"ok M={o.maxVarIndex} I={o.inputCount} G={o.gates.length} #{full.utf8ByteSize}:{hex16 (fnvStr full)}",
     s!"{cfgTag} in={a.gates.length} gates={o.gates.length} {what}={merged} err=none")
  | .error e => (showErr e, s!"{cfgTag} in={a.gates.length} gates=0 err={errKind e}")
  | .outOfFuel => ("out-of-fuel", s!"{cfgTag} err=fuel")

end Rn

def runRenumberCase (line : String) : String × String :=
  let fs := fields line
  let deep := field fs "deep"
  if !deep.isEmpty then (deepObs deep, s!"deep={deep}") else
  if !(field fs "gs").isEmpty then Rn.runScaleCase fs else
  let cfg := parseCfg (field fs "cfg")
  let a : Aig := {
    inputs := parseNats (field fs "inputs"), latches := parseLatches (field fs "latches"),
    outputs := parseNats (field fs "outputs"), bad := parseNats (field fs "bad"),
    constraints := parseNats (field fs "constraints"), justice := parseJustice (field fs "justice"),
    fairness := parseNats (field fs "fairness"), gates := parseGates (field fs "gates") }
  -- `ty`: the literal type the implementation side instantiates (`usize` if absent); the model works
  -- on codes as numbers, every code of the case fits the type
  let ty := if (field fs "ty").isEmpty then "usize" else field fs "ty"
  let cfgTag := s!"trim={b2s cfg.trim} hash={b2s cfg.hash} fold={b2s cfg.fold} ty={ty}"
  match renumberStack cfg a with
  | .ok (o, m) =>
    let (e, f, h) := classify cfg a o m
    (s!"ok {showOrdered o} map={showMap m}",
     s!"{cfgTag} in={a.gates.length} gates={e} folded={f} hashed={h} err=none")
  | .error e => (showErr e, s!"{cfgTag} in={a.gates.length} gates=0 folded=0 hashed=0 err={errKind e}")
  | .outOfFuel => ("out-of-fuel", s!"{cfgTag} err=fuel")

end Driver
