/-
Driver side of engine `renumber` (C12): parses an AIG case line, runs `Flussab.Aig.renumberAig`
and prints the same observation string as `harness/src/eng_renumber.rs`.

Case line:
  renumber cfg=<trim><hash><fold> inputs=<l,..|-> latches=<state:next:init,..|-> gates=<out:in0:in1,..|->
           outputs=<l,..|-> bad=.. constraints=.. justice=<l,..;l,..|-> (empty group = `e`) fairness=..
  renumber deep=<chain|cycle> n=<N>      (implementation-only stack-depth case; see `deepObs`)
-/
import Flussab.Model.Aig
import Driver.Util

namespace Driver
open Flussab Flussab.Aig

def parseNats (s : String) : List Nat :=
  if s == "-" || s.isEmpty then [] else (s.splitOn ",").map fun t => t.toNat?.getD 0

def parseInit (s : String) : Option Bool :=
  if s == "0" then some false else if s == "1" then some true else none

def parseLatches (s : String) : List Latch :=
  if s == "-" || s.isEmpty then [] else
  (s.splitOn ",").map fun t =>
    match t.splitOn ":" with
    | [a, b, c] => { state := a.toNat?.getD 0, next := b.toNat?.getD 0, init := parseInit c }
    | _ => { state := 0, next := 0, init := none }

def parseGates (s : String) : List AndGate :=
  if s == "-" || s.isEmpty then [] else
  (s.splitOn ",").map fun t =>
    match t.splitOn ":" with
    | [o, a, b] => { out := o.toNat?.getD 0, in0 := a.toNat?.getD 0, in1 := b.toNat?.getD 0 }
    | _ => { out := 0, in0 := 0, in1 := 0 }

def parseJustice (s : String) : List (List Nat) :=
  if s == "-" || s.isEmpty then [] else
  (s.splitOn ";").map fun g => if g == "e" then [] else parseNats g

def parseCfg (s : String) : Config :=
  match s.toList with
  | [t, h, f] => { trim := t == '1', hash := h == '1', fold := f == '1' }
  | _ => { trim := false, hash := false, fold := false }

def showNats (l : List Nat) : String :=
  if l.isEmpty then "-" else ",".intercalate (l.map toString)

def showInit : Option Bool → String
  | none => "x"
  | some false => "0"
  | some true => "1"

def showJustice (j : List (List Nat)) : String :=
  if j.isEmpty then "-" else ";".intercalate (j.map fun g => if g.isEmpty then "e" else showNats g)

/-- Merge sort on keys, first occurrence wins (stable w.r.t. the newest-first traversal). -/
def mergeKV : Nat → List (Nat × Nat) → List (Nat × Nat) → List (Nat × Nat)
  | 0, a, b => a ++ b
  | _, [], b => b
  | _, a, [] => a
  | n + 1, x :: xs, y :: ys =>
    if x.1 < y.1 then x :: mergeKV n xs (y :: ys)
    else if y.1 < x.1 then y :: mergeKV n (x :: xs) ys
    else x :: mergeKV n xs ys   -- same key: left (newer) binding wins

def sortKV : Nat → List (Nat × Nat) → List (Nat × Nat)
  | 0, l => l
  | _, [] => []
  | _, [x] => [x]
  | n + 1, l =>
    let h := l.length / 2
    let a := sortKV n (l.take h)
    let b := sortKV n (l.drop h)
    mergeKV (a.length + b.length) a b

def sortedMap (m : LitMap) : List (Nat × Nat) := sortKV (m.length + 1) m

def showMap (m : LitMap) : String :=
  let s := sortedMap m
  if s.isEmpty then "-" else ",".intercalate (s.map fun (k, v) => s!"{k}:{v}")

def showOrdered (o : OrderedAig) : String :=
  let ls := if o.latches.isEmpty then "-" else
    ",".intercalate (o.latches.map fun l => s!"{l.next}:{showInit l.init}")
  let gs := if o.gates.isEmpty then "-" else
    ",".intercalate (o.gates.map fun g => s!"{g.in0}:{g.in1}")
  s!"M={o.maxVarIndex} I={o.inputCount} L={ls} O={showNats o.outputs} B={showNats o.bad} " ++
  s!"C={showNats o.constraints} J={showJustice o.justice} F={showNats o.fairness} A={gs}"

def showErr : Err → String
  | .alreadyDefined l => s!"err:LitAlreadyDefined:{l}"
  | .notDefined l => s!"err:LitNotDefined:{l}"
  | .foundCycle l => s!"err:FoundCycle:{l}"

def errKind : Err → String
  | .alreadyDefined _ => "dup"
  | .notDefined _ => "undef"
  | .foundCycle _ => "cycle"

/-- Branch accounting: replay the final `lit_map` in insertion order and classify every and-gate
key as emitted / folded / hashed (the entries never change once inserted). -/
def classify (cfg : Config) (a : Aig) (o : OrderedAig) (m : LitMap) : Nat × Nat × Nat :=
  let base := a.inputs.length + a.latches.length
  let gateOf (k : Nat) : Option AndGate :=
    a.gates.find? fun g => 2 * (g.out / 2) == k
  m.reverse.foldl (fun (acc : Nat × Nat × Nat) (kv : Nat × Nat) =>
    let (emitted, folded, hashed) := acc
    match gateOf kv.1 with
    | none => acc
    | some g =>
      let v := kv.2 ^^^ (g.out % 2)
      if v == 2 * (base + 1 + emitted) then (emitted + 1, folded, hashed)
      else
        let (x, y) := sort2 (mapLit m g.in0) (mapLit m g.in1)
        if cfg.fold && (foldGate x y).isSome then (emitted, folded + 1, hashed)
        else (emitted, folded, hashed + 1)) (0, 0, 0)
  |> fun r => if o.gates.length == r.1 then r else (o.gates.length, r.2.1, r.2.2)

/-- The deep cases exercise the *native stack* of the implementation (an explicit-stack DFS must
survive 10^5..10^6 levels); the association-list model is quadratic and is not run at that size.
The expected observation is determined by the shape alone. -/
def deepObs (shape : String) : String :=
  if shape == "chain" then "deep:ok" else "deep:err:FoundCycle"

def runRenumberCase (line : String) : String × String :=
  let fs := fields line
  let deep := field fs "deep"
  if !deep.isEmpty then (deepObs deep, s!"deep={deep}") else
  let cfg := parseCfg (field fs "cfg")
  let a : Aig := {
    inputs := parseNats (field fs "inputs"), latches := parseLatches (field fs "latches"),
    outputs := parseNats (field fs "outputs"), bad := parseNats (field fs "bad"),
    constraints := parseNats (field fs "constraints"), justice := parseJustice (field fs "justice"),
    fairness := parseNats (field fs "fairness"), gates := parseGates (field fs "gates") }
  let cfgTag := s!"trim={b2s cfg.trim} hash={b2s cfg.hash} fold={b2s cfg.fold}"
  match renumberAig cfg a with
  | .ok (o, m) =>
    let (e, f, h) := classify cfg a o m
    (s!"ok {showOrdered o} map={showMap m}",
     s!"{cfgTag} in={a.gates.length} gates={e} folded={f} hashed={h} err=none")
  | .error e => (showErr e, s!"{cfgTag} in={a.gates.length} gates=0 folded=0 hashed=0 err={errKind e}")
  | .outOfFuel => ("out-of-fuel", s!"{cfgTag} err=fuel")

end Driver
