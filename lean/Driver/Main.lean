/-
`driver`: reads case lines on stdin, prints `<observation>\t<branch tags>` per line.
-/
import Driver.EngReader
import Driver.EngComb
import Driver.EngScan
import Driver.EngWriter
import Driver.EngRenumber
import Driver.EngCnf
import Driver.EngAiger
import Driver.EngBtor2
import Driver.EngStream

open Driver

def runLine (line : String) : String × String :=
  match (line.splitOn " ").head? with
  | some "reader" => runReaderCase line
  | some "comb" => runCombCase line
  | some "scan" => runScanCase line
  | some "writer" => runWriterCase line
  | some "renumber" => runRenumberCase line
  | some "cnf" => runCnfCase line
  | some "aiger" => runAigerCase line
  | some "btor2" => runBtor2Case line
  | some "stream" => runStreamCase line
  | _ => ("unknown-engine", "")

partial def loop (nogen : Bool) (h : IO.FS.Stream) (out : IO.FS.Stream) : IO Unit := do
  let line ← h.getLine
  if line.isEmpty then return ()
  let line := String.ofList (line.toList.filter (fun c => c != '\n' && c != '\r'))
  if line.isEmpty || line.startsWith "#" then
    loop nogen h out
  else
    -- `big=1`: a document with so many items that only the implementation-side oracles run
    -- (the model's per-item fuel computation is quadratic there); both sides print `BIG`
    -- `DRIVER_NO_GEN`: do not execute the code generated from the Rust source next to the hand-written model
    let line := if nogen then line ++ " nogen=1" else line
    let (obs, tags) := if (line.splitOn " ").contains "big=1" then ("BIG", "big=1") else runLine line
    out.putStrLn s!"{obs}\t{tags}"
    loop nogen h out

def main : IO Unit := do
  let out ← IO.getStdout
  loop ((← IO.getEnv "DRIVER_NO_GEN").isSome) (← IO.getStdin) out
