/-
Driver side of engine `stream` (C10).  The input is generated on the fly by the harness and never
materialised, so the model side only predicts the observation from the case parameters (`n`
well-formed clauses ⇒ `n` items and a clean end — an instance of C07's `cnf_parse_render`); what
this engine contributes is the measured peak heap on the implementation side.
-/
import Driver.Util

namespace Driver

def runStreamCase (line : String) : String × String :=
  let fs := fields line
  let n := fieldNat fs "n"
  (s!"items={n}|END",
   s!"n={n} chunk={fieldNat fs "chunk"} read={fieldNat fs "read"} big={fieldNat fs "big"}")

end Driver
