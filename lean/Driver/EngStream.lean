/-
Driver side of engine `stream` (C10).  The input is generated on the fly by the harness and never
materialised, so the model side only predicts the observation from the case parameters (`n`
well-formed clauses ⇒ `n` items and a clean end — an instance of C07's `cnf_parse_render`); what
this engine contributes is the measured peak heap on the implementation side.  `fmt=aag|aig`: an
AIGER file with `n` section entries read through the streaming section API (the same prediction:
an instance of C03's round trip for the file the harness renders).
-/
import Driver.Util

namespace Driver

def runStreamCase (line : String) : String × String :=
  let fs := fields line
  let n := fieldNat fs "n"
  -- `lg=` is `big=` under a name that cannot be taken for the harness-wide flag `big=1`
  let big := if field fs "lg" == "" then fieldNat fs "big" else fieldNat fs "lg"
  (s!"items={n}|END",
   s!"fmt={field fs "fmt"} n={n} chunk={fieldNat fs "chunk"} read={fieldNat fs "read"} big={big}")

end Driver
