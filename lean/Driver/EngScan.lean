/-
Driver side of engine `scan` (C13, C16): the scanners of `Flussab.Text` on a view that has
`bl` bytes pre-demanded (the harness buffers that many before the call).
-/
import Flussab.Model.Text
import Flussab.Gen.TextGen
import Driver.Util

namespace Driver
open Flussab

def parseIntTy (s : String) : IntTy :=
  let signed := s.startsWith "i"
  let rest := String.ofList (s.toList.drop 1)
  let bits := if rest == "size" then 64 else rest.toNat?.getD 64
  { signed := signed, bits := bits }

def runScanCase (line : String) : String × String :=
  let fs := fields line
  let fn := field fs "fn"
  let ty := parseIntTy (field fs "ty")
  let data := dataField (field fs "d")
  let off := fieldNat fs "off"
  let bl := fieldNat fs "bl"
  let pat := dataField (field fs "p")
  let v0 := View.init data false
  let want := max (min bl data.length) 1
  let v0 := if bl > 0 then v0.demand (want - 1) else v0
  let buffered := if bl > 0 then min bl data.length else 0
  let fin (val : String) (o : Nat) (v : View) (tag : String) : String × String :=
    let delivered := max buffered (min (v.peeked - v.pos) data.length)
    (s!"{val}:{o}|{v.pos}|{delivered}", tag)
  let showV (o : Option Int) : String := match o with | none => "none" | some x => toString x
  -- the scanner *generated from text.rs* next to the hand-written one (theorems `Props/TieText`)
  let vSig (v : View) : String := s!"{v.pos}/{v.peeked}/{b2s v.sawEnd}{b2s v.ioErr}/{v.rest.length}"
  -- (the generated scanners ask the view for one offset at a time, which costs O(offset) on a list: they
  -- are only executed on inputs of at most 4 KiB; the `scale` cases are covered by the theorems)
  let small := decide (data.length ≤ 4096) && field fs "nogen" != "1"
  let agreeN (g : Unit → Option Nat × View) (o : Nat) (v : View) : String :=
    if !small then "" else
    let r := g ()
    if r.1 == some o && vSig r.2 == vSig v then "" else "!GENERATED-MODEL-DIFFERS"
  let agreeV (g : Unit → Option (Option Int × Nat) × View) (x : Option Int) (o : Nat) (v : View) : String :=
    if !small then "" else
    let r := g ()
    if r.1 == some (x, o) && vSig r.2 == vSig v then "" else "!GENERATED-MODEL-DIFFERS"
  if fn == "blanks" then let (o, v) := Text.tabsOrSpaces v0 off; fin ("-" ++ agreeN (fun _ => Gen.Text.tabsOrSpaces off v0) o v) o v s!"fn={fn} moved={b2s (o != off)}"
  else if fn == "newline" then let (o, v) := Text.newline v0 off; fin ("-" ++ agreeN (fun _ => Gen.Text.newline off v0) o v) o v s!"fn={fn} moved={o - off}"
  else if fn == "next_newline" then let (o, v) := Text.nextNewline v0 off; fin ("-" ++ agreeN (fun _ => Gen.Text.nextNewline off v0) o v) o v s!"fn={fn} moved={b2s (o != off)}"
  else if fn == "fixed" then let (o, v) := Text.fixed v0 off pat; fin ("-" ++ agreeN (fun _ => Gen.Text.fixed off pat v0) o v) o v s!"fn={fn} moved={b2s (o != off)}"
  else if fn == "digits" then
    let ((x, o), v) := Text.asciiDigits ty v0 off; fin (showV x ++ agreeV (fun _ => Gen.Text.asciiDigits ty off v0) x o v) o v s!"fn={fn} ovf={b2s x.isNone} run={o - off}"
  else if fn == "sdigits" then
    let ((x, o), v) := Text.signedAsciiDigits ty v0 off; fin (showV x ++ agreeV (fun _ => Gen.Text.signedAsciiDigits ty off v0) x o v) o v s!"fn={fn} ovf={b2s x.isNone} run={o - off}"
  else if fn == "digits_multi" then
    let ((x, o), v) := Text.asciiDigitsMulti ty v0 off buffered
    fin (showV x ++ agreeV (fun _ => Gen.Text.asciiDigitsMulti ty buffered off v0) x o v) o v s!"fn={fn} ovf={b2s x.isNone} run={o - off} fast={b2s (decide (off + 8 ≤ buffered))}"
  else if fn == "sdigits_multi" then
    let ((x, o), v) := Text.signedAsciiDigitsMulti ty v0 off buffered
    fin (showV x ++ agreeV (fun _ => Gen.Text.signedAsciiDigitsMulti ty buffered off v0) x o v) o v s!"fn={fn} ovf={b2s x.isNone} run={o - off} fast={b2s (decide (off + 8 ≤ buffered))}"
  else ("bad-fn", "")

end Driver
