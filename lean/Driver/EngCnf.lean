/-
Driver side of engine `cnf` (DIMACS family + solver log): runs the View-level parser models on
the delivered bytes and prints the same observation string as `harness/src/eng_cnf.rs`.
-/
import Flussab.Model.Cnf
import Driver.Util

namespace Driver
open Flussab Flussab.Cnf

def showPErr : PErr → String
  | .io => "E:io"
  | .syn l c => s!"E:syn:{l}:{c}"
  | .panic _ => "E:panic"

def showLits (ls : List Int) : String :=
  if ls.isEmpty then "-" else ",".intercalate (ls.map toString)

def parseLitTy (s : String) : LitTy :=
  if s == "i8" then ⟨8⟩ else if s == "i16" then ⟨16⟩ else if s == "i32" then ⟨32⟩ else ⟨64⟩

/-- Bytes a one-line-per-read source has delivered once absolute offsets `< peeked` were demanded:
the end of the line containing byte `peeked - 1` (everything if there is no further newline). -/
def lineDelivered (data : VBytes) (peeked : Nat) : Nat :=
  if peeked == 0 then 0 else
  let rec go (rest : VBytes) (i : Nat) : Nat :=
    match rest with
    | [] => i
    | b :: bs => if b == 10 && i + 1 ≥ peeked then i + 1 else go bs (i + 1)
  min (go data 0) data.length

/-- Incremental `lineDelivered` for a non-decreasing sequence of `peeked` values: the cursor is
(the data from offset `d` on, `d`) with `d` the previous answer (`(data, 0)` at the start).  While
`peeked ≤ d` the demanded byte lies in the line that ends at `d`; otherwise the scan resumes at
`d`.  One pass over the data for all items of a case. -/
def lineDeliveredFrom (cur : VBytes × Nat) (peeked : Nat) : VBytes × Nat :=
  if peeked ≤ cur.2 then cur else
  let rec go (rest : VBytes) (i : Nat) : VBytes × Nat :=
    match rest with
    | [] => ([], i)
    | b :: bs => if b == 10 && i + 1 ≥ peeked then (bs, i + 1) else go bs (i + 1)
  go cur.1 cur.2

def showHeader (fmt : Format) : Option Header → String
  | none => "H:-"
  | some h => match fmt with
    | .cnf => s!"H:{h.varCount}:{h.clauseCount}"
    | _ => s!"H:{h.varCount}:{h.clauseCount}:{h.extra}"

/-- FNV-1a 64 of a text (same formula as `eng_cnf.rs::fnv_hex`). -/
def cnfFnv (s : String) : UInt64 :=
  s.toUTF8.foldl (fun h b => (h ^^^ b.toUInt64) * 0x100000001b3) 0xcbf29ce484222325

def cnfFnvHex (s : String) : String :=
  let n := (cnfFnv s).toNat
  String.ofList ((List.range 16).reverse.map fun i => hexDigit ((n / 16 ^ i) % 16))

/-- An item of more than 512 bytes: first 16 bytes, `~<len>:<fnv>` (as `eng_cnf.rs::short_item`). -/
def shortItem (s : String) : String :=
  if s.utf8ByteSize ≤ 512 then s
  else String.ofList (s.toList.take 16) ++ s!"~{s.utf8ByteSize}:{cnfFnvHex s}"

/-- `eng_cnf.rs::join_obs`: a text of more than 32768 bytes is replaced by a digest. -/
def joinObs (items : List String) (fin : String) : String :=
  let t := "|".intercalate (items ++ [fin])
  if t.utf8ByteSize ≤ 32768 then t
  else s!"D{items.length}:{t.utf8ByteSize}:{cnfFnvHex t}|{fin}"

/-- How often the item function is called again after its final outcome (`eng_cnf.rs::RECALLS`). -/
def recalls : Nat := 2

def showSat : Option Bool → String
  | some true => "sat" | some false => "unsat" | none => "none"

/-- `|AGAIN:<outcome>` per re-call of `next_clause` on the state the model is left in after the
final outcome (the monad keeps the reader state of a failed call; the parser record of a failed
call is the one it started with — `clause_count` only changes when a clause is returned). -/
def cnfAgain : Nat → Parser → LR → String
  | 0, _, _ => ""
  | n + 1, p, lr =>
    match (p.nextClause).run lr with
    | (.ok (some c, p'), lr') => "|AGAIN:" ++ shortItem s!"C:{c.tag}:{showLits c.lits}" ++ cnfAgain n p' lr'
    | (.ok (none, p'), lr') => "|AGAIN:END" ++ cnfAgain n p' lr'
    | (.error (.panic _), _) => "|AGAIN:E:panic"
    | (.error e, lr') => "|AGAIN:" ++ showPErr e ++ cnfAgain n p lr'

/-- The same for `parse_log` called again on the same `LineReader`. -/
def logAgain (l : LitTy) (cfg : Bool) : Nat → LR → String
  | 0, _ => ""
  | n + 1, lr =>
    match (parseLog l cfg).run lr with
    | (.ok log, lr') =>
      "|AGAIN:" ++ shortItem s!"L:{showSat log.satisfiable}:{showLits log.assignment}" ++ logAgain l cfg n lr'
    | (.error (.panic _), _) => "|AGAIN:E:panic"
    | (.error e, lr') => "|AGAIN:" ++ showPErr e ++ logAgain l cfg n lr'

def runCnfCase (line : String) : String × String :=
  let fs := fields line
  let fmtS := field fs "fmt"
  let l := parseLitTy (field fs "ty")
  let cfg := field fs "cfg" == "1"
  let lsb := field fs "ls" == "2"     -- one byte per read: delivered = how far the parser looked
  let ls := field fs "ls" == "1" || lsb
  let full := dataField (field fs "d")
  let (data, fault) := match (field fs "k").toNat? with
    | some k => (full.take k, true)
    | none => (full, false)
  let lr0 := LR.init data fault
  -- `@<delivered>` of a one-line-per-read source, with the cursor of `lineDeliveredFrom`
  let at_ (cur : VBytes × Nat) (lr : LR) : String × (VBytes × Nat) :=
    if lsb then (s!"@{min lr.v.peeked data.length}", cur)
    else if ls then
      let cur' := lineDeliveredFrom cur lr.v.peeked
      (s!"@{cur'.2}", cur')
    else ("", cur)
  if fmtS == "log" then
    match (parseLog l cfg).run lr0 with
    | (.ok log, lr) =>
      let s := showSat log.satisfiable
      let a := (at_ (data, 0) lr).1
      (joinObs [s!"S:{s}{a}", shortItem s!"A:{showLits log.assignment}" ++ a] "END" ++ logAgain l cfg recalls lr,
       s!"fmt=log ok=1 lits={log.assignment.length}")
    | (.error (.panic s), _) => (showPErr (.panic s), s!"fmt=log err=E:panic")
    | (.error e, lr) => (showPErr e ++ logAgain l cfg recalls lr, s!"fmt=log err={showPErr e}")
  else
    let fmt := if fmtS == "wcnf" then Format.wcnf else if fmtS == "gcnf" then Format.gcnf else Format.cnf
    match (Parser.new fmt l cfg).run lr0 with
    | (.error e, _) => (showPErr e, s!"fmt={fmtS} hdrerr=1")
    | (.ok p, lr1) =>
      let (hdrAt, cur1) := at_ (data, 0) lr1
      -- drive clause by clause so that the look-ahead ghost can be reported per item
      -- returns the items, the final outcome and the re-calls made on the state left behind
      let rec drive (fuel : Nat) (p : Parser) (lr : LR) (cur : VBytes × Nat) (acc : List String) : List String × String × String :=
        match fuel with
        | 0 => (acc.reverse, "E:panic", "")
        | f + 1 =>
          match (p.nextClause).run lr with
          | (.ok (some c, p'), lr') =>
            let (a, cur') := at_ cur lr'
            drive f p' lr' cur' ((shortItem s!"C:{c.tag}:{showLits c.lits}" ++ a) :: acc)
          | (.ok (none, p'), lr') => (acc.reverse, "END", cnfAgain recalls p' lr')
          | (.error (.panic s), _) => (acc.reverse, showPErr (.panic s), "")
          | (.error e, lr') => (acc.reverse, showPErr e, cnfAgain recalls p lr')
      let (items, fin, again) := drive (data.length + 2) p lr1 cur1 []
      let hdr := showHeader fmt p.header ++ hdrAt
      (joinObs (hdr :: items) fin ++ again,
       s!"fmt={fmtS} hdr={b2s p.header.isSome} clauses={items.length} fin={fin.take 5} fault={b2s fault} multiline={b2s (decide (items.length + 2 < (data.filter (· == 10)).length))}")

end Driver
