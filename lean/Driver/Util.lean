/-
Line-protocol helpers for the model driver (no Mathlib; linked into the `driver` executable).
-/
import Flussab.Model.Source

namespace Driver
open Flussab

def hexDigit (n : Nat) : Char :=
  if n < 10 then Char.ofNat (48 + n) else Char.ofNat (87 + n)

def hex (bs : Bytes) : String :=
  if bs.isEmpty then "-" else
  String.ofList (bs.foldr (fun b acc => hexDigit (b.toNat / 16) :: hexDigit (b.toNat % 16) :: acc) [])

def hexVal (c : Char) : Nat :=
  if c.toNat ≥ 97 then c.toNat - 87 else if c.toNat ≥ 65 then c.toNat - 55 else c.toNat - 48

def unhexList : List Char → Bytes
  | a :: b :: rest => UInt8.ofNat (hexVal a * 16 + hexVal b) :: unhexList rest
  | _ => []

def unhex (s : String) : Bytes :=
  if s == "-" then [] else unhexList s.toList

def decBytes (k : Nat) : Bytes := (toString k).toList.map fun c => UInt8.ofNat c.toNat

/-- One segment of a data field (same syntax as `common.rs::data_field`):
hex | `-` | `g<len>.<seed>` | `r<count>.<hex>` | `n<count>.<start>.<step>.<pre>.<suf>`. -/
def dataSeg (s : String) : Bytes :=
  match s.toList with
  | 'g' :: r =>
    match (String.ofList r).splitOn "." with
    | [l, sd] =>
      let len := l.toNat?.getD 0
      let seed := sd.toNat?.getD 0
      (List.range len).map fun j => UInt8.ofNat ((seed * 31 + j * 7 + j / 256) % 256)
    | _ => []
  | 'r' :: r =>
    match (String.ofList r).splitOn "." with
    | [c, h] => (List.replicate (c.toNat?.getD 0) (unhex h)).flatten
    | _ => []
  | 'n' :: r =>
    match (String.ofList r).splitOn "." with
    | [c, st, sp, pre, suf] =>
      let start := st.toNat?.getD 0
      let step := sp.toNat?.getD 0
      let p := unhex pre
      let q := unhex suf
      ((List.range (c.toNat?.getD 0)).map fun i => p ++ decBytes (start + i * step) ++ q).flatten
    | _ => []
  | _ => unhex s

/-- A data field: `+`-joined segments. -/
def dataField (s : String) : Bytes :=
  ((s.splitOn "+").map dataSeg).flatten

/-- `key=value` fields of a case line. -/
def fields (line : String) : List (String × String) :=
  (line.splitOn " ").filterMap fun t =>
    if t.isEmpty then none else
    match t.splitOn "=" with
    | [k] => some (k, "")
    | k :: rest => some (k, "=".intercalate rest)
    | [] => none

def field (fs : List (String × String)) (k : String) : String :=
  match fs.find? (·.1 == k) with
  | some (_, v) => v
  | none => ""

def fieldNat (fs : List (String × String)) (k : String) : Nat :=
  (field fs k).toNat?.getD 0

def parseSched (s : String) : List Ev :=
  if s == "-" then [] else
  (s.splitOn ",").filterMap fun t =>
    match t.toList with
    | 'g' :: r => some (.give ((String.ofList r).toNat?.getD 0))
    | 'i' :: _ => some .intr
    | 'l' :: r => some (.lie ((String.ofList r).toNat?.getD 0))
    | _ => none

def b2s (b : Bool) : String := if b then "1" else "0"

end Driver
