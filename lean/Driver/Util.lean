/-
Line-protocol helpers for the model driver (no Mathlib; linked into the `driver` executable).
-/
import Flussab.Model.Source

namespace Driver
open Flussab

def hexDigit (n : Nat) : Char :=
  if n < 10 then Char.ofNat (48 + n) else Char.ofNat (87 + n)

def hex (bs : Bytes) : String :=
  if bs.isEmpty then "-" else
  String.ofList (bs.foldr (fun b acc => hexDigit (b.toNat / 16) :: hexDigit (b.toNat % 16) :: acc) [])

def hexVal (c : Char) : Nat :=
  if c.toNat ≥ 97 then c.toNat - 87 else if c.toNat ≥ 65 then c.toNat - 55 else c.toNat - 48

def unhexList : List Char → Bytes
  | a :: b :: rest => UInt8.ofNat (hexVal a * 16 + hexVal b) :: unhexList rest
  | _ => []

def unhex (s : String) : Bytes :=
  if s == "-" then [] else unhexList s.toList

def decBytes (k : Nat) : Bytes := (toString k).toList.map fun c => UInt8.ofNat c.toNat

/-- One segment of a data field (same syntax as `common.rs::data_field`):
hex | `-` | `g<len>.<seed>` | `r<count>.<hex>` | `n<count>.<start>.<step>.<pre>.<suf>`. -/
def dataSeg (s : String) : Bytes :=
  match s.toList with
  | 'g' :: r =>
    match (String.ofList r).splitOn "." with
    | [l, sd] =>
      let len := l.toNat?.getD 0
      let seed := sd.toNat?.getD 0
      (List.range len).map fun j => UInt8.ofNat ((seed * 31 + j * 7 + j / 256) % 256)
    | _ => []
  | 'r' :: r =>
    match (String.ofList r).splitOn "." with
    | [c, h] => (List.replicate (c.toNat?.getD 0) (unhex h)).flatten
    | _ => []
  | 'n' :: r =>
    match (String.ofList r).splitOn "." with
    | [c, st, sp, pre, suf] =>
      let start := st.toNat?.getD 0
      let step := sp.toNat?.getD 0
      let p := unhex pre
      let q := unhex suf
      ((List.range (c.toNat?.getD 0)).map fun i => p ++ decBytes (start + i * step) ++ q).flatten
    | _ => []
  | _ => unhex s

/-- A data field: `+`-joined segments. -/
def dataField (s : String) : Bytes :=
  ((s.splitOn "+").map dataSeg).flatten

/-! `dataField` again, built back to front onto an accumulator: no intermediate list of lists, so the
peak memory is the result itself (a 13 MB document: 0.3 GB instead of 0.9 GB). -/

def genOnto (seed : Nat) : Nat → Bytes → Bytes
  | 0, acc => acc
  | j + 1, acc => genOnto seed j (UInt8.ofNat ((seed * 31 + j * 7 + j / 256) % 256) :: acc)

def repOnto (pat : Bytes) : Nat → Bytes → Bytes
  | 0, acc => acc
  | n + 1, acc => repOnto pat n (pat ++ acc)

def numsOnto (p q : Bytes) (start step : Nat) : Nat → Bytes → Bytes
  | 0, acc => acc
  | i + 1, acc => numsOnto p q start step i (p ++ (decBytes (start + i * step) ++ (q ++ acc)))

/-- `dataSeg s ++ acc`. -/
def dataSegOnto (s : String) (acc : Bytes) : Bytes :=
  match s.toList with
  | 'g' :: r =>
    match (String.ofList r).splitOn "." with
    | [l, sd] => genOnto (sd.toNat?.getD 0) (l.toNat?.getD 0) acc
    | _ => acc
  | 'r' :: r =>
    match (String.ofList r).splitOn "." with
    | [c, h] => repOnto (unhex h) (c.toNat?.getD 0) acc
    | _ => acc
  | 'n' :: r =>
    match (String.ofList r).splitOn "." with
    | [c, st, sp, pre, suf] =>
      numsOnto (unhex pre) (unhex suf) (st.toNat?.getD 0) (sp.toNat?.getD 0) (c.toNat?.getD 0) acc
    | _ => acc
  | _ => unhex s ++ acc

/-- `dataField s ++ acc`. -/
def dataFieldOnto (s : String) (acc : Bytes) : Bytes :=
  (s.splitOn "+").foldr dataSegOnto acc

/-- Number of whole items `pre ++ decimal(start + i*step) ++ suf`, `i < count`, that fit into `rem`
bytes, and the bytes they take. -/
def numsFit (plen qlen start step count rem : Nat) : Nat → Nat → Nat → Nat × Nat
  | 0, i, used => (i, used)
  | fuel + 1, i, used =>
    if i ≥ count then (i, used) else
    let len := plen + (toString (start + i * step)).length + qlen
    if used + len > rem then (i, used) else numsFit plen qlen start step count rem fuel (i + 1) (used + len)

/-- `(dataSeg s).take rem ++ acc` without expanding more of the segment than `rem` bytes. -/
def dataSegTakeOnto (s : String) (rem : Nat) (acc : Bytes) : Bytes :=
  match s.toList with
  | 'g' :: r =>
    match (String.ofList r).splitOn "." with
    | [l, sd] => genOnto (sd.toNat?.getD 0) (min rem (l.toNat?.getD 0)) acc
    | _ => acc
  | 'r' :: r =>
    match (String.ofList r).splitOn "." with
    | [c, h] =>
      let pat := unhex h
      let count := c.toNat?.getD 0
      if pat.isEmpty then acc else
      let k := min count (rem / pat.length)
      let part := if k < count then pat.take (rem - k * pat.length) else []
      repOnto pat k (part ++ acc)
    | _ => acc
  | 'n' :: r =>
    match (String.ofList r).splitOn "." with
    | [c, st, sp, pre, suf] =>
      let (p, q) := (unhex pre, unhex suf)
      let (start, step, count) := (st.toNat?.getD 0, sp.toNat?.getD 0, c.toNat?.getD 0)
      let (k, used) := numsFit p.length q.length start step count rem count 0 0
      let part := if k < count then (p ++ decBytes (start + k * step) ++ q).take (rem - used) else []
      numsOnto p q start step k (part ++ acc)
    | _ => acc
  | _ => (unhex s).take rem ++ acc

/-- Length of `dataSeg s`, computed without expanding it. -/
def dataSegLen (s : String) : Nat :=
  match s.toList with
  | 'g' :: r =>
    match (String.ofList r).splitOn "." with
    | [l, _] => l.toNat?.getD 0
    | _ => 0
  | 'r' :: r =>
    match (String.ofList r).splitOn "." with
    | [c, h] => (c.toNat?.getD 0) * (unhex h).length
    | _ => 0
  | 'n' :: r =>
    match (String.ofList r).splitOn "." with
    | [c, st, sp, pre, suf] =>
      let count := c.toNat?.getD 0
      (numsFit (unhex pre).length (unhex suf).length (st.toNat?.getD 0) (sp.toNat?.getD 0) count
        (count * 64 + count * ((unhex pre).length + (unhex suf).length)) count 0 0).2
    | _ => 0
  | _ => (unhex s).length

/-- `(dataField s).take cut ++ acc`, expanding no more than `cut` bytes. -/
def dataFieldTakeOnto (s : String) (cut : Nat) (acc : Bytes) : Bytes :=
  let rec go : List String → Nat → Bytes
    | [], _ => acc
    | sg :: rest, off =>
      if off ≥ cut then acc else
      let len := dataSegLen sg
      if off + len ≤ cut then dataSegOnto sg (go rest (off + len))
      else dataSegTakeOnto sg (cut - off) acc
  go (s.splitOn "+") 0

/-- `key=value` fields of a case line. -/
def fields (line : String) : List (String × String) :=
  (line.splitOn " ").filterMap fun t =>
    if t.isEmpty then none else
    match t.splitOn "=" with
    | [k] => some (k, "")
    | k :: rest => some (k, "=".intercalate rest)
    | [] => none

def field (fs : List (String × String)) (k : String) : String :=
  match fs.find? (·.1 == k) with
  | some (_, v) => v
  | none => ""

def fieldNat (fs : List (String × String)) (k : String) : Nat :=
  (field fs k).toNat?.getD 0

def parseSched (s : String) : List Ev :=
  if s == "-" then [] else
  (s.splitOn ",").filterMap fun t =>
    match t.toList with
    | 'g' :: r => some (.give ((String.ofList r).toNat?.getD 0))
    | 'i' :: _ => some .intr
    | 'l' :: r => some (.lie ((String.ofList r).toNat?.getD 0))
    -- a source whose `read` fills the slice and then panics: for the reader the same event as a
    -- lying read (no byte count is learnt, the call unwinds, the window stays)
    | 'p' :: r => some (.lie ((String.ofList r).toNat?.getD 0))
    | _ => none

def b2s (b : Bool) : String := if b then "1" else "0"

end Driver
