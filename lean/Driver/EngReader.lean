/-
Driver side of engine `reader`: replays an op list on `Flussab.Reader` and prints the same
observation string as `harness/src/eng_reader.rs`.
-/
import Flussab.Model.Reader
import Driver.Util

namespace Driver
open Flussab

inductive ROp where
  | rq (n : Nat) | ra (k : Nat) | rm | ad (n : Nat) | ab (n : Nat)
  | sm | sp (p : Nat) | sc (c : Nat) | ck | bad

def parseROp (t : String) : ROp :=
  let cs := t.toList
  let k := String.ofList (cs.take 2)
  let v := (String.ofList (cs.drop 2)).toNat?.getD 0
  if k == "rq" then .rq v else if k == "ra" then .ra v else if k == "rm" then .rm
  else if k == "ad" then .ad v else if k == "ab" then .ab v else if k == "sm" then .sm
  else if k == "sp" then .sp v else if k == "sc" then .sc v else if k == "ck" then .ck else .bad

def parseROps (s : String) : List ROp :=
  if s == "-" then [] else (s.splitOn ",").map parseROp

def ROp.run (r : Reader) : ROp → String × Reader
  | .rq n => match r.request n with
      | (none, r') => ("panic", r')
      | (some _, r') => ("ok", r')
  | .ra k => match r.requestByteAt k with
      | (none, r') => ("panic", r')
      | (some none, r') => ("none", r')
      | (some (some b), r') => (s!"some:{b.toNat}", r')
  | .rm => match r.requestMore with
      | (none, r') => ("panic", r')
      | (some true, r') => ("t", r')
      | (some false, r') => ("f", r')
  | .ad n => match r.advance n with
      | (none, r') => ("panic", r')
      | (some (), r') => ("ok", r')
  | .ab n => match r.advanceWithBuf n with
      | (none, r') => ("panic", r')
      | (some bs, r') => (hex bs, r')
  | .sm => ("ok", r.setMark)
  | .sp p => ("ok", r.setMarkToPosition p)
  | .sc c => ("ok", r.setChunkSize c)
  | .ck => match r.checkIoError with
      | (true, r') => ("err", r')
      | (false, r') => ("ok", r')
  | .bad => ("bad-op", r)

def obsReader (res : String) (r : Reader) : String :=
  s!"{res}|{hex r.window}|{r.position}|{r.mark}|{b2s r.isComplete}{b2s r.isAtEnd}{b2s r.ioError}|{r.src.calls}|{r.src.afterEnd}"

structure RTags where
  realign : Nat := 0
  shrink : Nat := 0
  grow : Nat := 0
  panics : Nat := 0

def runReaderCase (line : String) : String × String :=
  let fs := fields line
  let src : Source := { pre := unhex (field fs "pre"), data := unhex (field fs "d"),
                        fault := fieldNat fs "f" == 1, sched := parseSched (field fs "s") }
  let r0 := (Reader.mk' src).setChunkSize (fieldNat fs "c")
  let ops := parseROps (field fs "o")
  let (outs, _, tags) := ops.foldl (fun (acc : List String × Reader × RTags) op =>
      let (outs, r, t) := acc
      let (res, r') := op.run r
      let t := { t with
        realign := if r'.posOfBuf != r.posOfBuf then t.realign + 1 else t.realign,
        shrink := if r'.buf.length < r.buf.length then t.shrink + 1 else t.shrink,
        grow := if r'.buf.length > r.buf.length then t.grow + 1 else t.grow,
        panics := if res == "panic" then t.panics + 1 else t.panics }
      (obsReader res r' :: outs, r', t)) ([], r0, {})
  (";".intercalate outs.reverse,
   s!"realign={tags.realign} shrink={tags.shrink} grow={tags.grow} panic={tags.panics}")

end Driver
