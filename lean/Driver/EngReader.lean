/-
Driver side of engine `reader`: replays an op list on `Flussab.Reader` and prints the same
observation string as `harness/src/eng_reader.rs`.
-/
import Flussab.Model.Reader
import Flussab.Model.ReaderGenRun
import Driver.Util

namespace Driver
open Flussab

open Reader in
def parseROp (t : String) : Option Op :=
  let cs := t.toList
  let k := String.ofList (cs.take 2)
  let v := (String.ofList (cs.drop 2)).toNat?.getD 0
  if k == "rq" then some (.request v) else if k == "ra" then some (.reqAt v)
  else if k == "rm" then some .requestMore
  else if k == "ad" then some (.advance v) else if k == "ab" then some (.advanceWithBuf v)
  else if k == "sm" then some .setMark
  else if k == "sp" then some (.setMarkTo v) else if k == "sc" then some (.setChunk v)
  else if k == "ck" then some .checkIoError else none

/-- The read schedule of a reader case: `parseSched` plus `L<n>` — an over-reporting read whose
claimed count is given absolutely (the harness uses it for counts near `usize::MAX`).  For the model
every over-report is the same event: the call ends in the load-bearing `assert!`. -/
def parseSchedR (s : String) : List Ev :=
  if s == "-" then [] else
  (s.splitOn ",").flatMap fun t =>
    match t.toList with
    | 'L' :: r => [.lie ((String.ofList r).toNat?.getD 0)]
    | _ => parseSched t

def parseROps (s : String) : List (Option Reader.Op) :=
  if s == "-" then [] else (s.splitOn ",").map parseROp

/-- FNV-1a, 64 bit (machine arithmetic: windows of the scale family are several MiB). -/
def fnv64 (bs : Bytes) : Nat :=
  (bs.foldl (fun (h : UInt64) b => (h ^^^ b.toUInt64) * 0x100000001b3) 0xcbf29ce484222325).toNat

def hex16r (n : Nat) : String :=
  String.ofList ((List.range 16).reverse.map fun i => hexDigit ((n / 16 ^ i) % 16))

/-- Window text: hex when short, `#<len>:<fnv-1a 64>` otherwise (as in the harness). -/
def winhex (w : Bytes) : String :=
  if w.length ≤ 64 then hex w else s!"#{w.length}:{hex16r (fnv64 w)}"

/-- Canonical text of a result, as printed by the Rust harness for the same op. -/
def showRes (op : Reader.Op) : Reader.Res → String
  | .panic => "panic"
  | .unit => "ok"
  | .bytes b => match op with
      | .request _ => "ok"
      | _ => winhex b
  | .byte none => "none"
  | .byte (some b) => s!"some:{b.toNat}"
  | .bool b => match op with
      | .checkIoError => if b then "err" else "ok"
      | _ => if b then "t" else "f"

/-- Everything of a reader state that an operation can change, as text (buffer digested). -/
def stateSig (r : Reader) : String :=
  s!"{r.posInBuf}/{r.validLen}/{r.buf.length}/{fnv64 r.buf}/{b2s r.complete}{b2s r.ioError}/{r.posOfBuf}/{r.markInBuf}/{r.chunk}/{r.src.calls}/{r.src.data.length}/{r.src.pre.length}/{r.src.sched.length}"

/-- One operation on the hand-written model; the same operation is run on the model *generated from
the Rust source* (`TieReader.genRun`), and a difference in result or state is made visible in the
observation (it would also contradict theorem `TieReader.op_tied`). -/
def runROp (gen : Bool) (r : Reader) : Option Reader.Op → String × Reader
  | none => ("bad-op", r)
  | some op =>
    let (res, r') := op.run r
    -- `nogen=1` (set by `./check` after a run with the generated code failed, e.g. ran out of memory on the
    -- translation of a changed source): the hand-written model alone
    if !gen then (showRes op res, r') else
    let (gres, gr') := TieReader.genRun r op
    let out := showRes op res
    if showRes op gres == out && stateSig gr' == stateSig r' then (out, r')
    else (out ++ "!GENERATED-MODEL-DIFFERS:" ++ showRes op gres, r')

def obsReader (res : String) (r : Reader) : String :=
  s!"{res}|{winhex r.window}|{r.position}|{r.mark}|{b2s r.isComplete}{b2s r.isAtEnd}{b2s r.ioError}|{r.src.calls}|{r.src.afterEnd}"

structure RTags where
  realign : Nat := 0
  shrink : Nat := 0
  grow : Nat := 0
  panics : Nat := 0

def runReaderCase (line : String) : String × String :=
  let fs := fields line
  let src : Source := { pre := dataField (field fs "pre"), data := dataField (field fs "d"),
                        fault := fieldNat fs "f" == 1, sched := parseSchedR (field fs "s") }
  let r0 := (Reader.mk' src).setChunkSize (fieldNat fs "c")
  let ops := parseROps (field fs "o")
  let (outs, _, tags) := ops.foldl (fun (acc : List String × Reader × RTags) op =>
      let (outs, r, t) := acc
      let (res, r') := runROp (field fs "nogen" != "1") r op
      let t := { t with
        realign := if r'.posOfBuf != r.posOfBuf then t.realign + 1 else t.realign,
        shrink := if r'.buf.length < r.buf.length then t.shrink + 1 else t.shrink,
        grow := if r'.buf.length > r.buf.length then t.grow + 1 else t.grow,
        panics := if res == "panic" then t.panics + 1 else t.panics }
      (obsReader res r' :: outs, r', t)) ([], r0, {})
  (";".intercalate outs.reverse,
   s!"realign={tags.realign} shrink={tags.shrink} grow={tags.grow} panic={tags.panics}")

end Driver
