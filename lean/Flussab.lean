import Flussab.Model.Source
import Flussab.Model.Reader
