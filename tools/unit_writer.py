"""Translation unit: flussab/src/deferred_writer.rs -> Gen/WriterGen.lean (state: Model.Writer).

Modelling decisions (the contracts themselves are in lean/Flussab/Model/WriterExt.lean):

  *mut u8            `Option Nat`: `none` = null pointer, `some off` = pointer to offset `off` of the
                     allocation of `self.buf`.
  spare capacity     The model state (`Writer`) has no place for bytes written beyond `len`.  A write
                     into the spare capacity (`copy_from_nonoverlapping`, `itoap::write_to_ptr`) is
                     checked where it happens and *returns* the bytes written as a ghost value
                     (`spareN`); the `set_len` that follows takes that ghost value and appends it.
                     Both halves are checked operations (`none` when the safety precondition of the
                     unsafe call fails), so "the generated function does not panic" contains the
                     safety of the unsafe block.  In `advance_unchecked` the bytes were written by
                     the *caller* through the pointer of `buf_write_ptr`: there the ghost value is
                     an extra parameter `spare` of the generated function (`ghost_params`).
  Option<io::Error>  `Bool` (as in unit_reader.py).
  capacity()         `w.cap`.  The vector never reallocates: `extend_from_slice` beyond the capacity
                     is a `none` (the model has no state for a changed capacity), and the tie
                     theorems show that it does not occur.
"""
from unitbase import *


class WriterUnit(Unit):
    name = "writer"
    file = "flussab/src/deferred_writer.rs"
    impl = "DeferredWriter"
    traits = ("Write", "Drop")
    self_calls_only = True      # `self.write.write_all(..)` is the sink's method, not `Write::write_all` of this impl
    out = "WriterGen.lean"
    namespace = "Flussab.Gen.Writer"
    imports = ["Flussab.Model.WriterExt"]
    monad = "RM Writer"
    state_types = ("DeferredWriter",)
    struct = ("DeferredWriter", ["write", "buf", "io_error", "panicked"])
    fields = {
        "write": dict(lean="sink", ty="Box<dyn Write>"),
        "buf": dict(lean="buf", ty="Vec<u8>"),
        "io_error": dict(lean="ioError", ty="Option<io::Error>", get="(WriterExt.optOfBool {})", set="({}).isSome"),
        "panicked": dict(lean="panicked", ty="bool"),
    }
    types = {"io::Result<()>": "Except IoErr Unit", "io::Result<usize>": "Except IoErr Nat", "[u8]": "List UInt8",
             "Option<io::Error>": "Option IoErr", "io::Error": "IoErr",
             "* mut u8": "Option Nat", "*mut u8": "Option Nat", "Spare": "List UInt8"}
    skip = {
        "from_write": "boxes its argument",
        "from_boxed_dyn_write": "struct literal; the capacity it requests (DEFAULT_CHUNK_SIZE) is emitted as "
                                "`defaultChunkSize` and compared with the model's default by `default_cap_tied`",
    }
    # bytes the caller wrote through the pointer returned by `buf_write_ptr` (see the module docstring)
    ghost_params = {"advance_unchecked": [("spare", "Spare")]}

    @property
    def header(self):
        c = self.consts.get("Self::DEFAULT_CHUNK_SIZE")
        if c is None:
            raise TErr("writer: constant DEFAULT_CHUNK_SIZE no longer exists")
        return ("/-- `DeferredWriter::DEFAULT_CHUNK_SIZE`, the capacity `from_boxed_dyn_write` allocates. -/\n"
                f"def defaultChunkSize : Nat := {c[0]}\n\n")

    def __init__(self):
        super().__init__()
        spare = {}      # rust fn name -> Lean name of the last ghost value written into the spare capacity
        self.spare = spare

        def vec_len(em, f, e, env, hint):
            return Code(f"(← RM.get).{f['lean']}.length", "usize")

        def vec_capacity(em, f, e, env, hint):
            return Code("(← RM.get).cap", "usize")

        def vec_clear(em, f, e, env, hint):
            return Code("()", "()", ["WriterExt.clear"])

        def vec_extend(em, f, e, env, hint):
            a = em.cexpr(e[3][0], env, "[u8]")
            return Code("()", "()", a.pre + [f"WriterExt.extendFromSlice {paren(a.val)}"])

        def vec_set_len(em, f, e, env, hint):
            n = em.cexpr(e[3][0], env, "usize")
            sp = spare.get(env.fn.name)
            if sp is None and "spare" in env.vars:       # ghost parameter (`ghost_params`)
                sp = env.vars["spare"][0]
            if sp is None:
                raise TErr(f"writer::{env.fn.name}: `set_len` with no preceding write into the spare capacity")
            return Code("()", "()", n.pre + [f"WriterExt.setLen {paren(n.val)} {sp}"])

        def opt_take(em, f, e, env, hint):
            t = env.fresh()
            return Code(t, "Option<io::Error>", [f"let {t} ← WriterExt.takeIoError"])

        def sink_write_all(em, f, e, env, hint):
            a = em.cexpr(e[3][0], env, "[u8]")
            t = env.fresh()
            return Code(t, "io::Result<()>", a.pre + [f"let {t} ← WriterExt.sinkWriteAll {paren(a.val)}"])

        self.field_methods = {
            ("Vec<u8>", "len"): vec_len, ("Vec<u8>", "capacity"): vec_capacity, ("Vec<u8>", "clear"): vec_clear,
            ("Vec<u8>", "extend_from_slice"): vec_extend, ("Vec<u8>", "set_len"): vec_set_len,
            ("Option<io::Error>", "take"): opt_take,
            ("Box<dyn Write>", "write_all"): sink_write_all,
        }

        def is_buf_ptr_add(em, e, env):
            """`self.buf.as_mut_ptr().add(off)` -> off"""
            if (e[0] == "mcall" and e[2] == "add" and len(e[3]) == 1 and e[1][0] == "mcall" and e[1][2] == "as_mut_ptr"
                    and not e[1][3]):
                f = em.state_field(e[1][1], env)
                if f and f["lean"] == "buf":
                    return e[3][0]
            return None

        def chain_ptr(em, e, env, hint):
            if e[0] != "mcall":
                return None
            # self.buf.as_mut_ptr().add(off).copy_from_nonoverlapping(src.as_ptr(), n)
            if e[2] == "copy_from_nonoverlapping" and len(e[3]) == 2:
                off = is_buf_ptr_add(em, e[1], env)
                src = e[3][0]
                if off is None or src[0] != "mcall" or src[2] != "as_ptr" or src[3]:
                    raise TErr(f"writer::{env.fn.name}: `copy_from_nonoverlapping` is expected to copy a slice "
                               "to `self.buf.as_mut_ptr().add(..)`")
                o = em.cexpr(off, env, "usize")
                s = em.cexpr(src[1], env, "[u8]")
                n = em.cexpr(e[3][1], env, "usize")
                t = env.fresh("spare")
                spare[env.fn.name] = t
                return Code("()", "()", o.pre + s.pre + n.pre +
                            [f"let {t} ← WriterExt.copyToSpare {paren(o.val)} {paren(s.val)} {paren(n.val)}"])
            # self.buf.as_mut_ptr().add(off)  as a value
            off = is_buf_ptr_add(em, e, env)
            if off is not None:
                o = em.cexpr(off, env, "usize")
                t = env.fresh()
                return Code(t, "*mut u8", o.pre + [f"let {t} ← WriterExt.ptrAdd {paren(o.val)}"])
            return None

        self.chain_handlers = [chain_ptr]

        def null_mut(em, e, env, hint):
            return Code("none", "*mut u8")

        self.functions = {"std::ptr::null_mut": null_mut}

        def slice_len(em, c, e, env, hint):
            return Code(f"{paren(c.val)}.length", "usize", c.pre)

        def slice_split_at(em, c, e, env, hint):
            i = em.cexpr(e[3][0], env, "usize")
            t = env.fresh()
            return Code(t, "([u8], [u8])", c.pre + i.pre +
                        [f"let {t} ← RM.liftOpt (WriterExt.splitAtChecked {paren(c.val)} {paren(i.val)})"])

        def is_none(em, c, e, env, hint):
            return Code(f"({c.val}).isNone", "bool", c.pre)

        self.value_methods = {
            ("[u8]", "len"): slice_len, ("[u8]", "split_at"): slice_split_at,
            ("Option<io::Error>", "is_none"): is_none,
        }


UNIT = WriterUnit
