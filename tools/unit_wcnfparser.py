"""Translation unit: the streaming parser `impl<'a, L: Dimacs> Parser<'a, L>` of flussab-cnf/src/wcnf.rs
-> Gen/WcnfParserGen.lean.

The plain-CNF unit (`unit_cnfparser.py`: state = (parser fields `Cnf.ParserS`, reader), monad `PPM`, contracts
`CnfParserExt`; the WCNF parser struct has the same fields as the CNF one) with:
  `Header { var_count, clause_count, top_weight }` -> `Cnf.Header` with `extra := top_weight`
  token::uint_count(reader, "top weight"), token::uint_count::<u64>(input, "clause weight")
                                        -> `Cnf.uintCount Cnf.u64Ty` (`Header::top_weight: u64`, result
                                           `(u64, &[L])`; the front end drops the turbofish, the type argument is
                                           the table `uint_count_instances`, as in the plain-CNF unit)
  token::non_terminating_linebreaks(input)? -> `Cnf.nonTerminatingLinebreaks` (tied by Props/TieCnfToken.lean)
  `Ok(Some((weight, &self.lit_buf)))`   -> `some (weight, litBuf)` : `Option (Int × List Int)`
  `let mut input = &mut self.reader; .. input = &mut self.reader;` and the closure's own
  `let input = &mut self.reader;`       -> aliases of the reader state; the re-assignment of an alias to the state
                                           object is a no-op (emitter, `cassign`)
  closure writing `self.lit_buf` (`token::clause_lits(input, &mut self.lit_buf, ..)` inside `and_also(|_| ..)`)
                                        -> the closure body runs in `PPM`, so the contract `CnfParserExt.clauseLits`
                                           stores into the record as outside a closure
"""
from unitbase import *
from unit_cnfparser import CnfParserUnit


class WcnfParserUnit(CnfParserUnit):
    name = "wcnfparser"
    file = "flussab-cnf/src/wcnf.rs"
    out = "WcnfParserGen.lean"
    namespace = "Flussab.Gen.WcnfParser"
    header_fields = {"var_count": "varCount", "clause_count": "clauseCount", "top_weight": "extra"}
    uint_count_instances = {"clause count": "Cnf.usizeTy", "top weight": "Cnf.u64Ty", "clause weight": "Cnf.u64Ty"}
    tag_ty = "u64"
    tokens = dict(CnfParserUnit.tokens)
    tokens["token::non_terminating_linebreaks"] = ("Cnf.nonTerminatingLinebreaks", "Result<bool, ParseError>", [])

    def __init__(self):
        super().__init__()
        self.types.update({
            f"Result<Option<({self.tag_ty}, & [L])>, ParseError>": "Option (Int × List Int)",
            f"Option<({self.tag_ty}, & [L])>": "Option (Int × List Int)",
        })


UNIT = WcnfParserUnit
