#!/usr/bin/env python3
"""
Translator: the finite tables of flussab-btor2 -> Lean definitions.

  gen_tables.py <repo> <out-dir>     writes <out-dir>/Btor2Tables.lean

Extracted from /repo on every check run (the theorems of Flussab/Proof/Btor2Tables.lean —
`keyword_roundtrip` and friends — are then re-checked against what the source says now):

  flussab-btor2/src/btor2.rs
    * the fieldless / tuple enums  AssignmentKind, SingleValueOutputKind, UnaryOp, BinaryOp,
      TernaryOp                                            -> `inductive` + `.all` lists
    * `fn name(&self) -> &'static str` of UnaryOp, BinaryOp, TernaryOp
                                                           -> `unaryOpName` … : Op → List UInt8
    * every writer arm of the form  `<pattern> => [{] target.write_all_defer_err(b"<kw> ")`
      (keywords the writer emits as byte literals: sort bitvec / sort array / const / consth /
      constd / one / ones / zero / input / state / init / next / justice / output / bad /
      constraint / fair / ;)                               -> `kw<Enum><Variant> : List UInt8`
      and, for a fieldless enum all of whose variants have one, `<enum>Kw : Enum → List UInt8`
  flussab-btor2/src/token.rs
    * enums NodeToken, NodeValueToken, NodeValueExtOpToken, NodeValueUnaryOpToken, SortToken
    * the `match matched { "kw" => Token, …, _ => return Fallthrough }` of `node_token` and
      `sort_token`                                         -> `nodeKeywords`/`sortKeywords` tables
                                                              and `nodeToken`/`sortToken` lookups
    * `fn unary_op` of NodeValueExtOpToken / NodeValueUnaryOpToken

Anything that does not have exactly the expected shape is a translation failure (exit 1, message
on stdout): the tie between the Lean tables and the source is then broken.
"""
import os, re, sys


class TErr(Exception):
    pass


LEAN_KEYWORDS = {
    "at", "from", "end", "then", "else", "open", "show", "do", "if", "in", "let", "have", "fun",
    "match", "with", "where", "by", "def", "theorem", "namespace", "section", "import", "instance",
    "structure", "inductive", "class", "deriving", "mutual", "universe", "variable", "example",
    "abbrev", "axiom", "macro", "syntax", "notation", "infix", "prefix", "postfix", "set_option",
    "private", "protected", "partial", "unsafe", "noncomputable", "extends", "for", "unless",
    "return", "try", "catch", "finally", "mut", "using", "calc", "suffices", "obtain", "nomatch",
    "Type", "Sort", "Prop", "local", "scoped", "attribute", "export", "initialize", "opaque",
}

TYPE_MAP = {"u64": "Nat", "usize": "Nat", "NonZeroU64": "Nat"}


def strip_comments(src):
    src = re.sub(r"//[^\n]*", "", src)
    return src


def lname(variant):
    """Rust `CamelCase` variant -> Lean constructor name (`camelCase`, escaped if a keyword)."""
    n = variant[0].lower() + variant[1:]
    return f"«{n}»" if n in LEAN_KEYWORDS else n


def block_after(src, start, what):
    """Text between the `{` at/after `start` and its matching `}`."""
    i = src.find("{", start)
    if i < 0:
        raise TErr(f"{what}: no opening brace")
    depth = 0
    for j in range(i, len(src)):
        if src[j] == "{":
            depth += 1
        elif src[j] == "}":
            depth -= 1
            if depth == 0:
                return src[i + 1:j]
    raise TErr(f"{what}: unbalanced braces")


def split_top(s, sep=","):
    parts, depth, cur = [], 0, []
    for c in s:
        if c in "([{":
            depth += 1
        elif c in ")]}":
            depth -= 1
        if c == sep and depth == 0:
            parts.append("".join(cur))
            cur = []
        else:
            cur.append(c)
    parts.append("".join(cur))
    return [p.strip() for p in parts if p.strip()]


def parse_enum(src, name):
    m = re.search(r"pub\s+enum\s+" + name + r"\s*(<[^>]*>)?\s*\{", src)
    if not m:
        raise TErr(f"enum {name} not found")
    body = block_after(src, m.start(), f"enum {name}")
    variants = []
    for v in split_top(body):
        v = re.sub(r"#\[[^\]]*\]", "", v).strip()
        mm = re.fullmatch(r"([A-Z][A-Za-z0-9]*)\s*(?:\((.*)\))?", v, re.S)
        if not mm:
            raise TErr(f"enum {name}: unsupported variant `{v[:40]}`")
        fields = split_top(mm.group(2)) if mm.group(2) else []
        variants.append((mm.group(1), fields))
    if not variants:
        raise TErr(f"enum {name}: no variants")
    return variants


def lean_type(t, enums, ctx):
    t = t.strip()
    if t in TYPE_MAP:
        return TYPE_MAP[t]
    if t in enums:
        return t
    raise TErr(f"{ctx}: unsupported field type `{t}`")


def emit_enum(name, variants, enums):
    lines = [f"inductive {name} where"]
    for v, fields in variants:
        args = "".join(f" (a{i} : {lean_type(f, enums, f'enum {name}')})" for i, f in enumerate(fields))
        lines.append(f"  | {lname(v)}{args}")
    lines.append("deriving DecidableEq, Repr, Inhabited")
    if all(not f for _, f in variants):
        lines.append("")
        lines.append(f"/-- Every `{name}`, in declaration order. -/")
        lines.append(f"def {name}.all : List {name} := [" + ", ".join(f".{lname(v)}" for v, _ in variants) + "]")
    return "\n".join(lines)


class Expr:
    """`Path::Variant(args…)`, `Variant(args…)` after a `use`, a variable or `_`."""

    def __init__(self, s, enums, ctx, pattern=False):
        self.toks = re.findall(r"[A-Za-z_][A-Za-z0-9_]*|::|[(),&]", s)
        if "".join(self.toks) != re.sub(r"\s+", "", s):
            raise TErr(f"{ctx}: unsupported expression `{s.strip()[:60]}`")
        self.i = 0
        self.enums = enums
        self.ctx = ctx
        self.pattern = pattern
        self.vars = []
        self.text = self.parse()
        if self.i != len(self.toks):
            raise TErr(f"{ctx}: trailing tokens in `{s.strip()[:60]}`")

    def peek(self):
        return self.toks[self.i] if self.i < len(self.toks) else None

    def parse(self):
        while self.peek() == "&":
            self.i += 1
        head = self.toks[self.i]
        self.i += 1
        if self.peek() == "::":
            self.i += 1
            var = self.toks[self.i]
            self.i += 1
            if head not in self.enums:
                raise TErr(f"{self.ctx}: unknown enum `{head}`")
            known = dict(self.enums[head])
            if var not in known:
                raise TErr(f"{self.ctx}: `{head}` has no variant `{var}`")
            args = []
            if self.peek() == "(":
                self.i += 1
                while self.peek() != ")":
                    args.append(self.parse())
                    if self.peek() == ",":
                        self.i += 1
                self.i += 1
            if len(args) != len(known[var]):
                raise TErr(f"{self.ctx}: `{head}::{var}` applied to {len(args)} arguments")
            t = f"{head}.{lname(var)}"
            return t if not args else "(" + " ".join([t] + args) + ")"
        if head == "_":
            return "_"
        if re.fullmatch(r"[a-z_][a-z0-9_]*", head):
            self.vars.append(head)
            return head
        raise TErr(f"{self.ctx}: unsupported term `{head}`")


def parse_str_match(src, fn, enums):
    """`let token = match matched { "kw" => Expr, …, _ => return Fallthrough, };` of `fn`."""
    m = re.search(r"pub\s+fn\s+" + fn + r"\s*\(", src)
    if not m:
        raise TErr(f"fn {fn} not found")
    body = block_after(src, m.start(), f"fn {fn}")
    if not re.search(r"let\s+matched\s*=\s*ascii_lowercase\(input\.reader\(\),\s*0\)\s*;", body):
        raise TErr(f"fn {fn}: the keyword is no longer `ascii_lowercase(input.reader(), 0)`")
    mm = re.search(r"let\s+token\s*=\s*match\s+matched\s*\{", body)
    if not mm:
        raise TErr(f"fn {fn}: `let token = match matched {{` not found")
    arms = split_top(block_after(body, mm.start(), f"fn {fn} match"))
    table = []
    default_seen = False
    for a in arms:
        if default_seen:
            raise TErr(f"fn {fn}: arm after the default arm")
        am = re.fullmatch(r'"([^"\\]*)"\s*=>\s*(.*)', a, re.S)
        if am:
            kw = am.group(1)
            if not kw or not re.fullmatch(r"[a-z]+", kw):
                raise TErr(f"fn {fn}: keyword `{kw}` is not a non-empty run of a..z (the scanner only yields those)")
            if kw in [k for k, _ in table]:
                raise TErr(f"fn {fn}: duplicate keyword `{kw}`")
            table.append((kw, Expr(am.group(2), enums, f"fn {fn}").text))
        elif re.fullmatch(r"_\s*=>\s*return\s+Fallthrough", a):
            default_seen = True
        else:
            raise TErr(f"fn {fn}: unsupported match arm `{a[:60]}`")
    if not default_seen or not table:
        raise TErr(f"fn {fn}: no keyword arms / no `_ => return Fallthrough` arm")
    tail = body[mm.end():]
    if not re.search(r"let\s+advance\s*=\s*matched\.len\(\)\s*;\s*input\.reader\.advance\(advance\)\s*;", tail):
        raise TErr(f"fn {fn}: no longer advances by `matched.len()`")
    return table


def parse_self_match(src, impl, fn, enums, ret_str):
    """`impl <impl> { fn <fn>(…) { match self { pat => value, … } } }`."""
    m = re.search(r"impl\s+" + impl + r"\s*\{", src)
    if not m:
        raise TErr(f"impl {impl} not found")
    ibody = block_after(src, m.start(), f"impl {impl}")
    fm = re.search(r"fn\s+" + fn + r"\s*\(([^)]*)\)[^{]*\{", ibody)
    if not fm:
        raise TErr(f"{impl}::{fn} not found")
    params = [p.strip() for p in fm.group(1).split(",")]
    extra = []
    for p in params[1:]:
        pm = re.fullmatch(r"([a-z_][a-z0-9_]*)\s*:\s*(\w+)", p)
        if not pm:
            raise TErr(f"{impl}::{fn}: unsupported parameter `{p}`")
        extra.append((pm.group(1), lean_type(pm.group(2), enums, f"{impl}::{fn}")))
    fbody = block_after(ibody, fm.end() - 1, f"{impl}::{fn}")
    mm = re.fullmatch(r"\s*match\s+self\s*\{(.*)\}\s*", fbody, re.S)
    if not mm:
        raise TErr(f"{impl}::{fn}: body is not a single `match self`")
    arms = []
    for a in split_top(mm.group(1)):
        am = re.fullmatch(r"(.*?)\s*=>\s*(.*)", a, re.S)
        if not am:
            raise TErr(f"{impl}::{fn}: unsupported arm `{a[:60]}`")
        pat = Expr(am.group(1), enums, f"{impl}::{fn}", pattern=True)
        if pat.vars:
            raise TErr(f"{impl}::{fn}: binding pattern `{am.group(1)}`")
        if ret_str:
            vm = re.fullmatch(r'"([^"\\]*)"', am.group(2).strip())
            if not vm:
                raise TErr(f"{impl}::{fn}: arm value is not a string literal: `{am.group(2)[:40]}`")
            val = vm.group(1)
        else:
            e = Expr(am.group(2), enums, f"{impl}::{fn}")
            for v in e.vars:
                if v not in [n for n, _ in extra]:
                    raise TErr(f"{impl}::{fn}: unknown variable `{v}`")
            val = e.text
        arms.append((pat.text, val))
    # every variant must be covered exactly once (no wildcard arm)
    heads = [re.match(r"\(?([\w.«»]+)", p).group(1) for p, _ in arms]
    want = [f"{impl}.{lname(v)}" for v, _ in enums[impl]]
    if sorted(heads) != sorted(want):
        raise TErr(f"{impl}::{fn}: arms {heads} do not cover the variants {want} exactly once")
    return extra, arms


def bytes_lit(s):
    return "[" + ", ".join(str(b) for b in s.encode()) + "]"


def parse_writer_keywords(src, enums):
    """Writer arms `<pattern> => [{] target.write_all_defer_err(b"<literal>")`."""
    out = []
    for m in re.finditer(r"([^\n;{}]*?)\s*=>\s*\{?\s*target\.write_all_defer_err\(b\"([^\"\\]*)\"\)", src):
        pat, lit = m.group(1).strip(), m.group(2)
        if "|" in pat or lit.strip() == "":
            continue  # separators of the index writer, not keywords
        paths = re.findall(r"([A-Z][A-Za-z0-9]*)::([A-Z][A-Za-z0-9]*)", pat)
        if not paths:
            raise TErr(f"writer arm `{pat[:50]}`: no `Enum::Variant` in the pattern")
        e, v = paths[-1]
        out.append((e, v, lit))
    names = [f"{e}{v}" for e, v, _ in out]
    if len(set(names)) != len(names):
        raise TErr(f"writer keywords: two arms for the same variant: {names}")
    return out


# keyword definitions the hand-written writer model (Flussab/Model/Btor2.lean) refers to
REQUIRED_KW = [
    "LineComment", "SortBitVec", "SortArray", "ConstBinary", "ConstHex", "ConstDecimal", "ConstOne",
    "ConstOnes", "ConstZero", "ValueVariantInput", "ValueVariantState", "AssignmentKindInit",
    "AssignmentKindNext", "OutputJustice", "SingleValueOutputKindOutput", "SingleValueOutputKindBad",
    "SingleValueOutputKindConstraint", "SingleValueOutputKindFair",
]


def generate(repo):
    b = strip_comments(open(os.path.join(repo, "flussab-btor2/src/btor2.rs")).read())
    t = strip_comments(open(os.path.join(repo, "flussab-btor2/src/token.rs")).read())
    order = [("AssignmentKind", b), ("SingleValueOutputKind", b), ("UnaryOp", b), ("BinaryOp", b),
             ("TernaryOp", b), ("NodeValueExtOpToken", t), ("NodeValueUnaryOpToken", t),
             ("NodeValueToken", t), ("NodeToken", t), ("SortToken", t)]
    enums = {}
    for name, src in order:
        enums[name] = parse_enum(src, name)
    out = []
    out.append("/-\nGENERATED by tools/gen_tables.py from /repo (flussab-btor2/src/btor2.rs, token.rs).\n"
               "Do not edit: regenerated on every check run.\n-/\nnamespace Flussab.Gen.Btor2\n")
    for name, _ in order:
        out.append(emit_enum(name, enums[name], enums) + "\n")

    # name() tables
    for impl, fn in (("UnaryOp", "unaryOpName"), ("BinaryOp", "binaryOpName"), ("TernaryOp", "ternaryOpName")):
        _, arms = parse_self_match(b, impl, "name", enums, True)
        for _, s in arms:
            if not re.fullmatch(r"[a-z]+", s):
                raise TErr(f"{impl}::name: `{s}` is not a run of a..z")
        out.append(f"/-- `{impl}::name`. -/")
        out.append(f"def {fn} : {impl} → List UInt8")
        for p, s in arms:
            out.append(f"  | {p} => {bytes_lit(s)}  -- \"{s}\"")
        out.append("")

    # token -> op conversions
    for impl, fn in (("NodeValueExtOpToken", "extOpTokenUnaryOp"), ("NodeValueUnaryOpToken", "unaryOpTokenUnaryOp")):
        extra, arms = parse_self_match(t, impl, "unary_op", enums, False)
        sig = " → ".join([impl] + [ty for _, ty in extra] + ["UnaryOp"])
        binders = "".join(f", {n}" for n, _ in extra)
        out.append(f"/-- `{impl}::unary_op`. -/")
        out.append(f"def {fn} : {sig}")
        for p, v in arms:
            out.append(f"  | {p}{binders} => {v}")
        out.append("")

    # keyword matches
    for fn, ty, tbl, look in (("node_token", "NodeToken", "nodeKeywords", "nodeToken"),
                              ("sort_token", "SortToken", "sortKeywords", "sortToken")):
        table = parse_str_match(t, fn, enums)
        out.append(f"/-- The `match matched {{ … }}` of `{fn}`, in source order. -/")
        out.append(f"def {tbl} : List (List UInt8 × {ty}) := [")
        out.append(",\n".join(f"  ({bytes_lit(k)}, {v})  /- \"{k}\" -/" for k, v in table))
        out.append("]\n")
        out.append(f"/-- `{fn}` on the scanned keyword: `none` = the `_ => return Fallthrough` arm. -/")
        out.append(f"def {look} (kw : List UInt8) : Option {ty} := {tbl}.lookup kw\n")

    # writer keywords
    kws = parse_writer_keywords(b, enums)
    have = {f"{e}{v}" for e, v, _ in kws}
    missing = [k for k in REQUIRED_KW if k not in have]
    if missing:
        raise TErr(f"writer keywords no longer found as `write_all_defer_err(b\"…\")` arms: {missing}")
    for e, v, lit in kws:
        out.append(f"/-- `{e}::{v} => target.write_all_defer_err(b\"{lit}\")`. -/")
        out.append(f"def kw{e}{v} : List UInt8 := {bytes_lit(lit)}")
    out.append("")
    for e in ("AssignmentKind", "SingleValueOutputKind"):
        vs = enums[e]
        if all(f"{e}{v}" in have for v, _ in vs):
            fn = e[0].lower() + e[1:] + "Kw"
            out.append(f"/-- The keyword (with its trailing space) the writer emits for a `{e}`. -/")
            out.append(f"def {fn} : {e} → List UInt8")
            for v, _ in vs:
                out.append(f"  | .{lname(v)} => kw{e}{v}")
            out.append("")
        else:
            raise TErr(f"writer keywords: not every `{e}` variant has a literal")
    out.append("end Flussab.Gen.Btor2\n")
    return "\n".join(out)


def main():
    repo, outdir = sys.argv[1], sys.argv[2]
    os.makedirs(outdir, exist_ok=True)
    try:
        text = generate(repo)
    except (TErr, OSError) as e:
        print(f"gen_tables: cannot translate: {e}")
        sys.exit(1)
    path = os.path.join(outdir, "Btor2Tables.lean")
    old = open(path).read() if os.path.exists(path) else None
    if old != text:
        open(path, "w").write(text)


if __name__ == "__main__":
    main()
