"""Translation unit: `write_header`, `write_clause` of flussab-cnf/src/gcnf.rs -> Gen/GcnfWriteGen.lean.
Everything is in `unit_cnfwrite.py` (`DimacsWriteUnit`); here: the file, and the third header field
`group_count: usize` (= `Hdr.extra`).  `write_clause(writer, group: usize, clause_lits)`: the group is written by
`ascii_digits::<usize>` (`false 64`)."""
from unit_cnfwrite import DimacsWriteUnit


class GcnfWriteUnit(DimacsWriteUnit):
    name = "gcnfwrite"
    file = "flussab-cnf/src/gcnf.rs"
    out = "GcnfWriteGen.lean"
    namespace = "Flussab.Gen.GcnfWrite"
    extra_field = "group_count"
    extra_ty = "usize"


UNIT = GcnfWriteUnit
