"""Translation unit: the whole-file driver of the ASCII AIGER parser, `Parser::parse` of
flussab-aiger/src/ascii.rs -> Gen/AigerParseGen.lean.

State: the reader (inside `self` / inside the typestate value `aag_reader`) is the state `LR` of the parser monad
`PM`; everything else is a value.  `self: Parser<'a, L>` is the model's record `Aiger.Parser` (the parser without
its reader), a parameter of the generated function.

Calls into the lower layer are mapped to the *models* of those methods (as in every unit); they are tied to the
source by the units aigersections / aigersymbols (Props/TieAigerSections, Props/TieAigerSymbols; binary:
Props/TieAigerBinSections).  The table `METHODS` gives, per (struct of the receiver, method):
  self.inputs()                       -> `Aiger.Parser.inputs self`            (a pure value: `inputs_tied`)
  r.next_x()   (`&mut self`)          -> `let t ← Aiger.nextX r`, `r := t.2`, value `t.1`
                                         (the model functions take and return the record `Aiger.St` explicitly)
  r.<transition>()  (consumes `r`)    -> `let t ← Aiger.toX r`
  r.next_symbol()                     -> `let t ← Aiger.nextSymbol r`   (`next_symbol_tied`: the parser record
                                         is unchanged, so nothing is assigned)
  r.comment()                         -> `let t ← Aiger.comment r`
A method that is not in the table for the struct the receiver has at that point is a translation failure: the
typestate discipline of the source is re-checked by the unit.

The typestate variable: `let mut aag_reader = aag_reader.<transition>()?` declares a *new* variable that shadows
the old one (of a different struct type).  `normalise_parse` renames the k-th re-binding to `aag_reader<k>`
(alpha-renaming; the old variable is dead, it was moved into the transition).  All section structs are the one
record `Aiger.St` (`<count>_left` = `left`, …: unit aigersections), `ParseSymbols` is `Aiger.Parser`.

Values:
  `Aig { max_var_index: v, ..Aig::default() }`  -> `({ maxVarIndex := v } : Aiger.Aig)`: the defaults of the Lean
                                         structure are `Default` of the Rust one (0, empty vectors, `None`)
  `Vec<T>`                            -> `List T`, elements in push order
  `aig.f.push(x)`                     -> normalised to `aig = Aig { f: aig.f.pushed(x), ..aig }`
                                         -> `aig := { aig with f := aig.f ++ [x] }`
  `sizes.push(x)`                     -> `sizes = sizes.pushed(x)`
  `aig.justice_properties[i].push(x)` -> `aig = Aig { justice_properties: aig.justice_properties.pushed_at(i, x), ..aig }`
                                         -> `AigerParseExt.pushAt` (checked index, then `List.modify i (· ++ [x])`)
  `v[i]` (`Vec<Vec<L>>`, `Vec<usize>`) -> `AigerParseExt.index v i` (checked; the panic site carries the model's
                                         name for it, see Model/AigerParseExt.lean)
  `aig.comment = Some(c.to_owned())`  -> `aig = Aig { comment: Some(..), ..aig }`
  `symbol.into_owned_name()`, `comment.to_owned()` -> the value itself (`Cow` / `&str` -> owned: same bytes)
  `vec![]`                            -> `[]`

Loops: every `while let Some(x) = r.next_x()? { .. }` gets the fuel of the model's `whileSome` at that place,
`r.left + 1` (symbol table: `rest.length + 2`), the inner `while` of the justice bookkeeping gets the fuel
`aig.justice_properties.len() + 1` of `Aiger.justiceSeek`; the out-of-fuel values are the model's (`fuel_panic`),
so that the loop equalities hold fuel for fuel.
"""
from unitbase import *
from unit_cnftoken import PMUnit
from unit_aigerheader import FIELDS

# (struct of the receiver, method) -> (kind, model function, result)
#   kind "pure": value; "trans": consumes the receiver, result = next struct; "next": `&mut`, result = item type;
#   "sym" / "comment": methods of `ParseSymbols` (record unchanged)
METHODS = {
    ("Parser", "inputs"): ("pure", "Aiger.Parser.inputs", "ParseInputs"),
    ("ParseInputs", "next_input"): ("next", "Aiger.nextInput", "L"),
    ("ParseInputs", "latches"): ("trans", "Aiger.toLatches", "ParseLatches"),
    ("ParseLatches", "next_latch"): ("next", "Aiger.nextLatchAscii", "Latch<L>"),
    ("ParseLatches", "outputs"): ("trans", "Aiger.toOutputs", "ParseOutputs"),
    ("ParseOutputs", "next_output"): ("next", "Aiger.nextOutput", "L"),
    ("ParseOutputs", "bad_state_properties"): ("trans", "Aiger.toBad", "ParseBadStateProperties"),
    ("ParseBadStateProperties", "next_bad_state_property"): ("next", "Aiger.nextBad", "L"),
    ("ParseBadStateProperties", "invariant_constraints"): ("trans", "Aiger.toConstraints", "ParseInvariantConstraints"),
    ("ParseInvariantConstraints", "next_invariant_constraint"): ("next", "Aiger.nextConstraint", "L"),
    ("ParseInvariantConstraints", "justice_properties"): ("trans", "Aiger.toJusticeSizes", "ParseJusticePropertySizes"),
    ("ParseJusticePropertySizes", "next_justice_property_size"): ("next", "Aiger.nextJusticeSize", "usize"),
    ("ParseJusticePropertySizes", "justice_property_local_fairness_constraints"):
        ("trans", "Aiger.toJusticeLits", "ParseJusticePropertyLocalFairnessConstraints"),
    ("ParseJusticePropertyLocalFairnessConstraints", "next_justice_property_local_fairness_constraint"):
        ("next", "Aiger.nextJusticeLit", "L"),
    ("ParseJusticePropertyLocalFairnessConstraints", "fairness_constraints"):
        ("trans", "Aiger.toFairness", "ParseFairnessConstraints"),
    ("ParseFairnessConstraints", "next_fairness_constraint"): ("next", "Aiger.nextFairness", "L"),
    ("ParseFairnessConstraints", "and_gates"): ("trans", "Aiger.toAndGates", "ParseAndGates"),
    ("ParseAndGates", "next_and_gate"): ("next", "Aiger.nextAndGateAscii", "AndGate<L>"),
    ("ParseAndGates", "symbols"): ("trans", "Aiger.toSymbols", "ParseSymbols"),
    ("ParseSymbols", "next_symbol"): ("sym", "Aiger.nextSymbol", "Symbol"),
    ("ParseSymbols", "comment"): ("comment", "Aiger.comment", "Name"),
}
SECTION_STRUCTS = [
    "ParseInputs", "ParseLatches", "ParseOutputs", "ParseBadStateProperties", "ParseInvariantConstraints",
    "ParseJusticePropertySizes", "ParseJusticePropertyLocalFairnessConstraints", "ParseFairnessConstraints",
    "ParseAndGates"]

# field of `Aig<L>` -> (projection of `Aiger.Aig`, Rust type)
AIG_FIELDS = {
    "max_var_index": ("maxVarIndex", "usize"),
    "inputs": ("inputs", "Vec<L>"),
    "latches": ("latches", "Vec<Latch<L>>"),
    "outputs": ("outputs", "Vec<L>"),
    "bad_state_properties": ("bad", "Vec<L>"),
    "invariant_constraints": ("constraints", "Vec<L>"),
    "justice_properties": ("justice", "Vec<Vec<L>>"),
    "fairness_constraints": ("fairness", "Vec<L>"),
    "and_gates": ("gates", "Vec<AndGate<L>>"),
    "symbols": ("symbols", "Vec<Symbol>"),
    "comment": ("comment", "Option<Name>"),
}
READER = "aag_reader"


class AigerParseUnit(PMUnit):
    name = "aigerparse"
    file = "flussab-aiger/src/ascii.rs"
    impl = "Parser"
    only = {"parse"}
    out = "AigerParseGen.lean"
    namespace = "Flussab.Gen.AigerParse"
    imports = ["Flussab.Model.AigerParseExt"]
    ext = "AigerParseExt"
    structs = [("Parser", ["reader", "header", "max_lit", "_lit_builder"])]
    state_vars = set()               # the reader is never named: it travels inside `self` / `aag_reader`
    state_subobjects = set()
    self_value_type = "Parser"
    int_literal_default = "usize"
    skip = {}
    aig = "Aig"                      # the result struct and its model
    aig_lean = "Aiger.Aig"
    aig_fields = AIG_FIELDS
    methods = METHODS
    local_types = {"justice_property_sizes": "Vec<usize>"}
    value_fields = {("Header", f): lf for f, lf in FIELDS.items()}
    value_fields[("Parser", "header")] = ("header", "Header")

    def __init__(self):
        super().__init__()
        self.pm_common()
        self.pm_closures(self.ext, {})
        u = self
        ext = self.ext
        A = self.aig + "<L>"
        self.state_methods = {}
        self.functions = {k: v for k, v in self.functions.items() if k in ("Ok", "Err")}
        self.fuel, self.fuel_panic = {}, {}
        self.value_fields = dict(self.value_fields)
        self.value_fields.update({(A, f): v for f, v in self.aig_fields.items()})
        res = lambda t: f"Result<{t}, ParseError>"
        self.types.update({s: "Aiger.St" for s in SECTION_STRUCTS})
        self.types.update({
            "Parser": "Aiger.Parser", "ParseSymbols": "Aiger.Parser", "Header": "Aiger.Header",
            A: self.aig_lean, res(A): self.aig_lean, "Result<" + A.replace("<", " < ").replace(">", " > ") + ", ParseError>": self.aig_lean,
            "L": "Nat", "Vec<L>": "List Nat", "Vec<usize>": "List Nat", "Vec<Vec<L>>": "List (List Nat)",
            "Latch<L>": "Aiger.Latch", "Vec<Latch<L>>": "List Aiger.Latch",
            "AndGate<L>": "Aiger.AndGate", "Vec<AndGate<L>>": "List Aiger.AndGate",
            "OrderedLatch<L>": "Aiger.OLatch", "Vec<OrderedLatch<L>>": "List Aiger.OLatch",
            "OrderedAndGate<L>": "Aiger.OGate", "Vec<OrderedAndGate<L>>": "List Aiger.OGate",
            "Symbol": "Aiger.Symbol", "Vec<Symbol>": "List Aiger.Symbol", "Name": "VBytes",
            "Option<Name>": "Option VBytes",
        })

        # ---------------------------------------------------------------- calls of the typestate API
        def api(em, e, env, hint):
            if e[0] != "mcall":
                return None
            recv = strip_ref(e[1])
            if not (recv[0] == "path" and len(recv[1]) == 1 and recv[1][0] in env.vars):
                return None
            ln, ty = env.vars[recv[1][0]]
            if ty != "Parser" and ty != "ParseSymbols" and ty not in SECTION_STRUCTS:
                return None
            m = u.methods.get((ty, e[2]))
            if m is None:
                raise TErr(f"{u.name}::{env.fn.name}: `{e[2]}` is not a method of `{ty}` the unit knows")
            if e[3]:
                raise TErr(f"{u.name}::{env.fn.name}: `{e[2]}` called with arguments")
            kind, lean, r = m
            if kind == "pure":
                return Code(f"({lean.format(ln)})" if "{" in lean else f"({lean} {ln})", res(r))
            t = env.fresh()
            call = lean.format(ln) if "{" in lean else f"{lean} {ln}"
            if kind == "trans":
                return Code(t, res(r), [f"let {t} ← {call}"])
            if kind == "next":
                if not em.is_lean_mut(env, recv[1][0]):
                    raise TErr(f"{u.name}::{env.fn.name}: `{e[2]}` on `{recv[1][0]}`, which is not a `let mut`")
                return Code(f"{t}.1", res(f"Option<{r}>"), [f"let {t} ← {call}", f"{ln} := {t}.2"])
            return Code(t, res(f"Option<{r}>"), [f"let {t} ← {call}"])

        self.chain_handlers = [api]

        # ---------------------------------------------------------------- vectors
        def pushed(elem):
            def h(em, c, e, env, hint):
                a = em.cexpr(e[3][0], env, elem)
                if a.ty != elem:
                    raise TErr(f"{u.name}::{env.fn.name}: push of a {a.ty} onto a vector of {elem}")
                return Code(f"({c.val} ++ [{a.val}])", c.ty, c.pre + a.pre)
            return h

        self.value_methods = dict(self.value_methods)
        for vt in {v[1] for v in self.aig_fields.values() if v[1].startswith("Vec<")} | {"Vec<usize>"}:
            self.value_methods[(vt, "pushed")] = pushed(vt[len("Vec<"):-1])

        def pushed_at(em, c, e, env, hint):
            i = em.cexpr(e[3][0], env, "usize")
            a = em.cexpr(e[3][1], env, "L")
            if a.ty != "L":
                raise TErr(f"{u.name}::{env.fn.name}: push of a {a.ty} onto a vector of L")
            t = env.fresh()
            return Code(t, "Vec<Vec<L>>", c.pre + i.pre + a.pre
                        + [f"let {t} ← {ext}.pushAt {paren(c.val)} {paren(i.val)} {paren(a.val)}"])

        self.value_methods[("Vec<Vec<L>>", "pushed_at")] = pushed_at

        def len_(em, c, e, env, hint):
            return Code(f"{paren(c.val)}.length", "usize", c.pre)

        self.value_methods[("Vec<L>", "len")] = len_

        def same(em, c, e, env, hint):
            return c

        self.value_methods[("Symbol", "into_owned_name")] = same
        self.value_methods[("Name", "to_owned")] = same

        def index(em, e, env):
            cb = em.cexpr(e[1], env)
            elem = {"Vec<Vec<L>>": "Vec<L>", "Vec<usize>": "usize"}.get(cb.ty)
            if elem is None or e[2][0] == "range":
                raise TErr(f"{u.name}::{env.fn.name}: index into a {cb.ty}")
            ci = em.cexpr(e[2], env, "usize")
            t = env.fresh()
            return Code(t, elem, cb.pre + ci.pre + [f"let {t} ← {ext}.index {paren(cb.val)} {paren(ci.val)}"])

        self.index_handler = index

        def vec_macro(em, e, env):
            if e[2]:
                raise TErr("vec![..] with elements")
            return Code("([] : List Nat)", "Vec<L>")

        self.macros = dict(self.macros)
        self.macros["vec"] = vec_macro

        # ---------------------------------------------------------------- Aig { .. }
        def struct(em, e, env, hint):
            name = e[1][-1]
            if name != u.aig:
                raise TErr(f"{u.name}::{env.fn.name}: struct literal `{name}` has no translation")
            base = e[3]
            pre, parts = [], []
            for f, x in e[2]:
                vf = u.aig_fields.get(f)
                if vf is None:
                    raise TErr(f"{u.name}: {u.aig} has no field `{f}` in the model")
                c = em.cexpr(x, env, vf[1])
                if c.ty != vf[1]:
                    raise TErr(f"{u.name}::{env.fn.name}: field `{f}` of {u.aig} set to a {c.ty}")
                pre += c.pre
                parts.append(f"{vf[0]} := {c.val}")
            if base == ("call", ("path", [u.aig, "default"]), []):
                return Code("({ " + ", ".join(parts) + f" }} : {u.aig_lean})", A, pre)
            if base is not None and base[0] == "path" and len(base[1]) == 1 and env.vars.get(base[1][0], (0, 0))[1] == A:
                return Code("({ " + env.vars[base[1][0]][0] + " with " + ", ".join(parts) + f" }} : {u.aig_lean})", A, pre)
            raise TErr(f"{u.name}::{env.fn.name}: {u.aig} literal without `..{u.aig}::default()` / `..aig`")

        self.struct_handler = struct

    # the names the loops of the normalised `parse` assign through `&mut self` calls (`r.next_x()`)
    def loop_assigned(self, e, env):
        acc = set()

        def walk(t):
            if isinstance(t, list):
                for x in t:
                    walk(x)
            elif isinstance(t, tuple):
                if t and t[0] == "mcall":
                    r = strip_ref(t[1])
                    if r[0] == "path" and len(r[1]) == 1 and r[1][0] in env.vars:
                        m = self.methods.get((env.vars[r[1][0]][1], t[2]))
                        if m and m[0] == "next":
                            acc.add(r[1][0])
                for x in t[1:]:
                    walk(x)
        walk(e)
        return acc

    # ------------------------------------------------------------------ source normalisation
    @property
    def fns(self):
        return self._fns

    @fns.setter
    def fns(self, d):
        for f in d.values():
            if f.name == "parse":
                self.normalise_parse(f)
        self._fns = d

    def normalise_parse(self, f):
        """See the module docstring: alpha-renaming of the shadowing `let mut aag_reader`, pushes / field
        assignment of `aig` as struct updates, type annotation of `justice_property_sizes`; computes the fuel table
        (loop number -> fuel expression over the variable that is current there)."""
        u = self
        b = f.body
        if not (b[0] == "block" and f.params and f.params[0][0] == "self"):
            raise TErr(f"{u.name}::parse: unexpected shape")
        cur = [None]       # current name of the typestate variable
        count = [0]
        annotated = set()

        def ren(t):
            if isinstance(t, list):
                return [ren(x) for x in t]
            if not isinstance(t, tuple) or not t:
                return t
            if t[0] == "path" and t[1] == [READER]:
                if cur[0] is None:
                    raise TErr(f"{u.name}::parse: `{READER}` used before it is declared")
                return ("path", [cur[0]])
            if t[0] == "pbind" and t[1] == READER:
                raise TErr(f"{u.name}::parse: `{READER}` bound by a pattern other than a top-level `let`")
            return tuple(ren(x) for x in t)

        def aig_update(field, val):
            return ("assign", "=", ("path", ["aig"]), ("struct", [u.aig], [(field, val)], ("path", ["aig"])))

        def rw(t):
            if isinstance(t, list):
                return [rw(x) for x in t]
            if not isinstance(t, tuple) or not t:
                return t
            if t[0] == "expr" and isinstance(t[1], tuple) and t[1][0] == "mcall" and t[1][2] == "push" and len(t[1][3]) == 1:
                recv, arg = t[1][1], rw(t[1][3][0])
                if recv[0] == "field" and recv[1] == ("path", ["aig"]):
                    return aig_update(recv[2], ("mcall", recv, "pushed", [arg]))
                if recv[0] == "path" and recv[1] == ["justice_property_sizes"]:
                    return ("assign", "=", recv, ("mcall", recv, "pushed", [arg]))
                if recv[0] == "index" and recv[1][0] == "field" and recv[1][1] == ("path", ["aig"]):
                    return aig_update(recv[1][2], ("mcall", recv[1], "pushed_at", [rw(recv[2]), arg]))
                raise TErr(f"{u.name}::parse: push onto something the unit does not know")
            if t[0] == "assign" and t[1] == "=" and t[2][0] == "field" and t[2][1] == ("path", ["aig"]):
                return aig_update(t[2][2], rw(t[3]))
            if t[0] == "let" and t[1][0] == "pbind" and t[1][1] in u.local_types and t[2] is None:
                annotated.add(t[1][1])
                return ("let", t[1], u.local_types[t[1][1]], rw(t[3]), t[4])
            return tuple(rw(x) for x in t)

        out = []
        for st in b[1]:
            if st[0] == "let" and st[1][0] == "pbind" and st[1][1] == READER:
                init = ren(st[3])
                count[0] += 1
                cur[0] = READER if count[0] == 1 else f"{READER}{count[0] - 1}"
                out.append(("let", ("pbind", cur[0]) + tuple(st[1][2:]), st[2], rw(init), st[4]))
            else:
                out.append(rw(ren(st)))
        tail = rw(ren(b[2])) if b[2] is not None else None
        f.body = ("block", out, tail) + tuple(b[3:])
        if annotated != set(u.local_types):
            raise TErr(f"{u.name}::parse: the locals {sorted(set(u.local_types) - annotated)} are no longer declared by a plain `let mut`")

        # fuel table: loops are numbered in pre-order (rs2lean.cloop)
        n = [0]

        def loops(t, top):
            if isinstance(t, list):
                for x in t:
                    loops(x, top)
            elif isinstance(t, tuple) and t:
                if t[0] in ("whilelet", "while", "loop", "for"):
                    n[0] += 1
                    key = ("parse", n[0])
                    if t[0] == "whilelet" and top:
                        h = strip_ref(t[2])
                        h = h[1] if h[0] == "try" else h
                        if not (h[0] == "mcall" and h[1][0] == "path" and not h[3]):
                            raise TErr(f"{u.name}::parse: loop {n[0]} is not `while let .. = r.next_x()?`")
                        if h[2] == "next_symbol":
                            u.fuel[key] = "(← PMExt.getLR).v.rest.length + 2"
                        else:
                            u.fuel[key] = f"{lname(h[1][1][0])}.left + 1"
                        u.fuel_panic[key] = '(PM.rpanic "fuel")'
                    elif t[0] == "while" and not top:
                        u.fuel[key] = "aig.justice.length + 1"
                        u.fuel_panic[key] = '(PM.rpanic "justice property index out of bounds")'
                    else:
                        raise TErr(f"{u.name}::parse: loop {n[0]} has a shape the unit has no fuel for")
                    loops(t[-1], False)
                    return
                for x in t[1:]:
                    loops(x, top)
        loops(f.body, True)


UNIT = AigerParseUnit
