#!/usr/bin/env python3
"""
Rust -> Lean translator core (used by tools/gen_core.py).

Input: function trees from rsparse.py.  Output: Lean 4 `def`s in `do` notation over a state monad
chosen by the *unit* (a group of functions of one source file sharing one state: `&mut self` of
DeferredReader, the `reader` argument of the text scanners, the `input: &mut LineReader` of the
token functions, ...).

What is translated structurally (the same for every unit):
  statements    let / let mut / assignment and compound assignment / expression statements
  control flow  if, if let, match (guards by sequential fall-through), early return,
                loop / while / while let / for-over-enumerate  (-> recursive def with fuel, `Ctl`),
                break / continue
  expressions   arithmetic and comparisons by operand type, short-circuit && and || (effects on the
                right are only run when Rust runs them), tuples, casts listed in the unit, matches!
  panics        assert!, debug_assert!, panic!, calls of `-> !` functions, checked `usize` subtraction,
                slice indexing and (!) `get_unchecked` -- an unsafe access is translated as the
                *checked* access, so "the generated function does not panic" contains the safety
                precondition of every unsafe block

What a unit supplies (tools/gen_core.py): the Lean state type and field names, the meaning of the
external calls (`Read::read`, `Vec` methods, num-traits operations, ...) as Lean snippets, fuel
expressions for loops.  A call with no entry is a translation failure (exit 1 = broken tie).
"""
import re
from rsparse import RsErr


class TErr(Exception):
    pass


LEAN_KEYWORDS = {"matches", "partial", "mask", "at", "from", "end", "then", "open", "show", "fun", "have", "in",
                 "by", "do", "where", "with", "match", "let", "if", "else", "for", "return", "mut", "set", "get",
                 "at", "instance", "structure", "def", "theorem", "namespace", "section", "variable", "prefix",
                 "word", "fixed", "local", "private", "macro", "syntax", "deriving", "class", "extends", "using",
                 "calc", "suffices", "obtain", "exact", "try", "catch", "finally", "unless", "break", "continue",
                 "true", "false", "Type", "Prop", "Sort", "value", "read", "write", "next"}


def lname(n):
    return n + "_" if n in LEAN_KEYWORDS else n


def camel(n):
    parts = n.split("_")
    return parts[0] + "".join(p.capitalize() for p in parts[1:])


class Code:
    """A translated expression: `pre` = do-statements to run first, `val` = Lean term, `ty` = Rust type."""

    def __init__(self, val, ty=None, pre=None):
        self.val, self.ty, self.pre = val, ty, list(pre or [])

    def __repr__(self):
        return f"Code({self.val!r}:{self.ty}, pre={self.pre})"


INT_TYPES = {"usize", "u8", "u16", "u32", "u64", "u128", "isize", "i8", "i16", "i32", "i64", "i128"}


class Env:
    def __init__(self, unit, fn, ret_lean):
        self.unit, self.fn, self.ret_lean = unit, fn, ret_lean
        self.vars = {}        # rust name -> (lean name, rust type)
        self.loop = None      # dict(name, muts, caps, label)
        self.aux = []         # auxiliary loop defs (text)
        self.tmp = 0
        self.nloops = 0
        self.aliases = set()       # locals that alias the state object (`let reader = input.reader();`)
        self.extra = set(re.findall(r"\((\w+)\s*:", getattr(unit, "extra_binders", {}).get(fn.name, "") or ""))

    def fresh(self, base="t"):
        owner = self
        while hasattr(owner, "tmp_owner"):
            owner = owner.tmp_owner
        owner.tmp += 1
        return f"{base}{owner.tmp}"

    def child(self):
        e = Env(self.unit, self.fn, self.ret_lean)
        e.vars = dict(self.vars)
        e.loop = self.loop
        e.aux = self.aux
        e.tmp_owner = self
        e.extra = self.extra
        e.aliases = set(self.aliases)
        return e


class Emitter:
    def __init__(self, unit):
        self.u = unit

    # ------------------------------------------------------------------ types
    def lean_type(self, rty):
        rty = rty.strip()
        rty = re.sub(r"^&\s*('[a-z_]+\s+)?(mut\s+)?", "", rty).strip()
        t = self.u.types.get(rty)
        if t:
            return t
        key = re.sub(r"\s+", "", rty)
        for k, v in self.u.types.items():
            if re.sub(r"\s+", "", k) == key:
                return v
        if rty in ("usize",):
            return "Nat"
        if rty == "bool":
            return "Bool"
        if rty == "u8":
            return "UInt8"
        if rty == "u64":
            return "BitVec 64"
        if rty == "u32":
            return "BitVec 32"
        if rty == "( )" or rty == "()":
            return "Unit"
        m = re.match(r"Option\s*<\s*(.*)\s*>$", rty)
        if m:
            return f"Option ({self.lean_type(m.group(1))})"
        if rty.startswith("(") and rty.endswith(")"):
            parts = split_top(rty[1:-1].strip())
            return "(" + " × ".join(self.lean_type(p) for p in parts) + ")"
        if rty in ("[ u8 ]", "[u8]", "Vec < u8 >"):
            return "List UInt8"
        raise TErr(f"{self.u.name}: no Lean type for Rust type `{rty}`")

    # ------------------------------------------------------------------ helpers
    def is_state(self, e, env):
        """Does `e` denote the unit's state object (self / reader / input.reader / input.reader())?"""
        e = strip_ref(e)
        if e[0] == "path" and len(e[1]) == 1 and (e[1][0] in self.u.state_vars or e[1][0] in getattr(env, "aliases", ())):
            return True
        if e[0] == "field" and self.is_state(e[1], env) and e[2] in self.u.state_subobjects:
            return True
        if e[0] == "mcall" and self.is_state(e[1], env) and e[2] in self.u.state_subobjects and not e[3]:
            return True
        return False

    def state_field(self, e, env):
        """If `e` is `<state>.<field>`, return the field's config."""
        e = strip_ref(e)
        if e[0] == "field" and self.is_state(e[1], env) and e[2] in self.u.fields:
            return self.u.fields[e[2]]
        return None

    def tyof(self, e, env, hint=None):
        k = e[0]
        if k == "paren":
            return self.tyof(e[1], env, hint)
        if k == "lit":
            return hint
        if k == "byte":
            return "u8"
        if k == "bool":
            return "bool"
        if k == "bstr":
            return "[u8]"
        if k == "path":
            if len(e[1]) == 1 and e[1][0] in env.vars:
                return env.vars[e[1][0]][1]
            c = self.u.consts.get("::".join(e[1]))
            if c:
                return c[1]
            return hint
        if k == "un":
            if e[1] in ("&", "&mut", "*"):
                return self.tyof(e[2], env, hint)
            return self.tyof(e[2], env, hint)
        if k == "cast":
            return norm_ty(e[2])
        if k == "bin":
            if e[1] in ("==", "!=", "<", ">", "<=", ">=", "&&", "||"):
                return "bool"
            if e[1] in ("<<", ">>"):
                return self.tyof(e[2], env, hint)
            return self.tyof(e[2], env, None) or self.tyof(e[3], env, None) or hint
        if k == "field":
            f = self.state_field(e, env)
            if f:
                return f["ty"]
            t = self.tyof(e[1], env)
            if t and t.startswith("(") and e[2].isdigit():
                return split_top(t[1:-1])[int(e[2])].strip()
            vf = getattr(self.u, "value_fields", {}).get((t, e[2]))
            if vf:
                return vf[1] if isinstance(vf, tuple) else "usize"
            return hint
        if k == "matches":
            return "bool"
        if k in ("mcall", "call", "index"):
            try:
                c = self.cexpr(e, env.child(), hint, probe=True)
                return c.ty
            except TErr:
                return hint
        if k == "tuple":
            return "(" + ", ".join(self.tyof(x, env) or "?" for x in e[1]) + ")"
        return hint

    # ------------------------------------------------------------------ expressions
    def num(self, n, ty):
        if ty in ("u64",):
            return f"{n}#64"
        if ty in ("u32",):
            return f"{n}#32"
        if ty == "u8":
            return f"({n} : UInt8)"
        if ty in self.u.int_params:
            return f"({n} : Int)"
        return str(n)

    def cexpr(self, e, env, hint=None, probe=False):
        """Translate an expression to Code (ANF for effects)."""
        k = e[0]
        if k == "paren":
            c = self.cexpr(e[1], env, hint)
            return Code(f"({c.val})" if not c.val.startswith("(") else c.val, c.ty, c.pre)
        if k == "lit":
            return Code(self.num(e[1], hint), hint)
        if k == "byte":
            if hint in ("u64", "u32"):
                return Code(self.num(e[1], hint), hint)
            return Code(f"({e[1]} : UInt8)", "u8")
        if k == "bool":
            return Code("true" if e[1] else "false", "bool")
        if k == "bstr":
            return Code("[" + ", ".join(str(b) for b in e[1]) + "]", "[u8]")
        if k == "path":
            name = "::".join(e[1])
            if len(e[1]) == 1 and e[1][0] in env.vars:
                ln, ty = env.vars[e[1][0]]
                return Code(ln, ty)
            if name in self.u.consts:
                v, ty = self.u.consts[name]
                return Code(v, ty)
            if name == "None":
                return Code("none", hint)
            if self.is_state(e, env):
                if getattr(self.u, "state_value", None):
                    return self.u.state_value(self, e, env, hint)
                raise TErr(f"{self.u.name}: the state object `{name}` is used as a value")
            raise TErr(f"{self.u.name}::{env.fn.name}: unknown name `{name}`")
        if k == "un":
            op = e[1]
            if op in ("&", "&mut", "*"):
                return self.cexpr(e[2], env, hint)
            c = self.cexpr(e[2], env, hint)
            if op == "!":
                if c.ty == "bool":
                    return Code(f"(!{c.val})", "bool", c.pre)
                if c.ty in ("u64", "u32"):
                    return Code(f"(~~~{c.val})", c.ty, c.pre)
                raise TErr(f"{self.u.name}::{env.fn.name}: `!` on type {c.ty}")
            if op == "-":
                h = self.u.neg.get(c.ty)
                if h:
                    return Code(h.format(c.val), c.ty, c.pre)
                raise TErr(f"{self.u.name}::{env.fn.name}: unary minus on type {c.ty}")
        if k == "cast":
            to = norm_ty(e[2])
            src_ty = self.tyof(e[1], env)
            if e[1][0] in ("lit", "byte"):
                return Code(self.num(e[1][1], to), to)
            c = self.cexpr(e[1], env)
            src_ty = c.ty or src_ty
            key = (src_ty, to)
            if src_ty == to:
                return Code(c.val, to, c.pre)
            if key in self.u.casts:
                return Code(self.u.casts[key].format(c.val), to, c.pre)
            raise TErr(f"{self.u.name}::{env.fn.name}: cast {src_ty} as {to} has no translation")
        if k == "tuple":
            cs = [self.cexpr(x, env) for x in e[1]]
            if hint and hint.startswith("("):
                hs = split_top(hint[1:-1])
                if len(hs) == len(e[1]):
                    cs = [self.cexpr(x, env, h.strip()) for x, h in zip(e[1], hs)]
            if not cs:
                return Code("()", "()")
            return Code("(" + ", ".join(c.val for c in cs) + ")", "(" + ", ".join(c.ty or "?" for c in cs) + ")",
                        [p for c in cs for p in c.pre])
        if k == "bin":
            return self.cbin(e, env, hint)
        if k == "field":
            f = self.state_field(e, env)
            if f:
                val = f"(← {self.u.get}).{f['lean']}"
                if f.get("get"):
                    val = f["get"].format(val)
                return Code(val, f["ty"])
            c = self.cexpr(e[1], env)
            vf = getattr(self.u, "value_fields", {}).get((c.ty, e[2]))
            if vf:
                # field of a struct value: Lean projection (type usize) or (Lean projection, Rust type)
                if isinstance(vf, tuple):
                    return Code(f"{paren(c.val)}.{vf[0]}", vf[1], c.pre)
                return Code(f"{paren(c.val)}.{vf}", "usize", c.pre)
            if e[2].isdigit():
                ty = None
                if c.ty and c.ty.startswith("("):
                    ty = split_top(c.ty[1:-1])[int(e[2])].strip()
                return Code(f"{c.val}.{int(e[2]) + 1}", ty, c.pre)
            raise TErr(f"{self.u.name}::{env.fn.name}: field `.{e[2]}` of a non-state value")
        if k == "matches":
            c = self.cexpr(e[1], env)
            if e[3] is not None:
                raise TErr("matches! with guard")
            arms, closed = [], False
            for (pat, conds, binds) in self.cpat_alts(e[2], env, c.ty):
                body = "true" if not conds else " && ".join(conds)
                arms.append(f"| {pat} => {body}")
                closed = closed or is_irrefutable(pat)
            uni = ctor_universe(c.ty)
            covered = {ctor_of(a[2:].split(" =>")[0]) for a in arms}
            if not closed and not (uni and covered >= uni):
                arms.append("| _ => false")
            return Code(f"(match {c.val} with {' '.join(arms)})", "bool", c.pre)
        if k == "index":
            return self.cindex(e, env)
        if k == "mcall":
            return self.cmcall(e, env, hint)
        if k == "call":
            return self.ccall(e, env, hint)
        if k == "macro":
            return self.cmacro(e, env)
        if k in ("if", "iflet", "match", "block"):
            # value-producing control flow in expression position: bind it to a temp
            t = env.fresh()
            lines = self.cvalue(e, env, hint)
            ty = self._last_value_ty
            if k == "block":
                # a statement sequence needs its own `do` (an `if` / `match` is a single do-element)
                return Code(t, ty, [f"let {t} ← do", lines])
            return Code(t, ty, [f"let {t} ←", lines])
        if k == "struct":
            h = getattr(self.u, "struct_handler", None)
            if h:
                return h(self, e, env, hint)
            raise TErr(f"{self.u.name}::{env.fn.name}: struct literal `{'::'.join(e[1])}` has no translation")
        if k == "range":
            raise TErr(f"{self.u.name}::{env.fn.name}: range expression outside an index")
        if k == "str":
            if getattr(self.u, "str_bytes", False):     # units that use string literals as values: their bytes
                return Code("[" + ", ".join(str(b) for b in bytes(e[1])) + "]", "str")
            return Code("()", "str")
        if k == "try" and getattr(self.u, "try_handler", None):
            # `e?`: what propagating the error means depends on the unit's encoding of `Result`
            return self.u.try_handler(self, e, env, hint)
        if getattr(self.u, "expr_handler", None):
            # expression kinds only some units use (array literals `[a, b]`, `[v; n]`)
            r = self.u.expr_handler(self, e, env, hint)
            if r is not None:
                return r
        raise TErr(f"{self.u.name}::{env.fn.name}: expression `{k}` is outside the translated subset")

    def cbin(self, e, env, hint):
        op, a, b = e[1], e[2], e[3]
        if op in ("&&", "||"):
            ca = self.cexpr(a, env, "bool")
            cb = self.cexpr(b, env, "bool")
            if not cb.pre:
                return Code(f"({ca.val} {op} {cb.val})", "bool", ca.pre)
            # effects on the right: run them only when Rust does
            t = env.fresh()
            if op == "&&":
                blk = [f"let {t} ← if {ca.val} then", cb.pre + [f"pure {cb.val}"], "else", ["pure false"]]
            else:
                blk = [f"let {t} ← if {ca.val} then", ["pure true"], "else", cb.pre + [f"pure {cb.val}"]]
            return Code(t, "bool", ca.pre + blk)
        ta = self.tyof(a, env)
        tb = self.tyof(b, env)
        if op in ("<<", ">>"):
            ca = self.cexpr(a, env, ta or hint)
            t = ca.ty
            if b[0] == "lit":
                amt = str(b[1])
            else:
                cb = self.cexpr(b, env, "u32")
                if cb.ty in ("u32", "u64"):
                    amt = f"({cb.val}).toNat"
                else:
                    amt = cb.val
                ca.pre += cb.pre
            if t in ("u64", "u32"):
                return Code(f"({ca.val} {'<<<' if op == '<<' else '>>>'} {amt})", t, ca.pre)
            if t == "usize" and op == "<<":
                if getattr(self.u, "wrapping_usize_shl", False):
                    return Code(f"(({ca.val} * 2 ^ {amt}) % 2 ^ 64)", t, ca.pre)   # bits shifted out are lost
                return Code(f"({ca.val} * 2 ^ {amt})", t, ca.pre)
            if t == "usize" and op == ">>":
                return Code(f"({ca.val} / 2 ^ {amt})", t, ca.pre)
            raise TErr(f"{self.u.name}::{env.fn.name}: shift on type {t}")
        t = ta or tb or (hint if op not in ("==", "!=", "<", ">", "<=", ">=") else None)
        ca = self.cexpr(a, env, t)
        cb = self.cexpr(b, env, ca.ty or t)
        t = ca.ty or cb.ty or t
        if ca.ty is None and cb.ty is not None:
            ca = self.cexpr(a, env, cb.ty)
        pre = ca.pre + cb.pre
        if op in ("==", "!="):
            v = f"({ca.val} == {cb.val})" if op == "==" else f"({ca.val} != {cb.val})"
            return Code(v, "bool", pre)
        if op in ("<", ">", "<=", ">="):
            lop = {"<": "<", ">": ">", "<=": "≤", ">=": "≥"}[op]
            return Code(f"decide ({ca.val} {lop} {cb.val})", "bool", pre)
        if t == "usize" or t is None:
            if op == "+" and getattr(self.u, "checked_add", False):
                tmp = env.fresh()
                return Code(tmp, "usize", pre + [f"let {tmp} ← {self.u.uadd} {paren(ca.val)} {paren(cb.val)}"])
            if op == "*" and getattr(self.u, "checked_mul", False):
                tmp = env.fresh()
                return Code(tmp, "usize", pre + [f"let {tmp} ← {self.u.umul} {paren(ca.val)} {paren(cb.val)}"])
            if op in ("+", "*", "/", "%"):
                return Code(f"({ca.val} {op} {cb.val})", "usize", pre)
            if op == "-":
                tmp = env.fresh()
                return Code(tmp, "usize", pre + [f"let {tmp} ← {self.u.usub} {paren(ca.val)} {paren(cb.val)}"])
            if op == "&" and t == "usize":
                return Code(f"({ca.val} &&& {cb.val})", "usize", pre)
            if op == "|" and t == "usize":
                return Code(f"({ca.val} ||| {cb.val})", "usize", pre)
        if t in ("u64", "u32"):
            m = {"&": "&&&", "|": "|||", "^": "^^^", "+": "+", "-": "-", "*": "*", "/": "/"}
            if op in m:
                return Code(f"({ca.val} {m[op]} {cb.val})", t, pre)
        if t == "u8" and op == "-":
            return Code(f"({ca.val} - {cb.val})", "u8", pre)
        if t == "u8" and op in ("&", "|"):
            return Code(f"({ca.val} {'&&&' if op == '&' else '|||'} {cb.val})", "u8", pre)
        if t == "bool" and op in ("|", "&"):
            return Code(f"({ca.val} {'||' if op == '|' else '&&'} {cb.val})", "bool", pre)
        raise TErr(f"{self.u.name}::{env.fn.name}: operator `{op}` on type {t}")

    def cindex(self, e, env):
        base, idx = e[1], e[2]
        if getattr(self.u, "index_handler", None):
            # units whose state has no buffer value (`reader.buf()[..]` over the view)
            r = self.u.index_handler(self, e, env)
            if r is not None:
                return r
        cb = self.cexpr(base, env)
        if idx[0] == "range":
            lo = self.cexpr(idx[1], env, "usize") if idx[1] is not None else Code("0", "usize")
            if idx[2] is not None:
                hi = self.cexpr(idx[2], env, "usize")
            else:
                hi = Code(f"{paren(cb.val)}.length", "usize")
            if idx[3]:
                raise TErr("inclusive range index")
            t = env.fresh()
            pre = cb.pre + lo.pre + hi.pre + [f"let {t} ← {self.u.lift_opt} (sliceChecked {paren(cb.val)} {paren(lo.val)} {paren(hi.val)})"]
            return Code(t, "[u8]", pre)
        ci = self.cexpr(idx, env, "usize")
        t = env.fresh()
        pre = cb.pre + ci.pre + [f"let {t} ← {self.u.lift_opt} (indexChecked {paren(cb.val)} {paren(ci.val)})"]
        return Code(t, "u8", pre)

    def cmacro(self, e, env):
        name, args = e[1], e[2]
        if name in ("assert", "debug_assert"):
            if not args:
                raise TErr("assert! arguments")
            c = self.cexpr(args[0], env, "bool")
            return Code("()", "()", c.pre + [f"{self.u.assert_} {paren(c.val)}"])
        if name in ("panic", "unreachable", "unimplemented", "todo"):
            return Code("()", "!", [f"{self.u.panic}"])
        h = self.u.macros.get(name)
        if h:
            return h(self, e, env)
        raise TErr(f"{self.u.name}::{env.fn.name}: macro `{name}!` has no translation")

    def cargs(self, args, env, hints=None):
        cs = []
        for i, a in enumerate(args):
            cs.append(self.cexpr(a, env, hints[i] if hints and i < len(hints) else None))
        return cs

    def ccall(self, e, env, hint):
        f, args = e[1], e[2]
        if f[0] != "path":
            raise TErr(f"{self.u.name}::{env.fn.name}: call of a computed function")
        name = "::".join(f[1])
        # constructors
        if name == "Some":
            c = self.cexpr(args[0], env, opt_inner(hint))
            return Code(f"(some {paren(c.val)})", f"Option<{c.ty}>", c.pre)
        if name in ("Ok", "Err") and name not in self.u.functions:
            c = self.cexpr(args[0], env)
            return Code(f"({'Except.ok' if name == 'Ok' else 'Except.error'} {paren(c.val)})", hint, c.pre)
        # a closure parameter applied to arguments
        if len(f[1]) == 1 and f[1][0] in env.vars and (env.vars[f[1][0]][1] or "").startswith("impl Fn"):
            ln, cty = env.vars[f[1][0]]
            cs = self.cargs(args, env)
            ret = norm_ty(cty.split("->", 1)[1]) if "->" in cty else "()"
            app = ln + "".join(" " + paren(c.val) for c in cs) if cs else f"{ln} ()"
            return Code(f"({app})", ret, [p for c in cs for p in c.pre])
        # functions of this unit (free functions, `Self::f`)
        short = f[1][-1]
        tgt = self.u.local_fn(short, f[1])
        if tgt is not None:
            return self.call_local(tgt, args, env, skip_state=True)
        h = self.u.functions.get(name) or self.u.functions.get(short)
        if h:
            return h(self, e, env, hint)
        raise TErr(f"{self.u.name}::{env.fn.name}: call of `{name}` has no translation")

    def call_local(self, tgt, args, env, skip_state):
        """Call of another translated function of the unit."""
        fn, lean = tgt
        if getattr(self.u, "ghost_params", {}).get(fn.name):
            raise TErr(f"{self.u.name}::{env.fn.name}: call of `{fn.name}`, which has ghost parameters")
        params = [p for p in fn.params if p[0] != "self"]
        cs, pre = [], []
        ai = 0
        for (pat, pty) in params:
            if ai >= len(args):
                raise TErr(f"arity mismatch calling {fn.name}")
            a = args[ai]
            ai += 1
            if self.u.is_state_type(pty):
                if not self.is_state(a, env):
                    raise TErr(f"{self.u.name}::{env.fn.name}: `{fn.name}` is called on something that is not the unit's state")
                continue
            c = self.cexpr(a, env, norm_ty(pty))
            pre += c.pre
            cs.append(paren(c.val))
        targs = self.gb(fn)[1]
        need = getattr(self.u, "extra_binders", {}).get(fn.name)
        if need and need != getattr(self.u, "extra_binders", {}).get(env.fn.name):
            raise TErr(f"{self.u.name}::{env.fn.name}: calls `{fn.name}`, which needs the extra parameters {need}")
        ret = norm_ty(fn.ret) if fn.ret else "()"
        if ret == "!":
            return Code("()", "!", pre + [f"{self.u.panic}"])
        t = env.fresh()
        call = f"{lean}{targs}" + "".join(" " + c for c in cs)
        if ret == "()":
            return Code("()", "()", pre + [call])
        return Code(t, ret, pre + [f"let {t} ← {call}"])

    def cmcall(self, e, env, hint):
        recv, name, args = e[1], e[2], e[3]
        # 1. method of the state object itself
        if self.is_state(recv, env):
            if name in self.u.state_subobjects and not args:
                raise TErr("state sub-object used as a value")
            tgt = self.u.local_method(name)
            if tgt is not None:
                return self.call_local(tgt, args, env, skip_state=False)
            h = self.u.state_methods.get(name)
            if h:
                return h(self, e, env, hint)
            raise TErr(f"{self.u.name}::{env.fn.name}: method `{name}` of the state object has no translation")
        # 2. method of a field of the state object
        f = self.state_field(recv, env)
        if f:
            h = self.u.field_methods.get((f["ty"], name))
            if h:
                return h(self, f, e, env, hint)
            # fall through to value methods on the field's value
        # 3. method chains with a dedicated handler (matched on the syntactic shape)
        for h in self.u.chain_handlers:
            r = h(self, e, env, hint)
            if r is not None:
                return r
        # 4. method of a value
        c = self.cexpr(recv, env)
        h = self.u.value_methods.get((c.ty, name)) or self.u.value_methods.get(("*", name))
        if h:
            return h(self, c, e, env, hint)
        raise TErr(f"{self.u.name}::{env.fn.name}: method `.{name}()` on type {c.ty} has no translation")

    # ------------------------------------------------------------------ patterns
    def cpat(self, p, env, ty):
        """-> (lean pattern, [Bool conditions], {rust name: (lean name, type)})"""
        k = p[0]
        if k == "pwild":
            return "_", [], {}
        if k == "pref":
            return self.cpat(p[1], env, ty)
        if k == "pbind":
            ln = lname(p[1])
            if p[4] is None:
                return ln, [], {p[1]: (ln, ty)}
            sub, conds, binds = self.cpat_cond(p[4], ln, ty)
            binds[p[1]] = (ln, ty)
            return ln, conds, binds
        if k == "plit":
            l = p[1]
            if l[0] == "byte":
                # a byte literal is matched by a variable and a Boolean test (Lean's literal patterns on
                # UInt8 compile to decision trees that `simp`/`split` handle badly)
                v = env.fresh("b")
                return v, [f"({v} == {l[1]})"], {}
            if l[0] == "lit":
                return str(l[1]), [], {}
            if l[0] == "bool":
                return ("true" if l[1] else "false"), [], {}
            if l[0] == "str":
                return "_", [], {}
            raise TErr(f"literal pattern {l}")
        if k == "prange":
            v = env.fresh("b")
            _, conds, _ = self.cpat_cond(p, v, ty)
            return v, conds, {}
        if k == "ptuple":
            tys = split_top(ty[1:-1]) if ty and ty.startswith("(") else [None] * len(p[1])
            ps, conds, binds = [], [], {}
            for q, t in zip(p[1], tys):
                a, c, b = self.cpat(q, env, t.strip() if t else None)
                ps.append(a)
                conds += c
                binds.update(b)
            return "(" + ", ".join(ps) + ")", conds, binds
        if k == "pts":
            ctor = "::".join(p[1])
            inner_ty = None
            if ctor == "Some":
                lc = "some"
                inner_ty = opt_inner(ty)
            elif ctor == "Ok":
                lc = ".ok"
                inner_ty = res_ok(ty)
            elif ctor == "Err":
                lc = ".error"
                inner_ty = res_err(ty)
            else:
                m = self.u.ctors.get(ctor)
                if not m:
                    raise TErr(f"{self.u.name}: constructor pattern `{ctor}` has no translation")
                lc = m
            ps, conds, binds = [], [], {}
            arg_tys = getattr(self.u, "ctor_arg_types", {}).get(ctor)   # Rust types of the fields of a unit's own constructors
            for qi, q in enumerate(p[2]):
                a, c, b = self.cpat(q, env, arg_tys[qi] if arg_tys and qi < len(arg_tys) else inner_ty)
                ps.append(a if re.fullmatch(r"[\w'.]+", a) else f"({a})")
                conds += c
                binds.update(b)
            return f"{lc} " + " ".join(ps), conds, binds
        if k == "ppath":
            ctor = "::".join(p[1])
            if ctor == "None":
                return "none", [], {}
            m = self.u.ctors.get(ctor)
            if m:
                return m, [], {}
            raise TErr(f"{self.u.name}: path pattern `{ctor}` has no translation")
        if k == "por":
            alts = self.cpat_alts(p, env, ty)
            if len(alts) != 1:
                raise TErr(f"{self.u.name}: or-pattern whose alternatives have different shapes is only translated in matches! and match arms")
            return alts[0]
        if getattr(self.u, "pat_handler", None):
            # pattern kinds only some units use (slice patterns `[a, b]` of fixed-size arrays)
            r = self.u.pat_handler(self, p, env, ty)
            if r is not None:
                return r
        raise TErr(f"{self.u.name}: pattern `{k}` is outside the translated subset")

    def cpat_alts(self, p, env, ty):
        """Alternatives of a pattern as a list of (lean pattern, conditions, bindings).  Alternatives of an
        or-pattern that have the same shape up to variable names (`Some(b' ') | Some(b'\t')`) are merged
        into one pattern whose condition is the disjunction."""
        if p[0] != "por":
            return [self.cpat(p, env, ty)]
        out = []
        for q in p[1]:
            for (lp, conds, binds) in self.cpat_alts(q, env, ty):
                if binds:
                    raise TErr("or-pattern with bindings")
                shape = re.sub(r"\bb\d+\b", "?", lp)
                merged = False
                for i, (lp0, conds0, _) in enumerate(out):
                    if re.sub(r"\bb\d+\b", "?", lp0) == shape and conds and conds0:
                        vars0 = re.findall(r"\bb\d+\b", lp0)
                        vars1 = re.findall(r"\bb\d+\b", lp)
                        cs = list(conds)
                        for a, b in zip(vars1, vars0):
                            cs = [re.sub(r"\b" + a + r"\b", b, c) for c in cs]
                        c0 = " && ".join(conds0)
                        c1 = " && ".join(cs)
                        out[i] = (lp0, [f"({c0} || {c1})"], {})
                        merged = True
                        break
                if not merged:
                    out.append((lp, conds, {}))
        return out

    def cpat_cond(self, p, var, ty):
        """Condition that variable `var` matches the (range / literal) subpattern."""
        if p[0] == "prange":
            lo, hi = p[1], p[2]
            return var, [f"decide ({lo[1]} ≤ {var})", f"decide ({var} ≤ {hi[1]})"], {}
        if p[0] == "plit":
            return var, [f"({var} == {p[1][1]})"], {}
        raise TErr("unsupported @-subpattern")

    # ------------------------------------------------------------------ statements / blocks
    def cvalue(self, e, env, hint=None):
        """A do-block (list of lines) whose result is the value of expression `e`."""
        self._last_value_ty = None
        k = e[0]
        if k == "block":
            sub = env.child()
            lines = self.cstmts(e[1], sub)
            if e[2] is None:
                self._last_value_ty = "()"
                if lines and is_terminal(lines[-1]) and lines[-1].startswith("return "):
                    self._last_value_ty = "!"
                    return lines
                return lines + ["pure ()"]
            if e[2][0] in ("loop", "while", "whilelet", "for", "labeled", "assign"):
                lines += self.cstmt(("expr", e[2], True), sub)
                self._last_value_ty = "()"
                return lines + ["pure ()"]
            return lines + self.cvalue_tail(e[2], sub, hint)
        return self.cvalue_tail(e, env, hint)

    def cvalue_tail(self, e, env, hint):
        k = e[0]
        if k == "paren":
            return self.cvalue_tail(e[1], env, hint)
        if k == "block":
            return self.cvalue(e, env, hint)
        if k == "if":
            c = self.cexpr(e[1], env, "bool")
            th = self.cvalue(e[2], env, hint)
            tty = self._last_value_ty
            if e[3] is None:
                el = ["pure ()"]
            else:
                el = self.cvalue(e[3], env, hint)
                tty = tty or self._last_value_ty
            self._last_value_ty = tty
            return c.pre + [f"if {c.val} then", th, "else", el]
        if k == "iflet":
            c = self.cexpr(e[2], env)
            pat, conds, binds = self.cpat(e[1], env, c.ty)
            sub = env.child()
            sub.vars.update(binds)
            th = self.cvalue(e[3], sub, hint)
            tty = self._last_value_ty
            el = self.cvalue(e[4], env, hint) if e[4] is not None else ["pure ()"]
            tty = tty or self._last_value_ty
            self._last_value_ty = tty
            if conds:
                th = [f"if {' && '.join(conds)} then", th, "else", el]
            if pat == "_" or is_irrefutable(pat):
                return c.pre + [f"match {c.val} with", f"| {pat} =>", th]
            return c.pre + [f"match {c.val} with", f"| {pat} =>", th, "| _ =>", el]
        if k == "match":
            return self.cmatch(e, env, hint, lambda body, sub: self.cvalue(body, sub, hint))
        if k == "return":
            self._last_value_ty = "!"
            return self.creturn(e[1], env)
        if k in ("break", "continue", "breakv"):
            self._last_value_ty = "!"
            return self.cjump(e, env)
        c = self.cexpr(e, env, hint)
        self._last_value_ty = c.ty
        if c.ty == "!":
            return c.pre
        return c.pre + [f"pure {paren(c.val)}"]

    def cmatch(self, e, env, hint, body_fn):
        """match with optional guards: arms are tried in order; a failed guard (or a failed test of a
        byte literal / range) falls through to the remaining arms (a nested match on the same value).
        Rust guarantees the arms are exhaustive; where the nested Lean match would not be, the
        impossible remainder is `panic`."""
        c = self.cexpr(e[1], env)
        # or-patterns whose alternatives differ in shape become separate arms with the same body
        arms = []
        for (pat, guard, body) in e[2]:
            if pat[0] == "por" and getattr(self.u, "split_or_bindings", False):
                # `A(x) | B(x) => body`: one arm per alternative, each with the same body
                for q in pat[1]:
                    arms.append((q, guard, body))
                continue
            if pat[0] == "por":
                probe = self.cpat_alts(pat, env.child(), c.ty)
                if len(probe) > 1:
                    for q in pat[1]:
                        arms.append((q, guard, body))
                    continue
            arms.append((pat, guard, body))
        all_ctors = ctor_universe(c.ty)

        def rest(i, covered):
            """Lean code trying arms[i:], given the constructors already fully covered before."""
            while i < len(arms) and ctor_of(self.cpat(arms[i][0], env.child(), c.ty)[0]) in covered:
                i += 1
            if i < len(arms) and arms[i][1] is None:
                lp0, conds0, binds0 = self.cpat(arms[i][0], env.child(), c.ty)
                if is_irrefutable(lp0) and not conds0 and lp0 in ("_",) :
                    body = arms[i][2]
                    return body_fn(body if body[0] == "block" else ("block", [], body, False), env.child())
            out = [f"match {c.val} with"]
            cov = set(covered)
            j = i
            while j < len(arms):
                pat, guard, body = arms[j]
                lp, conds, binds = self.cpat(pat, env, c.ty)
                if ctor_of(lp) in cov:
                    j += 1          # this constructor was excluded by an enclosing `| _ =>`
                    continue
                sub = env.child()
                sub.vars.update(binds)
                b = body_fn(body if body[0] == "block" else ("block", [], body, False), sub)
                if conds or guard is not None:
                    if j + 1 >= len(arms):
                        raise TErr("guarded last arm")
                    fall = rest(j + 1, set())
                    inner = b
                    if guard is not None:
                        g = self.cexpr(guard, sub, "bool")
                        inner = g.pre + [f"if {g.val} then", b, "else", fall]
                    if conds:
                        inner = [f"if {' && '.join(conds)} then", inner, "else", fall]
                    out += [f"| {lp} =>", inner]
                    this = ctor_of(lp)
                    if is_irrefutable(lp) or (all_ctors and this and cov | {this} >= all_ctors):
                        return out
                    out += ["| _ =>", rest(j + 1, cov | ({this} if this else set()))]
                    return out
                out += [f"| {lp} =>", b]
                if is_irrefutable(lp):
                    return out
                this = ctor_of(lp)
                if this:
                    cov.add(this)
                if all_ctors and cov >= all_ctors:
                    return out
                j += 1
            if not (all_ctors and cov >= all_ctors) and not getattr(self.u, "trust_exhaustive", False):
                out += ["| _ =>", [self.u.panic]]
            return out

        return c.pre + rest(0, set())

    def creturn(self, val, env):
        if val is None:
            v = Code("()", "()")
        else:
            v = self.cexpr(val, env, self.fn_ret_rust)
        if v.ty == "!":
            return v.pre
        if env.loop:
            return v.pre + [f"return (Ctl.ret {paren(v.val)})"]
        return v.pre + [f"return {paren(v.val)}"]

    def cjump(self, e, env):
        if not env.loop:
            raise TErr("break/continue outside a loop")
        if e[0] == "breakv":
            # `break <value>`: only in a `loop` that is the tail expression of the function, where the value of
            # the loop is the function's result (`Ctl.ret`)
            if not env.loop.get("value"):
                raise TErr(f"{self.u.name}::{env.fn.name}: `break <value>` in a loop that is not the function's tail expression")
            if e[1] is not None and e[1] != env.loop.get("label"):
                raise TErr("jump to an outer loop label")
            v = self.cexpr(e[2], env, self.fn_ret_rust)
            if v.ty == "!":
                return v.pre
            return v.pre + [f"return (Ctl.ret {paren(v.val)})"]
        if len(e) > 1 and e[1] is not None and e[1] != env.loop.get("label"):
            raise TErr("jump to an outer loop label")
        muts = tuple_of([env.vars[m][0] for m in env.loop["muts"]])
        if e[0] == "break":
            return [f"return (Ctl.brk {muts})"]
        return [f"return (← {env.loop['call']} {muts})"]

    def cstmts(self, stmts, env):
        out = []
        for st in stmts:
            if out and isinstance(out[-1], str) and out[-1].startswith("return "):
                break          # unreachable in Rust as well (after break / continue / return)
            out += self.cstmt(st, env)
        return out

    def declare(self, env, rust_name, ty, mutable):
        ln = lname(rust_name)
        env.vars[rust_name] = (ln, ty)
        return ln

    def cstmt(self, st, env):
        k = st[0]
        if k == "let":
            pat, ann, init = st[1], st[2], st[3]
            if st[4] is not None:
                raise TErr("let-else")
            if init is None:
                raise TErr("let without initialiser")
            hint = norm_ty(ann) if ann else None
            if pat[0] == "pbind" and self.is_state(init, env):
                env.vars.pop(pat[1], None)
                env.aliases.add(pat[1])          # an alias of the state object: no Lean value
                return []
            if getattr(self.u, "state_aliases", False) and pat[0] == "pbind" and init[0] == "struct":
                # `let mut new = Self { .. }` (a struct literal that the unit translates as an assignment of the
                # state): the name denotes the state object from here on
                c = self.cexpr(init, env, hint)
                if c.ty == "&state":
                    env.vars.pop(pat[1], None)
                    env.aliases.add(pat[1])
                    return c.pre
            if init[0] == "lit" and hint is None and getattr(self.u, "int_literal_default", None):
                hint = self.u.int_literal_default
            if init[0] == "block":
                # `let x = { stmts; tail }` / `unsafe { .. }`: the statements run in place
                pre_lines = self.cstmts(init[1], env)
                if init[2] is None:
                    raise TErr("block without value in a let")
                return pre_lines + self.cstmt(("let", pat, ann, init[2], None), env)
            if init[0] in ("if", "iflet", "match"):
                lines = self.cvalue(init, env, hint)
                ty = hint or self._last_value_ty
                lp, muts = self.let_pattern(pat, env, ty)
                if lp.startswith("="):
                    tmp = env.fresh()
                    return [f"let {tmp} ←", lines, f"{lp[1:]} := {tmp}"]
                return [f"let {lp} ←", lines] + muts
            c = self.cexpr(init, env, hint)
            ty = hint or c.ty
            lp, muts = self.let_pattern(pat, env, ty)
            if lp.startswith("="):
                return c.pre + [f"{lp[1:]} := {c.val}"]
            return c.pre + [f"let {lp} := {c.val}"] + muts
        if k == "assign":
            return self.cassign(st, env)
        if k == "expr":
            e = st[1]
            if e[0] == "assign":
                return self.cassign(e, env)
            if e[0] in ("if", "iflet", "match", "block", "loop", "while", "whilelet", "for", "labeled", "return", "break", "continue", "breakv"):
                return self.cflow(e, env)
            c = self.cexpr(e, env)
            if c.ty in ("()", "!", None) or c.val == "()":
                return c.pre
            return c.pre + [f"let _ := {c.val}"]
        if k == "const":
            c = self.cexpr(st[3], env, norm_ty(st[2]))
            ln = self.declare(env, st[1], norm_ty(st[2]), False)
            return c.pre + [f"let {ln} : {self.lean_type(norm_ty(st[2]))} := {c.val}"]
        if k == "item":
            return []
        raise TErr(f"statement `{k}`")

    def is_lean_mut(self, env, rust_name):
        owner = env
        while hasattr(owner, "tmp_owner"):
            owner = owner.tmp_owner
        return rust_name in getattr(owner, "lean_muts", set()) and rust_name in env.vars

    def mark_lean_mut(self, env, rust_name):
        owner = env
        while hasattr(owner, "tmp_owner"):
            owner = owner.tmp_owner
        if not hasattr(owner, "lean_muts"):
            owner.lean_muts = set()
        owner.lean_muts.add(rust_name)

    def let_pattern(self, pat, env, ty):
        """Declare the variables of a let pattern; returns (lean pattern, extra `let mut` lines).
        A Rust `let` that shadows a variable which is mutable on the Lean side becomes an assignment
        (Lean does not allow shadowing a `let mut`; the shadowed variable is dead in Rust anyway)."""
        if pat[0] == "pbind":
            if self.is_lean_mut(env, pat[1]):
                ln = env.vars[pat[1]][0]
                env.vars[pat[1]] = (ln, ty)
                return "=" + ln, []
            ln = self.declare(env, pat[1], ty, pat[3])
            if pat[3]:
                self.mark_lean_mut(env, pat[1])
            return (f"mut {ln}" if pat[3] else ln), []
        if pat[0] == "pwild":
            return "_", []
        if pat[0] == "ptuple":
            tys = split_top(ty[1:-1]) if ty and ty.startswith("(") else [None] * len(pat[1])
            names, muts = [], []
            for q, t in zip(pat[1], tys):
                t = t.strip() if t else None
                if q[0] == "pbind":
                    if self.is_lean_mut(env, q[1]):
                        raise TErr("tuple let that shadows a mutable variable")
                    ln = self.declare(env, q[1], t, q[3])
                    names.append(ln)
                    if q[3]:
                        muts.append(f"let mut {ln} := {ln}")
                        self.mark_lean_mut(env, q[1])
                elif q[0] == "pwild":
                    names.append("_")
                else:
                    raise TErr("nested let pattern")
            return "(" + ", ".join(names) + ")", muts
        raise TErr(f"let pattern {pat[0]}")

    def cassign(self, st, env):
        op, lhs, rhs = st[1], st[2], st[3]
        lhs = strip_ref(lhs)
        if getattr(self.u, "assign_handler", None):
            # assignment targets only some units use (`bytes[i] = v` on a local array)
            r = self.u.assign_handler(self, st, env)
            if r is not None:
                return r
        f = self.state_field(lhs, env)
        if f:
            c = self.cexpr(rhs, env, f["ty"])
            val = c.val
            if f.get("set"):
                val = f["set"].format(val)
            if op == "=":
                t = env.fresh("v")
                return c.pre + [f"let {t} := {val}", f"{self.u.modify} fun r => {{ r with {f['lean']} := {t} }}"]
            else:
                t = env.fresh("v")
                c.pre.append(f"let {t} := {val}")
                val = t
                h = f.get("ops", {}).get(op)
                if h:
                    new = h.format(old=f"r.{f['lean']}", v=val)
                elif op in ("+=",) and f["ty"] == "usize" and getattr(self.u, "checked_add", False):
                    t2 = env.fresh()
                    return c.pre + [f"let {t2} ← {self.u.uadd} (← {self.u.get}).{f['lean']} {paren(val)}",
                                    f"{self.u.modify} fun r => {{ r with {f['lean']} := {t2} }}"]
                elif op in ("+=",) and f["ty"] == "usize":
                    new = f"r.{f['lean']} + {val}"
                elif op == "-=" and f["ty"] == "usize":
                    # checked subtraction on a field
                    t = env.fresh()
                    return c.pre + [f"let {t} ← {self.u.usub} (← {self.u.get}).{f['lean']} {paren(val)}",
                                    f"{self.u.modify} fun r => {{ r with {f['lean']} := {t} }}"]
                else:
                    raise TErr(f"{self.u.name}::{env.fn.name}: `{op}` on field {f['lean']}")
            return c.pre + [f"{self.u.modify} fun r => {{ r with {f['lean']} := {new} }}"]
        if lhs[0] == "path" and len(lhs[1]) == 1 and lhs[1][0] in env.vars:
            ln, ty = env.vars[lhs[1][0]]
            c = self.cexpr(rhs, env, ty)
            if op == "=":
                return c.pre + [f"{ln} := {c.val}"]
            bop = op[:-1]
            cc = self.cbin(("bin", bop, lhs, rhs), env, ty)
            return cc.pre + [f"{ln} := {cc.val}"]
        if (op == "=" and lhs[0] == "path" and len(lhs[1]) == 1 and lhs[1][0] in getattr(env, "aliases", ())
                and self.is_state(rhs, env)):
            # `input = &mut self.reader;` where `input` already aliases the state object: a re-borrow of the same
            # object, no Lean value changes
            return []
        raise TErr(f"{self.u.name}::{env.fn.name}: assignment target is outside the translated subset")

    def cflow(self, e, env):
        k = e[0]
        if k == "return":
            return self.creturn(e[1], env)
        if k in ("break", "continue", "breakv"):
            return self.cjump(e, env)
        if k == "block":
            sub = env.child()
            lines = self.cstmts(e[1], sub)
            if e[2] is not None:
                lines += self.cstmt(("expr", e[2], True), sub)
            self.merge_vars(env, sub)
            return lines
        if k == "if":
            c = self.cexpr(e[1], env, "bool")
            th = self.cflow(e[2], env) or ["pure ()"]
            out = c.pre + [f"if {c.val} then", th]
            if e[3] is not None:
                el = self.cflow(e[3], env) or ["pure ()"]
                out += ["else", el]
            return out
        if k == "iflet":
            c = self.cexpr(e[2], env)
            pat, conds, binds = self.cpat(e[1], env, c.ty)
            sub = env.child()
            sub.vars.update(binds)
            th = self.cflow(e[3], sub) or ["pure ()"]
            el = (self.cflow(e[4], env) if e[4] is not None else []) or ["pure ()"]
            if conds:
                th = [f"if {' && '.join(conds)} then", th, "else", el]
            if is_irrefutable(pat):
                return c.pre + [f"match {c.val} with", f"| {pat} =>", th]
            return c.pre + [f"match {c.val} with", f"| {pat} =>", th, "| _ =>", el]
        if k == "match":
            return self.cmatch(e, env, None, lambda body, sub: (self.cflow(body, sub) or ["pure ()"]))
        if k == "labeled":
            return self.cloop(e[2], env, e[1])
        if k in ("loop", "while", "whilelet", "for"):
            return self.cloop(e, env, None)
        raise TErr(f"flow `{k}`")

    def merge_vars(self, env, sub):
        pass

    def gb(self, fn):
        """(binders, arguments) every definition derived from `fn` carries: the integer-type parameter
        of generic functions and the unit's extra (ghost) parameters."""
        bs, as_ = [], []
        if (fn.generics or getattr(self.u, "always_generic", False)) and self.u.generic_binder:
            bs.append(self.u.generic_binder)
            as_.append(self.u.generic_arg)
        x = getattr(self.u, "extra_binders", {}).get(fn.name)
        if x:
            bs.append(x)
            as_ += re.findall(r"\((\w+)\s*:", x)
        return ("".join(" " + b for b in bs), "".join(" " + a for a in as_))

    # ------------------------------------------------------------------ loops
    def cloop(self, e, env, label, value=False):
        k = e[0]
        body = e[-1]
        owner = env
        while hasattr(owner, "tmp_owner"):
            owner = owner.tmp_owner
        owner.nloops += 1
        my_n = owner.nloops          # this loop's own number (nested loops increase `owner.nloops` further)
        lname_ = f"{self.cur_lean_name}.loop{owner.nloops}"
        assigned = set()
        used = set()
        collect(e, assigned, used)
        if getattr(self.u, "loop_assigned", None):
            # units whose loops assign locals through calls (`r.next_x()` with `&mut self` on a local)
            assigned |= self.u.loop_assigned(e, env)
        inner = set()
        bound_names(e, inner)
        muts = [v for v in env.vars if v in assigned]
        caps = [v for v in env.vars if v in used and v not in assigned and v not in inner]
        for m in muts + caps:
            if env.vars[m][1] is None:
                raise TErr(f"{self.u.name}::{env.fn.name}: cannot type loop variable `{m}`")
        mut_tys = [self.lean_type(env.vars[m][1]) for m in muts]
        mu = " × ".join(mut_tys) if muts else "Unit"
        if len(muts) > 1:
            mu = "(" + mu + ")"
        cap_binders = "".join(f" ({env.vars[c][0]} : {self.lean_type(env.vars[c][1])})" for c in caps)
        cap_args = "".join(" " + env.vars[c][0] for c in caps)
        gen, gen_arg = self.gb(env.fn)
        sub = env.child()
        sub.loop = dict(muts=muts, label=label, call=f"{lname_}{gen_arg}{cap_args} fuel", value=value)
        mut_pat = tuple_of([env.vars[m][0] for m in muts])
        lines = [f"let mut {env.vars[m][0]} := {env.vars[m][0]}" for m in muts]
        brk = [f"return (Ctl.brk {mut_pat})"]
        again = [f"{lname_}{gen_arg}{cap_args} fuel {mut_pat}"]
        if k == "loop":
            lines += self.cstmts(body[1], sub)
            if body[2] is not None:
                lines += self.cstmt(("expr", body[2], True), sub)
            last = body[2] if body[2] is not None else (body[1][-1][1] if body[1] and body[1][-1][0] == "expr" else None)
            if value and last is not None and last[0] == "breakv":
                pass           # the body ends in `break <value>` (possibly of an error: no `return` line)
            elif not (lines and isinstance(lines[-1], str) and lines[-1].startswith("return ")):
                lines += again
        elif k == "while":
            c = self.cexpr(e[1], sub, "bool")
            lines += c.pre + [f"if !{paren(c.val)} then", brk]
            lines += self.cstmts(body[1], sub)
            if body[2] is not None:
                lines += self.cstmt(("expr", body[2], True), sub)
            lines += again
        elif k == "whilelet":
            c = self.cexpr(e[2], sub)
            pat, conds, binds = self.cpat(e[1], sub, c.ty)
            inner = sub.child()
            inner.vars.update(binds)
            b = self.cstmts(body[1], inner)
            if body[2] is not None:
                b += self.cstmt(("expr", body[2], True), inner)
            b += again
            if conds:
                b = [f"if {' && '.join(conds)} then", b, "else", brk]
            lines += c.pre + [f"match {c.val} with", f"| {pat} =>", b, "| _ =>", brk]
        elif k == "for":
            if getattr(self.u, "for_handler", None):
                r = self.u.for_handler(self, e, env, lname_)
                if r is not None:
                    return r
            return self.cfor(e, env, label, lname_, muts, caps, mu, cap_binders, cap_args, gen, gen_arg, mut_pat, brk)
        ret = self.ret_lean_cur
        aux = [f"def {lname_}{gen}{cap_binders} : Nat → {mu} → {self.u.monad} (Ctl {mu} ({ret}))",
               f"  | 0, _ => pure Ctl.fuel",
               f"  | fuel + 1, {mut_pat} => do"] + flatten(lines, 2)
        env.aux.append("\n".join(aux))
        fuel = self.u.fuel.get((env.fn.name, my_n)) or self.u.fuel.get(env.fn.name)
        fuel_panic = (getattr(self.u, 'fuel_panic', {}).get((env.fn.name, my_n))
                      or getattr(self.u, 'fuel_panic', {}).get(env.fn.name, self.u.panic))
        if not fuel:
            raise TErr(f"{self.u.name}: no fuel expression configured for loop {owner.nloops} of `{env.fn.name}`")
        r = env.fresh("r")
        if value:
            # the loop is the function's tail expression and is left only by `break <value>` / `return`
            if env.loop:
                raise TErr("value loop inside a loop")
            return [f"let {r} ← {lname_}{gen_arg}{cap_args} {paren(fuel)} {mut_pat}",
                    f"match {r} with",
                    f"| Ctl.ret v => pure v",
                    f"| Ctl.fuel => {self.u.panic}",
                    f"| Ctl.brk _ => {self.u.panic}"]
        out = [f"let {r} ← {lname_}{gen_arg}{cap_args} {paren(fuel)} {mut_pat}",
               f"match {r} with",
               f"| Ctl.ret v => return v" if not env.loop else f"| Ctl.ret v => return (Ctl.ret v)",
               f"| Ctl.fuel => {fuel_panic}",
               f"| Ctl.brk {mut_pat if muts else '_'} =>"]
        if muts:
            out.append([f"{env.vars[m][0]} := {env.vars[m][0]}" for m in muts] if False else ["pure ()"])
        else:
            out.append(["pure ()"])
        if muts:
            # re-bind the loop-carried variables after the loop
            r2 = out
            fresh = [env.fresh(env.vars[m][0] + "'") for m in muts]
            out = [f"let {r} ← {lname_}{gen_arg}{cap_args} {paren(fuel)} {mut_pat}",
                   f"let {tuple_of(fresh)} ← match {r} with",
                   [f"| Ctl.ret v => return v" if not env.loop else f"| Ctl.ret v => return (Ctl.ret v)",
                    f"| Ctl.fuel => {fuel_panic}",
                    f"| Ctl.brk m => pure m"]]
            out += [f"{env.vars[m][0]} := {f}" for m, f in zip(muts, fresh)]
        return out

    def cfor(self, e, env, label, lname_, muts, caps, mu, cap_binders, cap_args, gen, gen_arg, mut_pat, brk):
        """`for (i, &x) in slice.iter().enumerate() { body }`: structural recursion over the slice
        (no fuel), the index counted up from 0."""
        pat, it, body = e[1], strip_ref(e[2]), e[3]
        ok = (it[0] == "mcall" and it[2] == "enumerate" and it[1][0] == "mcall" and it[1][2] == "iter"
              and pat[0] == "ptuple" and len(pat[1]) == 2)
        plain = it[0] == "mcall" and it[2] == "iter" and not it[3]
        rev = it[0] == "mcall" and it[2] == "rev" and it[1][0] == "mcall" and it[1][2] == "iter"
        # units with `for_slices`: `for x in xs` over a slice variable `xs: &[T]` (elements of type `T`, by reference)
        direct = None
        if not (ok or plain or rev) and getattr(self.u, "for_slices", False) and it[0] == "path":
            m = re.fullmatch(r"\[(.*)\]", (self.tyof(it, env) or "").replace(" ", ""))
            direct = m.group(1) if m else None
        if direct:
            return self.cfor_elems(e, env, label, lname_, muts, caps, mu, cap_binders, cap_args, gen, gen_arg, mut_pat,
                                   self.cexpr(it, env), direct)
        if not (ok or plain or rev):
            raise TErr(f"{self.u.name}::{env.fn.name}: only `for (i, &x) in xs.iter().enumerate()`, `for x in xs.iter()` and `for x in xs.iter().rev()` are translated")
        if ok:
            xs = self.cexpr(it[1][1], env)
            ip, xp = pat[1][0], pat[1][1]
        else:
            xs = self.cexpr(it[1] if plain else it[1][1], env)
            if rev:
                xs = Code(f"({xs.val}).reverse", xs.ty, xs.pre)
            ip, xp = ("pbind", env.fresh("i"), False, False, None), pat
        return self.cfor_tail(e, env, label, lname_, muts, caps, mu, cap_binders, cap_args, gen, gen_arg, mut_pat, xs, ip, xp, "u8")

    def cfor_elems(self, e, env, label, lname_, muts, caps, mu, cap_binders, cap_args, gen, gen_arg, mut_pat, xs, elem_ty):
        """`for x in xs` over a slice of `elem_ty` (units with `for_slices`)."""
        return self.cfor_tail(e, env, label, lname_, muts, caps, mu, cap_binders, cap_args, gen, gen_arg, mut_pat, xs,
                              ("pbind", env.fresh("i"), False, False, None), e[1], elem_ty)

    def cfor_tail(self, e, env, label, lname_, muts, caps, mu, cap_binders, cap_args, gen, gen_arg, mut_pat, xs, ip, xp, elem_ty):
        body = e[3]
        while xp[0] == "pref":
            xp = xp[1]
        if ip[0] != "pbind" or xp[0] != "pbind":
            raise TErr("for pattern")
        sub = env.child()
        iv, xv = lname(ip[1]), lname(xp[1])
        sub.vars[ip[1]] = (iv, "usize")
        sub.vars[xp[1]] = (xv, elem_ty)
        rest_v = env.fresh("rest")
        call = f"{lname_}{gen_arg}{cap_args} {rest_v} ({iv} + 1)"
        sub.loop = dict(muts=muts, label=label, call=call)
        lines = [f"let mut {env.vars[m][0]} := {env.vars[m][0]}" for m in muts]
        lines += self.cstmts(body[1], sub)
        if body[2] is not None:
            lines += self.cstmt(("expr", body[2], True), sub)
        if not ends_in_jump(lines):
            lines += [f"{call} {mut_pat}"]
        ret = self.ret_lean_cur
        aux = [f"def {lname_}{gen}{cap_binders} : List {self.lean_type(elem_ty)} → Nat → {mu} → {self.u.monad} (Ctl {mu} ({ret}))",
               f"  | [], _, {mut_pat} => pure (Ctl.brk {mut_pat})",
               f"  | {xv} :: {rest_v}, {iv}, {mut_pat} => do"] + flatten(lines, 2)
        env.aux.append("\n".join(aux))
        r = env.fresh("r")
        out = xs.pre + [f"let {r} ← {lname_}{gen_arg}{cap_args} {paren(xs.val)} 0 {mut_pat}"]
        if muts:
            fresh = [env.fresh(env.vars[m][0] + "'") for m in muts]
            out += [f"let {tuple_of(fresh)} ← match {r} with",
                    [f"| Ctl.ret v => return v" if not env.loop else f"| Ctl.ret v => return (Ctl.ret v)",
                     f"| Ctl.fuel => {getattr(self.u, 'fuel_panic', {}).get(env.fn.name, self.u.panic)}", f"| Ctl.brk m => pure m"]]
            out += [f"{env.vars[m][0]} := {f}" for m, f in zip(muts, fresh)]
        else:
            out += [f"match {r} with",
                    f"| Ctl.ret v => return v" if not env.loop else f"| Ctl.ret v => return (Ctl.ret v)",
                    f"| Ctl.fuel => {getattr(self.u, 'fuel_panic', {}).get(env.fn.name, self.u.panic)}", f"| Ctl.brk _ =>", ["pure ()"]]
        return out

    # ------------------------------------------------------------------ functions
    def fn_end(self, tail, env, ret_rust):
        """Lines that finish a function body whose statements have been emitted."""
        if tail is not None and tail[0] == "loop" and has_breakv(tail):
            return self.cloop(tail, env, None, value=True)
        if tail is not None and tail[0] in ("loop", "while", "whilelet", "for", "labeled", "assign"):
            return self.cstmt(("expr", tail, True), env) + ["pure ()"]
        if tail is not None:
            return self.cvalue_tail(tail, env, ret_rust)
        return ["pure ()"]

    def cbody_fn(self, stmts, tail, env, ret_rust):
        """Function body.  An `if` / `if let` statement that is followed by further branching or a loop
        is not left to Lean's join points (which `simp` inlines, duplicating the rest in every
        branch): the rest becomes a named continuation `<fn>.kN` over the live variables, called at
        the end of both branches.  The continuations are what the tie proofs are stated about."""
        for i, st in enumerate(stmts):
            if st[0] == "expr" and st[1][0] in ("if", "iflet") and split_worthy(stmts[i + 1:], tail):
                lines = self.cstmts(stmts[:i], env)
                used, assigned = set(), set()
                collect(stmts[i + 1:], assigned, used)
                if tail is not None:
                    collect(tail, assigned, used)
                live = [v for v in env.vars if v in used or v in assigned]
                self.nconts += 1
                kname = f"{self.cur_lean_name}.k{self.nconts}"
                kenv = env.child()
                kenv.vars = {v: env.vars[v] for v in live}
                kenv.loop = None
                gen, gen_arg = self.gb(env.fn)
                binders = "".join(f" ({env.vars[v][0]} : {self.lean_type(env.vars[v][1])})" for v in live)
                klines = [f"let mut {env.vars[v][0]} := {env.vars[v][0]}" for v in live if v in assigned]
                klines += self.cbody_fn(stmts[i + 1:], tail, kenv, ret_rust)
                env.aux.append(f"def {kname}{gen}{binders} : {self.u.monad} ({self.ret_lean_cur}) := do\n"
                               + "\n".join(flatten(klines, 1)))
                call = kname + gen_arg + "".join(" " + env.vars[v][0] for v in live)
                e = st[1]
                if e[0] == "if":
                    c = self.cexpr(e[1], env, "bool")
                    th = self.cflow(e[2], env)
                    if not ends_in_jump(th):
                        th = th + [call]
                    el = self.cflow(e[3], env) if e[3] is not None else []
                    if not ends_in_jump(el):
                        el = el + [call]
                    return lines + c.pre + [f"if {c.val} then", th, "else", el]
                c = self.cexpr(e[2], env)
                pat, conds, binds = self.cpat(e[1], env, c.ty)
                sub = env.child()
                sub.vars.update(binds)
                th = self.cflow(e[3], sub)
                if not ends_in_jump(th):
                    th = th + [call]
                el = self.cflow(e[4], env) if e[4] is not None else []
                if not ends_in_jump(el):
                    el = el + [call]
                if conds:
                    th = [f"if {' && '.join(conds)} then", th, "else", el]
                if is_irrefutable(pat):
                    return lines + c.pre + [f"match {c.val} with", f"| {pat} =>", th]
                return lines + c.pre + [f"match {c.val} with", f"| {pat} =>", th, "| _ =>", el]
        lines = self.cstmts(stmts, env)
        if lines and ends_in_jump(lines):
            return lines
        return lines + self.fn_end(tail, env, ret_rust)

    def function(self, fn, lean_name):
        ret_rust = norm_ty(fn.ret) if fn.ret else "()"
        self.fn_ret_rust = ret_rust
        ret_lean = self.lean_type(ret_rust) if ret_rust != "!" else "Unit"
        self.ret_lean_cur = ret_lean
        self.cur_lean_name = lean_name
        env = Env(self.u, fn, ret_lean)
        binders = [b for b in [self.gb(fn)[0].strip()] if b]
        pre = []
        for p in fn.params:
            if p[0] == "self":
                svt = getattr(self.u, "self_value_type", None)
                if callable(svt):    # units over several impl blocks: the type of `self` depends on the function
                    svt = svt(fn)
                if svt:          # units of pure methods: `self` is an ordinary value
                    ln = self.declare(env, "self", svt, False)
                    binders.append(f"({ln} : {self.lean_type(svt)})")
                continue
            pat, pty = p
            if self.u.is_state_type(pty):
                if getattr(self.u, "state_aliases", False) and pat[0] == "pbind":
                    env.aliases.add(pat[1])
                continue
            if pat[0] != "pbind":
                raise TErr(f"{fn.name}: parameter pattern")
            ty = norm_ty(pty)
            ln = self.declare(env, pat[1], ty, pat[3])
            binders.append(f"({ln} : {self.lean_type(ty)})")
            if pat[3]:
                pre.append(f"let mut {ln} := {ln}")
                self.mark_lean_mut(env, pat[1])
        for gname, gty in getattr(self.u, "ghost_params", {}).get(fn.name, []):
            ln = self.declare(env, gname, gty, False)
            binders.append(f"({ln} : {self.lean_type(gty)})")
        body = fn.body
        self.nconts = 0
        lines = pre + self.cbody_fn(body[1], body[2], env, ret_rust)
        text = "\n\n".join(env.aux)
        if text:
            text += "\n\n"
        text += f"def {lean_name} " + " ".join(binders) + f"{' ' if binders else ''}: {self.u.monad} ({ret_lean}) := do\n"
        text += "\n".join(flatten(lines, 1))
        return text


# ---------------------------------------------------------------------- utilities
def ends_in_jump(lines):
    return bool(lines) and isinstance(lines[-1], str) and lines[-1].startswith("return ")


def has_loop(t):
    if isinstance(t, tuple):
        if t and t[0] in ("loop", "while", "whilelet", "for"):
            return True
        return any(has_loop(x) for x in t[1:])
    if isinstance(t, list):
        return any(has_loop(x) for x in t)
    return False


def has_breakv(t):
    if isinstance(t, tuple):
        if t and t[0] == "breakv":
            return True
        if t and t[0] == "closure":
            return False
        return any(has_breakv(x) for x in t[1:])
    if isinstance(t, list):
        return any(has_breakv(x) for x in t)
    return False


def split_worthy(rest, tail):
    if has_loop(rest) or (tail is not None and has_loop(tail)):
        return True
    for st in rest:
        if st[0] == "expr" and st[1][0] in ("if", "iflet", "match"):
            return True
    return False


def ctor_universe(ty):
    if ty is None:
        return None
    if ty.startswith("Option<"):
        return {"some", "none"}
    if ty.startswith("io::Result<") or ty.startswith("Result<"):
        return {".ok", ".error"}
    if ty == "bool":
        return {"true", "false"}
    return None


def ctor_of(lp):
    """Constructor fully covered by a Lean pattern (`some x`, `.ok n`, `none`), else None."""
    m = re.fullmatch(r"(some|\.ok|\.error)((?:\s+(?:[a-z_][A-Za-z0-9_']*|_))*)", lp)
    if m:
        if set(m.group(2).split()) & {"true", "false"}:
            return None      # `some true`: a literal argument, the constructor is not covered
        return m.group(1)
    if lp in ("none", "true", "false"):
        return lp
    return None


def is_terminal(line):
    return isinstance(line, str) and (line.startswith("return ") or line.startswith("pure "))


def is_irrefutable(pat):
    return bool(re.fullmatch(r"[a-z_][A-Za-z0-9_']*|_|\((?:\s*(?:[a-z_][A-Za-z0-9_']*|_)\s*,?)+\)", pat))


def tuple_of(names):
    if not names:
        return "()"
    if len(names) == 1:
        return names[0]
    return "(" + ", ".join(names) + ")"


def paren(v):
    v = v.strip()
    if re.fullmatch(r"[A-Za-z_][A-Za-z0-9_.']*|\d+|\d+#\d+", v):
        return v
    if v.startswith("(") and matching(v) == len(v) - 1:
        return v
    if v.startswith("[") and v.endswith("]"):
        return v
    return f"({v})"


def matching(v):
    depth = 0
    for i, ch in enumerate(v):
        if ch == "(":
            depth += 1
        elif ch == ")":
            depth -= 1
            if depth == 0:
                return i
    return -1


def flatten(lines, indent):
    out = []
    for l in lines:
        if isinstance(l, list):
            out += flatten(l, indent + 1)
        else:
            out.append("  " * indent + l)
    return out


def strip_ref(e):
    while e[0] == "paren" or (e[0] == "un" and e[1] in ("&", "&mut", "*")):
        e = e[1] if e[0] == "paren" else e[2]
    return e


def norm_ty(t):
    if t is None:
        return None
    t = t.strip()
    t = re.sub(r"^&\s*('[a-z_]+\s+)?(mut\s+)?", "", t).strip()
    t = re.sub(r"\s+", " ", t)
    t = t.replace("( )", "()")
    t = re.sub(r"\s*<\s*", "<", t)
    t = re.sub(r"\s*>\s*", ">", t)
    t = re.sub(r"\s*,\s*", ", ", t)
    t = re.sub(r"\(\s+", "(", t)
    t = re.sub(r"\s+\)", ")", t)
    t = re.sub(r"\s*::\s*", "::", t)
    t = re.sub(r"\[\s*", "[", t)
    t = re.sub(r"\s*\]", "]", t)
    return t


def split_top(s):
    parts, depth, cur = [], 0, ""
    for ch in s:
        if ch in "(<[":
            depth += 1
        elif ch in ")>]":
            depth -= 1
        if ch == "," and depth == 0:
            parts.append(cur)
            cur = ""
        else:
            cur += ch
    if cur.strip():
        parts.append(cur)
    return parts


def opt_inner(ty):
    if ty:
        m = re.match(r"Option<(.*)>$", ty)
        if m:
            return m.group(1)
    return None


def res_ok(ty):
    if ty:
        m = re.match(r"(?:io::)?Result<(.*)>$", ty)
        if m:
            return split_top(m.group(1))[0].strip()
    return None


def res_err(ty):
    if ty:
        m = re.match(r"Result<(.*)>$", ty)
        if m:
            parts = split_top(m.group(1))
            if len(parts) > 1:
                return parts[1].strip()
        if ty.startswith("io::Result<"):
            return "io::Error"
    return None


def bound_names(t, acc):
    """Names bound by patterns anywhere inside a tree (let, if let, while let, match arms, for)."""
    if isinstance(t, tuple):
        if t and t[0] == "pbind":
            acc.add(t[1])
        for x in t[1:]:
            bound_names(x, acc)
    elif isinstance(t, list):
        for x in t:
            bound_names(x, acc)


def collect(e, assigned, used):
    """Names assigned / used anywhere in a tree."""
    if isinstance(e, tuple):
        if e and e[0] == "assign":
            l = strip_ref(e[2])
            if l[0] == "path" and len(l[1]) == 1:
                assigned.add(l[1][0])
            if l[0] == "index" and strip_ref(l[1])[0] == "path" and len(strip_ref(l[1])[1]) == 1:
                assigned.add(strip_ref(l[1])[1][0])      # `xs[i] = v` assigns the local array `xs`
            if e[1] != "=":
                collect(e[2], assigned, used)
            else:
                if l[0] != "path":
                    collect(e[2], assigned, used)
            collect(e[3], assigned, used)
            return
        if e and e[0] == "path":
            if len(e[1]) == 1:
                used.add(e[1][0])
            return
        for x in e[1:]:
            collect(x, assigned, used)
    elif isinstance(e, list):
        for x in e:
            collect(x, assigned, used)
