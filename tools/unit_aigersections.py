"""Translation unit: the section readers of the ASCII AIGER parser, flussab-aiger/src/ascii.rs
-> Gen/AigerSectionsGen.lean.

One unit over several inherent impl blocks (`impls`, see gen_core.translate_unit): `Parser::inputs` and every
method of `ParseInputs`, `ParseLatches`, `ParseOutputs`, `ParseBadStateProperties`, `ParseInvariantConstraints`,
`ParseJusticePropertySizes`, `ParseJusticePropertyLocalFairnessConstraints`, `ParseFairnessConstraints`,
`ParseAndGates` (the table `SECTIONS` below: struct -> its field list; a struct whose fields changed is a
translation failure).

State: every section struct is `{ parser: Parser<'a, L>, <count>_left: usize }` (+ `total_local_fairness_count`
in `ParseJusticePropertySizes`).  The fields other than the reader are the model's record `Aiger.St`, the reader
is the state `LR` of the parser monad `PM`; the generated code runs in `ASM = StateT Aiger.St PM`
(Model/AigerSectionsExt.lean).
  self.parser.reader                     -> the `PM` state (calls that take it act on it, lifted by `tok`)
  self.parser.max_lit / .header          -> `(← getS).p.maxLit` / `.p.header`   (in `impl Parser`: `self.header`)
  header.<count>                         -> the projections of `Aiger.Header` (table `FIELDS` of unit_aigerheader)
  self.<count>_left                      -> `left` (whatever the field is called in the struct at hand)
  self.total_local_fairness_count        -> `total`
  `L` (type parameter of the structs)    -> the field `p.lit` of the record: `L::from_code(c)` is
                                            `(← getS).p.lit.fromCode c`
  `ParseX { x_left: v, parser: self.parser [, total_local_fairness_count: w] }` (the transitions)
                                         -> the record update `{ s with left := v [, total := w] }` of the current
                                            state `s` (the result value of the function; `parser: self.parser`
                                            is checked to be the state's own parser)
  `ParseInputs { inputs_left: v, parser: self }` in `impl Parser`
                                         -> `{ p := s.p, left := v }` (there is no section state before it)
  `ParseSymbols { parser: self.parser }` -> `s.p` (the struct has no counter: the model's `Aiger.Parser`)
  `Latch { state, next_state, initialization }`, `AndGate { inputs: [a, b], output }`
                                         -> the model's `Aiger.Latch` / `Aiger.AndGate` records
Calls into token.rs are the token models (tied to token.rs by Props/TieAigerToken), lifted by `tok`:
  token::lit(reader, name, limit, assigning)      -> `Aiger.lit limit assigning`
  token::header_field(reader, name, limit, hard)  -> `Aiger.headerField limit`
  token::required_newline / required_space / required_newline_or_space
  token::invalid_initialization(reader, a, b)     -> `Aiger.errorAtMark` (`invalid_initialization_tied`)
`usize` arithmetic is checked (`-=`, `-`, `+=`): `AigerSectionsExt.usub` / `uadd`.
The draining loops `while self.x_left != 0 { self.next_x()?; }` get the fuel `left + 1` (every iteration that
returns decrements `left`; the tie theorems show it is never used up).
"""
from unitbase import *
from unit_cnftoken import PMUnit
from unit_aigerheader import FIELDS

# section struct -> (field list of the struct, name of its `<count>_left` field)
SECTIONS = {
    "ParseInputs": (["parser", "inputs_left"], "inputs_left"),
    "ParseLatches": (["parser", "latches_left"], "latches_left"),
    "ParseOutputs": (["parser", "outputs_left"], "outputs_left"),
    "ParseBadStateProperties": (["parser", "bad_left"], "bad_left"),
    "ParseInvariantConstraints": (["parser", "constraints_left"], "constraints_left"),
    "ParseJusticePropertySizes": (["parser", "justice_left", "total_local_fairness_count"], "justice_left"),
    "ParseJusticePropertyLocalFairnessConstraints": (["parser", "local_fairness_left"], "local_fairness_left"),
    "ParseFairnessConstraints": (["parser", "fairness_left"], "fairness_left"),
    "ParseAndGates": (["parser", "ands_left"], "ands_left"),
    "ParseSymbols": (["parser"], None),
}
TOTAL = "total_local_fairness_count"


class AigerSectionsUnit(PMUnit):
    name = "aigersections"
    file = "flussab-aiger/src/ascii.rs"
    impl = "Parser"
    impls = ("Parser",) + tuple(s for s in SECTIONS if s != "ParseSymbols")
    out = "AigerSectionsGen.lean"
    namespace = "Flussab.Gen.AigerSections"
    imports = ["Flussab.Model.AigerSectionsExt"]
    monad = "ASM"
    ext = "AigerSectionsExt"
    get, modify = "AigerSectionsExt.getS", "AigerSectionsExt.modifyS"
    usub, uadd = "AigerSectionsExt.usub", "AigerSectionsExt.uadd"
    checked_add = True
    panic = "(AigerSectionsExt.tok (PM.rpanic \"generated\"))"
    assert_ = lift_opt = None
    state_vars = {"self"}
    state_subobjects = {"parser", "reader"}
    state_types = ("LineReader",)
    structs = [("Parser", ["reader", "header", "max_lit", "_lit_builder"])] + [(s, f) for s, (f, _) in SECTIONS.items()]
    int_literal_default = "usize"
    # dependency order: only `self.f(..)` counts as a call of the unit's `f` (the skipped `parse` calls every
    # function on local variables; as a set of callees it would make the order of the definitions vary)
    self_calls_only = True
    skip = {
        "from_buf_reader": "constructor: builds the DeferredReader / LineReader, then calls `new`",
        "from_read": "constructor: builds the DeferredReader / LineReader, then calls `new`",
        "from_boxed_dyn_read": "constructor: builds the DeferredReader / LineReader, then calls `new`",
        "new": "translated by the unit aigernew_ascii (Props/TieAigerNew)",
        "header": "accessor returning a reference to the field `header`",
        "parse": "whole-file driver: translated by the unit aigerparse (Props/TieAigerParse `parse_tied`)",
    }
    fields = {f: dict(lean="left", ty="usize") for _, f in SECTIONS.values() if f}
    fields.update({
        TOTAL: dict(lean="total", ty="usize"),
        "max_lit": dict(lean="p.maxLit", ty="usize"),
        "header": dict(lean="p.header", ty="Header"),
    })
    value_fields = {("Header", f): lf for f, lf in FIELDS.items()}
    fuel = {f: "(← AigerSectionsExt.getS).left + 1" for f in (
        "latches", "outputs", "bad_state_properties", "invariant_constraints", "justice_properties",
        "justice_property_local_fairness_constraints", "fairness_constraints", "and_gates", "symbols")}

    def __init__(self):
        super().__init__()
        self.pm_common()
        self.pm_closures(self.ext, {})
        u = self
        ext = self.ext
        self.state_methods = {}          # the reader is not accessed directly by the section readers
        self.chain_handlers = []
        section_ty = {f"Result<{s}<'a, L>, ParseError>": "Aiger.St" for s in SECTIONS}
        self.types.update(section_ty)
        self.types.update({s + "<'a, L>": "Aiger.St" for s in SECTIONS})
        # `ParseSymbols { parser }` has no counter: it is the model's `Aiger.Parser`
        self.types.update({"ParseSymbols<'a, L>": "Aiger.Parser", "Result<ParseSymbols<'a, L>, ParseError>": "Aiger.Parser"})
        self.types.update({
            "L": "Nat", "Option<L>": "Option Nat", "Result<Option<L>, ParseError>": "Option Nat",
            "Result<Option<usize>, ParseError>": "Option Nat",
            "Latch<L>": "Aiger.Latch", "Option<Latch<L>>": "Option Aiger.Latch",
            "Result<Option<Latch<L>>, ParseError>": "Option Aiger.Latch",
            "AndGate<L>": "Aiger.AndGate", "Option<AndGate<L>>": "Option Aiger.AndGate",
            "Result<Option<AndGate<L>>, ParseError>": "Option Aiger.AndGate",
            "Header": "Aiger.Header", "Option<bool>": "Option Bool",
        })
        self.consts["usize::MAX"] = ("PM.usizeMax", "usize")

        # ---------------------------------------------------------------- token calls
        def tok(lean, ty, hints):
            """token::f(reader, args…): the arguments with a hint of `str` only select a message."""
            def h(em, e, env, hint):
                args = e[2]
                if not args or not em.is_state(args[0], env):
                    raise TErr(f"{u.name}::{env.fn.name}: token::* is expected to be called on the reader")
                if len(args) - 1 != len(hints):
                    raise TErr(f"{u.name}::{env.fn.name}: `{lean}` called with {len(args) - 1} arguments")
                pre, vals = [], []
                for a, hnt in zip(args[1:], hints):
                    if hnt == "str":
                        if a[0] != "str":
                            raise TErr(f"{u.name}::{env.fn.name}: message argument of `{lean}` is not a string literal")
                        continue
                    c = em.cexpr(a, env, hnt)
                    pre += c.pre
                    if hnt != "drop":
                        vals.append(paren(c.val))
                call = f"{ext}.tok ({lean}" + "".join(" " + v for v in vals) + ")"
                if ty == "()":
                    return Code("()", "()", pre + [call])
                if ty == "!":
                    return Code("()", "!", pre + [call])
                t = env.fresh()
                return Code(t, ty, pre + [f"let {t} ← {call}"])
            return h

        self.tok_handler = tok           # for subclasses (unit_aigerbinsections.py)
        res = lambda t: f"Result<{t}, ParseError>"
        self.functions.update({
            "token::lit": tok("Aiger.lit", res("usize"), ["str", "usize", "bool"]),
            # `hard_limit` only selects the message
            "token::header_field": tok("Aiger.headerField", res("usize"), ["str", "usize", "drop"]),
            "token::required_newline": tok("Aiger.requiredNewline", res("()"), []),
            "token::required_space": tok("Aiger.requiredSpace", res("()"), []),
            "token::required_newline_or_space": tok("Aiger.requiredNewlineOrSpace", res("bool"), []),
            # the two codes only appear in the message
            "token::invalid_initialization": tok("Aiger.errorAtMark", "!", ["drop", "drop"]),
        })

        def from_code(em, e, env, hint):
            c = em.cexpr(e[2][0], env, "usize")
            return Code(f"((← {u.get}).p.lit.fromCode {paren(c.val)})", "L", c.pre)

        self.functions["L::from_code"] = from_code

        # ---------------------------------------------------------------- struct literals
        def struct(em, e, env, hint):
            name = e[1][-1]
            if e[3] is not None:
                raise TErr("struct literal with a base")
            got = [f for f, _ in e[2]]
            vals = dict(e[2])
            if name in SECTIONS:
                want, left = SECTIONS[name]
                if sorted(got) != sorted(want):
                    raise TErr(f"{u.name}: {name} literal with fields {got}, the model knows {want}")
                here = env.fn.impl_of[1]
                par = strip_ref(vals["parser"])
                if here == "Parser":
                    ok = par[0] == "path" and par[1] == ["self"]
                else:
                    ok = par[0] == "field" and par[2] == "parser" and par[1][0] == "path" and par[1][1] == ["self"]
                if not ok:
                    raise TErr(f"{u.name}::{env.fn.name}: the `parser` of the new {name} is expected to be the state's parser")
                pre, parts = [], []
                if left:
                    c = em.cexpr(vals[left], env, "usize")
                    pre += c.pre
                    parts.append(f"left := {c.val}")
                if TOTAL in vals:
                    c = em.cexpr(vals[TOTAL], env, "usize")
                    pre += c.pre
                    parts.append(f"total := {c.val}")
                t = env.fresh()
                pre.append(f"let {t} ← {u.get}")
                if here == "Parser":
                    val = "({ p := " + t + ".p, " + ", ".join(parts) + " } : Aiger.St)"
                elif parts:
                    val = "({ " + t + " with " + ", ".join(parts) + " } : Aiger.St)"
                else:
                    val = t + ".p"
                return Code(val, name + "<'a, L>", pre)
            if name == "Latch":
                if got != ["state", "next_state", "initialization"]:
                    raise TErr(f"{u.name}: Latch literal with fields {got}")
                cs = [("state", em.cexpr(vals["state"], env, "L")), ("next", em.cexpr(vals["next_state"], env, "L")),
                      ("init", em.cexpr(vals["initialization"], env, "Option<bool>"))]
                pre = [p for _, c in cs for p in c.pre]
                return Code("({ " + ", ".join(f"{lf} := {c.val}" for lf, c in cs) + " } : Aiger.Latch)", "Latch<L>", pre)
            if name == "AndGate":
                if got != ["inputs", "output"] or vals["inputs"][0] != "array" or len(vals["inputs"][1]) != 2:
                    raise TErr(f"{u.name}: AndGate literal with fields {got}")
                cs = [("in0", em.cexpr(vals["inputs"][1][0], env, "L")), ("in1", em.cexpr(vals["inputs"][1][1], env, "L")),
                      ("out", em.cexpr(vals["output"], env, "L"))]
                pre = [p for _, c in cs for p in c.pre]
                return Code("({ " + ", ".join(f"{lf} := {c.val}" for lf, c in cs) + " } : Aiger.AndGate)", "AndGate<L>", pre)
            raise TErr(f"{u.name}::{env.fn.name}: struct literal `{name}` has no translation")

        self.struct_handler = struct


UNIT = AigerSectionsUnit
