"""Translation unit: `impl Writer` of flussab-aiger/src/binary.rs -> Gen/AigerBinWriteGen.lean.

A subclass of the ASCII unit (unit_aigerwrite.py).  What binary.rs has in addition:

  state                      `AigerWriteExt.BinWriter` = the `DeferredWriter` model (`writer`) and the next-literal
                             counter (`code`); the calls into the writer run on the field:
                             `AigerWriteExt.liftW (Gen.Writer.writeAllDeferErr bs)` etc.
  self.code / self.code = v  `(← RM.get).code` / `RM.modify fun r => { r with code := v }`
  x.wrapping_add(y), x.wrapping_mul(y) on usize   `((x + y) % 2 ^ 64)`, `((x * y) % 2 ^ 64)`
  `OrderedLatch<L>`, `OrderedAndGate<L>`          `Aiger.OLatch`, `Aiger.OGate`
  and_gate.inputs.swap(0, 1) assignment of the (mutable) record: `{ g with in0 := g.in1, in1 := g.in0 }`
  a - b on usize             checked (`RM.usub`), `assert!` -> `RM.assert`
  write_binary_uint:
    [0u8; N]                 `List.replicate N 0` (N a constant expression over `usize::BITS` = 64)
    bytes[i] = v             `AigerWriteExt.setChecked` (`none` = panic), `bytes[i] &= m` = checked read + checked write
    &bytes[..len]            `sliceChecked`
    code as u8               `UInt8.ofNat code` (truncation), `code >>= 7` = `code / 2 ^ 7`
    loop                     fuel `bytes.length + 1`: the checked index `bytes[len]` panics in iteration
                             `bytes.length + 1` at the latest
"""
from unitbase import *
from unit_aigerwrite import AigerWriteUnit


class AigerBinWriteUnit(AigerWriteUnit):
    name = "aigerbinwrite"
    file = "flussab-aiger/src/binary.rs"
    out = "AigerBinWriteGen.lean"
    namespace = "Flussab.Gen.AigerBinWrite"
    monad = "RM AigerWriteExt.BinWriter"
    wl = "AigerWriteExt.liftW ({})"
    structs = [("Writer", ["writer", "code", "codec"])]
    fields = {"code": dict(lean="code", ty="usize")}
    gate_ty = "OrderedAndGate<L>"
    int_literal_default = "usize"      # `let mut len = 0;` indexes an array
    skip = {
        "new": "struct literal `Self { writer, code: 0, codec }`: the initial state `{ writer, code := 0 }`",
        "write_ordered_aig": "translated by the units `aigerwritedoc` / `aigerbinwritedoc`, not here: whole-file driver over `OrderedAig<L>` (vectors, nested loops); modelled by "
                             "`Aiger.binWriteOrderedAig` as the sequence of the pieces tied here",
    }
    fuel = {"write_header": "fields.length + 1", "write_binary_uint": "bytes.length + 1"}
    casts = {("usize", "u8"): "(UInt8.ofNat {})", ("u32", "usize"): "{}"}

    def __init__(self):
        super().__init__()
        u = self
        self.types = dict(self.types)
        self.types.update({"[u8; N]": "(List UInt8)"})
        self.consts = {"usize::BITS": ("64", "usize")}

        def wadd(em, c, e, env, hint):
            a = em.cexpr(e[3][0], env, "usize")
            return Code(f"(({c.val} + {a.val}) % 2 ^ 64)", "usize", c.pre + a.pre)

        def wmul(em, c, e, env, hint):
            a = em.cexpr(e[3][0], env, "usize")
            return Code(f"(({c.val} * {a.val}) % 2 ^ 64)", "usize", c.pre + a.pre)

        def arr_len(em, c, e, env, hint):
            return Code(f"{paren(c.val)}.length", "usize", c.pre)

        self.value_methods = dict(self.value_methods)
        self.value_methods[("usize", "wrapping_add")] = wadd
        self.value_methods[("usize", "wrapping_mul")] = wmul

        def swap(em, e, env, hint):
            # `and_gate.inputs.swap(0, 1)` on a local `mut and_gate: OrderedAndGate<L>`
            if not (e[0] == "mcall" and e[2] == "swap" and e[1][0] == "field" and e[1][2] == "inputs"):
                return None
            if [a[:2] for a in e[3]] != [("lit", 0), ("lit", 1)]:
                raise TErr(f"{u.name}::{env.fn.name}: `inputs.swap` with arguments other than (0, 1)")
            b = e[1][1]
            if b[0] != "path" or len(b[1]) != 1 or b[1][0] not in env.vars or env.vars[b[1][0]][1] != u.gate_ty \
                    or not em.is_lean_mut(env, b[1][0]):
                raise TErr(f"{u.name}::{env.fn.name}: `inputs.swap` on something that is not a mutable local gate")
            ln = env.vars[b[1][0]][0]
            return Code("()", "()", [f"{ln} := {{ {ln} with in0 := {ln}.in1, in1 := {ln}.in0 }}"])

        self.chain_handlers = [swap]

        ascii_expr = self.expr_handler

        def expr(em, e, env, hint):
            if e[0] == "repeat":
                v = em.cexpr(e[1], env, "u8")
                n = em.cexpr(e[2], env, "usize")
                if v.ty != "u8" or v.pre or n.pre:
                    raise TErr(f"{u.name}::{env.fn.name}: array `[v; n]` other than of constant bytes")
                return Code(f"(List.replicate {paren(n.val)} {v.val})", "[u8; N]")
            return ascii_expr(em, e, env, hint)

        self.expr_handler = expr

        def local_array(em, e, env):
            e = strip_ref(e)
            if e[0] == "path" and len(e[1]) == 1 and e[1][0] in env.vars and env.vars[e[1][0]][1] == "[u8; N]":
                return env.vars[e[1][0]][0]
            return None

        def assign(em, st, env):
            op, lhs, rhs = st[1], strip_ref(st[2]), st[3]
            if lhs[0] != "index":
                return None
            arr = local_array(em, lhs[1], env)
            if arr is None or lhs[2][0] == "range":
                raise TErr(f"{u.name}::{env.fn.name}: assignment to an index of something that is not a local byte array")
            i = em.cexpr(lhs[2], env, "usize")
            pre = list(i.pre)
            iv = i.val
            if i.pre or not re.fullmatch(r"\w+", iv):
                iv = env.fresh("i")
                pre.append(f"let {iv} := {i.val}")
            if op == "=":
                v = em.cexpr(rhs, env, "u8")
                val = v.val
                pre += v.pre
            elif op in ("&=", "|="):
                old = env.fresh()
                pre.append(f"let {old} ← RM.liftOpt (indexChecked {arr} {paren(iv)})")
                v = em.cexpr(rhs, env, "u8")
                pre += v.pre
                val = f"({old} {'&&&' if op == '&=' else '|||'} {v.val})"
            else:
                raise TErr(f"{u.name}::{env.fn.name}: `{op}` on an array element")
            t = env.fresh()
            return pre + [f"let {t} ← RM.liftOpt (AigerWriteExt.setChecked {arr} {paren(iv)} {paren(val)})", f"{arr} := {t}"]

        self.assign_handler = assign

        self.value_methods[("[u8; N]", "len")] = arr_len


import re

UNIT = AigerBinWriteUnit
