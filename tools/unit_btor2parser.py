"""Translation unit: the line parser `impl<'a> Parser<'a>` of flussab-btor2/src/parser.rs
(`new`, `try_node`, `try_comment`, `next_line`) -> Gen/Btor2ParserGen.lean.

State: the pair (parser fields, reader).  The fields of the Rust struct other than `reader` are the record
`Btor2.ParserS` (Model/Btor2ParserExt.lean: the three scratch buffers `node_buf`, `const_buf`, `symbol_buf`;
the field list of the struct is checked), the reader is the state `LR` of the parser monad `PM`; the
generated code runs in `BPM = StateT Btor2.ParserS PM`.
  self.reader                              -> the `PM` state (`state_subobjects`)
  self.<buf>.clear() / push(x) / push_str(s) / extend_from_slice(s) / borrow(), &self.<buf>
                                           -> `modifyP` / `getP` on the record
  `Ok(Self { reader, node_buf: Default::default(), .. })` -> `setP { nodeBuf := [], .. }`, the record is returned

THE PLACEHOLDERS.  To satisfy the borrow checker `try_node` builds the `Node<'static>` with placeholder
payloads and fills the buffers; `next_line` patches the placeholders (`update_comment`, `update_bufs`).  This is
translated as it is written: the generated code builds values of the model's types (`Btor2.Node`, ...), and
  `""` as the argument of `BinaryConst` / `DecimalConst` / `HexConst`   -> `[]`
  `"".into()`                                                          -> `([] : VBytes)`
  `&[]` as the argument of `Output::Justice`                           -> `[]`
(any other argument there is a translation failure).  `node.has_comment()`, `node.update_comment(c)`,
`node.update_bufs(c, s, n)` (impl Line, btor2.rs — not translated) are the hand-written contracts
`Btor2ParserExt.hasComment / updateComment / updateBufs`; the two `&mut self` ones are assignments to the local.

Enum / struct values: constructors of btor2.rs -> constructors of `Model/Btor2.lean` (the model inlines
`Value`, `Assignment`, `SingleValueOutput`, `Array` and the `[NodeId; n]` operand arrays into the enclosing
constructor; the unit therefore insists on the shapes `Sort::Array(Array(d, c))`,
`NodeVariant::Assignment(Assignment { state, sort, kind, value })`,
`Output::SingleValue(SingleValueOutput { kind, value })`, `Op::Binary(op, [a0, a1])`, `Op::Ternary(op, [a0, a1, a2])`;
`Value { sort, variant }` is the pair that `NodeVariant::Value` takes apart).  Token enums (`NodeToken`, `SortToken`,
`NodeValueToken`) are the generated ones of Gen/Btor2Tables.lean; `ext_op_token.unary_op(pad)` /
`unary_op_token.unary_op()` are `Gen.Btor2.extOpTokenUnaryOp` / `unaryOpTokenUnaryOp` (same file).  `match` on them:
`trust_exhaustive` (Lean checks the coverage; a new variant in the source = failed build).

Calls into token.rs are mapped to the *token models* `Btor2.*` (tied to token.rs by Props/TieBtor2Token.lean;
`unexpected`, `node_token`, `sort_token` as that unit says), lifted by `Btor2ParserExt.tok`; `&str` arguments are
message fragments (not modelled).  `self.reader.reader.check_io_error()?` is `Btor2TokenExt.checkIoErrorTry`.

Closures / `Parsed` combinators (contracts in Model/Btor2ParserExt.lean, over `BPM`, applied to the value of the
receiver): `p.and_then(|x| r)`, `p.map(|x| v)` (the closure may fill a buffer), `p.map(Ctor)`, `p.or_parse(|| q)`,
`p.or_give_up(|| e)`; `r?` on a `Result<T, ParseError>` is `r` (errors are the thrown outcome, as in PMUnit).

`for _ in 0..count { body }` (the `justice` conditions; `body` leaves only by `?`): a recursive definition
`<fn>.loopN : fuel → remaining → BPM Unit` that runs `body` while `remaining ≠ 0`, with the *model's* fuel
(`rest.length + 2`) and the model's out-of-fuel value `rpanic "fuel"` (the convention of tools/unit_satlog.py:
generated loop and `Btor2.justiceLoop` then agree for every fuel; that the fuel is never used up is C05's business).

Source normalisations (purely syntactic, shape-checked; `fns` setter):
  * `let PAT = INIT else { ELSE };  REST..;  TAIL`  (ELSE diverges)  becomes the tail expression
    `match INIT { PAT' => { let mut x = x; REST..; TAIL }, _ => { ELSE } }` where `PAT'` is `PAT` without the `mut`
    of its single binding `x` (`next_line`);
  * `let Config {} = config;` (irrefutable pattern of the field-less struct, binds nothing) is dropped (`new`).
"""
import re
from unitbase import *
from rs2lean import collect, flatten
from unit_cnftoken import PMUnit

EXT = "Btor2ParserExt"
B = "Flussab.Btor2"
T = "Flussab.Gen.Btor2"


def strip_parse_error(ty, head):
    """`head<X, ParseError>` -> X, else None."""
    if ty and ty.startswith(head + "<") and ty.endswith(", ParseError>"):
        return ty[len(head) + 1:-len(", ParseError>")]
    return None


def mentions(t, kinds):
    if isinstance(t, tuple):
        if t and t[0] in kinds:
            return True
        return any(mentions(x, kinds) for x in t[1:])
    if isinstance(t, list):
        return any(mentions(x, kinds) for x in t)
    return False


class Btor2ParserUnit(PMUnit):
    name = "btor2parser"
    file = "flussab-btor2/src/parser.rs"
    impl = "Parser"
    out = "Btor2ParserGen.lean"
    namespace = "Flussab.Gen.Btor2Parser"
    imports = ["Flussab.Model.Btor2ParserExt"]
    monad = "BPM"
    ext = EXT
    get, modify = EXT + ".getP", EXT + ".modifyP"
    panic = "(" + EXT + ".tok (PM.rpanic \"generated\"))"
    assert_ = usub = uadd = lift_opt = None
    generic_binder = None
    generic_arg = None
    state_vars = {"self"}
    state_subobjects = {"reader"}
    state_types = ("LineReader",)
    state_aliases = True
    trust_exhaustive = True
    struct = ("Parser", ["reader", "node_buf", "const_buf", "symbol_buf"])
    skip = {
        "from_buf_reader": "constructor: builds the DeferredReader / LineReader, then calls `new`",
        "from_read": "constructor: builds the DeferredReader / LineReader, then calls `new`",
        "from_boxed_dyn_read": "constructor: builds the DeferredReader / LineReader, then calls `new`",
    }
    fields = {
        "node_buf": dict(lean="nodeBuf", ty="Vec<NodeId>"),
        "const_buf": dict(lean="constBuf", ty="ConstBuf"),
        "symbol_buf": dict(lean="symbolBuf", ty="SymbolBuf"),
    }
    fuel = {"try_node": "(← " + EXT + ".getLR).v.rest.length + 2"}
    fuel_panic = {"try_node": "(" + EXT + ".tok (PM.rpanic \"fuel\"))"}

    # token.rs function -> (token model, Rust result type)
    tokens = {
        "skip_whitespace": ("skipWhitespace", "()"),
        "node_id": ("nodeId", "Parsed<NodeId, ParseError>"),
        "node_token": ("nodeToken", "Parsed<NodeToken, ParseError>"),
        "sort_token": ("sortToken", "Parsed<SortToken, ParseError>"),
        "space": ("space", "Parsed<(), ParseError>"),
        "newline": ("newline", "Parsed<(), ParseError>"),
        "eof": ("eof", "Parsed<(), ParseError>"),
        "comment_start": ("commentStart", "Parsed<(), ParseError>"),
        "symbol_name": ("symbolName", "Parsed<BufStr, ParseError>"),
        "comment_body": ("commentBody", "Result<BufStr, ParseError>"),
        "required_space": ("requiredSpace", "Result<(), ParseError>"),
        "required_positive_int": ("requiredPositiveInt", "Result<NonZeroU64, ParseError>"),
        "required_nonnegative_int": ("requiredNonnegativeInt", "Result<u64, ParseError>"),
        "required_node_id": ("requiredNodeId", "Result<NodeId, ParseError>"),
        "required_sort_id": ("requiredSortId", "Result<NodeId, ParseError>"),
        "required_binary_constant": ("requiredBinaryConstant", "Result<BufStr, ParseError>"),
        "required_decimal_constant": ("requiredDecimalConstant", "Result<BufStr, ParseError>"),
        "required_hex_constant": ("requiredHexConstant", "Result<BufStr, ParseError>"),
        "unexpected": ("unexpected", "!"),
    }
    # patterns: Rust constructor -> Lean constructor; payload types
    ctors = {
        "NodeToken::Sort": T + ".NodeToken.sort", "NodeToken::Assignment": T + ".NodeToken.assignment",
        "NodeToken::Output": T + ".NodeToken.output", "NodeToken::Justice": T + ".NodeToken.justice",
        "NodeToken::Value": T + ".NodeToken.value",
        "token::SortToken::Bitvec": T + ".SortToken.bitvec", "token::SortToken::Array": T + ".SortToken.array",
        "NodeValueToken::Const": T + ".NodeValueToken.const", "NodeValueToken::Constd": T + ".NodeValueToken.constd",
        "NodeValueToken::Consth": T + ".NodeValueToken.consth", "NodeValueToken::Ones": T + ".NodeValueToken.ones",
        "NodeValueToken::One": T + ".NodeValueToken.one", "NodeValueToken::Zero": T + ".NodeValueToken.zero",
        "NodeValueToken::Input": T + ".NodeValueToken.input", "NodeValueToken::State": T + ".NodeValueToken.state",
        "NodeValueToken::ExtOp": T + ".NodeValueToken.extOp", "NodeValueToken::Slice": T + ".NodeValueToken.slice",
        "NodeValueToken::UnaryOp": T + ".NodeValueToken.unaryOp",
        "NodeValueToken::BinaryOp": T + ".NodeValueToken.binaryOp",
        "NodeValueToken::TernaryOp": T + ".NodeValueToken.ternaryOp",
    }
    ctor_arg_types = {
        "NodeToken::Assignment": ["AssignmentKind"], "NodeToken::Output": ["SingleValueOutputKind"],
        "NodeToken::Value": ["NodeValueToken"], "NodeValueToken::ExtOp": ["NodeValueExtOpToken"],
        "NodeValueToken::UnaryOp": ["NodeValueUnaryOpToken"], "NodeValueToken::BinaryOp": ["BinaryOp"],
        "NodeValueToken::TernaryOp": ["TernaryOp"],
    }
    # expressions: constructor -> (Lean constructor, result type, number of arguments)
    value_ctors = {
        "NodeVariant::Sort": (B + ".NodeVariant.sort", "NodeVariant", 1),
        "NodeVariant::Output": (B + ".NodeVariant.output", "NodeVariant", 1),
        "Sort::BitVec": (B + ".BSort.bitVec", "Sort", 1),
        "ValueVariant::Const": (B + ".ValueVariant.const", "ValueVariant", 1),
        "ValueVariant::Op": (B + ".ValueVariant.op", "ValueVariant", 1),
        "Op::Unary": (B + ".Op.unary", "Op", 2),
        "UnaryOp::Slice": (T + ".UnaryOp.slice", "UnaryOp", 2),
        "Line::Node": (B + ".Line.node", "Line", 1),
        "Line::Comment": (B + ".Line.comment", "Line", 1),
    }
    value_consts = {
        "Const::Ones": (B + ".Const.ones", "Const"), "Const::One": (B + ".Const.one", "Const"),
        "Const::Zero": (B + ".Const.zero", "Const"),
        "ValueVariant::Input": (B + ".ValueVariant.input", "ValueVariant"),
        "ValueVariant::State": (B + ".ValueVariant.state", "ValueVariant"),
    }

    # ------------------------------------------------------------------ source normalisation
    @property
    def fns(self):
        return self._fns

    @fns.setter
    def fns(self, d):
        for f in d.values():
            if not getattr(f, "_btor2parser_normalised", False):
                f.body = self.normalise(f.body)
                f._btor2parser_normalised = True
        self._fns = d

    def normalise(self, body):
        """See the module comment.  Only the statement list of the function body itself is looked at."""
        if body[0] != "block":
            return body
        stmts, tail = list(body[1]), body[2]
        # `let Config {} = config;`
        stmts = [st for st in stmts
                 if not (st[0] == "let" and st[1][0] == "pstruct" and st[1][1] == ["Config"] and st[1][2] == []
                         and st[3] == ("path", ["config"]) and st[4] is None)]
        for i, st in enumerate(stmts):
            if st[0] == "let" and st[4] is not None:
                pat, init, els = st[1], st[3], st[4]
                if not (pat[0] == "pts" and len(pat[2]) == 1 and pat[2][0][0] == "pbind" and pat[2][0][4] is None
                        and st[2] is None and els[0] == "block"):
                    raise TErr(f"{self.name}: let-else of a shape the unit does not normalise")
                b = pat[2][0]
                name = b[1]
                pat2 = ("pts", pat[1], [("pbind", name, False, False, None)])
                rebind = [("let", ("pbind", name, False, True, None), None, ("path", [name]), None)] if b[3] else []
                arm = ("block", rebind + stmts[i + 1:], tail, False)
                m = ("match", init, [(pat2, None, arm), (("pwild",), None, els)])
                return ("block", stmts[:i], m, body[3]) + tuple(body[4:])
        return ("block", stmts, tail, body[3]) + tuple(body[4:])

    # ------------------------------------------------------------------ handlers
    def __init__(self):
        super().__init__()
        self.pm_common()
        self.pm_closures(self.ext, {})
        u = self
        ext = self.ext
        self.state_methods = {}
        self.functions = dict(self.functions)
        self.value_methods = dict(self.value_methods)
        self.macros = dict(self.macros)
        self.consts = dict(self.consts)
        self.types = dict(self.types)
        self.types.update({
            "u64": "Nat", "NonZeroU64": "Nat", "NodeId": "Nat", "BufStr": "VBytes", "BStr": "VBytes",
            "Vec<NodeId>": "List Nat", "ConstBuf": "VBytes", "SymbolBuf": "VBytes",
            "Config": "Flussab.Btor2.Config", "Self": "Flussab.Btor2.ParserS", "Result<Self, ParseError>": "Flussab.Btor2.ParserS",
            "Node": "Flussab.Btor2.Node", "Line": "Flussab.Btor2.Line", "NodeVariant": "Flussab.Btor2.NodeVariant",
            "Parsed<Node<'static>, ParseError>": "Option Flussab.Btor2.Node",
            "Result<Option<Line>, ParseError>": "Option Flussab.Btor2.Line",
            "Option<Line>": "Option Flussab.Btor2.Line",
        })
        for k, v in self.value_consts.items():
            self.consts[k] = v

        # ---------------------------------------------------------------- `?`
        def try_(em, e, env, hint):
            c = em.cexpr(e[1], env, hint)
            if c.ty == "!":
                return c
            ok_ty = strip_parse_error(c.ty, "Result")
            if ok_ty is None:
                raise TErr(f"{u.name}::{env.fn.name}: `?` on a {c.ty}")
            return Code(c.val, ok_ty, c.pre)

        self.try_handler = try_

        # ---------------------------------------------------------------- token calls
        def token_call(rust):
            lean, ty = u.tokens[rust]

            def h(em, e, env, hint):
                args = e[2]
                if not args or not em.is_state(args[0], env):
                    raise TErr(f"{u.name}::{env.fn.name}: `token::{rust}` is expected to be called on the reader")
                for a in args[1:]:
                    if not (a[0] == "str" or (a[0] == "macro" and a[1] == "concat")):
                        raise TErr(f"{u.name}::{env.fn.name}: `token::{rust}`: only message arguments are expected")
                call = f"{ext}.tok {B}.{lean}"
                if ty in ("()", "!", "Result<(), ParseError>"):
                    return Code("()", ty, [call])
                t = env.fresh()
                return Code(t, ty, [f"let {t} ← {call}"])
            return h

        for r in self.tokens:
            self.functions["token::" + r] = token_call(r)

        def check_io_error(em, e, env, hint):
            if e[3]:
                raise TErr("check_io_error with arguments")
            return Code("()", "Result<(), ParseError>", [f"{ext}.tok Btor2TokenExt.checkIoErrorTry"])

        self.state_methods["check_io_error"] = check_io_error

        def concat(em, e, env):
            return Code("()", "str")

        self.macros["concat"] = concat

        # ---------------------------------------------------------------- buffers
        def fm(f):
            return lambda body: [f"{u.modify} fun r => {{ r with {f['lean']} := {body} }}"]

        def clear(em, f, e, env, hint):
            if e[3]:
                raise TErr("clear with arguments")
            return Code("()", "()", fm(f)("[]"))

        def append(wrap):
            def h(em, f, e, env, hint):
                c = em.cexpr(e[3][0], env)
                val = f"[{c.val}]" if wrap else paren(c.val)
                return Code("()", "()", c.pre + fm(f)(f"r.{f['lean']} ++ {val}"))
            return h

        def borrow(em, f, e, env, hint):
            return Code(f"(← {u.get}).{f['lean']}", f["ty"])

        self.field_methods = {
            ("Vec<NodeId>", "clear"): clear, ("ConstBuf", "clear"): clear, ("SymbolBuf", "clear"): clear,
            ("Vec<NodeId>", "push"): append(True), ("ConstBuf", "push_str"): append(False),
            ("SymbolBuf", "extend_from_slice"): append(False), ("SymbolBuf", "borrow"): borrow,
        }

        def default(em, e, env, hint):
            if hint not in ("Vec<NodeId>", "ConstBuf", "SymbolBuf"):
                raise TErr(f"{u.name}::{env.fn.name}: Default::default() of type {hint}")
            return Code("[]", hint)

        self.functions["Default::default"] = default

        # ---------------------------------------------------------------- values of btor2.rs types
        def plain_ctor(rust):
            lean, ty, n = u.value_ctors[rust]

            def h(em, e, env, hint):
                if len(e[2]) != n:
                    raise TErr(f"{u.name}::{env.fn.name}: `{rust}` with {len(e[2])} arguments")
                cs = em.cargs(e[2], env)
                return Code("(" + lean + "".join(" " + paren(c.val) for c in cs) + ")", ty,
                            [p for c in cs for p in c.pre])
            return h

        for r in self.value_ctors:
            self.functions[r] = plain_ctor(r)

        def shape(cond, env, what):
            if not cond:
                raise TErr(f"{u.name}::{env.fn.name}: `{what}` is not of the shape the model's constructor inlines")

        def struct_args(em, s, env, name, fields):
            shape(s[0] == "struct" and s[1] == [name] and s[3] is None and sorted(f for f, _ in s[2]) == sorted(fields),
                  env, name + " { .. }")
            vals = dict(s[2])
            return [em.cexpr(vals[f], env) for f in fields]

        def build(lean, ty, cs):
            return Code("(" + lean + "".join(" " + paren(c.val) for c in cs) + ")", ty, [p for c in cs for p in c.pre])

        def sort_array(em, e, env, hint):
            a = e[2][0] if len(e[2]) == 1 else ("?",)
            shape(a[0] == "call" and a[1] == ("path", ["Array"]) and len(a[2]) == 2, env, "Sort::Array(Array(d, c))")
            return build(B + ".BSort.array", "Sort", em.cargs(a[2], env))

        def assignment(em, e, env, hint):
            shape(len(e[2]) == 1, env, "NodeVariant::Assignment(..)")
            return build(B + ".NodeVariant.assignment", "NodeVariant",
                         struct_args(em, e[2][0], env, "Assignment", ["state", "sort", "kind", "value"]))

        def single_value(em, e, env, hint):
            shape(len(e[2]) == 1, env, "Output::SingleValue(..)")
            return build(B + ".Output.singleValue", "Output",
                         struct_args(em, e[2][0], env, "SingleValueOutput", ["kind", "value"]))

        def justice(em, e, env, hint):
            shape(len(e[2]) == 1 and strip_ref(e[2][0]) == ("array", []) and e[2][0][0] == "un", env,
                  "Output::Justice(&[])")
            return Code("(" + B + ".Output.justice [])", "Output")

        def node_value(em, e, env, hint):
            shape(len(e[2]) == 1, env, "NodeVariant::Value(..)")
            c = em.cexpr(e[2][0], env)
            if c.ty != "Value":
                raise TErr(f"{u.name}::{env.fn.name}: NodeVariant::Value of a {c.ty}")
            return Code(f"({B}.NodeVariant.value {paren(c.val)}.1 {paren(c.val)}.2)", "NodeVariant", c.pre)

        def const_text(variant, newtype):
            def h(em, e, env, hint):
                a = e[2][0] if len(e[2]) == 1 else ("?",)
                shape(a[0] == "call" and a[1] == ("path", [newtype]) and len(a[2]) == 1 and a[2][0][0] == "str"
                      and a[2][0][1] in (b"", ""), env, f"Const::{variant}({newtype}(\"\"))")
                return Code(f"({B}.Const.{variant.lower()} [])", "Const")
            return h

        def op_array(lean, n, what):
            def h(em, e, env, hint):
                shape(len(e[2]) == 2 and e[2][1][0] == "array" and len(e[2][1][1]) == n, env, what)
                return build(lean, "Op", [em.cexpr(e[2][0], env)] + em.cargs(e[2][1][1], env))
            return h

        self.functions.update({
            "Sort::Array": sort_array, "NodeVariant::Assignment": assignment, "Output::SingleValue": single_value,
            "Output::Justice": justice, "NodeVariant::Value": node_value,
            "Const::Binary": const_text("Binary", "BinaryConst"), "Const::Decimal": const_text("Decimal", "DecimalConst"),
            "Const::Hex": const_text("Hex", "HexConst"),
            "Op::Binary": op_array(B + ".Op.binary", 2, "Op::Binary(op, [a0, a1])"),
            "Op::Ternary": op_array(B + ".Op.ternary", 3, "Op::Ternary(op, [a0, a1, a2])"),
        })

        def struct(em, e, env, hint):
            name = e[1][-1]
            if e[3] is not None:
                raise TErr("struct literal with a base")
            got = [f for f, _ in e[2]]
            vals = dict(e[2])
            if name == "Value":
                if sorted(got) != ["sort", "variant"]:
                    raise TErr(f"{u.name}: Value literal with fields {got}")
                s, v = em.cexpr(vals["sort"], env), em.cexpr(vals["variant"], env)
                return Code(f"({s.val}, {v.val})", "Value", s.pre + v.pre)
            if name == "Node":
                if sorted(got) != ["comment", "id", "symbol", "variant"]:
                    raise TErr(f"{u.name}: Node literal with fields {got}")
                cs = [(f, em.cexpr(vals[f], env)) for f in ("id", "variant", "symbol", "comment")]
                return Code("({ " + ", ".join(f"{f} := {c.val}" for f, c in cs) + " } : Flussab.Btor2.Node)", "Node",
                            [p for _, c in cs for p in c.pre])
            if name in ("Self", u.impl):
                if got != u.struct[1]:
                    raise TErr(f"{u.name}: {name} literal with fields {got}")
                pre, parts = [], []
                for f, x in e[2]:
                    if f == "reader":
                        if not em.is_state(x, env):
                            raise TErr(f"{u.name}: the `reader` of the new parser is expected to be the reader parameter")
                        continue
                    cfg = u.fields[f]
                    c = em.cexpr(x, env, cfg["ty"])
                    pre += c.pre
                    parts.append(f"{cfg['lean']} := {c.val}")
                t = env.fresh()
                return Code(t, "Self", pre + [f"{ext}.setP {{ " + ", ".join(parts) + " }", f"let {t} ← {ext}.getP"])
            raise TErr(f"{u.name}::{env.fn.name}: struct literal `{name}` has no translation")

        self.struct_handler = struct

        # ---------------------------------------------------------------- methods of values
        def identity(ty):
            return lambda em, c, e, env, hint: Code(c.val, ty, c.pre)

        def empty_into(em, c, e, env, hint):
            if not (e[1][0] == "str" and e[1][1] in (b"", "")):
                raise TErr(f"{u.name}::{env.fn.name}: `.into()` of something other than the placeholder \"\"")
            return Code("([] : VBytes)", "BStr")

        def ext_unary_op(em, c, e, env, hint):
            a = em.cargs(e[3], env, ["u64"])
            if len(a) != 1:
                raise TErr("NodeValueExtOpToken::unary_op takes the pad width")
            return Code(f"({T}.extOpTokenUnaryOp {paren(c.val)} {paren(a[0].val)})", "UnaryOp", c.pre + a[0].pre)

        def unary_op(em, c, e, env, hint):
            if e[3]:
                raise TErr("NodeValueUnaryOpToken::unary_op takes no argument")
            return Code(f"({T}.unaryOpTokenUnaryOp {paren(c.val)})", "UnaryOp", c.pre)

        def has_comment(em, c, e, env, hint):
            return Code(f"({ext}.hasComment {paren(c.val)})", "bool", c.pre)

        def update(lean, n):
            def h(em, c, e, env, hint):
                if not re.fullmatch(r"\w+", c.val) or len(e[3]) != n:
                    raise TErr(f"{u.name}::{env.fn.name}: `{e[2]}` is expected on a local with {n} argument(s)")
                cs = em.cargs(e[3], env)
                return Code("()", "()", c.pre + [p for a in cs for p in a.pre]
                            + [f"{c.val} := {ext}.{lean} {c.val}" + "".join(" " + paren(a.val) for a in cs)])
            return h

        self.value_methods.update({
            ("NonZeroU64", "get"): identity("u64"), ("str", "into"): empty_into,
            ("NodeValueExtOpToken", "unary_op"): ext_unary_op, ("NodeValueUnaryOpToken", "unary_op"): unary_op,
            ("Line", "has_comment"): has_comment, ("Line", "update_comment"): update("updateComment", 1),
            ("Line", "update_bufs"): update("updateBufs", 3),
        })

        # ---------------------------------------------------------------- closures / Parsed combinators
        def closure(em, cl, env, nparams, ptys):
            """-> (`fun x => do` prefix or `do`, body lines, value type of the body with `Result<_, ParseError>` stripped)"""
            if cl[0] != "closure" or len(cl[1]) != nparams:
                raise TErr(f"{u.name}::{env.fn.name}: expected a closure with {nparams} parameter(s)")
            sub = env.child()
            names = []
            for par, ty in zip(cl[1], ptys):
                while par[0] == "pref":
                    par = par[1]
                if par[0] == "pwild":
                    names.append("_")
                elif par[0] == "ptuple" and not par[1]:
                    names.append("()")
                elif par[0] == "pbind" and par[4] is None:
                    ln = lname(par[1])
                    sub.vars[par[1]] = (ln, ty)
                    names.append(ln)
                else:
                    raise TErr("closure parameter pattern")
            body = cl[2]
            if mentions(body, ("return", "break", "continue", "breakv")):
                raise TErr(f"{u.name}::{env.fn.name}: jump inside a closure")
            lines = em.cvalue(body if body[0] == "block" else ("block", [], body, False), sub)
            ty = em._last_value_ty
            r = strip_parse_error(ty, "Result")
            head = ("fun " + " ".join(names) + " => do") if names else "do"
            return head, lines, (r if r is not None else ty)

        def receiver(em, e, env):
            p = em.cexpr(e[1], env)
            ok = strip_parse_error(p.ty, "Parsed")
            if ok is None:
                raise TErr(f"{u.name}::{env.fn.name}: `{e[2]}` on a {p.ty}")
            return p, ok

        def is_comb(e, name):
            return e[0] == "mcall" and e[2] == name and len(e[3]) == 1

        def and_then(em, e, env, hint):
            if not is_comb(e, "and_then"):
                return None
            p, ok = receiver(em, e, env)
            head, lines, ty = closure(em, e[3][0], env, 1, [ok])
            if ty in (None, "!"):
                raise TErr(f"{u.name}::{env.fn.name}: and_then closure of unknown result type")
            t = env.fresh()
            return Code(t, f"Parsed<{ty}, ParseError>", p.pre + [f"let {t} ← {ext}.andThen {paren(p.val)} {head}", lines])

        def map_(em, e, env, hint):
            if not is_comb(e, "map"):
                return None
            p, ok = receiver(em, e, env)
            arg = e[3][0]
            if arg[0] == "path":
                # `p.map(Ctor)`: a tuple constructor used as a function
                arg = ("closure", [("pbind", "x", False, False, None)], ("call", arg, [("path", ["x"])]))
            head, lines, ty = closure(em, arg, env, 1, [ok])
            if ty == "!":
                raise TErr(f"{u.name}::{env.fn.name}: map closure that does not return")
            ty = ty or "?"          # `|_| None`: Lean infers the type
            t = env.fresh()
            return Code(t, f"Parsed<{ty}, ParseError>", p.pre + [f"let {t} ← {ext}.mapP {paren(p.val)} {head}", lines])

        def or_parse(em, e, env, hint):
            if not is_comb(e, "or_parse"):
                return None
            p, ok = receiver(em, e, env)
            head, lines, ty = closure(em, e[3][0], env, 0, [])
            if strip_parse_error(ty, "Parsed") is None:
                raise TErr(f"{u.name}::{env.fn.name}: or_parse with a closure producing {ty}")
            t = env.fresh()
            return Code(t, p.ty, p.pre + [f"let {t} ← {ext}.orParse {paren(p.val)} {head}", lines])

        def or_give_up(em, e, env, hint):
            if not is_comb(e, "or_give_up"):
                return None
            p, ok = receiver(em, e, env)
            head, lines, ty = closure(em, e[3][0], env, 0, [])
            if ty != "!":
                raise TErr(f"{u.name}::{env.fn.name}: or_give_up closure that does not build a ParseError")
            t = env.fresh()
            return Code(t, f"Result<{ok}, ParseError>", p.pre + [f"let {t} ← {ext}.orGiveUp {paren(p.val)} {head}", lines])

        self.chain_handlers = [and_then, map_, or_parse, or_give_up]

        # ---------------------------------------------------------------- `for _ in 0..count`
        def for_range(em, e, env, lname_):
            pat, it, body = e[1], e[2], e[3]
            if not (pat[0] == "pwild" and it[0] == "range" and it[1] == ("lit", 0) and it[2] is not None and not it[3]):
                raise TErr(f"{u.name}::{env.fn.name}: only `for _ in 0..n` is translated")
            if mentions(body, ("return", "break", "continue", "breakv", "closure")):
                raise TErr(f"{u.name}::{env.fn.name}: the body of `for _ in 0..n` may only leave by `?`")
            assigned, used = set(), set()
            collect(body, assigned, used)
            if any(v in env.vars for v in assigned | used):
                raise TErr(f"{u.name}::{env.fn.name}: the body of `for _ in 0..n` uses locals of the function")
            n = em.cexpr(it[2], env, "u64")
            if n.ty != "u64":
                raise TErr(f"{u.name}::{env.fn.name}: `for _ in 0..n` with n of type {n.ty}")
            sub = env.child()
            sub.loop = None
            lines = em.cstmts(body[1], sub)
            if body[2] is not None:
                lines += em.cstmt(("expr", body[2], True), sub)
            fuel = u.fuel.get(env.fn.name)
            out_of_fuel = u.fuel_panic.get(env.fn.name)
            if not fuel or not out_of_fuel:
                raise TErr(f"{u.name}: no fuel configured for the loop of `{env.fn.name}`")
            aux = [f"def {lname_} : Nat → Nat → {u.monad} Unit",
                   f"  | 0, _ => {out_of_fuel}",
                   f"  | fuel + 1, remaining => do"] + flatten(
                ["if remaining == 0 then", ["pure ()"], "else", lines + [f"{lname_} fuel (remaining - 1)"]], 2)
            env.aux.append("\n".join(aux))
            return n.pre + [f"{lname_} {paren(fuel)} {paren(n.val)}"]

        self.for_handler = for_range


UNIT = Btor2ParserUnit
