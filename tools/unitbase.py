"""Base class of translation units (see tools/gen_core.py) and helpers shared by the unit files."""
import os, sys

sys.path.insert(0, os.path.dirname(os.path.abspath(__file__)))
from rs2lean import Code, TErr, camel, paren, strip_ref, norm_ty, lname


class Unit:
    name = ""
    file = ""
    impl = None                 # type whose inherent impl holds the functions (None: free functions)
    traits = ()                 # trait impls of that type that are also translated
    out = ""
    namespace = ""
    imports = []
    monad = ""
    get, modify, panic, assert_, usub, lift_opt = "RM.get", "RM.modify", "RM.panic", "RM.assert", "RM.usub", "RM.liftOpt"
    uadd = "RM.uadd"            # checked usize addition (units with `checked_add`)
    umul = "RM.umul"            # checked usize multiplication (units with `checked_mul`)
    state_vars = {"self"}
    state_subobjects = set()
    state_types = ()
    fields = {}
    struct = None               # (struct name, expected field list)
    types = {}
    consts = {}
    int_params = set()
    casts = {}
    neg = {}
    macros = {}
    functions = {}
    state_methods = {}
    field_methods = {}
    value_methods = {}
    chain_handlers = []
    ctors = {}
    fuel = {}
    for_handler = None
    generic_binder = None
    generic_arg = None
    skip = {}
    rename = {}
    header = ""
    ghost_params = {}           # rust fn name -> [(name, rust type)]: extra (ghost) parameters of the generated function
    self_calls_only = False     # dependency order: count `x.f(..)` as a call of the unit's `f` only if `x` is the state

    def __init__(self):
        self.fns = {}

    def is_state_type(self, pty):
        t = norm_ty(pty)
        return any(t.startswith(s) for s in self.state_types)

    def lean_name(self, rust):
        return self.rename.get(rust, camel(rust))

    def local_fn(self, short, path):
        if len(path) > 1 and path[0] not in ("Self", self.impl):
            return None
        fn = self.fns.get(short)
        if fn is None or short in self.skip:
            return None
        return fn, self.lean_name(short)

    def local_method(self, name):
        fn = self.fns.get(name)
        if fn is None:
            return None
        if name in self.skip:
            raise TErr(f"{self.name}: call of `{name}`, which is excluded from translation ({self.skip[name]})")
        return fn, self.lean_name(name)


# ======================================================================================= driver

def range_args(em, rng, env):
    """`a..b` argument -> (Code lo, Code hi)."""
    if rng[0] != "range" or rng[3]:
        raise TErr("expected a half-open range argument")
    lo = em.cexpr(rng[1], env, "usize") if rng[1] is not None else Code("0", "usize")
    hi = em.cexpr(rng[2], env, "usize")
    return lo, hi
