"""Translation unit: the whole-file drivers `Writer::write_aig`, `Writer::write_ordered_aig` of
flussab-aiger/src/ascii.rs -> Gen/AigerWriteDocGen.lean (base class of unit_aigerbinwritedoc.py: the driver
`write_ordered_aig` of binary.rs).

A subclass of the piece-writer unit (unit_aigerwrite.py): same state, same value types.  In addition:

  self.write_header(..) / write_lit / write_latch / write_count / write_and_gate / write_symbol / write_comment
                             the *generated* piece writers `Gen.AigerWrite.*` of Gen/AigerWriteGen.lean
                             (binary: `Gen.AigerBinWrite.*`), tied by Props/TieAigerWrite
  `Aig<L>`, `OrderedAig<L>`  `Aiger.Aig`, `Aiger.OrderedAig` (field table `DOC_FIELDS`; vectors are lists,
                             `String` its bytes, `.len()` = `List.length`)
  `Header { .. }`, `Latch { .. }`, `AndGate { inputs, output }`   the records of Model/Aiger.lean, field by field
  `L::from_code(code)`       the code itself (`L` = `Nat`, as in the piece-writer unit)
  `for <pat> in &aig.xs { .. }`, `for &x in xs { .. }`   structural recursion over the list; the locals the body
                             assigns (`code`) are threaded through as an argument / result
                             (`&OrderedLatch { next_state, initialization }` / `&OrderedAndGate { inputs }` bind the
                             element; `inputs` stands for the gate's pair of inputs)
  `for _ in 0..n { .. }`     structural recursion over `n`
  `code += 2`                `code + 2` on `Nat`: NOT the overflow behaviour of `usize` (debug panic / release wrap);
                             the tie assumes `2 * (inputs + latches + gates + 1) < 2^64`, where none happens
"""
from unitbase import *
from unit_aigerwrite import AigerWriteUnit
from unit_aigerheader import FIELDS
from rs2lean import collect, bound_names, flatten as rs_flatten

DOC_FIELDS = {
    "max_var_index": ("maxVarIndex", "usize"), "input_count": ("inputCount", "usize"),
    "inputs": ("inputs", "[L]"), "outputs": ("outputs", "[L]"),
    "bad_state_properties": ("bad", "[L]"), "invariant_constraints": ("constraints", "[L]"),
    "justice_properties": ("justice", "[[L]]"), "fairness_constraints": ("fairness", "[L]"),
    "symbols": ("symbols", "[Symbol]"), "comment": ("comment", "Option<String>"),
}
PIECES = ["write_header", "write_lit", "write_latch", "write_count", "write_and_gate", "write_symbol", "write_comment"]
LEAN_RECORD = {"Latch": "Aiger.Latch", "AndGate": "Aiger.AndGate", "Header": "Aiger.Header"}


class AigerWriteDocUnit(AigerWriteUnit):
    name = "aigerwritedoc"
    out = "AigerWriteDocGen.lean"
    namespace = "Flussab.Gen.AigerWriteDoc"
    imports = ["Flussab.Gen.AigerWriteGen"]
    pieces_ns = "Gen.AigerWrite"
    only = {"write_aig", "write_ordered_aig"}
    skip = {}
    fuel = {}
    int_literal_default = "usize"
    latch_elem = "Latch<L>"          # element type of `aig.latches` / `aig.and_gates` per struct
    doc_structs = {"Aig<L>": ("Latch<L>", "AndGate<L>"), "OrderedAig<L>": ("OrderedLatch<L>", "OrderedAndGate<L>")}

    def __init__(self):
        super().__init__()
        u = self
        self.types = dict(self.types)
        self.types.update({
            "Aig<L>": "Aiger.Aig", "OrderedAig<L>": "Aiger.OrderedAig", "[L]": "(List Nat)",
            "[[L]]": "(List (List Nat))", "[Latch<L>]": "(List Aiger.Latch)", "[AndGate<L>]": "(List Aiger.AndGate)",
            "[OrderedLatch<L>]": "(List Aiger.OLatch)", "[OrderedAndGate<L>]": "(List Aiger.OGate)",
            "[Symbol]": "(List Aiger.Symbol)", "String": "(List UInt8)", "Option<String>": "(Option (List UInt8))",
            "usize": "Nat",
        })
        self.value_fields = dict(self.value_fields)
        for sty, (lty, gty) in self.doc_structs.items():
            for f, v in DOC_FIELDS.items():
                self.value_fields[(sty, f)] = v
            self.value_fields[(sty, "latches")] = ("latches", f"[{lty}]")
            self.value_fields[(sty, "and_gates")] = ("gates", f"[{gty}]")

        def slice_len(em, c, e, env, hint):
            return Code(f"{paren(c.val)}.length", "usize", c.pre)

        self.value_methods = dict(self.value_methods)
        for t in list(self.types):
            if t.startswith("[") and t != "[usize]" and t != "[u8]":
                self.value_methods[(t, "len")] = slice_len

        def piece(rust):
            def h(em, e, env, hint):
                if len(e[3]) != 1:
                    raise TErr(f"{u.name}::{env.fn.name}: `{rust}` with {len(e[3])} arguments")
                a = em.cexpr(strip_ref(e[3][0]), env)
                return Code("()", "()", a.pre + [f"{u.pieces_ns}.{camel(rust)} {paren(a.val)}"])
            return h

        self.state_methods = dict(self.state_methods)
        for p in PIECES:
            self.state_methods[p] = piece(p)

        def from_code(em, e, env, hint):
            if len(e[2]) != 1:
                raise TErr("L::from_code arity")
            c = em.cexpr(e[2][0], env, "usize")
            if c.ty != "usize":
                raise TErr(f"{u.name}::{env.fn.name}: `L::from_code` of a value of type {c.ty}")
            return Code(c.val, "L", c.pre)

        self.functions = dict(self.functions)
        self.functions["L::from_code"] = from_code

        def struct_lit(em, e, env, hint):
            sname, fs, base = e[1][-1], e[2], e[3]
            if base is not None or sname not in LEAN_RECORD:
                raise TErr(f"{u.name}::{env.fn.name}: struct literal `{sname}` has no translation")
            pre, out = [], []
            if sname == "Header":
                if [f for f, _ in fs] != list(FIELDS):
                    raise TErr(f"{u.name}::{env.fn.name}: `Header` literal with fields {[f for f, _ in fs]}")
                for f, x in fs:
                    c = em.cexpr(x, env, "usize")
                    if c.ty != "usize":
                        raise TErr(f"{u.name}::{env.fn.name}: header field `{f}` of type {c.ty}")
                    pre += c.pre
                    out.append(f"{FIELDS[f]} := {c.val}")
            elif sname == "Latch":
                want = {"state": ("state", "L"), "next_state": ("next", "L"), "initialization": ("init", "Option<bool>")}
                if sorted(f for f, _ in fs) != sorted(want):
                    raise TErr(f"{u.name}::{env.fn.name}: `Latch` literal with fields {[f for f, _ in fs]}")
                for f, x in fs:
                    c = em.cexpr(x, env, want[f][1])
                    if c.ty != want[f][1]:
                        raise TErr(f"{u.name}::{env.fn.name}: latch field `{f}` of type {c.ty}")
                    pre += c.pre
                    out.append(f"{want[f][0]} := {c.val}")
            else:
                if sorted(f for f, _ in fs) != ["inputs", "output"]:
                    raise TErr(f"{u.name}::{env.fn.name}: `AndGate` literal with fields {[f for f, _ in fs]}")
                for f, x in fs:
                    if f == "inputs":
                        c = em.cexpr(x, env)
                        if c.ty != "inputs of OrderedAndGate<L>":
                            raise TErr(f"{u.name}::{env.fn.name}: `inputs` of type {c.ty}")
                        out += [f"in0 := {c.val}.in0", f"in1 := {c.val}.in1"]
                    else:
                        c = em.cexpr(x, env, "L")
                        if c.ty != "L":
                            raise TErr(f"{u.name}::{env.fn.name}: `output` of type {c.ty}")
                        out.append(f"out := {c.val}")
                    pre += c.pre
            return Code(f"({{ {', '.join(out)} }} : {LEAN_RECORD[sname]})", f"{sname}<L>" if sname != "Header" else "Header", pre)

        self.struct_handler = struct_lit

        def for_doc(em, e, env, lname_):
            pat, it, body = e[1], strip_ref(e[2]), e[3]
            assigned, used = set(), set()
            collect(e[3], assigned, used)          # (the iterator expression is evaluated at the call)
            muts = [v for v in env.vars if v in assigned]
            if any(env.vars[m][1] != "usize" for m in muts):
                raise TErr(f"{u.name}::{env.fn.name}: `for` assigns a local that is not a usize")
            inner = set()
            bound_names(e, inner)
            caps = [v for v in env.vars if v in used and v not in inner and v not in muts
                    and not (it[0] == "path" and it[1] == [v])]
            cap_binders = "".join(f" ({env.vars[c][0]} : {em.lean_type(env.vars[c][1])})" for c in caps)
            cap_args = "".join(" " + env.vars[c][0] for c in caps)
            mut_tys = " → ".join("Nat" for _ in muts)
            mut_names = [env.vars[m][0] for m in muts]
            ret = "Unit" if not muts else ("Nat" if len(muts) == 1 else "(" + " × ".join("Nat" for _ in muts) + ")")
            ret_val = "()" if not muts else (mut_names[0] if len(muts) == 1 else "(" + ", ".join(mut_names) + ")")
            sub = env.child()
            sub.loop = None
            while pat[0] == "pref":
                pat = pat[1]
            head = []
            if it[0] == "range":
                if pat[0] != "pwild" or it[3] or it[1] is None or it[1][0] != "lit" or it[1][1] != 0:
                    raise TErr(f"{u.name}::{env.fn.name}: only `for _ in 0..n` is translated")
                hi = em.cexpr(it[2], env, "usize")
                if hi.ty != "usize":
                    raise TErr(f"{u.name}::{env.fn.name}: range bound of type {hi.ty}")
                xs, dom, nil_pat = hi, "Nat", "0"
                rest_v = env.fresh("n")
                cons_pat = f"{rest_v} + 1"
            else:
                xs = em.cexpr(it, env)
                m = re.fullmatch(r"\[(.*)\]", xs.ty or "")
                if not m:
                    raise TErr(f"{u.name}::{env.fn.name}: `for` over a value of type {xs.ty}")
                elem = m.group(1)
                dom, nil_pat = f"List {em.lean_type(elem)}", "[]"
                rest_v = env.fresh("rest")
                if pat[0] == "pbind":
                    xv = lname(pat[1])
                    sub.vars[pat[1]] = (xv, elem)
                elif pat[0] == "pstruct" and not pat[3] and f"{pat[1][-1]}<L>" == elem:
                    xv = env.fresh("elem")
                    for f, p in pat[2]:
                        if p[0] != "pbind" or p[1] != f:
                            raise TErr(f"{u.name}::{env.fn.name}: struct pattern field `{f}`")
                        if (elem, f) in u.value_fields:
                            lf, fty = u.value_fields[(elem, f)]
                            head.append(f"let {lname(f)} := {xv}.{lf}")
                            sub.vars[f] = (lname(f), fty)
                        elif elem == "OrderedAndGate<L>" and f == "inputs":
                            sub.vars[f] = (xv, "inputs of OrderedAndGate<L>")
                        else:
                            raise TErr(f"{u.name}::{env.fn.name}: struct pattern field `{elem}.{f}`")
                    want = [f for (t, f) in u.value_fields if t == elem] + (["inputs"] if elem == "OrderedAndGate<L>" else [])
                    if sorted(f for f, _ in pat[2]) != sorted(want):
                        raise TErr(f"{u.name}::{env.fn.name}: struct pattern of `{elem}` with fields {[f for f, _ in pat[2]]}")
                else:
                    raise TErr(f"{u.name}::{env.fn.name}: `for` pattern {pat[0]}")
                cons_pat = f"{xv} :: {rest_v}"
            lines = [f"let mut {n} := {n}" for n in mut_names] + head
            for m_ in muts:
                em.mark_lean_mut(sub, m_)
            lines += em.cstmts(body[1], sub)
            if body[2] is not None:
                lines += em.cstmt(("expr", body[2], True), sub)
            lines += [f"{lname_}{cap_args} {rest_v}" + "".join(" " + n for n in mut_names)]
            aux = [f"def {lname_}{cap_binders} : {dom}{' → ' + mut_tys if muts else ''} → {u.monad} ({ret})",
                   f"  | {nil_pat}{''.join(', ' + n for n in mut_names)} => pure {ret_val}",
                   f"  | {cons_pat}{''.join(', ' + n for n in mut_names)} => do"] + rs_flatten(lines, 2)
            env.aux.append("\n".join(aux))
            call = f"{lname_}{cap_args} {paren(xs.val)}" + "".join(" " + n for n in mut_names)
            if not muts:
                return xs.pre + [call]
            t = env.fresh(mut_names[0] + "'") if len(muts) == 1 else env.fresh("r")
            out = xs.pre + [f"let {t} ← {call}"]
            if len(muts) == 1:
                out.append(f"{mut_names[0]} := {t}")
            else:
                out += [f"{n} := {t}.{i + 1}" for i, n in enumerate(mut_names)]
            return out

        self.for_handler = for_doc


import re

UNIT = AigerWriteDocUnit
