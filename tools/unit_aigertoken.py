"""Translation unit: the token functions of flussab-aiger/src/token.rs -> Gen/AigerTokenGen.lean.

State, monad and the meaning of the calls into the core crate are those of `PMUnit` (tools/unit_cnftoken.py).
Additional conventions of this unit:

  errors         A `ParseError` is not a value but the thrown final outcome of the parse.  A function returning
                 `ParseError` (`not_assigning`, ...) is translated to a `PM α` for every `α` (it never returns);
                 `Result<T, ParseError>` is `PM T`: `Ok(v)` is `v`, `Err(e)` is `e` (already thrown), `e?` is `e`.
                 `input.give_up(msg)` / `input.give_up_at(pos, msg)` -> `PM.giveUp` / `PM.giveUpAt pos`
                 (messages are not modelled: `&str` / `String` are `Unit`, `format!` is `()`).
  combinators    `p.or_give_up(|| e)`, `p.map_err(|s| e)`, `p.and_also(|&mut v| r)` of `flussab::Parsed`
                 (flussab/src/parser.rs) -> `AigerTokenExt.orGiveUp / mapErr / andAlso` applied to the value of
                 `p` and the translated closure body (Model/AigerTokenExt.lean: hand-written contracts).
  uint::<usize>  the turbofish is dropped by the parser; every call of `uint` from a non-generic function of this
                 file is the `usize` instance: `AigerTokenExt.asUsize <$> uint Aiger.usizeTy`.
  reader.buf()   the view has no buffer value: `buf()[k]` -> `AigerTokenExt.bufAt k`, `buf()[..n]` -> `PM.bufPrefix n`.
  skipped functions that are called from translated ones are replaced by their hand models
                 (`unexpected` -> `Aiger.unexpected`, `exceeds_count` ->
                 `Aiger.errorAtMark`); these stay tied by the correspondence runs only.
"""
from unitbase import *
from unit_cnftoken import PMUnit


def is_closure(a, nparams):
    return a[0] == "closure" and len(a[1]) == nparams


def strip_pat(p):
    while p[0] == "pref":
        p = p[1]
    return p


class AigerTokenUnit(PMUnit):
    name = "aigertoken"
    file = "flussab-aiger/src/token.rs"
    impl = None
    out = "AigerTokenGen.lean"
    namespace = "Flussab.Gen.AigerToken"
    imports = ["Flussab.Model.AigerTokenExt"]
    skip = {
        "unexpected": "builds a message from up to 60 bytes (Vec, format!, from_utf8_lossy); modelled by `Aiger.unexpected`",
        "exceeds_count": "branches on the text of the numeral (`value.starts_with('0')`) to choose a message; strings are not modelled; both branches are `Aiger.errorAtMark`",
        "remaining_line_content": "std UTF-8 validation (`from_utf8`, `Utf8Error::valid_up_to`), `from_utf8_unchecked`; modelled by `Aiger.remainingLineContent`",
        "remaining_file_content": "std UTF-8 validation, iterator adaptors with closures (`rev().position`, `filter().count()`), `buf_len()`; modelled by `Aiger.remainingFileContent`",
    }
    rename = {"fixed": "fixedTok", "lit": "litTok"}
    int_literal_default = "usize"
    wrapping_usize_shl = True
    fuel = {"binary_uint": "11"}
    casts = {("u8", "usize"): "({}).toNat"}
    consts = {"usize::BITS": ("64", "usize")}     # 64-bit target (DESIGN §3.1)
    # functions returning `ParseError`: `PM α` for every α
    extra_binders = {"not_assigning": "{α : Type}", "invalid_initialization": "{α : Type}"}
    # hand models of skipped functions: rust name -> (Lean term, result type; "!" = never returns)
    modelled = {
        "unexpected": ("Aiger.unexpected", "!"),
        "exceeds_count": ("Aiger.errorAtMark", "!"),
    }

    def __init__(self):
        super().__init__()
        self.pm_common()
        u = self
        self.types["ParseError"] = "α"
        self.types.update({
            "Result<(), ParseError>": "Unit", "Result<bool, ParseError>": "Bool", "Result<usize, ParseError>": "Nat",
            "Parsed<usize, String>": "Option (Option Nat)",
        })

        # ---------------------------------------------------------------- errors
        def give_up(em, e, env, hint):
            cs = em.cargs(e[3], env, ["str"])
            return Code("()", "!", [p for c in cs for p in c.pre] + ["PM.giveUp"])

        def give_up_at(em, e, env, hint):
            cs = em.cargs(e[3], env, ["usize", "str"])
            return Code("()", "!", [p for c in cs for p in c.pre] + [f"PM.giveUpAt {paren(cs[0].val)}"])

        self.state_methods["give_up"] = give_up
        self.state_methods["give_up_at"] = give_up_at

        def fmt(em, e, env):
            # format!(..): the message is not modelled; its arguments are evaluated (they must translate)
            pre = []
            for a in (e[2] or [])[1:]:
                pre += em.cexpr(a, env).pre
            return Code("()", "String", pre)

        self.macros = dict(self.macros)
        self.macros["format"] = fmt

        def ok(em, e, env, hint):
            return em.cexpr(e[2][0], env, res_ok_of(hint))

        def err(em, e, env, hint):
            c = em.cexpr(e[2][0], env)
            if c.ty != "!":
                raise TErr(f"aigertoken::{env.fn.name}: Err(..) of something that is not a give_up / error function")
            return c

        def res_ok_of(h):
            if h and h.startswith("Result<"):
                return h[len("Result<"):].split(",")[0].strip()
            return None

        self.functions["Ok"] = ok
        self.functions["Err"] = err

        def try_(em, e, env, hint):
            c = em.cexpr(e[1], env, hint)
            if c.ty and (c.ty.startswith("Parsed<") or c.ty.startswith("Option<")):
                raise TErr(f"aigertoken::{env.fn.name}: `?` on a {c.ty}")
            return c

        self.try_handler = try_

        # ---------------------------------------------------------------- calls of hand-modelled / never-returning functions
        def modelled_call(rust):
            lean, ty = u.modelled[rust]

            def h(em, e, env, hint):
                # arguments: `input`, strings, and values that only select the message
                pre = []
                for a in e[2]:
                    if em.is_state(a, env):
                        continue
                    pre += em.cexpr(a, env).pre
                if ty == "!":
                    return Code("()", "!", pre + [lean])
                t = env.fresh()
                return Code(t, ty, pre + [f"let {t} ← {lean}"])
            return h

        for r in self.modelled:
            self.functions[r] = modelled_call(r)

        def never_call(rust):
            def h(em, e, env, hint):
                fn = u.fns[rust]
                cs, pre, ai = [], [], 0
                for (pat, pty) in fn.params:
                    a = e[2][ai]
                    ai += 1
                    if u.is_state_type(pty):
                        if not em.is_state(a, env):
                            raise TErr(f"`{rust}` is called on something that is not the unit's state")
                        continue
                    c = em.cexpr(a, env, norm_ty(pty))
                    pre += c.pre
                    cs.append(paren(c.val))
                return Code("()", "!", pre + [u.lean_name(rust) + "".join(" " + c for c in cs)])
            return h

        for r in self.extra_binders:
            self.functions[r] = never_call(r)

        def uint_usize(em, e, env, hint):
            if env.fn.generics:
                raise TErr("call of the generic `uint` from a generic function")
            t = env.fresh()
            return Code(t, "Parsed<usize, String>", [f"let {t} ← AigerTokenExt.asUsize <$> uint Aiger.usizeTy"])

        self.functions["uint"] = uint_usize

        # ---------------------------------------------------------------- reader.buf()[..]
        def index(em, e, env):
            b = strip_ref(e[1])
            if not (b[0] == "mcall" and b[2] == "buf" and not b[3] and em.is_state(b[1], env)):
                return None
            idx = e[2]
            t = env.fresh()
            if idx[0] == "range":
                if idx[1] is not None or idx[2] is None or idx[3]:
                    raise TErr("only buf()[..n] is translated")
                n = em.cexpr(idx[2], env, "usize")
                return Code(t, "[u8]", n.pre + [f"let {t} ← PM.bufPrefix {paren(n.val)}"])
            k = em.cexpr(idx, env, "usize")
            return Code(t, "u8", k.pre + [f"let {t} ← AigerTokenExt.bufAt {paren(k.val)}"])

        self.index_handler = index

        # ---------------------------------------------------------------- Parsed combinators with closures
        def parsed_args(ty):
            if ty and ty.startswith("Parsed<") and ty.endswith(">"):
                parts = [p.strip() for p in ty[len("Parsed<"):-1].split(",")]
                if len(parts) == 2:
                    return parts
            return None

        def closure_body(em, body, env, want):
            lines = em.cvalue(body if body[0] == "block" else ("block", [], body, False), env)
            ty = em._last_value_ty
            if want == "!" and ty != "!":
                raise TErr(f"aigertoken::{env.fn.name}: closure expected to produce a ParseError produces {ty}")
            return lines

        def or_give_up(em, e, env, hint):
            if not (e[0] == "mcall" and e[2] == "or_give_up" and len(e[3]) == 1 and is_closure(e[3][0], 0)):
                return None
            p = em.cexpr(e[1], env)
            pa = parsed_args(p.ty)
            if not pa or pa[1] != "ParseError":
                raise TErr(f"aigertoken::{env.fn.name}: or_give_up on {p.ty}")
            body = closure_body(em, e[3][0][2], env.child(), "!")
            t = env.fresh()
            return Code(t, pa[0], p.pre + [f"let {t} ← AigerTokenExt.orGiveUp {paren(p.val)} do", body])

        def map_err(em, e, env, hint):
            if not (e[0] == "mcall" and e[2] == "map_err" and len(e[3]) == 1 and is_closure(e[3][0], 1)):
                return None
            p = em.cexpr(e[1], env)
            pa = parsed_args(p.ty)
            if not pa or pa[1] != "String":
                raise TErr(f"aigertoken::{env.fn.name}: map_err on {p.ty}")
            par = strip_pat(e[3][0][1][0])
            if par[0] != "pbind":
                raise TErr("closure parameter pattern")
            sub = env.child()
            ln = lname(par[1])
            sub.vars[par[1]] = (ln, "String")
            body = closure_body(em, e[3][0][2], sub, "!")
            t = env.fresh()
            return Code(t, f"Parsed<{pa[0]}, ParseError>",
                        p.pre + [f"let {t} ← AigerTokenExt.mapErr {paren(p.val)} fun {ln} => do", body])

        def and_also(em, e, env, hint):
            if not (e[0] == "mcall" and e[2] == "and_also" and len(e[3]) == 1 and is_closure(e[3][0], 1)):
                return None
            p = em.cexpr(e[1], env)
            pa = parsed_args(p.ty)
            if not pa or pa[1] != "ParseError":
                raise TErr(f"aigertoken::{env.fn.name}: and_also on {p.ty}")
            par = strip_pat(e[3][0][1][0])
            if par[0] != "pbind":
                raise TErr("closure parameter pattern")
            sub = env.child()
            ln = lname(par[1])
            sub.vars[par[1]] = (ln, pa[0])
            body = closure_body(em, e[3][0][2], sub, None)
            if em._last_value_ty not in ("()", "!"):
                raise TErr(f"aigertoken::{env.fn.name}: and_also closure of type {em._last_value_ty}")
            t = env.fresh()
            return Code(t, p.ty, p.pre + [f"let {t} ← AigerTokenExt.andAlso {paren(p.val)} fun {ln} => do", body])

        self.chain_handlers = self.chain_handlers + [or_give_up, map_err, and_also]

        def to_string(em, c, e, env, hint):
            return Code("()", "String", c.pre)

        self.value_methods[("usize", "to_string")] = to_string
        self.types["Parsed<usize, ParseError>"] = "Option Nat"

    def local_fn(self, short, path):
        # `uint::<usize>(input)` and the never-returning functions have their own call translation
        if short == "uint" or short in self.extra_binders:
            return None
        return super().local_fn(short, path)


UNIT = AigerTokenUnit
