"""Translation unit: the whole-file driver of the binary AIGER parser, `Parser::parse` of
flussab-aiger/src/binary.rs -> Gen/AigerBinParseGen.lean.

A subclass of the ASCII unit (unit_aigerparse.py: monad `PM`, `self` = `Aiger.Parser`, the typestate variable
`aag_reader` alpha-renamed per re-binding, calls of the typestate API -> the model functions tied by
Props/TieAigerBinSections and Props/TieAigerSymbols, pushes as `++ [x]`, checked indexing, the loops' fuel and
out-of-fuel values those of the model).  What differs:
  * the result struct is `OrderedAig<L>` = the model's `Aiger.OrderedAig` (`input_count` instead of `inputs`,
    `Vec<OrderedLatch<L>>`, `Vec<OrderedAndGate<L>>`);
  * there is no input section: the first transition is `self.latches()` = `Aiger.toLatches { p := self }`
    (`latches_tied` of Props/TieAigerBinSections);
  * `next_latch` / `next_and_gate` are the binary readers `Aiger.nextLatchBin` / `Aiger.nextAndGateBin`.
"""
from unitbase import *
from unit_aigerparse import AigerParseUnit, METHODS, AIG_FIELDS

BIN_METHODS = {k: v for k, v in METHODS.items() if k[0] not in ("Parser", "ParseInputs")}
BIN_METHODS[("Parser", "latches")] = ("trans", "Aiger.toLatches {{ p := {} }}", "ParseLatches")
BIN_METHODS[("ParseLatches", "next_latch")] = ("next", "Aiger.nextLatchBin", "OrderedLatch<L>")
BIN_METHODS[("ParseAndGates", "next_and_gate")] = ("next", "Aiger.nextAndGateBin", "OrderedAndGate<L>")

ORDERED_FIELDS = {k: v for k, v in AIG_FIELDS.items() if k != "inputs"}
ORDERED_FIELDS["input_count"] = ("inputCount", "usize")
ORDERED_FIELDS["latches"] = ("latches", "Vec<OrderedLatch<L>>")
ORDERED_FIELDS["and_gates"] = ("gates", "Vec<OrderedAndGate<L>>")


class AigerBinParseUnit(AigerParseUnit):
    name = "aigerbinparse"
    file = "flussab-aiger/src/binary.rs"
    out = "AigerBinParseGen.lean"
    namespace = "Flussab.Gen.AigerBinParse"
    structs = [("Parser", ["reader", "header", "max_lit", "code", "_lit_builder"])]
    aig = "OrderedAig"
    aig_lean = "Aiger.OrderedAig"
    aig_fields = ORDERED_FIELDS
    methods = BIN_METHODS


UNIT = AigerBinParseUnit
