#!/usr/bin/env python3
"""
Translator: straight-line u64/u32 Rust kernels -> Lean `BitVec` definitions.

  gen_swar.py <repo> <out-dir>     writes <out-dir>/Swar.lean

Translated functions (regenerated from /repo on every check run; the theorems about them in
Flussab/Proof/Swar.lean are then re-checked against what the source says now):
  flussab/src/text.rs            swar_ascii_digits_u64_le(word: u64) -> (u32, usize)
  flussab-btor2/src/token.rs     ascii_lowercase_u64  (the part after the 8-byte load)

Supported Rust subset: `const N: T = lit;`, `let x = e;`, one or more early
`if a == b { return (e1, e2); }`, a final tuple expression; expressions over identifiers, integer
literals (hex/dec, optional type suffix), `^ & | + - * / << >>`, unary `!`, parentheses,
`.wrapping_add(e)`, `.wrapping_mul(e)`, `.trailing_zeros()`, `e as T`.
Every plain `+ - *` and every shift additionally contributes a no-overflow side condition to
`<name>NoPanic` (debug-build arithmetic checks, property C05).
Anything else is a translation failure (exit 1): the tie to the source is then broken.
"""
import os, re, sys

KEYWORDS = {"matches", "partial", "mask", "at", "from", "end", "then", "open", "show"}


class TErr(Exception):
    pass


def tokenize(s):
    toks = []
    i = 0
    while i < len(s):
        c = s[i]
        if c.isspace():
            i += 1
        elif c.isdigit():
            m = re.match(r"0x[0-9a-fA-F_]+|[0-9_]+", s[i:])
            lit = m.group(0)
            i += len(lit)
            m2 = re.match(r"(u64|u32|usize|u8|i32)", s[i:])
            suf = None
            if m2:
                suf = m2.group(0)
                i += len(suf)
            toks.append(("lit", int(lit.replace("_", ""), 0), suf))
        elif c.isalpha() or c == "_":
            m = re.match(r"[A-Za-z_][A-Za-z0-9_]*", s[i:])
            toks.append(("id", m.group(0)))
            i += len(m.group(0))
        elif s.startswith("<<", i) or s.startswith(">>", i) or s.startswith("==", i):
            toks.append(("op", s[i:i + 2]))
            i += 2
        elif c in "^&|+-*/!().,":
            toks.append(("op", c))
            i += 1
        else:
            raise TErr(f"unexpected character {c!r} in expression {s!r}")
    return toks


class Parser:
    # precedence (Rust): * /  >  + -  >  << >>  >  &  >  ^  >  |  >  ==
    LEVELS = [["=="], ["|"], ["^"], ["&"], ["<<", ">>"], ["+", "-"], ["*", "/"]]

    def __init__(self, toks):
        self.t = toks
        self.i = 0

    def peek(self):
        return self.t[self.i] if self.i < len(self.t) else None

    def eat(self, kind, val=None):
        p = self.peek()
        if p and p[0] == kind and (val is None or p[1] == val):
            self.i += 1
            return p
        return None

    def expect(self, kind, val=None):
        p = self.eat(kind, val)
        if not p:
            raise TErr(f"expected {val or kind} at token {self.i}: {self.t[self.i:self.i+3]}")
        return p

    def expr(self, lvl=0):
        if lvl == len(self.LEVELS):
            return self.cast()
        lhs = self.expr(lvl + 1)
        while True:
            p = self.peek()
            if p and p[0] == "op" and p[1] in self.LEVELS[lvl]:
                self.i += 1
                rhs = self.expr(lvl + 1)
                lhs = ("bin", p[1], lhs, rhs)
            else:
                return lhs

    def cast(self):
        e = self.unary()
        while self.eat("id", "as"):
            ty = self.expect("id")[1]
            e = ("cast", e, ty)
        return e

    def unary(self):
        if self.eat("op", "!"):
            return ("not", self.unary())
        return self.postfix()

    def postfix(self):
        e = self.atom()
        while self.eat("op", "."):
            name = self.expect("id")[1]
            self.expect("op", "(")
            args = []
            if not self.eat("op", ")"):
                args.append(self.expr())
                self.expect("op", ")")
            e = ("call", name, e, args)
        return e

    def atom(self):
        p = self.peek()
        if p is None:
            raise TErr("unexpected end of expression")
        if p[0] == "lit":
            self.i += 1
            return ("lit", p[1], p[2])
        if p[0] == "id":
            self.i += 1
            return ("var", p[1])
        if self.eat("op", "("):
            e = self.expr()
            if self.eat("op", ","):
                e2 = self.expr()
                self.expect("op", ")")
                return ("tuple", e, e2)
            self.expect("op", ")")
            return e
        raise TErr(f"unexpected token {p}")


WIDTH = {"u64": 64, "u32": 32, "usize": 64}


def lname(n):
    return n + "_" if n in KEYWORDS else n


class Gen:
    def __init__(self, env):
        self.env = dict(env)  # name -> type
        self.conds = []

    def ty(self, e, hint=None):
        k = e[0]
        if k == "lit":
            return e[2] or hint
        if k == "var":
            if e[1] not in self.env:
                raise TErr(f"unknown identifier {e[1]}")
            return self.env[e[1]]
        if k == "not":
            return self.ty(e[1], hint)
        if k == "cast":
            return e[2]
        if k == "call":
            if e[1] == "trailing_zeros":
                return "u32"
            return self.ty(e[2], hint)
        if k == "bin":
            if e[1] in ("<<", ">>"):
                return self.ty(e[2], hint)
            if e[1] == "==":
                return "bool"
            return self.ty(e[2], None) or self.ty(e[3], None) or hint
        raise TErr(f"cannot type {e}")

    def emit(self, e, hint=None):
        """Lean text of `e` as a BitVec of its type."""
        k = e[0]
        t = self.ty(e, hint)
        if k == "lit":
            if t is None:
                raise TErr(f"cannot infer the type of literal {e[1]}")
            return f"{e[1]}#{WIDTH[t]}"
        if k == "var":
            return lname(e[1])
        if k == "not":
            return f"(~~~{self.emit(e[1], t)})"
        if k == "cast":
            src = self.ty(e[1], None)
            inner = self.emit(e[1], src)
            if src is None:
                raise TErr("cast of untyped expression")
            if WIDTH[src] == WIDTH[e[2]]:
                return inner
            return f"(({inner}).setWidth {WIDTH[e[2]]})"
        if k == "call":
            recv_t = self.ty(e[2], hint)
            recv = self.emit(e[2], recv_t)
            if e[1] == "wrapping_add":
                return f"({recv} + {self.emit(e[3][0], recv_t)})"
            if e[1] == "wrapping_mul":
                return f"({recv} * {self.emit(e[3][0], recv_t)})"
            if e[1] == "trailing_zeros":
                if recv_t != "u64":
                    raise TErr("trailing_zeros on non-u64")
                return f"(({recv}).ctz.setWidth 32)"
            raise TErr(f"unsupported method {e[1]}")
        if k == "bin":
            op = e[1]
            if op in ("<<", ">>"):
                lt = self.ty(e[2], hint)
                l = self.emit(e[2], lt)
                if e[3][0] == "lit":
                    amt = str(e[3][1])
                    if e[3][1] >= WIDTH[lt]:
                        raise TErr("constant shift out of range")
                else:
                    rt = self.ty(e[3], "u32")
                    r = self.emit(e[3], rt)
                    amt = f"({r}).toNat"
                    self.conds.append(f"decide (({r}).toNat < {WIDTH[lt]})")
                return f"({l} {'<<<' if op == '<<' else '>>>'} {amt})"
            lt = self.ty(e, hint)
            if lt is None:
                raise TErr(f"cannot type operands of {op}")
            l = self.emit(e[2], lt)
            r = self.emit(e[3], lt)
            if op == "^":
                return f"({l} ^^^ {r})"
            if op == "&":
                return f"({l} &&& {r})"
            if op == "|":
                return f"({l} ||| {r})"
            if op == "+":
                self.conds.append(f"!(BitVec.uaddOverflow {l} {r})")
                return f"({l} + {r})"
            if op == "*":
                self.conds.append(f"!(BitVec.umulOverflow {l} {r})")
                return f"({l} * {r})"
            if op == "-":
                self.conds.append(f"decide ({r} ≤ {l})")
                return f"({l} - {r})"
            if op == "/":
                return f"({l} / {r})"
        raise TErr(f"cannot translate {e}")


def strip_comments(src):
    return re.sub(r"//[^\n]*", "", src)


def fn_body(src, name):
    m = re.search(r"fn\s+" + name + r"\s*\(([^)]*)\)\s*->\s*\(([^)]*)\)\s*\{", src)
    if not m:
        raise TErr(f"function {name} not found")
    i = m.end()
    depth = 1
    j = i
    while depth:
        if src[j] == "{":
            depth += 1
        elif src[j] == "}":
            depth -= 1
        j += 1
    return m.group(1), m.group(2), src[i:j - 1]


def split_stmts(body):
    """Top-level statements: `...;` or `if ... { ... }` blocks, then the trailing expression."""
    out, depth, cur = [], 0, ""
    for ch in body:
        cur += ch
        if ch in "({":
            depth += 1
        elif ch in ")}":
            depth -= 1
            if ch == "}" and depth == 0 and cur.strip().startswith("if"):
                out.append(cur.strip())
                cur = ""
        elif ch == ";" and depth == 0:
            out.append(cur.strip()[:-1].strip())
            cur = ""
    if cur.strip():
        out.append(cur.strip())
    return out


def translate(src, fname, lean_name, ret_types, skip_until_word):
    params, rets, body = fn_body(strip_comments(src), fname)
    stmts = split_stmts(body)
    if skip_until_word:
        idx = [i for i, s in enumerate(stmts) if re.match(r"let\s+word\s*=\s*unsafe", s)]
        if not idx:
            raise TErr(f"{fname}: no `let word = unsafe {{..}}` load found")
        stmts = stmts[idx[0] + 1:]
    g = Gen({"word": "u64"})
    lines = []
    conds_nested = []  # list of (conds-before, early-return-condition)
    indent = "  "

    def ret_tuple(e):
        if e[0] != "tuple":
            raise TErr(f"{fname}: expected a tuple, got {e}")
        a = g.emit(e[1], ret_types[0])
        b = g.emit(e[2], ret_types[1])
        if WIDTH[g.ty(e[1], ret_types[0])] != WIDTH[ret_types[0]]:
            raise TErr("first tuple component has the wrong width")
        return f"({a}, ({b}).toNat)"

    segs = [[]]
    for s in stmts[:-1]:
        m = re.match(r"const\s+(\w+)\s*:\s*(\w+)\s*=\s*(.*)$", s, re.S)
        if m:
            g.env[m.group(1)] = m.group(2)
            e = Parser(tokenize(m.group(3))).expr()
            lines.append(f"{indent}let {lname(m.group(1))} : BitVec {WIDTH[m.group(2)]} := {g.emit(e, m.group(2))}")
            continue
        m = re.match(r"let\s+(\w+)\s*=\s*(.*)$", s, re.S)
        if m:
            e = Parser(tokenize(m.group(2))).expr()
            t = g.ty(e, None)
            if t is None:
                raise TErr(f"{fname}: cannot infer the type of `{m.group(1)}`")
            n0 = len(g.conds)
            txt = g.emit(e, t)
            segs[-1] += g.conds[n0:]
            g.env[m.group(1)] = t
            lines.append(f"{indent}let {lname(m.group(1))} : BitVec {WIDTH[t]} := {txt}")
            continue
        m = re.match(r"if\s+(.*?)\s*\{\s*return\s+(.*?);\s*\}$", s, re.S)
        if m:
            c = Parser(tokenize(m.group(1))).expr()
            if c[0] != "bin" or c[1] != "==":
                raise TErr(f"{fname}: unsupported condition {m.group(1)}")
            ct = g.ty(c[2], None) or g.ty(c[3], None)
            cond = f"{g.emit(c[2], ct)} == {g.emit(c[3], ct)}"
            r = ret_tuple(Parser(tokenize(m.group(2))).expr())
            lines.append(f"{indent}if {cond} then {r} else")
            segs.append(("ret", cond))
            segs.append([])
            continue
        raise TErr(f"{fname}: unsupported statement `{s[:60]}`")
    n0 = len(g.conds)
    final = ret_tuple(Parser(tokenize(stmts[-1])).expr())
    segs[-1] += g.conds[n0:]
    lines.append(f"{indent}{final}")

    # no-panic definition: same lets, conditions collected along the path
    np = []
    li = 0
    body_lines = [l for l in lines]
    out = [f"def {lean_name} (word : BitVec 64) : BitVec {WIDTH[ret_types[0]]} × Nat :="] + body_lines
    # rebuild the NoPanic body by replaying lines and inserting condition conjunctions
    np_lines = [f"def {lean_name}NoPanic (word : BitVec 64) : Bool :="]
    seg_iter = iter(segs)
    cur = next(seg_iter)
    pending = list(cur)
    for l in lines[:-1]:
        if l.strip().startswith("let "):
            np_lines.append(l)
        else:  # early return line
            conj = " && ".join(pending) if pending else "true"
            tag = next(seg_iter)
            np_lines.append(f"{indent}({conj}) && (if {tag[1]} then true else")
            pending = list(next(seg_iter))
            # lets of the following segment are emitted as they come
    # NB: conditions are emitted after the lets of their segment, so gather them at segment end.
    conj = " && ".join(pending) if pending else "true"
    np_lines.append(f"{indent}({conj})" + ")" * sum(1 for s in segs if isinstance(s, tuple)))
    return "\n".join(out), "\n".join(np_lines)


def main():
    repo, outdir = sys.argv[1], sys.argv[2]
    os.makedirs(outdir, exist_ok=True)
    try:
        t = open(os.path.join(repo, "flussab/src/text.rs")).read()
        d1, n1 = translate(t, "swar_ascii_digits_u64_le", "swarAsciiDigitsU64Le", ("u32", "usize"), False)
        b = open(os.path.join(repo, "flussab-btor2/src/token.rs")).read()
        d2, n2 = translate(b, "ascii_lowercase_u64", "asciiLowercaseU64", ("u64", "usize"), True)
    except TErr as e:
        print(f"gen_swar: cannot translate: {e}")
        sys.exit(1)
    text = ("/-\nGENERATED by tools/gen_swar.py from /repo (flussab/src/text.rs, flussab-btor2/src/token.rs).\n"
            "Do not edit: regenerated on every check run.\n-/\nnamespace Flussab.Gen\n\n"
            + d1 + "\n\n" + n1 + "\n\n" + d2 + "\n\n" + n2 + "\n\nend Flussab.Gen\n")
    path = os.path.join(outdir, "Swar.lean")
    old = open(path).read() if os.path.exists(path) else None
    if old != text:
        open(path, "w").write(text)


if __name__ == "__main__":
    main()
