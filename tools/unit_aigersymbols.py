"""Translation unit: the symbol table and comment readers of the ASCII AIGER parser, `impl ParseSymbols` of
flussab-aiger/src/ascii.rs (`next_symbol`, `comment`) -> Gen/AigerSymbolsGen.lean.

(`ParseAndGates::symbols`, the transition into this struct, belongs to the unit aigersections:
Props/TieAigerSections `symbols_tied`.)

A subclass of the section unit (unit_aigersections.py: token.rs calls -> the token models lifted by `tok`,
checked `usize` `-`), with its own state: `ParseSymbols { parser }` has no counter, so the state record is the
model's `Aiger.Parser` (the fields of `parser` other than the reader) and the monad is
`SYM = StateT Aiger.Parser PM` (Model/AigerSymbolsExt.lean).
  self.parser.reader, `let input = &mut self.parser.reader`  -> the `PM` state (an alias of the state object)
  self.parser.header.<count>                                 -> `(← getS).header.<count>`
  `if c { token::fixed(input, b"i") } else { Fallthrough }`  -> an `if` whose value is an `Option Unit`
  p.and_then(|_| r) / p.or_parse(|| q) / p.or_give_up(|| e) / p.optional()
                                                             -> `AigerSymbolsExt.andThen / orParse / orGiveUp`, `p`
                                                                (the closure of `and_then` returns a `Result`,
                                                                i.e. the computation's value)
  r.map(SymbolTarget::X)   (`Result::map` with a tuple constructor)
                                                             -> the pair `(Aiger.SymKind.x, v)` of the value `v` of `r`
  `Symbol { target, name: Cow::Borrowed(name) }`             -> `{ kind := target.1, index := target.2, name }`
  `&str` (symbol name, comment)                              -> `VBytes`, Rust type `Name` in the emitter
Calls of token.rs functions that are not translated are replaced by their hand models (as `unexpected` in the
unit aigertoken): `remaining_line_content` -> `Aiger.remainingLineContent`, `remaining_file_content` ->
`Aiger.remainingFileContent`, `unexpected` -> `Aiger.unexpected`.
The loop `while self.next_symbol()?.is_some() {}` gets the model's fuel `rest.length + 2` and the model's
out-of-fuel value `rpanic "fuel"`, so that generated loop and `Aiger.skipSymbols` agree for every fuel.
"""
from unitbase import *
from unit_aigersections import AigerSectionsUnit

# SymbolTarget variant -> constructor of the model's `Aiger.SymKind`
KINDS = {
    "Input": "input", "Output": "output", "Latch": "latch", "BadStateProperty": "bad",
    "InvariantConstraint": "constraint", "JusticeProperty": "justice", "FairnessConstraint": "fairness",
}


class AigerSymbolsUnit(AigerSectionsUnit):
    name = "aigersymbols"
    file = "flussab-aiger/src/ascii.rs"
    impl = "ParseSymbols"
    impls = ("ParseSymbols",)
    out = "AigerSymbolsGen.lean"
    namespace = "Flussab.Gen.AigerSymbols"
    imports = ["Flussab.Model.AigerSymbolsExt"]
    monad = "SYM"
    ext = "AigerSymbolsExt"
    get, modify = "AigerSymbolsExt.getS", "AigerSymbolsExt.modifyS"
    usub, uadd = "AigerSymbolsExt.usub", "AigerSymbolsExt.uadd"
    panic = "(AigerSymbolsExt.tok (PM.rpanic \"generated\"))"
    structs = [("Parser", ["reader", "header", "max_lit", "_lit_builder"]), ("ParseSymbols", ["parser"])]
    skip = {}
    fields = {
        "max_lit": dict(lean="maxLit", ty="usize"),
        "header": dict(lean="header", ty="Header"),
    }
    fuel = {"comment": "(← AigerSymbolsExt.getLR).v.rest.length + 2"}
    fuel_panic = {"comment": "(AigerSymbolsExt.tok (PM.rpanic \"fuel\"))"}

    def __init__(self):
        super().__init__()
        # the section unit drops the combinator handlers (its functions use none): install them again
        self.pm_closures(self.ext, {})
        u = self
        ext = self.ext
        tok = self.tok_handler
        res = lambda t: f"Result<{t}, ParseError>"
        self.types.update({
            "SymbolTarget": "(Aiger.SymKind × Nat)", "Option<SymbolTarget>": "Option (Aiger.SymKind × Nat)",
            "Name": "VBytes", "Option<Name>": "Option VBytes",
            "Symbol": "Aiger.Symbol", "Option<Symbol>": "Option Aiger.Symbol",
            "Result<Option<Symbol>, ParseError>": "Option Aiger.Symbol",
            "Result<Option<& str>, ParseError>": "Option VBytes",
            "Result<Option<&str>, ParseError>": "Option VBytes",
        })
        fixed = tok("Aiger.fixed", "Parsed<(), ParseError>", ["[u8]"])
        self.functions.update({
            "token::fixed": fixed, "fixed": fixed,
            "token::fixed_not_eol": tok("Aiger.fixedNotEol", "Parsed<(), ParseError>", ["[u8]"]),
            "token::symbol_index": tok("Aiger.symbolIndex", res("usize"), ["str", "usize"]),
            # hand models of the functions token.rs's own unit does not translate
            "token::remaining_line_content": tok("Aiger.remainingLineContent", res("Name"), []),
            "token::remaining_file_content": tok("Aiger.remainingFileContent", res("Name"), []),
            "token::eof": tok("Aiger.eof", "Parsed<(), ParseError>", []),
            "eof": tok("Aiger.eof", "Parsed<(), ParseError>", []),
            "token::unexpected": tok("Aiger.unexpected", "!", ["str"]),
            "unexpected": tok("Aiger.unexpected", "!", ["str"]),
        })

        def borrowed(em, e, env, hint):
            return em.cexpr(e[2][0], env, "Name")

        self.functions["Cow::Borrowed"] = borrowed

        # ---------------------------------------------------------------- r.map(SymbolTarget::X), p.and_then(|_| r)
        def map_target(em, e, env, hint):
            if not (e[0] == "mcall" and e[2] == "map" and len(e[3]) == 1 and e[3][0][0] == "path"
                    and len(e[3][0][1]) == 2 and e[3][0][1][0] == "SymbolTarget"):
                return None
            kind = KINDS.get(e[3][0][1][1])
            if kind is None:
                raise TErr(f"{u.name}::{env.fn.name}: unknown variant SymbolTarget::{e[3][0][1][1]}")
            r = em.cexpr(e[1], env)
            if r.ty != res("usize"):
                raise TErr(f"{u.name}::{env.fn.name}: map(SymbolTarget::..) on {r.ty}")
            return Code(f"(Aiger.SymKind.{kind}, {r.val})", res("SymbolTarget"), r.pre)

        def and_then(em, e, env, hint):
            if not (e[0] == "mcall" and e[2] == "and_then" and len(e[3]) == 1 and e[3][0][0] == "closure"
                    and len(e[3][0][1]) == 1):
                return None
            p = em.cexpr(e[1], env)
            if not (p.ty and p.ty.startswith("Parsed<") and p.ty.endswith(", ParseError>")):
                raise TErr(f"{u.name}::{env.fn.name}: and_then on {p.ty}")
            par = e[3][0][1][0]
            while par[0] == "pref":
                par = par[1]
            sub = env.child()
            if par[0] == "pwild":
                ln = "_"
            elif par[0] == "pbind":
                ln = lname(par[1])
                sub.vars[par[1]] = (ln, p.ty[len("Parsed<"):-len(", ParseError>")])
            else:
                raise TErr("closure parameter pattern")
            body = e[3][0][2]
            lines = em.cvalue(body if body[0] == "block" else ("block", [], body, False), sub)
            ty = em._last_value_ty
            if not (ty and ty.startswith("Result<") and ty.endswith(", ParseError>")):
                raise TErr(f"{u.name}::{env.fn.name}: and_then closure of result type {ty}")
            ty = ty[len("Result<"):-len(", ParseError>")]
            t = env.fresh()
            return Code(t, f"Parsed<{ty}, ParseError>",
                        p.pre + [f"let {t} ← {ext}.andThen {paren(p.val)} fun {ln} => do", lines])

        self.chain_handlers = [map_target, and_then] + list(self.chain_handlers)

        def is_some(em, c, e, env, hint):
            return Code(f"({c.val}).isSome", "bool", c.pre)

        self.value_methods = dict(self.value_methods)
        for t in ("Option<Symbol>", "Option<()>"):
            self.value_methods[(t, "is_some")] = is_some

        # ---------------------------------------------------------------- Symbol { target, name }
        def struct(em, e, env, hint):
            name = e[1][-1]
            if name != "Symbol":
                raise TErr(f"{u.name}::{env.fn.name}: struct literal `{name}` has no translation")
            if e[3] is not None:
                raise TErr("struct literal with a base")
            got = [f for f, _ in e[2]]
            if got != ["target", "name"]:
                raise TErr(f"{u.name}: Symbol literal with fields {got}")
            vals = dict(e[2])
            t = em.cexpr(vals["target"], env, "SymbolTarget")
            n = em.cexpr(vals["name"], env, "Name")
            if t.ty != "SymbolTarget" or n.ty != "Name":
                raise TErr(f"{u.name}::{env.fn.name}: Symbol literal of a {t.ty} and a {n.ty}")
            return Code("({ kind := " + paren(t.val) + ".1, index := " + paren(t.val) + ".2, name := " + n.val
                        + " } : Aiger.Symbol)", "Symbol", t.pre + n.pre)

        self.struct_handler = struct


UNIT = AigerSymbolsUnit
