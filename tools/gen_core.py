#!/usr/bin/env python3
"""
Translator: /repo's core Rust functions -> Lean definitions (regenerated on every check run).

  gen_core.py <repo> <out-dir>      writes <out-dir>/ReaderGen.lean, ... and <out-dir>/core_manifest.json

Each *unit* below names a source file, the functions translated from it, the Lean state they act on
and the meaning of the external calls (std / num-traits / itoap).  The generic part of the translation
is tools/rs2lean.py.  The tie theorems `Flussab/Props/Tie*.lean` state that every generated function
equals the hand-written model the property theorems are about; they are re-checked by `lake build`
against what the source says now.  A function that cannot be translated any more, a function that
appears or disappears, or a struct whose fields changed is a translation failure (exit 1).
"""
import json, os, re, sys

sys.path.insert(0, os.path.dirname(os.path.abspath(__file__)))
import rsparse
from rs2lean import Emitter, Code, TErr, camel, paren, strip_ref, norm_ty, lname


from unitbase import Unit


def load_units():
    """Every tools/unit_*.py defines `UNIT` (a subclass of `Unit`)."""
    import importlib
    here = os.path.dirname(os.path.abspath(__file__))
    units = []
    for f in sorted(os.listdir(here)):
        if f.startswith("unit_") and f.endswith(".py"):
            units.append(importlib.import_module(f[:-3]).UNIT)
    return units


def struct_fields(src, name):
    m = re.search(r"pub struct " + name + r"\b[^{]*\{(.*?)\n\}", src, re.S)
    if not m:
        return None
    body = re.sub(r"//[^\n]*", "", m.group(1))
    return re.findall(r"^\s*(?:pub\s+)?([a-z_][a-z0-9_]*)\s*:", body, re.M)


def const_values(src, impl):
    """`const NAME: usize = <int expr>;` inside the file -> {`Self::NAME`: (value, type)}."""
    out = {}
    for m in re.finditer(r"const\s+([A-Z_0-9]+)\s*:\s*(usize|u64|u32|u8)\s*=\s*([^;]+);", src):
        expr = m.group(3).strip()
        if not re.fullmatch(r"[0-9xa-fA-F_<>+*\-\s()]+", expr):
            raise TErr(f"constant {m.group(1)} = `{expr}` is not a plain integer expression")
        val = eval(expr.replace("_", ""), {"__builtins__": {}})
        out["Self::" + m.group(1)] = (str(val), m.group(2))
        out[m.group(1)] = (str(val), m.group(2))
    return out


def callees(tree, acc, state_vars=None):
    """Names called in a tree.  With `state_vars` (units with `self_calls_only`), `x.f(..)` counts only when
    `x` is the state object: `self.write.write_all(..)` is not a call of the unit's own `write_all`."""
    if isinstance(tree, tuple):
        if tree and tree[0] == "mcall":
            r = strip_ref(tree[1])
            if state_vars is None or (r[0] == "path" and len(r[1]) == 1 and r[1][0] in state_vars):
                acc.add(tree[2])
        if tree and tree[0] == "call" and tree[1][0] == "path":
            acc.add(tree[1][1][-1])
        for x in tree[1:]:
            callees(x, acc, state_vars)
    elif isinstance(tree, list):
        for x in tree:
            callees(x, acc, state_vars)


def topo(fns, u):
    """Callees first (Lean needs definitions before use); recursion between functions is outside the subset."""
    names = {f.name: f for f in fns}
    deps = {}
    for f in fns:
        acc = set()
        callees(f.body, acc, u.state_vars if u.self_calls_only else None)
        deps[f.name] = [n for n in acc if n in names and n != f.name]
    out, state = [], {}

    def visit(n, stack):
        if state.get(n) == 2:
            return
        if state.get(n) == 1:
            raise TErr(f"{u.name}: recursion between functions {stack}")
        state[n] = 1
        for d in deps[n]:
            visit(d, stack + [d])
        state[n] = 2
        out.append(names[n])

    for f in fns:
        visit(f.name, [f.name])
    return out


def translate_unit(ucls, repo):
    u = ucls()
    path = os.path.join(repo, u.file)
    src = open(path).read()
    fns = rsparse.parse_file(path)
    impls = getattr(u, "impls", None) or (u.impl,)      # `impls`: a unit that spans several inherent impl blocks
    mine = [f for f in fns if (f.impl_of is None and u.impl is None) or
            (f.impl_of is not None and f.impl_of[1] in impls and (f.impl_of[0] is None or f.impl_of[0] in u.traits))]
    if u.only is not None if hasattr(u, "only") else False:
        mine = [f for f in mine if f.name in u.only or f.name in u.skip]
    if getattr(u, "qualify_by_impl", False):            # several impl blocks with equally named methods: `Impl::name`
        for f in mine:
            f.name = f"{f.impl_of[1]}::{f.name}"
    u.fns = {f.name: f for f in mine}
    u.consts = dict(u.consts)
    u.consts.update(const_values(src, u.impl))
    problems = []
    if u.struct:
        got = struct_fields(src, u.struct[0])
        if got != u.struct[1]:
            problems.append(f"struct {u.struct[0]} has fields {got}, the model knows {u.struct[1]}")
    for sname, sfields in getattr(u, "structs", ()):    # units over several structs
        got = struct_fields(src, sname)
        if got != sfields:
            problems.append(f"struct {sname} has fields {got}, the model knows {sfields}")
    em = Emitter(u)
    defs, done = [], []
    order = getattr(u, "order", None)
    if order:       # units whose calls are resolved by receiver type (`qualify_by_impl`) give the definition order
        problems += [f"{u.file}: fn {f.name}: not in the unit's `order`" for f in mine
                     if f.name not in order and f.name not in u.skip]
        problems += [f"{u.file}: function `{n}` of the unit's `order` no longer exists" for n in order if n not in u.fns]
        mine = sorted(mine, key=lambda f: order.index(f.name) if f.name in order else len(order))
    else:
        mine = topo(mine, u)
    for f in mine:
        if f.name in u.skip:
            continue
        try:
            if norm_ty(f.ret or "") == "!":
                continue
            defs.append(f"/-- `{u.file}:{f.line}` `{f.name}` -/\n" + em.function(f, u.lean_name(f.name)))
            done.append(f.name)
        except (TErr, rsparse.RsErr) as ex:
            problems.append(f"{u.file}: fn {f.name}: {ex}")
    for s in u.skip:
        if s not in u.fns:
            problems.append(f"{u.file}: excluded function `{s}` no longer exists")
    text = (f"/-\nGENERATED by tools/gen_core.py from /repo/{u.file}.\nDo not edit: regenerated on every check run.\n-/\n"
            + "".join(f"import {i}\n" for i in u.imports)
            + "\nset_option linter.unusedVariables false\n"
            + f"\nnamespace {u.namespace}\nopen Flussab\n\n" + u.header
            + "\n\n".join(defs) + f"\n\nend {u.namespace}\n")
    return u, text, done, problems


def main():
    repo, out = sys.argv[1], sys.argv[2]
    os.makedirs(out, exist_ok=True)
    manifest, all_problems = {}, []
    for ucls in load_units():
        u, text, done, problems = translate_unit(ucls, repo)
        p = os.path.join(out, u.out)
        if not os.path.exists(p) or open(p).read() != text:
            open(p, "w").write(text)
        manifest[u.name] = dict(file=u.file, lean=u.out, translated=done, excluded=u.skip)
        all_problems += problems
    mp = os.path.join(out, "core_manifest.json")
    mt = json.dumps(manifest, indent=1, sort_keys=True)
    if not os.path.exists(mp) or open(mp).read() != mt:
        open(mp, "w").write(mt)
    if all_problems:
        print("gen_core: translation failed:")
        for pr in all_problems:
            print("  " + pr)
        sys.exit(1)


if __name__ == "__main__":
    main()
