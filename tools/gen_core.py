#!/usr/bin/env python3
"""
Translator: /repo's core Rust functions -> Lean definitions (regenerated on every check run).

  gen_core.py <repo> <out-dir>      writes <out-dir>/ReaderGen.lean, ... and <out-dir>/core_manifest.json

Each *unit* below names a source file, the functions translated from it, the Lean state they act on
and the meaning of the external calls (std / num-traits / itoap).  The generic part of the translation
is tools/rs2lean.py.  The tie theorems `Flussab/Props/Tie*.lean` state that every generated function
equals the hand-written model the property theorems are about; they are re-checked by `lake build`
against what the source says now.  A function that cannot be translated any more, a function that
appears or disappears, or a struct whose fields changed is a translation failure (exit 1).
"""
import json, os, re, sys

sys.path.insert(0, os.path.dirname(os.path.abspath(__file__)))
import rsparse
from rs2lean import Emitter, Code, TErr, camel, paren, strip_ref, norm_ty, lname


class Unit:
    name = ""
    file = ""
    impl = None                 # type whose inherent impl holds the functions (None: free functions)
    traits = ()                 # trait impls of that type that are also translated
    out = ""
    namespace = ""
    imports = []
    monad = ""
    get, modify, panic, assert_, usub, lift_opt = "RM.get", "RM.modify", "RM.panic", "RM.assert", "RM.usub", "RM.liftOpt"
    state_vars = {"self"}
    state_subobjects = set()
    state_types = ()
    fields = {}
    struct = None               # (struct name, expected field list)
    types = {}
    consts = {}
    int_params = set()
    casts = {}
    neg = {}
    macros = {}
    functions = {}
    state_methods = {}
    field_methods = {}
    value_methods = {}
    chain_handlers = []
    ctors = {}
    fuel = {}
    for_handler = None
    generic_binder = None
    generic_arg = None
    skip = {}
    rename = {}
    header = ""

    def __init__(self):
        self.fns = {}

    def is_state_type(self, pty):
        t = norm_ty(pty)
        return any(t.startswith(s) for s in self.state_types)

    def lean_name(self, rust):
        return self.rename.get(rust, camel(rust))

    def local_fn(self, short, path):
        if len(path) > 1 and path[0] not in ("Self", self.impl):
            return None
        fn = self.fns.get(short)
        if fn is None or short in self.skip:
            return None
        return fn, self.lean_name(short)

    def local_method(self, name):
        fn = self.fns.get(name)
        if fn is None:
            return None
        if name in self.skip:
            raise TErr(f"{self.name}: call of `{name}`, which is excluded from translation ({self.skip[name]})")
        return fn, self.lean_name(name)


# ======================================================================================= reader
def _range_args(em, rng, env):
    if rng[0] != "range" or rng[3]:
        raise TErr("expected a half-open range argument")
    lo = em.cexpr(rng[1], env, "usize") if rng[1] is not None else Code("0", "usize")
    hi = em.cexpr(rng[2], env, "usize")
    return lo, hi


class ReaderUnit(Unit):
    name = "reader"
    file = "flussab/src/deferred_reader.rs"
    impl = "DeferredReader"
    out = "ReaderGen.lean"
    namespace = "Flussab.Gen.Reader"
    imports = ["Flussab.Model.ReaderExt"]
    monad = "RM Reader"
    state_types = ("DeferredReader",)
    struct = ("DeferredReader", ["read", "buf", "pos_in_buf", "valid_len", "complete", "io_error", "pos_of_buf",
                                 "mark_in_buf", "chunk_size"])
    fields = {
        "read": dict(lean="src", ty="Box<dyn Read>"),
        "buf": dict(lean="buf", ty="Vec<u8>"),
        "pos_in_buf": dict(lean="posInBuf", ty="usize"),
        "valid_len": dict(lean="validLen", ty="usize"),
        "complete": dict(lean="complete", ty="bool"),
        "io_error": dict(lean="ioError", ty="Option<io::Error>", get="(ReaderExt.optOfBool {})", set="({}).isSome"),
        "pos_of_buf": dict(lean="posOfBuf", ty="usize"),
        # `mark_in_buf` is only ever combined with wrapping arithmetic: it is kept as the signed
        # difference mark - pos_of_buf (DESIGN §3.1; exact while position() has not wrapped)
        "mark_in_buf": dict(lean="markInBuf", ty="wusize", set="(({}) : Int)"),
        "chunk_size": dict(lean="chunk", ty="usize"),
    }
    types = {"io::Result<()>": "Except IoErr Unit", "Option<&io::Error>": "Option IoErr", "[u8]": "List UInt8",
             "Option<io::Error>": "Option IoErr", "io::Error": "IoErr", "wusize": "Int"}
    skip = {
        "from_buf_reader": "constructor glue over std::io::BufReader / Cursor::chain (contract in Source.pre)",
        "from_read": "boxes its argument",
        "from_boxed_dyn_read": "struct literal; initial field values are compared by the tie theorem `init_eq` through DEFAULTS",
        "buf_ptr": "returns a raw pointer (no Lean counterpart); its only use, the 8-byte load of the text scanners, is translated there",
    }
    fuel = {"request_cold": "(← RM.get).fuel + 1", "request_byte_at_offset_cold": "(← RM.get).fuel + 1",
            "request_more": "ReaderExt.retryFuel (← RM.get)"}
    consts = {"io::ErrorKind::Interrupted": ("IoErr.interrupted", "io::ErrorKind")}

    def __init__(self):
        super().__init__()

        def vec_len(em, f, e, env, hint):
            return Code(f"(← RM.get).{f['lean']}.length", "usize")

        def vec_get(em, f, e, env, hint):
            lo, hi = _range_args(em, e[3][0], env)
            return Code(f"(sliceChecked (← RM.get).{f['lean']} {paren(lo.val)} {paren(hi.val)})", "Option<[u8]>", lo.pre + hi.pre)

        def vec_get_unchecked(em, f, e, env, hint):
            a = e[3][0]
            if a[0] == "range":
                lo, hi = _range_args(em, a, env)
                t = env.fresh()
                return Code(t, "[u8]", lo.pre + hi.pre + [f"let {t} ← RM.liftOpt (sliceChecked (← RM.get).{f['lean']} {paren(lo.val)} {paren(hi.val)})"])
            i = em.cexpr(a, env, "usize")
            t = env.fresh()
            return Code(t, "u8", i.pre + [f"let {t} ← RM.liftOpt (indexChecked (← RM.get).{f['lean']} {paren(i.val)})"])

        def vec_copy_within(em, f, e, env, hint):
            lo, hi = _range_args(em, e[3][0], env)
            d = em.cexpr(e[3][1], env, "usize")
            return Code("()", "()", lo.pre + hi.pre + d.pre + [f"ReaderExt.copyWithin {paren(lo.val)} {paren(hi.val)} {paren(d.val)}"])

        def vec_truncate(em, f, e, env, hint):
            n = em.cexpr(e[3][0], env, "usize")
            return Code("()", "()", n.pre + [f"ReaderExt.truncate {paren(n.val)}"])

        def vec_shrink(em, f, e, env, hint):
            return Code("()", "()", [])

        def vec_resize(em, f, e, env, hint):
            n = em.cexpr(e[3][0], env, "usize")
            v = em.cexpr(e[3][1], env, "u8")
            return Code("()", "()", n.pre + v.pre + [f"ReaderExt.resize {paren(n.val)} {paren(v.val)}"])

        def opt_take(em, f, e, env, hint):
            t = env.fresh()
            return Code(t, "Option<io::Error>", [f"let {t} ← ReaderExt.takeIoError"])

        def opt_as_ref(em, f, e, env, hint):
            return Code(f"(ReaderExt.optOfBool (← RM.get).{f['lean']})", "Option<&io::Error>")

        def read_read(em, f, e, env, hint):
            a = strip_ref(e[3][0])
            if a[0] != "index" or em.state_field(a[1], env) is None or em.state_field(a[1], env)["lean"] != "buf":
                raise TErr("reader: `read` is expected to fill a slice of self.buf")
            lo, hi = _range_args(em, a[2], env)
            t = env.fresh()
            return Code(t, "io::Result<usize>", lo.pre + hi.pre + [f"let {t} ← ReaderExt.readInto {paren(lo.val)} {paren(hi.val)}"])

        self.field_methods = {
            ("Vec<u8>", "len"): vec_len, ("Vec<u8>", "get"): vec_get, ("Vec<u8>", "get_unchecked"): vec_get_unchecked,
            ("Vec<u8>", "copy_within"): vec_copy_within, ("Vec<u8>", "truncate"): vec_truncate,
            ("Vec<u8>", "shrink_to_fit"): vec_shrink, ("Vec<u8>", "resize"): vec_resize,
            ("Option<io::Error>", "take"): opt_take, ("Option<io::Error>", "as_ref"): opt_as_ref,
            ("Box<dyn Read>", "read"): read_read,
        }

        def osub(em, c, e, env, hint):
            a = em.cexpr(e[3][0], env, "usize")
            return Code(f"(usizeOSub {paren(c.val)} {paren(a.val)})", "(usize, bool)", c.pre + a.pre)

        def wadd(em, c, e, env, hint):
            a = em.cexpr(e[3][0], env, "usize")
            if a.ty == "wusize":      # pos_of_buf.wrapping_add(mark_in_buf): reduce mod 2^64
                return Code(f"((({c.val} : Int) + {a.val}) % (usizeModulus : Int)).toNat", "usize", c.pre + a.pre)
            # pos_of_buf.wrapping_add(pos_in_buf): position() has not wrapped (stated assumption)
            return Code(f"({c.val} + {a.val})", "usize", c.pre + a.pre)

        def wsub(em, c, e, env, hint):
            a = em.cexpr(e[3][0], env, "usize")
            return Code(f"(({c.val} : Int) - ({a.val} : Int))", "wusize", c.pre + a.pre)

        def is_some(em, c, e, env, hint):
            return Code(f"({c.val}).isSome", "bool", c.pre)

        def err_kind(em, c, e, env, hint):
            return Code(c.val, "io::ErrorKind", c.pre)

        self.value_methods = {
            ("usize", "overflowing_sub"): osub, ("usize", "wrapping_add"): wadd,
            ("usize", "wrapping_sub"): wsub, ("wusize", "wrapping_sub"): wsub,
            ("Option<[u8]>", "is_some"): is_some, ("io::Error", "kind"): err_kind,
        }


# ======================================================================================= driver
UNITS = [ReaderUnit]


def struct_fields(src, name):
    m = re.search(r"pub struct " + name + r"\b[^{]*\{(.*?)\n\}", src, re.S)
    if not m:
        return None
    body = re.sub(r"//[^\n]*", "", m.group(1))
    return re.findall(r"^\s*(?:pub\s+)?([a-z_][a-z0-9_]*)\s*:", body, re.M)


def const_values(src, impl):
    """`const NAME: usize = <int expr>;` inside the file -> {`Self::NAME`: (value, type)}."""
    out = {}
    for m in re.finditer(r"const\s+([A-Z_0-9]+)\s*:\s*(usize|u64|u32|u8)\s*=\s*([^;]+);", src):
        expr = m.group(3).strip()
        if not re.fullmatch(r"[0-9xa-fA-F_<>+*\-\s()]+", expr):
            raise TErr(f"constant {m.group(1)} = `{expr}` is not a plain integer expression")
        val = eval(expr.replace("_", ""), {"__builtins__": {}})
        out["Self::" + m.group(1)] = (str(val), m.group(2))
        out[m.group(1)] = (str(val), m.group(2))
    return out


def callees(tree, acc):
    if isinstance(tree, tuple):
        if tree and tree[0] == "mcall":
            acc.add(tree[2])
        if tree and tree[0] == "call" and tree[1][0] == "path":
            acc.add(tree[1][1][-1])
        for x in tree[1:]:
            callees(x, acc)
    elif isinstance(tree, list):
        for x in tree:
            callees(x, acc)


def topo(fns, u):
    """Callees first (Lean needs definitions before use); recursion between functions is outside the subset."""
    names = {f.name: f for f in fns}
    deps = {}
    for f in fns:
        acc = set()
        callees(f.body, acc)
        deps[f.name] = [n for n in acc if n in names and n != f.name]
    out, state = [], {}

    def visit(n, stack):
        if state.get(n) == 2:
            return
        if state.get(n) == 1:
            raise TErr(f"{u.name}: recursion between functions {stack}")
        state[n] = 1
        for d in deps[n]:
            visit(d, stack + [d])
        state[n] = 2
        out.append(names[n])

    for f in fns:
        visit(f.name, [f.name])
    return out


def translate_unit(ucls, repo):
    u = ucls()
    path = os.path.join(repo, u.file)
    src = open(path).read()
    fns = rsparse.parse_file(path)
    mine = [f for f in fns if (f.impl_of is None and u.impl is None) or
            (f.impl_of is not None and f.impl_of[1] == u.impl and (f.impl_of[0] is None or f.impl_of[0] in u.traits))]
    if u.only is not None if hasattr(u, "only") else False:
        mine = [f for f in mine if f.name in u.only or f.name in u.skip]
    u.fns = {f.name: f for f in mine}
    u.consts = dict(u.consts)
    u.consts.update(const_values(src, u.impl))
    problems = []
    if u.struct:
        got = struct_fields(src, u.struct[0])
        if got != u.struct[1]:
            problems.append(f"struct {u.struct[0]} has fields {got}, the model knows {u.struct[1]}")
    em = Emitter(u)
    defs, done = [], []
    mine = topo(mine, u)
    for f in mine:
        if f.name in u.skip:
            continue
        try:
            if norm_ty(f.ret or "") == "!":
                continue
            defs.append(f"/-- `{u.file}:{f.line}` `{f.name}` -/\n" + em.function(f, u.lean_name(f.name)))
            done.append(f.name)
        except (TErr, rsparse.RsErr) as ex:
            problems.append(f"{u.file}: fn {f.name}: {ex}")
    for s in u.skip:
        if s not in u.fns:
            problems.append(f"{u.file}: excluded function `{s}` no longer exists")
    text = (f"/-\nGENERATED by tools/gen_core.py from /repo/{u.file}.\nDo not edit: regenerated on every check run.\n-/\n"
            + "".join(f"import {i}\n" for i in u.imports)
            + "\nset_option linter.unusedVariables false\n"
            + f"\nnamespace {u.namespace}\nopen Flussab\n\n" + u.header
            + "\n\n".join(defs) + f"\n\nend {u.namespace}\n")
    return u, text, done, problems


def main():
    repo, out = sys.argv[1], sys.argv[2]
    os.makedirs(out, exist_ok=True)
    manifest, all_problems = {}, []
    for ucls in UNITS:
        u, text, done, problems = translate_unit(ucls, repo)
        p = os.path.join(out, u.out)
        if not os.path.exists(p) or open(p).read() != text:
            open(p, "w").write(text)
        manifest[u.name] = dict(file=u.file, lean=u.out, translated=done, excluded=u.skip)
        all_problems += problems
    mp = os.path.join(out, "core_manifest.json")
    mt = json.dumps(manifest, indent=1, sort_keys=True)
    if not os.path.exists(mp) or open(mp).read() != mt:
        open(mp, "w").write(mt)
    if all_problems:
        print("gen_core: translation failed:")
        for pr in all_problems:
            print("  " + pr)
        sys.exit(1)


if __name__ == "__main__":
    main()
