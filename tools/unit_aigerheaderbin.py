"""Translation unit: `Header::parse::<L>` of flussab-aiger/src/binary.rs (see unit_aigerheader.py)."""
from unit_aigerheader import AigerHeaderUnit


class AigerHeaderBinaryUnit(AigerHeaderUnit):
    name = "aigerheader_binary"
    file = "flussab-aiger/src/binary.rs"
    out = "AigerHeaderBinaryGen.lean"
    namespace = "Flussab.Gen.AigerHeaderBinary"


UNIT = AigerHeaderBinaryUnit
