#!/usr/bin/env python3
"""mk_seed_prompt.py <tag> <property-id> <focus text> [--hard]
Creates a scratch worktree /tmp/seed_<tag> of /repo (with the git-ignored Cargo.lock) and writes
/tmp/seed_prompt_<tag>.txt: the brief for a sub-agent that seeds a realistic property-breaking
change.  The brief contains the property text and nothing from /verif."""
import json, os, subprocess, sys
tag, pid, focus = sys.argv[1:4]
hard = "--hard" in sys.argv
props = {json.loads(l)["id"]: json.loads(l) for l in open("/verif/properties.jsonl")}
p = props[pid]
wt = f"/tmp/seed_{tag}"
subprocess.run(f"git -C /repo worktree remove --force {wt}", shell=True, capture_output=True)
subprocess.run(f"git -C /repo worktree add -q --detach {wt} HEAD && cp /repo/Cargo.lock {wt}/", shell=True, check=True)
suite = """
What the verification suite you are trying to slip past does (so do not bother with what it obviously sees):
it runs the real code and an executable reference model on the same generated inputs and compares every
observable result (items, values, error kind and line:column, reader window/position/mark/flags, number of
reads, bytes reaching the sink), in debug AND release builds; each document is parsed under several read
schedules (one-shot, 1-byte, 2-byte, random short reads with Interrupted, one line per read, one byte per read
with the exact number of bytes pulled checked per item), through every constructor (new / from_read /
from_boxed_dyn_read / from_buf_reader), and also after the caller has already looked at the head of the stream
(request(k) before building the parser); faults are injected at every offset of small documents and at random
offsets of large ones, with varying io::ErrorKind; sources whose read() panics or over-reports, sinks that
fail, return short counts or panic; writers dropped normally and during unwinding; writer objects reused for
a second document; numerals at all type boundaries and wrap-around classes; exhaustive enumeration of short
strings for the scanners and of the combinator table; comment / symbol / ignored-line text drawn from all 256
byte values with emphasis on one-bit neighbours of delimiters; every string, byte-string and integer literal
that occurs in the source is used as a dictionary (spliced into documents as prefix / at line starts, sizes
placed around every integer constant: c-1, c, c+1, 2c, ...); 'scale' families stretch every size-like
dimension (bytes, run lengths, tokens per line, items, lines, stream position, pre-buffered bytes, variables,
recursion depth) to 2^20 and beyond; user-defined literal types that assert the trait contract; per-call
allocation bounds; independent oracles (round trip against constructed values, independent lexer for accepted
numbers, exact error location for corrupted tokens, semantic simulation for circuits).  A plain size
threshold, a magic prefix that appears as a literal in your patch, or anything that changes behaviour on small
generic inputs WILL be found.  Look instead for: rare combinations of states or options, sequences of API calls
the suite is unlikely to try (order, repetition, state left behind by an earlier call or an earlier error),
differences that only show in what is NOT consumed / NOT written, arithmetic that goes wrong only for
particular value relations (not sizes), or conditions on the content of the input that neither random
generation nor a literal dictionary is likely to produce.
""" if hard else ""
txt = f"""You are helping to evaluate a verification suite for the Rust workspace in {wt} (a git worktree of the
library 'flussab': deferred buffered reader/writer, parser combinators, DIMACS CNF/WCNF/GCNF + SAT solver log,
AIGER ASCII/binary, BTOR2).  Work ONLY inside {wt}; never read or write /repo or /verif; no network
(use `cargo ... --offline`).

The property under test ({pid} — {p['title']}):
{p['statement']}
Quantification: {(p.get('quantifier') or {}).get('text','') if isinstance(p.get('quantifier'), dict) else p.get('quantifier','')}

Your task: make ONE realistic change to the library source (not to tests) — the kind of edit a maintainer could
plausibly make as an optimisation, refactoring, clean-up or feature tweak and get through review — that BREAKS
this property, while the workspace still compiles and the whole existing test suite still passes
(`cargo test --workspace --offline`).  Focus area for this seed: {focus}
{suite}
Deliver, all inside {wt}:
 1. the change applied to the source, and `patch.diff` in the worktree root = `git diff` of the library source
    only (it must apply with `git apply` to a clean checkout; do not include the demo or notes in it);
 2. a demonstration: an integration test file `<crate>/tests/demo_{tag}.rs` (public API only) that FAILS on the
    changed tree and PASSES on the original tree (check both: `git stash`-free way: `git checkout -- <crate>/src`
    restores the original, `git apply patch.diff` re-applies);
 3. `NOTES.md`: what was changed, which clause of the property it breaks, the concrete failing input/history,
    and why you expect the suite to miss it.
Verify before you finish: build ok; existing tests green with the change (move the demo aside for that run);
demo fails with the change and passes without it; leave the worktree with the change applied.
Final message: a short summary (change, clause broken, trigger, verification results, file list).
"""
open(f"/tmp/seed_prompt_{tag}.txt", "w").write(txt)
print(f"/tmp/seed_prompt_{tag}.txt", wt)
