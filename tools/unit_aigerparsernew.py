"""Translation units: `Parser::new` of flussab-aiger/src/ascii.rs and binary.rs
-> Gen/AigerNewAsciiGen.lean / Gen/AigerNewBinaryGen.lean (state `LR`, monad `PM`).

`Header::parse::<L>(&mut reader)?` is the model `Aiger.Header.parse` (tied by Props/TieAigerHeader); what is
translated here is what `new` computes from the header: `max_lit = max_var_index * 2 + 1` (checked `usize`
arithmetic) and, in the binary parser, the next-literal counter `input_count.wrapping_add(1).wrapping_mul(2)`.
`Self { reader, max_lit, [code,] header, _lit_builder }` becomes the model's `Aiger.Parser` record (the reader is
the monad's state; `_lit_builder: PhantomData` has no content).
"""
from unitbase import *
from unit_aigerheader import AigerHeaderUnit, FIELDS


class AigerNewUnit(AigerHeaderUnit):
    impl = "Parser"
    struct = None
    only = {"new"}
    always_generic = True
    bin = False
    checked_add = True
    checked_mul = True
    fuel = {}

    def __init__(self):
        super().__init__()
        self.types = dict(self.types)
        self.types.update({"Config": "Unit", "Result<Self, ParseError>": "Aiger.Parser", "Self": "Aiger.Parser"})
        self.value_fields = {("Header", f): lf for f, lf in FIELDS.items()}
        u = self

        def header_parse(em, e, env, hint):
            if len(e[2]) != 1 or not em.is_state(e[2][0], env):
                raise TErr("Header::parse is expected to be called on the reader")
            t = env.fresh()
            return Code(t, "Header", [f"let {t} ← Aiger.Header.parse {'true' if u.bin else 'false'} l"])

        self.functions = dict(self.functions)
        self.functions["Header::parse"] = header_parse

        def wadd(em, c, e, env, hint):
            a = em.cexpr(e[3][0], env, "usize")
            return Code(f"(({c.val} + {a.val}) % 2 ^ 64)", "usize", c.pre + a.pre)

        def wmul(em, c, e, env, hint):
            a = em.cexpr(e[3][0], env, "usize")
            return Code(f"(({c.val} * {a.val}) % 2 ^ 64)", "usize", c.pre + a.pre)

        self.value_methods = dict(self.value_methods)
        self.value_methods[("usize", "wrapping_add")] = wadd
        self.value_methods[("usize", "wrapping_mul")] = wmul

    def struct_handler(self_unused, em=None, e=None, env=None, hint=None):
        raise TErr("unreachable")


def _struct(em, e, env, hint=None):
    u = em.u
    if e[1][-1] != "Self" or e[3] is not None:
        raise TErr("aigernew: struct literal")
    want = ["reader", "max_lit", "code", "header", "_lit_builder"] if u.bin else ["reader", "header", "max_lit", "_lit_builder"]
    got = [f for f, _ in e[2]]
    if sorted(got) != sorted(want):
        raise TErr(f"aigernew: Self {{ .. }} lists the fields {got}, the model knows {want}")
    vals, pre = {}, []
    for f, v in e[2]:
        if f in ("reader", "_lit_builder"):
            continue
        c = em.cexpr(v, env, "usize" if f != "header" else "Header")
        pre += c.pre
        vals[f] = c.val
    code = vals.get("code", "0")
    body = f"bin := {'true' if u.bin else 'false'}, lit := l, header := {vals['header']}, maxLit := {vals['max_lit']}, code := {code}"
    return Code(f"({{ {body} }} : Aiger.Parser)", "Self", pre)


AigerNewUnit.struct_handler = staticmethod(_struct)


class AigerNewAsciiUnit(AigerNewUnit):
    name = "aigernew_ascii"
    file = "flussab-aiger/src/ascii.rs"
    out = "AigerNewAsciiGen.lean"
    namespace = "Flussab.Gen.AigerNewAscii"
    bin = False


UNIT = AigerNewAsciiUnit
