#!/usr/bin/env python3
"""try_engine.py <repo-or-worktree> <engine> <n> [opt] [seed]
Development aid: build a shadow harness against a scratch worktree, run one engine, and print
how many cases disagree with the model and the oracle failures by property."""
import collections, hashlib, os, re, subprocess, sys
ROOT = os.path.dirname(os.path.dirname(os.path.abspath(__file__)))
repo, engine, n = sys.argv[1], sys.argv[2], sys.argv[3]
opt = sys.argv[4] if len(sys.argv) > 4 else ""
seed = sys.argv[5] if len(sys.argv) > 5 else "1"
H = os.path.join(ROOT, "harness")
if repo != "/repo":
    sh = "/tmp/vh_shadow_" + hashlib.md5(repo.encode()).hexdigest()[:8]
    os.makedirs(sh, exist_ok=True)
    for f in ("Cargo.toml", "Cargo.lock"):
        open(os.path.join(sh, f), "w").write(open(os.path.join(H, f)).read().replace("/repo/", repo.rstrip("/") + "/"))
    for d in ("src", ".cargo"):
        if not os.path.exists(os.path.join(sh, d)):
            os.symlink(os.path.join(H, d), os.path.join(sh, d))
    H = sh
    subprocess.run([sys.executable, os.path.join(ROOT, "tools", "consts_from_source.py"), repo, os.path.join(H, "consts.txt")], stdout=subprocess.DEVNULL)
env = dict(os.environ, CARGO_NET_OFFLINE="true")
r = subprocess.run(["cargo", "build", "--offline", "--quiet"], cwd=H, env=env, stdout=subprocess.PIPE, stderr=subprocess.STDOUT)
if r.returncode:
    print(r.stdout.decode()[-2000:]); sys.exit(2)
vh = os.path.join(H, "target/debug/vh")
cmd = [vh, "gen", engine, "--seed", seed, "--n", n] + (["--opt", opt] if opt else [])
cases = subprocess.run(cmd, stdout=subprocess.PIPE).stdout
impl = subprocess.run([vh, "run"], input=cases, stdout=subprocess.PIPE).stdout.decode().rstrip("\n").split("\n")
model = subprocess.run([os.path.join(ROOT, "lean/.lake/build/bin/driver")], input=cases, stdout=subprocess.PIPE).stdout.decode().rstrip("\n").split("\n")
cl = cases.decode().rstrip("\n").split("\n")
dis = 0; tags = collections.Counter(); first = {}
for c, a, b in zip(cl, impl, model):
    ao, _, af = a.partition("\t"); bo = b.partition("\t")[0]
    if ao != bo:
        dis += 1
        first.setdefault("DIS", (c, ao, bo))
    for m in [x for x in af.split("; ") if x]:
        t = m.split(":")[0]; tags[t] += 1; first.setdefault(t, (c, m))
print(f"{len(cl)} cases, {dis} model disagreements, oracle failures: {dict(tags)}")
for k, v in first.items():
    print(k, "::", " || ".join(x[:300] for x in v))
