"""Translation unit: `write_header`, `write_clause` of flussab-cnf/src/wcnf.rs -> Gen/WcnfWriteGen.lean.
Everything is in `unit_cnfwrite.py` (`DimacsWriteUnit`); here: the file, and the third header field
`top_weight: u64` (= `Hdr.extra`).  `write_clause(writer, weight: u64, clause_lits)`: the weight is written by
`ascii_digits::<u64>` (`false 64`)."""
from unit_cnfwrite import DimacsWriteUnit


class WcnfWriteUnit(DimacsWriteUnit):
    name = "wcnfwrite"
    file = "flussab-cnf/src/wcnf.rs"
    out = "WcnfWriteGen.lean"
    namespace = "Flussab.Gen.WcnfWrite"
    extra_field = "top_weight"
    extra_ty = "u64"


UNIT = WcnfWriteUnit
