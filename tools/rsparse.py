#!/usr/bin/env python3
"""
A parser for the subset of Rust that /repo's non-test sources use: enough to turn every `fn` body
into a tree (statements, expressions, patterns).  Types and generics are kept as token strings.

Used by tools/gen_core.py (the Rust -> Lean translator).  Anything outside the subset raises
`RsErr`; for the translator that is a broken tie, never a silent skip.

Tree shapes (tuples, first element = tag):

  expressions
    ("lit", int)  ("bool", b)  ("byte", int)  ("bstr", bytes)  ("str", s)  ("char", c)
    ("path", [seg, ...])                 a::b::c   (generic arguments dropped)
    ("un", op, e)                        op in ! - * & &mut
    ("bin", op, a, b)                    arithmetic / comparison / && ||
    ("cast", e, type_string)
    ("field", e, name)                   e.name / e.0
    ("mcall", recv, name, [args])        recv.name(args)
    ("call", fn_expr, [args])
    ("index", e, idx)
    ("range", lo|None, hi|None, inclusive)
    ("tuple", [es])                      () is ("tuple", [])
    ("array", [es])
    ("block", [stmts], tail|None, unsafe_flag)
    ("if", cond, then_block, else_expr|None)
    ("iflet", pat, e, then_block, else_expr|None)
    ("match", e, [(pat, guard|None, body_expr)])
    ("loop", block)  ("while", cond, block)  ("whilelet", pat, e, block)  ("for", pat, e, block)
    ("return", e|None)  ("break",)  ("continue",)
    ("macro", name, [arg exprs] | None, raw_token_text)       matches! is ("matches", e, pat, guard)
    ("closure", [param pats], body)
    ("struct", path, [(field, e)], base|None)
    ("try", e)                            e?
  statements
    ("let", pat, type|None, e|None, else_block|None)
    ("expr", e, has_semicolon)
    ("assign", op, lhs, rhs)             op in = += -= *= /= |= &= ^= <<= >>= %=
    ("item", text)                       nested fn/use/const etc. (kept opaque; consts are parsed: ("const", name, ty, e))
  patterns
    ("pwild",) ("pbind", name, by_ref, mutable, subpattern|None) ("plit", expr) ("prange", lo, hi)
    ("ptuple", [ps]) ("pts", path, [ps])   Some(x) / Ok(0)        ("ppath", path)   None
    ("por", [ps]) ("pref", p) ("pstruct", path, [(field, p)], has_rest) ("pslice", [ps])
"""
import re


class RsErr(Exception):
    pass


OPS3 = ["..=", "<<=", ">>=", "..."]
OPS2 = ["::", "->", "=>", "==", "!=", "<=", ">=", "&&", "||", "+=", "-=", "*=", "/=", "%=", "|=", "&=", "^=", "<<", ">>", ".."]
ESC = {"n": 10, "r": 13, "t": 9, "\\": 92, "0": 0, "'": 39, '"': 34}


def tokenize(src):
    toks = []          # (kind, value, line)
    i, n, line = 0, len(src), 1
    while i < n:
        c = src[i]
        if c == "\n":
            line += 1
            i += 1
        elif c.isspace():
            i += 1
        elif src.startswith("//", i):
            j = src.find("\n", i)
            i = n if j < 0 else j
        elif src.startswith("/*", i):
            depth, j = 1, i + 2
            while j < n and depth:
                if src.startswith("/*", j):
                    depth += 1
                    j += 2
                elif src.startswith("*/", j):
                    depth -= 1
                    j += 2
                else:
                    if src[j] == "\n":
                        line += 1
                    j += 1
            i = j
        elif c == "b" and i + 1 < n and src[i + 1] == "'":
            j = i + 2
            if src[j] == "\\":
                if src[j + 1] == "x":
                    v = int(src[j + 2:j + 4], 16)
                    j += 4
                else:
                    v = ESC[src[j + 1]]
                    j += 2
            else:
                v = ord(src[j])
                j += 1
            if src[j] != "'":
                raise RsErr(f"line {line}: bad byte literal")
            toks.append(("byte", v, line))
            i = j + 1
        elif (c == "b" and i + 1 < n and src[i + 1] == '"') or c == '"':
            isb = c == "b"
            j = i + (2 if isb else 1)
            out = bytearray()
            while src[j] != '"':
                if src[j] == "\\":
                    e = src[j + 1]
                    if e == "x":
                        out.append(int(src[j + 2:j + 4], 16))
                        j += 4
                    elif e == "\n":
                        j += 2
                        while src[j].isspace():
                            j += 1
                    elif e == "u":
                        k = src.index("}", j)
                        out += chr(int(src[j + 3:k], 16)).encode()
                        j = k + 1
                    else:
                        out.append(ESC[e])
                        j += 2
                else:
                    if src[j] == "\n":
                        line += 1
                    out += src[j].encode()
                    j += 1
            toks.append(("bstr" if isb else "str", bytes(out), line))
            i = j + 1
        elif c == "r" and re.match(r'r#*"', src[i:]):
            m = re.match(r'r(#*)"', src[i:])
            close = '"' + m.group(1)
            j = src.index(close, i + len(m.group(0)))
            toks.append(("str", src[i + len(m.group(0)):j].encode(), line))
            line += src.count("\n", i, j)
            i = j + len(close)
        elif c == "'":
            # char literal or lifetime
            m = re.match(r"'(\\x[0-9a-fA-F]{2}|\\u\{[0-9a-fA-F]+\}|\\.|[^\\'])'", src[i:])
            if m:
                toks.append(("char", m.group(1), line))
                i += len(m.group(0))
            else:
                m = re.match(r"'[A-Za-z_][A-Za-z0-9_]*", src[i:])
                if not m:
                    raise RsErr(f"line {line}: stray quote")
                toks.append(("life", m.group(0), line))
                i += len(m.group(0))
        elif c.isdigit():
            m = re.match(r"0x[0-9a-fA-F_]+|0b[01_]+|0o[0-7_]+|[0-9][0-9_]*", src[i:])
            lit = m.group(0)
            i += len(lit)
            m2 = re.match(r"(u8|u16|u32|u64|u128|usize|i8|i16|i32|i64|i128|isize)\b", src[i:])
            suf = None
            if m2:
                suf = m2.group(0)
                i += len(suf)
            toks.append(("int", (int(lit.replace("_", ""), 0), suf), line))
        elif c.isalpha() or c == "_":
            m = re.match(r"[A-Za-z_][A-Za-z0-9_]*", src[i:])
            toks.append(("id", m.group(0), line))
            i += len(m.group(0))
        else:
            for ops in (OPS3, OPS2):
                hit = next((o for o in ops if src.startswith(o, i)), None)
                if hit:
                    break
            if hit:
                toks.append(("op", hit, line))
                i += len(hit)
            elif c in "+-*/%^&|!=<>.,;:(){}[]#?@$~":
                toks.append(("op", c, line))
                i += 1
            else:
                raise RsErr(f"line {line}: unexpected character {c!r}")
    return toks


KEYWORDS_EXPR_START = {"if", "match", "loop", "while", "for", "unsafe", "return", "break", "continue"}


class P:
    def __init__(self, toks, name="<src>"):
        self.t = toks
        self.i = 0
        self.name = name

    # -- token helpers
    def peek(self, k=0):
        j = self.i + k
        return self.t[j] if j < len(self.t) else ("eof", None, -1)

    def at(self, kind, val=None, k=0):
        p = self.peek(k)
        return p[0] == kind and (val is None or p[1] == val)

    def at_op(self, val, k=0):
        return self.at("op", val, k)

    def at_id(self, val=None, k=0):
        return self.at("id", val, k)

    def eat(self, kind, val=None):
        if self.at(kind, val):
            self.i += 1
            return self.t[self.i - 1]
        return None

    def eat_op(self, val):
        return self.eat("op", val)

    def eat_id(self, val):
        return self.eat("id", val)

    def expect(self, kind, val=None):
        p = self.eat(kind, val)
        if not p:
            q = self.peek()
            raise RsErr(f"{self.name}: line {q[2]}: expected {val or kind}, found {q[1]!r}")
        return p

    def err(self, msg):
        q = self.peek()
        raise RsErr(f"{self.name}: line {q[2]}: {msg} (at {q[1]!r})")

    # -- attributes
    def skip_attrs(self):
        while self.at_op("#"):
            self.i += 1
            self.eat_op("!")
            self.skip_balanced("[", "]")

    def skip_balanced(self, o, c):
        self.expect("op", o)
        depth = 1
        while depth:
            p = self.peek()
            if p[0] == "eof":
                self.err("unbalanced " + o)
            if p[0] == "op" and p[1] == o:
                depth += 1
            elif p[0] == "op" and p[1] == c:
                depth -= 1
            self.i += 1

    # -- types (kept as text)
    def generics_skip(self):
        """At '<': skip to the matching '>' (counts '>>' as two)."""
        self.expect("op", "<")
        depth = 1
        while depth:
            p = self.peek()
            if p[0] == "eof":
                self.err("unbalanced <")
            if p[0] == "op":
                if p[1] == "<":
                    depth += 1
                elif p[1] == ">":
                    depth -= 1
                elif p[1] == ">>":
                    depth -= 2
                elif p[1] == "->":
                    pass
                elif p[1] in ("(", "["):
                    self.skip_balanced(p[1], ")" if p[1] == "(" else "]")
                    continue
            self.i += 1
        if depth < 0:
            self.err("generic bracket mismatch")

    def type_(self):
        """Parse a type, return its text."""
        start = self.i
        self._type()
        return " ".join(str(t[1]) if t[0] != "int" else str(t[1][0]) for t in self.t[start:self.i])

    def _type(self):
        if self.eat_op("&") or self.eat_op("&&"):
            self.eat("life")
            self.eat_id("mut")
            return self._type()
        if self.eat_op("*"):
            if not (self.eat_id("const") or self.eat_id("mut")):
                self.err("raw pointer type")
            return self._type()
        if self.eat_op("!"):
            return
        if self.at_op("("):
            self.skip_balanced("(", ")")
            return
        if self.at_op("["):
            self.skip_balanced("[", "]")
            return
        if self.eat_id("impl") or self.eat_id("dyn"):
            self._bounds()
            return
        if self.at_id("fn") or self.at_id("Fn") or self.at_id("FnMut") or self.at_id("FnOnce"):
            self.i += 1
            self.skip_balanced("(", ")")
            if self.eat_op("->"):
                self._type()
            return
        if self.at_op("<"):      # qualified path <T as Trait>::X
            self.generics_skip()
            while self.eat_op("::"):
                self.expect("id")
            return
        self._type_path()

    def _type_path(self):
        self.eat_op("::")
        while True:
            if not (self.eat("id")):
                self.err("type path")
            if self.at_op("<"):
                self.generics_skip()
            if self.at_op("::") and (self.at("id", None, 1) or self.at_op("<", 1)):
                self.i += 1
                if self.at_op("<"):
                    self.generics_skip()
                    if not self.eat_op("::"):
                        return
                continue
            return

    def _bounds(self):
        while True:
            if self.eat("life"):
                pass
            elif self.eat_op("?"):
                self._type_path()
            elif self.at_op("("):
                self.skip_balanced("(", ")")
            else:
                if self.at_id("for"):
                    self.i += 1
                    self.generics_skip()
                if self.at_id("Fn") or self.at_id("FnMut") or self.at_id("FnOnce"):
                    self._type()
                else:
                    self._type_path()
            if not self.eat_op("+"):
                return

    # -- patterns
    def pattern(self):
        self.eat_op("|")
        ps = [self.pattern1()]
        while self.at_op("|") and not self.at_op("||"):
            self.i += 1
            ps.append(self.pattern1())
        return ps[0] if len(ps) == 1 else ("por", ps)

    def pat_literal(self):
        neg = bool(self.eat_op("-"))
        p = self.peek()
        if p[0] == "int":
            self.i += 1
            return ("lit", -p[1][0] if neg else p[1][0])
        if p[0] == "byte":
            self.i += 1
            return ("byte", p[1])
        if p[0] == "bstr":
            self.i += 1
            return ("bstr", p[1])
        if p[0] == "str":
            self.i += 1
            return ("str", p[1])
        if p[0] == "char":
            self.i += 1
            return ("char", p[1])
        if p[0] == "id" and p[1] in ("true", "false"):
            self.i += 1
            return ("bool", p[1] == "true")
        return None

    def pattern1(self):
        if self.eat_op("&") or self.eat_op("&&"):
            self.eat_id("mut")
            return ("pref", self.pattern1())
        if self.at_id("_") :
            self.i += 1
            return ("pwild",)
        if self.at_op("("):
            self.i += 1
            ps = []
            while not self.at_op(")"):
                ps.append(self.pattern())
                if not self.eat_op(","):
                    break
            self.expect("op", ")")
            return ps[0] if len(ps) == 1 and not self.at_op(",", -2) else ("ptuple", ps)
        if self.at_op("["):
            self.i += 1
            ps = []
            while not self.at_op("]"):
                if self.eat_op(".."):
                    ps.append(("prest",))
                else:
                    ps.append(self.pattern())
                if not self.eat_op(","):
                    break
            self.expect("op", "]")
            return ("pslice", ps)
        lit = self.pat_literal()
        if lit is not None:
            if self.eat_op("..="):
                hi = self.pat_literal()
                if hi is None:
                    hi = ("path", self.path_segments())
                return ("prange", lit, hi)
            return ("plit", lit)
        by_ref = bool(self.eat_id("ref"))
        mutable = bool(self.eat_id("mut"))
        if not self.at("id"):
            self.err("pattern")
        # identifier / path
        segs = self.path_segments()
        if by_ref or mutable or (len(segs) == 1 and (segs[0][0].islower() or segs[0][0] == "_") and not self.at_op("(") and not self.at_op("{")):
            sub = None
            if self.eat_op("@"):
                sub = self.pattern1()
            return ("pbind", segs[0], by_ref, mutable, sub)
        if self.at_op("("):
            self.i += 1
            ps = []
            while not self.at_op(")"):
                if self.eat_op(".."):
                    ps.append(("prest",))
                else:
                    ps.append(self.pattern())
                if not self.eat_op(","):
                    break
            self.expect("op", ")")
            return ("pts", segs, ps)
        if self.at_op("{"):
            self.i += 1
            fs, rest = [], False
            while not self.at_op("}"):
                if self.eat_op(".."):
                    rest = True
                else:
                    self.eat_id("ref")
                    self.eat_id("mut")
                    name = self.expect("id")[1]
                    if self.eat_op(":"):
                        fs.append((name, self.pattern()))
                    else:
                        fs.append((name, ("pbind", name, False, False, None)))
                if not self.eat_op(","):
                    break
            self.expect("op", "}")
            return ("pstruct", segs, fs, rest)
        if self.eat_op("..="):
            hi = self.pat_literal() or ("path", self.path_segments())
            return ("prange", ("path", segs), hi)
        return ("ppath", segs)

    def path_segments(self):
        segs = []
        self.eat_op("::")
        while True:
            if self.at_op("<"):          # <T as Trait>::name
                self.generics_skip()
                segs.append("<qualified>")
            else:
                segs.append(self.expect("id")[1])
            if self.at_op("::"):
                if self.at_op("<", 1):   # turbofish
                    self.i += 1
                    self.generics_skip()
                    if self.at_op("::"):
                        self.i += 1
                        continue
                    return segs
                self.i += 1
                continue
            return segs

    # -- expressions
    BIN_LEVELS = [["||"], ["&&"], ["==", "!=", "<", ">", "<=", ">="], ["|"], ["^"], ["&"], ["<<", ">>"], ["+", "-"], ["*", "/", "%"]]

    def expr(self, nostruct=False):
        e = self.range_expr(nostruct)
        p = self.peek()
        if p[0] == "op" and p[1] in self.ASSIGN_OPS:
            self.i += 1
            return ("assign", p[1], e, self.expr(nostruct))
        return e

    def range_expr(self, ns):
        if self.at_op("..") or self.at_op("..="):
            inc = self.peek()[1] == "..="
            self.i += 1
            hi = None
            if self.starts_expr():
                hi = self.bin_expr(0, ns)
            return ("range", None, hi, inc)
        lo = self.bin_expr(0, ns)
        if self.at_op("..") or self.at_op("..="):
            inc = self.peek()[1] == "..="
            self.i += 1
            hi = None
            if self.starts_expr(ns):
                hi = self.bin_expr(0, ns)
            return ("range", lo, hi, inc)
        return lo

    def starts_expr(self, ns=False):
        p = self.peek()
        if p[0] in ("int", "byte", "bstr", "str", "char", "id"):
            return True
        if p[0] == "op" and p[1] in ("(", "[", "!", "-", "*", "&", "|", "||") :
            return True
        if p[0] == "op" and p[1] == "{" and not ns:
            return True
        return False

    def bin_expr(self, lvl, ns):
        if lvl == len(self.BIN_LEVELS):
            return self.cast_expr(ns)
        lhs = self.bin_expr(lvl + 1, ns)
        while True:
            p = self.peek()
            if p[0] == "op" and p[1] in self.BIN_LEVELS[lvl]:
                # `|` followed by `=`? handled by tokenizer (|=). `&&` vs `& &`: tokenizer gives &&.
                self.i += 1
                rhs = self.bin_expr(lvl + 1, ns)
                lhs = ("bin", p[1], lhs, rhs)
            else:
                return lhs

    def cast_expr(self, ns):
        e = self.unary(ns)
        while self.eat_id("as"):
            e = ("cast", e, self.type_())
        return e

    def unary(self, ns):
        if self.eat_op("!"):
            return ("un", "!", self.unary(ns))
        if self.eat_op("-"):
            return ("un", "-", self.unary(ns))
        if self.eat_op("*"):
            return ("un", "*", self.unary(ns))
        if self.eat_op("&&"):
            self.eat_id("mut")
            return ("un", "&", ("un", "&", self.unary(ns)))
        if self.eat_op("&"):
            if self.eat_id("mut"):
                return ("un", "&mut", self.unary(ns))
            return ("un", "&", self.unary(ns))
        return self.postfix(ns)

    def args(self, close=")"):
        out = []
        while not self.at_op(close):
            out.append(self.expr())
            if not self.eat_op(","):
                break
        self.expect("op", close)
        return out

    def postfix(self, ns, e=None):
        if e is None:
            e = self.primary(ns)
        while True:
            if self.at_op(".") :
                self.i += 1
                p = self.peek()
                if p[0] == "int":
                    self.i += 1
                    e = ("field", e, str(p[1][0]))
                    continue
                if self.eat_id("await"):
                    self.err("await")
                name = self.expect("id")[1]
                if self.at_op("::") and self.at_op("<", 1):
                    self.i += 1
                    self.generics_skip()
                if self.at_op("("):
                    self.i += 1
                    e = ("mcall", e, name, self.args())
                else:
                    e = ("field", e, name)
            elif self.at_op("("):
                self.i += 1
                e = ("call", e, self.args())
            elif self.at_op("["):
                self.i += 1
                idx = self.expr()
                self.expect("op", "]")
                e = ("index", e, idx)
            elif self.at_op("?"):
                self.i += 1
                e = ("try", e)
            else:
                return e

    def block(self):
        """'{' stmts '}' -> ("block", stmts, tail, False)"""
        self.expect("op", "{")
        stmts, tail = [], None
        while not self.at_op("}"):
            self.skip_attrs()
            if self.at_op("}"):
                break
            if self.eat_op(";"):
                continue
            st = self.statement()
            if st[0] == "expr" and not st[2]:
                # expression without semicolon: tail if last, else (block-like) statement
                if self.at_op("}"):
                    tail = st[1]
                    break
                if st[1][0] not in ("if", "iflet", "match", "loop", "while", "whilelet", "for", "block"):
                    self.err("expected ; after expression statement")
            stmts.append(st)
        self.expect("op", "}")
        return ("block", stmts, tail, False)

    ITEM_STARTS = {"fn", "use", "struct", "enum", "impl", "trait", "mod", "type", "static", "pub", "extern", "macro_rules"}
    ASSIGN_OPS = {"=", "+=", "-=", "*=", "/=", "%=", "|=", "&=", "^=", "<<=", ">>="}

    def statement(self):
        if self.at_id("let"):
            self.i += 1
            pat = self.pattern()
            ty = None
            if self.eat_op(":"):
                ty = self.type_()
            e = els = None
            if self.eat_op("="):
                e = self.expr()
                if self.eat_id("else"):
                    els = self.block()
            self.expect("op", ";")
            return ("let", pat, ty, e, els)
        if self.at_id("const") and self.at("id", None, 1) and self.at_op(":", 2):
            self.i += 1
            name = self.expect("id")[1]
            self.expect("op", ":")
            ty = self.type_()
            self.expect("op", "=")
            e = self.expr()
            self.expect("op", ";")
            return ("const", name, ty, e)
        if self.at("id") and self.peek()[1] in self.ITEM_STARTS and not (self.at_id("unsafe")):
            start = self.i
            self.skip_item()
            return ("item", " ".join(str(t[1]) for t in self.t[start:self.i]))
        if self.at_op("{") or self.at("life") or (self.at("id") and self.peek()[1] in ("if", "match", "loop", "while", "for", "unsafe")):
            # block-like expression statement: ends at its closing brace
            e = self.primary(False)
            if self.at_op(".") or self.at_op("?"):
                e = self.postfix(False, e)
            semi = bool(self.eat_op(";"))
            return ("expr", e, semi)
        e = self.expr()
        if e[0] == "assign":
            if not self.eat_op(";") and not self.at_op("}"):
                self.err("expected ; after assignment")
            return e
        semi = bool(self.eat_op(";"))
        return ("expr", e, semi)

    def skip_item(self):
        """Skip a nested item: up to ';' at depth 0 or a balanced '{...}' at depth 0."""
        depth = 0
        while True:
            p = self.peek()
            if p[0] == "eof":
                self.err("unterminated item")
            if p[0] == "op" and p[1] in "([":
                depth += 1
            elif p[0] == "op" and p[1] in ")]":
                depth -= 1
            elif p[0] == "op" and p[1] == "{" and depth == 0:
                self.skip_balanced("{", "}")
                return
            elif p[0] == "op" and p[1] == ";" and depth == 0:
                self.i += 1
                return
            self.i += 1

    def primary(self, ns):
        p = self.peek()
        k, v = p[0], p[1]
        if k == "int":
            self.i += 1
            return ("lit", v[0]) if v[1] is None else ("cast", ("lit", v[0]), v[1])
        if k == "byte":
            self.i += 1
            return ("byte", v)
        if k == "bstr":
            self.i += 1
            return ("bstr", v)
        if k == "str":
            self.i += 1
            return ("str", v)
        if k == "char":
            self.i += 1
            return ("char", v)
        if k == "life":   # labelled loop
            self.i += 1
            self.expect("op", ":")
            return ("labeled", v, self.primary(ns))
        if k == "op":
            if v == "(":
                self.i += 1
                es = []
                trailing = False
                while not self.at_op(")"):
                    es.append(self.expr())
                    trailing = False
                    if not self.eat_op(","):
                        break
                    trailing = True
                self.expect("op", ")")
                if len(es) == 1 and not trailing:
                    return ("paren", es[0])
                return ("tuple", es)
            if v == "[":
                self.i += 1
                es = []
                while not self.at_op("]"):
                    es.append(self.expr())
                    if self.eat_op(";"):
                        n = self.expr()
                        self.expect("op", "]")
                        return ("repeat", es[0], n)
                    if not self.eat_op(","):
                        break
                self.expect("op", "]")
                return ("array", es)
            if v == "{":
                return self.block()
            if v in ("|", "||"):
                return self.closure()
            if v == "<":
                segs = self.path_segments()
                return ("path", segs)
            self.err("expression")
        if k != "id":
            self.err("expression")
        if v in ("true", "false"):
            self.i += 1
            return ("bool", v == "true")
        if v == "move" :
            self.i += 1
            return self.closure()
        if v == "unsafe":
            self.i += 1
            b = self.block()
            return ("block", b[1], b[2], True)
        if v == "if":
            return self.if_expr()
        if v == "match":
            self.i += 1
            scrut = self.expr(nostruct=True)
            self.expect("op", "{")
            arms = []
            while not self.at_op("}"):
                self.skip_attrs()
                pat = self.pattern()
                guard = None
                if self.eat_id("if"):
                    guard = self.expr()
                self.expect("op", "=>")
                body = self.block() if self.at_op("{") else self.expr()
                arms.append((pat, guard, body))
                if not self.eat_op(","):
                    if body[0] not in ("block", "if", "iflet", "match", "loop", "while", "whilelet", "for") and not self.at_op("}"):
                        self.err("expected , after match arm")
            self.expect("op", "}")
            return ("match", scrut, arms)
        if v == "loop":
            self.i += 1
            return ("loop", self.block())
        if v == "while":
            self.i += 1
            if self.eat_id("let"):
                pat = self.pattern()
                self.expect("op", "=")
                e = self.expr(nostruct=True)
                return ("whilelet", pat, e, self.block())
            c = self.expr(nostruct=True)
            return ("while", c, self.block())
        if v == "for":
            self.i += 1
            pat = self.pattern()
            self.expect("id", "in")
            e = self.expr(nostruct=True)
            return ("for", pat, e, self.block())
        if v == "return":
            self.i += 1
            e = None
            if self.starts_expr():
                e = self.expr()
            return ("return", e)
        if v == "break":
            self.i += 1
            lab = self.eat("life")
            if self.starts_expr(ns=True) and not self.at_op("}"):
                return ("breakv", lab[1] if lab else None, self.expr())
            return ("break", lab[1]) if lab else ("break",)
        if v == "continue":
            self.i += 1
            lab = self.eat("life")
            return ("continue", lab[1]) if lab else ("continue",)
        # path, macro, struct literal
        segs = self.path_segments()
        if self.at_op("!") and not self.at_op("!=") and (self.at_op("(", 1) or self.at_op("[", 1) or self.at_op("{", 1)):
            self.i += 1
            return self.macro(segs[-1])
        if self.at_op("{") and not ns and (segs[-1][0].isupper()):
            # struct literal
            self.i += 1
            fs, base = [], None
            while not self.at_op("}"):
                if self.eat_op(".."):
                    base = self.expr()
                    break
                name = self.expect("id")[1]
                if self.eat_op(":"):
                    fs.append((name, self.expr()))
                else:
                    fs.append((name, ("path", [name])))
                if not self.eat_op(","):
                    break
            self.expect("op", "}")
            return ("struct", segs, fs, base)
        return ("path", segs)

    def if_expr(self):
        self.expect("id", "if")
        if self.eat_id("let"):
            pat = self.pattern()
            self.expect("op", "=")
            e = self.expr(nostruct=True)
            then = self.block()
            els = None
            if self.eat_id("else"):
                els = self.if_expr() if self.at_id("if") else self.block()
            return ("iflet", pat, e, then, els)
        c = self.expr(nostruct=True)
        then = self.block()
        els = None
        if self.eat_id("else"):
            els = self.if_expr() if self.at_id("if") else self.block()
        return ("if", c, then, els)

    def closure(self):
        params = []
        if self.eat_op("||"):
            pass
        else:
            self.expect("op", "|")
            while not self.at_op("|"):
                params.append(self.pattern1())
                if self.eat_op(":"):
                    self.type_()
                if not self.eat_op(","):
                    break
            self.expect("op", "|")
        if self.eat_op("->"):
            self.type_()
        return ("closure", params, self.expr())

    def macro(self, name):
        o = self.peek()[1]
        c = {"(": ")", "[": "]", "{": "}"}[o]
        start = self.i
        # raw text
        self.skip_balanced(o, c)
        end = self.i
        raw = " ".join(str(t[1]) if t[0] != "int" else str(t[1][0]) for t in self.t[start + 1:end - 1])
        sub = P(self.t[start + 1:end - 1] , self.name)
        if name == "matches":
            e = sub.expr()
            sub.expect("op", ",")
            pat = sub.pattern()
            guard = None
            if sub.eat_id("if"):
                guard = sub.expr()
            sub.eat_op(",")
            if sub.peek()[0] != "eof":
                sub.err("matches! arguments")
            return ("matches", e, pat, guard)
        args = None
        try:
            a = []
            while sub.peek()[0] != "eof":
                a.append(sub.expr())
                if sub.eat_op(";"):          # vec![x; n]
                    a.append(sub.expr())
                    name = name + ";"
                elif not sub.eat_op(","):
                    break
            if sub.peek()[0] == "eof":
                args = a
        except RsErr:
            args = None
        return ("macro", name, args, raw)


class Fn:
    def __init__(self, name, params, ret, body, impl_of, generics, line, is_pub, is_unsafe):
        self.name, self.params, self.ret, self.body = name, params, ret, body
        self.impl_of, self.generics, self.line = impl_of, generics, line
        self.is_pub, self.is_unsafe = is_pub, is_unsafe

    def __repr__(self):
        return f"Fn({self.impl_of}::{self.name})"


def parse_file(path):
    """All fn items of a file (methods carry `impl_of` = (trait|None, type name)); `#[cfg(test)] mod`
    blocks are skipped.  Returns list[Fn]."""
    src = open(path).read()
    toks = tokenize(src)
    p = P(toks, path)
    fns = []
    _items(p, fns, None, top=True)
    return fns


def _items(p, fns, impl_of, top=False):
    while True:
        if p.peek()[0] == "eof":
            if top:
                return
            p.err("unexpected end of file")
        if p.at_op("}") and not top:
            return
        # attributes; remember cfg(test)
        is_test = False
        while p.at_op("#"):
            s = p.i
            p.i += 1
            p.eat_op("!")
            p.skip_balanced("[", "]")
            txt = "".join(str(t[1]) for t in p.t[s:p.i])
            if "cfg(test)" in txt or txt in ("#[test]",):
                is_test = True
        is_pub = False
        if p.eat_id("pub"):
            is_pub = True
            if p.at_op("("):
                p.skip_balanced("(", ")")
        if p.eat_op(";"):
            continue
        t = p.peek()
        if t[0] != "id":
            p.err("item")
        quals = set()
        while p.peek()[1] in ("const", "unsafe", "async", "extern", "default") and not (p.peek()[1] == "const" and not p.at_id("fn", 1) and not p.at_id("unsafe", 1)):
            quals.add(p.peek()[1])
            p.i += 1
            if p.at("str"):
                p.i += 1
        t = p.peek()
        if t[1] == "fn":
            line = t[2]
            p.i += 1
            name = p.expect("id")[1]
            generics = None
            if p.at_op("<"):
                s = p.i
                p.generics_skip()
                generics = " ".join(str(x[1]) for x in p.t[s:p.i])
            p.expect("op", "(")
            params = []
            while not p.at_op(")"):
                p.skip_attrs()
                # self forms
                s = p.i
                if p.eat_op("&"):
                    p.eat("life")
                    m = bool(p.eat_id("mut"))
                    if p.eat_id("self"):
                        params.append(("self", "&mut" if m else "&"))
                        p.eat_op(",")
                        continue
                    p.i = s
                if p.at_id("mut") and p.at_id("self", 1):
                    p.i += 2
                    params.append(("self", "mut"))
                    p.eat_op(",")
                    continue
                if p.eat_id("self"):
                    params.append(("self", ""))
                    p.eat_op(",")
                    continue
                pat = p.pattern1()
                p.expect("op", ":")
                ty = p.type_()
                params.append((pat, ty))
                if not p.eat_op(","):
                    break
            p.expect("op", ")")
            ret = None
            if p.eat_op("->"):
                ret = p.type_()
            if p.eat_id("where"):
                while not p.at_op("{") and not p.at_op(";"):
                    p.i += 1
            if p.eat_op(";"):
                continue          # trait method declaration
            body = p.block()
            if not is_test:
                fns.append(Fn(name, params, ret, body, impl_of, generics, line, is_pub, "unsafe" in quals))
            continue
        if t[1] == "impl":
            p.i += 1
            if p.at_op("<"):
                p.generics_skip()
            s = p.i
            p.eat_op("!")
            ty1 = p.type_()
            trait = None
            if p.eat_id("for"):
                trait = ty1
                ty1 = p.type_()
            if p.eat_id("where"):
                while not p.at_op("{"):
                    p.i += 1
            p.expect("op", "{")
            tn = re.match(r"[&\s]*(?:mut\s+)?([A-Za-z_][A-Za-z0-9_]*)", ty1).group(1)
            tr = re.match(r"([A-Za-z_][A-Za-z0-9_:\s]*)", trait).group(1).replace(" ", "").split("::")[-1] if trait else None
            sub = []
            _items(p, sub, (tr, tn))
            p.expect("op", "}")
            if not is_test:
                fns.extend(sub)
            continue
        if t[1] == "mod":
            p.i += 1
            name = p.expect("id")[1]
            if p.eat_op(";"):
                continue
            p.expect("op", "{")
            sub = []
            _items(p, sub, None)
            p.expect("op", "}")
            if not is_test and name != "tests":
                fns.extend(sub)
            continue
        if t[1] == "trait":
            p.i += 1
            name = p.expect("id")[1]
            while not p.at_op("{"):
                p.i += 1
            p.expect("op", "{")
            sub = []
            _items(p, sub, (name, "<trait>"))
            p.expect("op", "}")
            if not is_test:
                fns.extend(sub)
            continue
        if t[1] in ("use", "struct", "enum", "type", "static", "const", "macro_rules", "union", "extern"):
            p.skip_item()
            continue
        if p.at_op("!", 1):          # item-level macro invocation: name!(...);  name! { ... }
            p.i += 2
            o = p.peek()[1]
            p.skip_balanced(o, {"(": ")", "[": "]", "{": "}"}[o])
            p.eat_op(";")
            continue
        p.err("unknown item")


if __name__ == "__main__":
    import sys
    total = 0
    for path in sys.argv[1:]:
        fns = parse_file(path)
        total += len(fns)
        print(path, len(fns), "fns:", ", ".join(f.name for f in fns)[:200])
    print("total", total)
