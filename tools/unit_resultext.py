"""Translation unit: `impl ResultExt<T, E> for Result<T, E>` of flussab/src/parser.rs -> Gen/ResultExtGen.lean.

The conventions of the unit `parsed` (tools/unit_parsed.py): pure functions, monad `Id`, closures as function
parameters, a closure receiving `&mut T` as a function returning the new referent, `err_into`'s `From::from` as the
ghost parameter `fromE`.  `Result<T, E>` is `Except ε α`.
"""
from unit_parsed import ParsedUnit


class ResultExtUnit(ParsedUnit):
    name = "resultext"
    impl = "Result"
    traits = ("ResultExt",)
    out = "ResultExtGen.lean"
    namespace = "Flussab.Gen.ResultExt"
    self_value_type = "Result<T, E>"
    rename = {}
    types = dict(ParsedUnit.types)
    types.update({"Self": "Except ε α", "Result<T, E2>": "Except ε' α"})


UNIT = ResultExtUnit
