#!/usr/bin/env python3
"""
audit_observables.py <repo>

Static part of the C01 tie (DESIGN.md §2.1): the format crates may touch the DeferredReader only
through methods that have a model (and a schedule-independence lemma where they are schedule
dependent).  Lists every reader method called in flussab-cnf / flussab-aiger / flussab-btor2 and
exits 1 if one appears that is not in the table below.
"""
import os, re, sys

MODELLED = {
    # method: how it is modelled
    "request_byte_at_offset": "View.reqAt (Rel.reqAt)",
    "request_byte": "View.reqByte",
    "advance": "View.advance (Rel.advance)",
    "advance_with_buf": "PM.advanceWithBuf",
    "buf": "PM.bufPrefix on scanned bytes (Rel.bufPrefix)",
    "set_mark": "View.setMark (Rel.setMark)",
    "mark": "View.mark",
    "position": "View.pos",
    "is_at_end": "View.isAtEnd (Rel.observers)",
    "io_error": "View.ioErr (Rel.observers)",
    "check_io_error": "View.checkIoError (Rel.checkIoError)",
    # schedule dependent: explicit buffered-amount parameter + independence theorem
    "buf_len": "bl parameter (C13 multi_eq_simple; BTOR2 lowercase_eq_spec; AIGER remaining_file_content)",
    "buf_ptr": "8-byte load guarded by buf_len (Text.le64)",
}
CONSTRUCTORS = {"from_read", "from_buf_reader", "from_boxed_dyn_read", "new", "into", "from", "reader"}

repo = sys.argv[1] if len(sys.argv) > 1 else "/repo"
bad, seen = [], {}
for crate in ("flussab-cnf", "flussab-aiger", "flussab-btor2"):
    src = os.path.join(repo, crate, "src")
    for f in sorted(os.listdir(src)):
        if not f.endswith(".rs") or f == "tests.rs":
            continue
        text = open(os.path.join(src, f)).read()
        text = re.sub(r"//[^\n]*", "", text)
        for m in re.finditer(r"\breader(?:\(\))?\s*\.\s*([a-z_]+)\s*\(", text):
            meth = m.group(1)
            if meth in CONSTRUCTORS:
                continue
            # methods of parser structs that happen to be called on a field named `reader`
            if meth.startswith("next_") or meth in ("symbols", "outputs", "latches", "and_gates", "comment",
                                                    "bad_state_properties", "invariant_constraints",
                                                    "justice_properties", "fairness_constraints",
                                                    "justice_property_local_fairness_constraints",
                                                    "line_at_offset", "give_up", "give_up_at"):
                continue
            seen[meth] = seen.get(meth, 0) + 1
            if meth not in MODELLED:
                line = text[:m.start()].count("\n") + 1
                bad.append(f"{crate}/src/{f}:{line}: reader.{meth}() has no model")
for k in sorted(seen):
    print(f"{k:28s} {seen[k]:3d}  {MODELLED.get(k, '??')}")
if bad:
    print("\n".join(bad))
    sys.exit(1)
